/-
  GM.Proof.ConvertXSim — the inline loop over two trigger tables whose entries simulate each other up to a relabelling of
  emphasis levels (GM.Proof.ConvertXRelv) on the states that satisfy an invariant `I` of `parent`'s children: the whole loop
  simulates. With the identity relabelling this is "equal parsers on invariant states ⇒ equal runs"; with a proper relabelling
  it transports level facts. No reader invariant is needed.
-/
import GM.Proof.ConvertXRelv

namespace GM.Proof.ConvertXSim
open GM GM.Text GM.Inl GM.Proof.ConvertXRelv

/-- an invariant of the child list the loop's own operations keep -/
structure IClosed (I : List Inl.Node → Prop) : Prop where
  merge : ∀ k s, I k → I (mergeOrAppend k s)
  appT : ∀ k s so ha ra, I k → I (k ++ [.text s so ha ra])
  dropT : ∀ k s so ha ra, I k → I (k.dropLast ++ [.text s so ha ra])

/-- entry `ip2` on the relabelled state does what entry `ip1` does, relabelled; and `ip1` keeps the invariant -/
def EntrySim (g : Int → Int) (I : List Inl.Node → Prop) (env : Env) (ip1 ip2 : XIp) : Prop :=
  ∀ st, I st.kids →
    ip2.parse env (relvSt g st) = (ip1.parse env st).map (relvPR g) ∧
    ∀ n st', ip1.parse env st = .ok (n, st') → I st'.kids ∧ ∀ nd, n = some nd → I (st'.kids ++ [nd])

/-- two table entries (lists of parsers) that simulate each other position by position -/
inductive ListSim (g : Int → Int) (I : List Inl.Node → Prop) (env : Env) : List XIp → List XIp → Prop
  | nil : ListSim g I env [] []
  | cons {a b : XIp} {l1 l2 : List XIp} : EntrySim g I env a b → ListSim g I env l1 l2 → ListSim g I env (a :: l1) (b :: l2)

variable {g : Int → Int} {I : List Inl.Node → Prop} {env : Env}

theorem tryParsersX_sim (l : Int) (p : Segment) {ips1 ips2 : List XIp} (h : ListSim g I env ips1 ips2) :
    ∀ st, I st.kids →
      tryParsersX env l p ips2 (relvSt g st) = (tryParsersX env l p ips1 st).map (relvPR g) ∧
      ∀ n st', tryParsersX env l p ips1 st = .ok (n, st') → I st'.kids ∧ ∀ nd, n = some nd → I (st'.kids ++ [nd]) := by
  induction h with
  | nil =>
    intro st hI
    refine ⟨rfl, ?_⟩
    intro n st' h
    simp only [tryParsersX, pure, Except.pure, Except.ok.injEq, Prod.mk.injEq] at h
    obtain ⟨rfl, rfl⟩ := h
    exact ⟨hI, fun nd h => by cases h⟩
  | cons h1 hr ih =>
    intro st hI
    obtain ⟨e1, e2⟩ := h1 st hI
    simp only [tryParsersX, bind, Except.bind, e1]
    rename_i ip1 ip2 r1 r2
    cases hp : ip1.parse env st with
    | error e => exact ⟨rfl, fun _ _ h => by cases h⟩
    | ok r =>
      obtain ⟨n, st1⟩ := r
      obtain ⟨i1, i2⟩ := e2 n st1 hp
      simp only [Except.map, relvPR]
      cases n with
      | some nd =>
        refine ⟨rfl, ?_⟩
        intro n' st' h
        simp only [pure, Except.pure, Except.ok.injEq, Prod.mk.injEq] at h
        obtain ⟨rfl, rfl⟩ := h
        exact ⟨i1, i2⟩
      | none =>
        simp only [Option.map_none, relvSt_rd]
        cases hs : st1.rd.setPosition l p with
        | error e => exact ⟨rfl, fun _ _ h => by cases h⟩
        | ok rd =>
          simp only []
          exact ih { st1 with rd := rd } i1

theorem ListSim.isEmpty {l1 l2 : List XIp} (h : ListSim g I env l1 l2) : l2.isEmpty = l1.isEmpty := by
  cases h <;> rfl

def relvScan (g : Int → Int) (s : Inl.Scan) : Inl.Scan := { s with st := relvSt g s.st }

def relvTrig (g : Int → Int) : Sum St Inl.Scan → Sum St Inl.Scan
  | .inl st => .inl (relvSt g st)
  | .inr s => .inr (relvScan g s)

/-- the part of `triggerX` behind the flush -/
def trigTail (env : Env) (l : Int) (p : Segment) (ips : List XIp) (s : Inl.Scan) (st0 : St) (sp' : Segment) :
    Except Panic (Sum St Inl.Scan) := do
  let r ← tryParsersX env l p ips st0
  match r.1 with
  | some nd => pure (.inl { r.2 with kids := r.2.kids ++ [nd] })
  | none => pure (.inr { s with st := r.2, n := 0, sp := sp' })

theorem trigTail_sim {ips1 ips2 : List XIp} (h : ListSim g I env ips1 ips2) (l : Int) (p : Segment) (s : Inl.Scan)
    (st0 : St) (sp' : Segment) (hk : I st0.kids) :
    trigTail env l p ips2 (relvScan g s) (relvSt g st0) sp' = (trigTail env l p ips1 s st0 sp').map (relvTrig g) ∧
    ∀ r, trigTail env l p ips1 s st0 sp' = .ok r →
      match r with
      | .inl st => I st.kids
      | .inr s' => I s'.st.kids := by
  obtain ⟨t1, t2⟩ := tryParsersX_sim l p h st0 hk
  unfold trigTail
  simp only [bind, Except.bind, t1]
  cases hp : tryParsersX env l p ips1 st0 with
  | error e => exact ⟨rfl, fun _ h => by cases h⟩
  | ok r =>
    obtain ⟨n, st'⟩ := r
    obtain ⟨j1, j2⟩ := t2 n st' hp
    cases n with
    | some nd =>
      refine ⟨by simp [Except.map, relvPR, relvTrig, relvSt, pure, Except.pure], ?_⟩
      intro r hr
      simp only [pure, Except.pure, Except.ok.injEq] at hr
      subst hr
      exact j2 nd rfl
    | none =>
      refine ⟨by simp [Except.map, relvPR, relvTrig, relvScan, pure, Except.pure], ?_⟩
      intro r hr
      simp only [pure, Except.pure, Except.ok.injEq] at hr
      subst hr
      exact j1

theorem triggerX_eq (env : Env) (ips : List XIp) (i : Nat) (s : Inl.Scan) :
    triggerX env ips i s = (do
      let rd ← s.st.rd.advance s.n
      let ks ← (if i != 0 then (s.sp.between rd.position.2).map (fun seg => (mergeOrAppend s.st.kids seg, rd.position.2))
                else pure (s.st.kids, s.sp))
      trigTail env rd.position.1 rd.position.2 ips s { s.st with rd := rd, kids := ks.1 } ks.2) := rfl

theorem triggerX_sim (C : IClosed I) {ips1 ips2 : List XIp} (h : ListSim g I env ips1 ips2) (i : Nat) (s : Inl.Scan)
    (hI : I s.st.kids) :
    triggerX env ips2 i (relvScan g s) = (triggerX env ips1 i s).map (relvTrig g) ∧
    ∀ r, triggerX env ips1 i s = .ok r →
      match r with
      | .inl st => I st.kids
      | .inr s' => I s'.st.kids := by
  rw [triggerX_eq, triggerX_eq]
  simp only [relvScan, relvSt_rd, bind, Except.bind]
  cases s.st.rd.advance s.n with
  | error e => exact ⟨rfl, fun _ h => by cases h⟩
  | ok rd =>
    simp only []
    by_cases hi : (i != 0) = true
    · simp only [hi, if_true]
      cases s.sp.between rd.position.2 with
      | error e => exact ⟨rfl, fun _ h => by cases h⟩
      | ok seg =>
        simp only [Except.map, relvSt_kids, relvSt_nextId, relvSt_bottoms, ← relvL_mergeOrAppend, relvSt_mk]
        exact trigTail_sim h _ _ s _ _ (C.merge _ seg hI)
    · have hi' : (i != 0) = false := by simpa using hi
      simp only [hi', Bool.false_eq_true, if_false, pure, Except.pure, relvSt_kids, relvSt_nextId, relvSt_bottoms,
        relvSt_mk]
      exact trigTail_sim h _ _ s _ _ hI

def relvSR (g : Int → Int) : ScanRes → ScanRes
  | .hit st e => .hit (relvSt g st) e
  | .eol s => .eol (relvScan g s)

theorem bump_relv (c : UInt8) (s : Inl.Scan) : bump c (relvScan g s) = relvScan g (bump c s) := by
  unfold bump relvScan
  split
  · rfl
  · split <;> rfl

theorem scanX_sim (C : IClosed I) {T1 T2 : UInt8 → List XIp} (hT : ∀ b, ListSim g I env (T1 b) (T2 b)) :
    ∀ (bs : Bytes) (i : Nat) (s : Inl.Scan), I s.st.kids →
      scanX env T2 bs i (relvScan g s) = (scanX env T1 bs i s).map (relvSR g) ∧
      ∀ r, scanX env T1 bs i s = .ok r →
        match r with
        | .hit st _ => I st.kids
        | .eol s' => I s'.st.kids
  | [], i, s, hI => by
    refine ⟨rfl, ?_⟩
    intro r hr
    simp only [scanX, pure, Except.pure, Except.ok.injEq] at hr
    subst hr; exact hI
  | c :: cs, i, s, hI => by
    simp only [scanX, (hT (parserChar c i)).isEmpty]
    have hesc : (relvScan g s).escaped = s.escaped := rfl
    rw [hesc]
    split
    · refine ⟨rfl, ?_⟩
      intro r hr
      simp only [pure, Except.pure, Except.ok.injEq] at hr
      subst hr; exact hI
    · split
      · obtain ⟨t1, t2⟩ := triggerX_sim C (hT (parserChar c i)) i s hI
        rw [t1]
        cases ht : triggerX env (T1 (parserChar c i)) i s with
        | error e => exact ⟨rfl, fun _ h => by cases h⟩
        | ok r =>
          have hr := t2 r ht
          cases r with
          | inl st =>
            simp only [Except.map, relvTrig]
            refine ⟨rfl, ?_⟩
            intro r' hr'
            simp only [pure, Except.pure, Except.ok.injEq] at hr'
            subst hr'; exact hr
          | inr s' =>
            simp only [Except.map, relvTrig, bump_relv]
            exact scanX_sim C hT cs (i + 1) (bump c s') (by rw [GM.Proof.Inlines.bump_st]; exact hr)
      · rw [bump_relv]
        exact scanX_sim C hT cs (i + 1) (bump c s) (by rw [GM.Proof.Inlines.bump_st]; exact hI)

theorem eolText_sim (C : IClosed I) (src : Bytes) (flags : Nat) (diff : Segment) (kids : List Inl.Node) (hI : I kids) :
    eolText src flags diff (relvL g kids) = (eolText src flags diff kids).map (fun x => (x.1, relvL g x.2)) ∧
    ∀ x, eolText src flags diff kids = .ok x → I x.2 := by
  unfold eolText
  split
  · exact ⟨rfl, fun x h => by simp only [pure, Except.pure, Except.ok.injEq] at h; subst h; exact hI⟩
  · simp only [bind, Except.bind]
    cases diff.trimRightSpace src with
    | error e => exact ⟨rfl, fun _ h => by cases h⟩
    | ok seg =>
      simp only []
      split
      · rw [relvL_getLast?]
        cases hl : kids.getLast? with
        | none => exact ⟨rfl, fun x h => by simp only [pure, Except.pure, Except.ok.injEq] at h; subst h; exact hI⟩
        | some n =>
          cases n with
          | text tseg so ha ra =>
            simp only [Option.map_some, relv_text]
            cases so with
            | true => exact ⟨rfl, fun x h => by simp only [pure, Except.pure, Except.ok.injEq] at h; subst h; exact hI⟩
            | false =>
              cases ha with
              | true => exact ⟨rfl, fun x h => by simp only [pure, Except.pure, Except.ok.injEq] at h; subst h; exact hI⟩
              | false =>
                cases ra with
                | true => exact ⟨rfl, fun x h => by simp only [pure, Except.pure, Except.ok.injEq] at h; subst h; exact hI⟩
                | false =>
                  simp only []
                  by_cases hc : (tseg.stop == diff.start) = true
                  · simp only [hc, if_true]
                    cases tseg.trimRightSpace src with
                    | error e => exact ⟨rfl, fun _ h => by cases h⟩
                    | ok t' =>
                      refine ⟨by simp [Except.map, pure, Except.pure], ?_⟩
                      intro x h
                      simp only [pure, Except.pure, Except.ok.injEq] at h
                      subst h
                      exact C.dropT _ _ _ _ _ hI
                  · simp only [hc, Bool.false_eq_true, if_false]
                    exact ⟨rfl, fun x h => by simp only [pure, Except.pure, Except.ok.injEq] at h; subst h; exact hI⟩
          | codeSpan ks => exact ⟨rfl, fun x h => by simp only [pure, Except.pure, Except.ok.injEq] at h; subst h; exact hI⟩
          | emphasis lv ks => exact ⟨rfl, fun x h => by simp only [pure, Except.pure, Except.ok.injEq] at h; subst h; exact hI⟩
          | link im d t ks => exact ⟨rfl, fun x h => by simp only [pure, Except.pure, Except.ok.injEq] at h; subst h; exact hI⟩
          | autoLink e s => exact ⟨rfl, fun x h => by simp only [pure, Except.pure, Except.ok.injEq] at h; subst h; exact hI⟩
          | rawHTML ss => exact ⟨rfl, fun x h => by simp only [pure, Except.pure, Except.ok.injEq] at h; subst h; exact hI⟩
          | delim i d => exact ⟨rfl, fun x h => by simp only [pure, Except.pure, Except.ok.injEq] at h; subst h; exact hI⟩
          | label i sg im => exact ⟨rfl, fun x h => by simp only [pure, Except.pure, Except.ok.injEq] at h; subst h; exact hI⟩
      · exact ⟨rfl, fun x h => by simp only [pure, Except.pure, Except.ok.injEq] at h; subst h; exact hI⟩

theorem endOfLine_sim (C : IClosed I) (flags : Nat) (l : Int) (s : Inl.Scan) (hI : I s.st.kids) :
    endOfLine flags l (relvScan g s) = (endOfLine flags l s).map (relvSt g) ∧
    ∀ st', endOfLine flags l s = .ok st' → I st'.kids := by
  unfold endOfLine
  simp only [relvScan, relvSt_rd, bind, Except.bind]
  have key : ∀ rd : BlockReader,
      (if (l != rd.position.1) = true then (pure { relvSt g s.st with rd := rd } : Except Panic St)
       else do
        let diff ← s.sp.between rd.position.2
        let tk ← eolText rd.source flags diff (relvSt g s.st).kids
        let rd ← rd.advanceLine
        pure { relvSt g s.st with rd := rd, kids := tk.2 ++ [.text tk.1 (flags / 2 % 2 == 1) (flags % 2 == 1) false] }) =
      (if (l != rd.position.1) = true then (pure { s.st with rd := rd } : Except Panic St)
       else do
        let diff ← s.sp.between rd.position.2
        let tk ← eolText rd.source flags diff s.st.kids
        let rd ← rd.advanceLine
        pure { s.st with rd := rd, kids := tk.2 ++ [.text tk.1 (flags / 2 % 2 == 1) (flags % 2 == 1) false] }).map (relvSt g) ∧
      ∀ st', (if (l != rd.position.1) = true then (pure { s.st with rd := rd } : Except Panic St)
       else do
        let diff ← s.sp.between rd.position.2
        let tk ← eolText rd.source flags diff s.st.kids
        let rd ← rd.advanceLine
        pure { s.st with rd := rd, kids := tk.2 ++ [.text tk.1 (flags / 2 % 2 == 1) (flags % 2 == 1) false] }) = .ok st' →
        I st'.kids := by
    intro rd
    split
    · exact ⟨rfl, fun st' h => by simp only [pure, Except.pure, Except.ok.injEq] at h; subst h; exact hI⟩
    · simp only [bind, Except.bind, relvSt_kids]
      cases s.sp.between rd.position.2 with
      | error e => exact ⟨rfl, fun _ h => by cases h⟩
      | ok diff =>
        obtain ⟨t1, t2⟩ := eolText_sim (g := g) C rd.source flags diff s.st.kids hI
        simp only [t1]
        cases he : eolText rd.source flags diff s.st.kids with
        | error e => exact ⟨rfl, fun _ h => by cases h⟩
        | ok tk =>
          have hk := t2 tk he
          simp only [Except.map]
          cases rd.advanceLine with
          | error e => exact ⟨rfl, fun _ h => by cases h⟩
          | ok rd' =>
            refine ⟨by simp [pure, Except.pure, relvSt], ?_⟩
            intro st' h
            simp only [pure, Except.pure, Except.ok.injEq] at h
            subst h
            exact C.appT _ _ _ _ _ hk
  by_cases hn : (s.n != 0) = true
  · simp only [hn, if_true]
    cases s.st.rd.advance s.n with
    | error e => exact ⟨rfl, fun _ h => by cases h⟩
    | ok rd => exact key rd
  · have hn' : (s.n != 0) = false := by simpa using hn
    simp only [hn', Bool.false_eq_true, if_false, pure, Except.pure]
    exact key s.st.rd

/-- **the loop over two tables that simulate each other simulates**, from every state that satisfies the invariant; and the
    first run keeps the invariant -/
theorem lineLoopX_sim (C : IClosed I) {T1 T2 : UInt8 → List XIp} (hT : ∀ b, ListSim g I env (T1 b) (T2 b)) :
    ∀ (fuel : Nat) (esc : Bool) (st : St), I st.kids →
      lineLoopX env T2 fuel esc (relvSt g st) = (lineLoopX env T1 fuel esc st).map (relvSt g) ∧
      ∀ st', lineLoopX env T1 fuel esc st = .ok st' → I st'.kids := by
  intro fuel
  induction fuel with
  | zero => intro esc st _; exact ⟨rfl, fun _ h => by cases h⟩
  | succ f ih =>
    intro esc st hI
    simp only [lineLoopX, relvSt_rd, bind, Except.bind]
    cases st.rd.peekLine with
    | error e => exact ⟨rfl, fun _ h => by cases h⟩
    | ok pl =>
      simp only []
      cases pl.1.1 with
      | none => exact ⟨rfl, fun st' h => by simp only [pure, Except.pure, Except.ok.injEq] at h; subst h; exact hI⟩
      | some line =>
        simp only []
        split
        · exact ⟨rfl, fun _ h => by cases h⟩
        · obtain ⟨t1, t2⟩ := scanX_sim C hT (line.take (classify line).1) 0
            { st := { st with rd := pl.2 }, n := 0, sp := (BlockReader.position pl.2).2, escaped := esc } hI
          have e : ({ st := { relvSt g st with rd := pl.2 }, n := 0, sp := (BlockReader.position pl.2).2, escaped := esc } : Inl.Scan) =
              relvScan g { st := { st with rd := pl.2 }, n := 0, sp := (BlockReader.position pl.2).2, escaped := esc } := rfl
          rw [e, t1]
          cases hs : scanX env T1 (line.take (classify line).1) 0
              { st := { st with rd := pl.2 }, n := 0, sp := (BlockReader.position pl.2).2, escaped := esc } with
          | error e => exact ⟨rfl, fun _ h => by cases h⟩
          | ok r =>
            have hr := t2 r hs
            cases r with
            | hit st' e' =>
              simp only [Except.map, relvSR]
              exact ih e' st' hr
            | eol s' =>
              simp only [Except.map, relvSR]
              obtain ⟨u1, u2⟩ := endOfLine_sim (g := g) C (classify line).2 (BlockReader.position pl.2).1 s' hr
              rw [u1]
              cases he : endOfLine (classify line).2 (BlockReader.position pl.2).1 s' with
              | error e => exact ⟨rfl, fun _ h => by cases h⟩
              | ok st2 =>
                simp only [Except.map]
                exact ih _ st2 (u2 st2 he)

end GM.Proof.ConvertXSim
