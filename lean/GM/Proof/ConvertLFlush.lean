/-
  GM.Proof.ConvertLFlush — on a source without ':', '@' and `www.` the Linkify parser is, in every consultation of a run of the
  inline loop, a parser that returns nil and leaves the state alone: the loop over the table with Linkify IS the loop over the
  table with `nullParser` in Linkify's place (the consultation — Advance, the flush of the pending text, SetPosition — stays).
  Generic part: two tables whose entries agree on the states of a run (loop invariant `LInv`, non-empty peeked line) give the
  same run (`lineLoopX_agree`; the skeleton of GM.Proof.ConvertXTotal.scanX_total).
-/
import GM.Proof.ConvertLTotal

namespace GM.Proof.ConvertLFlush
open GM GM.Text GM.Spec GM.Inl GM.Proof.Reader GM.Proof.InlinesReader GM.Proof.Inlines GM.Proof.InlinesTotal
open GM.Proof.InlinesLink GM.Proof.ConvertXRelv GM.Proof.ConvertXTotal

variable {src : Bytes} {segs : List Segment}

/-- entry lists that agree, position by position, on every state of a run that is consulted at byte `b` -/
inductive AgreeL (X : Ctx) (src : Bytes) (segs : List Segment) (env : Env) (b : UInt8) : List XIp → List XIp → Prop
  | nil : AgreeL X src segs env b [] []
  | cons {p q : XIp} {l1 l2 : List XIp} :
      (∀ (st : St) (c : BCur) (l : Bytes), LInv X src segs st c → BCur.view src segs c = some (b :: l) →
        q.parse env st = p.parse env st) →
      AgreeL X src segs env b l1 l2 → AgreeL X src segs env b (p :: l1) (q :: l2)

theorem AgreeL.refl (X : Ctx) (env : Env) (b : UInt8) : ∀ l : List XIp, AgreeL X src segs env b l l
  | [] => .nil
  | _ :: r => .cons (fun _ _ _ _ _ => rfl) (AgreeL.refl X env b r)

theorem AgreeL.isEmpty {X : Ctx} {env : Env} {b : UInt8} {l1 l2 : List XIp} (h : AgreeL X src segs env b l1 l2) :
    l2.isEmpty = l1.isEmpty := by
  cases h <;> rfl

theorem AgreeL.append {X : Ctx} {env : Env} {b : UInt8} {a1 a2 b1 b2 : List XIp} (h1 : AgreeL X src segs env b a1 a2)
    (h2 : AgreeL X src segs env b b1 b2) : AgreeL X src segs env b (a1 ++ b1) (a2 ++ b2) := by
  induction h1 with
  | nil => exact h2
  | cons hp _ ih => exact .cons hp ih

theorem tryParsersX_agree (X : Ctx) (F : SegFacts src segs) (env : Env)
    {r0 : BlockReader} {c : BCur} {b : UInt8} {l : Bytes}
    (h0 : RS src segs r0 c) (hv : BCur.view src segs c = some (b :: l)) {ips1 ips2 : List XIp}
    (hA : AgreeL X src segs env b ips1 ips2) :
    ∀ (st : St), LInv X src segs st c →
    (∀ ip ∈ ips1, PContract X src segs (· == b) (ip.parse env)) →
    tryParsersX env r0.position.1 r0.position.2 ips2 st = tryParsersX env r0.position.1 r0.position.2 ips1 st := by
  induction hA with
  | nil => intro _ _ _; rfl
  | cons hp _ ih =>
    intro st hI ht
    rename_i p q l1 l2 _
    obtain ⟨n, st1, c1, e1, e2, e3, e4, e5⟩ := ht p (by simp) st c b l hI hv (by simp)
    simp only [tryParsersX, hp st c l hI hv, e1, bind, Except.bind]
    cases n with
    | some nd => rfl
    | none =>
      obtain ⟨r3, s1, s2⟩ := setPosition_restore F h0 e2
      simp only [s1]
      exact ih { st1 with rd := r3 } ⟨s2, e5.1, e5.2⟩ (fun ip' hip => ht ip' (by simp [hip]))

theorem scanX_agree (X : Ctx) (F : SegFacts src segs) (Z : ∀ s ∈ segs, s.padding = 0) (env : Env)
    (T1 T2 : UInt8 → List XIp)
    (hC32 : ∀ ip ∈ T1 32, ∀ b, PContract X src segs (· == b) (ip.parse env))
    (hC : ∀ b, ∀ ip ∈ T1 b, PContract X src segs (· == b) (ip.parse env))
    (hA : ∀ b i, AgreeL X src segs env b (T1 (parserChar b i)) (T2 (parserChar b i))) :
    ∀ (bs : Bytes) (i : Nat) (s : Inl.Scan) (v : Bytes) (c : BCur), ScanInv X src segs v bs i s c →
    scanX env T2 bs i s = scanX env T1 bs i s := by
  intro bs
  induction bs with
  | nil => intro i s v c _; rfl
  | cons b cs ih =>
    intro i s v c hS
    have hlen := hS.len
    simp only [List.length_cons] at hlen
    have hpre := hS.pre
    have hvb : v.drop s.n.toNat = b :: (v.drop (s.n.toNat + 1)) := by
      obtain ⟨t, ht⟩ := hpre
      have h1 : (v.drop s.n.toNat).head? = some b := by rw [← ht]; rfl
      have h2 : v.drop (s.n.toNat + 1) = (v.drop s.n.toNat).tail := by
        rw [← List.drop_one, List.drop_drop]
      rw [h2]
      cases hd : v.drop s.n.toNat with
      | nil => rw [hd] at h1; simp at h1
      | cons x xs => rw [hd] at h1; simp at h1; subst h1; rfl
    have hcs : cs <+: v.drop (s.n.toNat + 1) := by
      obtain ⟨t, ht⟩ := hpre
      rw [hvb] at ht
      simp at ht
      exact ⟨t, ht⟩
    have hskip : scanX env T2 cs (i + 1) (bump b s) = scanX env T1 cs (i + 1) (bump b s) := by
      apply ih (i + 1) (bump b s) v c
      have hb : (bump b s).st = s.st ∧ (bump b s).sp = s.sp ∧ (bump b s).n = s.n + 1 := by
        unfold bump; split
        · exact ⟨rfl, rfl, rfl⟩
        · split <;> exact ⟨rfl, rfl, rfl⟩
      have hn0 := hS.n0
      have e : (s.n + 1).toNat = s.n.toNat + 1 := by omega
      exact { inv := by rw [hb.1]; exact hS.inv, view := hS.view, spStart := by rw [hb.2.1]; exact hS.spStart,
              spStop := by rw [hb.2.1]; exact hS.spStop, spPad := by rw [hb.2.1]; exact hS.spPad,
              n0 := by rw [hb.2.2]; omega, len := by rw [hb.2.2, e]; omega,
              pre := by rw [hb.2.2, e]; exact hcs, i0 := fun h => by omega }
    simp only [scanX, (hA b i).isEmpty]
    split
    · rfl
    · split
      · rename_i htrig
        simp only [Bool.and_eq_true, Bool.not_eq_true', List.isEmpty_eq_false_iff_exists_mem] at htrig
        have hCpc : ∀ ip ∈ T1 (parserChar b i), PContract X src segs (· == b) (ip.parse env) := by
          rcases GM.Proof.InlinesLoopX.parserChar_cases b i with h | h
          · rw [h]; exact fun ip hip => hC32 ip hip b
          · rw [h]; exact hC b
        have hnlt : s.n.toNat < v.length := by omega
        have w := hS.inv.rs.abs.wf
        have hz := hS.inv.rs.pad
        obtain ⟨v1, v2, v3, v4, v5, v6, v7, v8⟩ := view_some F w hz hS.view
        obtain ⟨r1, a1, a2⟩ := advance_inline F Z hS.inv.rs (n := s.n) hS.n0 (by omega) (by omega)
        have hnn : c.p + s.n = c.p + (s.n.toNat : Int) := by have := hS.n0; omega
        obtain ⟨vs1, vs2⟩ := view_shift F w hz hS.view hnlt
        rw [← hnn] at vs1 vs2
        rw [hvb] at vs1
        have hpos1 := (peekLine_facts F a2).2
        have hbetween : s.sp.between r1.position.2 = .ok { start := c.p, stop := c.p + s.n, padding := 0 } := by
          simp only [Segment.between, BlockReader.position, hpos1, hS.spStop, vs2, bne_self_eq_false, Bool.false_eq_true,
            if_false, hS.spStart, hS.spPad]
          rfl
        have hkids : ∃ ks sp', (if (i != 0) = true then
              (s.sp.between r1.position.2).map (fun seg => (mergeOrAppend s.st.kids seg, r1.position.2))
            else (pure (s.st.kids, s.sp) : Except Panic (List Inl.Node × Segment))) = .ok (ks, sp') ∧
            chain 0 (c.p + s.n) (segsOfL ks) ∧ X.LK ks s.st.nextId s.st.bottoms ∧ sp'.start = c.p + s.n ∧
            sp'.stop = BCur.stopOf segs c ∧ sp'.padding = 0 := by
          by_cases hi : i = 0
          · have hn := hS.i0 hi
            simp only [hi, bne_self_eq_false, Bool.false_eq_true, if_false, pure, Except.pure]
            refine ⟨_, _, rfl, ?_, hS.inv.lk, ?_, hS.spStop, hS.spPad⟩
            · rw [hn]; simpa using hS.inv.ch
            · rw [hn, hS.spStart]; omega
          · have : (i != 0) = true := by simpa using hi
            simp only [this, if_true, hbetween, Except.map]
            refine ⟨_, _, rfl, ?_, X.merge _ hS.inv.lk, ?_, ?_, ?_⟩
            · exact chain_mergeOrAppend (s := { start := c.p, stop := c.p + s.n, padding := 0 }) hS.inv.ch
                (by simp only; have := hS.n0; omega)
            · simp [BlockReader.position, hpos1]
            · simp [BlockReader.position, hpos1, vs2]
            · simp [BlockReader.position, hpos1]
        obtain ⟨ks, sp', hk1, hk2, hk3, hk4, hk5, hk6⟩ := hkids
        have hI1 : LInv X src segs { s.st with rd := r1, kids := ks } { c with p := c.p + s.n } := ⟨a2, hk2, hk3⟩
        obtain ⟨n, st', c', t1, t2, t3, t4, t5⟩ := tryParsersX_total X F env a2 vs1 (T1 (parserChar b i))
          { s.st with rd := r1, kids := ks } hI1 hCpc
        have t1' := (tryParsersX_agree X F env a2 vs1 (hA b i) { s.st with rd := r1, kids := ks } hI1 hCpc).trans t1
        have htr : ∀ T : List XIp, tryParsersX env r1.position.1 r1.position.2 T { s.st with rd := r1, kids := ks } =
              .ok (n, st') →
            triggerX env T i s = (match n with
            | some nd => .ok (.inl { st' with kids := st'.kids ++ [nd] })
            | none => .ok (.inr { s with st := st', n := 0, sp := sp' })) := by
          intro T hT
          unfold triggerX
          simp only [a1, bind, Except.bind, hk1, hT]
          cases n <;> rfl
        rw [htr _ t1, htr _ t1']
        cases n with
        | some nd => rfl
        | none =>
          simp only
          obtain ⟨rfl, t6, t7⟩ := t5
          apply ih (i + 1) (bump b { s with st := st', n := 0, sp := sp' }) (b :: v.drop (s.n.toNat + 1))
            { c with p := c.p + s.n }
          have hb : (bump b { s with st := st', n := 0, sp := sp' }).st = st' ∧
              (bump b { s with st := st', n := 0, sp := sp' }).sp = sp' ∧
              (bump b { s with st := st', n := 0, sp := sp' }).n = 1 := by
            unfold bump; split
            · exact ⟨rfl, rfl, rfl⟩
            · split <;> exact ⟨rfl, rfl, rfl⟩
          have hl2 : (v.drop (s.n.toNat + 1)).length = v.length - (s.n.toNat + 1) := by simp
          exact { inv := by rw [hb.1]; exact ⟨t2, t6, t7⟩, view := vs1, spStart := by rw [hb.2.1]; exact hk4,
                  spStop := by rw [hb.2.1, hk5, vs2], spPad := by rw [hb.2.1]; exact hk6,
                  n0 := by rw [hb.2.2]; omega,
                  len := by rw [hb.2.2]; simp only [List.length_cons, hl2]; omega,
                  pre := by rw [hb.2.2]; simpa using hcs, i0 := fun h => by omega }
      · exact hskip

/-- AGREEING TABLES, SAME RUN: the loop over `T2` is the loop over `T1` from every state of a run of `T1` -/
theorem lineLoopX_agree (X : Ctx) (F : SegFacts src segs) (Z : ∀ s ∈ segs, s.padding = 0) (env : Env)
    (T1 T2 : UInt8 → List XIp)
    (hC32 : ∀ ip ∈ T1 32, ∀ b, PContract X src segs (· == b) (ip.parse env))
    (hC : ∀ b, ∀ ip ∈ T1 b, PContract X src segs (· == b) (ip.parse env))
    (hA : ∀ b i, AgreeL X src segs env b (T1 (parserChar b i)) (T2 (parserChar b i))) :
    ∀ (fuel : Nat) (esc : Bool) (st : St) (c : BCur), LInv X src segs st c →
    (BCur.remaining segs c).toNat < fuel → lineLoopX env T2 fuel esc st = lineLoopX env T1 fuel esc st := by
  intro fuel
  induction fuel with
  | zero => intro esc st c _ hf; omega
  | succ f ih =>
    intro esc st c hI hf
    obtain ⟨hpl, hpos⟩ := peekLine_facts F hI.rs
    simp only [lineLoopX, hpl, bind, Except.bind]
    cases hv : BCur.view src segs c with
    | none => rfl
    | some line =>
      obtain ⟨v1, v2, v3, v4, v5, v6, v7, v8⟩ := view_some F hI.rs.abs.wf hI.rs.pad hv
      have hne : line.isEmpty = false := by
        cases line with
        | nil => simp at v6; omega
        | cons a t => rfl
      simp only [hne, Bool.false_eq_true, if_false]
      have hS : ScanInv X src segs line (line.take (classify line).1) 0
          { st := st, n := 0, sp := st.rd.position.2, escaped := esc } c :=
        { inv := hI, view := hv, spStart := by simp [BlockReader.position, hpos],
          spStop := by simp [BlockReader.position, hpos], spPad := by simp [BlockReader.position, hpos],
          n0 := Int.le_refl _, len := by simp [List.length_take]; omega,
          pre := by simpa using List.take_prefix _ _, i0 := fun _ => rfl }
      rw [scanX_agree X F Z env T1 T2 hC32 hC hA _ 0 _ line c hS]
      obtain ⟨res, r1, r2⟩ := scanX_total X F Z env T1 hC32 hC _ 0 _ line c hS
      simp only [r1]
      cases res with
      | hit st' e' =>
        obtain ⟨c', q1, q2, q3⟩ := r2
        exact ih e' st' c' q1 (by omega)
      | eol s' =>
        obtain ⟨v', c', q1, q2, q3⟩ := r2
        obtain ⟨st2, c2, g1, g2, g3⟩ := endOfLine_total X F Z (flags := (classify line).2) q1
        simp only [BlockReader.position, hI.rs.abs.line, ← q3, g1]
        exact ih _ st2 c2 g2 (by omega)

/-! ### Linkify on a source without its trigger material -/

theorem isPrefixOf_take : ∀ (p l : Bytes) (k : Nat), p.isPrefixOf (l.take k) = true → p.isPrefixOf l = true
  | [], _, _, _ => by simp
  | _ :: _, [], k, h => by simp at h
  | a :: p, b :: l, 0, h => by simp at h
  | a :: p, b :: l, k + 1, h => by
    simp only [List.take_succ_cons, List.isPrefixOf, Bool.and_eq_true] at h ⊢
    exact ⟨h.1, isPrefixOf_take p l k h.2⟩

theorem hasInfix_false_of_drops {pat : Bytes} : ∀ (l : Bytes), (∀ k, pat.isPrefixOf (l.drop k) = false) →
    GM.Ext.hasInfix pat l = false
  | [], h => by simpa [GM.Ext.hasInfix] using h 0
  | a :: r, h => by
    simp only [GM.Ext.hasInfix, Bool.or_eq_false_iff]
    exact ⟨by simpa using h 0, hasInfix_false_of_drops r (fun k => by simpa using h (k + 1))⟩

/-- a contiguous piece of a source without `pat` has no `pat` -/
theorem hasInfix_sub {pat src : Bytes} (h : GM.Ext.hasInfix pat src = false) (a b : Nat) :
    GM.Ext.hasInfix pat (sub src a b) = false := by
  apply hasInfix_false_of_drops
  intro k
  cases hh : pat.isPrefixOf ((sub src a b).drop k) with
  | false => rfl
  | true =>
    exfalso
    unfold sub at hh
    rw [List.drop_take] at hh
    have := isPrefixOf_take _ _ _ hh
    rw [List.drop_drop] at this
    rw [GM.Ext.no_prefix_of_drop h] at this
    cases this

/-- on a state of a run over a source without ':', '@', `www.` Linkify returns nil and leaves the state as it is -/
theorem parseLinkify_null (X : Ctx) (F : SegFacts src segs) (env : Env)
    (hcolon : (58 : UInt8) ∉ src) (hat : (64 : UInt8) ∉ src) (hwww : GM.Ext.hasInfix GM.Ext.domainWWW src = false)
    (st : St) (c : BCur) (b : UInt8) (l : Bytes) (hI : LInv X src segs st c) (hv : BCur.view src segs c = some (b :: l)) :
    parseLinkify env st = .ok (none, st) := by
  obtain ⟨hpl, _⟩ := peekLine_facts F hI.rs
  obtain ⟨_, _, _, _, v5, _, _, _⟩ := view_some F hI.rs.abs.wf hI.rs.pad hv
  rw [hv] at hpl
  have hmem : ∀ x, x ∈ b :: l → x ∈ src := fun x hx => by rw [v5] at hx; exact sub_mem hx
  have := GM.Proof.ConvertL.parseLinkify_declines env st (b :: l) st.rd.pos st.rd hpl (by simp)
    (fun h => hcolon (hmem _ h)) (fun h => hat (hmem _ h)) (by rw [v5]; exact hasInfix_sub hwww _ _)
  rcases this with h | h
  · exact h
  · exact h

open GM.ConvertX GM.Convert GM.Proof.ConvertX GM.Proof.ConvertLTotal in
/-- **LINKIFY IS A CONSULTATION WITHOUT EFFECT** on a source without ':', '@' and `www.`: the inline loop of a block (lines
    that pass the run-time check) over the table with Linkify is the loop over the table with `nullParser` in its place -/
theorem lineLoopL_flush (c : XCfg) (inItem : Bool) (W : WFSegs src segs) (Z : ∀ s ∈ segs, s.padding = 0) (env : Env)
    (hcolon : (58 : UInt8) ∉ src) (hat : (64 : UInt8) ∉ src) (hwww : GM.Ext.hasInfix GM.Ext.domainWWW src = false)
    (rd : BlockReader) (h0 : BlockReader.new src segs = .ok rd) :
    lineLoopX env (inlineTblL { base := c, linkify := true } inItem) (blockFuel src segs) false { rd := rd } =
      lineLoopX env (flushTbl c inItem) (blockFuel src segs) false { rd := rd } := by
  have F := segFacts W
  obtain ⟨r0, e0, a0⟩ := blockReader_init F
  rw [h0] at e0
  simp only [Except.ok.injEq] at e0
  subst e0
  have hz0 : (BCur.init segs).pad = 0 := segOf_pad F Z 0 (Int.le_refl _) F.kpos
  have hI : LInv (Ctx.normed (linkCtx (BCur.segOf segs 0).start)) src segs { rd := rd } (BCur.init segs) :=
    ⟨⟨a0, hz0⟩, by simp only [segsOfL, chain, BCur.init]; exact (F.rng 0 (Int.le_refl _) F.kpos).1, LK_base _⟩
  symm
  apply lineLoopX_agree _ F Z env (inlineTblL { base := c, linkify := true } inItem) (flushTbl c inItem)
    (inlineTblL_32 _ inItem W Z env) (inlineTblL_contracts _ inItem W Z env) ?_ _ false _ _ hI (blockFuel_gt W Z a0.wf hz0)
  intro b i
  unfold inlineTblL flushTbl
  apply AgreeL.append (AgreeL.refl _ env b _)
  simp only [Bool.true_and]
  split
  · refine .cons ?_ .nil
    intro st cc l hI' hv
    exact (parseLinkify_null _ F env hcolon hat hwww st cc b l hI' hv).symm
  · exact .nil

open GM.ConvertX GM.Convert

theorem bind_congr_ok {α β : Type} {m : Except Panic α} {f g : α → Except Panic β} (h : ∀ a, m = .ok a → f a = g a) :
    (m >>= f) = (m >>= g) := by
  cases m with
  | error e => rfl
  | ok a => exact h a rfl

theorem parseBlockG_eq (env : Env) (tbl : UInt8 → List XIp) (pd : PD) (src : Bytes) (segs : List Segment) :
    parseBlockG env tbl pd src segs = (BlockReader.new src segs >>= fun rd =>
      lineLoopX env tbl (blockFuel src segs) false { rd := rd } >>= fun st =>
      pd .nil st.kids >>= fun kids => pure (closeLabelsL kids)) := rfl

theorem parseBlockG_flush (c : XCfg) (inItem : Bool) (W : WFSegs src segs) (Z : ∀ s ∈ segs, s.padding = 0) (env : Env)
    (pd : PD) (hcolon : (58 : UInt8) ∉ src) (hat : (64 : UInt8) ∉ src)
    (hwww : GM.Ext.hasInfix GM.Ext.domainWWW src = false) :
    parseBlockG env (inlineTblL { base := c, linkify := true } inItem) pd src segs =
      parseBlockG env (flushTbl c inItem) pd src segs := by
  rw [parseBlockG_eq, parseBlockG_eq]
  apply bind_congr_ok
  intro rd h0
  rw [lineLoopL_flush c inItem W Z env hcolon hat hwww rd h0]

/-! ### whole documents: `convertL` with Linkify = the same pipeline over `flushTbl` -/

section doc
open GM.ConvertX GM.Convert

variable (hcolon : (58 : UInt8) ∉ src) (hat : (64 : UInt8) ∉ src) (hwww : GM.Ext.hasInfix GM.Ext.domainWWW src = false)
include hcolon hat hwww

theorem inlineLinesL_flush (c : XCfg) (env : Env) (inItem : Bool) (lines : List Segment) :
    inlineLinesL { base := c, linkify := true } true env src inItem lines = inlineLinesF c true env src inItem lines := by
  unfold inlineLinesL inlineLinesF
  split
  · rfl
  · split
    · rfl
    · rename_i hw
      have hw' : GM.LinkRef.wf0B src lines = true := by simpa using hw
      obtain ⟨W, Z⟩ := GM.Proof.LinkRefTotal.wf0B_sound hw'
      rw [parseBlockG_flush c inItem W Z env _ hcolon hat hwww]

theorem inlinePhaseL_flush (c : XCfg) (env : Env) (inItem : Bool) (n : GM.Blocks.Node) :
    inlinePhaseL { base := c, linkify := true } true env src inItem n = inlinePhaseF c true env src inItem n := by
  unfold inlinePhaseL inlinePhaseF
  simp only [inlineLinesL_flush hcolon hat hwww]

mutual
theorem docTreeL_flush (c : XCfg) (env : Env) (escs : List Int) (inItem : Bool) :
    ∀ t : GM.Blocks.Tree, docTreeL { base := c, linkify := true } true env src escs inItem t = docTreeF c true env src escs inItem t
  | .node n cs => by
    unfold docTreeL docTreeF
    rw [docTreesL_flush c env escs _ _ cs, inlinePhaseL_flush hcolon hat hwww]
theorem docTreesL_flush (c : XCfg) (env : Env) (escs : List Int) (pi first : Bool) :
    ∀ ts : List GM.Blocks.Tree,
    docTreesL { base := c, linkify := true } true env src escs pi first ts = docTreesF c true env src escs pi first ts
  | [] => by unfold docTreesL docTreesF; rfl
  | t :: rest => by
    unfold docTreesL docTreesF
    rw [docTreeL_flush c env escs _ t, docTreesL_flush c env escs _ _ rest]
end

/-- **whole documents**: on a source without ':', '@' and `www.`, `convertL` with Linkify is `convertFlush` -/
theorem convertL_flush (c : XCfg) (uc : List (Nat × (Bool × Bool))) (o : ROpts) :
    convertL { base := c, linkify := true } uc o src = convertFlush c uc o src := by
  unfold convertL convertLWith convertFlush parseDocL parseDocF
  simp only [docTreeL_flush hcolon hat hwww]

end doc

end GM.Proof.ConvertLFlush
