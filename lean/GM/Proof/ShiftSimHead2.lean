/-
  GM.Proof.ShiftSimHead2 — EXACT versions of the "reset" facts of GM.Proof.IndepReset: what the line loop of
  parseBlocks does on the blank line `\n` (and at the end of the source) after an open ATX heading, and what
  `SkipBlankLines` does on one leading blank line. The node store is unchanged, the context changes in `opened`
  (and BlockOffset/BlockIndent) only, the reader is advanced by exactly one line.
-/
import GM.Proof.IndepReset
import GM.Proof.ShiftSimLines

namespace GM.Blocks.Sh
open GM GM.Text GM.Blocks

/-- same source, same position, same line counter (the caches may differ) -/
def h2_RC (r r' : Reader) : Prop := r'.source = r.source ∧ r'.pos = r.pos ∧ r'.line = r.line

theorem h2_RC_refl (r : Reader) : h2_RC r r := ⟨rfl, rfl, rfl⟩

theorem h2_RC_trans {a b c : Reader} (h1 : h2_RC a b) (h2 : h2_RC b c) : h2_RC a c :=
  ⟨h2.1.trans h1.1, h2.2.1.trans h1.2.1, h2.2.2.trans h1.2.2⟩

theorem h2_peekLine {line : Bytes} {s : St} {x : Option Bytes × Segment} {s' : St} (h : AtLine line s.r)
    (hp : peekLine s = .ok (x, s')) :
    x = (some line, s.r.pos) ∧ AtLine line s'.r ∧ s'.nodes = s.nodes ∧ s'.pc = s.pc ∧ h2_RC s.r s'.r := by
  unfold GM.Blocks.peekLine at hp
  unfold Reader.peekLine at hp
  rw [if_pos ⟨h.start0, h.startLt⟩] at hp
  rcases h.cache with hc | hc
  · rw [hc] at hp
    simp only [h.value, bind, Except.bind, pure, Except.pure] at hp
    cases hp
    exact ⟨rfl, ⟨h.start0, h.startLt, h.value, .inr rfl⟩, rfl, rfl, rfl, rfl, rfl⟩
  · rw [hc] at hp
    simp only [bind, Except.bind, pure, Except.pure] at hp
    cases hp
    exact ⟨rfl, h, rfl, rfl, h2_RC_refl _⟩

theorem h2_lineOffsetOp_rc {r r' : Reader} {lo : Int} (hl : r.lineOffsetOp = .ok (lo, r')) : h2_RC r r' := by
  unfold Reader.lineOffsetOp at hl
  split at hl
  · cases hc : colLoop r.source r.head r.pos.start with
    | error e => simp [hc, bind, Except.bind] at hl
    | ok v =>
      simp only [hc, bind, Except.bind, pure, Except.pure] at hl
      cases hl
      exact ⟨rfl, rfl, rfl⟩
  · cases hl; exact h2_RC_refl _

theorem h2_lineOffset {line : Bytes} {s : St} {lo : Int} {s' : St} (h : AtLine line s.r)
    (hp : lineOffset s = .ok (lo, s')) :
    AtLine line s'.r ∧ s'.nodes = s.nodes ∧ s'.pc = s.pc ∧ h2_RC s.r s'.r := by
  unfold GM.Blocks.lineOffset at hp
  cases hl : s.r.lineOffsetOp with
  | error e => simp [hl, bind, Except.bind] at hp
  | ok p =>
    simp only [hl, bind, Except.bind, pure, Except.pure] at hp
    cases hp
    obtain ⟨h1, _⟩ := h.lineOffsetOp (lo := p.1) (r' := p.2) hl
    exact ⟨h1, rfl, rfl, h2_lineOffsetOp_rc (lo := p.1) (r' := p.2) hl⟩

/-! ### closeBlocks on a stack that holds one ATX heading -/

theorem h2_closeBlocks_atx (s : St) (hd : Nat) (hop : s.pc.opened = [⟨hd, .atx⟩]) (s' : St)
    (h : closeBlocks 0 0 s = .ok ((), s')) :
    s' = { s with pc := { s.pc with opened := [] } } := by
  unfold closeBlocks at h
  obtain ⟨pc, s1, h1, k1⟩ := bind_ok h
  obtain ⟨rfl, rfl⟩ := getPc_ok h1
  rw [hop] at k1
  have hk : ((0 : Int) - 0 + 1).toNat = 0 + 1 := rfl
  rw [hk] at k1
  obtain ⟨u, s2, h2, k2⟩ := bind_ok k1
  have e2 : s2 = s1 := by
    unfold closeLoop at h2
    obtain ⟨b, s3, h3, k3⟩ := bind_ok h2
    obtain ⟨hb, rfl⟩ := liftE_ok h3
    have hb' : b = ⟨hd, .atx⟩ := by cases hb; rfl
    subst hb'
    obtain ⟨n, s4, h4, k4⟩ := bind_ok k3
    obtain ⟨rfl, rfl⟩ := getNode_ok h4
    dsimp only at k4
    split at k4
    · obtain ⟨u5, s5, h5, k5⟩ := bind_ok k4
      have e5 : s5 = s4 := (pure_ok h5).2
      rw [e5] at k5
      unfold closeLoop at k5
      exact (pure_ok k5).2
    · unfold closeLoop at k4
      exact (pure_ok k4).2
  rw [e2] at k2
  dsimp only at k2
  have hc : ((0 : Int) == (([⟨hd, .atx⟩] : List Block).length : Int) - 1) = true := rfl
  rw [hc] at k2
  simp only [if_true] at k2
  obtain ⟨bl', s6, h6, k6⟩ := bind_ok k2
  obtain ⟨hsl, rfl⟩ := liftE_ok h6
  obtain ⟨_, _, _, hr⟩ := closeSlice_ok hsl
  have hm := modPc_ok k6
  rw [hm, hr]
  rfl

/-! ### openBlocks on the blank line -/

theorem h2_openBlocks_blank (parent : Nat) (blank : Bool) (s : St) (hd : Nat) (pre : List Block)
    (hl : AtLine [10] s.r) (hop : s.pc.opened = pre ++ [⟨hd, .atx⟩]) (res : OpenResult) (s' : St)
    (h : openBlocks parent blank s = .ok (res, s')) :
    res = .noBlocksOpened ∧ s'.nodes = s.nodes ∧ s'.pc = { s.pc with blockOffset := 0, blockIndent := 0 } ∧
      AtLine [10] s'.r ∧ h2_RC s.r s'.r := by
  unfold openBlocks at h
  obtain ⟨lb, s1, h1, k1⟩ := bind_ok h
  obtain ⟨elb, e1⟩ := lastOpenedBlock_ok h1
  rw [e1] at k1
  have hlb : lb = some ⟨hd, .atx⟩ := by rw [elb, hop]; simp
  have fin : ∀ cont, (do let v ← source; openBlocksLoop blank cont (retryFuel v) parent OpenResult.noBlocksOpened lb : M OpenResult) s
      = .ok (res, s') → res = .noBlocksOpened ∧ s'.nodes = s.nodes ∧
        s'.pc = { s.pc with blockOffset := 0, blockIndent := 0 } ∧ AtLine [10] s'.r ∧ h2_RC s.r s'.r := by
    intro cont k2
    obtain ⟨v, s3, h3, k3⟩ := bind_ok k2
    have e3 : s3 = s := by cases h3; rfl
    rw [e3] at k3
    have hf : retryFuel v = (2 * v.length + 7) + 1 := rfl
    rw [hf] at k3
    unfold openBlocksLoop at k3
    obtain ⟨y, s4, h4, k4⟩ := bind_ok k3
    obtain ⟨rfl, hl4, hn4, hp4, cu4⟩ := h2_peekLine hl h4
    dsimp only at k4
    obtain ⟨lo, s5, h5, k5⟩ := bind_ok k4
    obtain ⟨hl5, hn5, hp5, cu5⟩ := h2_lineOffset hl4 h5
    simp only [Option.getD, indentWidthI_nl] at k5
    obtain ⟨u, s6, h6, k6⟩ := bind_ok k5
    have e6 := modPc_ok h6
    have hlen : ¬ ((0 : Int) ≥ (([10] : Bytes).length : Int)) := by decide
    rw [if_neg hlen] at e6
    have hidx : idx [10] 0 = .ok 10 := rfl
    simp only [Option.isNone, Bool.false_eq_true, if_false, hidx] at k6
    obtain ⟨c, s7, h7, k7⟩ := bind_ok k6
    obtain ⟨ec, e7⟩ := liftE_ok h7
    cases ec
    simp only [beq_self_eq_true, if_true] at k7
    rw [e7] at k7
    unfold toContinuable at k7
    rw [hlb] at k7
    have hres : res = .noBlocksOpened ∧ s' = s6 := by
      cases cont
      · simp only [Bool.and_false, Bool.false_eq_true, if_false] at k7
        exact pure_ok k7
      · simp only [beq_self_eq_true, Bool.and_true, if_true, bpContinue] at k7
        obtain ⟨st, s8, h8, k8⟩ := bind_ok k7
        obtain ⟨est, e8⟩ := pure_ok h8
        rw [est, e8] at k8
        simp only [stClose, Bool.false_eq_true] at k8
        exact pure_ok k8
    obtain ⟨hr, hs'⟩ := hres
    have hp : s5.pc = s.pc := hp5.trans hp4
    refine ⟨hr, by rw [hs', e6]; exact hn5.trans hn4, by rw [hs', e6]; show _ = _; rw [hp],
      by rw [hs', e6]; exact hl5, by rw [hs', e6]; exact h2_RC_trans cu4 cu5⟩
  dsimp only at k1
  cases lb with
  | none =>
    dsimp only at k1
    obtain ⟨cont, s2, h2, k2⟩ := bind_ok k1
    obtain ⟨_, e2⟩ := pure_ok h2
    rw [e2] at k2
    exact fin cont k2
  | some b =>
    dsimp only at k1
    obtain ⟨n, s2, h2, k2⟩ := bind_ok k1
    obtain ⟨_, e2⟩ := getNode_ok h2
    rw [e2] at k2
    obtain ⟨cont, s3, h3, k3⟩ := bind_ok k2
    obtain ⟨_, e3⟩ := pure_ok h3
    rw [e3] at k3
    exact fin cont k3

/-! ### one pass of the line loop over the blank line -/

theorem h2_llFall_blank (s : St) (hd : Nat) (lineNum : Int) (bl : List LineStat)
    (hl : AtLine [10] s.r) (hop : s.pc.opened = [⟨hd, .atx⟩]) (x : LineOutcome × List LineStat) (s' : St)
    (h : llFall 0 [⟨hd, .atx⟩] 0 0 lineNum bl s = .ok (x, s')) :
    x = (.next, bl) ∧ s'.nodes = s.nodes ∧
      s'.pc = { s.pc with blockOffset := 0, blockIndent := 0, opened := [] } ∧ h2_RC s.r s'.r := by
  unfold llFall at h
  simp only [bne_self_eq_false, Bool.false_eq_true, if_false] at h
  unfold llOpen at h
  obtain ⟨lastNode, sC, hC, kC⟩ := bind_ok h
  obtain ⟨hln, eC⟩ := liftE_ok hC
  have hln' : lastNode = ⟨hd, .atx⟩ := by cases hln; rfl
  rw [eC] at kC
  obtain ⟨res, sD, hD, kD⟩ := bind_ok kC
  have hopA : s.pc.opened = [] ++ [⟨hd, .atx⟩] := by rw [hop]; rfl
  obtain ⟨hres, hnD, hpD, hlD, rcD⟩ := h2_openBlocks_blank 0 _ s hd [] hl hopA res sD hD
  rw [hres] at kD
  simp only [show (OpenResult.noBlocksOpened != OpenResult.paragraphContinuation) = true from rfl, if_true] at kD
  obtain ⟨pc, sE, hE, kE⟩ := bind_ok kD
  obtain ⟨epc, eE⟩ := getPc_ok hE
  rw [eE, epc] at kE
  obtain ⟨u, sF, hF, kF⟩ := bind_ok kE
  obtain ⟨eo, eF⟩ := pure_ok kF
  have hoD' : sD.pc.opened = [⟨hd, .atx⟩] := by rw [hpD]; exact hop
  rw [hoD', hln'] at hF
  have hidx : (if (Option.map (fun x => x.node) (slotAfter [(⟨hd, .atx⟩ : Block)] [⟨hd, .atx⟩] (0 : Int).toNat) !=
      some (⟨hd, .atx⟩ : Block).node) = true then (0 : Int) - 1 else (0 : Int)) = 0 := by
    simp [slotAfter]
  rw [hidx] at hF
  have eF' := h2_closeBlocks_atx sD hd hoD' sF hF
  rw [eo, eF, eF']
  refine ⟨rfl, hnD, ?_, rcD⟩
  show { sD.pc with opened := [] } = _
  rw [hpD]

theorem h2_isBlank_nl : isBlank [10] = true := by decide

theorem h2_lineLoop_blank (s : St) (hd : Nat) (stats : List LineStat)
    (hl : AtLine [10] s.r) (hop : s.pc.opened = [⟨hd, .atx⟩])
    (out : LineOutcome) (stats' : List LineStat) (s' : St)
    (h : lineLoop 0 [⟨hd, .atx⟩] 0 [⟨hd, .atx⟩] 0 stats s = .ok ((out, stats'), s')) :
    out = .next ∧ stats' = stats ++ [{ lineNum := s.r.line, level := 0, isBlank := true }] ∧ s'.nodes = s.nodes ∧
      s'.pc = { s.pc with blockOffset := 0, blockIndent := 0, opened := [] } ∧ h2_RC s.r s'.r := by
  rw [ll_lineLoop_cons] at h
  obtain ⟨y, s1, h1, k1⟩ := bind_ok h
  obtain ⟨rfl, hl1, hn1, hp1, rc1⟩ := h2_peekLine hl h1
  dsimp only at k1
  obtain ⟨pos, s2, h2, k2⟩ := bind_ok k1
  have e2 : pos = (s1.r.line, s1.r.pos) ∧ s2 = s1 := by cases h2; exact ⟨rfl, rfl⟩
  obtain ⟨rfl, rfl⟩ := e2
  dsimp only at k2
  rw [h2_isBlank_nl] at k2
  have hop1 : s2.pc.opened = [⟨hd, .atx⟩] := by rw [hp1]; exact hop
  have fin : ∀ sA : St, sA = s2 →
      llFall 0 [⟨hd, .atx⟩] 0 0 s2.r.line (stats ++ [{ lineNum := s2.r.line, level := 0, isBlank := true }]) sA =
        .ok ((out, stats'), s') →
      out = .next ∧ stats' = stats ++ [{ lineNum := s.r.line, level := 0, isBlank := true }] ∧ s'.nodes = s.nodes ∧
        s'.pc = { s.pc with blockOffset := 0, blockIndent := 0, opened := [] } ∧ h2_RC s.r s'.r := by
    intro sA eA k
    subst eA
    obtain ⟨ex, hn, hp, rc⟩ := h2_llFall_blank sA hd _ _ hl1 hop1 _ s' k
    cases ex
    refine ⟨rfl, by rw [rc1.2.2], hn.trans hn1, by rw [hp, hp1], h2_RC_trans rc1 rc⟩
  unfold llBody at k2
  obtain ⟨beNode, s3, h3, k3⟩ := bind_ok k2
  obtain ⟨_, e3⟩ := getNode_ok h3
  by_cases hk : (beNode.kind != Kind.paragraph) = true
  · rw [if_pos hk] at k3
    simp only [bpContinue] at k3
    obtain ⟨st, s4, h4, k4⟩ := bind_ok k3
    obtain ⟨est, e4⟩ := pure_ok h4
    rw [est] at k4
    simp only [stClose, Bool.false_eq_true, if_false] at k4
    exact fin s4 (e4.trans e3) k4
  · rw [if_neg hk] at k3
    exact fin s3 e3 k3

/-! ### AdvanceLine looks at source, position and line counter only -/

theorem h2_advanceLine_congr {r r' : Reader} (h : h2_RC r r') : r'.advanceLine = r.advanceLine := by
  obtain ⟨h1, h2, h3⟩ := h
  rcases r with ⟨src, ln, pk, pos, hd, lo⟩
  rcases r' with ⟨src', ln', pk', pos', hd', lo'⟩
  simp only at h1 h2 h3
  subst h1 h2 h3
  rfl

theorem h2_peekLineR {line : Bytes} {r : Reader} (h : AtLine line r) :
    ∃ r', r.peekLine = .ok ((some line, r.pos), r') ∧ AtLine line r' ∧ h2_RC r r' := by
  unfold Reader.peekLine
  rw [if_pos ⟨h.start0, h.startLt⟩]
  rcases h.cache with hc | hc
  · rw [hc]
    simp only [h.value, bind, Except.bind, pure, Except.pure]
    exact ⟨_, rfl, ⟨h.start0, h.startLt, h.value, .inr rfl⟩, rfl, rfl, rfl⟩
  · rw [hc]
    exact ⟨_, rfl, h, h2_RC_refl _⟩

/-- **1. the blank line after an open ATX heading** (parser.go:1074-1126): the heading is closed, control returns to
    the outer loop, the node store is unchanged. -/
theorem blank_after_heading_exact (s : St) (hd : Nat) (stats : List LineStat) (fuel : Nat)
    (hl : AtLine [10] s.r) (hop : s.pc.opened = [⟨hd, .atx⟩])
    (ret : Bool) (stats' : List LineStat) (s' : St)
    (h : linesLoop 0 (fuel + 2) stats s = .ok ((ret, stats'), s')) :
    ret = false ∧ s'.nodes = s.nodes ∧ s'.pc.opened = [] ∧ s'.pc.tmpPara = s.pc.tmpPara ∧ s'.pc.fence = s.pc.fence ∧
      s'.pc.skipList = s.pc.skipList ∧ s'.pc.emptyItemBlank = s.pc.emptyItemBlank ∧
      stats' = stats ++ [{ lineNum := s.r.line, level := 0, isBlank := true }] ∧
      ∃ r0 : Reader, r0.source = s.r.source ∧ r0.pos.stop = s.r.pos.stop ∧ r0.pos.forceNewline = s.r.pos.forceNewline ∧
        r0.line = s.r.line ∧ s'.r = r0.advanceLine := by
  unfold linesLoop at h
  obtain ⟨pc, s1, h1, k1⟩ := bind_ok h
  obtain ⟨epc, e1⟩ := getPc_ok h1
  rw [e1, epc, hop] at k1
  dsimp only at k1
  have hl0 : (([⟨hd, .atx⟩] : List Block).length == 0) = false := by simp
  rw [hl0] at k1
  simp only [Bool.false_eq_true, if_false] at k1
  have hlen1 : ((([⟨hd, .atx⟩] : List Block).length : Nat) : Int) - 1 = 0 := by simp
  rw [hlen1] at k1
  obtain ⟨x5, s5, h5, k5⟩ := bind_ok k1
  obtain ⟨out5, st5⟩ := x5
  obtain ⟨ho5, hst5, hn5, hp5, rc5⟩ := h2_lineLoop_blank s hd stats hl hop out5 st5 s5 h5
  subst ho5
  dsimp only at k5
  obtain ⟨u6, s6, h6, k6⟩ := bind_ok k5
  have e6 := advanceLine_ok h6
  have hop6 : s6.pc.opened = [] := by rw [e6]; show s5.pc.opened = []; rw [hp5]
  rw [linesLoop_empty 0 fuel st5 s6 hop6] at k6
  have hpc : s6.pc = s5.pc := by rw [e6]
  cases k6
  refine ⟨rfl, by rw [e6]; exact hn5, hop6, by rw [hpc, hp5], by rw [hpc, hp5], by rw [hpc, hp5], by rw [hpc, hp5],
    hst5, s5.r, rc5.1, by rw [rc5.2.1], by rw [rc5.2.1], rc5.2.2, by rw [e6]⟩

/-- the reader clause of `blank_after_heading_exact` in closed form: the reader is advanced by exactly one line -/
theorem blank_after_heading_reader (s : St) (hd : Nat) (stats : List LineStat) (fuel : Nat)
    (hl : AtLine [10] s.r) (hop : s.pc.opened = [⟨hd, .atx⟩])
    (ret : Bool) (stats' : List LineStat) (s' : St)
    (h : linesLoop 0 (fuel + 2) stats s = .ok ((ret, stats'), s')) :
    s'.r = s.r.advanceLine ∧ s'.pc = { s.pc with blockOffset := 0, blockIndent := 0, opened := [] } := by
  unfold linesLoop at h
  obtain ⟨pc, s1, h1, k1⟩ := bind_ok h
  obtain ⟨epc, e1⟩ := getPc_ok h1
  rw [e1, epc, hop] at k1
  dsimp only at k1
  have hl0 : (([⟨hd, .atx⟩] : List Block).length == 0) = false := by simp
  rw [hl0] at k1
  simp only [Bool.false_eq_true, if_false] at k1
  have hlen1 : ((([⟨hd, .atx⟩] : List Block).length : Nat) : Int) - 1 = 0 := by simp
  rw [hlen1] at k1
  obtain ⟨x5, s5, h5, k5⟩ := bind_ok k1
  obtain ⟨out5, st5⟩ := x5
  obtain ⟨ho5, hst5, hn5, hp5, rc5⟩ := h2_lineLoop_blank s hd stats hl hop out5 st5 s5 h5
  subst ho5
  dsimp only at k5
  obtain ⟨u6, s6, h6, k6⟩ := bind_ok k5
  have e6 := advanceLine_ok h6
  have hop6 : s6.pc.opened = [] := by rw [e6]; show s5.pc.opened = []; rw [hp5]
  rw [linesLoop_empty 0 fuel st5 s6 hop6] at k6
  cases k6
  refine ⟨?_, ?_⟩
  · rw [e6]; exact h2_advanceLine_congr rc5
  · rw [e6]; exact hp5

/-- **2. the end of the source after an open ATX heading** (parser.go:1084-1088) -/
theorem eof_after_heading_exact (s : St) (hd : Nat) (stats : List LineStat) (fuel : Nat)
    (heof : ¬ (s.r.pos.start ≥ 0 ∧ s.r.pos.start < s.r.sourceLength)) (hop : s.pc.opened = [⟨hd, .atx⟩])
    (ret : Bool) (stats' : List LineStat) (s' : St)
    (h : linesLoop 0 (fuel + 1) stats s = .ok ((ret, stats'), s')) :
    ret = true ∧ s'.nodes = s.nodes ∧ s'.pc.opened = [] := by
  unfold linesLoop at h
  obtain ⟨pc, s1, h1, k1⟩ := bind_ok h
  obtain ⟨epc, e1⟩ := getPc_ok h1
  rw [e1, epc, hop] at k1
  dsimp only at k1
  have hl0 : (([⟨hd, .atx⟩] : List Block).length == 0) = false := by simp
  rw [hl0] at k1
  simp only [Bool.false_eq_true, if_false] at k1
  have hlen1 : ((([⟨hd, .atx⟩] : List Block).length : Nat) : Int) - 1 = 0 := by simp
  rw [hlen1] at k1
  obtain ⟨x5, s5, h5, k5⟩ := bind_ok k1
  rw [ll_lineLoop_cons] at h5
  obtain ⟨y, s2, h2, k2⟩ := bind_ok h5
  have e2 : y = (none, s.r.pos) ∧ s2 = s := by
    unfold GM.Blocks.peekLine at h2
    unfold Reader.peekLine at h2
    rw [if_neg heof] at h2
    simp only [bind, Except.bind, pure, Except.pure] at h2
    cases h2
    exact ⟨rfl, rfl⟩
  obtain ⟨rfl, rfl⟩ := e2
  dsimp only at k2
  obtain ⟨u3, s3, h3, k3⟩ := bind_ok k2
  have e3 := h2_closeBlocks_atx s2 hd hop s3 h3
  obtain ⟨u4, s4, h4, k4⟩ := bind_ok k3
  have e4 := advanceLine_ok h4
  obtain ⟨ex, es⟩ := pure_ok k4
  subst ex
  dsimp only at k5
  obtain ⟨er, es'⟩ := pure_ok k5
  cases er
  rw [es', es, e4, e3]
  exact ⟨rfl, rfl, rfl⟩

/-- **3. one leading blank line**: `SkipBlankLines` skips exactly the line `\n` -/
theorem skip_one_blank (s : St) (next : Bytes) (hl : AtLine [10] s.r) (hn : AtLine next s.r.advanceLine)
    (hnb : isBlank next = false)
    (x : Segment × Int × Bool) (s' : St) (h : skipBlankLinesR s = .ok (x, s')) :
    x.2.1 = 1 ∧ x.2.2 = true ∧ s'.nodes = s.nodes ∧ s'.pc = s.pc ∧ AtLine next s'.r ∧
      s'.r.source = s.r.source ∧ s'.r.pos = s.r.advanceLine.pos ∧ s'.r.line = s.r.advanceLine.line := by
  unfold skipBlankLinesR at h
  have hf : loopFuel s.r.source = ((4 * s.r.source.length + 62) + 1) + 1 := rfl
  rw [hf] at h
  unfold skipBlankLines at h
  obtain ⟨r1, h1, hl1, rc1⟩ := h2_peekLineR hl
  simp only [readerOps, h1, bind, Except.bind, h2_isBlank_nl, if_true, pure, Except.pure] at h
  rw [h2_advanceLine_congr rc1] at h
  unfold skipBlankLines at h
  obtain ⟨r2, h2, hl2, rc2⟩ := h2_peekLineR hn
  simp only [readerOps, h2, bind, Except.bind, hnb, Bool.false_eq_true, if_false, pure, Except.pure] at h
  cases h
  refine ⟨rfl, rfl, rfl, rfl, hl2, ?_, rc2.2.1, rc2.2.2⟩
  show r2.source = _
  rw [rc2.1, advanceLine_source]
end GM.Blocks.Sh
