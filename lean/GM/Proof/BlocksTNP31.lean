/-
  GM.Proof.BlocksTNP31 — GM.Proof.BlocksTNP23 (one parser attempt of `tryParsersT`, RequireParagraph path included) for the
  wide transformer contract `PTsSpecX`: the KEEP case of the pop-and-transform path goes through `MidL.keepStep` (a KEEP call
  may attach fresh subtrees) instead of `TreeSame`.
-/
import GM.Proof.BlocksTNP30
import GM.Proof.BlocksTNP23

namespace GM.Blocks.L.G.X
open GM GM.Text GM.Spec GM.Proof.Reader GM.Blocks.T GM.Blocks.TR


theorem OKL.withEq {α} {P : α → St → Prop} {x : Except Panic (α × St)} (h : OKL P x) :
    OKL (fun a s' => P a s' ∧ x = .ok (a, s')) x := by
  rcases h with ⟨a, s', e, hp⟩ | e
  · exact .inl ⟨a, s', e, hp, e⟩
  · exact .inr e

/-- what `tryParsersT` hands back; `sb` = the state it started in -/
def TPPostG (src : Bytes) (old pre : List Block) (root : Nat) (s0 sb : St) (c : RCur) (PP : Prop) (newb : List Block) (w : Int)
    (x : TryOutcomeT × OpenResult × Option Block) (s' : St) : Prop :=
  ∃ c' new', RI src s'.r c' ∧ PadOK c' ∧ c.p ≤ c'.p ∧ WinL src old pre root s0 s' new' ∧
    ((x.2.1 = .noBlocksOpened ∧ new' = [] ∧ (s'.pc.opened = old → x.2.2 = old.getLast?)) ∨
      (x.2.1 = .newBlocksOpened ∧ new' ≠ [])) ∧
    (∀ k ∈ new', ∀ b ∈ old, CompatT s' k b) ∧ TL s' ∧
    (∀ k ∈ new', k.bp = .setext → s'.pc.opened = old.dropLast ++ new') ∧
    (∀ y, new'.getLast? = some y → y.bp.isContainer = false → LK s' y.node (lastNode root (pre ++ new'.dropLast))) ∧
    (new' = [] → x.1 = .done → s'.pc.opened = sb.pc.opened) ∧
    (PP → s'.pc.opened = old.dropLast ++ new') ∧ (new' = [] → newb = []) ∧
    (PP → x.1 ≠ .retryTransformed → new' ≠ []) ∧
    match x.1 with
    | .retry p => (∀ b ∈ new', b.bp.isContainer = true) ∧ p = lastNode root (pre ++ new') ∧
        ((c.p < c'.p ∧ (nd s' p).kind ≠ .list) ∨ (c' = c ∧ DueNew src sb s' c p)) ∧ new' ≠ []
    | .retryTransformed => new' = [] ∧ old ≠ [] ∧ s'.pc.opened = old.dropLast ∧ sb.pc.opened = old ∧ lastIsList sb = false ∧
        (∃ lb, old.getLast? = some lb ∧ lb.bp = .paragraph) ∧ (nd s' (lastNode root (pre ++ []))).kind ≠ .list ∧ c' = c ∧
        (∃ ch, matchesSetextHeadingBar ((RCur.view src c).getD []) = .ok (ch, true)) ∧ ¬ w > 3
    | .done => Leafy new' ∧ (nd s' (lastNode root (pre ++ new'))).kind ≠ .list

variable {e : Panic} {pts : List PT} {PP : Prop}

/-- a KEEP transformer call (it may attach fresh subtrees) keeps the facts about the freshly built block -/
theorem MidL.keepStep {src : Bytes} {old pre : List Block} {root : Nat} {s0 : St} {id : Nat} {bp : BP} {s s' : St}
    {new : List Block} {node : Nat} (h : MidL src old pre root s0 id bp s new) (hg : TStep src node s s' false)
    (kf : KeepF node s s') (t : TF s s') (hplt : PLTf s') (htree : TreeOK s') (hne : node ≠ id) :
    MidL src old pre root s0 id bp s' new := by
  have hbok : ∀ b, BlockOK s b → BlockOK s' b := fun b hb =>
    hb.ext kf.ext (fun hp => by rw [hg.tmp]; exact (hb.setext hp).2) (fun hp => by rw [hg.fence]; exact hb.fenced hp)
  refine ⟨hg.nodes, h.keys.ext kf.ext (.inl hg.tmp) (.inl hg.fence), h.ext.trans (ExtW.of_ext kf.ext),
    by rw [hg.opened]; exact h.shape,
    fun b hb => by rw [hg.opened] at hb; exact hbok b (h.blocks b hb), hbok _ h.nb, h.idge,
    fun hp => by rw [hg.fence]; exact h.fenceNew hp, h.setextOld, ?_, ?_, by rw [hg.opened]; exact h.stack,
    fun b hb => by rw [hg.opened] at hb; exact h.idgt b hb, h.rootid,
    by rw [kf.parOld id h.nb.lt (fun e' => hne e'.symm)]; exact h.idpar,
    fun hb => by rw [t.kids id h.nb.lt (by rw [h.nb.kind, hb]; rfl)]; exact h.idkids hb,
    fun hb => by rw [t.offset id h.nb.lt]; exact h.idoff hb, ?_, htree,
    fun hp => TmpOK.ext (h.tmpS hp) kf.ext hg.tmp, fun t' htt => h.tmplt t' (by rw [← hg.tmp]; exact htt)⟩
  · exact h.ls.step kf.ext t hplt hg.opened h.blocks
  · exact chainedO_tf kf.ext t root (pre ++ new) h.chain h.ls.rootLt
      (fun b hb => ⟨(h.blocks b (h.sub b hb)).lt, (h.blocks b (h.sub b hb)).kind⟩)
  · intro i e'
    rcases Nat.lt_or_ge i s.nodes.length with hi | hi
    · by_cases hin : i = node
      · subst hin
        rw [(hg.keep rfl).2] at e'
        exact h.nopt i e'
      · rw [kf.parOld i hi hin] at e'
        exact h.nopt i e'
    · rcases kf.parNew i hi id e' with h1 | h1
      · have : id < s.nodes.length := h.nb.lt
        omega
      · exact h.nopt node h1


theorem tryTailL_okl {newb : List Block} {w : Int} {src : Bytes} {old pre : List Block} {root : Nat} {s0 sb : St} {c c' : RCur} (parent id : Nat) (bp : BP)
    (st : PState) (lb0 : Option Block) (s : St) (new : List Block) (hm : MidL src old pre root s0 id bp s new)
    (hq : parent = lastNode root (pre ++ new))
    (hw0 : ∀ b ∈ old, b.node < s0.nodes.length) (hleafy : Leafy old) (hfresh : ∀ b ∈ new, s0.nodes.length ≤ b.node)
    (hallc : ∀ b ∈ new, b.bp.isContainer = true)
    (hri : RI src s.r c') (hpad : PadOK c') (hle : c.p ≤ c'.p)
    (hprog : st.hasChildren = true → (c.p < c'.p ∧ bp ≠ .list) ∨ (c' = c ∧ bp = .list))
    (hkids : st.hasChildren = true → bp.isContainer = true)
    (hP1 : (nd s parent).kind = .list → bp = .listItem) (hP1' : bp = .listItem → (nd s parent).kind = .list)
    (hlistHC : bp = .list → st.hasChildren = true) (hdue : bp = .list → DueFacts src sb c)
    (htl : TL s) (hsp : bp = .setext → s.pc.opened = old.dropLast ++ new)
    (hpp : PP → s.pc.opened = old.dropLast ++ new) :
    OKE e (TPPostG src old pre root s0 sb c PP newb w)
      ((do
        appendChild parent id
        modPc fun pc => { pc with opened := pc.opened ++ [{ node := id, bp := bp }] }
        if st.hasChildren then return (TryOutcomeT.retry id, OpenResult.newBlocksOpened, lb0)
        return (TryOutcomeT.done, OpenResult.newBlocksOpened, lb0) : M _) s) := by
  obtain ⟨hqid, hqlt⟩ := hm.parent_lt
  rw [← hq] at hqid hqlt
  have hidlt : id < s.nodes.length := hm.nb.lt
  simp only [bind, StateT.bind, appendChild_fresh parent id s hm.idpar, Except.bind, modPc, pure, StateT.pure, Except.pure]
  have hlkt := lk_appendChild_new parent id s _ hm.tree hm.idpar hidlt hqlt (L.appendChild_fresh parent id s hm.idpar)
  generalize hs1 : (upd (upd s parent fun n => { n with children := n.children ++ [id] }) id
      fun n => { n with parent := some parent }) = s1 at hlkt ⊢
  have hf : FrameEq s s1 := by
    rw [← hs1]
    exact (upd_frame s parent (f := fun n => { n with children := n.children ++ [id] }) (fun n => ⟨rfl, rfl, rfl⟩)).trans
      (upd_frame _ id (f := fun n => { n with parent := some parent }) (fun n => ⟨rfl, rfl, rfl⟩))
  have hlen1 : (upd s parent fun n => { n with children := n.children ++ [id] }).nodes.length = s.nodes.length := by
    simp [upd]
  have hnd_id : nd s1 id = { nd s id with parent := some parent } := by
    rw [← hs1, nd_upd, if_pos ⟨rfl, by rw [hlen1]; exact hidlt⟩, nd_upd, if_neg (by intro h; omega)]
  have hnd_q : nd s1 parent = { nd s parent with children := (nd s parent).children ++ [id] } := by
    rw [← hs1, nd_upd, if_neg (by intro h; omega), nd_upd, if_pos ⟨rfl, hqlt⟩]
  have hnd_o : ∀ j, j ≠ id → j ≠ parent → nd s1 j = nd s j := by
    intro j h1 h2
    rw [← hs1, nd_upd, if_neg (by intro h; exact h1 h.1.symm), nd_upd, if_neg (by intro h; exact h2 h.1.symm)]
  have hkind1 : ∀ j, (nd s1 j).kind = (nd s j).kind := fun j => (hf.same j).1
  have hpar1 : ∀ j, j ≠ id → (nd s1 j).parent = (nd s j).parent := by
    intro j hj
    by_cases h2 : j = parent
    · rw [h2, hnd_q]
    · rw [hnd_o j hj h2]
  have hch1 : ∀ j, j ≠ parent → (nd s1 j).children = (nd s j).children := by
    intro j hj
    by_cases h2 : j = id
    · rw [h2, hnd_id]
    · rw [hnd_o j h2 hj]
  have hoff1 : ∀ j, (nd s1 j).offset = (nd s j).offset := by
    intro j
    by_cases h1 : j = id
    · rw [h1, hnd_id]
    · by_cases h2 : j = parent
      · rw [h2, hnd_q]
      · rw [hnd_o j h1 h2]
  -- the final state
  generalize hs2 : ({ r := s1.r, nodes := s1.nodes, pc := { s1.pc with opened := s1.pc.opened ++ [{ node := id, bp := bp }] } } : St) = s2
  have hr2 : s2.r = s.r := by rw [← hs2]; exact hf.r
  have hn2 : s2.nodes = s1.nodes := by rw [← hs2]
  have hop2 : s2.pc.opened = s.pc.opened ++ [{ node := id, bp := bp }] := by rw [← hs2]; simp only; rw [hf.pc]
  have htmp2 : s2.pc.tmpPara = s.pc.tmpPara := by rw [← hs2]; simp only; rw [hf.pc]
  have hfen2 : s2.pc.fence = s.pc.fence := by rw [← hs2]; simp only; rw [hf.pc]
  have hnd2 : ∀ j, nd s2 j = nd s1 j := fun j => by simp only [nd, hn2]
  have hext : Ext s s2 := by
    have := hf.ext
    exact ⟨by rw [hn2]; exact this.len, fun j hj => by rw [hnd2]; exact this.kind j hj,
      fun j hj hk hl => by rw [hnd2]; exact this.linesNE j hj hk hl⟩
  have hnodes2 : NodesOK src s2 := by
    have := hf.nodesOK hm.nodes
    intro n hn; rw [hn2] at hn; exact this n hn
  have hkeys2 : W.KeysOKF s2 := hm.keys.ext hext (.inl htmp2) (.inl hfen2)
  have hbok : ∀ b, BlockOK s b → BlockOK s2 b := fun b hb =>
    hb.ext hext (fun hp => by rw [htmp2]; exact (hb.setext hp).2) (fun hp => by rw [hfen2]; exact hb.fenced hp)
  have hkidq : (nd s parent).kind = .list → (nd s id).kind = .listItem := fun h => by rw [hm.nb.kind, hP1 h]; rfl
  -- the list part of the store
  have hls2 : LStore s2 root := by
    refine ⟨⟨?_, ?_, ?_⟩, ?_, by rw [hnd2, hkind1]; exact hm.ls.rootKind, by rw [hn2, hf.len]; exact hm.ls.rootLt, ?_, ?_⟩
    · intro i lc hk hmem
      rw [hnd2, hkind1] at hk
      rw [hnd2] at hmem
      by_cases hi : i = parent
      · rw [hi, hnd_q] at hmem
        simp only [List.mem_append, List.mem_singleton] at hmem
        rcases hmem with hmem | hmem
        · obtain ⟨a, b⟩ := hm.ls.kids.kids i lc hk (by rw [hi]; exact hmem)
          exact ⟨by rw [hn2, hf.len]; exact a, by rw [hnd2, hkind1]; exact b⟩
        · rw [hmem]
          exact ⟨by rw [hn2, hf.len]; exact hidlt, by rw [hnd2, hkind1]; exact hkidq (hi ▸ hk)⟩
      · rw [hch1 i hi] at hmem
        obtain ⟨a, b⟩ := hm.ls.kids.kids i lc hk hmem
        exact ⟨by rw [hn2, hf.len]; exact a, by rw [hnd2, hkind1]; exact b⟩
    · intro i hk
      rw [hnd2, hkind1] at hk
      rw [hnd2, hoff1]
      exact hm.ls.kids.off i hk
    · intro i p hp hk
      rw [hnd2] at hp
      rw [hnd2, hkind1] at hk ⊢
      by_cases hi : i = id
      · rw [hi, hnd_id] at hp
        simp only [Option.some.injEq] at hp
        rw [← hp] at hk
        rw [hi]; exact hkidq hk
      · rw [hpar1 i hi] at hp
        exact hm.ls.kids.pk i p hp hk
    · intro i p hp
      rw [hnd2] at hp
      rw [hn2, hf.len]
      by_cases hi : i = id
      · rw [hi, hnd_id] at hp
        simp only [Option.some.injEq] at hp
        rw [← hp]; exact hqlt
      · rw [hpar1 i hi] at hp
        exact hm.ls.plt i p hp
    · intro b hb hc
      rw [hop2] at hb
      rw [hnd2]
      rcases List.mem_append.1 hb with hb | hb
      · rw [hpar1 b.node (by have := hm.idgt b hb; omega)]
        exact hm.ls.attached b hb hc
      · simp only [List.mem_singleton] at hb; subst hb
        simp only; rw [hnd_id]; rfl
    · rw [hop2, List.map_append, ← List.cons_append]
      refine List.pairwise_append.2 ⟨hm.ls.incr, by simp, ?_⟩
      intro a ha b hb
      simp only [List.map_cons, List.map_nil, List.mem_singleton] at hb
      subst hb
      simp only [List.mem_cons, List.mem_map] at ha
      rcases ha with rfl | ⟨x, hx, rfl⟩
      · exact hm.rootid
      · exact hm.idgt x hx
  -- the chain
  have hchain2 : ChainedO s2 root (pre ++ (new ++ [{ node := id, bp := bp }])) := by
    rw [← List.append_assoc, chainedO_append]
    constructor
    · have hpw := hm.incr'
      by_cases hne : pre ++ new = []
      · rw [hne]; trivial
      refine chainedO_agree root (pre ++ new) hm.chain (fun a _ => by rw [hnd2, hkind1]) ?_ ?_
      · intro b hb
        rw [hnd2, hpar1 b.node (by have := hm.idgt b (hm.sub b hb); omega)]
      · intro a ha
        rw [hnd2]
        have := pairwise_lt_lastNode root (pre ++ new) hpw hne a ha
        rw [hch1 a (by rw [hq]; omega)]
    · rw [← hq]
      refine ⟨⟨fun hk => ?_, fun hi => ?_⟩, trivial⟩
      · rw [hnd2, hkind1] at hk
        refine ⟨hP1 hk, ?_, ?_⟩
        · simp only; rw [hnd2, hnd_id]
        · rw [hnd2, hnd_q]; simp
      · simp only at hi
        rw [hnd2, hkind1]; exact hP1' hi
  have htree2 : TreeOK s2 := treeOK_tinv.ts (TreeSame.of_nodes_eq hn2) hlkt.2
  have hlk2 : LK s2 id parent :=
    ⟨by rw [hnd2]; exact hlkt.1.par, by rw [hnd2]; exact hlkt.1.last, fun p hp => hlkt.1.only p (by rw [← hnd2]; exact hp)⟩
  have htl2 : TL s2 := by
    intro ⟨b, hb, hs⟩
    rw [hop2] at hb
    rcases List.mem_append.1 hb with hb | hb
    · exact (htl ⟨b, hb, hs⟩).ext hext htmp2
    · simp only [List.mem_singleton] at hb; subst hb
      exact (hm.tmpS hs).ext hext htmp2
  have hsp2 : ∀ k ∈ new ++ [({ node := id, bp := bp } : Block)], k.bp = .setext →
      s2.pc.opened = old.dropLast ++ (new ++ [({ node := id, bp := bp } : Block)]) := by
    intro k hk hs
    rcases List.mem_append.1 hk with hk | hk
    · have := hallc k hk; rw [hs] at this; cases this
    · simp only [List.mem_singleton] at hk; subst hk
      rw [hop2, hsp hs, List.append_assoc]
  have hlkc : ∀ y, (new ++ [({ node := id, bp := bp } : Block)]).getLast? = some y → y.bp.isContainer = false →
      LK s2 y.node (lastNode root (pre ++ (new ++ [({ node := id, bp := bp } : Block)]).dropLast)) := by
    intro y hy _
    rw [List.getLast?_concat] at hy
    cases hy
    rw [List.dropLast_concat, ← hq]
    exact hlk2
  have hnd' : (new ++ [({ node := id, bp := bp } : Block)]) = [] → False := by simp
  have hwin : WinL src old pre root s0 s2 (new ++ [{ node := id, bp := bp }]) := by
    refine ⟨hnodes2, hkeys2, hm.ext.trans (ExtW.of_ext hext), ?_, ?_, hw0, hleafy, ?_, hls2, hchain2, ?_,
      fun h _ => absurd h (by simp), htree2, fun t htt => hm.tmplt t (by rw [← htmp2]; exact htt)⟩
    · rcases hm.shape with h | ⟨h1, h2⟩
      · exact .inl (by rw [hop2, h, List.append_assoc])
      · exact .inr ⟨h1, by rw [hop2, h2, List.append_assoc]⟩
    · intro b hb
      rw [hop2] at hb
      rcases List.mem_append.1 hb with hb | hb
      · exact hbok b (hm.blocks b hb)
      · simp only [List.mem_singleton] at hb; subst hb; exact hbok _ hm.nb
    · intro b hb
      rcases List.mem_append.1 hb with hb | hb
      · exact hfresh b hb
      · simp only [List.mem_singleton] at hb; subst hb; exact hm.idge
    · obtain ⟨suf, e⟩ := hm.stack
      exact ⟨suf, by rw [hop2, e, List.append_assoc]⟩
  have hcompat : ∀ k ∈ new ++ [{ node := id, bp := bp }], ∀ b ∈ old, CompatT s2 k b := by
    intro k hk b hb
    rcases List.mem_append.1 hk with hk | hk
    · exact CompatT.of_container_left (hallc k hk)
    · simp only [List.mem_singleton] at hk; subst hk
      refine ⟨⟨fun hse => hm.setextOld hse b hb, fun hfe _ f hf2 => ?_⟩, fun _ _ => ?_⟩
      · obtain ⟨f', hf', hfn⟩ := hm.fenceNew hfe
        rw [hfen2, hf'] at hf2
        cases hf2
        have := hw0 b hb
        have := hm.idge
        omega
      · have := hw0 b hb
        have := hm.idge
        simp only; omega
  have hne : new ++ [({ node := id, bp := bp } : Block)] ≠ [] := by simp
  have hlast : lastNode root (pre ++ (new ++ [({ node := id, bp := bp } : Block)])) = id := by
    rw [← List.append_assoc, lastNode_concat]
  by_cases hc : st.hasChildren = true
  · rw [if_pos hc]
    refine OKE.ok ⟨c', _, by rw [hr2]; exact hri, hpad, hle, hwin, .inr ⟨rfl, hne⟩, hcompat, htl2, hsp2, hlkc, fun h => (hnd' h).elim, (fun h => by rw [hop2, hpp h, List.append_assoc]), (fun h => (hnd' h).elim), (fun _ _ => hne), ?_, hlast.symm, ?_, hne⟩
    · intro b hb
      rcases List.mem_append.1 hb with hb | hb
      · exact hallc b hb
      · simp only [List.mem_singleton] at hb; subst hb; exact hkids hc
    · rcases hprog hc with ⟨h, hbl⟩ | ⟨h1, h2⟩
      · refine .inl ⟨h, ?_⟩
        rw [hnd2, hkind1, hm.nb.kind]
        exact fun hk => hbl (kind_list hk)
      · refine .inr ⟨h1, ?_⟩
        have hd := hdue h2
        refine ⟨by rw [hnd2, hkind1, hm.nb.kind, h2]; rfl, ?_, ⟨⟨id, bp⟩, by rw [hop2]; simp, rfl⟩, hd.m, hd.th, hd.wasNotList⟩
        rw [hnd2, hch1 id (by omega)]
        exact hm.idkids h2
  · rw [if_neg hc]
    refine OKE.ok ⟨c', _, by rw [hr2]; exact hri, hpad, hle, hwin, .inr ⟨rfl, hne⟩, hcompat, htl2, hsp2, hlkc, fun h => (hnd' h).elim, (fun h => by rw [hop2, hpp h, List.append_assoc]), (fun h => (hnd' h).elim), (fun _ _ => hne), leafy_snoc hallc _, ?_⟩
    rw [hlast, hnd2, hkind1, hm.nb.kind]
    intro hk
    exact hc (hlistHC (kind_list hk))

/-- setextHeadingParser.Open answers RequireParagraph with every node -/
theorem setextOpen_req (src : Bytes) (parent : Nat) (s : St) (c : RCur) (h : RI src s.r c) (hlt : c.p < src.length) :
    OKL (fun a s' => a.1.isSome = true → a.2.requirePara = true ∧ RI src s'.r c ∧
      ∃ ch, matchesSetextHeadingBar ((RCur.view src c).getD []) = .ok (ch, true)) (setextOpen parent s) := by
  unfold setextOpen
  have fin : ∀ r1, OKL (fun (a : Option Nat × PState) (s' : St) => a.1.isSome = true → a.2.requirePara = true ∧ RI src s'.r c ∧
        ∃ ch, matchesSetextHeadingBar ((RCur.view src c).getD []) = .ok (ch, true))
      (.ok ((none, stNoChildren), { s with r := r1 })) := fun r1 => OKL.ok (fun hh => by cases hh)
  refine OKL.bind (m := lastOpenedBlock) (P := fun v s' => s' = s) (OKL.ok rfl) (fun v s1 hs1 => ?_)
  subst hs1
  cases v with
  | none => exact fin s1.r
  | some lb =>
    simp only
    refine OKL.bind (m := getNode lb.node) (P := fun v s' => s' = s1) (OKL.ok rfl) (fun ln s2 hs2 => ?_)
    subst hs2
    by_cases hg : (ln.kind != Kind.paragraph || ln.parent != some parent) = true
    · rw [if_pos hg]; exact fin s2.r
    · rw [if_neg hg]
      refine OKL.bind (peekLine_okl h) (fun x s3 hx => ?_)
      obtain ⟨hx, r1, hs3, h1⟩ := hx
      subst hx hs3
      simp only
      have hv := view_eq src c hlt
      have hl2 := view_length src c hlt hv
      obtain ⟨v, hm⟩ := matchesSetextHeadingBar_total ((RCur.view src c).getD [])
        (by rw [hv]; simp only [Option.getD_some]; intro e; rw [e] at hl2; simp at hl2)
      refine OKL.bind (liftE_okl (P := fun a s' => a = v ∧ s' = { s2 with r := r1 }) hm ⟨rfl, rfl⟩) (fun a s4 ha => ?_)
      obtain ⟨ha, hs4⟩ := ha
      subst ha hs4
      obtain ⟨ch, ok⟩ := a
      simp only
      by_cases hok : (!ok) = true
      · rw [if_pos hok]; exact fin r1
      · rw [if_neg hok]
        simp only [bind, StateT.bind, newNode, appendLine, modNode, modPc, pure, StateT.pure, Except.bind, Except.pure]
        refine OKL.ok (fun _ => ⟨rfl, h1, ch, ?_⟩)
        have : ok = true := by cases ok <;> simp at hok ⊢
        rw [hm, this]

/-- a setext heading underline at the cursor: the rest of the source line is not blank -/
theorem bar_nonblank (src : Bytes) (c : RCur) (hp : c.p < src.length) (ch : UInt8)
    (h : matchesSetextHeadingBar ((RCur.view src c).getD []) = .ok (ch, true)) : NonBlankSeg src (RCur.seg src c) := by
  have hv := view_eq src c hp
  rw [hv] at h
  simp only [Option.getD_some] at h
  have key : ∀ b : UInt8, b ∈ spaces c.pad ++ sub src c.p (lineEnd src c.p) → isSpace b = false →
      isBlank (sub src c.p (lineEnd src c.p)) = false := by
    intro b hb hs
    rcases List.mem_append.1 hb with h1 | h1
    · unfold spaces at h1
      have := (List.mem_replicate.1 h1).2
      subst this
      simp [isSpace] at hs
    · unfold isBlank
      rw [Bool.eq_false_iff]
      intro hall
      have := List.all_eq_true.1 hall b h1
      rw [hs] at this; cases this
  unfold NonBlankSeg RCur.seg
  simp only [Int.toNat_natCast]
  rcases T.bar_has_trigger _ ch h with hx | hx
  · exact key 61 hx (by decide)
  · exact key 45 hx (by decide)

/-- paragraphParser.Open cannot decline a line that is not blank -/
theorem paragraphOpen_some {src} {s : St} {c : RCur} (h : RI src s.r c) (parent : Nat)
    (hnb : NonBlankSeg src (RCur.seg src c)) :
    OKL (fun a _ => a.1.isSome = true) (paragraphOpen parent s) := by
  unfold paragraphOpen
  refine OKL.bind (peekLine_okl h) (fun x s1 hx => ?_)
  obtain ⟨hx, r1, hs1, h1⟩ := hx
  subst hx hs1
  simp only
  obtain ⟨t', ht, hok, hstop, hstart, hpad, hfn, hnb', _⟩ := trimLeftSpace_ok2 (seg_ok src c h.inRange)
  refine OKL.bind (m := source) (P := fun v s' => v = src ∧ s' = { s with r := r1 }) (OKL.ok ⟨h1.source, rfl⟩) (fun v s2 hv => ?_)
  obtain ⟨hv, hs2⟩ := hv
  subst hs2
  rw [hv]
  refine OKL.bind (liftE_okl (P := fun a s' => a = t' ∧ s' = { s with r := r1 }) ht ⟨rfl, rfl⟩) (fun a s3 ha => ?_)
  obtain ⟨ha, hs3⟩ := ha
  subst ha hs3
  have hne : a.start < a.stop := (hnb' hnb).2
  have he : ¬ a.isEmpty = true := by
    unfold Segment.isEmpty
    simp only [hpad]
    simp; omega
  rw [if_neg he]
  have hlen : 0 ≤ a.len - 1 := by
    unfold Segment.len
    simp only [hpad]
    omega
  simp only [bind, StateT.bind, newNode, appendLine, modNode, pure, StateT.pure, Except.bind, Except.pure]
  have hadv := advance_okl (src := src)
    (s := { r := r1, nodes := (s.nodes ++ [({ kind := Kind.paragraph } : Node)]).set s.nodes.length
              ({ ((s.nodes ++ [({ kind := Kind.paragraph } : Node)]).getD s.nodes.length default) with
                  lines := ((s.nodes ++ [({ kind := Kind.paragraph } : Node)]).getD s.nodes.length default).lines ++ [a],
                  linesNil := false }), pc := s.pc }) (c := c) h1 hlen
  rcases hadv with ⟨_, s4, e4, r4, hs4, h4⟩ | e4
  · rw [e4]; exact OKL.ok rfl
  · rw [e4]; exact .inr rfl


section tp
variable {src : Bytes} (lsp : LSp src) (hpts : PTsSpecX src e pts)
include lsp hpts

theorem tryStepL {old pre : List Block} {root : Nat} {s0 sb : St} (cl : Call old pre)
    (hll : ∀ lb, old.getLast? = some lb → lb.bp.isContainer = false → ∃ q, LK s0 lb.node q) (parent : Nat) (blank cont : Bool) (w : Int)
    (bp : BP) (bps : List BP) (result : OpenResult) (lastBlock : Option Block) (s : St) (c : RCur) (new : List Block)
    (hc : LineCtx src s c) (hw : WinL src old pre root s0 s new) (hallc : ∀ b ∈ new, b.bp.isContainer = true)
    (hq : parent = lastNode root (pre ++ new))
    (hres : (result = .noBlocksOpened ∧ new = [] ∧ (s.pc.opened = old → lastBlock = old.getLast?)) ∨ (result = .newBlocksOpened ∧ new ≠ []))
    (hs1 : ¬ (cont && result == OpenResult.noBlocksOpened && !bp.canInterruptParagraph) = true)
    (hs2 : ¬ (decide (w > 3) && !bp.canAcceptIndentedLine) = true)
    (htl : TL s) (hpp : PP → s.pc.opened = old.dropLast ++ new)
    (hsb : ∀ a s1, OpenPostW src bp parent s c a s1 → a.1.isSome = true → bp = .setext →
      s.pc.opened = sb.pc.opened ∧ s.nodes = sb.nodes)
    (hP1 : ∀ a s1, OpenPostW src bp parent s c a s1 → a.1.isSome = true → (nd s parent).kind = .list → bp = .listItem)
    (hdue : ∀ a s1, OpenPostW src bp parent s c a s1 → a.1.isSome = true → bp = .list → DueFacts src sb c)
    (hK : ∀ st s1, OpenPostW src bp parent s c (none, st) s1 → bpOpen bp parent s = .ok ((none, st), s1) → TL s1 → (PP → s1.pc.opened = old.dropLast ++ new) →
      OKE e (TPPostG src old pre root s0 sb c PP new w) (tryParsersT pts parent blank cont w bps result s.pc.opened.getLast? s1)) :
    OKE e (TPPostG src old pre root s0 sb c PP new w) (tryParsersT pts parent blank cont w (bp :: bps) result lastBlock s) := by
  unfold tryParsersT
  simp only []
  rw [if_neg hs1, if_neg hs2]
  refine OKE.bind (m := lastOpenedBlock) (P := fun lb s1 => lb = s.pc.opened.getLast? ∧ s1 = s) (OKE.ok ⟨rfl, rfl⟩)
    (fun lb0 sx hlb => ?_)
  obtain ⟨hlb0, hsx⟩ := hlb
  subst sx
  refine OKE.bind (OKE.of_okl (OKL.withEq (openAllW lsp bp parent s c hc hw.ls.kids))) (fun x s1 hO' => ?_)
  obtain ⟨hO, heqO⟩ := hO'
  obtain ⟨nodeopt, st⟩ := x
  cases nodeopt with
  | none =>
    simp only []
    rw [hlb0]
    have htmp1 : s1.pc.tmpPara = s.pc.tmpPara := by
      rcases hO.tmp with ⟨_, h2, _⟩ | ⟨_, h⟩
      · cases h2
      · exact h
    exact hK st s1 hO heqO (htl.ext (Ext.of_nodes_eq (hO.noNode rfl)) htmp1 (fun b hb hs => ⟨b, by rw [← hO.opened]; exact hb, hs⟩))
      (fun h => by rw [hO.opened]; exact hpp h)
  | some id =>
    simp only []
    obtain ⟨hm1, hid, hop1, hnd1, hlen1, hreq⟩ := open_someL hO hw hallc (bpOpen_new_kids bp parent s _ s1 heqO)
    have hreqS : bp = .setext → st.requirePara = true ∧ RI src s1.r c ∧
        ∃ ch, matchesSetextHeadingBar ((RCur.view src c).getD []) = .ok (ch, true) := by
      intro hb
      subst hb
      have := (setextOpen_req src parent s c hc.ri hc.lt)
      rcases this with ⟨a, s', e1, h1⟩ | e1
      · have e2 : bpOpen .setext parent s = setextOpen parent s := rfl
        rw [e2, e1] at heqO
        cases heqO
        exact h1 rfl
      · have e2 : bpOpen .setext parent s = setextOpen parent s := rfl
        rw [e2, e1] at heqO; cases heqO
    have htl1 : TL s1 := by
      intro hex
      by_cases hb : bp = .setext
      · exact hm1.tmpS hb
      · have htmp1 : s1.pc.tmpPara = s.pc.tmpPara := by
          rcases hO.tmp with ⟨h, _⟩ | ⟨_, h⟩
          · exact absurd h hb
          · exact h
        obtain ⟨b, hbm, hs⟩ := hex
        obtain ⟨_, n, hn, _⟩ := hO.newNode id rfl
        exact (htl ⟨b, by rw [← hop1]; exact hbm, hs⟩).ext (Ext.of_append hn) htmp1
    obtain ⟨c', hri, hpad, hle, _, hprog⟩ := hO.ri
    have hkids : st.hasChildren = true → bp.isContainer = true := fun h => (hO.kids h).1
    have hparlt : parent < s.nodes.length := by
      rcases lastNode_mem root (pre ++ new) with e | ⟨b, hb, e⟩
      · rw [hq, e]; exact hw.ls.rootLt
      · rw [hq, e]
        obtain ⟨suf, es⟩ := hw.stack
        refine (hw.blocks b ?_).lt
        rw [es]
        rcases List.mem_append.1 hb with h | h
        · exact List.mem_append_left _ (List.mem_append_left _ h)
        · exact List.mem_append_right _ h
    have hP1s : (nd s parent).kind = .list → bp = .listItem := hP1 _ _ hO rfl
    have hP1s' : bp = .listItem → (nd s parent).kind = .list := fun hb => (hO.itemFacts hb).1 rfl
    have hlistHC : bp = .list → st.hasChildren = true := fun hb => (hO.listFacts hb rfl).1
    have hdue' : bp = .list → DueFacts src sb c := hdue _ _ hO rfl
    have hprog' : st.hasChildren = true → (c.p < c'.p ∧ bp ≠ .list) ∨ (c' = c ∧ bp = .list) := fun h => by
      rcases hprog h with h' | ⟨h1, h2⟩
      · exact .inl h'
      · exact .inr ⟨h2, h1⟩
    -- the tail: AppendChild, push
    have tail : ∀ (sX : St) (newX : List Block), MidL src old pre root s0 id bp sX newX → sX.r = s1.r → TL sX → (bp = .setext → sX.pc.opened = old.dropLast ++ newX) → (PP → sX.pc.opened = old.dropLast ++ newX) →
        (∀ b ∈ newX, s0.nodes.length ≤ b.node) → (∀ b ∈ newX, b.bp.isContainer = true) →
        parent = lastNode root (pre ++ newX) → (nd sX parent).kind = (nd s parent).kind →
        OKE e (TPPostG src old pre root s0 sb c PP new w)
          ((do
            appendChild parent id
            modPc fun pc => { pc with opened := pc.opened ++ [{ node := id, bp := bp }] }
            if st.hasChildren then return (TryOutcomeT.retry id, OpenResult.newBlocksOpened, lb0)
            return (TryOutcomeT.done, OpenResult.newBlocksOpened, lb0) : M _) sX) := by
      intro sX newX hmX hrX htX hspX hppX hfX haX hqX hkX
      exact tryTailL_okl parent id bp st lb0 sX newX hmX hqX hw.oldlt hw.leafyOld hfX haX (by rw [hrX]; exact hri) hpad hle
        hprog' hkids (fun h => hP1s (by rw [← hkX]; exact h)) (fun h => by rw [hkX]; exact hP1s' h) hlistHC hdue' htX hspX hppX
    -- the middle: blank flag, the `last.Parent() == nil` test; `K` = the tail
    have mid : ∀ (K : M (TryOutcomeT × OpenResult × Option Block)),
        (∀ (sX : St) (newX : List Block), MidL src old pre root s0 id bp sX newX → sX.r = s1.r → TL sX → (bp = .setext → sX.pc.opened = old.dropLast ++ newX) → (PP → sX.pc.opened = old.dropLast ++ newX) →
          (∀ b ∈ newX, s0.nodes.length ≤ b.node) → (∀ b ∈ newX, b.bp.isContainer = true) →
          parent = lastNode root (pre ++ newX) → (nd sX parent).kind = (nd s parent).kind →
          OKE e (TPPostG src old pre root s0 sb c PP new w) (K sX)) →
        ∀ (sX : St), MidL src old pre root s0 id bp sX new → sX.r = s1.r → TL sX →
        (bp = .setext → sX.pc.opened = old.dropLast ++ new) → (PP → sX.pc.opened = old.dropLast ++ new) → (nd sX parent).kind = (nd s parent).kind →
        (∀ lb, lb0 = some lb → (nd sX lb.node).parent.isSome = true ∨
            (new = [] ∧ sX.pc.opened = old ∧ old.getLast? = some lb)) →
        OKE e (TPPostG src old pre root s0 sb c PP new w)
          ((modNode id (fun n => { n with blankPrev := blank }) >>= fun _ =>
            match Option.map (fun x => x.node) lb0 with
            | some l => getNode l >>= fun n =>
                if n.parent.isNone = true then
                  getPc >>= fun pc =>
                    closeBlocksT pts ((pc.opened.length : Int) - 1) ((pc.opened.length : Int) - 1) >>= fun _ => K
                else K
            | none => K) sX) := by
      intro K hKK sX hmX hrX htX hspX hppX hkX hcase
      have hfr : FrameEq sX (upd sX id fun n => { n with blankPrev := blank }) :=
        upd_frame sX id (f := fun n => { n with blankPrev := blank }) (fun n => ⟨rfl, rfl, rfl⟩)
      have hts : TreeSame sX (upd sX id fun n => { n with blankPrev := blank }) :=
        upd_treeSame sX id (f := fun n => { n with blankPrev := blank }) (fun n => ⟨rfl, rfl, rfl, rfl⟩)
      have hm3 := hmX.same hfr.ext (hfr.nodesOK hmX.nodes) hts (by rw [hfr.pc]) (by rw [hfr.pc]) (by rw [hfr.pc])
      have hpar3 : ∀ j, (nd (upd sX id fun n => { n with blankPrev := blank }) j).parent = (nd sX j).parent :=
        fun j => (hts.same j).2.1
      have hk3 : (nd (upd sX id fun n => { n with blankPrev := blank }) parent).kind = (nd s parent).kind := by
        rw [(hts.same parent).1]; exact hkX
      refine OKE.bind (m := modNode id fun n => { n with blankPrev := blank })
        (P := fun _ s3 => s3 = upd sX id fun n => { n with blankPrev := blank }) (OKE.ok rfl) (fun _ s3 h3 => ?_)
      subst h3
      have htl3 : TL (upd sX id fun n => { n with blankPrev := blank }) :=
        htX.ext hfr.ext (by rw [hfr.pc]) (fun b hb hs => ⟨b, by rw [← hfr.pc]; exact hb, hs⟩)
      have hsp3 : bp = .setext → (upd sX id fun n => { n with blankPrev := blank }).pc.opened = old.dropLast ++ new :=
        fun hb => by rw [hfr.pc]; exact hspX hb
      cases hl : lb0 with
      | none => exact hKK _ new hm3 (by rw [hfr.r, hrX]) htl3 hsp3 (fun h => by rw [hfr.pc]; exact hppX h) hw.fresh hallc hq hk3
      | some lb =>
        simp only [Option.map]
        refine OKE.bind (m := getNode lb.node)
          (P := fun n s4 => n = nd (upd sX id fun n => { n with blankPrev := blank }) lb.node ∧
            s4 = upd sX id fun n => { n with blankPrev := blank }) (OKE.ok ⟨rfl, rfl⟩) (fun n s4 h4 => ?_)
        obtain ⟨h4n, h4s⟩ := h4
        subst h4n h4s
        by_cases hnn : (nd (upd sX id fun n => { n with blankPrev := blank }) lb.node).parent.isNone = true
        · rw [if_pos hnn]
          rcases hcase lb hl with hsome | ⟨hnew, hopX, hlast⟩
          · exfalso
            rw [hpar3] at hnn
            cases hh : (nd sX lb.node).parent with
            | none => rw [hh] at hsome; cases hsome
            | some _ => rw [hh] at hnn; cases hnn
          · refine OKE.bind (m := getPc)
              (P := fun pc s5 => pc = (upd sX id fun n => { n with blankPrev := blank }).pc ∧
                s5 = upd sX id fun n => { n with blankPrev := blank }) (OKE.ok ⟨rfl, rfl⟩) (fun pc s5 h5 => ?_)
            obtain ⟨h5p, h5s⟩ := h5
            subst h5p h5s
            have hop3 : (upd sX id fun n => { n with blankPrev := blank }).pc.opened = old.dropLast ++ [lb] := by
              rw [hfr.pc, hopX]; exact eq_dropLast_append_of_getLast? old lb hlast
            have hp3 : (nd (upd sX id fun n => { n with blankPrev := blank }) lb.node).parent.isSome = false := by
              cases hh : (nd (upd sX id fun n => { n with blankPrev := blank }) lb.node).parent with
              | none => rfl
              | some _ => rw [hh] at hnn; cases hnn
            subst hnew
            have hne : old ≠ [] := by intro h; rw [h] at hlast; cases hlast
            -- the popped block is not a container (it has no parent), so it is not the last block of `pre`
            have hsufne : ∃ suf, old = pre ++ suf ∧ suf ≠ [] := by
              obtain ⟨suf0, e0, h0⟩ := cl.pref
              refine ⟨suf0, e0, fun hs => ?_⟩
              have hcont := h0 hs lb hlast
              have hmem : lb ∈ sX.pc.opened := by rw [hopX]; exact List.mem_of_getLast? hlast
              have := hmX.ls.attached lb hmem hcont
              rw [← hpar3] at this
              rw [this] at hp3; cases hp3
            have hm4 := hm3.pop (by rw [hfr.pc, hopX]) hne hsufne
            refine OKE.bind (P := fun _ s6 => s6 = { (upd sX id fun n => { n with blankPrev := blank }) with
                pc := { (upd sX id fun n => { n with blankPrev := blank }).pc with opened := old.dropLast } })
              (by rw [closeBlocksT_last_skip pts old.dropLast lb _ hop3 hp3]; exact OKE.ok rfl) (fun _ s6 h6 => ?_)
            subst h6
            exact hKK _ [] hm4 (by simp only; rw [hfr.r, hrX])
              (fun ⟨b, hb, hs⟩ => by
                have hb' : b ∈ (upd sX id fun n => { n with blankPrev := blank }).pc.opened := by
                  rw [hfr.pc, hopX]; exact List.dropLast_subset _ hb
                intro t ht
                exact htl3 ⟨b, hb', hs⟩ t ht)
              (fun _ => by simp) (fun _ => by simp) (fun _ h => by cases h) (fun _ h => by cases h) hq hk3
        · rw [if_neg hnn]
          exact hKK _ new hm3 (by rw [hfr.r, hrX]) htl3 hsp3 (fun h => by rw [hfr.pc]; exact hppX h) hw.fresh hallc hq hk3
    -- the `last` of the non-RequireParagraph path
    have hcase1 : ∀ lb, lb0 = some lb → (nd s1 lb.node).parent.isSome = true ∨
        (new = [] ∧ s1.pc.opened = old ∧ old.getLast? = some lb) := by
      intro lb hl
      by_cases hnew : new = []
      · rcases hw.shape with h | ⟨_, h⟩
        · right
          have hop : s.pc.opened = old := by rw [h, hnew, List.append_nil]
          exact ⟨hnew, by rw [hop1, hop], by rw [← hop, ← hlb0, hl]⟩
        · left
          have hmem : lb ∈ s.pc.opened := List.mem_of_getLast? (by rw [← hlb0, hl])
          have hmd : lb ∈ old.dropLast := by rw [h, hnew, List.append_nil] at hmem; exact hmem
          rw [hnd1 _ (hw.blocks lb hmem).lt]
          exact hw.ls.attached lb hmem (hw.leafyOld lb hmd)
      · left
        have hlast : new.getLast? = some lb := by
          have : s.pc.opened.getLast? = new.getLast? := by
            cases hne : new.getLast? with
            | none => exact absurd (List.getLast?_eq_none_iff.1 hne) hnew
            | some x => rcases hw.shape with h | ⟨_, h⟩ <;> rw [h, List.getLast?_append, hne] <;> rfl
          rw [← this, ← hlb0, hl]
        have hmem : lb ∈ s.pc.opened := by
          rcases hw.shape with h | ⟨_, h⟩ <;> rw [h] <;> exact List.mem_append_right _ (List.mem_of_getLast? hlast)
        rw [hnd1 _ (hw.blocks lb hmem).lt]
        exact hw.ls.attached lb hmem (hallc lb (List.mem_of_getLast? hlast))
    have hk1 : (nd s1 parent).kind = (nd s parent).kind := by rw [hnd1 _ hparlt]
    by_cases hrq : st.requirePara = true
    · rw [if_pos hrq]
      obtain ⟨lb, hlb1, hlbpar, hlbbp, hnew, hopold⟩ := hreq hrq
      have hbpS : bp = .setext := (hO.req hrq).1
      have hl : lb0 = some lb := by rw [hlb0, hlb1]
      have hmem : lb ∈ s.pc.opened := List.mem_of_getLast? hlb1
      have hlblt := (hw.blocks lb hmem).lt
      have hpar1' : (nd s1 lb.node).parent = some parent := by rw [hnd1 _ hlblt]; exact hlbpar
      -- `last == parent.LastChild()`: the last opened leaf is the last child of its parent
      have hlast0 : old.getLast? = some lb := by rw [← hopold]; exact hlb1
      obtain ⟨q0, hlk0⟩ := hll lb hlast0 (by rw [hlbbp]; rfl)
      have hts0 : TreeSame s0 s := hw.tsame hnew hopold
      have hlk_s : LK s lb.node q0 := (lk_tinv lb.node q0).ts hts0 hlk0
      have hq0 : q0 = parent := by have := hlk_s.par; rw [hlbpar] at this; cases this; rfl
      have hkids1 : (nd s1 parent).children.getLast? = some lb.node := by rw [hnd1 _ hparlt, ← hq0]; exact hlk_s.last
      have hne : old ≠ [] := by rw [← hopold]; intro h; rw [h] at hmem; cases hmem
      have hsbf := hsb _ _ hO rfl hbpS
      subst hnew
      have hres0 : result = .noBlocksOpened := by
        rcases hres with ⟨h, _⟩ | ⟨_, h⟩
        · exact h
        · exact absurd rfl h
      have hsufne : ∃ suf, old = pre ++ suf ∧ suf ≠ [] := by
        obtain ⟨suf0, e0, h0⟩ := cl.pref
        refine ⟨suf0, e0, fun hs => ?_⟩
        have hcont := h0 hs lb hlast0
        rw [hlbbp] at hcont; cases hcont
      have hdl : old.dropLast ≠ old := by
        intro h
        have := congrArg List.length h
        rw [List.length_dropLast] at this
        have : old.length ≠ 0 := fun h0 => hne (List.length_eq_zero_iff.1 h0)
        omega
      refine OKE.bind (m := requireParaT pts parent (Option.map (fun x => x.node) lb0) lb0)
        (P := fun tr s3 =>
          (tr = false ∧ MidL src old pre root s0 id bp s3 [] ∧ s3.r = s1.r ∧ TL s3 ∧ s3.pc.opened = old.dropLast ∧
            (nd s3 parent).kind = (nd s parent).kind ∧ (nd s3 lb.node).parent = some parent) ∨
          (tr = true ∧ TPPostG src old pre root s0 sb c PP [] w (TryOutcomeT.retryTransformed, result, lb0) s3)) ?_
        (fun tr s3 h3 => ?_)
      · unfold requireParaT
        refine OKE.bind (m := getNode parent) (P := fun pn sy => pn = nd s1 parent ∧ sy = s1) (OKE.ok ⟨rfl, rfl⟩)
          (fun pn sy hy => ?_)
        obtain ⟨hpn, hsy⟩ := hy
        subst pn sy
        have heq : (Option.map (fun x => x.node) lb0 == (nd s1 parent).children.getLast?) = true := by
          rw [hl, hkids1]; simp
        rw [if_pos heq]
        subst hl
        simp only []
        have hmem1 : lb ∈ s1.pc.opened := by rw [hop1]; exact hmem
        have hb1 := hm1.blocks lb hmem1
        have hcl := closeG lsp lb.bp lb.node s1 hri.source hm1.nodes hm1.keys hb1 hm1.ls.kids hm1.ls.plt
          (fun h => by rw [hlbbp] at h; cases h)
        refine OKE.bind (OKE.of_okl hcl) (fun _ s2 h2 => ?_)
        obtain ⟨h2, _, _, heq2⟩ := h2
        have hts2 : TreeSame s1 s2 := by
          obtain ⟨lnode, lbp⟩ := lb
          simp only at hlbbp
          subst hlbbp
          exact lsp.paraCloseTS lnode s1 s2 hb1 hm1.nodes heq2
        have htmp2 : s2.pc.tmpPara = s1.pc.tmpPara := by
          rcases h2.tmp with h | ⟨h, _⟩
          · exact h
          · rw [hlbbp] at h; cases h
        have hfen2 : s2.pc.fence = s1.pc.fence := by
          rcases h2.fence with h | ⟨h, _⟩
          · exact h
          · rw [hlbbp] at h; cases h
        have hm2 : MidL src old pre root s0 id bp s2 [] := hm1.same h2.ext h2.nodes hts2 h2.opened htmp2 hfen2
        have hop2 : s2.pc.opened = old := by rw [h2.opened, hop1, hopold]
        refine OKE.bind (m := getPc) (P := fun pc sy => pc = s2.pc ∧ sy = s2) (OKE.ok ⟨rfl, rfl⟩) (fun pc sy hy => ?_)
        obtain ⟨hpc, hsy⟩ := hy
        subst pc sy
        have hlen2 : (s2.pc.opened.length == 0) = false := by
          rw [hop2]; cases old with
          | nil => exact absurd rfl hne
          | cons _ _ => rfl
        rw [if_neg (by rw [hlen2]; simp)]
        refine OKE.bind (m := modPc _) (P := fun _ sy => sy = { s2 with pc := { s2.pc with opened := old.dropLast } })
          (OKE.ok (by rw [hop2])) (fun _ sy hy => ?_)
        subst hy
        refine OKE.bind (m := getNode lb.node)
          (P := fun n sy => n = nd s2 lb.node ∧ sy = { s2 with pc := { s2.pc with opened := old.dropLast } })
          (OKE.ok ⟨rfl, rfl⟩) (fun n sy hy => ?_)
        obtain ⟨hn, hsy⟩ := hy
        subst n sy
        have hb2 := hm2.blocks lb (by rw [hop2, ← hopold]; exact hmem)
        have hkind2 : (nd s2 lb.node).kind = Kind.paragraph := by
          rw [hb2.kind, hlbbp]; rfl
        simp only []
        rw [if_neg (by rw [hkind2]; simp)]
        have hm2' := hm2.pop hop2 hne hsufne
        generalize hsP : ({ s2 with pc := { s2.pc with opened := old.dropLast } } : St) = sP at hm2'
        have hndP : ∀ j, nd sP j = nd s2 j := fun j => by rw [← hsP]
        have hpar2 : (nd s2 lb.node).parent = some parent := by rw [(hts2.same lb.node).2.1]; exact hpar1'
        have htp := transformParagraphG_oke pts hpts lb.node sP (by rw [← hsP]; show s2.r.source = src; rw [h2.r]; exact hri.source)
          (by rw [← hsP]; exact hb2.lt) (by rw [hndP]; exact hkind2) (by rw [hndP, hpar2]; rfl)
          (by rw [hndP]; exact hb2.para hlbbp) hm2'.nodes hm2'.ls.kids hm2'.ls.plt hm2'.tree
        refine OKE.mono htp (fun g s3 hg => ?_)
        obtain ⟨hg, htf3, hplt3, htree3, _, hkeep3⟩ := hg
        have hopP : sP.pc.opened = old.dropLast := by rw [← hsP]
        have hrP : sP.r = s1.r := by rw [← hsP]; exact h2.r
        cases g with
        | false =>
          left
          have kf3 := hkeep3 rfl
          have hm3 : MidL src old pre root s0 id bp s3 [] :=
            MidL.keepStep hm2' hg kf3 htf3 hplt3 htree3 (by rw [hid]; omega)
          refine ⟨rfl, hm3, by rw [hg.r, hrP], fun _ => hm3.tmpS hbpS, by rw [hg.opened, hopP], ?_, ?_⟩
          · rw [hg.kind parent (by rw [← hsP]; show parent < s2.nodes.length; rw [hts2.len, hlen1]; omega), hndP,
              (hts2.same parent).1]
            exact hk1
          · rw [(hg.keep rfl).2, hndP]; exact hpar2
        | true =>
          right
          refine ⟨rfl, c, [], by rw [hg.r, hrP]; exact (hreqS hbpS).2.1, hc.pad, Nat.le_refl _, ?_, .inl ⟨hres0, rfl, fun ho' => ?_⟩,
            (fun k hk => by cases hk), ?_, (fun k hk => by cases hk), (fun y hy => by cases hy), (fun _ h => by cases h),
            (fun _ => by rw [hg.opened, hopP]; simp), (fun _ => rfl), (fun _ h => absurd rfl h), ?_⟩
          · -- the window after the transformed paragraph has been popped
            have hallc2 : ∀ b ∈ old.dropLast, b.bp.isContainer = true := hw.leafyOld
            have hblocks3 : ∀ b ∈ s3.pc.opened, BlockOK s3 b := by
              intro b hb
              rw [hg.opened] at hb
              refine hg.blockOK (by rw [hndP]; exact hkind2) (hm2'.blocks b hb) (fun hp => ?_)
              rw [hopP] at hb
              exact absurd hp (container_kind (hallc2 b hb)).1
            refine ⟨hg.nodes, ⟨fun f hf => by
                rw [hg.fence] at hf
                obtain ⟨a, b, cc⟩ := hm2'.keys.fence f hf
                exact ⟨a, b, Nat.lt_of_lt_of_le cc hg.len⟩⟩, hm2'.ext.trans hg.extW,
              .inr ⟨hne, by rw [hg.opened, hopP]; simp⟩, hblocks3, hw.oldlt, hw.leafyOld, (fun b hb => by cases hb),
              L.T.LStore.stepW hm2'.ls hg.extW htf3 hplt3 hg.opened hm2'.blocks, ?_,
              (by rw [hg.opened]; exact hm2'.stack), (fun _ ho' => absurd (by rw [← hopP, ← hg.opened]; exact ho') hdl), htree3,
              (fun t htt => hm2'.tmplt t (by rw [← hg.tmp]; exact htt))⟩
            refine L.T.chainedO_tfW hg.extW htf3 root (pre ++ []) hm2'.chain hm2'.ls.rootLt (fun b hb => ?_)
            have := hm2'.blocks b (hm2'.sub b hb)
            exact ⟨this.lt, this.kind⟩
          · exact absurd (by rw [← hopP, ← hg.opened]; exact ho') hdl
          · intro ⟨b, hb, hs⟩
            rw [hg.opened, hopP] at hb
            have := hw.leafyOld b hb
            rw [hs] at this; cases this
          · refine ⟨rfl, hne, by rw [hg.opened, hopP], by rw [← hsbf.1, hopold], ?lil, ⟨lb, hlast0, hlbbp⟩, ?knd, rfl,
              (hreqS hbpS).2.2, ?w3⟩
            case w3 =>
              intro hw3
              apply hs2
              rw [hbpS]
              simp [BP.canAcceptIndentedLine]
              exact hw3
            case knd =>
              rw [← hq, hg.kind parent (by rw [← hsP]; show parent < s2.nodes.length; rw [hts2.len, hlen1]; omega), hndP,
                (hts2.same parent).1, hk1]
              intro hkl
              have := hP1s hkl
              rw [hbpS] at this; cases this
            case lil =>
              unfold lastIsList
              rw [← hsbf.1, ← hsbf.2, hlb1]
              simp only
              have hk := (hw.blocks lb hmem).kind
              simp only [nd] at hk
              rw [hk, hlbbp]; rfl
      · rcases h3 with ⟨htr, hm3, hr3, htl3, hop3, hk3, hpar3⟩ | ⟨htr, hpost⟩
        · subst htr
          simp only [Bool.false_eq_true, if_false]
          refine mid _ tail s3 hm3 hr3 htl3 (fun _ => by rw [hop3]; simp) (fun _ => by rw [hop3]; simp) hk3 (fun lb' hl' => ?_)
          rw [hl] at hl'; cases hl'
          left; rw [hpar3]; rfl
        · subst htr
          simp only [if_true]
          exact OKE.ok hpost
    · rw [if_neg hrq]
      simp only [pure_bind, Bool.false_eq_true, if_false]
      exact mid _ tail s1 hm1 rfl htl1 (fun hb => by rw [(hreqS hb).1] at hrq; exact absurd rfl hrq)
        (fun h => by rw [hop1]; exact hpp h) hk1 hcase1

theorem tryParsersL {old pre : List Block} {root : Nat} {s0 sb : St} (cl : Call old pre)
    (hll : ∀ lb, old.getLast? = some lb → lb.bp.isContainer = false → ∃ q, LK s0 lb.node q) (parent : Nat) (blank cont : Bool)
    (w : Int) (c : RCur) (bpsAll : List BP)
    (hstruct : BP.list ∈ bpsAll → ∃ pre0, bpsAll = pre0 ++ [BP.list, BP.listItem] ++ freeParsers ∧
      ∀ q ∈ pre0, q = BP.setext ∨ q = BP.thematic)
    (htrig : ∀ (ch : UInt8) (l : List BP),
      (lineOf src c)[(indentWidthI (lineOf src c) (loVal src c)).2.toNat]? = some ch → triggered ch = some l → BP.list ∈ bpsAll →
      l = bpsAll) :
    ∀ (bps tried : List BP), tried ++ bps = bpsAll → ∀ (result : OpenResult) (lastBlock : Option Block) (s : St)
      (new : List Block), LineCtx src s c → WinL src old pre root s0 s new → TL s → (PP → s.pc.opened = old.dropLast ++ new) →
      (PP → new ≠ [] ∨ (BP.paragraph ∈ bps ∧ cont = false ∧ ¬ w > 3 ∧ NonBlankSeg src (RCur.seg src c))) → (∀ b ∈ new, b.bp.isContainer = true) →
      parent = lastNode root (pre ++ new) →
      ((result = .noBlocksOpened ∧ new = [] ∧ (s.pc.opened = old → lastBlock = old.getLast?)) ∨ (result = .newBlocksOpened ∧ new ≠ [])) →
      (nd s parent).kind ≠ .list → s.nodes = sb.nodes → s.pc.opened = sb.pc.opened →
      (BP.thematic ∈ tried → w > 3 ∨ TH src c) →
      OKE e (TPPostG src old pre root s0 sb c PP new w) (tryParsersT pts parent blank cont w bps result lastBlock s) := by
  intro bps
  induction bps with
  | nil =>
    intro tried _ result lastBlock s new hc hw htmp hpp hmust hallc hq hres hpk _ hso _
    unfold tryParsersT
    exact OKE.ok ⟨c, new, hc.ri, hc.pad, Nat.le_refl _, hw, hres, fun k hk b _ => CompatT.of_container_left (hallc k hk),
      htmp, (fun k hk hs => by have := hallc k hk; rw [hs] at this; cases this),
      (fun y hy hl => by have := hallc y (List.mem_of_getLast? hy); rw [hl] at this; cases this), (fun _ _ => hso), hpp, (fun h => h),
      (fun h _ => by rcases hmust h with h1 | ⟨h1, _⟩; exact h1; cases h1),
      leafy_of_all hallc, by rw [← hq]; exact hpk⟩
  | cons bp bps ih =>
    intro tried htr result lastBlock s new hc hw htmp hpp hmust hallc hq hres hpk hsn hso hacc
    have ihn := ih (tried ++ [bp]) (by rw [List.append_assoc]; exact htr)
    by_cases hs1 : (cont && result == OpenResult.noBlocksOpened && !bp.canInterruptParagraph) = true
    · unfold tryParsersT
      simp only []
      rw [if_pos hs1]
      refine ihn result lastBlock s new hc hw htmp hpp (fun h => by
        rcases hmust h with h1 | ⟨_, h2, _⟩
        · exact .inl h1
        · rw [h2] at hs1; simp at hs1) hallc hq hres hpk hsn hso (fun hth => ?_)
      rcases List.mem_append.1 hth with h | h
      · exact hacc h
      · simp only [List.mem_singleton] at h
        rw [← h] at hs1
        simp [BP.canInterruptParagraph] at hs1
    by_cases hs2 : (decide (w > 3) && !bp.canAcceptIndentedLine) = true
    · unfold tryParsersT
      simp only []
      rw [if_neg hs1, if_pos hs2]
      refine ihn result lastBlock s new hc hw htmp hpp (fun h => by
        rcases hmust h with h1 | ⟨_, _, h3, _⟩
        · exact .inl h1
        · simp only [Bool.and_eq_true, decide_eq_true_eq] at hs2; exact absurd hs2.1 h3) hallc hq hres hpk hsn hso (fun hth => ?_)
      rcases List.mem_append.1 hth with h | h
      · exact hacc h
      · left
        simp only [Bool.and_eq_true, decide_eq_true_eq] at hs2
        exact hs2.1
    refine tryStepL lsp hpts cl hll parent blank cont w bp bps result lastBlock s c new hc hw hallc hq hres hs1 hs2
      htmp hpp (fun _ _ _ _ _ => ⟨hso, hsn⟩)
      (fun _ _ _ _ hk => absurd hk hpk) ?_ ?_
    · -- a list opened: what the next `goto retry` needs
      intro a s1 hO his hbl
      subst hbl
      obtain ⟨_, _, hm, hnl⟩ := hO.listFacts rfl his
      refine ⟨hm, ?_, ?_⟩
      · intro ch l pre' rest' hch htg hl hpre' hth
        have hlmem : BP.list ∈ bpsAll := by rw [← htr]; simp
        have hlb := htrig ch l hch htg hlmem
        obtain ⟨pre0, hp0, hq0⟩ := hstruct hlmem
        have hn0 : BP.list ∉ pre0 := fun hh => by rcases hq0 _ hh with h | h <;> cases h
        have hn' : BP.list ∉ pre' := fun hh => by rcases hpre' _ hh with h | h <;> cases h
        have e1 : pre' = pre0 := by
          refine append_cons_unique BP.list pre' pre0 rest' ([BP.listItem] ++ freeParsers) ?_ hn' hn0
          rw [← hl, hlb, hp0]; simp
        -- `tried` is that prefix, too
        have hnt : BP.list ∉ tried := by
          intro hh
          have hcount : (tried ++ BP.list :: bps).count BP.list = (pre0 ++ [BP.list, BP.listItem] ++ freeParsers).count BP.list := by
            rw [htr, hp0]
          rw [List.count_append, List.count_cons_self, List.count_append, List.count_append,
            List.count_eq_zero_of_not_mem hn0] at hcount
          have h1 : 0 < tried.count BP.list := List.count_pos_iff.2 hh
          have h2 : ([BP.list, BP.listItem] : List BP).count BP.list = 1 := by decide
          have h3 : freeParsers.count BP.list = 0 := by decide
          omega
        have e2 : tried = pre0 := by
          refine append_cons_unique BP.list tried pre0 bps ([BP.listItem] ++ freeParsers) ?_ hnt hn0
          rw [htr, hp0]; simp
        rw [e1, ← e2] at hth
        rcases hacc hth with h | h
        · exfalso
          apply hs2
          simp [BP.canAcceptIndentedLine, h]
        · exact h
      · unfold lastIsList
        rw [← hsn, ← hso]
        cases hl : s.pc.opened.getLast? with
        | none => rfl
        | some lb =>
          rw [hl] at hnl
          simp only at hnl ⊢
          simpa [nd] using hnl
    · -- the parser declined
      intro st s1 hO heqN htmp1 hpp1
      obtain ⟨hc1, hw1, ho1, hn1⟩ := open_noneL hO hc hw hallc
      refine ihn result _ s1 new hc1 hw1 htmp1 hpp1 (fun h => by
        rcases hmust h with h1 | ⟨h1, h2, h3, h4⟩
        · exact .inl h1
        · rcases List.mem_cons.1 h1 with h5 | h5
          · exfalso
            subst h5
            have e2 : bpOpen .paragraph parent s = paragraphOpen parent s := rfl
            rcases paragraphOpen_some hc.ri parent h4 with ⟨a, s', e1, h6⟩ | e1
            · rw [e2, e1] at heqN; cases heqN; cases h6
            · rw [e2, e1] at heqN; cases heqN
          · exact .inr ⟨h5, h2, h3, h4⟩) hallc hq ?_ (by rw [nd_eq_of_nodes_eq hn1]; exact hpk) (by rw [hn1, hsn])
        (by rw [ho1, hso]) (fun hth => ?_)
      · rcases hres with ⟨h1, h2, _⟩ | h
        · exact .inl ⟨h1, h2, fun ho' => by rw [← ho', ho1]⟩
        · exact .inr h
      · rcases List.mem_append.1 hth with h | h
        · exact hacc h
        · simp only [List.mem_singleton] at h
          right
          have := hO.thematic h.symm
          simpa using this.symm



theorem tryItemL {old pre : List Block} {root : Nat} {s0 sb : St} (cl : Call old pre)
    (hll : ∀ lb, old.getLast? = some lb → lb.bp.isContainer = false → ∃ q, LK s0 lb.node q) (parent : Nat) (blank cont : Bool)
    (w : Int) (c : RCur) (pre0 : List BP) (hpre0 : ∀ q ∈ pre0, q = BP.setext ∨ q = BP.thematic) (ch : UInt8)
    (hch : (lineOf src c)[(indentWidthI (lineOf src c) (loVal src c)).2.toNat]? = some ch)
    (htg : triggered ch = some (pre0 ++ [BP.list, BP.listItem] ++ freeParsers)) (hw3 : ¬ w > 3) :
    ∀ (todo done : List BP), done ++ todo = pre0 → ∀ (result : OpenResult) (lastBlock : Option Block) (s : St)
      (new : List Block), LineCtx src s c → WinL src old pre root s0 s new → TL s → (PP → s.pc.opened = old.dropLast ++ new) → (∀ b ∈ new, b.bp.isContainer = true) →
      parent = lastNode root (pre ++ new) →
      ((result = .noBlocksOpened ∧ new = [] ∧ (s.pc.opened = old → lastBlock = old.getLast?)) ∨ (result = .newBlocksOpened ∧ new ≠ [])) →
      Due src s c parent →
      OKE e (TPPostG src old pre root s0 sb c PP new w)
        (tryParsersT pts parent blank cont w (todo ++ [BP.list, BP.listItem] ++ freeParsers) result lastBlock s) := by
  have hns2 : ∀ bp : BP, ¬ (decide (w > 3) && !bp.canAcceptIndentedLine) = true := by
    intro bp h; simp only [Bool.and_eq_true, decide_eq_true_eq] at h; exact hw3 h.1
  have hres' : ∀ (result : OpenResult) (lastBlock : Option Block) (s s' : St) (new : List Block),
      s'.pc.opened = s.pc.opened →
      ((result = .noBlocksOpened ∧ new = [] ∧ (s.pc.opened = old → lastBlock = old.getLast?)) ∨ (result = .newBlocksOpened ∧ new ≠ [])) →
      ((result = .noBlocksOpened ∧ new = [] ∧ (s'.pc.opened = old → s.pc.opened.getLast? = old.getLast?)) ∨
        (result = .newBlocksOpened ∧ new ≠ [])) := by
    intro result lastBlock s s' new ho hres
    rcases hres with ⟨h1, h2, _⟩ | h
    · exact .inl ⟨h1, h2, fun ho' => by rw [← ho', ho]⟩
    · exact .inr h
  intro todo
  induction todo with
  | nil =>
    intro done _ result lastBlock s new hc hw htmp hpp hallc hq hres hdue
    simp only [List.nil_append, List.cons_append]
    -- listParser.Open declines
    refine tryStepL lsp hpts cl hll parent blank cont w .list _ result lastBlock s c new hc hw hallc hq hres
      (by simp [BP.canInterruptParagraph]) (hns2 _) htmp hpp (fun _ _ _ _ h => by cases h) ?_ ?_ ?_
    · intro a s1 hO his _
      exfalso
      obtain ⟨_, hsk, _, hnl⟩ := hO.listFacts rfl his
      rcases hdue.nl with h | ⟨lb, h1, h2⟩
      · rw [hsk] at h; cases h
      · rw [h1] at hnl; exact hnl h2
    · intro a s1 hO his _
      exfalso
      obtain ⟨_, hsk, _, hnl⟩ := hO.listFacts rfl his
      rcases hdue.nl with h | ⟨lb, h1, h2⟩
      · rw [hsk] at h; cases h
      · rw [h1] at hnl; exact hnl h2
    · intro st s1 hO _ htmp1 hpp1
      obtain ⟨hc1, hw1, ho1, hn1⟩ := open_noneL hO hc hw hallc
      -- listItemParser.Open opens
      refine tryStepL lsp hpts cl hll parent blank cont w .listItem _ result _ s1 c new hc1 hw1 hallc hq
        (hres' result lastBlock s s1 new ho1 hres)
        (by simp [BP.canInterruptParagraph]) (hns2 _) htmp1 hpp1 (fun _ _ _ _ h => by cases h) (fun _ _ _ _ _ => rfl) (fun _ _ _ _ h => by cases h) ?_
      intro st2 s2 hO2 _ _ _
      exfalso
      have hk1 : (nd s1 parent).kind = .list := by rw [nd_eq_of_nodes_eq hn1]; exact hdue.kind
      have := (hO2.itemFacts rfl).2.2 hk1 (fun m typ he => by
        have : li_lastOff s1 parent = li_lastOff s parent := by unfold li_lastOff; simp only [nd_eq_of_nodes_eq hn1]
        rw [this]; exact hdue.m m typ he)
      cases this
  | cons q todo ih =>
    intro done hd result lastBlock s new hc hw htmp hpp hallc hq hres hdue
    have hqm : q ∈ pre0 := by rw [← hd]; simp
    have hcan : q.canInterruptParagraph = true := by rcases hpre0 q hqm with h | h <;> rw [h] <;> rfl
    have hnone : ∀ a s1, OpenPostW src q parent s c a s1 → a.1.isSome = true → False := by
      intro a s1 hO his
      rcases hpre0 q hqm with h | h
      · subst h
        rcases hO.tmp with ⟨_, _, lb, h1, h2, h3, _⟩ | ⟨h', _⟩
        · have := hw.ls.kids.pk lb.node parent h3 hdue.kind
          rw [h2] at this; cases this
        · rcases h' with h' | h'
          · exact h' rfl
          · rw [h'] at his; cases his
      · subst h
        have h1 := hO.thematic rfl
        have h2 := hdue.th ch _ pre0 ([BP.listItem] ++ freeParsers) hch htg (by simp) hpre0 hqm
        rw [h2] at h1; rw [h1] at his; cases his
    simp only [List.cons_append]
    refine tryStepL lsp hpts cl hll parent blank cont w q _ result lastBlock s c new hc hw hallc hq hres
      (by simp [hcan]) (hns2 _) htmp hpp (fun a s1 hO his _ => (hnone a s1 hO his).elim) (fun a s1 hO his _ => (hnone a s1 hO his).elim) (fun a s1 hO his _ => (hnone a s1 hO his).elim) ?_
    intro st s1 hO _ htmp1 hpp1
    obtain ⟨hc1, hw1, ho1, hn1⟩ := open_noneL hO hc hw hallc
    have hpc1 : s1.pc = s.pc := hO.keepPc (by rcases hpre0 q hqm with h | h; exact .inl h; exact .inr h) rfl
    have := ih (done ++ [q]) (by rw [List.append_assoc]; exact hd) result s.pc.opened.getLast? s1 new hc1 hw1 htmp1 hpp1 hallc hq
      (hres' result lastBlock s s1 new ho1 hres) (hdue.congr hn1 hpc1)
    simpa only [List.append_assoc] using this


end tp


end GM.Blocks.L.G.X
