/-
  GM.Proof.ShiftSimXNext — one pass of `lineLoop` from a state that has a line ends with `next`, and the
  statistics only hold lines up to the current one.
-/
import GM.Proof.ShiftSimXHcl
import GM.Proof.ShiftSimXLines
import GM.Proof.ShiftSimAcyc2
import GM.Proof.IndepFrame

namespace GM.Blocks.Xs
open GM GM.Text GM.Spec GM.Proof.Reader GM.Blocks

/-! ### the line counter never decreases in the driver -/

section lg
variable {k : Int}

theorem xn_of_sameReader {α} {m : M α} (h : IFr SameReader m) : Keeps (LineGe k) m := by
  intro s a s' hs e
  have : s'.r = s.r := IFr.apply e h
  show k ≤ s'.r.line
  rw [this]; exact hs

theorem xn_closeBlocks_lg (frm to : Int) : Keeps (LineGe k) (closeBlocks frm to) :=
  xn_of_sameReader (closeBlocks_sameReader frm to)

theorem xn_bpClose_lg (bp : BP) (n : Nat) : Keeps (LineGe k) (bpClose bp n) :=
  xn_of_sameReader (bpClose_fr sameReader_prims (fun _ => rfl) (fun _ => rfl) bp n)

theorem xn_appendChild_lg (p c : Nat) : Keeps (LineGe k) (appendChild p c) :=
  xn_of_sameReader (appendChild_frI sameReader_prims p c)

theorem xn_tryParsers_lg (parent : Nat) (blankLine continuable : Bool) (w : Int) :
    ∀ (bps : List BP) (result : OpenResult) (lastBlock : Option Block),
      Keeps (LineGe k) (tryParsers parent blankLine continuable w bps result lastBlock)
  | [], result, lastBlock => by unfold tryParsers; exact Keeps.pure _
  | bp :: bps, result, lastBlock => by
    have ih := xn_tryParsers_lg parent blankLine continuable w bps
    have := @xn_closeBlocks_lg k
    have := @xn_bpClose_lg k
    have := @xn_appendChild_lg k
    have := @bpOpen_lg k
    unfold tryParsers; lg

theorem xn_toContinuable_lg (continuable : Bool) (result : OpenResult) (lastBlock : Option Block) :
    Keeps (LineGe k) (toContinuable continuable result lastBlock) := by
  have := @bpContinue_lg k
  unfold toContinuable; lg

theorem xn_openBlocksLoop_lg (blankLine continuable : Bool) :
    ∀ (fuel parent : Nat) (result : OpenResult) (lastBlock : Option Block),
      Keeps (LineGe k) (openBlocksLoop blankLine continuable fuel parent result lastBlock)
  | 0, _, _, _ => by unfold openBlocksLoop; exact Keeps.throw _
  | fuel + 1, parent, result, lastBlock => by
    have ih := xn_openBlocksLoop_lg blankLine continuable fuel
    have := @xn_toContinuable_lg k
    have := @xn_tryParsers_lg k
    unfold openBlocksLoop; lg

theorem xn_openBlocks_lg (parent : Nat) (blank : Bool) : Keeps (LineGe k) (openBlocks parent blank) := by
  have := @xn_openBlocksLoop_lg k
  unfold openBlocks; lg

end lg

theorem xn_openBlocks_line (parent : Nat) (blank : Bool) (s s' : St) (a : OpenResult)
    (h : openBlocks parent blank s = .ok (a, s')) : s.r.line ≤ s'.r.line :=
  xn_openBlocks_lg parent blank s a s' (Int.le_refl _) h

theorem xn_closeBlocks_line (frm to : Int) (s s' : St) (a : Unit)
    (h : closeBlocks frm to s = .ok (a, s')) : s.r.line ≤ s'.r.line :=
  xn_closeBlocks_lg frm to s a s' (Int.le_refl _) h

/-! ### one pass of `lineLoop` -/

/-- the statistics only hold lines up to the current one -/
def SLe' (st : List LineStat) (s : St) : Prop := ∀ e ∈ st, e.lineNum ≤ s.r.line

theorem xn_sle_mono {st : List LineStat} {s s' : St} (h : SLe' st s) (hl : s.r.line ≤ s'.r.line) : SLe' st s' :=
  fun e he => Int.le_trans (h e he) hl

theorem xn_llOpen (openedBlocks : List Block) (lastIndex i : Int) (blank : Bool) (blankLines : List LineStat)
    (thisParent : Nat) (s s' : St) (x : LineOutcome × List LineStat)
    (h : llOpen openedBlocks lastIndex i blank blankLines thisParent s = .ok (x, s')) :
    x = (.next, blankLines) ∧ s.r.line ≤ s'.r.line := by
  unfold llOpen at h
  obtain ⟨ln, s1, h1, hA⟩ := bind_ok_inv h
  obtain ⟨_, e1⟩ := liftE_ok_inv h1
  subst e1
  obtain ⟨r, s2, h2, hB⟩ := bind_ok_inv hA
  have k2 := xn_openBlocks_line _ _ _ _ _ h2
  split at hB
  · obtain ⟨pc, s3, h3, hC⟩ := bind_ok_inv hB
    obtain ⟨_, e3⟩ := Sh.a2_getPc_inv h3
    subst e3
    obtain ⟨_, s4, h4, hD⟩ := bind_ok_inv hC
    cases hD
    exact ⟨rfl, Int.le_trans k2 (xn_closeBlocks_line _ _ _ _ _ h4)⟩
  · cases hB
    exact ⟨rfl, k2⟩

theorem xn_llFall (parent : Nat) (openedBlocks : List Block) (lastIndex i lineNum : Int)
    (blankLines : List LineStat) (s s' : St) (x : LineOutcome × List LineStat)
    (h : llFall parent openedBlocks lastIndex i lineNum blankLines s = .ok (x, s')) :
    x = (.next, blankLines) ∧ s.r.line ≤ s'.r.line := by
  unfold llFall at h
  split at h
  · obtain ⟨b, s1, h1, hA⟩ := bind_ok_inv h
    obtain ⟨_, e1⟩ := liftE_ok_inv h1
    subst e1
    exact xn_llOpen _ _ _ _ _ _ _ _ _ hA
  · exact xn_llOpen _ _ _ _ _ _ _ _ _ h

/-- one pass from a state that has a line ends with `next` (also for `rest = []`) -/
theorem xn_lineLoop (b : Bytes) (hnl : b.getLast? = some 10) (parent : Nat) (ob : List Block) (li : Int)
    (hob : ∀ z ∈ ob, Cov6 z.bp) :
    ∀ (rest : List Block) (i : Int) (bl : List LineStat) (s s' : St) (x : LineOutcome × List LineStat),
      (∀ z ∈ rest, z ∈ ob) → HasLine b s → SLe' bl s →
      lineLoop parent ob li rest i bl s = .ok (x, s') → x.1 = .next ∧ SLe' x.2 s' ∧ s.r.line ≤ s'.r.line := by
  intro rest
  induction rest with
  | nil =>
    intro i bl s s' x _ _ hsle h
    unfold lineLoop at h
    cases h
    exact ⟨rfl, hsle, Int.le_refl _⟩
  | cons be rest ih =>
    intro i bl s s' x hrest hl hsle h
    rw [ll_lineLoop_cons] at h
    obtain ⟨lp, s1, h1, hA⟩ := bind_ok_inv h
    have k1 : s.r.line ≤ s1.r.line := peekLine_lg (k := s.r.line) s lp s1 (Int.le_refl _) h1
    obtain ⟨c0, hc0, hp0⟩ := hl
    have hlp : lp.1 = RCur.view b c0 ∧ RI b s1.r c0 := by
      obtain ⟨r', e1, e2⟩ := ri_peekLine hc0
      unfold GM.Blocks.peekLine at h1
      rw [e1] at h1
      cases h1
      exact ⟨rfl, e2⟩
    have hline1 : HasLine b s1 := ⟨c0, hlp.2, hp0⟩
    cases hv : lp.1 with
    | none =>
      rw [hlp.1, view_eq b c0 hp0] at hv
      cases hv
    | some line =>
      rw [hv] at hA
      obtain ⟨y, s2, h2, hB⟩ := bind_ok_inv hA
      cases h2
      have hsle1 : SLe' (bl ++ [{ lineNum := s1.r.position.1, level := i, isBlank := isBlank line }]) s1 := by
        intro e he
        rcases List.mem_append.1 he with he | he
        · exact Int.le_trans (hsle e he) k1
        · rw [List.mem_singleton.1 he]
          exact Int.le_refl _
      have hcov : Cov6 be.bp := hob be (hrest be List.mem_cons_self)
      have fall : ∀ t, s1.r.line ≤ t.r.line → llFall parent ob li i s1.r.position.1
          (bl ++ [{ lineNum := s1.r.position.1, level := i, isBlank := isBlank line }]) t = .ok (x, s') →
          x.1 = .next ∧ SLe' x.2 s' ∧ s.r.line ≤ s'.r.line := by
        intro t kt e
        obtain ⟨ex, ke⟩ := xn_llFall _ _ _ _ _ _ _ _ _ e
        subst ex
        exact ⟨rfl, xn_sle_mono hsle1 (Int.le_trans kt ke), Int.le_trans k1 (Int.le_trans kt ke)⟩
      unfold llBody at hB
      obtain ⟨bn, s3, h3, hC⟩ := bind_ok_inv hB
      obtain ⟨_, e3⟩ := Sh.a2_getNode_inv h3
      subst e3
      split at hC
      · obtain ⟨st, s4, h4, hD⟩ := bind_ok_inv hC
        have k4 := bpContinue_line _ _ _ _ _ h4
        by_cases hc : st.cont = true
        · rw [if_pos hc] at hD
          split at hD
          · obtain ⟨_, s5, h5, hE⟩ := bind_ok_inv hD
            cases hE
            have k5 := xn_openBlocks_line _ _ _ _ _ h5
            exact ⟨rfl, xn_sle_mono hsle1 (Int.le_trans k4 k5), Int.le_trans k1 (Int.le_trans k4 k5)⟩
          · have hline4 : HasLine b s4 := by
              cases hk : st.hasChildren with
              | true => exact strictC6 b hnl be.bp hcov _ _ _ _ hline1 h4 hc hk
              | false => exact continue_leaf_hasLine b hnl be.bp hcov _ _ _ _ hline1 h4 hc hk
            obtain ⟨q1, q2, q3⟩ := ih (i + 1) _ _ _ _ (fun z hz => hrest z (List.mem_cons_of_mem _ hz)) hline4
              (xn_sle_mono hsle1 k4) hD
            exact ⟨q1, q2, Int.le_trans k1 (Int.le_trans k4 q3)⟩
        · rw [if_neg hc] at hD
          exact fall _ k4 hD
      · exact fall _ (Int.le_refl _) hC

theorem lineLoop_next_sle (b : Bytes) (hnl : b.getLast? = some 10) (ob : List Block) (li : Int)
    (hob : ∀ z ∈ ob, Cov6 z.bp) :
    ∀ (rest : List Block) (i : Int) (bl : List LineStat) (s s' : St) (x : LineOutcome × List LineStat),
      (∀ z ∈ rest, z ∈ ob) → rest ≠ [] → HasLine b s → SLe' bl s →
      lineLoop 0 ob li rest i bl s = .ok (x, s') → x.1 = .next ∧ SLe' x.2 s' := by
  intro rest i bl s s' x hrest _ hl hsle h
  obtain ⟨q1, q2, _⟩ := xn_lineLoop b hnl 0 ob li hob rest i bl s s' x hrest hl hsle h
  exact ⟨q1, q2⟩

end GM.Blocks.Xs
