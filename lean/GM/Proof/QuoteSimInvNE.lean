/-
  GM.Proof.QuoteSimInvNE — `openBlocks` answers `newBlocksOpened` only with a non-empty `pc.opened`.
  The result becomes `newBlocksOpened` only where `tryParsers` pushes a block onto `pc.opened`
  (parser.go:1008-1013); every `closeBlocks` / truncation inside `tryParsers` runs before that push.
-/
import GM.Proof.QuoteSimFrame

namespace GM.Blocks
open GM GM.Text

namespace InvNE

/-- every successful run of `m` ends with `Q` -/
def Ends {α : Type} (Q : α → St → Prop) (m : M α) : Prop :=
  ∀ s a s', m s = .ok (a, s') → Q a s'

theorem bind_inv' {α β} {m : M α} {f : α → M β} {s s' : St} {b : β}
    (h : (m >>= f) s = .ok (b, s')) : ∃ a s1, m s = .ok (a, s1) ∧ f a s1 = .ok (b, s') := by
  change StateT.bind m f s = _ at h
  unfold StateT.bind at h
  cases hm : m s with
  | error e => rw [hm] at h; cases h
  | ok p => rw [hm] at h; exact ⟨p.1, p.2, rfl, h⟩

theorem Ends.bind_right {α β} {Q : β → St → Prop} {m : M α} {f : α → M β} (hf : ∀ a, Ends Q (f a)) :
    Ends Q (m >>= f) := by
  intro s b s' h
  obtain ⟨a, s1, _, h2⟩ := bind_inv' h
  exact hf a s1 b s' h2

theorem Ends.throw {α} {Q : α → St → Prop} (e : Panic) : Ends Q (throw e : M α) := by
  intro s a s' h; cases h

theorem Ends.ite {α} {Q : α → St → Prop} {c : Prop} [Decidable c] {a b : M α} (ha : Ends Q a) (hb : Ends Q b) :
    Ends Q (if c then a else b) := by
  split
  · exact ha
  · exact hb

theorem Ends.app {α} {Q : α → St → Prop} {m : M α} (hm : Ends Q m) {s s' : St} {a : α}
    (h : m s = .ok (a, s')) : Q a s' := hm s a s' h

/-- the push parser.go:1008-1013 and what follows it -/
theorem push_tail (b : Block) (c : Bool) (x y : TryOutcome × OpenResult × Option Block) :
    Ends (fun _ s' => s'.pc.opened ≠ [])
      (modPc (fun pc => { pc with opened := pc.opened ++ [b] }) >>= fun _ =>
        if c = true then (pure x : M _) else pure y) := by
  intro s a s' h
  obtain ⟨u, s1, h1, h2⟩ := bind_inv' h
  cases h1
  split at h2 <;> cases h2 <;> simp

macro "ends_step" : tactic =>
  `(tactic| first
    | exact push_tail _ _ _ _
    | with_reducible apply Ends.throw
    | (with_reducible apply Ends.bind_right; intro _)
    | with_reducible apply Ends.ite
    | split)

macro "ends" : tactic => `(tactic| repeat' ends_step)

theorem tryParsers_new_ne (parent : Nat) (blank cont : Bool) (w : Int) (bps : List BP) :
    ∀ (result : OpenResult) (lb : Option Block) (s : St) (o : TryOutcome) (r : OpenResult)
      (lb' : Option Block) (s' : St),
      tryParsers parent blank cont w bps result lb s = .ok ((o, r, lb'), s') → r = .newBlocksOpened →
      (result = .newBlocksOpened → s.pc.opened ≠ []) → s'.pc.opened ≠ [] := by
  induction bps with
  | nil =>
    intro result lb s o r lb' s' h hr hs
    unfold tryParsers at h
    cases h
    exact hs hr
  | cons bp bps ih =>
    intro result lb s o r lb' s' h hr hs
    unfold tryParsers at h
    dsimp only at h
    by_cases hc1 : (cont && result == OpenResult.noBlocksOpened && !bp.canInterruptParagraph) = true
    · rw [if_pos hc1] at h
      exact ih _ _ _ _ _ _ _ h hr hs
    rw [if_neg hc1] at h
    by_cases hc2 : (decide (w > 3) && !bp.canAcceptIndentedLine) = true
    · rw [if_pos hc2] at h
      exact ih _ _ _ _ _ _ _ h hr hs
    rw [if_neg hc2] at h
    obtain ⟨lastBlock, s1, h1, h⟩ := bind_inv' h
    cases h1
    obtain ⟨x, s2, h2, h⟩ := bind_inv' h
    have ho := bpOpen_opened _ _ _ _ _ h2
    obtain ⟨node, state⟩ := x
    cases node with
    | none =>
      dsimp only at h
      exact ih _ _ _ _ _ _ _ h hr (fun hh => by rw [ho]; exact hs hh)
    | some node =>
      dsimp only at h
      refine Ends.app (Q := fun _ s' => s'.pc.opened ≠ []) ?_ h
      ends

/-- `m` run from a state with `P` ends, when it succeeds, with `Q` -/
def Tri {α : Type} (P : St → Prop) (m : M α) (Q : α → St → Prop) : Prop :=
  ∀ s a s', P s → m s = .ok (a, s') → Q a s'

theorem Tri.bind {α β} {P : St → Prop} {R : α → St → Prop} {Q : β → St → Prop} {m : M α} {f : α → M β}
    (hm : Tri P m R) (hf : ∀ a, Tri (R a) (f a) Q) : Tri P (m >>= f) Q := by
  intro s b s' hs h
  obtain ⟨a, s1, h1, h2⟩ := bind_inv' h
  exact hf a s1 b s' (hm s a s1 hs h1) h2

theorem Tri.ofKeeps {α} {I : St → Prop} {m : M α} (hm : Keeps I m) : Tri I m (fun _ => I) :=
  fun s a s' hs h => hm s a s' hs h

theorem Tri.ite {α} {P : St → Prop} {Q : α → St → Prop} {c : Prop} [Decidable c] {a b : M α}
    (ha : Tri P a Q) (hb : Tri P b Q) : Tri P (if c then a else b) Q := by
  split
  · exact ha
  · exact hb

theorem tri_throw_bind {α β} {P : St → Prop} {Q : β → St → Prop} (e : Panic) (f : α → M β) :
    Tri P ((throw e : M α) >>= f) Q := by
  intro s a s' _ h
  obtain ⟨_, _, h1, _⟩ := bind_inv' h
  cases h1

/-- a result `newBlocksOpened` comes with a non-empty `pc.opened` -/
def NewNE (result : OpenResult) (s : St) : Prop := result = .newBlocksOpened → s.pc.opened ≠ []

theorem newNE_noR (result : OpenResult) : NoR (NewNE result) := ⟨fun _ _ hs => hs⟩

theorem tryParsers_tri (parent : Nat) (blank cont : Bool) (w : Int) (bps : List BP) (result : OpenResult)
    (lb : Option Block) :
    Tri (NewNE result) (tryParsers parent blank cont w bps result lb) (fun x => NewNE x.2.1) := by
  intro s x s' hs h hr
  obtain ⟨o, r, lb'⟩ := x
  exact tryParsers_new_ne parent blank cont w bps result lb s o r lb' s' h hr hs

theorem toContinuable_tri (cont : Bool) (result : OpenResult) (lb : Option Block) :
    Tri (NewNE result) (toContinuable cont result lb) NewNE := by
  intro s r s' hs h hr
  unfold toContinuable at h
  dsimp only at h
  split at h
  · rename_i hc
    exfalso
    split at h
    · obtain ⟨_, _, h1, _⟩ := bind_inv' h
      cases h1
    · obtain ⟨st, s1, _, h2⟩ := bind_inv' h
      split at h2
      · cases h2; cases hr
      · cases h2
        subst hr
        simp at hc
  · cases h
    exact hs hr

theorem openBlocksLoop_tri (blank cont : Bool) (fuel : Nat) :
    ∀ (parent : Nat) (result : OpenResult) (lb : Option Block),
      Tri (NewNE result) (openBlocksLoop blank cont fuel parent result lb) NewNE := by
  induction fuel with
  | zero =>
    intro parent result lb s r s' _ h
    cases h
  | succ fuel ih =>
    intro parent result lb
    unfold openBlocksLoop
    dsimp only
    refine Tri.bind (Tri.ofKeeps (peekLine_keeps (newNE_noR result))) (fun x => ?_)
    refine Tri.bind (Tri.ofKeeps (lineOffset_keeps (newNE_noR result))) (fun lo => ?_)
    refine Tri.bind (Tri.ofKeeps (modPc_keeps _ ?_)) (fun _ => ?_)
    · intro s hs hr
      have := hs hr
      dsimp only
      split <;> exact this
    refine Tri.ite (toContinuable_tri cont result lb) ?_
    refine Tri.bind (Tri.ofKeeps (liftE_keeps _)) (fun c0 => ?_)
    refine Tri.ite (toContinuable_tri cont result lb) ?_
    have tail : ∀ (w : Int) (bps : List BP) (before : St),
        Tri (NewNE result)
          (tryParsers parent blank cont w bps result lb >>= fun x =>
            match x.fst with
            | TryOutcome.retry parent' => do
              let after ← get
              if (!decide (retryMeasure after < retryMeasure before)) = true then do
                  throw Panic.pre
                  openBlocksLoop blank cont fuel parent' x.2.fst x.2.snd
                else openBlocksLoop blank cont fuel parent' x.2.fst x.2.snd
            | TryOutcome.done => toContinuable cont x.2.fst x.2.snd) NewNE := by
      intro w bps before
      refine Tri.bind (tryParsers_tri parent blank cont w bps result lb) (fun x => ?_)
      split
      · refine Tri.bind (Tri.ofKeeps get_keeps) (fun after => ?_)
        refine Tri.ite (tri_throw_bind _ _) (ih _ _ _)
      · exact toContinuable_tri _ _ _
    refine Tri.ite ?_ ?_
    · refine Tri.bind (Tri.ofKeeps (liftE_keeps _)) (fun c => ?_)
      refine Tri.bind (Tri.ofKeeps (Keeps.pure _)) (fun bps => ?_)
      refine Tri.bind (Tri.ofKeeps get_keeps) (fun before => ?_)
      exact tail _ _ _
    · refine Tri.bind (Tri.ofKeeps (Keeps.pure _)) (fun bps => ?_)
      refine Tri.bind (Tri.ofKeeps get_keeps) (fun before => ?_)
      exact tail _ _ _

end InvNE

/-- `openBlocks` answers `newBlocksOpened` only after pushing a block: `pc.opened` is not empty then -/
theorem openBlocks_new_ne (q : Nat) (blank : Bool) (s : St) (r : OpenResult) (s' : St)
    (h : openBlocks q blank s = .ok (r, s')) (hr : r = .newBlocksOpened) : s'.pc.opened ≠ [] := by
  unfold openBlocks at h
  obtain ⟨lb, s1, h1, h⟩ := InvNE.bind_inv' h
  have key : ∀ (c : Bool) (s2 : St), (do
        let src ← source
        openBlocksLoop blank c (retryFuel src) q OpenResult.noBlocksOpened lb) s2 = .ok (r, s') →
      s'.pc.opened ≠ [] := by
    intro c s2 h
    obtain ⟨src, s3, h3, h⟩ := InvNE.bind_inv' h
    exact InvNE.openBlocksLoop_tri blank c _ q .noBlocksOpened lb s3 r s' (fun hh => by cases hh) h hr
  dsimp only at h
  cases lb with
  | some b =>
    dsimp only at h
    obtain ⟨n, s2, h2, h⟩ := InvNE.bind_inv' h
    obtain ⟨c, s3, h3, h⟩ := InvNE.bind_inv' h
    exact key _ _ h
  | none =>
    dsimp only at h
    obtain ⟨c, s2, h2, h⟩ := InvNE.bind_inv' h
    exact key _ _ h

end GM.Blocks
