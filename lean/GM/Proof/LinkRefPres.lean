/-
  GM.Proof.LinkRefPres — the link reference transformer as a step of the block phase: `guardedTransform` keeps every
  reader-only invariant (it reads the main reader's source only) and never exhausts fuel (`PTOK`), hence the block
  phase with it terminates for every source (`blockPhase_noLoop`).
-/
import GM.Proof.LinkRefTotal
import GM.Proof.LinkRefPad
import GM.Proof.BlocksT
import GM.Model.Convert

namespace GM.Proof.LinkRefPres
open GM GM.Text GM.Spec GM.Blocks GM.LinkRef GM.Proof.LinkRefTotal GM.Proof.LinkRefPad GM.Proof.InlinesReader

theorem slicedSegs_noLoop (l : List Segment) (lo hi : Int) : NoLoop (slicedSegs l lo hi) := by
  unfold slicedSegs; noloop

theorem removeLoop_noLoop : ∀ (rs : List (Int × Int)) (off : Int) (l : List Segment), NoLoop (removeLoop rs off l)
  | [], _, _ => by unfold removeLoop; noloop
  | (r0, r1) :: rest, off, l => by
    have := fun a b => slicedSegs_noLoop l a b
    have := fun o l' => removeLoop_noLoop rest o l'
    unfold removeLoop; noloop

theorem finishLines_noLoop (rs : List (Int × Int)) (l : List Segment) : NoLoop (finishLines rs l) := by
  have := removeLoop_noLoop rs 0 l
  unfold finishLines; noloop

section
variable {I : St → Prop} (h : RPrims I)
include h

theorem replaceChild_pres (p v1 ins : Nat) : Pres I (replaceChild p v1 ins) := by
  have := insertBefore_pres h
  have := removeChild_pres h
  unfold replaceChild; pres

theorem transformFinish_pres (node : Nat) (n : GM.Blocks.Node) (removes : List (Int × Int)) (refs : RefMap) :
    Pres I (transformFinish node n removes refs) := by
  have := h.ronly
  have := replaceChild_pres h
  have hr : Pres I (liftE (finishLines removes n.lines)) := liftE_pres _ (finishLines_noLoop _ _)
  unfold transformFinish; pres

/-- `Transform` from a state whose paragraph has well-formed lines (or none) -/
theorem transform_ok (node : Nat) (s : St) (hs : I s)
    (hl : (s.nodes.getD node default).lines = [] ∨ WFSegs s.r.source (s.nodes.getD node default).lines) :
    (∀ a s', transform node s = .ok (a, s') → I s') ∧ transform node s ≠ .error .loop := by
  have hscan := transformScan_noLoop_pad hl s.pc.refs
  cases hsc : transformScan s.r.source (s.nodes.getD node default).lines s.pc.refs with
  | error e =>
    have et : transform node s = .error e := by
      unfold transform
      simp only [bind, StateT.bind, getNode, source, getPc, pure, Except.pure, Except.bind, liftE, hsc, Except.map]
    rw [et]
    refine ⟨fun _ _ h' => (by cases h'), fun he => ?_⟩
    cases he; exact hscan hsc
  | ok x =>
    obtain ⟨removes, refs⟩ := x
    have et : transform node s = transformFinish node (s.nodes.getD node default) removes refs s := by
      unfold transform
      simp only [bind, StateT.bind, getNode, source, getPc, pure, Except.pure, Except.bind, liftE, hsc, Except.map]
    rw [et]
    have hp := transformFinish_pres h node (s.nodes.getD node default) removes refs
    exact ⟨fun a s' h' => hp.ok hs h', hp.noLoop hs⟩

theorem guardedTransform_pres (node : Nat) : Pres I (guardedTransform node) := by
  constructor
  intro s hs
  by_cases hg : ((s.nodes.getD node default).lines.length != 0 && !wfSegsB s.r.source (s.nodes.getD node default).lines) = true
  · have e1 : guardedTransform node s = .error .pre := by
      unfold guardedTransform
      simp only [bind, StateT.bind, getNode, source, pure, Except.pure, Except.bind, hg, if_true]
      rfl
    rw [e1]; show Panic.pre ≠ Panic.loop; decide
  · have e2 : guardedTransform node s = transform node s := by
      unfold guardedTransform
      simp only [bind, StateT.bind, getNode, source, pure, Except.pure, Except.bind, hg, Bool.false_eq_true, if_false]
    rw [e2]
    have hl : (s.nodes.getD node default).lines = [] ∨ WFSegs s.r.source (s.nodes.getD node default).lines := by
      by_cases he : (s.nodes.getD node default).lines = []
      · exact Or.inl he
      · refine Or.inr (wfSegsB_sound ?_)
        cases hw : wfSegsB s.r.source (s.nodes.getD node default).lines with
        | true => rfl
        | false =>
          exfalso; apply hg
          have : (s.nodes.getD node default).lines.length ≠ 0 := by
            intro h0; exact he (List.length_eq_zero_iff.1 h0)
          rw [hw]; simpa using this
    obtain ⟨t1, t2⟩ := transform_ok h node s hs hl
    cases ht : transform node s with
    | error e => show e ≠ Panic.loop; intro he; exact t2 (he ▸ ht)
    | ok p => exact t1 p.1 p.2 ht

end

/-- the link reference transformer behind its run-time check is an admissible paragraph transformer -/
theorem guardedTransform_ptok : PTOK guardedTransform := fun _ h n => guardedTransform_pres h n

theorem paragraphTransformers_ok : PTsOK (GM.Convert.paragraphTransformers true) := by
  intro pt hpt
  simp only [GM.Convert.paragraphTransformers, if_true, List.mem_singleton] at hpt
  subst hpt
  exact guardedTransform_ptok

/-- **the block phase with the link reference transformer terminates**, for every source -/
theorem blockPhase_noLoop (src : Bytes) : GM.Convert.blockPhase true src ≠ .error .loop :=
  runT_noLoop paragraphTransformers_ok src

end GM.Proof.LinkRefPres
