/-
  GM.Proof.E2EAstStore — from the block store and the inline phase to `AOK` of the annotated tree (GM.Proof.E2EAst), i.e. to
  C05's `wfAst` of the dump of `parseAst`.

  PROVED of every store the block phase returns (frame invariants, GM.Proof.E2EKeeps): heading levels 1..6 (`HeadOK`), node 0
  is the Document (`RootDoc`). NAMED HYPOTHESES on the store (`StoreHyps`): lines in range (`GM.Blocks.NodesOK` shape),
  info / closure in range, lines increasing (`GM.Blocks.OrdFrom` shape), Document and List nodes have no lines, ListItem
  exactly below List. NAMED HYPOTHESES on the inline phase: `InlineSegsUnpadded` (GM.Proof.E2EValue) and `InlineSegsAfterLineStart`.
-/
import GM.Proof.E2EAst
import GM.Proof.E2EInlineHi

namespace GM.E2E
open GM GM.Text GM.Convert GM.Spec GM.Inl GM.Proof.Inlines GM.Proof.InlinesTotal GM.Proof.InlinesReader

/-! ### parent / child pairs of the tree read out of a store -/

def troot : GM.Blocks.Tree → GM.Blocks.Node
  | .node n _ => n

mutual
/-- every node satisfies `P`, every parent / child pair satisfies `R` -/
def treeRel (P : GM.Blocks.Node → Prop) (R : GM.Blocks.Node → GM.Blocks.Node → Prop) : GM.Blocks.Tree → Prop
  | .node n cs => P n ∧ treesRel P R n cs
def treesRel (P : GM.Blocks.Node → Prop) (R : GM.Blocks.Node → GM.Blocks.Node → Prop) (p : GM.Blocks.Node) :
    List GM.Blocks.Tree → Prop
  | [] => True
  | t :: rest => R p (troot t) ∧ treeRel P R t ∧ treesRel P R p rest
end

theorem treeOf_root (nodes : List GM.Blocks.Node) (fuel id : Nat) :
    troot (GM.Blocks.treeOf nodes fuel id) = nodes.getD id default := by
  cases fuel <;> rfl

theorem treesRel_map {P : GM.Blocks.Node → Prop} {R : GM.Blocks.Node → GM.Blocks.Node → Prop} (p : GM.Blocks.Node)
    (f : Nat → GM.Blocks.Tree) (hf : ∀ i, treeRel P R (f i)) :
    ∀ l : List Nat, (∀ i ∈ l, R p (troot (f i))) → treesRel P R p (l.map f)
  | [], _ => by simp [treesRel]
  | i :: rest, h => by
    simp only [List.map, treesRel]
    exact ⟨h i (by simp), hf i, treesRel_map p f hf rest (fun j hj => h j (by simp [hj]))⟩

theorem treeOf_rel {P : GM.Blocks.Node → Prop} {R : GM.Blocks.Node → GM.Blocks.Node → Prop}
    (nodes : List GM.Blocks.Node) (hP : ∀ i, P (nodes.getD i default))
    (hR : ∀ i, ∀ c ∈ (nodes.getD i default).children, R (nodes.getD i default) (nodes.getD c default)) :
    ∀ fuel id, treeRel P R (GM.Blocks.treeOf nodes fuel id)
  | 0, id => by simp only [GM.Blocks.treeOf, treeRel, treesRel]; exact ⟨hP id, trivial⟩
  | fuel + 1, id => by
    simp only [GM.Blocks.treeOf, treeRel]
    refine ⟨hP id, treesRel_map _ _ (treeOf_rel nodes hP hR fuel) _ ?_⟩
    intro c hc
    rw [treeOf_root]
    exact hR id c hc

/-! ### the inline children of one block -/

/-- the segments the inline phase records for a block start at or behind the start of the block's FIRST line.
    STATED, NOT PROVED: the proved segment theorems bound them below by 0 only (`LInv.ch : chain 0 c.p …`); the upper
    bound — the end of the last line — is `parseBlock_segments_hi`. -/
def InlineSegsAfterLineStart : Prop :=
  ∀ (env : Env) (src : Bytes) (lines : List Segment) (kids : List Inl.Node), WF0 src lines →
    parseBlock env src lines = .ok kids → ∀ s ∈ segsOfL kids, loOf lines ≤ s.start

theorem chain_raise {lo0 lo hi : Int} : ∀ {l : List Segment}, chain lo0 hi l → (∀ s ∈ l, lo ≤ s.start) → l ≠ [] →
    chain lo hi l
  | [], _, _, hne => absurd rfl hne
  | s :: rest, h, hs, _ => ⟨hs s (by simp), h.2.1, h.2.2⟩

theorem kidsP_nil (src : Bytes) (n : GM.Blocks.Node) : KidsP src n [] :=
  ⟨rfl, fun s h => by simp [segsOfL] at h, fun h => absurd (by simp [segsOfL]) h, fun h => absurd rfl h⟩

theorem inlinePhase_kidsP (hI1 : InlineSegsUnpadded) (hI2 : InlineSegsAfterLineStart) {env : Env} {src : Bytes}
    {n : GM.Blocks.Node} {kids : List Inl.Node} (h : inlinePhase true env src n = .ok kids) : KidsP src n kids := by
  unfold inlinePhase at h
  split at h
  · cases h; exact kidsP_nil src n
  · split at h
    · cases h; exact kidsP_nil src n
    · rename_i hne
      split at h
      · cases h
      · rename_i hg
        have hw : GM.LinkRef.wf0B src n.lines = true := by simpa using hg
        have hwf := GM.Proof.LinkRefTotal.wf0B_sound hw
        have hk := liftErr_ok h
        have hc := GM.Proof.InlinesLink.parseBlock_segments hwf.1 hwf.2 env hk
        refine ⟨GM.Proof.Inlines.parseBlock_wf hk, ?_, fun hkn => ?_, fun _ => ?_⟩
        · intro s hs
          have := chain_mem hc s hs
          exact ⟨this.1, this.2.1, this.2.2, hI1 env src n.lines kids hwf hk s hs⟩
        · exact chain_raise (parseBlock_segments_hi hwf.1 hwf.2 env hk) (hI2 env src n.lines kids hwf hk) hkn
        · intro e
          rw [e] at hne
          simp at hne

/-! ### from the tree to `AOK` -/

mutual
theorem annot_AOK (hI1 : InlineSegsUnpadded) (hI2 : InlineSegsAfterLineStart) (env : Env) (src : Bytes) :
    ∀ (t : GM.Blocks.Tree) (pk : Option GM.Blocks.Kind) (a : ATree),
    treeRel (BlockP src) (fun p c => ListRel (some p.kind) c.kind) t → ListRel pk (troot t).kind →
    annot true env src t = .ok a → AOK src pk a
  | .node n cs, pk, a, ht, hr, h => by
    simp only [treeRel] at ht
    unfold annot at h
    obtain ⟨bs, hbs, h⟩ := exc_bind_ok h
    obtain ⟨kids, hkids, h⟩ := exc_bind_ok h
    cases h
    simp only [AOK]
    exact ⟨ht.1, inlinePhase_kidsP hI1 hI2 hkids, hr, annots_AOK hI1 hI2 env src cs n bs ht.2 hbs⟩
theorem annots_AOK (hI1 : InlineSegsUnpadded) (hI2 : InlineSegsAfterLineStart) (env : Env) (src : Bytes) :
    ∀ (ts : List GM.Blocks.Tree) (p : GM.Blocks.Node) (as : List ATree),
    treesRel (BlockP src) (fun p c => ListRel (some p.kind) c.kind) p ts →
    annots true env src ts = .ok as → AOKs src p.kind as
  | [], _, as, _, h => by unfold annots at h; cases h; simp [AOKs]
  | t :: rest, p, as, ht, h => by
    simp only [treesRel] at ht
    unfold annots at h
    obtain ⟨x, hx, h⟩ := exc_bind_ok h
    obtain ⟨xs, hxs, h⟩ := exc_bind_ok h
    cases h
    simp only [AOKs]
    exact ⟨annot_AOK hI1 hI2 env src t (some p.kind) x ht.2.1 ht.1 hx, annots_AOK hI1 hI2 env src rest p xs ht.2.2 hxs⟩
end

/-! ### the store -/

/-- the NAMED HYPOTHESES on the store the block phase returns -/
structure StoreHyps (src : Bytes) (st : GM.Blocks.St) : Prop where
  /-- `LinesInRange`: C05(c) range clause (shape of `GM.Blocks.NodesOK` / `GM.Props.Blocks.lines_in_range`) -/
  lines : ∀ n ∈ st.nodes, ∀ t ∈ n.lines, 0 ≤ t.start ∧ t.start ≤ t.stop ∧ t.stop ≤ src.length ∧ 0 ≤ t.padding
  /-- `XSegsInRange`: a fenced block's info segment and an HTML block's closure line -/
  info : ∀ n ∈ st.nodes, n.kind = .fencedCodeBlock → ∀ s, n.info = some s → segInRange src s
  closure : ∀ n ∈ st.nodes, n.kind = .htmlBlock → n.closure.start ≥ 0 → segInRange src n.closure
  /-- `LinesOrdered`: a block's lines increase (shape of `GM.Blocks.OrdFrom 0`) -/
  ord : ∀ n ∈ st.nodes, ordFrom 0 n.lines
  /-- `ContainersHaveNoLines`: the Document and List nodes never receive a line -/
  noLines : ∀ n ∈ st.nodes, (n.kind = .document ∨ n.kind = .list) → n.lines = []
  /-- `ListShape`: a child is a ListItem exactly when its parent is a List (one direction is `GM.Blocks.KidsOK.kids`) -/
  listShape : ∀ i, ∀ c ∈ (st.nodes.getD i default).children,
    ((st.nodes.getD c default).kind = .listItem ↔ (st.nodes.getD i default).kind = .list)

theorem blockP_default (src : Bytes) : BlockP src (default : GM.Blocks.Node) where
  head := headP_default
  lines := fun t h => by cases h
  info := fun h => by cases h
  closure := fun h => by cases h
  ord := trivial
  noLines := fun _ => rfl

theorem blockP_getD {src : Bytes} {st : GM.Blocks.St} (hh : HeadOK st) (hs : StoreHyps src st) (i : Nat) :
    BlockP src (st.nodes.getD i default) := by
  by_cases hlt : i < st.nodes.length
  · have e : st.nodes.getD i default = st.nodes[i] := by simp [List.getD, hlt]
    have hm : st.nodes[i] ∈ st.nodes := List.getElem_mem hlt
    rw [e]
    exact ⟨hh _ hm, hs.lines _ hm, hs.info _ hm, hs.closure _ hm, hs.ord _ hm, hs.noLines _ hm⟩
  · have e : st.nodes.getD i default = default := by
      simp [List.getD, List.getElem?_eq_none (Nat.le_of_not_lt hlt)]
    rw [e]; exact blockP_default src

/-- **C05 end to end, partial**: the dump of the tree `parseAst` answers passes `wfAst`, given the named hypotheses -/
theorem parseAst_wfAst (hI1 : InlineSegsUnpadded) (hI2 : InlineSegsAfterLineStart) (uc : List (Nat × (Bool × Bool)))
    (src : Bytes) (a : ATree) (h : parseAst true uc src = .ok a)
    (hS : ∀ st, blockPhase true src = .ok st → StoreHyps src st) : wfAst src.length (dumpAst a) = none := by
  unfold parseAst at h
  obtain ⟨st, hst, h⟩ := exc_bind_ok h
  have hb := liftErr_ok hst
  have hs := hS st hb
  have hh := blockPhase_headOK true src st hb
  obtain ⟨d, rest, e, hd⟩ := blockPhase_rootDoc true src st hb
  apply wfAst_dumpAst
  refine annot_AOK hI1 hI2 _ src _ none a (treeOf_rel st.nodes (blockP_getD hh hs) ?_ _ _) ?_ h
  · intro i c hc
    exact hs.listShape i c hc
  · rw [treeOf_root]
    simp only [ListRel, e, List.getD_cons_zero]
    exact hd

end GM.E2E
