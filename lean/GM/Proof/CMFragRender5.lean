/-
  GM.Proof.CMFragRender5 — the renderer half of the conformance proof for the stage-5 fragment (stage 4 plus fenced
  code blocks) of GM.Spec.CMFrag:
  * `renderDoc_hdoc`: the renderer model on a stage-5 document writes `hdocHtml` and never panics;
  * `hdocHtml_spelled`: on the spelled blocks of a stage-5 document that is the prescribed HTML;
  * `rawOfH_level`: the heading levels of the spelled blocks are 1–6.
-/
import GM.Proof.CMFragRender4
namespace GM.Proof.CMFrag
open GM GM.Spec.CM GM.Spec.CMFrag

/-! ### H1: the renderer on a stage-5 document -/

theorem handled_fenced5 (e : Exts) (info : Option Bytes) (lines : List Bytes) :
    handled e (.fencedCodeBlock info lines) = true := rfl

theorem renderNode_fence5 (rc : RCfg) (hes : rc.core.escSpace = false) (ph : Bool) (next : Option Node)
    (fc : UInt8) (n : Nat) (info : Bytes) (lines : List Bytes) :
    renderNode rc ph next (rawNode5 (.fence fc n info lines)) = rawHtml5 (.fence fc n info lines) := by
  rw [rawNode5, renderNode]
  simp only [enter, leave, handled_fenced5, skipsChildren, renderNodes, rawHtml5, hes]
  cases hi : info.isEmpty <;> simp [List.flatMap_map]

theorem renderNode_raw5 (rc : RCfg) (hes : rc.core.escSpace = false) (hhw : rc.core.hardWraps = false)
    (hea : rc.core.ea = 0) (hx : rc.core.xhtml = true) (ph : Bool) (next : Option Node) (b : Raw5) :
    renderNode rc ph next (rawNode5 b) = rawHtml5 b := by
  cases b with
  | old b => rw [rawNode5, rawHtml5, renderNode_raw4 rc hes hhw hea hx]
  | fence fc n info lines => exact renderNode_fence5 rc hes ph next fc n info lines
  | icode lines =>
    rw [rawNode5, renderNode]
    simp [enter, leave, handled, skipsChildren, renderNodes, rawHtml5, List.flatMap_map]

theorem renderNodes_raw5 (rc : RCfg) (hes : rc.core.escSpace = false) (hhw : rc.core.hardWraps = false)
    (hea : rc.core.ea = 0) (hx : rc.core.xhtml = true) (ph : Bool) (bs : List Raw5) :
    renderNodes rc ph (bs.map rawNode5) = hdocHtml bs := by
  induction bs with
  | nil => simp [renderNodes, hdocHtml]
  | cons b rest ih =>
    rw [List.map_cons, renderNodes, renderNode_raw5 rc hes hhw hea hx, ih]
    simp [hdocHtml]

theorem render_hdocNode5 (rc : RCfg) (hes : rc.core.escSpace = false) (hhw : rc.core.hardWraps = false)
    (hea : rc.core.ea = 0) (hx : rc.core.xhtml = true) (bs : List Raw5) :
    render rc (hdocNode bs) = hdocHtml bs := by
  rw [render, hdocNode, renderNode]
  simp [enter, leave, handled_doc, skipsChildren, Kind.isTableHeader, renderNodes_raw5 rc hes hhw hea hx]

theorem renderPanicsNode_raw5 (rc : RCfg) (b : Raw5) (hlev : ∀ level l, b = .old (.atx level l) → level ≤ 6) :
    renderPanicsNode rc (rawNode5 b) = none := by
  cases b with
  | old b =>
    rw [rawNode5]
    exact renderPanicsNode_raw4 rc b (fun level l he => hlev level l (by rw [he]))
  | fence fc n info lines =>
    simp [rawNode5, renderPanicsNode, nodePanic, renderPanicsNodes, handled_fenced5, skipsChildren]
  | icode lines =>
    simp [rawNode5, renderPanicsNode, nodePanic, renderPanicsNodes, handled, skipsChildren]

theorem renderPanicsNodes_raw5 (rc : RCfg) (bs : List Raw5)
    (hlev : ∀ b ∈ bs, ∀ level l, b = .old (.atx level l) → level ≤ 6) :
    renderPanicsNodes rc (bs.map rawNode5) = none := by
  induction bs with
  | nil => simp [renderPanicsNodes]
  | cons b rest ih =>
    rw [List.map_cons, renderPanicsNodes, ih (fun x hx => hlev x (by simp [hx])),
      renderPanicsNode_raw5 rc b (hlev b (by simp))]

theorem renderPanics_hdocNode5 (rc : RCfg) (bs : List Raw5)
    (hlev : ∀ b ∈ bs, ∀ level l, b = .old (.atx level l) → level ≤ 6) : renderPanics rc (hdocNode bs) = none := by
  simp [renderPanics, hdocNode, renderPanicsNode, nodePanic, renderPanicsNodes_raw5 rc bs hlev]

theorem renderDoc_hdoc_any (o : GM.Convert.ROpts) (ho : o.hardWraps = false) (hx : o.xhtml = true)
    (bs : List Raw5) (hlev : ∀ b ∈ bs, ∀ level l, b = .old (.atx level l) → level ≤ 6) :
    GM.Convert.renderDoc o (hdocNode bs) = .ok (hdocHtml bs) := by
  rw [GM.Convert.renderDoc, renderPanics_hdocNode5 o.rcfg bs hlev,
    render_hdocNode5 o.rcfg (rcfg_escSpace o) (by rw [rcfg_hardWraps, ho]) (rcfg_ea o) (by rw [rcfg_xhtml4, hx])]

/-- H1 -/
theorem renderDoc_hdoc (bs : List Raw5) (hlev : ∀ b ∈ bs, ∀ level l, b = .old (.atx level l) → level ≤ 6) :
    GM.Convert.renderDoc cmOpts (hdocNode bs) = .ok (hdocHtml bs) :=
  renderDoc_hdoc_any cmOpts rfl rfl bs hlev

/-! ### H2, H3: the spelled blocks -/

/-- a block of a stage-5 document as the source bytes the renderer sees -/
def rawOfH : HBlock → Raw5
  | .base b => .old (rawOfG b)
  | .fcode tilde n info lines => .fence (fenceChar tilde) n info lines

theorem alnum_facts5 : ∀ c : UInt8, isAlnumC c = true →
    (c != 32) = true ∧ printable c = true ∧ spellChar ⟨c, .lit⟩ = [c] ∧ escHtmlByte c = [c] := by
  apply forall_uint8; decide +kernel

theorem takeWhile_alnum5 (info : Bytes) (h : ∀ c ∈ info, isAlnumC c = true) :
    info.takeWhile (· != 32) = info := by
  induction info with
  | nil => rfl
  | cons c rest ih =>
    rw [List.takeWhile_cons, (alnum_facts5 c (h c (by simp))).1, if_pos rfl, ih (fun x hx => h x (by simp [hx]))]

theorem escSpell_alnum5 (info : Bytes) (h : ∀ c ∈ info, isAlnumC c = true) :
    escSpell (info.map (⟨·, .lit⟩)) = info := by
  induction info with
  | nil => rfl
  | cons c rest ih =>
    simp only [escSpell, List.map_cons, List.flatMap_cons] at ih ⊢
    rw [ih (fun x hx => h x (by simp [hx])), (alnum_facts5 c (h c (by simp))).2.2.1]
    rfl

theorem escHtml_alnum5 (info : Bytes) (h : ∀ c ∈ info, isAlnumC c = true) : escHtml info = info := by
  induction info with
  | nil => rfl
  | cons c rest ih =>
    simp only [escHtml, List.flatMap_cons] at ih ⊢
    rw [ih (fun x hx => h x (by simp [hx])), (alnum_facts5 c (h c (by simp))).2.2.2]
    rfl

theorem write_alnum5 (info : Bytes) (h : ∀ c ∈ info, isAlnumC c = true) : GM.write false info = info := by
  have hw := write_spelled (info.map (⟨·, .lit⟩)) (by
    intro t ht
    simp only [List.mem_map] at ht
    obtain ⟨c, hc, rfl⟩ := ht
    exact (alnum_facts5 c (h c hc)).2.1)
  rw [escSpell_alnum5 info h] at hw
  rw [hw]
  have : plain (info.map (⟨·, .lit⟩)) = info := by
    rw [plain, List.map_map]
    exact List.map_id' info
  rw [this, escHtml_alnum5 info h]

theorem rawWrite_line5 (l : Bytes) : GM.rawWrite (l ++ [10]) = escHtml l ++ [10] := by
  rw [← GM.Proof.CMSpec.escHtml_eq_rawWrite]
  simp only [escHtml, List.flatMap_append, List.flatMap_cons, List.flatMap_nil, List.append_nil]
  rfl

theorem rawHtml_spelled5 (b : HBlock) (hok : hblockOK b = true) : rawHtml5 (rawOfH b) = expHBlock b := by
  cases b with
  | base b => exact rawHtml_spelled4 b hok
  | fcode tilde n info lines =>
    simp only [hblockOK, Bool.and_eq_true, List.all_eq_true] at hok
    rw [rawOfH, rawHtml5, expHBlock, takeWhile_alnum5 info hok.1, write_alnum5 info hok.1]
    have hfm : ∀ ls : List Bytes, ls.flatMap (fun l => GM.rawWrite (l ++ [10])) = ls.flatMap (fun l => escHtml l ++ [10]) := by
      intro ls
      induction ls with
      | nil => rfl
      | cons l rest ih => rw [List.flatMap_cons, List.flatMap_cons, ih, rawWrite_line5]
    rw [hfm]

/-- H2 -/
theorem hdocHtml_spelled (blocks : List HBlock) (hok : ∀ b ∈ blocks, hblockOK b = true) :
    hdocHtml (blocks.map rawOfH) = blocks.flatMap expHBlock := by
  induction blocks with
  | nil => rfl
  | cons b rest ih =>
    have h2 := ih (fun x hx => hok x (by simp [hx]))
    simp only [hdocHtml, List.map_cons, List.flatMap_cons] at h2 ⊢
    rw [h2, rawHtml_spelled5 b (hok b (by simp))]

/-- H3 -/
theorem rawOfH_level (b : HBlock) (h : hblockOK b = true) :
    ∀ level l, rawOfH b = .old (.atx level l) → 1 ≤ level ∧ level ≤ 6 := by
  intro level l he
  cases b with
  | base b =>
    simp only [rawOfH, Raw5.old.injEq] at he
    exact rawOfG_level b h level l he
  | fcode tilde n info lines => simp [rawOfH] at he

end GM.Proof.CMFrag
