/-
  GM.Proof.CMFragMain — the phases composed: for every fragment document, `convertCore` on its source is the
  prescribed HTML.
-/
import GM.Proof.CMFragDoc
import GM.Proof.CMFragInl
import GM.Proof.CMFragRender
import GM.Proof.CMFragSpec

namespace GM.Proof.CMFrag
open GM GM.Text GM.Blocks GM.Spec

/-! ### every closed paragraph lies in the source -/

theorem docAt_paras {src : Bytes} : ∀ (items : List (Nat × List Bytes)) (trail q : Nat), DocAt src q items trail →
    ∀ x ∈ closedOf q items, ParaAt src x.1 x.2
  | [], _, _, _ => by intro x hx; simp [closedOf] at hx
  | (g, ls) :: rest, trail, q, hd => by
    obtain ⟨_, hpa, htail⟩ := hd
    intro x hx
    simp only [closedOf, List.mem_cons] at hx
    rcases hx with rfl | hx
    · exact hpa
    · rcases htail with h | h
      · rw [h.1] at hx; simp [closedOf] at hx
      · rcases h.2 with ⟨_, t, _, hdt⟩ | ⟨_, hdt⟩
        · exact docAt_paras rest t _ hdt x hx
        · exact docAt_paras rest trail _ hdt x hx

theorem sub_append' (src : Bytes) (a b c : Nat) (hab : a ≤ b) (hbc : b ≤ c) (hc : c ≤ src.length) :
    sub src a b ++ sub src b c = sub src a c := by
  unfold sub
  have e1 : List.drop b src = List.drop (b - a) (List.drop a src) := by
    rw [List.drop_drop]; congr 1; omega
  rw [e1]
  have e2 : c - a = (b - a) + (c - b) := by omega
  rw [e2, List.take_add]

theorem paraAt_sub {src : Bytes} : ∀ (ls : List Bytes) (p : Nat), ParaAt src p ls → p ≤ src.length →
    p + (paraBytes ls).length ≤ src.length ∧ sub src p (p + (paraBytes ls).length) = paraBytes ls
  | [], p, _, hp => by simp [paraBytes, sub]; exact hp
  | l :: rest, p, h, _ => by
    have hle := h.1.le
    obtain ⟨i1, i2⟩ := paraAt_sub rest (p + l.length + 1) h.2 hle
    have e : (paraBytes (l :: rest)).length = l.length + 1 + (paraBytes rest).length := by simp [paraBytes]; omega
    refine ⟨by omega, ?_⟩
    rw [e]
    have e3 : p + (l.length + 1 + (paraBytes rest).length) = p + l.length + 1 + (paraBytes rest).length := by omega
    rw [e3, ← sub_append' src p (p + l.length + 1) _ (by omega) (by omega) i1, h.1.sub, i2]
    simp [paraBytes]

theorem split3 (src : Bytes) (p n : Nat) : src = src.take p ++ sub src p (p + n) ++ src.drop (p + n) := by
  unfold sub
  have e : p + n - p = n := by omega
  have e2 : List.drop (p + n) src = List.drop n (List.drop p src) := by rw [List.drop_drop]
  rw [e, e2, List.append_assoc, List.take_append_drop, List.take_append_drop]

theorem paraAt_decomp {src : Bytes} (ls : List Bytes) (p : Nat) (h : ParaAt src p ls) (hp : p ≤ src.length) :
    ∃ pre post, src = pre ++ paraBytes ls ++ post ∧ pre.length = p := by
  obtain ⟨h1, h2⟩ := paraAt_sub ls p h hp
  have key := split3 src p (paraBytes ls).length
  rw [h2] at key
  exact ⟨src.take p, src.drop (p + (paraBytes ls).length), key, by simp; omega⟩

/-! ### the inline phase and the renderer's view of one closed paragraph -/

theorem text_value {src : Bytes} {p : Nat} {l : Bytes} (h : Ln src p (p + l.length + 1) (l ++ [10])) :
    Segment.value { start := (p : Int), stop := (p : Int) + (l.length : Int) } src = .ok l := by
  have hle := h.le
  rw [value_plain, sliceB_nat src p l.length (by omega), sub_prefix src p l.length l 10 rfl h.sub]

theorem inlineTrees_para {src : Bytes} : ∀ (ls : List Bytes) (p : Nat), ParaAt src p ls →
    GM.Convert.inlineTrees src (paraKids p ls) = .ok (textNodes ls)
  | [], _, _ => rfl
  | [l], p, h => by
    simp only [paraKids, GM.Convert.inlineTrees, GM.Convert.inlineTree, text_value h.1, bind, Except.bind, pure,
      Except.pure, textNodes]
  | l :: l' :: rest, p, h => by
    have ih := inlineTrees_para (l' :: rest) (p + l.length + 1) h.2
    simp only [paraKids, GM.Convert.inlineTrees, GM.Convert.inlineTree, text_value h.1, bind, Except.bind, pure,
      Except.pure, textNodes] at ih ⊢
    rw [ih]

theorem wfFrom_para {src : Bytes} : ∀ (ls : List Bytes) (p : Nat) (lo : Int), lo ≤ p → ParaAt src p ls →
    (∀ l ∈ ls, l ≠ []) → GM.LinkRef.wfSegsFromB src lo (paraSegs p ls) = true
  | [], _, _, _, _, _ => rfl
  | [l], p, lo, hlo, h, hne => by
    have hle := h.1.le
    have hl : 0 < l.length := List.length_pos_iff.mpr (hne l (by simp))
    simp only [paraSegs, GM.LinkRef.wfSegsFromB, Bool.and_eq_true, decide_eq_true_eq, Bool.not_eq_true', Bool.and_true]
    refine ⟨⟨⟨⟨hlo, by omega⟩, by omega⟩, by omega⟩, ?_⟩
    first | trivial | rfl
  | l :: l' :: rest, p, lo, hlo, h, hne => by
    have hle := h.1.le
    have ih := wfFrom_para (l' :: rest) (p + l.length + 1) ((p : Int) + (l.length : Int) + 1) (by omega) h.2
      (fun x hx => hne x (by simp [hx]))
    simp only [paraSegs, GM.LinkRef.wfSegsFromB, Bool.and_eq_true, decide_eq_true_eq, Bool.not_eq_true'] at ih ⊢
    refine ⟨⟨⟨⟨⟨hlo, by omega⟩, by omega⟩, by omega⟩, ?_⟩, ih⟩
    first | trivial | rfl

theorem pad0_para : ∀ (ls : List Bytes) (p : Nat), GM.LinkRef.pad0B (paraSegs p ls) = true
  | [], _ => rfl
  | [l], p => by simp [GM.LinkRef.pad0B, paraSegs]
  | l :: l' :: rest, p => by
    have ih := pad0_para (l' :: rest) (p + l.length + 1)
    simp only [GM.LinkRef.pad0B] at ih ⊢
    simp only [paraSegs, List.all_cons, ih]; simp

theorem wf0B_para {src : Bytes} (ls : List Bytes) (p : Nat) (hne : ls ≠ []) (h : ParaAt src p ls)
    (hl : ∀ l ∈ ls, l ≠ []) : GM.LinkRef.wf0B src (paraSegs p ls) = true := by
  have h1 := wfFrom_para ls p 0 (by omega) h hl
  have h2 := pad0_para ls p
  have h3 : (paraSegs p ls).isEmpty = false := by
    cases ls with
    | nil => exact absurd rfl hne
    | cons l rest => cases rest <;> simp [paraSegs]
  simp [GM.LinkRef.wf0B, GM.LinkRef.wfSegsB, h1, h2, h3]

/-- `docTree` on one closed fragment paragraph -/
theorem docTree_para {src : Bytes} (env : GM.Inl.Env) (henv : env.escapedSpace = false) (ls : List Bytes) (p : Nat)
    (b : Bool) (hne : ls ≠ []) (h : ParaAt src p ls) (hp : p ≤ src.length) (hg : ∀ l ∈ ls, GoodLine l) :
    GM.Convert.docTree true env src (.node (paraN (paraSegs p ls) b) []) = .ok (paraNode ls) := by
  obtain ⟨pre, post, hsrc, hpre⟩ := paraAt_decomp ls p h hp
  have hpb := parseBlock_quiet env henv pre post ls hne hg
  rw [← hsrc, hpre] at hpb
  have hw := wf0B_para ls p hne h (fun l hl => (hg l hl).ne)
  have hit := inlineTrees_para ls p h
  have hle : (paraSegs p ls).isEmpty = false := by
    cases ls with
    | nil => exact absurd rfl hne
    | cons l rest => cases rest <;> simp [paraSegs]
  simp only [GM.Convert.docTree, GM.Convert.docTrees, GM.Convert.inlinePhase, paraN, GM.Convert.isRawKind, hle, hw,
    hpb, GM.Convert.liftErr, GM.Convert.blockKind, bind, Except.bind, pure, Except.pure, paraNode]
  simp [hit]

/-! ### the tree the block phase leaves -/

theorem treeOf_leaf (nodes : List Blocks.Node) (f i : Nat) (h : (nodes.getD i default).children = []) :
    treeOf nodes f i = .node (nodes.getD i default) [] := by
  cases f with
  | zero => rfl
  | succ f => simp only [treeOf, h, List.map_nil]

theorem treeOf_kids (f : Nat) : ∀ (ps pre : List Blocks.Node), (∀ n ∈ ps, n.children = []) →
    (List.range' pre.length ps.length).map (treeOf (pre ++ ps) f) = ps.map (fun n => Tree.node n [])
  | [], _, _ => rfl
  | n :: ps, pre, h => by
    have e : pre ++ n :: ps = (pre ++ [n]) ++ ps := by simp
    have ih := treeOf_kids f ps (pre ++ [n]) (fun x hx => h x (by simp [hx]))
    have hg : (pre ++ n :: ps).getD pre.length default = n := by simp [List.getD]
    simp only [List.length_cons, List.range'_succ, List.map_cons]
    rw [treeOf_leaf _ _ _ (by rw [hg]; exact h n (by simp)), hg]
    congr 1
    rw [e]
    simpa using ih

theorem mkParas_children : ∀ (cl : List (Nat × List Bytes)) (bs : List Bool), ∀ n ∈ mkParas cl bs, n.children = []
  | [], _, n, h => by simp [mkParas] at h
  | (_, _) :: _, [], n, h => by simp [mkParas] at h
  | (p, ls) :: cl, b :: bs, n, h => by
    simp only [mkParas, List.mem_cons] at h
    rcases h with rfl | h
    · rfl
    · exact mkParas_children cl bs n h

theorem mkParas_length : ∀ (cl : List (Nat × List Bytes)) (bs : List Bool), bs.length = cl.length →
    (mkParas cl bs).length = cl.length
  | [], [], _ => rfl
  | [], _ :: _, h => by simp at h
  | _ :: _, [], h => by simp at h
  | (p, ls) :: cl, b :: bs, h => by
    simp only [mkParas, List.length_cons]
    rw [mkParas_length cl bs (by simpa using h)]

theorem closedOf_length : ∀ (items : List (Nat × List Bytes)) (q : Nat), (closedOf q items).length = items.length
  | [], _ => rfl
  | (g, ls) :: rest, q => by simp [closedOf, closedOf_length rest]

theorem closedOf_snd : ∀ (items : List (Nat × List Bytes)) (q : Nat), (closedOf q items).map (·.2) = items.map (·.2)
  | [], _ => rfl
  | (g, ls) :: rest, q => by simp [closedOf, closedOf_snd rest]

theorem docTrees_paras {src : Bytes} (env : GM.Inl.Env) (henv : env.escapedSpace = false) :
    ∀ (cl : List (Nat × List Bytes)) (bs : List Bool), bs.length = cl.length →
      (∀ x ∈ cl, x.2 ≠ [] ∧ ParaAt src x.1 x.2 ∧ x.1 ≤ src.length ∧ ∀ l ∈ x.2, GoodLine l) →
      GM.Convert.docTrees true env src ((mkParas cl bs).map (fun n => Tree.node n [])) =
        .ok (cl.map fun x => paraNode x.2)
  | [], [], _, _ => rfl
  | [], _ :: _, h, _ => by simp at h
  | _ :: _, [], h, _ => by simp at h
  | (p, ls) :: cl, b :: bs, h, hx => by
    obtain ⟨h1, h2, h3, h4⟩ := hx (p, ls) (by simp)
    have ih := docTrees_paras env henv cl bs (by simpa using h) (fun x hx' => hx x (by simp [hx']))
    simp only [mkParas, List.map_cons, GM.Convert.docTrees, docTree_para env henv ls p b h1 h2 h3 h4, ih, bind,
      Except.bind, pure, Except.pure]

/-! ### the whole conversion -/

theorem quiet_no_nl : ∀ (l : Bytes) (i : Nat) (e : Bool), quiet l i e = true → ∀ c ∈ l, c ≠ 10
  | [], _, _, _, c, hc => by simp at hc
  | a :: rest, i, e, h, c, hc => by
    simp only [quiet, Bool.and_eq_true] at h
    simp only [List.mem_cons] at hc
    rcases hc with rfl | hc
    · intro h10; rw [h10] at h; simp at h
    · exact quiet_no_nl rest _ _ h.2 c hc

theorem closedOf_le {src : Bytes} : ∀ (items : List (Nat × List Bytes)) (trail q : Nat), DocAt src q items trail →
    (∀ it ∈ items, it.2 ≠ []) → ∀ x ∈ closedOf q items, x.1 ≤ src.length := by
  intro items trail q hd hne x hx
  have hp := docAt_paras items trail q hd x hx
  have : x.2 ≠ [] := by
    have : x.2 ∈ (closedOf q items).map (·.2) := List.mem_map_of_mem hx
    rw [closedOf_snd] at this
    obtain ⟨it, hit, e⟩ := List.mem_map.mp this
    rw [← e]; exact hne it hit
  obtain ⟨p, ls⟩ := x
  cases ls with
  | nil => exact absurd rfl this
  | cons l rest => have := hp.1.le; simp only at this ⊢; omega

/-- the model of `goldmark.Convert` on the source of a document of good paragraphs -/
theorem convert_raw_any (o : GM.Convert.ROpts) (ho : o.hardWraps = false) (uc : List (Nat × (Bool × Bool)))
    (items : List (Nat × List Bytes)) (trail : Nat)
    (hgood : ∀ it ∈ items, it.2 ≠ [] ∧ ∀ l ∈ it.2, GoodLine l) :
    GM.Convert.convertCore uc o (rawDoc items trail) = .ok (parasHtml (items.map (·.2))) := by
  have hno : ∀ it ∈ items, ∀ l ∈ it.2, ∀ c ∈ l, c ≠ 10 :=
    fun it hit l hl => quiet_no_nl l 0 false ((hgood it hit).2 l hl).quiet
  have hblk : ∀ it ∈ items, it.2 ≠ [] ∧ ∀ l ∈ it.2, BlkLine l :=
    fun it hit => ⟨(hgood it hit).1, fun l hl => ((hgood it hit).2 l hl).blk (hno it hit l hl)⟩
  obtain ⟨s', bs, h1, h2, h3, h4⟩ := runT_doc items trail hblk
  have hd := docAt_raw items trail [] hno
  simp only [List.nil_append, List.length_nil] at hd
  have hcl : ∀ x ∈ closedOf 0 items, x.2 ≠ [] ∧ ParaAt (rawDoc items trail) x.1 x.2 ∧ x.1 ≤ (rawDoc items trail).length ∧
      ∀ l ∈ x.2, GoodLine l := by
    intro x hx
    have hm : x.2 ∈ (closedOf 0 items).map (·.2) := List.mem_map_of_mem hx
    rw [closedOf_snd] at hm
    obtain ⟨it, hit, e⟩ := List.mem_map.mp hm
    exact ⟨by rw [← e]; exact (hgood it hit).1, docAt_paras items trail 0 hd x hx,
      closedOf_le items trail 0 hd (fun it hit => (hgood it hit).1) x hx, by rw [← e]; exact (hgood it hit).2⟩
  have hlen : bs.length = (closedOf 0 items).length := by rw [closedOf_length]; exact h2
  have hml := mkParas_length (closedOf 0 items) bs hlen
  have htree : treeOf s'.nodes s'.nodes.length 0 =
      .node (addKids { kind := .document } 0 items.length) ((mkParas (closedOf 0 items) bs).map fun n => Tree.node n []) := by
    rw [h3]
    have hk := treeOf_kids (mkParas (closedOf 0 items) bs).length (mkParas (closedOf 0 items) bs)
      [addKids { kind := .document } 0 items.length] (mkParas_children _ _)
    simp only [List.length_cons, treeOf]
    have e1 : ((addKids { kind := .document } 0 items.length :: mkParas (closedOf 0 items) bs).getD 0 default) =
        addKids { kind := .document } 0 items.length := rfl
    rw [e1]
    have e2 : (addKids { kind := .document } 0 items.length).children = List.range' 1 (mkParas (closedOf 0 items) bs).length := by
      rw [hml, closedOf_length]; simp [addKids]
    rw [e2]
    congr 1
  have hdt := docTrees_paras (src := rawDoc items trail) { refs := s'.pc.refs, uc := uc } rfl (closedOf 0 items) bs hlen hcl
  have hmap : (closedOf 0 items).map (fun x => paraNode x.2) = (items.map (·.2)).map paraNode := by
    rw [← closedOf_snd items 0]; simp
  unfold GM.Convert.convertCore GM.Convert.convertWith GM.Convert.parseDoc GM.Convert.blockPhase
  have hrun : runT (GM.Convert.paragraphTransformers true) (rawDoc items trail) = .ok s' := h1
  simp only [hrun, GM.Convert.liftErr, bind, Except.bind, htree, GM.Convert.docTree, hdt, GM.Convert.inlinePhase,
    addKids, GM.Convert.isRawKind, GM.Convert.inlineTrees, GM.Convert.blockKind, pure, Except.pure, hmap]
  have hit0 : GM.Convert.inlineTrees (rawDoc items trail) [] = .ok [] := rfl
  have := renderDoc_paras_any o ho (items.map (·.2))
  simpa [docNode, hit0] using this

theorem convert_raw (uc : List (Nat × (Bool × Bool))) (items : List (Nat × List Bytes)) (trail : Nat)
    (hgood : ∀ it ∈ items, it.2 ≠ [] ∧ ∀ l ∈ it.2, GoodLine l) :
    GM.Convert.convertCore uc cmOpts (rawDoc items trail) = .ok (parasHtml (items.map (·.2))) :=
  convert_raw_any cmOpts rfl uc items trail hgood

/-! ### fragment documents -/

open GM.Spec.CM GM.Spec.CMFrag

/-- the lines of a block as source bytes -/
def blockLines : FBlock → List Bytes
  | .para lines => lines.map escSpell

/-- a fragment item as the block phase sees it -/
def conv (it : FItem) : Nat × List Bytes := (it.gap, blockLines it.block)

theorem blanks_eq (n : Nat) : GM.Proof.CMFrag.blanks n = GM.Spec.CMFrag.blanks n := rfl

theorem rawTail_spell : ∀ (items : List FItem) (trail : Nat),
    rawTail (items.map conv) trail = GM.Spec.CMFrag.spellItems false items ++ GM.Spec.CMFrag.blanks trail
  | [], 0 => rfl
  | [], t + 1 => by simp [rawTail, GM.Spec.CMFrag.spellItems, blanks_eq, GM.Spec.CMFrag.blanks, List.replicate_succ]
  | it :: rest, trail => by
    obtain ⟨gap, blk⟩ := it
    cases blk with
    | para lines =>
      have ih := rawTail_spell rest trail
      simp only [List.map_cons, conv, blockLines, rawTail, ih, GM.Spec.CMFrag.spellItems, paraBytes_spelled, blanks_eq]
      simp [GM.Spec.CMFrag.blanks, List.replicate_succ]

theorem spellF_raw (d : FDoc) : spellF d = rawDoc (d.items.map conv) d.trail := by
  obtain ⟨items, trail⟩ := d
  cases items with
  | nil => rfl
  | cons it rest =>
    obtain ⟨gap, blk⟩ := it
    cases blk with
    | para lines =>
      simp only [spellF, List.map_cons, conv, blockLines, rawDoc, rawTail_spell, GM.Spec.CMFrag.spellItems,
        paraBytes_spelled, blanks_eq]
      simp

theorem frag_item {d : FDoc} (h : Frag d) {it : FItem} (hit : it ∈ d.items) : GM.Spec.CMFrag.blockOK it.block = true := by
  unfold Frag fragB at h
  simp only [List.all_eq_true] at h
  exact h it hit

theorem frag_good {d : FDoc} (h : Frag d) : ∀ it ∈ d.items.map conv, it.2 ≠ [] ∧ ∀ l ∈ it.2, GoodLine l := by
  intro x hx
  obtain ⟨it, hit, rfl⟩ := List.mem_map.mp hx
  have hb := frag_item h hit
  obtain ⟨gap, blk⟩ := it
  cases blk with
  | para lines =>
    simp only [GM.Spec.CMFrag.blockOK, Bool.and_eq_true, Bool.not_eq_true', List.all_eq_true] at hb
    refine ⟨?_, ?_⟩
    · simp only [conv, blockLines]
      intro e
      have : lines = [] := by simpa using e
      rw [this] at hb; simp at hb
    · intro l hl
      simp only [conv, blockLines] at hl
      obtain ⟨fl, hfl, rfl⟩ := List.mem_map.mp hl
      exact goodLine_of_lineOK fl (hb.2 fl hfl)

theorem expectedF_raw (d : FDoc) (h : Frag d) : expectedF d = parasHtml ((d.items.map conv).map (·.2)) := by
  have key : ∀ (items : List FItem), (∀ it ∈ items, GM.Spec.CMFrag.blockOK it.block = true) →
      items.flatMap (fun it => expBlock it.block) = parasHtml ((items.map conv).map (·.2)) := by
    intro items
    induction items with
    | nil => intro _; rfl
    | cons it rest ih =>
      intro hok
      obtain ⟨gap, blk⟩ := it
      cases blk with
      | para lines =>
        have hb := hok ⟨gap, .para lines⟩ (by simp)
        simp only [GM.Spec.CMFrag.blockOK, Bool.and_eq_true, Bool.not_eq_true', List.all_eq_true] at hb
        have h1 := parasHtml_spelled [lines] (by
          intro ls hls l hl
          simp only [List.mem_singleton] at hls
          subst hls
          exact lineOK_printable l (hb.2 l hl))
        have h2 := ih (fun x hx => hok x (by simp [hx]))
        simp only [List.flatMap_cons, List.map_cons, conv, blockLines, h2]
        simp only [List.map_cons, List.map_nil, List.flatMap_cons, List.flatMap_nil, List.append_nil] at h1
        rw [← h1]
        simp [parasHtml]
  unfold expectedF
  exact key d.items (fun it hit => frag_item h hit)

/-- the conformance theorem of the fragment for any renderer options without HardWraps -/
theorem fragment_conforms_any (o : GM.Convert.ROpts) (ho : o.hardWraps = false) (d : FDoc) (h : Frag d)
    (uc : List (Nat × (Bool × Bool))) :
    GM.Convert.convertCore uc o (spellF d) = .ok (expectedF d) := by
  rw [spellF_raw, expectedF_raw d h]
  exact convert_raw_any o ho uc (d.items.map conv) d.trail (frag_good h)

/-- **the conformance theorem of the fragment** -/
theorem fragment_conforms (d : FDoc) (h : Frag d) (uc : List (Nat × (Bool × Bool))) :
    GM.Convert.convertCore uc cmOpts (spellF d) = .ok (expectedF d) := by
  rw [spellF_raw, expectedF_raw d h]
  exact convert_raw uc (d.items.map conv) d.trail (frag_good h)

end GM.Proof.CMFrag
