/-
  GM.Proof.BlocksTNP36 — GFM's table paragraph transformer satisfies the wide contract, part 2: `buildTable` (table.go:166-180:
  the fresh Table subtree, `SetSliced` of the paragraph's lines, `InsertAfter`, `RemoveChild` of an emptied paragraph) ends in
  `StepX`; `transformPT_specX`.
-/
import GM.Proof.BlocksTNP35

namespace GM.Blocks.L.G.X
open GM GM.Text GM.Spec GM.Proof.Reader GM.Blocks.T GM.Blocks.TR GM.TableX

theorem upd2_offset (s : St) (p c : Nat) (g : List Nat → List Nat) (par : Option Nat) (j : Nat) :
    (nd (upd (upd s p fun n => { n with children := g n.children }) c fun n => { n with parent := par }) j).offset =
      (nd s j).offset := by
  have h1 : ∀ j, (nd (upd s p fun n => { n with children := g n.children }) j).offset = (nd s j).offset := by
    intro j
    rw [nd_upd]; split
    · rename_i h; obtain ⟨rfl, _⟩ := h; rfl
    · rfl
  rw [nd_upd]; split
  · rename_i h; obtain ⟨rfl, _⟩ := h; exact h1 _
  · exact h1 j

/-- the state after `InsertAfter(node, T)` under `p` (`g` = what happens to `p`'s children) and the optional `RemoveChild` -/
def tblFinal (sC : St) (p node T : Nat) (g : List Nat → List Nat) (gone : Bool) : St :=
  let sD := upd (upd sC p fun n => { n with children := g n.children }) T fun n => { n with parent := some p }
  if gone then upd (upd sD p fun n => { n with children := n.children.erase node }) node fun n => { n with parent := none }
  else sD

/-- `buildTable` ends in `StepX` -/
theorem buildTable_stepX {src : Bytes} {node p : Nat} {s : St} (hlt : node < s.nodes.length)
    (hk : (nd s node).kind = .paragraph) (hp : (nd s node).parent = some p) (hl : (nd s node).lines ≠ [])
    (hn : NodesOK src s) (hkids : KidsOK s) (hplt : PLTf s) (htree : TreeOK s)
    (para : List GM.Table.Seg) (t : GM.Table.Table) (hpara : LinesOK src (para.map ofSeg))
    (htab : NodeOK src (tableNode src))
    (hhead : NodeOK src (rowNode src tagHeader t.header) ∧ ∀ c ∈ t.header, NodeOK src (cellNode src c))
    (hrows : ∀ r ∈ t.rows, NodeOK src (rowNode src tagRow r) ∧ ∀ c ∈ r, NodeOK src (cellNode src c)) :
    ∃ s', buildTable src node (some p) para t s = .ok ((), s') ∧ StepX src node s s' para.isEmpty := by
  -- the build phase
  have h0 : FX src s s := FX.refl htree hplt
  have hA := h0.newNode (tableNode src) rfl rfl rfl htab
  generalize hsA : ({ s with nodes := s.nodes ++ [tableNode src] } : St) = sA at hA
  have hlA : sA.nodes.length = s.nodes.length + 1 := by rw [← hsA]; simp
  have hTA : nd sA s.nodes.length = tableNode src := by
    rw [← hsA, fr_nd_append s _ s.r s.pc, if_neg (by omega), if_pos rfl]
  obtain ⟨sB1, eB1, hB1, hlB1, hpB1⟩ := addRow_built s.nodes.length tagHeader t.header sA hA (Nat.le_refl _) (by omega)
    hhead.1 hhead.2
  obtain ⟨sB, eB, hB, hlB, hpB⟩ := addRows_built s.nodes.length (Nat.le_refl _) t.rows sB1 hB1 (by omega) hrows
  have hTl : s.nodes.length < sB.nodes.length := by omega
  have hTpar : (nd sB s.nodes.length).parent = none := by
    rw [hpB _ (by omega), hpB1 _ (by omega), hTA]; rfl
  have hpl : p < s.nodes.length := hplt node p hp
  have hnodeB : nd sB node = nd s node := hB.old node hlt
  have hpB' : nd sB p = nd s p := hB.old p hpl
  -- `SetSliced`
  generalize hL : para.map ofSeg = Lp at hpara
  have eC : modNode node (fun n => { n with lines := Lp }) sB = .ok ((), upd sB node fun n => { n with lines := Lp }) := rfl
  generalize hsC : (upd sB node fun n => { n with lines := Lp }) = sC at eC
  have tsC : TreeSame sB sC := by rw [← hsC]; exact L.upd_treeSame sB node (fun n => ⟨rfl, rfl, rfl, rfl⟩)
  have hlC : sC.nodes.length = sB.nodes.length := tsC.len
  have hkids_p : (nd sC p).children = (nd s p).children := by rw [(tsC.same p).2.2.1, hpB']
  have hmem : node ∈ (nd s p).children := htree.pc node p hp
  have hTparC : (nd sC s.nodes.length).parent = none := by rw [(tsC.same _).2.1]; exact hTpar
  -- `InsertAfter`
  have hstep5 : ∃ g : List Nat → List Nat,
      (∀ l y, y ∈ g l ↔ (y ∈ l ∨ y = s.nodes.length)) ∧ (∀ l, l.Nodup → s.nodes.length ∉ l → (g l).Nodup) ∧
      (∀ x, x ≠ node → (nd s p).children.getLast? = some x → (g (nd s p).children).getLast? = some x) ∧
      insertBefore p (nextIn node (nd sC p).children) s.nodes.length sC = .ok ((),
        upd (upd sC p fun n => { n with children := g n.children }) s.nodes.length fun n => { n with parent := some p }) := by
    rw [hkids_p]
    cases hnx : nextIn node (nd s p).children with
    | none =>
      refine ⟨fun l => l ++ [s.nodes.length], fun l y => by simp, fun l hn' hc' => ?_, fun x hx hlast => ?_, ?_⟩
      · rw [List.nodup_append]
        exact ⟨hn', by simp, fun a ha b hb => by simp at hb; subst hb; intro e'; exact hc' (e' ▸ ha)⟩
      · have := nextIn_none_last node _ hmem hnx
        rw [hlast] at this; cases this; exact absurd rfl hx
      · show appendChild p s.nodes.length sC = _
        exact L.appendChild_fresh p s.nodes.length sC hTparC
    | some nx =>
      have hnxm : nx ∈ (nd s p).children := nextIn_mem node _ nx hnx
      have hnxp : (nd s nx).parent = some p := htree.cp p nx hnxm
      have hnxl : nx < s.nodes.length := fr_lt_of_parent s nx p hnxp
      refine ⟨fun l => insertBeforeIn nx s.nodes.length l, fun l y => mem_insertBeforeIn nx _ l y,
        fun l hn' hc' => nodup_insertBeforeIn nx _ l hn' hc', fun x _ hlast => ?_, ?_⟩
      · rw [getLast?_insertBeforeIn_mem nx _ _ hnxm]; exact hlast
      · exact insertBefore_eq p nx s.nodes.length sC (by rw [(tsC.same nx).2.1, hB.old nx hnxl]; exact hnxp) hTparC
  obtain ⟨g, hgm, hgn, hgl, e5⟩ := hstep5
  generalize hsD : (upd (upd sC p fun n => { n with children := g n.children }) s.nodes.length
      fun n => { n with parent := some p }) = sD at e5
  have hlD : sD.nodes.length = sB.nodes.length := by rw [← hsD]; simp [upd, hlC]
  -- the fields of `sD`
  have hparD : ∀ j, (nd sD j).parent = if j = s.nodes.length then some p else (nd sB j).parent := by
    intro j
    rw [← hsD, upd2_parent sC p s.nodes.length g (some p) j]
    by_cases e' : j = s.nodes.length
    · rw [if_pos ⟨e', by omega⟩, if_pos e']
    · rw [if_neg (fun hh => e' hh.1), if_neg e', (tsC.same j).2.1]
  have hkidsD : ∀ j, (nd sD j).children = if j = p then g (nd s p).children else (nd sB j).children := by
    intro j
    rw [← hsD, upd2_children sC p s.nodes.length g (some p) j]
    by_cases e' : j = p
    · rw [if_pos ⟨e', by omega⟩, if_pos e', hkids_p]
    · rw [if_neg (fun hh => e' hh.1), if_neg e', (tsC.same j).2.2.1]
  have hfD : FrameEq sC sD := by
    rw [← hsD]
    exact (upd_frame sC p (f := fun n => { n with children := g n.children }) (fun n => ⟨rfl, rfl, rfl⟩)).trans
      (upd_frame _ _ (f := fun n => { n with parent := some p }) (fun n => ⟨rfl, rfl, rfl⟩))
  have hoffD : ∀ j, (nd sD j).offset = (nd sB j).offset := by
    intro j
    rw [← hsD, upd2_offset sC p s.nodes.length g (some p) j, (tsC.same j).2.2.2]
  have hkindD : ∀ j, (nd sD j).kind = (nd sB j).kind := fun j => by rw [(hfD.same j).1, (tsC.same j).1]
  have hlinesC : ∀ j, (nd sC j).lines = if j = node then Lp else (nd sB j).lines := by
    intro j
    rw [← hsC, nd_upd]
    by_cases e' : node = j
    · rw [if_pos ⟨e', by omega⟩, if_pos e'.symm]
    · rw [if_neg (fun hh => e' hh.1), if_neg (fun hh => e' hh.symm)]
  have hnilC : ∀ j, (nd sC j).linesNil = (nd sB j).linesNil := by
    intro j
    rw [← hsC, nd_upd]; split
    · rename_i h; obtain ⟨rfl, _⟩ := h; rfl
    · rfl
  have hparD_node : (nd sD node).parent = some p := by
    rw [hparD, if_neg (by omega), hnodeB]; exact hp
  have hpnl : (nd s p).kind ≠ .list := by
    intro hh
    have := hkids.pk node p hp hh
    rw [hk] at this; cases this
  have hrD : sD.r = s.r := by rw [hfD.r, ← hsC]; exact hB.r
  have hpcD : sD.pc = s.pc := by rw [hfD.pc, ← hsC]; exact hB.pc
  have hlinesD : ∀ j, (nd sD j).lines = if j = node then Lp else (nd sB j).lines := fun j => by
    rw [(hfD.same j).2.1]; exact hlinesC j
  have hnilD : ∀ j, (nd sD j).linesNil = (nd sB j).linesNil := fun j => by rw [(hfD.same j).2.2]; exact hnilC j
  -- `PLT`, `TreeOK` of `sD`
  have hpltC : PLT sC := hB.plt.treeSame tsC
  have htreeC : TreeOK sC := treeOK_tinv.ts tsC hB.tree
  have hpltD : PLT sD := (plt_insertBefore p _ s.nodes.length sC sD hpltC (by omega) e5).1
  have htreeD : TreeOK sD := by
    rw [hkids_p] at e5
    cases hnx : nextIn node (nd s p).children with
    | none =>
      rw [hnx] at e5
      exact (inv_appendChild treeOK_tinv p s.nodes.length sC sD trivial trivial (by omega) (by omega) htreeC e5).1
    | some nx =>
      rw [hnx] at e5
      exact (inv_insertBefore treeOK_tinv p nx s.nodes.length sC sD trivial trivial (by omega) (by omega) htreeC e5).1
  -- the frame of "x is the last child of q" up to `sD`
  have hlkD : ∀ x q, x ≠ node → LK s x q → LK sD x q := by
    intro x q hx hlk
    have hxl := hlk.xlt
    have hql := hlk.qlt
    have hlkB : LK sB x q := by
      refine ⟨by rw [hB.old x hxl]; exact hlk.par, by rw [hB.old q hql]; exact hlk.last, fun p' hm => ?_⟩
      rcases Nat.lt_or_ge p' s.nodes.length with h1 | h1
      · rw [hB.old p' h1] at hm; exact hlk.only p' hm
      · exfalso
        have := hB.tree.cp p' x hm
        rw [hB.old x hxl, hlk.par] at this
        cases this; omega
    refine ⟨by rw [hparD, if_neg (by omega)]; exact hlkB.par, ?_, fun p' hm => ?_⟩
    · rw [hkidsD]
      split
      · rename_i e'
        rw [e'] at hlk
        exact hgl x hx hlk.last
      · exact hlkB.last
    · rw [hkidsD] at hm
      split at hm
      · rename_i e'
        rcases (hgm _ _).1 hm with h1 | h1
        · rw [e']; exact hlk.only p h1
        · omega
      · exact hlkB.only p' hm
  -- everything about the final state, from its fields
  have key : ∀ (s' : St) (gone : Bool), s'.r = sD.r → s'.pc = sD.pc → s'.nodes.length = sD.nodes.length →
      (∀ j, (nd s' j).parent = if gone = true ∧ j = node then none else (nd sD j).parent) →
      (∀ j, j ≠ p → (nd s' j).children = (nd sD j).children) →
      (∀ j, (nd s' j).kind = (nd sD j).kind ∧ (nd s' j).offset = (nd sD j).offset ∧ (nd s' j).lines = (nd sD j).lines ∧
        (nd s' j).linesNil = (nd sD j).linesNil) →
      PLT s' → TreeOK s' → (∀ x q, x ≠ node → LK sD x q → LK s' x q) → (gone = false → Lp ≠ []) →
      StepX src node s s' gone := by
    intro s' gone hr' hpc' hl' hpar' hkids' hsame' hplt' htree' hlk' hLne
    have hlen' : s.nodes.length ≤ s'.nodes.length := by omega
    have hold : ∀ i, i < s.nodes.length → (nd s' i).kind = (nd s i).kind := fun i hi => by
      rw [(hsame' i).1, hkindD, hB.old i hi]
    have hfreshk : ∀ i, s.nodes.length ≤ i → (nd s' i).kind ≠ .list ∧ (nd s' i).kind ≠ .listItem := by
      intro i hi
      rcases Nat.lt_or_ge i sB.nodes.length with h1 | h1
      · rw [(hsame' i).1, hkindD, (hB.fk i hi h1).1]; exact ⟨by decide, by decide⟩
      · rw [nd_default_of_ge s' (by omega)]; exact ⟨by decide, by decide⟩
    have hlinesO : ∀ i, i < s.nodes.length → i ≠ node → (nd s' i).lines = (nd s i).lines := fun i hi hne => by
      rw [(hsame' i).2.2.1, hlinesD, if_neg hne, hB.old i hi]
    have hparO : ∀ i, i < s.nodes.length → i ≠ node → (nd s' i).parent = (nd s i).parent := fun i hi hne => by
      rw [hpar', if_neg (fun hh => hne hh.2), hparD, if_neg (by omega), hB.old i hi]
    have hparN : ∀ i, s.nodes.length ≤ i → ∀ q, (nd s' i).parent = some q → s.nodes.length ≤ q ∨ q = p := by
      intro i hi q hq
      rw [hpar', if_neg (fun hh => by omega), hparD] at hq
      split at hq
      · cases hq; exact .inr rfl
      · rcases Nat.lt_or_ge i sB.nodes.length with h1 | h1
        · exact .inl ((hB.fk i hi h1).2.2 q hq)
        · rw [nd_default_of_ge sB h1] at hq; cases hq
    have hnodes' : NodesOK src s' := by
      intro n hmem
      obtain ⟨j, hj, rfl⟩ := List.getElem_of_mem hmem
      have e' : s'.nodes[j] = nd s' j := by simp [nd, List.getD_eq_getElem?_getD, hj]
      rw [e']
      have hjB : j < sB.nodes.length := by omega
      constructor
      · rw [(hsame' j).2.2.1, hlinesD]
        split
        · exact hpara
        · rcases Nat.lt_or_ge j s.nodes.length with h1 | h1
          · rw [hB.old j h1]; exact (hn.nd h1).lines
          · exact (hB.fk j h1 hjB).2.1.lines
      · intro hnil
        rw [(hsame' j).2.2.2, hnilD] at hnil
        rw [(hsame' j).2.2.1, hlinesD]
        split
        · rename_i e''
          exfalso
          rw [e'', hnodeB] at hnil
          exact hl ((hn.nd hlt).nil hnil)
        · rcases Nat.lt_or_ge j s.nodes.length with h1 | h1
          · rw [hB.old j h1] at hnil ⊢; exact (hn.nd h1).nil hnil
          · exact (hB.fk j h1 hjB).2.1.nil hnil
    have htstep : TStep src node s s' gone := by
      refine ⟨by rw [hr', hrD], ⟨s.pc.refs, by rw [hpc', hpcD]⟩, hlen', hold, hlinesO, hnodes', fun hg => ?_, fun hg => ?_⟩
      · refine ⟨by rw [(hsame' node).2.2.1, hlinesD, if_pos rfl]; exact hLne hg, ?_⟩
        rw [hpar', if_neg (fun hh => by rw [hg] at hh; cases hh.1), hparD_node]; exact hp.symm
      · rw [hpar', if_pos ⟨hg, rfl⟩]
    have htf : TF s s' := by
      refine ⟨fun i hi hc => ?_, fun i hi hkl => ?_, fun i hi => ?_, fun i q hq hkl => ?_, fun i hi => hfreshk i hi⟩
      · exact hparO i hi (fun e' => by rw [e', hk] at hc; cases hc)
      · have hip : i ≠ p := fun e' => hpnl (e' ▸ hkl)
        rw [hkids' i hip, hkidsD, if_neg hip, hB.old i hi]
      · rw [(hsame' i).2.1, hoffD, hB.old i hi]
      · have hql : q < s.nodes.length := by
          rcases Nat.lt_or_ge q s.nodes.length with h1 | h1
          · exact h1
          · exact absurd hkl (hfreshk q h1).1
        rw [hold q hql] at hkl
        rcases Nat.lt_or_ge i s.nodes.length with h1 | h1
        · by_cases e' : i = node
          · exfalso
            rw [e', hpar'] at hq
            split at hq
            · cases hq
            · rw [hparD_node] at hq; cases hq; exact hpnl hkl
          · exact ⟨h1, by rw [← hparO i h1 e']; exact hq⟩
        · exfalso
          rcases hparN i h1 q hq with h2 | h2
          · omega
          · exact hpnl (h2 ▸ hkl)
    refine ⟨htstep, htf, hplt', htree', fun x q hx hlk => hlk' x q hx (hlkD x q hx hlk), fun hg => ?_⟩
    refine ⟨⟨hlen', hold, fun i hi _ hne => ?_⟩, hparO, fun i hi q hq => ?_⟩
    · by_cases e' : i = node
      · rw [e', (hsame' node).2.2.1, hlinesD, if_pos rfl]; exact hLne hg
      · rw [hlinesO i hi e']; exact hne
    · rcases hparN i hi q hq with h2 | h2
      · exact .inl h2
      · exact .inr (h2 ▸ hp)
  -- the two ways `buildTable` ends
  have hrun : ∀ s', (do
        insertBefore p (nextIn node (nd sC p).children) s.nodes.length
        if para.isEmpty then removeChild p node : M Unit) sC = .ok ((), s') →
      buildTable src node (some p) para t s = .ok ((), s') := by
    intro s' h'
    have hrw : buildTable src node (some p) para t s = ((Blocks.newNode (tableNode src) >>= fun table =>
        addRow src table tagHeader t.header >>= fun _ => addRows src table t.rows >>= fun _ =>
        modNode node (fun n => { n with lines := para.map ofSeg }) >>= fun _ =>
        (getNode p >>= fun pn => insertBefore p (nextIn node pn.children) table >>= fun _ =>
          if para.isEmpty then removeChild p node else pure ())) s) := rfl
    rw [hrw]
    simp only [bind, StateT.bind, Blocks.newNode, pure, Except.pure, Except.bind, getNode]
    rw [hsA, eB1]
    simp only [Except.bind]
    rw [eB]
    simp only [Except.bind]
    rw [hL, eC]
    simp only [Except.bind]
    exact h'
  have hLne : para.isEmpty = false → Lp ≠ [] := by
    intro h e'
    rw [← hL] at e'
    cases para with
    | nil => cases h
    | cons a b => cases e'
  cases hgo : para.isEmpty with
  | false =>
    refine ⟨sD, hrun sD ?_, ?_⟩
    · simp only [bind, StateT.bind, Except.bind, e5, hgo, Bool.false_eq_true, if_false]
      rfl
    · exact key sD false rfl rfl rfl (fun j => by simp) (fun _ _ => rfl) (fun _ => ⟨rfl, rfl, rfl, rfl⟩) hpltD htreeD
        (fun _ _ _ h => h) (fun _ => hLne hgo)
  | true =>
    have e6 := removeChild_eq p node sD hparD_node
    generalize hsE : (upd (upd sD p fun n => { n with children := n.children.erase node }) node
        fun n => { n with parent := none }) = sE at e6
    have hfE : FrameEq sD sE := by
      rw [← hsE]
      exact (upd_frame sD p (f := fun n => { n with children := n.children.erase node }) (fun n => ⟨rfl, rfl, rfl⟩)).trans
        (upd_frame _ _ (f := fun n => { n with parent := none }) (fun n => ⟨rfl, rfl, rfl⟩))
    refine ⟨sE, hrun sE ?_, ?_⟩
    · simp only [bind, StateT.bind, Except.bind, e5, hgo, if_true]
      exact e6
    · refine key sE true hfE.r hfE.pc hfE.len (fun j => ?_) (fun j hj => ?_) (fun j => ⟨(hfE.same j).1, ?_, (hfE.same j).2.1,
        (hfE.same j).2.2⟩) (plt_removeChild p node sD sE hpltD e6).1
        (inv_removeChild treeOK_tinv p node sD sE trivial htreeD e6).1 (fun x q hx hlk => ?_) (fun h => by cases h)
      · rw [← hsE, upd2_parent sD p node (fun l => l.erase node) none j]
        by_cases e' : j = node
        · rw [if_pos ⟨e', by omega⟩, if_pos ⟨rfl, e'⟩]
        · rw [if_neg (fun hh => e' hh.1), if_neg (fun hh => e' hh.2)]
      · rw [← hsE, upd2_children sD p node (fun l => l.erase node) none j, if_neg (fun hh => hj hh.1)]
      · rw [← hsE]; exact upd2_offset sD p node (fun l => l.erase node) none j
      · exact (inv_removeChild (lk_tinv x q) p node sD sE (fun e' => hx e'.symm) hlk e6).1

end GM.Blocks.L.G.X
