/-
  GM.Proof.QuoteSimDriver — the block driver (parser.go closeBlocks / openBlocks / the per-line loop of
  parseBlocks) preserves the simulation relation, for every set `al` of block parsers whose `Open` / `Continue` /
  `Close` are simulated (`PS`). Inside one line: A works at level `i` with parent `q`, B at level `i+1` with parent
  `q+1`, B's `openedBlocks` is A's with the Blockquote block in front.
-/
import GM.Proof.QuoteSimTree
import GM.Proof.QuoteSimLeafA
import GM.Proof.QuoteSimInv
import GM.Proof.QuoteSimInvK
import GM.Proof.QuoteSimInvPL
import GM.Proof.QuoteSimList
import GM.Proof.QuoteSimSetext
import GM.Proof.QuoteSimFE1
import GM.Proof.QuoteSimFE2
import GM.Proof.QuoteSimFE3
import GM.Proof.QuoteSimFE4
import GM.Proof.QuoteSimFE5

namespace GM.Blocks
open GM GM.Text GM.Spec GM.Proof.Reader

/-! ### what the driver needs from the parsers -/

/-- every opened block of A belongs to a covered parser and is not the Document -/
def OKB (al : BP → Bool) (l : List Block) : Prop := ∀ b ∈ l, al b.bp = true ∧ b.node ≠ 0

/-- when the List parser is not among the covered parsers, no node of run A's store is a List / ListItem -/
def NK (al : BP → Bool) (nodes : List Node) : Prop :=
  al .list = false → ∀ n ∈ nodes, n.kind ≠ .list ∧ n.kind ≠ .listItem

/-- the invariant of run A's parse context that the parser lemmas need -/
structure AInv (al : BP → Bool) (pc : Ctx) (nodes : List Node) : Prop where
  opened : OKB al pc.opened
  tmp : pc.tmpPara ≠ some 0
  fence : ∀ f, pc.fence = some f → 0 ≤ f.indent
  /-- the store invariant of GM.Proof.QuoteSimInvL: the Document has no lines, node 0 is nobody's child -/
  u : UStoreL nodes
  /-- no List / ListItem node, unless the List parser is covered -/
  nk : NK al nodes
  /-- parser/kind consistency of the open blocks (GM.Proof.QuoteSimInvK) -/
  pk : PKL pc.opened nodes
  /-- all ids stored in the nodes are in range (GM.Proof.QuoteSimFEDefs) -/
  rg : RStore nodes

/-- the store invariant of GM.Proof.QuoteSimInv, when the List parser is not covered -/
theorem AInv.us {al : BP → Bool} {pc : Ctx} {nodes : List Node} (h : AInv al pc nodes) (hl : al .list = false) :
    UStore nodes := ustore_of_L h.u (h.nk hl)

/-- every position inside a line that has a rest of the line in front of it has one with a byte that is not a space
    (true when the source ends with `\n` or, more generally, does not end with a space: the last byte of the line is
    such a byte). Needed by `fencedCodeBlockParser.Continue` only. -/
def NS (src : Bytes) : Prop := ∀ k ls p, InL src k ls p → p < src.length → ∃ c ∈ (viewA src ls p).getD [], c ≠ 32

/-- the parsers in `al` are simulated. Continue / Close are only ever called on a node that is not the Document,
    in a context satisfying `AInv`; Continue only when there is a current line. -/
structure PS (src : Bytes) (al : BP → Bool) : Prop where
  open_ : ∀ bp, al bp = true → OpenSim src bp
  cont : ∀ bp, al bp = true → ∀ k ls p node sA sB, SR src k ls p sA sB → node ≠ 0 → AInv al sA.pc sA.nodes → p < src.length →
    (∃ c ∈ (viewA src ls p).getD [], c ≠ 32) →
    (bp = .listItem → isBlank ((viewA src ls p).getD []) = false → ListItemContPre src ls p node sA) →
    S2 (fun a b sA' sB' => b = a ∧ ∃ p', SR src k ls p' sA' sB')
      (bpContinue bp node sA) (bpContinue bp (node + 1) sB)
  close : ∀ bp, al bp = true → ∀ k ls p node sA sB, SR src k ls p sA sB → node ≠ 0 → AInv al sA.pc sA.nodes →
    ((bp = .paragraph ∨ bp = .setext) → rawK (sA.nodes.getD node default).kind = false) →
    FEc al sA.nodes sB.nodes →
    S2 (fun _ _ sA' sB' => SR src k ls p sA' sB') (bpClose bp node sA) (bpClose bp (node + 1) sB)

/-- unary facts about run A: the parsers keep `AInv`; `RequireParagraph` is only answered when there is a last
    opened block -/
structure Frames (al : BP → Bool) : Prop where
  open_ : ∀ bp parent s a s', bpOpen bp parent s = .ok (a, s') → al bp = true → AInv al s.pc s.nodes → AInv al s'.pc s'.nodes
  cont : ∀ bp node s a s', bpContinue bp node s = .ok (a, s') → al bp = true → node ≠ 0 → AInv al s.pc s.nodes →
    AInv al s'.pc s'.nodes
  close : ∀ bp node s a s', bpClose bp node s = .ok (a, s') → al bp = true → node ≠ 0 → AInv al s.pc s.nodes →
    AInv al s'.pc s'.nodes
  openKG : ∀ bp parent s a s', bpOpen bp parent s = .ok (a, s') → al bp = true → KGn s.nodes s'.nodes
  contKG : ∀ bp node s a s', bpContinue bp node s = .ok (a, s') → al bp = true → KGn s.nodes s'.nodes
  closeKG : ∀ bp node s a s', bpClose bp node s = .ok (a, s') → al bp = true → KGn s.nodes s'.nodes
  openNR : ∀ bp parent s (a : Option Nat × PState) s' id, bpOpen bp parent s = .ok (a, s') → a.1 = some id →
    al bp = true → NRn bp id s'.nodes
  req : ∀ bp parent s (a : Option Nat × PState) s', bpOpen bp parent s = .ok (a, s') → a.2.requirePara = true →
    s.pc.opened.getLast? ≠ none
  nonePos : ∀ bp parent s (a : Option Nat × PState) s', bpOpen bp parent s = .ok (a, s') → a.1 = none →
    s'.r.pos = s.r.pos
  contOpened : ∀ bp node s a s', bpContinue bp node s = .ok (a, s') → s'.pc.opened = s.pc.opened

/-- the rest of the current line of A (from position `p` of line `ls`) is not blank -/
def NBV (src : Bytes) (ls p : Nat) : Prop := isBlank ((viewA src ls p).getD []) = false

/-- no position of the source starts a list item: behind at most three spaces there is no bullet (`-`, `*`, `+`) and no
    number of at most nine digits with `.` or `)` that is followed by a space, a tab, the end of the line or the end of the
    source (`parser.matchesListItem` on the rest of the line, from EVERY position) -/
def NoItem (src : Bytes) : Prop :=
  ∀ p, p < src.length → (matchesListItem (sub src p (lineEnd src p)) true).2 = ListTyp.notList

/-- no position of the source starts a rest of line that `matchesSetextHeadingBar` accepts -/
def NoBar (src : Bytes) : Prop :=
  ∀ p, p < src.length → ∀ c, matchesSetextHeadingBar (sub src p (lineEnd src p)) ≠ .ok (c, true)

/-- unary facts about run A ("a non-blank line always opens a block"): on a rest of line that is not blank the
    paragraph parser opens a block, and so does the code block parser when the line is indented by more than three
    columns -/
structure OT (src : Bytes) : Prop where
  para : ∀ k ls p q sA sB (a : Option Nat × PState) sA', SR src k ls p sA sB → NBV src ls p →
    bpOpen .paragraph q sA = .ok (a, sA') → a.1 ≠ none
  code : ∀ k ls p q sA sB (a : Option Nat × PState) sA' (lo : Int), SR src k ls p sA sB → NBV src ls p →
    3 < (indentWidthI ((viewA src ls p).getD []) lo).1 → bpOpen .code q sA = .ok (a, sA') → a.1 ≠ none
  /-- the two list parsers may be TRIED on sources in which no position starts a list item: their `Open` is simulated … -/
  lsim : ∀ bp, bp.notList = false → OpenSim src bp
  /-- … and declines without touching the node store (no list item at the reader's position; no List node to put an item in) -/
  ldecl : ∀ bp, bp.notList = false → NoItem src → ∀ k ls p q sA sB (a : Option Nat × PState) sA', SR src k ls p sA sB →
    UStore sA.nodes → bpOpen bp q sA = .ok (a, sA') → a.1 = none ∧ sA'.nodes = sA.nodes
  /-- the setext heading parser may be TRIED on sources in which no position starts a setext heading bar: it declines -/
  sdecl : NoBar src → ∀ k ls p q sA sB (a : Option Nat × PState) sA', SR src k ls p sA sB →
    bpOpen .setext q sA = .ok (a, sA') → a.1 = none ∧ sA'.nodes = sA.nodes

/-- what run A's `tryParsers` answers: the result it was given or `newBlocksOpened`; and `newBlocksOpened` when it was
    given `noBlocksOpened` on a rest of line that is not blank, the last opened block is no paragraph, and the candidate
    list contains the parser that takes such a line (paragraph: indent ≤ 3; code block: indent > 3) -/
def TPU (src : Bytes) (ls p : Nat) (cont : Bool) (w : Int) (bps : List BP) (result : OpenResult) (r : OpenResult) : Prop :=
  (r = result ∨ r = .newBlocksOpened) ∧
  (cont = false → result = .noBlocksOpened → NBV src ls p → (w ≤ 3 → BP.paragraph ∈ bps) →
    (3 < w → BP.code ∈ bps ∧ ∃ lo : Int, w = (indentWidthI ((viewA src ls p).getD []) lo).1) → r = .newBlocksOpened)

/-- the link between `continuable` and the last-block variable of openBlocks in run A: while nothing has been opened and
    the last opened block was a paragraph, the variable IS the last opened block, and its parser is the paragraph parser
    (so `toContinuable` calls `paragraphParser.Continue`, also at the end of the source) -/
def HC (cont : Bool) (result : OpenResult) (lb : Option Block) (s : St) : Prop :=
  cont = true → result = .noBlocksOpened → lb = s.pc.opened.getLast? ∧ ∀ x, lb = some x → x.bp = .paragraph

theorem HC.of_new {cont : Bool} {r : OpenResult} {lb : Option Block} {s : St} (h : r = .newBlocksOpened) : HC cont r lb s :=
  fun _ hr => by rw [h] at hr; cases hr

theorem HC.congr {cont : Bool} {r : OpenResult} {lb : Option Block} {s s' : St} (h : HC cont r lb s)
    (ho : s'.pc.opened = s.pc.opened) : HC cont r lb s' :=
  fun hc hr => by rw [ho]; exact h hc hr

theorem bp_kind_paragraph {bp : BP} (h : bp.kind = .paragraph) : bp = .paragraph := by
  cases bp <;> simp [BP.kind] at h ⊢

theorem int_beq_congr {x y x' y' : Int} (h : x = y ↔ x' = y') : (x == y) = (x' == y') := by
  by_cases h1 : x = y
  · have h2 := h.mp h1; rw [h1, h2, beq_self_eq_true, beq_self_eq_true]
  · have h2 : ¬ x' = y' := fun e => h1 (h.mpr e)
    rw [beq_eq_false_iff_ne.mpr h1, beq_eq_false_iff_ne.mpr h2]

/-- add a fact about run A's result to a simulation -/
theorem S2.andL {α β} {P : α → β → St → St → Prop} {F : α → St → Prop} {x : Except Panic (α × St)} {y}
    (h : S2 P x y) (hA : ∀ a sA', x = .ok (a, sA') → F a sA') :
    S2 (fun a b sA' sB' => P a b sA' sB' ∧ F a sA') x y := by
  intro a sA e
  obtain ⟨b, sB, h1, h2⟩ := h a sA e
  exact ⟨b, sB, h1, h2, hA a sA e⟩

theorem S2.ite {α β} {Q : α → β → St → St → Prop} {c : Prop} [Decidable c] {x x' : Except Panic (α × St)}
    {y y' : Except Panic (β × St)} (h1 : c → S2 Q x y) (h2 : ¬ c → S2 Q x' y') :
    S2 Q (if c then x else x') (if c then y else y') := by
  split
  · exact h1 ‹_›
  · exact h2 ‹_›

/-! ### run A alone: which steps leave the parse context alone -/

def PcK {α} (m : M α) : Prop := ∀ s a s', m s = .ok (a, s') → s'.pc = s.pc

theorem PcK.bind {α β} {m : M α} {f : α → M β} (hm : PcK m) (hf : ∀ a, PcK (f a)) : PcK (m >>= f) := by
  intro s b s' e
  change StateT.bind m f s = _ at e
  unfold StateT.bind at e
  cases hms : m s with
  | error x => rw [hms] at e; cases e
  | ok y =>
    obtain ⟨a, s1⟩ := y
    rw [hms] at e
    exact (hf a s1 b s' e).trans (hm s a s1 hms)

theorem PcK.pure {α} (a : α) : PcK (Pure.pure a : M α) := by
  intro s b s' e; cases e; rfl

theorem PcK.ite {α} {c : Prop} [Decidable c] {a b : M α} (ha : PcK a) (hb : PcK b) : PcK (if c then a else b) := by
  split <;> assumption

theorem getNode_pck (id : Nat) : PcK (getNode id) := by
  intro s a s' e; unfold getNode at e; cases e; rfl

theorem modNode_pck (id : Nat) (f : Node → Node) : PcK (modNode id f) := by
  intro s a s' e; unfold modNode at e; cases e; rfl

theorem removeChild_pck (q c : Nat) : PcK (removeChild q c) := by
  unfold removeChild
  refine PcK.bind (getNode_pck c) (fun cn => PcK.ite (PcK.pure _) ?_)
  exact PcK.bind (modNode_pck _ _) (fun _ => modNode_pck _ _)

theorem ensureIsolated_pck (c : Nat) : PcK (ensureIsolated c) := by
  unfold ensureIsolated
  refine PcK.bind (getNode_pck c) (fun cn => ?_)
  split
  · exact removeChild_pck _ _
  · exact PcK.pure _

theorem appendChild_pck (q c : Nat) : PcK (appendChild q c) := by
  unfold appendChild
  exact PcK.bind (ensureIsolated_pck c) (fun _ => PcK.bind (modNode_pck _ _) (fun _ => modNode_pck _ _))

/-- `getNode` with the states named -/
theorem getNode_s2' {src k ls p} {sA sB : St} (h : SR src k ls p sA sB) (id : Nat) :
    S2 (fun a b sA' sB' => NodeRel src (id == 0) a b ∧ sA' = sA ∧ sB' = sB) (getNode id sA) (getNode (id + 1) sB) := by
  unfold getNode
  exact S2.ok ⟨h.n.node id, rfl, rfl⟩

/-- an A-side run that is an error -/
theorem S2.errL {α β} {Q : α → β → St → St → Prop} {x : Except Panic (α × St)} {y : Except Panic (β × St)} {e : Panic}
    (h : x = .error e) : S2 Q x y := by
  intro a sA h'; rw [h] at h'; cases h'

theorem throw_bind_err {α β} (e : Panic) (f : α → M β) (s : St) : ((throw e : M α) >>= f) s = .error e := rfl

/-! ### closeBlocks -/

theorem blockAt_q (l : List Block) (i : Int) (b : Block) (h : blockAt l i = .ok b) :
    blockAt (bqBlock :: l.map shB) (i + 1) = .ok (shB b) ∧ b ∈ l ∧ 0 ≤ i := by
  unfold blockAt at h ⊢
  by_cases hi : i < 0
  · rw [if_pos hi] at h; cases h
  · rw [if_neg hi] at h
    rw [if_neg (by omega)]
    have e : (i + 1).toNat = i.toNat + 1 := by omega
    rw [e]
    cases hg : l[i.toNat]? with
    | none => rw [hg] at h; cases h
    | some b0 =>
      rw [hg] at h; cases h
      simp only [List.getElem?_cons_succ, List.getElem?_map, hg, Option.map_some]
      exact ⟨trivial, List.mem_of_getElem? hg, by omega⟩

theorem closeLoop_sim {src al} (ps : PS src al) (fr : Frames al) (l : List Block) (hl : OKB al l) (to : Int) :
    ∀ (n : Nat) {k ls p} {sA sB : St}, SR src k ls p sA sB → AInv al sA.pc sA.nodes → PKL l sA.nodes →
      FEc al sA.nodes sB.nodes →
      S2 (fun _ _ sA' sB' => SR src k ls p sA' sB' ∧ AInv al sA'.pc sA'.nodes ∧ KGn sA.nodes sA'.nodes ∧
          FEc al sA'.nodes sB'.nodes ∧ (al .setext = false → BPn sA.nodes sA'.nodes ∧ BPn sB.nodes sB'.nodes))
        (closeLoop l to n sA) (closeLoop (bqBlock :: l.map shB) (to + 1) n sB) := by
  intro n
  induction n with
  | zero =>
    intro k ls p sA sB h ha _ hfe; unfold closeLoop
    exact S2.pure ⟨h, ha, KGn.refl _, hfe, fun _ => ⟨BPn.refl _, BPn.refl _⟩⟩
  | succ n ih =>
    intro k ls p sA sB h ha hpk hfe
    unfold closeLoop
    refine S2.bind (P := fun a b sA' sB' => b = shB a ∧ a ∈ l ∧ sA' = sA ∧ sB' = sB) (S2.liftE (fun a ha => ?_))
      (fun a b sA1 sB1 hq => ?_)
    · obtain ⟨e, hm, _⟩ := blockAt_q l _ a ha
      refine ⟨shB a, ?_, rfl, hm, rfl, rfl⟩
      rw [show to + 1 + (n : Int) = to + n + 1 by omega]; exact e
    · obtain ⟨hb, hm, e1, e2⟩ := hq
      subst hb
      rw [e1, e2]
      obtain ⟨hal, hn0⟩ := hl a hm
      refine S2.bind (getNode_s2' h a.node) (fun x y sA2 sB2 hq => ?_)
      obtain ⟨hxy, e1, e2⟩ := hq
      rw [e1, e2]
      have hc : (a.node == 0) = false := beq_eq_false_iff_ne.mpr hn0
      rw [hc] at hxy
      have hp := hxy.parent
      simp only [Bool.false_eq_true, if_false] at hp
      have hsome : y.parent.isSome = x.parent.isSome := by rw [hp]; cases x.parent <;> rfl
      simp only [shB]
      rw [hsome]
      by_cases hs : x.parent.isSome = true
      · rw [if_pos hs, if_pos hs]
        have hne : al .setext = false → a.bp ≠ .setext := fun hns e => by rw [e, hns] at hal; cases hal
        refine S2.bind (S2.andR (S2.withFE h hfe (S2.andL (ps.close a.bp hal k ls p a.node sA sB h hn0 ha (fun hbp => hpk.nr hm hbp) hfe)
          (F := fun _ sA' => AInv al sA'.pc sA'.nodes ∧ KGn sA.nodes sA'.nodes ∧ (al .setext = false → BPn sA.nodes sA'.nodes))
          (fun _ sA' e => ⟨fr.close _ _ _ _ _ e hal hn0 ha, fr.closeKG _ _ _ _ _ e hal,
            fun hns => bpn_of_bpClose _ (hne hns) _ e⟩))
          (fun hns _ sA' e => ⟨bpn_of_bpClose _ (hne hns) _ e, chn_of_bpClose _ (hne hns) _ e⟩)
          (fun hns _ sB' e => bpn_of_bpClose _ (hne hns) _ e))
          (G := fun _ sB' => al .setext = false → BPn sB.nodes sB'.nodes)
          (fun _ sB' e hns => bpn_of_bpClose _ (hne hns) _ e))
          (fun _ _ sA3 sB3 h3 => S2.mono (ih h3.1.1.1 h3.1.1.2.1 (hpk.kg h3.1.1.2.2.1) h3.1.2)
            (fun _ _ _ _ hh => ⟨hh.1, hh.2.1, h3.1.1.2.2.1.trans hh.2.2.1, hh.2.2.2.1,
              fun hns => ⟨(h3.1.1.2.2.2 hns).trans (hh.2.2.2.2 hns).1, (h3.2 hns).trans (hh.2.2.2.2 hns).2⟩⟩))
      · rw [if_neg hs, if_neg hs]; exact ih h ha hpk hfe

theorem slice'_q (l : List Block) (a b : Int) (x : List Block) (h : closeBlocks.slice' l a b = .ok x) (ha : a = 0) :
    closeBlocks.slice' (bqBlock :: l.map shB) 0 (b + 1) = .ok (bqBlock :: x.map shB) ∧ (∀ y ∈ x, y ∈ l) := by
  subst ha
  unfold closeBlocks.slice' at h ⊢
  split at h
  · next hc =>
    cases h
    rw [if_pos (by simp only [List.length_cons, List.length_map]; omega)]
    have e : (b + 1 - 0).toNat = (b - 0).toNat + 1 := by omega
    simp only [Int.toNat_zero, List.drop_zero, e, List.take_succ_cons, List.map_take]
    exact ⟨trivial, fun y hy => List.mem_of_mem_take hy⟩
  · cases h

theorem slice'_q2 (l : List Block) (a b : Int) (x : List Block) (h : closeBlocks.slice' l a b = .ok x) :
    closeBlocks.slice' (bqBlock :: l.map shB) (a + 1) (b + 1) = .ok (x.map shB) ∧ (∀ y ∈ x, y ∈ l) := by
  unfold closeBlocks.slice' at h ⊢
  split at h
  · next hc =>
    cases h
    rw [if_pos (by simp only [List.length_cons, List.length_map]; omega)]
    have e : (a + 1).toNat = a.toNat + 1 := by omega
    have e2 : (b + 1 - (a + 1)) = b - a := by omega
    simp only [e, e2, List.drop_succ_cons, List.map_take, List.map_drop]
    exact ⟨trivial, fun y hy => List.mem_of_mem_drop (List.mem_of_mem_take hy)⟩
  · cases h

/-- the driver-level relation inside a line: `SR` plus the invariant on A's opened blocks -/
structure DR (src : Bytes) (al : BP → Bool) (k ls p : Nat) (sA sB : St) : Prop where
  s : SR src k ls p sA sB
  a : AInv al sA.pc sA.nodes
  /-- equal flags on every child but the first of every node but the Document, unless the setext parser is covered -/
  f : FEc al sA.nodes sB.nodes

theorem closeBlocks_tail {src al} {k ls p} {sA0 : St} {sA sB : St} (h3 : SR src k ls p sA sB) (ha : AInv al sA.pc sA.nodes)
    (hf : FEc al sA.nodes sB.nodes)
    (x : List Block) (hm : ∀ z ∈ x, z ∈ sA0.pc.opened) (hok : OKB al sA0.pc.opened) (hpk0 : PKL sA0.pc.opened sA.nodes) :
    S2 (fun _ _ sA' sB' => DR src al k ls p sA' sB' ∧ sA'.nodes = sA.nodes ∧ sB'.nodes = sB.nodes)
      ((modPc fun pc => { pc with opened := x }) sA) ((modPc fun pc => { pc with opened := bqBlock :: x.map shB }) sB) := by
  refine S2.mono (S2.andR (S2.andL (modPc_s2 h3 _ _ (fun a b hab => ?_))
    (F := fun _ sA' => sA' = { sA with pc := { sA.pc with opened := x } })
    (fun a sA' e => ?_)) (G := fun _ sB' => sB'.nodes = sB.nodes) (fun b sB' e => ?_)) (fun _ _ sA' sB' hh => ?_)
  · exact { hab with opened := rfl }
  · unfold modPc at e; cases e; rfl
  · unfold modPc at e; cases e; rfl
  · obtain ⟨⟨hh1, hh2⟩, hh3⟩ := hh
    subst hh2
    exact ⟨⟨hh1, ⟨fun z hz => hok z (hm z hz), ha.tmp, ha.fence, ha.u, ha.nk, hpk0.sub hm, ha.rg⟩,
      by rw [hh3]; exact hf⟩, rfl, hh3⟩

theorem closeBlocks_sim {src al} (ps : PS src al) (fr : Frames al) {k ls p} {sA sB : St} (h : DR src al k ls p sA sB)
    (frm to : Int) :
    S2 (fun _ _ sA' sB' => DR src al k ls p sA' sB' ∧ KGn sA.nodes sA'.nodes ∧
        (al .setext = false → BPn sA.nodes sA'.nodes ∧ BPn sB.nodes sB'.nodes))
      (closeBlocks frm to sA) (closeBlocks (frm + 1) (to + 1) sB) := by
  unfold closeBlocks
  refine S2.bind (getPc_s2 h.s) (fun a b sA1 sB1 hq => ?_)
  obtain ⟨ha, hb, hc, e1, e2⟩ := hq
  subst ha hb
  rw [e1, e2]
  simp only
  rw [hc.opened]
  rw [show frm + 1 - (to + 1) + 1 = frm - to + 1 by omega]
  refine S2.bind (closeLoop_sim ps fr sA.pc.opened h.a.opened to _ h.s h.a h.a.pk h.f) (fun _ _ sA2 sB2 hq => ?_)
  obtain ⟨h2, ha2, hkg2, hx2⟩ := hq
  have e0 : (((bqBlock :: sA.pc.opened.map shB).length : Nat) : Int) = (sA.pc.opened.length : Int) + 1 := by
    simp only [List.length_cons, List.length_map]; omega
  rw [e0]
  have hcond : (frm + 1 == (sA.pc.opened.length : Int) + 1 - 1) = (frm == (sA.pc.opened.length : Int) - 1) :=
    int_beq_congr (by constructor <;> intro _ <;> omega)
  rw [hcond]
  by_cases hf : (frm == (sA.pc.opened.length : Int) - 1) = true
  · rw [if_pos hf, if_pos hf]
    refine S2.bind (P := fun x y sA' sB' => y = bqBlock :: x.map shB ∧ (∀ z ∈ x, z ∈ sA.pc.opened) ∧
      SR src k ls p sA' sB' ∧ AInv al sA'.pc sA'.nodes ∧ KGn sA.nodes sA'.nodes ∧
      FEc al sA'.nodes sB'.nodes ∧ (al .setext = false → BPn sA.nodes sA'.nodes ∧ BPn sB.nodes sB'.nodes))
      (S2.liftE (fun x hx => ?_)) (fun x y sA3 sB3 hq => ?_)
    · obtain ⟨e, hm⟩ := slice'_q _ _ _ x hx rfl
      exact ⟨_, e, rfl, hm, h2, ha2, hkg2, hx2⟩
    · obtain ⟨hy, hm, h3, ha3, hkg3, hx3⟩ := hq
      subst hy
      exact S2.mono (closeBlocks_tail h3 ha3 hx3.1 x hm h.a.opened (h.a.pk.kg hkg3))
        (fun _ _ _ _ hh => ⟨hh.1, by rw [hh.2.1]; exact hkg3, fun hns => by rw [hh.2.1, hh.2.2]; exact hx3.2 hns⟩)
  · rw [if_neg hf, if_neg hf]
    refine S2.bind (P := fun x y sA' sB' => y = bqBlock :: x.map shB ∧ (∀ z ∈ x, z ∈ sA.pc.opened) ∧
        SR src k ls p sA' sB' ∧ AInv al sA'.pc sA'.nodes ∧ KGn sA.nodes sA'.nodes ∧
        FEc al sA'.nodes sB'.nodes ∧ (al .setext = false → BPn sA.nodes sA'.nodes ∧ BPn sB.nodes sB'.nodes))
      (S2.liftE (fun x hx => ?_)) (fun x y sA3 sB3 hq => ?_)
    · obtain ⟨e, hm⟩ := slice'_q _ _ _ x hx rfl
      exact ⟨_, e, rfl, hm, h2, ha2, hkg2, hx2⟩
    · obtain ⟨hy, hm, h3, ha3, hkg3, hx3⟩ := hq
      subst hy
      refine S2.bind (P := fun x' y' sA' sB' => y' = x'.map shB ∧ (∀ z ∈ x', z ∈ sA.pc.opened) ∧
          SR src k ls p sA' sB' ∧ AInv al sA'.pc sA'.nodes ∧ KGn sA.nodes sA'.nodes ∧
          FEc al sA'.nodes sB'.nodes ∧ (al .setext = false → BPn sA.nodes sA'.nodes ∧ BPn sB.nodes sB'.nodes))
        (S2.liftE (fun x' hx' => ?_)) (fun x' y' sA4 sB4 hq => ?_)
      · rw [show frm + 1 + 1 = (frm + 1) + 1 by rfl]
        obtain ⟨e, hm'⟩ := slice'_q2 _ _ _ x' hx'
        exact ⟨_, e, rfl, hm', h3, ha3, hkg3, hx3⟩
      · obtain ⟨hy', hm', h4, ha4, hkg4, hx4⟩ := hq
        subst hy'
        refine S2.bind (P := fun x'' y'' sA' sB' => y'' = bqBlock :: x''.map shB ∧ (∀ z ∈ x'', z ∈ sA.pc.opened) ∧
          SR src k ls p sA' sB' ∧ AInv al sA'.pc sA'.nodes ∧ KGn sA.nodes sA'.nodes ∧
          FEc al sA'.nodes sB'.nodes ∧ (al .setext = false → BPn sA.nodes sA'.nodes ∧ BPn sB.nodes sB'.nodes))
          (S2.pure ⟨by simp, fun z hz => ?_, h4, ha4, hkg4, hx4⟩) (fun x'' y'' sA5 sB5 hq => ?_)
        · rcases List.mem_append.mp hz with hz | hz
          · exact hm z hz
          · exact hm' z hz
        · obtain ⟨hy'', hm'', h5, ha5, hkg5, hx5⟩ := hq
          subst hy''
          exact S2.mono (closeBlocks_tail h5 ha5 hx5.1 x'' hm'' h.a.opened (h.a.pk.kg hkg5))
            (fun _ _ _ _ hh => ⟨hh.1, by rw [hh.2.1]; exact hkg5, fun hns => by rw [hh.2.1, hh.2.2]; exact hx5.2 hns⟩)

/-! ### openBlocks: the loop over the candidate parsers -/

/-- the last opened block as A and B remember it, and what A knows about it -/
structure LR (al : BP → Bool) (a b : Option Block) : Prop where
  rel : LastRel a b
  ok : ∀ x, a = some x → al x.bp = true ∧ x.node ≠ 0

theorem LR.of_ctx {al} {pa pb : Ctx} {n : List Node} (hc : CtxRel pa pb) (ha : AInv al pa n) : LR al pa.opened.getLast? pb.opened.getLast? :=
  ⟨hc.last, fun x hx => ha.opened x (List.mem_of_getLast? hx)⟩

def OutRel : TryOutcome → TryOutcome → Prop
  | .retry q, .retry q' => q' = q + 1
  | .done, .done => True
  | _, _ => False

/-- the last-block VARIABLE of openBlocks (only read when the last block is a paragraph, and then it is there) -/
def LRw (al : BP → Bool) (a b : Option Block) : Prop := a = none ∨ LR al a b

/-- the `result` variables of the two runs: equal, except that on B's very first line the Blockquote has already
    been opened (`newBlocksOpened`) while A has opened nothing yet; `result` is then only read through
    `continuable && result == noBlocksOpened`, with `continuable = false` -/
def RRes (cont : Bool) (ra rb : OpenResult) : Prop := rb = ra ∨ (cont = false ∧ rb = .newBlocksOpened)

theorem RRes.cond {cont ra rb} (h : RRes cont ra rb) (x : Bool) :
    (cont && rb == OpenResult.noBlocksOpened && x) = (cont && ra == OpenResult.noBlocksOpened && x) := by
  rcases h with h | ⟨h, _⟩
  · rw [h]
  · rw [h]; rfl

theorem RRes.cond' {cont ra rb} (h : RRes cont ra rb) :
    (rb == OpenResult.noBlocksOpened && cont) = (ra == OpenResult.noBlocksOpened && cont) := by
  rcases h with h | ⟨h, _⟩
  · rw [h]
  · rw [h]; simp

/-- the result triple of `tryParsers` -/
def TryRel (al : BP → Bool) (cont : Bool) (a b : TryOutcome × OpenResult × Option Block) : Prop :=
  OutRel a.1 b.1 ∧ RRes cont a.2.1 b.2.1 ∧ LRw al a.2.2 b.2.2 ∧ (a.1 ≠ .done → a.2.1 = .newBlocksOpened ∧ b.2.1 = .newBlocksOpened)

/-- parser.go:1008-1013: append the node, push the block -/
def tpTail2 (q node : Nat) (bp : BP) (state : PState) (lastBlock : Option Block) :
    M (TryOutcome × OpenResult × Option Block) := do
  appendChild q node
  modPc fun pc => { pc with opened := pc.opened ++ [{ node := node, bp := bp }] }
  if state.hasChildren = true then pure (TryOutcome.retry node, OpenResult.newBlocksOpened, lastBlock)
  else pure (TryOutcome.done, OpenResult.newBlocksOpened, lastBlock)

theorem tpTail2_sim {src al} {cont : Bool} {k ls p} {sA sB : St} (h : DR src al k ls p sA sB) (q node : Nat) (hn0 : node ≠ 0)
    (bp : BP) (hal : al bp = true) (state : PState) {lbA lbB : Option Block} (hl : LR al lbA lbB)
    (hnew : NRn bp node sA.nodes) (hq : q < sA.nodes.length) (hun : Unref node sA.nodes) (hqn : q ≠ node)
    (hap : al .setext = false → (FlagEqAt sA.nodes sB.nodes node ∨ q = 0 ∨ QE q sA)) :
    S2 (fun a b sA' sB' => (TryRel al cont a b ∧ a.2.1 = .newBlocksOpened ∧ b.2.1 = .newBlocksOpened) ∧ DR src al k ls p sA' sB' ∧
        (∀ qa, a.1 = .retry qa → qa < sA'.nodes.length ∧ QE qa sA') ∧ sA.nodes.length ≤ sA'.nodes.length)
      (tpTail2 q node bp state lbA sA) (tpTail2 (q + 1) (node + 1) bp state lbB sB) := by
  unfold tpTail2
  refine S2.bind (S2.andR (S2.andL (appendChild_s2 h.s q node hn0)
    (F := fun _ sA' => sA'.pc = sA.pc ∧ UStoreL sA'.nodes ∧ NK al sA'.nodes ∧ KGn sA.nodes sA'.nodes ∧
      RStore sA'.nodes ∧ BPn sA.nodes sA'.nodes ∧ CHA q node sA.nodes sA'.nodes ∧ QE node sA')
    (fun a sA' e => ⟨appendChild_pck q node sA a sA' e, usL_appendChild q node hn0 sA a sA' h.a.u e,
      (fun hl0 n hn => ((us_appendChild q node hn0 sA a sA' (h.a.us hl0) e).node n hn).kind),
      kgn_of_keeps (fun n0 => kg_appendChild n0 q node) e,
      rs_appendChild q node h.a.rg hq hun.1 e, bpn_appendChild q node e, cha_appendChild q node e,
      qe_appendChild node q node hqn sA a sA' (qe_of_unref hun) e⟩))
    (G := fun _ sB' => BPs sB.nodes sB'.nodes) (fun _ sB' e => (bps_appendChild _ _ e).1)) (fun _ _ sA1 sB1 hq' => ?_)
  obtain ⟨⟨h1, hpc1, hu1, hnk1, hkg1, hrg1, hbp1, hcha1, hqe1⟩, hbB1⟩ := hq'
  have hf1 : FEc al sA1.nodes sB1.nodes := fun hns => fe_append (h.f hns) (bps_of_bpn hbp1) hbB1 hcha1 (hap hns)
  refine S2.bind (S2.andR (S2.andL (modPc_s2 h1 _ _ (fun a b hab => ?_))
    (F := fun _ sA' => sA' = { sA1 with pc := { sA1.pc with opened := sA1.pc.opened ++ [{ node := node, bp := bp }] } })
    (fun a sA' e => ?_)) (G := fun _ sB' => sB'.nodes = sB1.nodes) (fun _ sB' e => by unfold modPc at e; cases e; rfl))
    (fun _ _ sA2 sB2 hq' => ?_)
  · exact { hab with opened := by simp [hab.opened, shB] }
  · unfold modPc at e; cases e; rfl
  · obtain ⟨⟨h2, hpc2⟩, hnB2⟩ := hq'
    have hn2 : sA2.nodes = sA1.nodes := by rw [hpc2]
    have ha2 : AInv al sA2.pc sA2.nodes := by
      rw [hpc2]
      simp only
      rw [hpc1]
      refine ⟨fun z hz => ?_, h.a.tmp, h.a.fence, hu1, hnk1, (h.a.pk.kg hkg1).push (hnew.kg hkg1), hrg1⟩
      rcases List.mem_append.mp hz with hz | hz
      · exact h.a.opened z hz
      · simp only [List.mem_singleton] at hz; subst hz; exact ⟨hal, hn0⟩
    have hd2 : DR src al k ls p sA2 sB2 := ⟨h2, ha2, by rw [hn2, hnB2]; exact hf1⟩
    have hlt2 : node < sA2.nodes.length := by rw [hn2]; exact Nat.lt_of_lt_of_le hun.1 hbp1.1
    have hqe2 : QE node sA2 := by
      show (sA2.nodes.getD node default).children = []
      rw [hn2]; exact hqe1
    have hlen : sA.nodes.length ≤ sA2.nodes.length := by rw [hn2]; exact hbp1.1
    by_cases hc : state.hasChildren = true
    · rw [if_pos hc, if_pos hc]
      exact S2.pure ⟨⟨⟨rfl, .inl rfl, .inr hl, fun _ => ⟨rfl, rfl⟩⟩, rfl, rfl⟩, hd2,
        fun qa e => by cases e; exact ⟨hlt2, hqe2⟩, hlen⟩
    · rw [if_neg hc, if_neg hc]
      exact S2.pure ⟨⟨⟨trivial, .inl rfl, .inr hl, fun _ => ⟨rfl, rfl⟩⟩, rfl, rfl⟩, hd2,
        fun qa e => (by cases e), hlen⟩

/-- parser.go:1001-1007: the blank flag, closing a detached last block -/
def tpTail1 (b : Bool) (q node : Nat) (bp : BP) (state : PState) (lastBlock : Option Block) :
    M (TryOutcome × OpenResult × Option Block) := do
  modNode node fun n => { n with blankPrev := b }
  match Option.map (fun x => x.node) lastBlock with
  | some l => do
    let nd ← getNode l
    if nd.parent.isNone = true then do
      let pc ← getPc
      let r ← closeBlocks ((pc.opened.length : Int) - 1) ((pc.opened.length : Int) - 1)
      (fun _ => tpTail2 q node bp state lastBlock) r
    else tpTail2 q node bp state lastBlock
  | none => tpTail2 q node bp state lastBlock

theorem tpTail1_sim {src al} {cont : Bool} (ps : PS src al) (fr : Frames al) {k ls p} {sA sB : St} (h : DR src al k ls p sA sB)
    (bA bB : Bool) (hbf : FL src → bB = bA) (q node : Nat) (hn0 : node ≠ 0) (bp : BP) (hal : al bp = true) (state : PState)
    {lbA lbB : Option Block} (hl : LR al lbA lbB) (hnew : NRn bp node sA.nodes)
    (hq : q < sA.nodes.length) (hun : Unref node sA.nodes) (hqn : q ≠ node)
    (hbq : al .setext = false → (bB = bA ∨ q = 0 ∨ QE q sA)) :
    S2 (fun a b sA' sB' => (TryRel al cont a b ∧ a.2.1 = .newBlocksOpened ∧ b.2.1 = .newBlocksOpened) ∧ DR src al k ls p sA' sB' ∧
        (∀ qa, a.1 = .retry qa → qa < sA'.nodes.length ∧ QE qa sA') ∧ sA.nodes.length ≤ sA'.nodes.length)
      (tpTail1 bA q node bp state lbA sA) (tpTail1 bB (q + 1) (node + 1) bp state lbB sB) := by
  unfold tpTail1
  have hltB : node + 1 < sB.nodes.length := by
    have := h.s.n.len; have := hun.1; omega
  refine S2.bind (S2.andR (S2.andL (modNode_s2 h.s node _ _ (fun a b hab => ?_))
    (F := fun _ sA' => sA'.pc = sA.pc ∧ UStoreL sA'.nodes ∧ NK al sA'.nodes ∧ KGn sA.nodes sA'.nodes ∧
      RSU node sA' ∧ MF node bA sA.nodes sA'.nodes ∧ (QE q sA → QE q sA') ∧ sA'.nodes.length = sA.nodes.length)
    (fun a sA' e => ⟨modNode_pck _ _ sA a sA' e,
      usL_modNode node (fun n => { n with blankPrev := bA }) (fun n hn => ⟨hn.kids⟩) (fun _ _ => rfl) sA a sA' h.a.u e,
      (fun hl0 n hn => ((us_modNode node (fun n => { n with blankPrev := bA }) (fun n hn => ⟨hn.kind, hn.kids⟩) (fun _ _ => rfl)
        sA a sA' (h.a.us hl0) e).node n hn).kind),
      kgn_of_keeps (fun n0 => kgi_modNode n0 node (fun n => { n with blankPrev := bA }) (fun _ => rfl)) e,
      rsu_modNode node node (fun n => { n with blankPrev := bA }) (fun _ => ⟨rfl, rfl⟩) sA a sA' ⟨h.a.rg, hun⟩ e,
      mf_modNode node bA hun.1 e,
      (fun hqe => qe_modNode q node (fun n => { n with blankPrev := bA }) (fun _ _ hn => hn) sA a sA' hqe e),
      modNode_len e⟩))
    (G := fun _ sB' => MF (node + 1) bB sB.nodes sB'.nodes) (fun _ sB' e => mf_modNode (node + 1) bB hltB e))
    (fun _ _ sA1 sB1 hq' => ?_)
  · exact { hab with blank := (fun hfl _ => hbf hfl) }
  obtain ⟨⟨h1, hpc1, hu1, hnk1, hkg1, hrsu1, hmfA, hqe1, hlen1⟩, hmfB⟩ := hq'
  have hf1 : FEc al sA1.nodes sB1.nodes :=
    fun hns => fe_setFlag (h.f hns) hmfA hmfB (.inr (fun q' => unref_not_child hun q'))
  have hd1 : DR src al k ls p sA1 sB1 :=
    ⟨h1, by rw [hpc1]; exact ⟨h.a.opened, h.a.tmp, h.a.fence, hu1, hnk1, h.a.pk.kg hkg1, hrsu1.1⟩, hf1⟩
  have hnew1 : NRn bp node sA1.nodes := hnew.kg hkg1
  have hq1 : q < sA1.nodes.length := by rw [hlen1]; exact hq
  have hun1 : Unref node sA1.nodes := hrsu1.2
  have hap1 : al .setext = false → (FlagEqAt sA1.nodes sB1.nodes node ∨ q = 0 ∨ QE q sA1) := fun hns => by
    rcases hbq hns with e | e | e
    · refine .inl ?_
      show (sB1.nodes.getD (node + 1) default).blankPrev = (sA1.nodes.getD node default).blankPrev
      rw [hmfA.2.2, hmfB.2.2, e]
    · exact .inr (.inl e)
    · exact .inr (.inr (hqe1 e))
  have fin : ∀ {a b : TryOutcome × OpenResult × Option Block} {sA' sB' : St},
      ((TryRel al cont a b ∧ a.2.1 = .newBlocksOpened ∧ b.2.1 = .newBlocksOpened) ∧ DR src al k ls p sA' sB' ∧
        (∀ qa, a.1 = .retry qa → qa < sA'.nodes.length ∧ QE qa sA') ∧ sA1.nodes.length ≤ sA'.nodes.length) →
      ((TryRel al cont a b ∧ a.2.1 = .newBlocksOpened ∧ b.2.1 = .newBlocksOpened) ∧ DR src al k ls p sA' sB' ∧
        (∀ qa, a.1 = .retry qa → qa < sA'.nodes.length ∧ QE qa sA') ∧ sA.nodes.length ≤ sA'.nodes.length) :=
    fun hh => ⟨hh.1, hh.2.1, hh.2.2.1, by rw [← hlen1]; exact hh.2.2.2⟩
  rcases hl.rel with ⟨e1, e2⟩ | ⟨x, e1, e2⟩
  · subst e1 e2
    simp only [Option.map_none, Option.map_some, bqBlock]
    -- B looks at its Blockquote (node 1), whose parent is the Document
    have hroot := h1.n.node 0
    have hp := hroot.parent
    simp only [beq_self_eq_true, if_true] at hp
    have e : getNode 1 sB1 = .ok (sB1.nodes.getD 1 default, sB1) := rfl
    refine S2.bindR e ?_
    have hnone : (sB1.nodes.getD 1 default).parent.isNone = false := by
      have : (sB1.nodes.getD (0 + 1) default).parent = some 0 := hp.1
      simp only [Nat.zero_add] at this
      rw [this]; rfl
    rw [hnone]
    simp only [Bool.false_eq_true, if_false]
    exact S2.mono (tpTail2_sim hd1 q node hn0 bp hal state hl hnew1 hq1 hun1 hqn hap1) (fun _ _ _ _ hh => fin hh)
  · subst e1 e2
    obtain ⟨_, hx0⟩ := hl.ok x rfl
    simp only [Option.map_some, shB]
    refine S2.bind (getNode_s2' h1 x.node) (fun a b sA2 sB2 hq => ?_)
    obtain ⟨hab, e1, e2⟩ := hq
    rw [e1, e2]
    have hc : (x.node == 0) = false := beq_eq_false_iff_ne.mpr hx0
    rw [hc] at hab
    have hp := hab.parent
    simp only [Bool.false_eq_true, if_false] at hp
    have hnone : b.parent.isNone = a.parent.isNone := by rw [hp]; cases a.parent <;> rfl
    rw [hnone]
    by_cases hcn : a.parent.isNone = true
    · rw [if_pos hcn, if_pos hcn]
      refine S2.bind (getPc_s2 h1) (fun pa pb sA3 sB3 hq => ?_)
      obtain ⟨ea, eb, hcr, e1, e2⟩ := hq
      subst ea eb
      rw [e1, e2]
      have elen : ((sB1.pc.opened.length : Nat) : Int) - 1 = ((sA1.pc.opened.length : Int) - 1) + 1 := by
        rw [hcr.opened]; simp only [List.length_cons, List.length_map]; omega
      rw [elen]
      have hnos : al .setext = false → ∀ b ∈ sA1.pc.opened, b.bp ≠ .setext := fun hns b hb e => by
        have := (h.a.opened b (hpc1 ▸ hb)).1
        rw [e, hns] at this; cases this
      refine S2.bind (S2.andL (closeBlocks_sim ps fr hd1 _ _)
        (F := fun _ sA' => Unref node sA'.nodes ∧ (al .setext = false → QE q sA1 → QE q sA'))
        (fun _ sA' e => ⟨(rsu_closeBlocks node _ _ sA1 _ sA' hrsu1 e).2,
          fun hns hqe => qe_closeBlocks q _ _ (hnos hns) hqe e⟩)) (fun _ _ sA4 sB4 h4 => ?_)
      obtain ⟨⟨hd4, hkg4, hbp4⟩, hun4, hqe4⟩ := h4
      have hap4 : al .setext = false → (FlagEqAt sA4.nodes sB4.nodes node ∨ q = 0 ∨ QE q sA4) := fun hns => by
        rcases hap1 hns with e | e | e
        · refine .inl ?_
          show (sB4.nodes.getD (node + 1) default).blankPrev = (sA4.nodes.getD node default).blankPrev
          have hltB1 : node + 1 < sB1.nodes.length := by
            have := h1.n.len; have := hun1.1; omega
          rw [(hbp4 hns).1.2.1 node hun1.1, (hbp4 hns).2.2.1 (node + 1) hltB1]
          exact e
        · exact .inr (.inl e)
        · exact .inr (.inr (hqe4 hns e))
      exact S2.mono (tpTail2_sim hd4 q node hn0 bp hal state hl (hnew1.kg hkg4)
          (Nat.lt_of_lt_of_le hq1 hkg4.1) hun4 hqn hap4)
        (fun _ _ _ _ hh => fin ⟨hh.1, hh.2.1, hh.2.2.1, Nat.le_trans hkg4.1 hh.2.2.2⟩)
    · rw [if_neg hcn, if_neg hcn]
      exact S2.mono (tpTail2_sim hd1 q node hn0 bp hal state hl hnew1 hq1 hun1 hqn hap1) (fun _ _ _ _ hh => fin hh)

theorem nat_beq_congr {a b c d : Nat} (h : a = b ↔ c = d) : (a == b) = (c == d) := by
  by_cases h1 : a = b
  · have h2 := h.mp h1; rw [h1, h2, beq_self_eq_true, beq_self_eq_true]
  · have h2 : ¬ c = d := fun e => h1 (h.mpr e)
    rw [beq_eq_false_iff_ne.mpr h1, beq_eq_false_iff_ne.mpr h2]

theorem opt_beq_succ (x : Nat) (o : Option Nat) : (some (x + 1) == o.map (· + 1)) = (some x == o) := by
  cases o with
  | none => rfl
  | some y =>
    simp only [Option.map_some, Option.some_beq_some]
    exact nat_beq_congr (by constructor <;> intro _ <;> omega)

theorem dropLast_q (l : List Block) (h : l ≠ []) :
    (bqBlock :: l.map shB).dropLast = bqBlock :: l.dropLast.map shB := by
  rw [List.dropLast_cons_of_ne_nil (by simpa using h), List.map_dropLast]

/-- parser.go:984-999, after `lastBlock.Parser.Close`: pop the paragraph, check its type -/
def tpReqJp (b : Bool) (q node : Nat) (bp : BP) (state : PState) (lastBlock : Option Block) (blocks : List Block)
    (lb : Block) : M (TryOutcome × OpenResult × Option Block) := do
  modPc fun pc => { pc with opened := blocks.dropLast }
  let nd ← getNode lb.node
  if (nd.kind != Kind.paragraph) = true then do
    let r ← (throw Panic.assert : M Unit)
    (fun _ => tpTail1 b q node bp state lastBlock) r
  else tpTail1 b q node bp state lastBlock

theorem tpReqJp_sim {src al} {cont : Bool} (ps : PS src al) (fr : Frames al) {k ls p} {sA sB : St} (h : DR src al k ls p sA sB)
    (bA bB : Bool) (hbf : FL src → bB = bA) (q node : Nat) (hn0 : node ≠ 0) (bp : BP) (hal : al bp = true) (state : PState)
    {lbA lbB : Option Block} (hl : LR al lbA lbB) (blocks : List Block) (hb : blocks ≠ []) (hbo : OKB al blocks)
    (lb : Block) (hlb : lb.node ≠ 0) (hnew : NRn bp node sA.nodes) (hbpk : PKL blocks sA.nodes)
    (hq : q < sA.nodes.length) (hun : Unref node sA.nodes) (hqn : q ≠ node)
    (hbq : al .setext = false → (bB = bA ∨ q = 0 ∨ QE q sA)) :
    S2 (fun a b sA' sB' => (TryRel al cont a b ∧ a.2.1 = .newBlocksOpened ∧ b.2.1 = .newBlocksOpened) ∧ DR src al k ls p sA' sB' ∧
        (∀ qa, a.1 = .retry qa → qa < sA'.nodes.length ∧ QE qa sA') ∧ sA.nodes.length ≤ sA'.nodes.length)
      (tpReqJp bA q node bp state lbA blocks lb sA)
      (tpReqJp bB (q + 1) (node + 1) bp state lbB (bqBlock :: blocks.map shB) (shB lb) sB) := by
  unfold tpReqJp
  refine S2.bind (S2.andR (S2.andL (modPc_s2 h.s _ _ (fun a b hab => ?_))
    (F := fun _ sA' => sA' = { sA with pc := { sA.pc with opened := blocks.dropLast } })
    (fun a sA' e => ?_)) (G := fun _ sB' => sB'.nodes = sB.nodes) (fun _ sB' e => by unfold modPc at e; cases e; rfl))
    (fun _ _ sA2 sB2 hq' => ?_)
  · exact { hab with opened := dropLast_q blocks hb }
  · unfold modPc at e; cases e; rfl
  · obtain ⟨⟨h2, hpc2⟩, hnB2⟩ := hq'
    subst hpc2
    have hd2 : DR src al k ls p { sA with pc := { sA.pc with opened := blocks.dropLast } } sB2 := by
      refine ⟨h2, ?_, by rw [hnB2]; exact h.f⟩
      exact ⟨fun z hz => hbo z (List.dropLast_subset _ hz), h.a.tmp, h.a.fence, h.a.u, h.a.nk,
        hbpk.sub (fun z hz => List.dropLast_subset _ hz), h.a.rg⟩
    simp only [shB]
    refine S2.bind (getNode_s2' h2 lb.node) (fun a b sA3 sB3 hq => ?_)
    obtain ⟨hab, e1, e2⟩ := hq
    rw [e1, e2]
    have hc : (lb.node == 0) = false := beq_eq_false_iff_ne.mpr hlb
    rw [hc] at hab
    have hk := hab.kind
    simp only [Bool.false_eq_true, if_false] at hk
    rw [hk]
    by_cases hkp : (a.kind != Kind.paragraph) = true
    · rw [if_pos hkp, if_pos hkp]
      exact S2.errL (throw_bind_err _ _ _)
    · rw [if_neg hkp, if_neg hkp]
      exact tpTail1_sim ps fr hd2 bA bB hbf q node hn0 bp hal state hl hnew hq hun hqn hbq

theorem tryParsers_sim {src al} (ps : PS src al) (fr : Frames al) (ot : OT src) (bA bB cont : Bool) (hbf : FL src → bB = bA)
    (w : Int) (q : Nat) :
    ∀ (bps : List BP), (∀ bp ∈ bps, al bp = true ∨ (bp.notList = false ∧ al .list = false ∧ NoItem src) ∨
        (bp = .setext ∧ al .setext = false ∧ NoBar src)) → ∀ (result resultB : OpenResult) (lbA lbB : Option Block)
      {k ls p : Nat} {sA sB : St}, DR src al k ls p sA sB → LRw al lbA lbB → RRes cont result resultB →
      HC cont result lbA sA → q < sA.nodes.length → (al .setext = false → (bB = bA ∨ q = 0 ∨ QE q sA)) →
      S2 (fun a b sA' sB' => TryRel al cont a b ∧ (resultB = result → b.2.1 = a.2.1) ∧ (∃ p', DR src al k ls p' sA' sB') ∧
          TPU src ls p cont w bps result a.2.1 ∧ HC cont a.2.1 a.2.2 sA' ∧
          (∀ qa, a.1 = .retry qa → qa < sA'.nodes.length ∧ QE qa sA') ∧ sA.nodes.length ≤ sA'.nodes.length)
        (tryParsers q bA cont w bps result lbA sA) (tryParsers (q + 1) bB cont w bps resultB lbB sB) := by
  intro bps
  induction bps with
  | nil =>
    intro _ result resultB lbA lbB k ls p sA sB h hl hres hcl hq hbq
    unfold tryParsers
    refine S2.pure ⟨⟨trivial, hres, hl, fun hh => absurd rfl hh⟩, fun e => e, ⟨p, h⟩, ⟨.inl rfl, ?_⟩, hcl,
      fun qa e => (by cases e), Nat.le_refl _⟩
    intro _ _ _ h1 h2
    by_cases hw : w ≤ 3
    · exact absurd (h1 hw) (by simp)
    · exact absurd (h2 (by omega)).1 (by simp)
  | cons bp bps ih =>
    intro hbps result resultB lbA lbB k ls p sA sB h hl hres hcl hq hbq
    have ih' := ih (fun b hb => hbps b (by simp [hb]))
    unfold tryParsers
    rw [hres.cond]
    by_cases hs1 : (cont && result == OpenResult.noBlocksOpened && !bp.canInterruptParagraph) = true
    · rw [if_pos hs1, if_pos hs1]
      refine S2.mono (ih' result resultB lbA lbB h hl hres hcl hq hbq)
        (fun _ _ _ _ hh => ⟨hh.1, hh.2.1, hh.2.2.1, ⟨hh.2.2.2.1.1, ?_⟩, hh.2.2.2.2⟩)
      intro hc; rw [hc] at hs1; simp at hs1
    rw [if_neg hs1, if_neg hs1]
    by_cases hs2 : (decide (w > 3) && !bp.canAcceptIndentedLine) = true
    · rw [if_pos hs2, if_pos hs2]
      refine S2.mono (ih' result resultB lbA lbB h hl hres hcl hq hbq)
        (fun _ _ _ _ hh => ⟨hh.1, hh.2.1, hh.2.2.1, ⟨hh.2.2.2.1.1, ?_⟩, hh.2.2.2.2⟩)
      intro hc hr hnb h1 h2
      simp only [Bool.and_eq_true, decide_eq_true_eq, Bool.not_eq_true'] at hs2
      refine hh.2.2.2.1.2 hc hr hnb (fun hw => by omega) (fun hw => ?_)
      obtain ⟨hm, hlo⟩ := h2 hw
      refine ⟨?_, hlo⟩
      rcases List.mem_cons.mp hm with e | e
      · rw [← e] at hs2; exact absurd hs2.2 (by decide)
      · exact e
    rw [if_neg hs2, if_neg hs2]
    refine S2.bind (lastOpenedBlock_s2 h.s) (fun lA lB sA1 sB1 hq => ?_)
    obtain ⟨hlr, hlA, e1, e2⟩ := hq
    rw [e1, e2]
    have hl' : LR al lA lB := ⟨hlr, fun x hx => h.a.opened x (List.mem_of_getLast? (hlA ▸ hx))⟩
    have hopen : S2 (fun a b sA' sB' => (OpenRel a b ∧ ∃ p', p ≤ p' ∧ SR src k ls p' sA' sB') ∧
        (AInv al sA'.pc sA'.nodes ∧ (a.2.requirePara = true → sA.pc.opened.getLast? ≠ none) ∧
        (a.1 = none → sA'.r.pos = sA.r.pos) ∧
        (NBV src ls p → (bp = .paragraph → a.1 ≠ none) ∧
          (bp = .code → (∃ lo : Int, 3 < (indentWidthI ((viewA src ls p).getD []) lo).1) → a.1 ≠ none)) ∧
        (∀ id, a.1 = some id → NRn bp id sA'.nodes) ∧ KGn sA.nodes sA'.nodes ∧ sA'.pc.opened = sA.pc.opened ∧
        (a.1 ≠ none → al bp = true)))
        (bpOpen bp q sA) (bpOpen bp (q + 1) sB) := by
      rcases hbps bp (by simp) with hal | hnl | hst
      · exact S2.andL (ps.open_ bp hal k ls p q sA sB h.s)
          (fun a sA' e => ⟨fr.open_ _ _ _ _ _ e hal h.a, fr.req _ _ _ _ _ e, fr.nonePos _ _ _ _ _ e, (fun hnb =>
            ⟨fun hbp => by subst hbp; exact ot.para k ls p q sA sB a sA' h.s hnb e,
             fun hbp hlo => by subst hbp; obtain ⟨lo, hlo⟩ := hlo; exact ot.code k ls p q sA sB a sA' lo h.s hnb hlo e⟩),
            (fun id hid => fr.openNR _ _ _ _ _ id e hid hal), fr.openKG _ _ _ _ _ e hal, bpOpen_opened _ _ _ _ _ e,
            fun _ => hal⟩)
      · obtain ⟨hnl, hl0, hnoi⟩ := hnl
        refine S2.andL (ot.lsim bp hnl k ls p q sA sB h.s) (fun a sA' e => ?_)
        obtain ⟨hn1, hn2⟩ := ot.ldecl bp hnl hnoi k ls p q sA sB a sA' h.s (h.a.us hl0) e
        have ho := bpOpen_opened _ _ _ _ _ e
        refine ⟨⟨by rw [ho]; exact h.a.opened, bpOpen_tmp bp q sA sA' a e (fun b hb => (h.a.opened b hb).2) h.a.tmp,
          bpOpen_fence bp q sA sA' a e h.a.fence, by rw [hn2]; exact h.a.u, by rw [hn2]; exact h.a.nk, by rw [ho, hn2]; exact h.a.pk,
          by rw [hn2]; exact h.a.rg⟩,
          fr.req _ _ _ _ _ e, fr.nonePos _ _ _ _ _ e,
          (fun _ => ⟨(fun hbp => by subst hbp; cases hnl), (fun hbp _ => by subst hbp; cases hnl)⟩),
          (fun id hid => by rw [hn1] at hid; cases hid),
          KGn.of_eq hn2, ho, (fun hne => absurd hn1 hne)⟩
      · obtain ⟨hbs, _, hnob⟩ := hst
        subst hbs
        refine S2.andL (setextOpen_sim src k ls p q sA sB h.s) (fun a sA' e => ?_)
        obtain ⟨hn1, hn2⟩ := ot.sdecl hnob k ls p q sA sB a sA' h.s e
        have ho := bpOpen_opened _ _ _ _ _ e
        refine ⟨⟨by rw [ho]; exact h.a.opened, bpOpen_tmp .setext q sA sA' a e (fun b hb => (h.a.opened b hb).2) h.a.tmp,
          bpOpen_fence .setext q sA sA' a e h.a.fence, by rw [hn2]; exact h.a.u, by rw [hn2]; exact h.a.nk, by rw [ho, hn2]; exact h.a.pk,
          by rw [hn2]; exact h.a.rg⟩,
          fr.req _ _ _ _ _ e, fr.nonePos _ _ _ _ _ e,
          (fun _ => ⟨(fun hbp => by cases hbp), (fun hbp _ => by cases hbp)⟩),
          (fun id hid => by rw [hn1] at hid; cases hid),
          KGn.of_eq hn2, ho, (fun hne => absurd hn1 hne)⟩
    refine S2.bind (S2.andL (S2.withFE h.s h.f hopen
        (fun _ _ _ e => ⟨bpn_of_bpOpen bp q e, chn_of_bpOpen bp q e⟩) (fun _ _ _ e => bpn_of_bpOpen bp (q + 1) e))
      (F := fun a sA' => (QE q sA → QE q sA') ∧ (∀ id, a.1 = some id → Unref id sA'.nodes ∧ sA.nodes.length ≤ id))
      (fun a sA' e => ⟨fun hqe => qe_bpOpen q bp q sA a sA' hqe e,
        fun id hid => ⟨unref_bpOpen bp q h.a.rg e id hid, bpOpen_new_id e hid⟩⟩)) (fun a b sA2 sB2 hq' => ?_)
    obtain ⟨⟨⟨⟨⟨hst, hnode⟩, p', _, h2⟩, ha2, hreq, hnp, hopens, hnrall, hkgo, hopo, hsomeal⟩, hf2⟩, hqe2, hunall⟩ := hq'
    have hd2 : DR src al k ls p' sA2 sB2 := ⟨h2, ha2, hf2⟩
    have hq2 : q < sA2.nodes.length := Nat.lt_of_lt_of_le hq hkgo.1
    have hbq2 : al .setext = false → (bB = bA ∨ q = 0 ∨ QE q sA2) :=
      fun hns => (hbq hns).imp id (Or.imp id hqe2)
    obtain ⟨nodeA, stA⟩ := a
    obtain ⟨nodeB, stB⟩ := b
    simp only at hst hnode hreq hnp hopens hnrall hsomeal hunall ⊢
    subst hst
    rcases hnode with ⟨e1, e2⟩ | ⟨n, hn0, e1, e2⟩
    · subst e1 e2
      have hpp : p' = p := by
        have e1 := h2.r.a.pos
        have e2 := h.s.r.a.pos
        rw [hnp rfl, e2] at e1
        have e3 := congrArg Segment.start e1
        simp only at e3
        omega
      subst hpp
      have hcl2 : HC cont result lA sA2 := by
        intro hc hr
        obtain ⟨e1, e2⟩ := hcl hc hr
        rw [hopo]
        exact ⟨hlA, fun x hx => e2 x (by rw [e1, ← hlA]; exact hx)⟩
      refine S2.mono (ih' result resultB lA lB hd2 (.inr hl') hres hcl2 hq2 hbq2)
        (fun _ _ _ _ hh => ⟨hh.1, hh.2.1, hh.2.2.1, ⟨hh.2.2.2.1.1, ?_⟩, hh.2.2.2.2.1, hh.2.2.2.2.2.1,
          Nat.le_trans hkgo.1 hh.2.2.2.2.2.2⟩)
      intro hc hr hnb h1 h2'
      obtain ⟨ho1, ho2⟩ := hopens hnb
      refine hh.2.2.2.1.2 hc hr hnb (fun hw => ?_) (fun hw => ?_)
      · rcases List.mem_cons.mp (h1 hw) with e | e
        · exact absurd rfl (ho1 e.symm)
        · exact e
      · obtain ⟨hm, lo, hlo⟩ := h2' hw
        refine ⟨?_, lo, hlo⟩
        rcases List.mem_cons.mp hm with e | e
        · exact absurd rfl (ho2 e.symm ⟨lo, by rw [← hlo]; exact hw⟩)
        · exact e
    · subst e1 e2
      simp only
      have hal : al bp = true := hsomeal (by simp)
      have hfin : ∀ r : OpenResult, r = .newBlocksOpened → TPU src ls p cont w (bp :: bps) result r :=
        fun r hr => ⟨.inr hr, fun _ _ _ _ _ => hr⟩
      have hnew2 : NRn bp n sA2.nodes := hnrall n rfl
      obtain ⟨hun2, hge2⟩ := hunall n rfl
      have hqn : q ≠ n := by omega
      by_cases hrq : stB.requirePara = true
      · rw [if_pos hrq, if_pos hrq]
        have hsome := hreq hrq
        rw [← hlA] at hsome
        rcases hlr with ⟨e1, _⟩ | ⟨x, e1, e2⟩
        · exact absurd e1 hsome
        subst e1 e2
        obtain ⟨halx, hx0⟩ := hl'.ok x rfl
        refine S2.bind (getNode_s2' h2 q) (fun na nb sA3 sB3 hq => ?_)
        obtain ⟨hab, e1, e2⟩ := hq
        rw [e1, e2]
        have hcond : (Option.map (fun x => x.node) (some (shB x)) == nb.children.getLast?) =
            (Option.map (fun x => x.node) (some x) == na.children.getLast?) := by
          rw [hab.children, List.getLast?_map]
          simp only [Option.map_some, shB]
          exact opt_beq_succ _ _
        rw [hcond]
        by_cases hc : (Option.map (fun x => x.node) (some x) == na.children.getLast?) = true
        · rw [if_pos hc, if_pos hc]
          simp only [shB]
          have hnex : al .setext = false → x.bp ≠ .setext := fun hns e => by rw [e, hns] at halx; cases halx
          refine S2.bind (S2.withFE h2 hf2 (S2.andL (ps.close x.bp halx k ls p' x.node sA2 sB2 h2 hx0 ha2
              (fun hbp => (h.a.pk.kg hkgo).nr (List.mem_of_getLast? (hlA ▸ rfl)) hbp) hf2)
            (F := fun _ sA' => AInv al sA'.pc sA'.nodes ∧ KGn sA2.nodes sA'.nodes ∧ Unref n sA'.nodes ∧
              (al .setext = false → QE q sA2 → QE q sA'))
            (fun _ sA' e => ⟨fr.close _ _ _ _ _ e halx hx0 ha2, fr.closeKG _ _ _ _ _ e halx,
              unref_bpClose x.bp x.node n ha2.rg hun2 e,
              fun hns hqe => qe_bpClose q x.bp (hnex hns) x.node sA2 _ sA' hqe e⟩))
            (fun hns _ _ e => ⟨bpn_of_bpClose _ (hnex hns) _ e, chn_of_bpClose _ (hnex hns) _ e⟩)
            (fun hns _ _ e => bpn_of_bpClose _ (hnex hns) _ e)) (fun _ _ sA4 sB4 hq' => ?_)
          obtain ⟨⟨h4, ha4, hkg4, hun4, hqe4⟩, hf4⟩ := hq'
          have hq4 : q < sA4.nodes.length := Nat.lt_of_lt_of_le hq2 hkg4.1
          have hbq4 : al .setext = false → (bB = bA ∨ q = 0 ∨ QE q sA4) :=
            fun hns => (hbq2 hns).imp id (Or.imp id (hqe4 hns))
          refine S2.bind (getPc_s2 h4) (fun pa pb sA5 sB5 hq => ?_)
          obtain ⟨ea, eb, hcr, e1, e2⟩ := hq
          subst ea eb
          rw [e1, e2]
          rw [hcr.opened]
          by_cases hlen : (sA4.pc.opened.length == 0) = true
          · rw [if_pos hlen]
            exact S2.errL (throw_bind_err _ _ _)
          · rw [if_neg hlen]
            have hlenB : ((bqBlock :: sA4.pc.opened.map shB).length == 0) = false := by simp
            rw [hlenB]
            simp only [Bool.false_eq_true, if_false]
            have hne : sA4.pc.opened ≠ [] := by
              intro e; apply hlen; rw [e]; rfl
            exact S2.mono (tpReqJp_sim ps fr ⟨h4, ha4, hf4⟩ bA bB hbf q n hn0 bp hal stB hl' sA4.pc.opened hne ha4.opened x hx0
                (hnew2.kg hkg4) ha4.pk hq4 hun4 hqn hbq4)
              (fun _ _ _ _ hh => ⟨hh.1.1, fun _ => by rw [hh.1.2.1, hh.1.2.2], ⟨p', hh.2.1⟩, hfin _ hh.1.2.1, HC.of_new hh.1.2.1,
                hh.2.2.1, Nat.le_trans hkgo.1 (Nat.le_trans hkg4.1 hh.2.2.2)⟩)
        · rw [if_neg hc, if_neg hc]
          exact S2.mono (tpTail1_sim ps fr hd2 bA bB hbf q n hn0 bp hal stB hl' hnew2 hq2 hun2 hqn hbq2)
            (fun _ _ _ _ hh => ⟨hh.1.1, fun _ => by rw [hh.1.2.1, hh.1.2.2], ⟨p', hh.2.1⟩, hfin _ hh.1.2.1, HC.of_new hh.1.2.1,
              hh.2.2.1, Nat.le_trans hkgo.1 hh.2.2.2⟩)
      · rw [if_neg hrq, if_neg hrq]
        exact S2.mono (tpTail1_sim ps fr hd2 bA bB hbf q n hn0 bp hal stB hl' hnew2 hq2 hun2 hqn hbq2)
          (fun _ _ _ _ hh => ⟨hh.1.1, fun _ => by rw [hh.1.2.1, hh.1.2.2], ⟨p', hh.2.1⟩, hfin _ hh.1.2.1, HC.of_new hh.1.2.1,
            hh.2.2.1, Nat.le_trans hkgo.1 hh.2.2.2⟩)

/-! ### the relation with `BlockOffset` / `BlockIndent` left open (they are rewritten by every retry of openBlocks
    before anything reads them) -/

structure CtxRelL (a b : Ctx) : Prop where
  opened : b.opened = bqBlock :: a.opened.map shB
  tmpPara : b.tmpPara = a.tmpPara.map (· + 1)
  fence : b.fence = a.fence.map shF
  skipList : b.skipList = a.skipList
  emptyItemBlank : b.emptyItemBlank = a.emptyItemBlank

theorem CtxRel.loose {a b : Ctx} (h : CtxRel a b) : CtxRelL a b :=
  ⟨h.opened, h.tmpPara, h.fence, h.skipList, h.emptyItemBlank⟩

structure DRL (src : Bytes) (al : BP → Bool) (k ls p : Nat) (sA sB : St) : Prop where
  r : R3 src k ls p sA.r sB.r
  n : StoreRel src sA.nodes sB.nodes
  c : CtxRelL sA.pc sB.pc
  a : AInv al sA.pc sA.nodes
  f : FEc al sA.nodes sB.nodes

theorem DR.loose {src al k ls p sA sB} (h : DR src al k ls p sA sB) : DRL src al k ls p sA sB :=
  ⟨h.s.r, h.s.n, h.s.c.loose, h.a, h.f⟩

theorem CtxRelL.last {a b : Ctx} (h : CtxRelL a b) : LastRel a.opened.getLast? b.opened.getLast? := by
  rw [h.opened]
  cases ho : a.opened.getLast? with
  | none =>
    have : a.opened = [] := List.getLast?_eq_none_iff.mp ho
    rw [this]; exact .inl ⟨rfl, rfl⟩
  | some x =>
    refine .inr ⟨x, rfl, ?_⟩
    rw [List.getLast?_cons, List.getLast?_map, ho]; rfl

theorem peekLine_l {src al k ls p} {sA sB : St} (h : DRL src al k ls p sA sB) :
    S2 (fun a b sA' sB' => a = (viewA src ls p, segA src ls p) ∧ b = (viewA src ls p, shK k (segA src ls p)) ∧
        DRL src al k ls p sA' sB') (peekLine sA) (peekLine sB) := by
  obtain ⟨rA, h1, h2⟩ := ri_peekLine h.r.a
  obtain ⟨rB, h3, h4⟩ := ri_peekLine h.r.b
  unfold GM.Blocks.peekLine
  rw [h1, h3, view_A h.r.inl, view_B h.r.inl, seg_A h.r.inl, seg_B h.r.inl]
  exact S2.ok ⟨rfl, rfl, ⟨⟨h.r.tf, h.r.inl, h2, h4⟩, h.n, h.c, h.a, h.f⟩⟩

theorem lineOffset_l {src al k ls p} {sA sB : St} (h : DRL src al k ls p sA sB) :
    S2 (fun a b sA' sB' => (p < src.length → a = (p : Int) - ls ∧ b = (p : Int) - ls + 2) ∧
        DRL src al k ls p sA' sB') (lineOffset sA) (lineOffset sB) := by
  obtain ⟨vA, rA, h1, h2, h2'⟩ := ri_lineOffset h.r.a
  obtain ⟨vB, rB, h3, h4, h4'⟩ := ri_lineOffset h.r.b
  unfold GM.Blocks.lineOffset
  rw [h1, h3]
  refine S2.ok ⟨fun hp => ?_, ⟨⟨h.r.tf, h.r.inl, h2, h4⟩, h.n, h.c, h.a, h.f⟩⟩
  have hq : p + 2 * (k + 1) < (quotePrefix src).length := by
    have := qp_length_ge h.r.inl.line
    have := h.r.inl.lt_iff.mp hp
    omega
  rw [h2' hp, h4' hq, loVal_A h.r.tf h.r.inl hp, loVal_B h.r.tf h.r.inl hp]
  exact ⟨rfl, rfl⟩

/-- the first thing a retry of openBlocks does: publish the block offset; afterwards the contexts agree on it -/
theorem modPc_l {src al k ls p} {sA sB : St} (h : DRL src al k ls p sA sB) (fA fB : Ctx → Ctx)
    (hf : ∀ a b, CtxRelL a b → CtxRel (fA a) (fB b)) (hk : ∀ a n, AInv al a n → AInv al (fA a) n) :
    S2 (fun _ _ sA' sB' => DR src al k ls p sA' sB') (modPc fA sA) (modPc fB sB) := by
  unfold modPc
  exact S2.ok ⟨⟨h.r, h.n, hf _ _ h.c⟩, hk _ _ h.a, h.f⟩

/-! ### toContinuable -/

theorem toContinuable_sim {src al} (fr : Frames al) (cont : Bool)
    (result resultB : OpenResult) (hres : RRes cont result resultB)
    {lbA lbB : Option Block} (hlw : LRw al lbA lbB) {k ls p} {sA sB : St} (h : DR src al k ls p sA sB)
    (hcl : HC cont result lbA sA) :
    S2 (fun a b sA' sB' => RRes cont a b ∧ (resultB = result → b = a) ∧ ∃ p', DR src al k ls p' sA' sB')
      (toContinuable cont result lbA sA) (toContinuable cont resultB lbB sB) := by
  unfold toContinuable
  rw [hres.cond']
  by_cases hc : (result == OpenResult.noBlocksOpened && cont) = true
  · rw [if_pos hc, if_pos hc]
    have hcont : cont = true := by
      simp only [Bool.and_eq_true] at hc; exact hc.2
    have hrno : result = .noBlocksOpened := by
      simp only [Bool.and_eq_true, beq_iff_eq] at hc; exact hc.1
    have hreq : resultB = result := by
      rcases hres with e | ⟨e, _⟩
      · exact e
      · rw [hcont] at e; cases e
    rcases hlw with e0 | hl
    · subst e0
      exact S2.errL (throw_bind_err _ _ _)
    rcases hl.rel with ⟨e1, e2⟩ | ⟨x, e1, e2⟩
    · subst e1 e2
      exact S2.errL (throw_bind_err _ _ _)
    · subst e1 e2
      obtain ⟨hal, hx0⟩ := hl.ok x rfl
      -- the last opened block is a paragraph block: `paragraphParser.Continue`, whatever is left of the line
      have hbp : x.bp = .paragraph := (hcl hcont hrno).2 x rfl
      simp only [shB]
      rw [hbp]
      refine S2.bind (S2.withFE h.s h.f (S2.andL (paragraphContinue_sim src k ls p x.node sA sB h.s)
        (F := fun _ sA' => AInv al sA'.pc sA'.nodes)
        (fun _ sA' e => fr.cont .paragraph x.node sA _ sA' e (hbp ▸ hal) hx0 h.a))
        (fun _ _ _ e => ⟨bpn_of_bpContinue .paragraph x.node e, chn_of_bpContinue .paragraph x.node e⟩)
        (fun _ _ _ e => bpn_of_bpContinue .paragraph (x.node + 1) e)) (fun a b sA1 sB1 hq => ?_)
      obtain ⟨⟨⟨hab, p', _, h1⟩, ha1⟩, hf1⟩ := hq
      rw [hab]
      by_cases hcc : a.cont = true
      · rw [if_pos hcc, if_pos hcc]; exact S2.pure ⟨.inl rfl, fun _ => rfl, p', h1, ha1, hf1⟩
      · rw [if_neg hcc, if_neg hcc]; exact S2.pure ⟨.inl hreq, fun e => e, p', h1, ha1, hf1⟩
  · rw [if_neg hc, if_neg hc]
    exact S2.pure ⟨hres, fun e => e, p, h⟩

end GM.Blocks
