/-
  GM.Proof.BlocksTNO6 — the line-order / non-blank invariant for the block driver WITH paragraph transformers, EVERY
  source (setext headings included), part 1: `InvG` and the transformer-calling core.

  `InvGF F src B s` = `InvT` of GM.Proof.BlocksTNO1 with "no open setext block" replaced by
    * `ord`: the nodes of the open blocks increase (so a popped paragraph is no other open block's node), and
    * `tl`: while a setext heading block is open, temporaryParagraphKey (if set) points to a node that HAS lines and is no
      open block's node (so no transformer call empties it before `setextHeadingParser.Close` copies its lines);
  and with the bound clause weakened for Heading nodes (`NodeG`: a Heading is never appended to; the node that
  `setextHeadingParser.Open` builds on the underline and that is abandoned when the paragraph is transformed away keeps
  its one line of the current source line).
-/
import GM.Proof.BlocksTNO5

namespace GM.Blocks.TO
open GM GM.Text GM.Spec GM.Proof.Reader
open GM.Proof.BlocksWF0 (isRaw)

/-- `NodeB` without the bound for Heading nodes -/
def NodeG (B : Int) (n : Node) : Prop :=
  isRaw n.kind = false → OrdFrom 0 n.lines ∧ (n.kind ≠ .heading → Below B n.lines) ∧
    ∀ t ∈ n.lines, t.start < t.stop ∧ t.forceNewline = false

theorem NodeB.toG {B : Int} {n : Node} (h : NodeB B n) : NodeG B n := fun hr => ⟨(h hr).1, fun _ => (h hr).2.1, (h hr).2.2⟩

theorem NodeG.mono {B B' : Int} (h : B ≤ B') {n : Node} (hn : NodeG B n) : NodeG B' n :=
  fun hr => ⟨(hn hr).1, fun hk => ((hn hr).2.1 hk).mono h, (hn hr).2.2⟩

structure InvGF (F : Prop) (src : Bytes) (B : Int) (s : St) : Prop where
  nrb : ∀ i, NodeG B (nd s i)
  ord : s.pc.opened.Pairwise (fun a b => a.node < b.node)
  pnb : ∀ i, (nd s i).kind = .paragraph → ∀ t ∈ (nd s i).lines, NonBlankSeg src t
  tmpk : ∀ t, s.pc.tmpPara = some t → (nd s t).kind = .paragraph
  kinds : ∀ b ∈ s.pc.opened, (nd s b.node).kind = b.bp.kind ∧ b.node < s.nodes.length
  nodes : NodesOK src s
  tl : ∀ t, s.pc.tmpPara = some t → (F ∨ ∃ b ∈ s.pc.opened, b.bp = .setext) →
    (nd s t).lines ≠ [] ∧ ∀ b' ∈ s.pc.opened, b'.node ≠ t
  raw : ∀ i, isRaw (nd s i).kind = true → OrdFrom 0 (nd s i).lines ∧ Below B (nd s i).lines

/-- the invariant proper; `InvGF True` (the key is live whether or not a setext block is open) is used between
    `setextHeadingParser.Open` and the push of its block -/
abbrev InvG := InvGF False

variable {F : Prop}

theorem InvGF.mono {src : Bytes} {B B' : Int} {s : St} (h : B ≤ B') (hi : InvGF F src B s) : InvGF F src B' s :=
  ⟨fun i => (hi.nrb i).mono h, hi.ord, hi.pnb, hi.tmpk, hi.kinds, hi.nodes, hi.tl,
    fun i hr => ⟨(hi.raw i hr).1, (hi.raw i hr).2.mono h⟩⟩

/-- the reader does not matter -/
theorem InvGF.congr_r {src : Bytes} {B : Int} {s : St} (hi : InvGF F src B s) (r' : Reader) : InvGF F src B { s with r := r' } :=
  ⟨hi.nrb, hi.ord, hi.pnb, hi.tmpk, hi.kinds, hi.nodes, hi.tl, hi.raw⟩

theorem InvGF.weaken {src : Bytes} {B : Int} {s : St} (hi : InvGF F src B s) : InvG src B s :=
  ⟨hi.nrb, hi.ord, hi.pnb, hi.tmpk, hi.kinds, hi.nodes, fun t ht hm => hi.tl t ht (.inr (hm.resolve_left id)), hi.raw⟩

theorem InvGF.strengthen {src : Bytes} {B : Int} {s : St} (hi : InvGF F src B s)
    (h : ∀ t, s.pc.tmpPara = some t → (nd s t).lines ≠ [] ∧ ∀ b' ∈ s.pc.opened, b'.node ≠ t) : InvGF True src B s :=
  ⟨hi.nrb, hi.ord, hi.pnb, hi.tmpk, hi.kinds, hi.nodes, fun t ht _ => h t ht, hi.raw⟩

/-- of the context only `tmpPara` and `opened` matter; the stack may shrink to a sublist -/
theorem InvGF.congr_pc {src : Bytes} {B : Int} {s : St} (hi : InvGF F src B s) (pc' : Ctx) (ht : pc'.tmpPara = s.pc.tmpPara)
    (ho : pc'.opened.Sublist s.pc.opened) : InvGF F src B { s with pc := pc' } :=
  ⟨hi.nrb, hi.ord.sublist ho, hi.pnb, fun t h => hi.tmpk t (by rw [← ht]; exact h),
    fun b hb => hi.kinds b (ho.subset hb), hi.nodes, fun t h hm => by
      obtain ⟨a1, a2⟩ := hi.tl t (by rw [← ht]; exact h) (hm.imp id (fun ⟨b, hb, hs⟩ => ⟨b, ho.subset hb, hs⟩))
      exact ⟨a1, fun b' hb' => a2 b' (ho.subset hb')⟩, hi.raw⟩

/-- a step that keeps lines, nil flags and kinds of all nodes, the reader and the context -/
theorem InvGF.lk {src : Bytes} {B : Int} {s s' : St} (hi : InvGF F src B s) (h : LK s s') : InvGF F src B s' := by
  refine ⟨fun i hr => ?_, by rw [h.pc]; exact hi.ord, fun i hk => ?_, fun t ht => ?_, fun b hb => ?_, fun n hn => ?_,
    fun t ht hm => ?_, fun i hr => by rw [(h.same i).2.2] at hr; rw [(h.same i).1]; exact hi.raw i hr⟩
  · rw [(h.same i).2.2] at hr; rw [(h.same i).1, (h.same i).2.2]; exact hi.nrb i hr
  · rw [(h.same i).2.2] at hk; rw [(h.same i).1]; exact hi.pnb i hk
  · rw [h.pc] at ht; rw [(h.same t).2.2]; exact hi.tmpk t ht
  · rw [h.pc] at hb; rw [(h.same _).2.2, h.len]; exact hi.kinds b hb
  · obtain ⟨i, _, rfl⟩ := mem_nodes_nd hn
    have := nodeOK_nd hi.nodes i
    exact ⟨by rw [(h.same i).1]; exact this.lines, by rw [(h.same i).1, (h.same i).2.1]; exact this.nil⟩
  · rw [h.pc] at ht hm ⊢; rw [(h.same t).1]; exact hi.tl t ht hm

theorem InvGF.linesAt {src : Bytes} {B : Int} {s s' : St} {X : Nat} {ls : List Segment} (hi : InvGF F src B s)
    (h : LinesAt X ls s s')
    (hb : isRaw (nd s X).kind = false → OrdFrom 0 ls ∧ ((nd s X).kind ≠ .heading → Below B ls) ∧
      ∀ t ∈ ls, t.start < t.stop ∧ t.forceNewline = false)
    (hp : (nd s X).kind = .paragraph → ∀ t ∈ ls, NonBlankSeg src t)
    (hne : (nd s X).kind = .paragraph → (nd s X).lines ≠ [] → ls ≠ []) (hok : LinesOK src ls)
    (hrw : isRaw (nd s X).kind = true → OrdFrom 0 ls ∧ Below B ls) : InvGF F src B s' := by
  refine ⟨fun i hr => ?_, by rw [h.opened]; exact hi.ord, fun i hk => ?_, fun t ht => ?_, fun b hbm => ?_, fun n hn => ?_,
    fun t ht hm => ?_, fun i hr => ?_⟩
  · rw [h.kind i] at hr
    by_cases hx : i = X
    · subst hx; rw [h.lines, h.kind]; exact hb hr
    · rw [(h.other i hx).1, h.kind]; exact hi.nrb i hr
  · rw [h.kind i] at hk
    by_cases hx : i = X
    · subst hx; rw [h.lines]; exact hp hk
    · rw [(h.other i hx).1]; exact hi.pnb i hk
  · rw [h.kind t]; exact hi.tmpk t (h.tmp t ht)
  · rw [h.opened] at hbm; rw [h.kind, h.len]; exact hi.kinds b hbm
  · obtain ⟨i, _, rfl⟩ := mem_nodes_nd hn
    by_cases hx : i = X
    · subst hx; exact ⟨by rw [h.lines]; exact hok, fun hn => by rw [h.lines]; exact h.nil hn⟩
    · have := nodeOK_nd hi.nodes i
      exact ⟨by rw [(h.other i hx).1]; exact this.lines, by rw [(h.other i hx).1, (h.other i hx).2]; exact this.nil⟩
  · rw [h.opened] at hm ⊢
    obtain ⟨a1, a2⟩ := hi.tl t (h.tmp t ht) hm
    refine ⟨?_, a2⟩
    by_cases hx : t = X
    · subst hx; rw [h.lines]; exact hne (hi.tmpk t (h.tmp t ht)) a1
    · rw [(h.other t hx).1]; exact a1
  · rw [h.kind i] at hr
    by_cases hx : i = X
    · subst hx; rw [h.lines]; exact hrw hr
    · rw [(h.other i hx).1]; exact hi.raw i hr

/-! ### the `Close` functions keep `InvG` -/

theorem paragraphClose_invG {src : Bytes} {B : Int} {s s' : St} {node : Nat} (hi : InvGF F src B s) (hsrc : s.r.source = src)
    (hk : (nd s node).kind = .paragraph) (hlt : node < s.nodes.length)
    (e : paragraphClose node s = .ok ((), s')) : InvGF F src B s' ∧ s'.r = s.r ∧ s'.pc = s.pc ∧ KG s s' ∧
      ((nd s node).lines ≠ [] → (nd s' node).lines ≠ []) := by
  by_cases hne : (nd s node).lines = []
  · -- a paragraph a transformer has emptied: `node.Parent().RemoveChild(node.Parent(), node)`
    have hne' : (s.nodes.getD node default).lines = [] := hne
    unfold paragraphClose at e
    obtain ⟨n, s1, h1, k1⟩ := obind_ok e
    obtain ⟨rfl, hs1⟩ := ogetNode_ok h1
    subst s1
    obtain ⟨src', s2, h2, k2⟩ := obind_ok k1
    have hs2 : s2 = s := by cases h2; rfl
    subst s2
    dsimp only at k2
    have k3 : (do
        let n ← getNode node
        if (n.lines.length == 0) = true then
            match n.parent with
            | none => throw Panic.nil
            | some p => removeChild p node
          else pure () : M Unit) s = .ok ((), s') := by
      split at k2
      · next hc => rw [hne'] at hc; simp at hc
      · exact k2
    obtain ⟨n4, s4, h4, k4⟩ := obind_ok k3
    obtain ⟨rfl, hs4⟩ := ogetNode_ok h4
    subst s4
    split at k4
    · cases hp : (s.nodes.getD node default).parent with
      | none => rw [hp] at k4; cases k4
      | some p =>
        rw [hp] at k4
        have hlk := removeChild_lk k4
        exact ⟨hi.lk hlk, hlk.r, hlk.pc, hlk.kg, fun h => absurd hne h⟩
    · next hc => rw [hne'] at hc; simp at hc
  · have hl : LinesOK src (nd s node).lines := (nodeOK_nd hi.nodes node).lines
    obtain ⟨hr, hpc, ls, hok, hsh, hpf, hnbl, hn⟩ := (paragraphClose_lines node hsrc hl hne).of_ok e
    have hall := hnbl (hi.pnb node hk)
    have hnb := hi.nrb node (by rw [hk]; rfl)
    have hs' : s' = { s with nodes := s.nodes.set node { (nd s node) with lines := ls } } := by
      cases s'; simp only at hr hpc hn; subst hr hpc hn; rfl
    have hlen := hsh.length
    have hlsne : ls ≠ [] := by
      intro e0; rw [e0] at hlen; exact hne (List.length_eq_zero_iff.1 hlen.symm)
    have hla := linesAt_upd s node ls hlt (fun hn0 => absurd ((nodeOK_nd hi.nodes node).nil hn0) hne)
    rw [← hs'] at hla
    exact ⟨hi.linesAt hla (fun _ => ⟨OrdFrom.shrinks hsh hnb.1, fun hh => Below.shrinks hsh (hnb.2.1 hh),
        fun t ht => ⟨(hall t ht).2, (hpf t ht).2⟩⟩) (fun _ => fun t ht => (hall t ht).1) (fun _ _ => hlsne) hok
        (fun hr' => by rw [hk] at hr'; cases hr'), hr, hpc, hla.kg,
      fun _ => by rw [hla.lines]; exact hlsne⟩

theorem codeClose_invG {src : Bytes} {B : Int} {s s' : St} {node : Nat} (hi : InvGF F src B s)
    (hk : (nd s node).kind = .codeBlock) (hlt : node < s.nodes.length)
    (e : codeClose node s = .ok ((), s')) : InvGF F src B s' ∧ s'.r = s.r ∧ s'.pc = s.pc ∧ KG s s' := by
  unfold codeClose at e
  obtain ⟨n, s1, h1, k1⟩ := obind_ok e
  obtain ⟨rfl, hs1⟩ := ogetNode_ok h1
  subst s1
  obtain ⟨src', s2, h2, k2⟩ := obind_ok k1
  have hs2 : s2 = s := by cases h2; rfl
  subst s2
  obtain ⟨len, s3, h3, k3⟩ := obind_ok k2
  obtain ⟨_, hs3⟩ := oliftE_ok h3
  subst s3
  dsimp only at k3
  split at k3
  · obtain ⟨_, _, ht, _⟩ := obind_ok k3; cases ht
  have e4 := omodNode_ok k3
  have hs' : s' = { s with nodes := s.nodes.set node { (nd s node) with lines := (nd s node).lines.take (len + 1).toNat } } := e4
  have hok := (nodeOK_nd hi.nodes node)
  have hla := linesAt_upd s node ((nd s node).lines.take (len + 1).toNat) hlt (fun hn0 => by rw [hok.nil hn0]; simp)
  rw [← hs'] at hla
  exact ⟨hi.linesAt hla (fun hr => by rw [hk] at hr; cases hr) (fun hp => by rw [hk] at hp; cases hp)
    (fun hp => by rw [hk] at hp; cases hp) (fun t ht => hok.lines t (List.mem_of_mem_take ht))
    (fun _ => ⟨OrdFrom.take _ (hi.raw node (by rw [hk]; rfl)).1,
      fun t ht => (hi.raw node (by rw [hk]; rfl)).2 t (List.mem_of_mem_take ht)⟩), by rw [hs'], by rw [hs'], hla.kg⟩

theorem fencedClose_invG {src : Bytes} {B : Int} {s s' : St} {node : Nat} (hi : InvGF F src B s)
    (e : fencedClose node s = .ok ((), s')) : InvGF F src B s' ∧ s'.r = s.r ∧ s'.pc.opened = s.pc.opened ∧ KG s s' ∧
      s'.pc.tmpPara = s.pc.tmpPara := by
  unfold fencedClose at e
  obtain ⟨pc, s1, h1, k1⟩ := obind_ok e
  obtain ⟨rfl, hs1⟩ := ogetPc_ok h1
  subst s1
  cases hf : s.pc.fence with
  | none => rw [hf] at k1; cases k1
  | some f =>
    rw [hf] at k1
    dsimp only at k1
    split at k1
    · have := omodPc_ok k1
      subst this
      exact ⟨hi.congr_pc _ rfl (List.Sublist.refl _), rfl, rfl, KG.refl _, rfl⟩
    · obtain ⟨_, hs⟩ := opure_ok k1
      subst s'
      exact ⟨hi, rfl, rfl, KG.refl _, rfl⟩

theorem listClose_invG {src : Bytes} {B : Int} {s s' : St} {node : Nat} (hi : InvGF F src B s)
    (e : listClose node s = .ok ((), s')) : InvGF F src B s' ∧ s'.r = s.r ∧ s'.pc = s.pc ∧ KG s s' := by
  have hc := listClose_copies e
  refine ⟨⟨fun i hr => ?_, by rw [hc.pc]; exact hi.ord, fun i hk => ?_, fun t ht => ?_, fun b hb => ?_, fun n hn => ?_, fun t ht hm => ?_, fun i hr => ?_⟩, hc.r, hc.pc, hc.kg⟩
  · rcases Nat.lt_or_ge i s.nodes.length with h | h
    · obtain ⟨x1, _, x3⟩ := hc.old i h
      rw [x3] at hr; rw [x1, x3]; exact hi.nrb i hr
    · rcases Nat.lt_or_ge i s'.nodes.length with h' | h'
      · obtain ⟨_, j, hj, hjk, hl, _⟩ := hc.new i h h'
        rw [hl]
        obtain ⟨q1, q2, q3⟩ := hi.nrb j (by rw [hjk]; rfl)
        exact ⟨q1, fun _ => q2 (by rw [hjk]; decide), q3⟩
      · rw [nd_default_of_ge s' h']; exact ⟨trivial, fun _ => Below.nil B, fun t ht => by cases ht⟩
  · rcases Nat.lt_or_ge i s.nodes.length with h | h
    · obtain ⟨x1, _, x3⟩ := hc.old i h
      rw [x3] at hk; rw [x1]; exact hi.pnb i hk
    · rcases Nat.lt_or_ge i s'.nodes.length with h' | h'
      · obtain ⟨k, _⟩ := hc.new i h h'
        rw [k] at hk; cases hk
      · rw [nd_default_of_ge s' h'] at hk; cases hk
  · rw [hc.pc] at ht
    have hk := hi.tmpk t ht
    have htl : t < s.nodes.length := by
      rcases Nat.lt_or_ge t s.nodes.length with h | h
      · exact h
      · rw [nd_default_of_ge s h] at hk; cases hk
    rw [(hc.old t htl).2.2]; exact hk
  · rw [hc.pc] at hb
    obtain ⟨k1, k2⟩ := hi.kinds b hb
    exact ⟨by rw [(hc.old _ k2).2.2]; exact k1, Nat.lt_of_lt_of_le k2 hc.len⟩
  · obtain ⟨i, hil, rfl⟩ := mem_nodes_nd hn
    rcases Nat.lt_or_ge i s.nodes.length with h | h
    · obtain ⟨x1, x2, _⟩ := hc.old i h
      have := nodeOK_nd hi.nodes i
      exact ⟨by rw [x1]; exact this.lines, by rw [x1, x2]; exact this.nil⟩
    · obtain ⟨_, j, _, _, hl, hln⟩ := hc.new i h hil
      have := nodeOK_nd hi.nodes j
      exact ⟨by rw [hl]; exact this.lines, by rw [hl, hln]; exact this.nil⟩
  · rw [hc.pc] at ht hm ⊢
    obtain ⟨a1, a2⟩ := hi.tl t ht hm
    exact ⟨by rw [(hc.old t (tmp_lt (hi.tmpk t ht))).1]; exact a1, a2⟩
  · rcases Nat.lt_or_ge i s.nodes.length with h | h
    · obtain ⟨x1, _, x3⟩ := hc.old i h
      rw [x3] at hr; rw [x1]; exact hi.raw i hr
    · rcases Nat.lt_or_ge i s'.nodes.length with h' | h'
      · obtain ⟨k, _⟩ := hc.new i h h'
        rw [k] at hr; cases hr
      · rw [nd_default_of_ge s' h'] at hr; cases hr


theorem setextClose_invG {src : Bytes} {B : Int} {s s' : St} {node : Nat} (hi : InvGF F src B s)
    (hk : (nd s node).kind = .heading) (hlt : node < s.nodes.length) (hm : ∃ b ∈ s.pc.opened, b.bp = .setext)
    (e : setextClose node s = .ok ((), s')) : InvGF F src B s' ∧ s'.r = s.r ∧ s'.pc.opened = s.pc.opened ∧ KG s s' ∧
      s'.pc.tmpPara = none := by
  cases ht : s.pc.tmpPara with
  | none =>
    exfalso
    unfold setextClose at e
    obtain ⟨hn, s1, h1, k1⟩ := obind_ok e
    obtain ⟨rfl, hs1⟩ := ogetNode_ok h1
    subst s1
    obtain ⟨seg, s2, h2, k2⟩ := obind_ok k1
    obtain ⟨_, hs2⟩ := oliftE_ok h2
    subst s2
    obtain ⟨_, s3, h3, k3⟩ := obind_ok k2
    have e3 := omodNode_ok h3
    obtain ⟨pc4, s4, h4, k4⟩ := obind_ok k3
    obtain ⟨rfl, hs4⟩ := ogetPc_ok h4
    subst s4
    have hpc3 : s3.pc = s.pc := by rw [e3]
    rw [hpc3, ht] at k4
    dsimp only at k4
    obtain ⟨_, _, h5, _⟩ := obind_ok k4
    cases h5
  | some t =>
    have hkt := hi.tmpk t ht
    have hne := (hi.tl t ht (.inr hm)).1
    have hnt : node ≠ t := by intro e0; rw [e0, hkt] at hk; cases hk
    obtain ⟨hlen, ⟨hl, hln⟩, hoth, hkind, hpc, hr⟩ := setextClose_copy ht hne hnt hlt e
    have hla : LinesAt node (nd s t).lines s s' :=
      ⟨hlen, hkind, hoth, hl, fun hn0 => (nodeOK_nd hi.nodes t).nil (by rw [← hln]; exact hn0), hr,
        (fun t' ht' => by rw [hpc] at ht'; cases ht'), (by rw [hpc])⟩
    obtain ⟨q1, _, q3⟩ := hi.nrb t (by rw [hkt]; rfl)
    exact ⟨hi.linesAt hla (fun _ => ⟨q1, fun hh => absurd hk hh, q3⟩) (fun hp => by rw [hk] at hp; cases hp)
        (fun hp => by rw [hk] at hp; cases hp) (nodeOK_nd hi.nodes t).lines (fun hr' => by rw [hk] at hr'; cases hr'),
        hr, by rw [hpc], hla.kg, by rw [hpc]⟩

/-- **every `Close` keeps the invariant** (the setext heading parser's: for a block of the stack), does not move the
    reader, does not touch the open-block stack, and sets no temporaryParagraphKey -/
theorem bpClose_invG {src : Bytes} {B : Int} {s s' : St} (bp : BP) (node : Nat) (hi : InvGF F src B s) (hsrc : s.r.source = src)
    (hk : (nd s node).kind = bp.kind) (hlt : node < s.nodes.length)
    (hm : bp = .setext → ∃ b ∈ s.pc.opened, b.bp = .setext)
    (e : bpClose bp node s = .ok ((), s')) : InvGF F src B s' ∧ s'.r = s.r ∧ s'.pc.opened = s.pc.opened ∧ KG s s' ∧
      (∀ t, s'.pc.tmpPara = some t → s.pc.tmpPara = some t) := by
  cases bp <;> unfold bpClose at e
  · obtain ⟨a, b, c, d, f⟩ := setextClose_invG hi hk hlt (hm rfl) e
    exact ⟨a, b, c, d, fun t ht => by rw [f] at ht; cases ht⟩
  · obtain ⟨_, hs⟩ := opure_ok e; subst s'; exact ⟨hi, rfl, rfl, KG.refl _, fun _ h => h⟩
  · obtain ⟨a, b, c, d⟩ := listClose_invG hi e; exact ⟨a, b, by rw [c], d, fun _ h => by rw [c] at h; exact h⟩
  · obtain ⟨_, hs⟩ := opure_ok e; subst s'; exact ⟨hi, rfl, rfl, KG.refl _, fun _ h => h⟩
  · obtain ⟨a, b, c, d⟩ := codeClose_invG hi hk hlt e; exact ⟨a, b, by rw [c], d, fun _ h => by rw [c] at h; exact h⟩
  · obtain ⟨_, hs⟩ := opure_ok e; subst s'; exact ⟨hi, rfl, rfl, KG.refl _, fun _ h => h⟩
  · obtain ⟨a, b, c, d, f⟩ := fencedClose_invG hi e; exact ⟨a, b, c, d, fun _ h => by rw [f] at h; exact h⟩
  · obtain ⟨_, hs⟩ := opure_ok e; subst s'; exact ⟨hi, rfl, rfl, KG.refl _, fun _ h => h⟩
  · obtain ⟨_, hs⟩ := opure_ok e; subst s'; exact ⟨hi, rfl, rfl, KG.refl _, fun _ h => h⟩
  · obtain ⟨a, b, c, d, _⟩ := paragraphClose_invG hi hsrc hk hlt e; exact ⟨a, b, by rw [c], d, fun _ h => by rw [c] at h; exact h⟩

/-! ### G2 / G1 for `InvG` -/

theorem InvGF.linesOKB {src : Bytes} {B : Int} {s : St} (hi : InvGF F src B s) {node : Nat}
    (hk : (nd s node).kind = .paragraph) : GM.LinkRef.linesOKB src (nd s node).lines = true := by
  unfold GM.LinkRef.linesOKB
  cases hl : (nd s node).lines with
  | nil => rfl
  | cons a rest =>
    have hnb := hi.nrb node (by rw [hk]; rfl)
    have hok := (nodeOK_nd hi.nodes node).lines
    have hpn := hi.pnb node hk
    rw [hl] at hnb hok hpn
    have h1 : GM.LinkRef.wfSegsFromB src 0 (a :: rest) = true :=
      wfSegsFromB_complete src _ 0 hnb.1 (fun t ht => ⟨(hnb.2.2 t ht).1, (hok t ht).2.2.1, (hok t ht).2.2.2, (hnb.2.2 t ht).2⟩)
    have h2 : GM.LinkRef.noBlankB src (a :: rest) = true := by
      unfold GM.LinkRef.noBlankB
      rw [List.all_eq_true]
      intro t ht
      have := hpn t ht
      unfold NonBlankSeg at this
      rw [this]; rfl
    simp only [GM.LinkRef.wfSegsB, h1, h2, List.isEmpty_cons, Bool.not_false, Bool.and_self, Bool.or_true]

/-- **G1**: a transformer call on the node of an open block that ends as `PTPost` says keeps `InvG` -/
theorem InvGF.ptpost {src : Bytes} {B : Int} {s s' : St} {node : Nat} (hi : InvGF F src B s) (hlt : node < s.nodes.length)
    (hnt : ∀ t, s.pc.tmpPara = some t → (F ∨ ∃ b ∈ s.pc.opened, b.bp = .setext) → t ≠ node)
    (hkp : (nd s node).kind = .paragraph) (h : PTPost node s s') : InvGF F src B s' ∧ s'.r = s.r ∧ s'.pc.opened = s.pc.opened ∧ KG s s' ∧
      s'.pc.tmpPara = s.pc.tmpPara := by
  obtain ⟨g, ht⟩ := T.tstep_of_post hi.nodes hlt h
  have hl := ptpost_lines hlt h
  have hkind : ∀ i, (nd s' i).kind = (nd s i).kind ∨ (nd s i).lines = [] := fun i => by
    rcases Nat.lt_or_ge i s.nodes.length with h1 | h1
    · exact .inl (ht.kind i h1)
    · right; rw [nd_default_of_ge s h1]; rfl
  refine ⟨⟨fun i hr => ?_, by rw [ht.opened]; exact hi.ord, fun i hk => ?_, fun t htt => ?_, fun b hb => ?_, ht.nodes,
    fun t htt hm => ?_, fun i hr => ?_⟩, ht.r, ht.opened, ⟨ht.len, ht.kind⟩, ht.tmp⟩
  · obtain ⟨k, ek⟩ := hl i
    rw [ek]
    rcases hkind i with h1 | h1
    · rw [h1] at hr
      obtain ⟨a1, a2, a3⟩ := hi.nrb i hr
      exact ⟨OrdFrom.drop' k a1 (fun t ht' => (a3 t ht').1),
        fun hh t ht' => a2 (by rw [← h1]; exact hh) t (List.mem_of_mem_drop ht'),
        fun t ht' => a3 t (List.mem_of_mem_drop ht')⟩
    · rw [h1]; simp only [List.drop_nil]
      exact ⟨trivial, fun _ => Below.nil B, fun t ht' => by cases ht'⟩
  · obtain ⟨k, ek⟩ := hl i
    rw [ek]
    rcases hkind i with h1 | h1
    · rw [h1] at hk
      exact fun t ht' => hi.pnb i hk t (List.mem_of_mem_drop ht')
    · rw [h1]; simp
  · rw [ht.tmp] at htt
    have hk := hi.tmpk t htt
    rw [ht.kind t (tmp_lt hk)]; exact hk
  · rw [ht.opened] at hb
    obtain ⟨k1, k2⟩ := hi.kinds b hb
    exact ⟨by rw [ht.kind _ k2]; exact k1, Nat.lt_of_lt_of_le k2 ht.len⟩
  · rw [ht.tmp] at htt
    rw [ht.opened] at hm ⊢
    obtain ⟨a1, a2⟩ := hi.tl t htt hm
    have hne : t ≠ node := hnt t htt hm
    exact ⟨by rw [ht.other t (tmp_lt (hi.tmpk t htt)) hne]; exact a1, a2⟩
  · rcases Nat.lt_or_ge i s.nodes.length with h1 | h1
    · rw [ht.kind i h1] at hr
      have hne : i ≠ node := fun e0 => by rw [e0, hkp] at hr; cases hr
      rw [ht.other i h1 hne]; exact hi.raw i hr
    · obtain ⟨k, ek⟩ := hl i
      rw [ek, nd_default_of_ge s h1]
      have : (List.drop k (default : Node).lines) = [] := by
        show List.drop k [] = []
        simp
      rw [this]
      exact ⟨trivial, Below.nil B⟩

/-! ### closeBlocksT -/

theorem closeSlice_sublist {l : List Block} {a b : Int} {r : List Block} (h : closeBlocks.slice' l a b = .ok r) :
    r.Sublist l := by
  unfold closeBlocks.slice' at h
  split at h
  · cases h; exact (List.take_sublist _ _).trans (List.drop_sublist _ _)
  · cases h

theorem closeSlice_two {l : List Block} {to frm : Int} {a b : List Block} (hle : to ≤ frm + 1)
    (ha : closeBlocks.slice' l 0 to = .ok a) (hb : closeBlocks.slice' l (frm + 1) (l.length : Int) = .ok b) :
    (a ++ b).Sublist l := by
  unfold closeBlocks.slice' at ha hb
  split at ha
  · next h1 =>
    split at hb
    · next h2 =>
      cases ha; cases hb
      have e1 : (List.drop (0 : Int).toNat l).take (to - 0).toNat = l.take to.toNat := by simp
      have e2 : (List.drop (frm + 1).toNat l).take ((l.length : Int) - (frm + 1)).toNat = l.drop (frm + 1).toNat := by
        apply List.take_of_length_le
        simp only [List.length_drop]
        omega
      rw [e1, e2]
      have h3 : (l.take to.toNat).Sublist (l.take (frm + 1).toNat) := by
        have : l.take to.toNat = (l.take (frm + 1).toNat).take to.toNat := by
          rw [List.take_take]; congr 1; omega
        rw [this]; exact List.take_sublist _ _
      have := List.Sublist.append h3 (List.Sublist.refl (l.drop (frm + 1).toNat))
      rwa [List.take_append_drop] at this
    · cases hb
  · cases ha

section walkG
variable {src : Bytes} {pts1 pts2 : List PT} (hag : Agree src pts1 pts2)
include hag

theorem closeLoopT_eqg {B : Int} (blocks : List Block) (to : Int) : ∀ (k : Nat) (s : St),
    InvGF F src B s → s.r.source = src → (∀ b ∈ blocks, b ∈ s.pc.opened) →
    EQV (fun _ s' => InvGF F src B s' ∧ s'.r = s.r ∧ s'.pc.opened = s.pc.opened ∧ KG s s' ∧
        (∀ t, s'.pc.tmpPara = some t → s.pc.tmpPara = some t))
      (closeLoopT pts1 blocks to k) (closeLoopT pts2 blocks to k) s := by
  intro k
  induction k with
  | zero =>
    intro s hi _ _
    unfold closeLoopT
    exact EQV.pure ⟨hi, rfl, rfl, KG.refl _, fun _ h => h⟩
  | succ k ih =>
    intro s hi hsrc hsub
    unfold closeLoopT
    refine EQV.bind_same (fun b s1 h1 => ?_)
    obtain ⟨hb, hs1⟩ := oliftE_ok h1
    subst s1
    have hbm := hsub b (blockAt_mem hb)
    obtain ⟨hkb, hltb⟩ := hi.kinds b hbm
    refine EQV.bind_same (fun n s2 h2 => ?_)
    obtain ⟨hn, hs2⟩ := ogetNode_ok h2
    subst s2
    -- behind the transformer step
    have jp : ∀ s3 : St, InvGF F src B s3 ∧ s3.r = s.r ∧ s3.pc.opened = s.pc.opened ∧ KG s s3 ∧ s3.pc.tmpPara = s.pc.tmpPara →
        EQV (fun _ s' => InvGF F src B s' ∧ s'.r = s.r ∧ s'.pc.opened = s.pc.opened ∧ KG s s' ∧
            (∀ t, s'.pc.tmpPara = some t → s.pc.tmpPara = some t))
          (do
            let __do_lift ← getNode b.node
            if __do_lift.parent.isSome = true then do
                let __r ← bpClose b.bp b.node
                closeLoopT pts1 blocks to k
              else closeLoopT pts1 blocks to k)
          (do
            let __do_lift ← getNode b.node
            if __do_lift.parent.isSome = true then do
                let __r ← bpClose b.bp b.node
                closeLoopT pts2 blocks to k
              else closeLoopT pts2 blocks to k) s3 := by
      intro s3 ⟨a1, a2, a3, a4, a5⟩
      have hsrc3 : s3.r.source = src := by rw [a2]; exact hsrc
      have hsub3 : ∀ b ∈ blocks, b ∈ s3.pc.opened := fun b hb => by rw [a3]; exact hsub b hb
      refine EQV.bind_same (fun n4 s4 h4 => ?_)
      obtain ⟨_, hs4⟩ := ogetNode_ok h4
      subst s4
      refine EQV.ite (fun _ => ?_) (fun _ => ?_)
      · refine EQV.bind_same (fun _ s5 h5 => ?_)
        obtain ⟨hkb3, hltb3⟩ := nk_kg a4 hkb hltb
        obtain ⟨c1, c2, c3, c4, c5⟩ := bpClose_invG b.bp b.node a1 hsrc3 hkb3 hltb3
          (fun hs => ⟨b, by rw [a3]; exact hbm, hs⟩) h5
        refine (ih s5 c1 (by rw [c2]; exact hsrc3) (fun b hb => by rw [c3]; exact hsub3 b hb)).mono ?_
        intro _ s' ⟨d1, d2, d3, d4, d5⟩
        exact ⟨d1, by rw [d2, c2, a2], by rw [d3, c3, a3], (a4.trans c4).trans d4,
          fun t ht => by rw [← a5]; exact c5 t (d5 t ht)⟩
      · refine (ih s3 a1 hsrc3 hsub3).mono ?_
        intro _ s' ⟨d1, d2, d3, d4, d5⟩
        exact ⟨d1, by rw [d2, a2], by rw [d3, a3], a4.trans d4, fun t ht => by rw [← a5]; exact d5 t ht⟩
    dsimp only
    refine EQV.ite (fun hc => ?_) (fun _ => jp s ⟨hi, rfl, rfl, KG.refl _, rfl⟩)
    simp only [Bool.and_eq_true, beq_iff_eq] at hc
    have hkp : (nd s b.node).kind = .paragraph := by rw [← hc.1, hn]
    have hpar : (nd s b.node).parent.isSome = true := by rw [← hc.2, hn]
    refine EQV.bind (hag b.node s hsrc hltb hkp hpar hi.nodes (hi.linesOKB hkp)) (fun g s3 _ hp => ?_)
    exact jp s3 (hi.ptpost hltb (fun t ht hm => fun h0 => (hi.tl t ht hm).2 b hbm h0.symm) hkp hp)

/-- **closeBlocksT keeps the invariant and runs the same with both transformer lists**; the stack shrinks to a sublist -/
theorem closeBlocksT_eqg {B : Int} {s : St} (frm to : Int) (hle : to ≤ frm + 1) (hi : InvGF F src B s)
    (hsrc : s.r.source = src) :
    EQV (fun _ s' => InvGF F src B s' ∧ s'.r = s.r ∧ s'.pc.opened.Sublist s.pc.opened ∧ KG s s' ∧
        (∀ t, s'.pc.tmpPara = some t → s.pc.tmpPara = some t))
      (closeBlocksT pts1 frm to) (closeBlocksT pts2 frm to) s := by
  unfold closeBlocksT
  refine EQV.bind_same (fun pc s1 h1 => ?_)
  obtain ⟨rfl, hs1⟩ := ogetPc_ok h1
  subst s1
  refine EQV.bind (closeLoopT_eqg hag s.pc.opened to _ s hi hsrc (fun b hb => hb)) (fun _ s2 _ h2 => ?_)
  obtain ⟨a1, a2, a3, a4, a5⟩ := h2
  refine EQV.refl (fun _ s' k2 => ?_)
  dsimp only at k2
  have fin : ∀ (bl : List Block), bl.Sublist s.pc.opened →
      (modPc fun pc => { pc with opened := bl }) s2 = .ok ((), s') →
      InvGF F src B s' ∧ s'.r = s.r ∧ s'.pc.opened.Sublist s.pc.opened ∧ KG s s' ∧
        (∀ t, s'.pc.tmpPara = some t → s.pc.tmpPara = some t) := by
    intro bl hbl k3
    have := omodPc_ok k3
    subst this
    exact ⟨a1.congr_pc _ rfl (by rw [a3]; exact hbl), a2, hbl, a4, a5⟩
  split at k2
  · obtain ⟨bl, s3, h3, k3⟩ := obind_ok k2
    obtain ⟨hb, hs3⟩ := oliftE_ok h3
    subst s3
    exact fin bl (closeSlice_sublist hb) k3
  · obtain ⟨a, s4, h4, k4⟩ := obind_ok k2
    obtain ⟨ha, hs4⟩ := oliftE_ok h4
    subst s4
    obtain ⟨b, s5, h5, k5⟩ := obind_ok k4
    obtain ⟨hb, hs5⟩ := oliftE_ok h5
    subst s5
    obtain ⟨bl, s6, h6, k6⟩ := obind_ok k5
    obtain ⟨hbl, hs6⟩ := opure_ok h6
    subst s6
    subst bl
    exact fin (a ++ b) (closeSlice_two hle ha hb) k6

/-- `closeBlocksT_eqg` for all bounds at once -/
theorem closeBlocksT_eqg_all {s : St} (frm to : Int) (hle : to ≤ frm + 1) (hex : ∃ B, InvGF F src B s) (hsrc : s.r.source = src) :
    EQV (fun _ s' => (∀ B, InvGF F src B s → InvGF F src B s') ∧ s'.r = s.r ∧ s'.pc.opened.Sublist s.pc.opened ∧ KG s s' ∧
        (∀ t, s'.pc.tmpPara = some t → s.pc.tmpPara = some t))
      (closeBlocksT pts1 frm to) (closeBlocksT pts2 frm to) s := by
  obtain ⟨B0, hB0⟩ := hex
  have h0 := closeBlocksT_eqg hag frm to hle hB0 hsrc
  refine ⟨h0.1, fun a s' e => ?_⟩
  obtain ⟨_, a2, a3, a4, a5⟩ := h0.2 a s' e
  exact ⟨fun B hB => ((closeBlocksT_eqg hag frm to hle hB hsrc).2 a s' e).1, a2, a3, a4, a5⟩

end walkG

end GM.Blocks.TO
