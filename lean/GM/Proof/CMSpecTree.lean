/-
  GM.Proof.CMSpecTree — lemmas about the spec-side document model of C02 (GM.Spec.CommonMark): the expected
  HTML of every tree is tag-balanced, and it does not depend on any surface-syntax choice.
-/
import GM.Spec.CommonMark

namespace GM.Proof.CMSpecTree
open GM GM.Spec.CM

/-! ### tag balance of the expected pieces -/

/-- stack discipline on pieces: an opening tag pushes its name, a closing tag must match the top; void
    elements, text and raw HTML (opaque: html.WithUnsafe passes it through) leave the stack alone -/
def balStep (st : List Bytes) : Piece → Option (List Bytes)
  | .openT t _ => some (t :: st)
  | .closeT t =>
    match st with
    | top :: rest => if top == t then some rest else none
    | [] => none
  | _ => some st

def balRun : List Bytes → List Piece → Option (List Bytes)
  | st, [] => some st
  | st, p :: ps =>
    match balStep st p with
    | some st' => balRun st' ps
    | none => none

def balanced (ps : List Piece) : Bool := balRun [] ps == some []

/-- from any stack, running the pieces returns to the same stack -/
def Neutral (ps : List Piece) : Prop := ∀ st, balRun st ps = some st

theorem neutral_nil : Neutral [] := fun _ => rfl

theorem balRun_append (st : List Bytes) (a b : List Piece) :
    balRun st (a ++ b) = (balRun st a).bind fun st' => balRun st' b := by
  induction a generalizing st with
  | nil => simp [balRun]
  | cons p ps ih =>
    simp only [List.cons_append, balRun]
    cases balStep st p with
    | none => simp
    | some st' => simpa using ih st'

theorem neutral_append {a b : List Piece} (ha : Neutral a) (hb : Neutral b) : Neutral (a ++ b) := by
  intro st; rw [balRun_append, ha st]; simpa using hb st

theorem neutral_cons_txt (b : Bytes) {ps : List Piece} (h : Neutral ps) : Neutral (.txt b :: ps) := by
  intro st; simpa [balRun, balStep] using h st

theorem neutral_single_txt (b : Bytes) : Neutral [.txt b] := neutral_cons_txt b neutral_nil
theorem neutral_single_raw (b : Bytes) : Neutral [.raw b] := by intro st; simp [balRun, balStep]
theorem neutral_single_void (t a : Bytes) : Neutral [.voidT t a] := by intro st; simp [balRun, balStep]
theorem neutral_nl : Neutral [nl] := neutral_single_txt _

theorem neutral_wrap (t a : Bytes) {ps : List Piece} (h : Neutral ps) : Neutral (wrap t a ps) := by
  intro st
  show balRun st (.openT t a :: (ps ++ [.closeT t])) = some st
  rw [balRun]
  simp only [balStep]
  rw [balRun_append, h (t :: st)]
  simp [balRun, balStep]

mutual
theorem expI_neutral : ∀ x : Inline, Neutral (expI x)
  | .text cs => by simp only [expI]; exact neutral_single_txt _
  | .emph _ kids => by simp only [expI]; exact neutral_wrap _ _ (expIs_neutral kids)
  | .strong _ kids => by simp only [expI]; exact neutral_wrap _ _ (expIs_neutral kids)
  | .code .. => by simp only [expI]; exact neutral_wrap _ _ (neutral_single_txt _)
  | .link kids .. => by simp only [expI]; exact neutral_wrap _ _ (expIs_neutral kids)
  | .image .. => by simp only [expI]; exact neutral_single_void _ _
  | .autolink .. => by simp only [expI]; exact neutral_wrap _ _ (neutral_single_txt _)
  | .rawHtml _ => by simp only [expI]; exact neutral_single_raw _
  | .hardBreak .. => by simp only [expI]; exact neutral_append (a := [_]) (neutral_single_void _ _) neutral_nl
  | .softBreak => by simp only [expI]; exact neutral_nl
theorem expIs_neutral : ∀ xs : List Inline, Neutral (expIs xs)
  | [] => by simp only [expIs]; exact neutral_nil
  | x :: rest => by simp only [expIs]; exact neutral_append (expI_neutral x) (expIs_neutral rest)
end

mutual
theorem expB_neutral : ∀ (tight last : Bool) (b : Block), Neutral (expB tight last b)
  | tight, last, .para _ kids _ => by
    simp only [expB]; split
    · split
      · simpa using expIs_neutral kids
      · exact neutral_append (expIs_neutral kids) neutral_nl
    · exact neutral_append (neutral_wrap _ _ (expIs_neutral kids)) neutral_nl
  | _, _, .heading _ _ _ _ _ kids => by simp only [expB]; exact neutral_append (neutral_wrap _ _ (expIs_neutral kids)) neutral_nl
  | _, _, .thematic .. => by simp only [expB]; exact neutral_append (a := [_]) (neutral_single_void _ _) neutral_nl
  | _, _, .icode _ => by
    simp only [expB]; exact neutral_append (neutral_wrap _ _ (neutral_wrap _ _ (neutral_single_txt _))) neutral_nl
  | _, _, .fcode .. => by
    simp only [expB]; exact neutral_append (neutral_wrap _ _ (neutral_wrap _ _ (neutral_single_txt _))) neutral_nl
  | _, _, .quote _ _ kids => by
    simp only [expB]; exact neutral_append (neutral_wrap _ _ (neutral_cons_txt _ (expBs_neutral false false kids))) neutral_nl
  | _, _, .blist _ _ _ t items => by
    simp only [expB]; exact neutral_append (neutral_wrap _ _ (neutral_cons_txt _ (expBs_neutral t false items))) neutral_nl
  | _, _, .olist _ _ _ _ _ t items => by
    simp only [expB]; exact neutral_append (neutral_wrap _ _ (neutral_cons_txt _ (expBs_neutral t false items))) neutral_nl
  | tight, _, .item kids => by
    simp only [expB]
    refine neutral_append (neutral_wrap _ _ ?_) neutral_nl
    split
    · refine neutral_append ?_ (expBs_neutral true true kids)
      split
      · exact neutral_nil
      · exact neutral_nl
    · exact neutral_cons_txt _ (expBs_neutral false false kids)
  | _, _, .refdefs _ => by simp only [expB]; exact neutral_nil
  | _, _, .html _ => by simp only [expB]; exact neutral_single_raw _
theorem expBs_neutral : ∀ (tight inItem : Bool) (bs : List Block), Neutral (expBs tight inItem bs)
  | _, _, [] => by simp only [expBs]; exact neutral_nil
  | tight, inItem, b :: rest => by
    simp only [expBs]; exact neutral_append (expB_neutral tight _ b) (expBs_neutral tight inItem rest)
end

theorem expected_balanced (d : Doc) : balanced (expectedPieces d) = true := by
  have := expBs_neutral false false d.blocks []
  simp [balanced, expectedPieces, this]


/-! ### `expected` does not look at any choice -/

theorem plain_erase (cs : List TChar) : plain (eraseChars cs) = plain cs := by
  simp [plain, eraseChars, List.map_map, Function.comp_def]

mutual
theorem plainI_erase : ∀ x : Inline, plainI (eraseI x) = plainI x
  | .text cs => by simp only [eraseI, plainI, plain_erase]
  | .emph _ kids => by simp only [eraseI, plainI, plainIs_erase kids]
  | .strong _ kids => by simp only [eraseI, plainI, plainIs_erase kids]
  | .code .. => by simp only [eraseI, plainI]
  | .link kids .. => by simp only [eraseI, plainI, plainIs_erase kids]
  | .image kids .. => by simp only [eraseI, plainI, plainIs_erase kids]
  | .autolink .. => by simp only [eraseI, plainI]
  | .rawHtml _ => by simp only [eraseI, plainI]
  | .hardBreak .. => by simp only [eraseI, plainI]
  | .softBreak => by simp only [eraseI, plainI]
theorem plainIs_erase : ∀ xs : List Inline, plainIs (eraseIs xs) = plainIs xs
  | [] => by simp only [eraseIs, plainIs]
  | x :: rest => by simp only [eraseIs, plainIs, plainI_erase x, plainIs_erase rest]
end

mutual
theorem expI_erase : ∀ x : Inline, expI (eraseI x) = expI x
  | .text cs => by simp only [eraseI, expI, plain_erase]
  | .emph _ kids => by simp only [eraseI, expI, expIs_erase kids]
  | .strong _ kids => by simp only [eraseI, expI, expIs_erase kids]
  | .code .. => by simp only [eraseI, expI]
  | .link kids .. => by simp only [eraseI, expI, expIs_erase kids]
  | .image kids .. => by simp only [eraseI, expI, plainIs_erase kids]
  | .autolink .. => by simp only [eraseI, expI]
  | .rawHtml _ => by simp only [eraseI, expI]
  | .hardBreak .. => by simp only [eraseI, expI]
  | .softBreak => by simp only [eraseI, expI]
theorem expIs_erase : ∀ xs : List Inline, expIs (eraseIs xs) = expIs xs
  | [] => by simp only [eraseIs, expIs]
  | x :: rest => by simp only [eraseIs, expIs, expI_erase x, expIs_erase rest]
end

theorem eraseBs_isEmpty (bs : List Block) : (eraseBs bs).isEmpty = bs.isEmpty := by
  cases bs <;> simp [eraseBs]

theorem startsWithPara_erase (bs : List Block) : startsWithPara (eraseBs bs) = startsWithPara bs := by
  cases bs with
  | nil => simp [eraseBs]
  | cons b rest => cases b <;> simp [eraseBs, eraseB, startsWithPara]

mutual
theorem expB_erase : ∀ (tight last : Bool) (b : Block), expB tight last (eraseB b) = expB tight last b
  | _, _, .para _ kids _ => by simp only [eraseB, expB, expIs_erase kids]
  | _, _, .heading _ _ _ _ _ kids => by simp only [eraseB, expB, expIs_erase kids]
  | _, _, .thematic .. => by simp only [eraseB, expB]
  | _, _, .icode _ => by simp only [eraseB, expB]
  | _, _, .fcode .. => by simp only [eraseB, expB]
  | _, _, .quote _ _ kids => by simp only [eraseB, expB, expBs_erase false false kids]
  | _, _, .blist _ _ _ t items => by simp only [eraseB, expB, expBs_erase t false items]
  | _, _, .olist _ _ _ _ _ t items => by simp only [eraseB, expB, expBs_erase t false items]
  | _, _, .item kids => by
    simp only [eraseB, expB, expBs_erase true true kids, expBs_erase false false kids, startsWithPara_erase]
  | _, _, .refdefs _ => by simp only [eraseB, expB]
  | _, _, .html _ => by simp only [eraseB, expB]
theorem expBs_erase : ∀ (tight inItem : Bool) (bs : List Block), expBs tight inItem (eraseBs bs) = expBs tight inItem bs
  | _, _, [] => by simp only [eraseBs, expBs]
  | tight, inItem, b :: rest => by
    simp only [eraseBs, expBs, expB_erase tight _ b, expBs_erase tight inItem rest, eraseBs_isEmpty]
end

/-- two annotated documents with the same structure (equal after erasing every choice) have the same
    expected HTML: `expected` is a function of the structure alone -/
theorem expected_erase (d : Doc) : expected (eraseDoc d) = expected d := by
  simp only [expected, expectedPieces, eraseDoc, expBs_erase]

end GM.Proof.CMSpecTree
