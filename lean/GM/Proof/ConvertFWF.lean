/-
  GM.Proof.ConvertFWF — store well-formedness of the block driver WITH the footnote block parser (GM.Model.ConvertF, `MF`):
  for every source the final node store is tree-shaped (`GM.ConvertH.TreeWF`: every child edge is mirrored by the parent
  pointer, child lists are duplicate-free, node 0 is the parentless Document) and the footnote state only names existing
  nodes other than node 0. Consequence: the root monitor of `GM.ConvertF.monitorFires` never fires.

  Technique: GM.Proof.ConvertHWF* (headingids round 2) — the parser-level step lemmas (`Stp`, `OJ`, `OpR`, `RmR`) are reused
  as they are; the driver in `MF` is walked by a tactic over an invariant calculus `InvF P` (`P` = a monotone predicate of
  the store size, used to remember that a freshly opened node exists).
-/
import GM.Proof.ConvertHWFOpen
import GM.Proof.ConvertHWFClose
import GM.Proof.ConvertHWFRun
import GM.Proof.ConvertFSim

namespace GM.ConvertF
open GM GM.Text GM.Blocks GM.Convert GM.ConvertH

/-! ### steps that keep the tree -/

structure WStep (s s' : St) : Prop where
  len : s.nodes.length ≤ s'.nodes.length
  wf : TreeWF s → TreeWF s'

theorem WStep.refl (s : St) : WStep s s := ⟨Nat.le_refl _, id⟩
theorem WStep.trans {a b c : St} (h1 : WStep a b) (h2 : WStep b c) : WStep a c :=
  ⟨Nat.le_trans h1.len h2.len, fun w => h2.wf (h1.wf w)⟩
theorem WStep.of_stepR {s s' : St} (h : StepR s s') : WStep s s' := ⟨h.len, fun w => (h.wf w).1⟩
theorem WStep.of_lr {s s' : St} (h : LR s s') : WStep s s' := ⟨h.len, h.wf⟩

theorem treeWF_nodes {s s' : St} (h : s'.nodes = s.nodes) (w : TreeWF s) : TreeWF s' :=
  ⟨fun p c hc => by
      have e : ∀ i, ndx s' i = ndx s i := fun i => by simp [ndx, h]
      rw [e] at hc; rw [e, h]; exact w.edge p c hc,
   fun p => by have e : ndx s' p = ndx s p := by simp [ndx, h]
               rw [e]; exact w.nodup p,
   by have e : ndx s' 0 = ndx s 0 := by simp [ndx, h]
      rw [e]; exact w.root,
   by rw [h]; exact w.ne,
   by have e : ndx s' 0 = ndx s 0 := by simp [ndx, h]
      rw [e]; exact w.rootKind⟩

theorem WStep.of_nodes {s s' : St} (h : s'.nodes = s.nodes) : WStep s s' := ⟨by rw [h]; exact Nat.le_refl _, treeWF_nodes h⟩

/-- an `M` program all of whose normal ends are such steps -/
structure Wk {α : Type} (m : M α) : Prop where
  h : ∀ s a s', m s = .ok (a, s') → WStep s s'

theorem Wk.of_stp {α} {m : M α} (h : Stp m) : Wk m := ⟨fun s a s' e => .of_stepR (h.h s a s' e)⟩
theorem Wk.of_lk {α} {m : M α} (h : Lk m) : Wk m := ⟨fun s a s' e => .of_lr (h.h s a s' e)⟩
theorem Wk.modPc (g : Ctx → Ctx) : Wk (modPc g) := ⟨fun s a s' e => by have := modPc_ok e; subst this; exact .of_nodes rfl⟩

/-! ### the invariant -/

/-- the footnote state names existing nodes other than node 0 -/
def IdsOK (f : FS) (s : St) : Prop :=
  (∀ l, f.list = some l → 0 < l ∧ l < s.nodes.length) ∧ (∀ p ∈ f.refs, 0 < p.1 ∧ p.1 < s.nodes.length)

def Mono (P : Nat → Prop) : Prop := ∀ a b, a ≤ b → P a → P b

def FI (P : Nat → Prop) (f : FS) (s : St) : Prop := TreeWF s ∧ IdsOK f s ∧ P s.nodes.length

theorem FI.step {P : Nat → Prop} (hP : Mono P) {f : FS} {s s' : St} (h : FI P f s) (st : WStep s s') : FI P f s' :=
  ⟨st.wf h.1, ⟨fun l hl => ⟨(h.2.1.1 l hl).1, Nat.lt_of_lt_of_le (h.2.1.1 l hl).2 st.len⟩,
    fun p hp => ⟨(h.2.1.2 p hp).1, Nat.lt_of_lt_of_le (h.2.1.2 p hp).2 st.len⟩⟩, hP _ _ st.len h.2.2⟩

/-- every normal end of `m` from a state with the invariant has the invariant, and the value satisfies `Q` there -/
structure InvF (P : Nat → Prop) {α : Type} (Q : α → Nat → Prop) (m : MF α) : Prop where
  h : ∀ f s a f' s', FI P f s → m f s = .ok ((a, f'), s') → FI P f' s' ∧ Q a s'.nodes.length

abbrev QT' {α : Type} : α → Nat → Prop := fun _ _ => True

variable {P : Nat → Prop}

theorem InvF.pure {α} {Q : α → Nat → Prop} (a : α) (hq : ∀ n, P n → Q a n) : InvF P Q (Pure.pure a : MF α) :=
  ⟨fun f s a' f' s' hi e => by cases e; exact ⟨hi, hq _ hi.2.2⟩⟩

theorem InvF.throw {α} {Q : α → Nat → Prop} (e : Panic) : InvF P Q (throw e : MF α) := ⟨fun _ _ _ _ _ _ e' => by cases e'⟩

theorem InvF.up (hP : Mono P) {α} {x : M α} (hx : Wk x) : InvF P QT' (up x) := by
  constructor
  intro f s a f' s' hi e
  rw [upF_apply] at e
  cases hm : x s with
  | error er => rw [hm] at e; cases e
  | ok p =>
    rw [hm] at e
    cases e
    exact ⟨hi.step hP (hx.h s _ _ hm), trivial⟩

theorem InvF.bind {α β} {Q : α → Nat → Prop} {Q' : β → Nat → Prop} {m : MF α} {k : α → MF β}
    (hm : InvF P Q m) (hk : ∀ a, InvF (fun n => P n ∧ Q a n) Q' (k a)) : InvF P Q' (m >>= k) := by
  constructor
  intro f s b f'' s'' hi e
  rw [mf_bind_apply] at e
  cases hx : m f s with
  | error er => rw [hx] at e; cases e
  | ok p =>
    obtain ⟨⟨a, f'⟩, s'⟩ := p
    rw [hx] at e
    obtain ⟨h1, h2⟩ := hm.h f s a f' s' hi hx
    obtain ⟨h3, h4⟩ := (hk a).h f' s' b f'' s'' ⟨h1.1, h1.2.1, h1.2.2, h2⟩ e
    exact ⟨⟨h3.1, h3.2.1, h3.2.2.1⟩, h4⟩

/-- `bind` when the value's postcondition is not needed -/
theorem InvF.bind' {α β} {Q' : β → Nat → Prop} {m : MF α} {k : α → MF β}
    (hm : InvF P QT' m) (hk : ∀ a, InvF P Q' (k a)) : InvF P Q' (m >>= k) := by
  constructor
  intro f s b f'' s'' hi e
  rw [mf_bind_apply] at e
  cases hx : m f s with
  | error er => rw [hx] at e; cases e
  | ok p =>
    obtain ⟨⟨a, f'⟩, s'⟩ := p
    rw [hx] at e
    exact (hk a).h f' s' b f'' s'' (hm.h f s a f' s' hi hx).1 e

theorem InvF.ite {α} {Q : α → Nat → Prop} {c : Prop} [Decidable c] {a b : MF α} (ha : InvF P Q a) (hb : InvF P Q b) :
    InvF P Q (if c then a else b) := by
  split <;> assumption

theorem InvF.weaken {α} {Q Q' : α → Nat → Prop} {m : MF α} (h : InvF P Q m) (hq : ∀ a n, Q a n → Q' a n) : InvF P Q' m :=
  ⟨fun f s a f' s' hi e => ⟨(h.h f s a f' s' hi e).1, hq _ _ (h.h f s a f' s' hi e).2⟩⟩

/-- a stronger size predicate may be dropped -/
theorem InvF.strengthen {P' : Nat → Prop} {α} {Q : α → Nat → Prop} {m : MF α} (h : InvF P Q m) (hP' : Mono P')
    (h' : InvF P' QT' m) : InvF (fun n => P n ∧ P' n) Q m :=
  ⟨fun f s a f' s' hi e =>
    have r1 := h.h f s a f' s' ⟨hi.1, hi.2.1, hi.2.2.1⟩ e
    have r2 := h'.h f s a f' s' ⟨hi.1, hi.2.1, hi.2.2.2⟩ e
    ⟨⟨r1.1.1, r1.1.2.1, r1.1.2.2, r2.1.2.2⟩, r1.2⟩⟩

theorem mono_and {P P' : Nat → Prop} (h : Mono P) (h' : Mono P') : Mono (fun n => P n ∧ P' n) :=
  fun a b hab hp => ⟨h a b hab hp.1, h' a b hab hp.2⟩

theorem mono_valid (item : Nat) : Mono (fun n => 0 < item ∧ item < n) := fun a b hab hp => ⟨hp.1, Nat.lt_of_lt_of_le hp.2 hab⟩

theorem invF_getF : InvF P QT' getF := ⟨fun f s a f' s' hi e => by cases e; exact ⟨hi, trivial⟩⟩

macro "wk_leaf" : tactic =>
  `(tactic| first
    | apply_hyp
    | exact Wk.modPc _
    | exact Wk.of_stp (toContinuable_stp _ _ _)
    | exact Wk.of_stp (bpContinue_stp _ _)
    | exact Wk.of_stp (bpClose_stp _ _)
    | exact Wk.of_stp (bpOpen_stp _ _)
    | exact Wk.of_lk lastOpenedBlock_lk
    | exact Wk.of_lk skipBlankLinesR_lk
    | (apply Wk.of_lk; lk_leaf))

macro "invf_step" : tactic =>
  `(tactic| first
    | (refine InvF.pure _ ?_; intro _ _; trivial)
    | exact InvF.throw _
    | exact invF_getF
    | apply_hyp
    | (refine InvF.up (by assumption) ?_; wk_leaf)
    | with_reducible apply InvF.bind'
    | with_reducible apply InvF.ite
    | intro _
    | split)

macro "invf" : tactic => `(tactic| repeat' invf_step)

/-! ### the footnote block parser -/

/-- the node `Open` answers exists and is not node 0 -/
def Qopen (r : Option Nat × PState) (len : Nat) : Prop := ∀ nd, r.1 = some nd → 0 < nd ∧ nd < len

theorem InvF.newNode (hP : Mono P) {α} {Q : α → Nat → Prop} (n : Blocks.Node) (hp : n.parent = none) (hc : n.children = [])
    (k : Nat → MF α) (hk : ∀ item, InvF (fun len => P len ∧ (0 < item ∧ item < len)) Q (k item)) :
    InvF P Q (GM.ConvertF.up (newNode n) >>= k) := by
  constructor
  intro f s b f'' s'' hi e
  rw [mf_bind_apply, upF_apply] at e
  have hn : Blocks.newNode n s = .ok (s.nodes.length, { s with nodes := s.nodes ++ [n] }) := rfl
  rw [hn] at e
  simp only at e
  have hst : WStep s { s with nodes := s.nodes ++ [n] } := .of_lr ((GM.ConvertH.newNode_lk n hp hc).h s _ _ hn)
  have hi' := hi.step hP hst
  obtain ⟨h3, h4⟩ := (hk s.nodes.length).h f _ b f'' s'' ⟨hi'.1, hi'.2.1, hi'.2.2, hi.1.ne, by simp⟩ e
  exact ⟨⟨h3.1, h3.2.1, h3.2.2.1⟩, h4⟩

/-- `f.refs = append(f.refs, (item, label))` for an existing node -/
theorem InvF.addRef {α} {Q : α → Nat → Prop} (item : Nat) (label : Bytes) (hv : ∀ n, P n → 0 < item ∧ item < n)
    (k : MF α) (hk : InvF P Q k) :
    InvF P Q (getF >>= fun f => setF { f with refs := f.refs ++ [(item, label)] } >>= fun _ => k) := by
  constructor
  intro f s b f'' s'' hi e
  have e' : k { f with refs := f.refs ++ [(item, label)] } s = .ok ((b, f''), s'') := e
  refine hk.h { f with refs := f.refs ++ [(item, label)] } s b f'' s'' ⟨hi.1, ⟨hi.2.1.1, ?_⟩, hi.2.2⟩ e'
  intro p hp
  simp only [List.mem_append, List.mem_singleton] at hp
  rcases hp with hp | hp
  · exact hi.2.1.2 p hp
  · subst hp; exact hv _ hi.2.2

theorem fnOpen_inv (hP : Mono P) (parent : Nat) : InvF P Qopen (fnOpen parent) := by
  unfold fnOpen
  apply InvF.bind' (by invf)
  intro x
  apply InvF.bind' (by invf)
  intro pc
  apply InvF.bind' (by invf)
  intro sc
  split
  · exact InvF.pure _ (fun _ _ nd h => by cases h)
  · apply InvF.bind' (by invf)
    intro src
    apply InvF.bind' (by invf)
    intro label
    split
    · exact InvF.pure _ (fun _ _ nd h => by cases h)
    · refine InvF.newNode hP _ rfl rfl _ (fun item => ?_)
      have hP2 : Mono (fun len => P len ∧ (0 < item ∧ item < len)) := mono_and hP (mono_valid item)
      refine InvF.addRef item label (fun n h => h.2) _ ?_
      dsimp only
      split
      · apply InvF.bind' (by invf)
        intro _
        exact InvF.pure _ (fun n h nd hn => by cases hn; exact h.2)
      · apply InvF.bind' (by invf)
        intro _
        exact InvF.pure _ (fun n h nd hn => by cases hn; exact h.2)

theorem fnContinue_inv (hP : Mono P) (node : Nat) : InvF P QT' (fnContinue node) := by
  unfold fnContinue; invf

theorem mf_bind_ok {α β} {m : MF α} {k : α → MF β} {f : FS} {s : St} {b : β} {f'' : FS} {s'' : St}
    (h : (m >>= k) f s = .ok ((b, f''), s'')) : ∃ a f' s', m f s = .ok ((a, f'), s') ∧ k a f' s' = .ok ((b, f''), s'') := by
  rw [mf_bind_apply] at h
  cases hm : m f s with
  | error e => rw [hm] at h; cases h
  | ok p => obtain ⟨⟨a, f'⟩, s'⟩ := p; rw [hm] at h; exact ⟨a, f', s', rfl, h⟩

theorem upF_ok {α} {x : M α} {f : FS} {s : St} {a : α} {f' : FS} {s' : St} (e : (GM.ConvertF.up x) f s = .ok ((a, f'), s')) :
    x s = .ok (a, s') ∧ f = f' := by
  rw [upF_apply] at e
  cases hx : x s with
  | error er => rw [hx] at e; cases e
  | ok p => rw [hx] at e; cases e; exact ⟨rfl, rfl⟩

theorem WStep.of_op {p ins : Nat} {s s' : St} (h : OpR p ins s s') (hv : ins < s.nodes.length) (h0 : ins ≠ 0) : WStep s s' :=
  ⟨Nat.le_of_eq h.len.symm, fun w => h.wf w hv h0⟩

theorem WStep.of_rm {s s' : St} (h : RmR s s') : WStep s s' := ⟨Nat.le_of_eq h.len.symm, h.wf⟩

/-- the tail of (*footnoteBlockParser).Close: `node.Parent().RemoveChild(node); list.AppendChild(list, node)` -/
def fnCloseTail (list node : Nat) : MF Unit := do
  match (← GM.ConvertF.up (getNode node)).parent with
  | none => throw .nil
  | some p => GM.ConvertF.up (removeChild p node)
  GM.ConvertF.up (appendChild list node)

theorem fnCloseTail_inv (hP : Mono P) (list node : Nat) (f2 : FS) (s2 : St) (a : Unit) (f' : FS) (s' : St) (hi2 : FI P f2 s2)
    (hlist : 0 < list ∧ list < s2.nodes.length) (hn : 0 < node ∧ node < s2.nodes.length)
    (e : fnCloseTail list node f2 s2 = .ok ((a, f'), s')) : FI P f' s' := by
  unfold fnCloseTail at e
  obtain ⟨nd, f8, s8, g5, ee⟩ := mf_bind_ok e
  clear e
  obtain ⟨hgn, rfl⟩ := upF_ok g5
  obtain ⟨hnd, rfl⟩ := getNode_ok hgn
  dsimp only at ee
  cases hpar : nd.parent with
  | none =>
    rw [hpar] at ee
    obtain ⟨_, f6, s6, g4, e1⟩ := mf_bind_ok ee
    cases g4
  | some p =>
    rw [hpar] at ee
    obtain ⟨_, f7, s7, e2, e⟩ := mf_bind_ok ee
    obtain ⟨hr, rfl⟩ := upF_ok e2
    have hrm := (removeChild_rm p node _ s7 hr).1
    have hi7 := hi2.step hP (.of_rm hrm)
    have hl7 := hrm.len
    obtain ⟨hap, rfl⟩ := upF_ok e
    have hop := appendChild_op list node s7 s' hap
    exact hi7.step hP (.of_op hop (by omega) (by omega))

/-- (*footnoteBlockParser).Close on a Footnote node keeps the tree and the footnote state well-formed -/
theorem fnClose_inv (hP : Mono P) (node : Nat) (f : FS) (s : St) (a : Unit) (f' : FS) (s' : St) (hi : FI P f s)
    (hn : 0 < node ∧ node < s.nodes.length) (e : fnClose node f s = .ok ((a, f'), s')) : FI P f' s' := by
  unfold fnClose at e
  obtain ⟨f0, f1, s1, e0, ee⟩ := mf_bind_ok e
  have hf0 : f = f0 ∧ f = f1 ∧ s = s1 := by cases e0; exact ⟨rfl, rfl, rfl⟩
  clear e e0
  obtain ⟨h0, h1, h2⟩ := hf0
  subst h0 h1 h2
  dsimp only at ee
  cases hl : f.list with
  | some l =>
    rw [hl] at ee
    obtain ⟨list, f2, s2, e1, e⟩ := mf_bind_ok ee
    cases e1
    exact fnCloseTail_inv hP _ node _ _ a f' s' hi (hi.2.1.1 _ hl) hn e
  | none =>
    rw [hl] at ee
    obtain ⟨l, f3, s3, g1, e1⟩ := mf_bind_ok ee
    obtain ⟨hnew, rfl⟩ := upF_ok g1
    have hnew' : Blocks.newNode { kind := Blocks.Kind.blockquote } s = .ok (l, s3) := hnew
    obtain ⟨rfl, rfl⟩ := newNode_ok hnew'
    have hst : WStep s { s with nodes := s.nodes ++ [{ kind := Blocks.Kind.blockquote }] } :=
      .of_lr ((GM.ConvertH.newNode_lk _ rfl rfl).h s _ _ hnew')
    have hi3 := hi.step hP hst
    obtain ⟨_, f4, s4, g2, e1⟩ := mf_bind_ok e1
    have hg2 : f4 = { f with list := some s.nodes.length } ∧ s4 = { s with nodes := s.nodes ++ [{ kind := Blocks.Kind.blockquote }] } := by
      cases g2; exact ⟨rfl, rfl⟩
    obtain ⟨rfl, rfl⟩ := hg2
    have hlv : 0 < s.nodes.length ∧ s.nodes.length < (s.nodes ++ [({ kind := Blocks.Kind.blockquote } : Blocks.Node)]).length :=
      ⟨hi.1.ne, by simp⟩
    have hi4 : FI P { f with list := some s.nodes.length } { s with nodes := s.nodes ++ [{ kind := Blocks.Kind.blockquote }] } :=
      ⟨hi3.1, ⟨fun l' hl' => by simp only [Option.some.injEq] at hl'; subst hl'; exact hlv, hi3.2.1.2⟩, hi3.2.2⟩
    obtain ⟨st, f5, s5, g3, e1⟩ := mf_bind_ok e1
    obtain ⟨hget, rfl⟩ := upF_ok g3
    have hget' : st = ({ s with nodes := s.nodes ++ [{ kind := Blocks.Kind.blockquote }] } : St) ∧
        s5 = ({ s with nodes := s.nodes ++ [{ kind := Blocks.Kind.blockquote }] } : St) := by cases hget; exact ⟨rfl, rfl⟩
    obtain ⟨rfl, rfl⟩ := hget'
    dsimp only at e1
    generalize anchorLoop f _ _ _ node = r at e1
    cases r with
    | none =>
      obtain ⟨_, f6, s6, g4, e1⟩ := mf_bind_ok e1
      cases g4
    | some anchor =>
      dsimp only at e1
      generalize Blocks.Node.parent _ = q at e1
      cases q with
      | none =>
        obtain ⟨_, f6, s6, g4, e1⟩ := mf_bind_ok e1
        cases g4
      | some ap =>
        obtain ⟨_, f6, s6, g4, e1⟩ := mf_bind_ok e1
        obtain ⟨hins, rfl⟩ := upF_ok g4
        have hop := insertBefore_op ap (some anchor) s.nodes.length _ s6 hins
        have hw : WStep _ s6 := .of_op hop hlv.2 (by have := hlv.1; omega)
        have hi6 := hi4.step hP hw
        have hl6 := hw.len
        obtain ⟨list, f2, s2, e2, e⟩ := mf_bind_ok e1
        cases e2
        refine fnCloseTail_inv hP _ node _ _ a f' s' hi6 ⟨hlv.1, by simp at hl6 ⊢; omega⟩ ⟨hn.1, by simp at hl6 ⊢; omega⟩ e

/-! ### the driver -/

theorem lookup_mem : ∀ (l : List (Nat × Bytes)) (a : Nat), (l.lookup a).isSome = true → ∃ p ∈ l, p.1 = a
  | [], _, h => by simp [List.lookup] at h
  | (k, v) :: l, a, h => by
    by_cases hk : a = k
    · exact ⟨(k, v), List.mem_cons_self .., hk.symm⟩
    · have : (a == k) = false := by simpa using hk
      rw [List.lookup, this] at h
      obtain ⟨p, hp, e⟩ := lookup_mem l a h
      exact ⟨p, List.mem_cons_of_mem _ hp, e⟩

theorem isFn_valid {f : FS} {s : St} {node : Nat} (h : IdsOK f s) (hf : f.isFn node = true) : 0 < node ∧ node < s.nodes.length := by
  obtain ⟨p, hp, e⟩ := lookup_mem f.refs node hf
  subst e
  exact h.2 p hp

theorem bpCloseF_inv (hP : Mono P) (bp : BP) (node : Nat) : InvF P QT' (bpCloseF bp node) := by
  constructor
  intro f s a f' s' hi e
  unfold bpCloseF at e
  obtain ⟨f0, f1, s1, e0, ee⟩ := mf_bind_ok e
  have hf0 : f = f0 ∧ f = f1 ∧ s = s1 := by cases e0; exact ⟨rfl, rfl, rfl⟩
  clear e e0
  obtain ⟨h0, h1, h2⟩ := hf0
  subst h0 h1 h2
  by_cases hfn : f.isFn node = true
  · rw [if_pos hfn] at ee
    exact ⟨fnClose_inv hP node f s a f' s' hi (isFn_valid hi.2.1 hfn) ee, trivial⟩
  · rw [if_neg hfn] at ee
    exact (InvF.up hP (Wk.of_stp (bpClose_stp bp node))).h f s a f' s' hi ee

theorem bpContinueF_inv (hP : Mono P) (bp : BP) (node : Nat) : InvF P QT' (bpContinueF bp node) := by
  have := fun n => fnContinue_inv (P := P) hP n
  unfold bpContinueF; invf

theorem bpOpenF_inv (hP : Mono P) (bp : BPF) (parent : Nat) : InvF P Qopen (bpOpenF bp parent) := by
  cases bp with
  | footnote => exact fnOpen_inv hP parent
  | core bp =>
    constructor
    intro f s a f' s' hi e
    have e' : (GM.ConvertF.up (bpOpen bp parent)) f s = .ok ((a, f'), s') := e
    obtain ⟨hx, hf⟩ := upF_ok e'
    subst hf
    obtain ⟨hlr, hid⟩ := (bpOpen_oj bp parent).h s a s' hx
    refine ⟨hi.step hP (.of_lr hlr), fun nd hnd => ⟨?_, (hid nd hnd).2.1⟩⟩
    have := (hid nd hnd).1
    have := hi.1.ne
    omega

section driver
variable (pts : List PT) (hpts : ∀ pt ∈ pts, PTStp pt)
include hpts

theorem closeLoopF_inv (hP : Mono P) (blocks : List Block) (to : Int) : ∀ k, InvF P QT' (closeLoopF pts blocks to k)
  | 0 => by unfold closeLoopF; invf
  | k + 1 => by
    have ih := closeLoopF_inv hP blocks to k
    have h1 := fun bp n => bpCloseF_inv (P := P) hP bp n
    have h2 : ∀ n, Wk (transformParagraph pts n) := fun n => .of_stp (transformParagraph_stp pts hpts n)
    unfold closeLoopF; invf

theorem closeBlocksF_inv (hP : Mono P) (frm to : Int) : InvF P QT' (closeBlocksF pts frm to) := by
  have h1 := fun blocks to k => closeLoopF_inv (P := P) pts hpts hP blocks to k
  unfold closeBlocksF; invf

theorem requireParaF_inv (hP : Mono P) (parent : Nat) (last : Option Nat) (lastBlock : Option Block) :
    InvF P QT' (requireParaF pts parent last lastBlock) := by
  have h1 := fun bp n => bpCloseF_inv (P := P) hP bp n
  have h2 : ∀ n, Wk (transformParagraph pts n) := fun n => .of_stp (transformParagraph_stp pts hpts n)
  unfold requireParaF; invf

omit hpts in
theorem mono_qopen (r : Option Nat × PState) : Mono (Qopen r) :=
  fun a b hab h nd hnd => ⟨(h nd hnd).1, Nat.lt_of_lt_of_le (h nd hnd).2 hab⟩

omit hpts in
theorem appendChild_inv (hP : Mono P) (parent node : Nat) (hv : ∀ n, P n → 0 < node ∧ node < n) :
    InvF P QT' (GM.ConvertF.up (appendChild parent node)) := by
  constructor
  intro f s a f' s' hi e
  obtain ⟨hx, hf⟩ := upF_ok e
  subst hf
  have hop := appendChild_op parent node s s' hx
  have := hv _ hi.2.2
  exact ⟨hi.step hP (.of_op hop this.2 (by omega)), trivial⟩

theorem tryParsersF_inv (parent : Nat) (blankLine continuable : Bool) (w : Int) :
    ∀ (bps : List BPF) {P : Nat → Prop}, Mono P → ∀ (result : OpenResult) (lastBlock : Option Block),
      InvF P QT' (tryParsersF pts parent blankLine continuable w bps result lastBlock)
  | [], P, hP, _, _ => by unfold tryParsersF; invf
  | bp :: bps, P, hP, result, lastBlock => by
    have ih := fun (P : Nat → Prop) (hP : Mono P) r lb => tryParsersF_inv parent blankLine continuable w bps (P := P) hP r lb
    have ihP := ih P hP
    unfold tryParsersF
    apply InvF.ite
    · invf
    apply InvF.ite
    · invf
    apply InvF.bind' (by invf)
    intro lastBlock'
    apply InvF.bind (bpOpenF_inv hP bp parent)
    intro r
    obtain ⟨node, state⟩ := r
    have hP2 : Mono (fun n => P n ∧ Qopen (node, state) n) := mono_and hP (mono_qopen _)
    have ih2 := ih _ hP2
    cases node with
    | none => exact ih2 _ _
    | some node =>
      have h1 := fun parent last lb => requireParaF_inv (P := fun n => P n ∧ Qopen (some node, state) n) pts hpts hP2 parent last lb
      have h2 := fun frm to => closeBlocksF_inv (P := fun n => P n ∧ Qopen (some node, state) n) pts hpts hP2 frm to
      have h3 := fun parent => appendChild_inv (P := fun n => P n ∧ Qopen (some node, state) n) hP2 parent node (fun n h => h.2 node rfl)
      dsimp only
      invf

theorem retryStepF_inv (hP : Mono P) (blankLine tdone continuable : Bool) (parent : Nat) (w : Int) (bps : List BPF)
    (result : OpenResult) (lastBlock : Option Block) (again : Bool → Bool → Nat → OpenResult → Option Block → MF OpenResult)
    (ha : ∀ a b c d e, InvF P QT' (again a b c d e)) :
    InvF P QT' (retryStepF pts blankLine tdone continuable parent w bps result lastBlock again) := by
  have h1 := fun r lb => tryParsersF_inv pts hpts parent blankLine continuable w bps (P := P) hP r lb
  unfold retryStepF; invf

theorem openBlocksLoopF_inv (hP : Mono P) (on : Bool) (blankLine : Bool) :
    ∀ (fuel : Nat) (tdone continuable : Bool) (parent : Nat) (result : OpenResult) (lastBlock : Option Block),
      InvF P QT' (openBlocksLoopF on pts blankLine fuel tdone continuable parent result lastBlock)
  | 0, _, _, _, _, _ => by unfold openBlocksLoopF; invf
  | fuel + 1, tdone, continuable, parent, result, lastBlock => by
    have ih := openBlocksLoopF_inv hP on blankLine fuel
    have h1 := fun tdone continuable parent w bps result lastBlock =>
      retryStepF_inv (P := P) pts hpts hP blankLine tdone continuable parent w bps result lastBlock
        (openBlocksLoopF on pts blankLine fuel) ih
    unfold openBlocksLoopF; invf

theorem openBlocksF_inv (hP : Mono P) (on : Bool) (parent : Nat) (blankLine : Bool) :
    InvF P QT' (openBlocksF on pts parent blankLine) := by
  have h1 := openBlocksLoopF_inv (P := P) pts hpts hP on blankLine
  unfold openBlocksF; invf

theorem lineLoopF_inv (hP : Mono P) (on : Bool) (parent : Nat) (openedBlocks : List Block) (lastIndex : Int) :
    ∀ (rest : List Block) (i : Int) (blankLines : List LineStat),
      InvF P QT' (lineLoopF on pts parent openedBlocks lastIndex rest i blankLines)
  | [], _, _ => by unfold lineLoopF; invf
  | be :: rest, i, blankLines => by
    have ih := lineLoopF_inv hP on parent openedBlocks lastIndex rest
    have h1 := fun frm to => closeBlocksF_inv (P := P) pts hpts hP frm to
    have h2 := fun parent blank => openBlocksF_inv (P := P) pts hpts hP on parent blank
    have h3 := fun bp n => bpContinueF_inv (P := P) hP bp n
    unfold lineLoopF; invf

theorem linesLoopF_inv (hP : Mono P) (on : Bool) (parent : Nat) :
    ∀ (fuel : Nat) (blankLines : List LineStat), InvF P QT' (linesLoopF on pts parent fuel blankLines)
  | 0, _ => by unfold linesLoopF; invf
  | fuel + 1, blankLines => by
    have ih := linesLoopF_inv hP on parent fuel
    have h1 := fun ob li rest i bl => lineLoopF_inv (P := P) pts hpts hP on parent ob li rest i bl
    unfold linesLoopF; invf

theorem blocksLoopF_inv (hP : Mono P) (on : Bool) (parent : Nat) :
    ∀ (fuel : Nat) (blankLines : List LineStat), InvF P QT' (blocksLoopF on pts parent fuel blankLines)
  | 0, _ => by unfold blocksLoopF; invf
  | fuel + 1, blankLines => by
    have ih := blocksLoopF_inv hP on parent fuel
    have h1 := fun fuel bl => linesLoopF_inv (P := P) pts hpts hP on parent fuel bl
    have h2 := fun parent blank => openBlocksF_inv (P := P) pts hpts hP on parent blank
    unfold blocksLoopF; invf

theorem parseBlocksF_inv (hP : Mono P) (on : Bool) (parent : Nat) : InvF P QT' (parseBlocksF on pts parent) := by
  have h1 := fun fuel bl => blocksLoopF_inv (P := P) pts hpts hP on parent fuel bl
  unfold parseBlocksF; invf

end driver

/-! ### the block phase -/

/-- STORE WELL-FORMEDNESS OF THE `MF` DRIVER: whenever the block phase with the footnote block parser ends normally, the
    store is tree-shaped and the footnote state (the list, the definitions) names existing nodes other than node 0 -/
theorem runF_wf (on : Bool) (pts : List PT) (hpts : ∀ pt ∈ pts, PTStp pt) (src : Bytes) (f : FS) (st : St)
    (e : runF on pts src = .ok (f, st)) : TreeWF st ∧ IdsOK f st := by
  unfold runF at e
  cases hx : parseBlocksF on pts 0 {} (initSt src) with
  | error er => rw [hx] at e; cases e
  | ok r =>
    obtain ⟨⟨a, f'⟩, s'⟩ := r
    rw [hx] at e
    cases e
    have hids : IdsOK ({} : FS) (initSt src) := by
      constructor
      · intro l hl; cases hl
      · intro p hp; cases hp
    have hi : FI (fun _ => True) ({} : FS) (initSt src) := ⟨(J_init src).wf, hids, trivial⟩
    have := (parseBlocksF_inv (P := fun _ => True) pts hpts (fun _ _ _ _ => trivial) on 0).h _ _ _ _ _ hi hx
    exact ⟨this.1.1, this.1.2.1⟩

theorem blockPhaseF_wf (on guard : Bool) (src : Bytes) (f : FS) (st : St) (e : blockPhaseF on guard src = .ok (f, st)) :
    TreeWF st ∧ IdsOK f st :=
  runF_wf on _ (paragraphTransformers_stp guard) src f st e

/-- node 0 is never the FootnoteList and never a Footnote -/
theorem tagIn_root {f : FS} {st : St} (h : IdsOK f st) : tagIn f .body 0 = .plain := by
  unfold tagIn
  have h1 : (f.list == some 0) = false := by
    cases hl : f.list with
    | none => rfl
    | some l =>
      have := (h.1 l hl).1
      simp only [beq_eq_false_iff_ne, ne_eq, Option.some.injEq]
      omega
  have h2 : f.isFn 0 = false := by
    cases hf : f.isFn 0 with
    | false => rfl
    | true => have := (isFn_valid h hf).1; omega
  simp [h1, h2]

/-- THE ROOT MONITOR OF `monitorFires` NEVER FIRES -/
theorem root_monitor_never_fires (on guard : Bool) (src : Bytes) (f : FS) (st : St)
    (e : blockPhaseF on guard src = .ok (f, st)) :
    (f.list.isSome && !(tagIn f .body 0 == .plain && (st.nodes.getD 0 default).kind == .document)) = false := by
  obtain ⟨w, i⟩ := blockPhaseF_wf on guard src f st e
  have hk : (st.nodes.getD 0 default).kind = .document := w.rootKind
  rw [tagIn_root i, hk]
  simp

end GM.ConvertF
