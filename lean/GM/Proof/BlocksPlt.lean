/-
  GM.Proof.BlocksPlt — one more frame fact of the block parsers' `Close`: parent pointers always point to existing
  nodes (`PLT`). The tree operations only ever write `parent := none` or `parent := some p` with `p` in the store, and
  the store only grows.
-/
import GM.Proof.BlocksFrames

namespace GM.Blocks
open GM GM.Text GM.Spec GM.Proof.Reader

/-- every parent pointer points into the store -/
def PLT (s : St) : Prop := ∀ i p, (nd s i).parent = some p → p < s.nodes.length

/-- parents and length unchanged -/
theorem PLT.treeSame {s s' : St} (h : PLT s) (t : TreeSame s s') : PLT s' := by
  intro i p hi
  rw [(t.same i).2.1] at hi
  rw [t.len]
  exact h i p hi

/-- overwriting node `i` by a node whose parent pointer (if any) is in range -/
theorem plt_set (s : St) (i : Nat) (m : Node) (r : Reader) (pc : Ctx) (hp : PLT s)
    (hm : ∀ p, m.parent = some p → p < s.nodes.length) :
    PLT { r := r, nodes := s.nodes.set i m, pc := pc } := by
  intro j p hj
  show p < (s.nodes.set i m).length
  rw [List.length_set]
  by_cases hi : i < s.nodes.length
  · simp only [nd, nd_set _ _ _ _ hi] at hj
    split at hj
    · exact hm p hj
    · exact hp j p hj
  · simp only [nd] at hj
    rw [List.set_eq_of_length_le (Nat.le_of_not_lt hi)] at hj
    exact hp j p hj

/-- `modNode i f` keeps `PLT` if the new parent pointer of `i` (if any) is in range; this covers
    `(f n).parent = n.parent`, `(f n).parent = none` and `(f n).parent = some p` with `p` in the store -/
theorem plt_modNode {i : Nat} {f : Node → Node} {s : St} {a : Unit} {s' : St} (h : modNode i f s = .ok (a, s'))
    (hp : PLT s) (hf : ∀ p, (f (nd s i)).parent = some p → p < s.nodes.length) :
    PLT s' ∧ s'.nodes.length = s.nodes.length := by
  have e := fr_modNode_ok h
  subst e
  exact ⟨plt_set s i _ s.r s.pc hp hf, by simp⟩

/-- the three-way form of the `modNode` lemma -/
theorem plt_modNode' {i : Nat} {f : Node → Node} {s : St} {a : Unit} {s' : St} (h : modNode i f s = .ok (a, s'))
    (hp : PLT s)
    (hf : ∀ n, (f n).parent = n.parent ∨ (f n).parent = none ∨ ∃ p, p < s.nodes.length ∧ (f n).parent = some p) :
    PLT s' ∧ s'.nodes.length = s.nodes.length := by
  refine plt_modNode h hp fun p hq => ?_
  rcases hf (nd s i) with e | e | ⟨q, hq1, e⟩
  · rw [e] at hq; exact hp i p hq
  · rw [e] at hq; cases hq
  · rw [e] at hq; cases hq; exact hq1

/-- a new node without parent -/
theorem plt_append (s : St) (n : Node) (hp : PLT s) (hn : n.parent = none) :
    PLT { s with nodes := s.nodes ++ [n] } := by
  intro j p hj
  rw [fr_nd_append s n s.r s.pc] at hj
  show p < (s.nodes ++ [n]).length
  rw [List.length_append]
  split at hj
  · have := hp j p hj; omega
  · split at hj
    · rw [hn] at hj; cases hj
    · cases hj

theorem plt_newNode (n : Node) (s : St) (id : Nat) (s' : St) (hp : PLT s) (hn : n.parent = none)
    (h : newNode n s = .ok (id, s')) : PLT s' ∧ s'.nodes.length = s.nodes.length + 1 ∧ id = s.nodes.length := by
  cases h
  exact ⟨plt_append s n hp hn, by simp, rfl⟩

theorem plt_removeChild (p c : Nat) (s s' : St) (hp : PLT s) (h : removeChild p c s = .ok ((), s')) :
    PLT s' ∧ s'.nodes.length = s.nodes.length := by
  unfold removeChild at h
  obtain ⟨cn, s1, h1, h⟩ := fr_bind_ok h
  cases h1
  split at h
  · cases h; exact ⟨hp, rfl⟩
  · obtain ⟨_, s1, h1, h⟩ := fr_bind_ok h
    obtain ⟨p1, l1⟩ := plt_modNode h1 hp (fun q hq => hp p q hq)
    obtain ⟨p2, l2⟩ := plt_modNode h p1 (fun q hq => by cases hq)
    exact ⟨p2, by rw [l2, l1]⟩

theorem plt_ensureIsolated (c : Nat) (s s' : St) (hp : PLT s) (h : ensureIsolated c s = .ok ((), s')) :
    PLT s' ∧ s'.nodes.length = s.nodes.length := by
  unfold ensureIsolated at h
  obtain ⟨cn, s1, h1, h⟩ := fr_bind_ok h
  cases h1
  cases hq : (s.nodes.getD c default).parent with
  | some q => simp only [hq] at h; exact plt_removeChild q c s s' hp h
  | none => simp only [hq] at h; cases h; exact ⟨hp, rfl⟩

/-- the common part of `AppendChild` / `InsertBefore`: `c` becomes a child of the existing node `p` -/
theorem plt_attach (g : List Nat → List Nat) (p c : Nat) (s s' : St) (hp : PLT s) (hpl : p < s.nodes.length)
    (h : (do
      ensureIsolated c
      modNode p fun n => { n with children := g n.children }
      modNode c fun n => { n with parent := some p } : M Unit) s = .ok ((), s')) :
    PLT s' ∧ s'.nodes.length = s.nodes.length := by
  obtain ⟨_, s0, h0, h2⟩ := fr_bind_ok h
  obtain ⟨p0, l0⟩ := plt_ensureIsolated c s s0 hp h0
  obtain ⟨_, s1, h1, h3⟩ := fr_bind_ok h2
  obtain ⟨p1, l1⟩ := plt_modNode h1 p0 (fun q hq => p0 p q hq)
  obtain ⟨p2, l2⟩ := plt_modNode h3 p1 (fun q hq => by cases hq; rw [l1, l0]; exact hpl)
  exact ⟨p2, by rw [l2, l1, l0]⟩

theorem plt_appendChild (p c : Nat) (s s' : St) (hp : PLT s) (hpl : p < s.nodes.length)
    (h : appendChild p c s = .ok ((), s')) : PLT s' ∧ s'.nodes.length = s.nodes.length := by
  unfold appendChild at h
  exact plt_attach (fun l => l ++ [c]) p c s s' hp hpl h

theorem plt_insertBefore (p : Nat) (v1 : Option Nat) (ins : Nat) (s s' : St) (hp : PLT s) (hpl : p < s.nodes.length)
    (h : insertBefore p v1 ins s = .ok ((), s')) : PLT s' ∧ s'.nodes.length = s.nodes.length := by
  unfold insertBefore at h
  cases v1 with
  | none => exact plt_appendChild p ins s s' hp hpl h
  | some v =>
    simp only at h
    obtain ⟨vn, s1, h1, h⟩ := fr_bind_ok h
    cases h1
    split at h
    · exact plt_appendChild p ins s s' hp hpl h
    · exact plt_attach (fun l => insertBeforeIn v ins l) p ins s s' hp hpl h

theorem plt_replaceChild (p v ins : Nat) (s s' : St) (hp : PLT s) (hpl : p < s.nodes.length)
    (h : replaceChild p v ins s = .ok ((), s')) : PLT s' ∧ s'.nodes.length = s.nodes.length := by
  unfold replaceChild at h
  obtain ⟨_, s1, h1, h⟩ := fr_bind_ok h
  obtain ⟨p1, l1⟩ := plt_insertBefore p (some v) ins s s1 hp hpl h1
  obtain ⟨p2, l2⟩ := plt_removeChild p v s1 s' p1 h
  exact ⟨p2, by rw [l2, l1]⟩

/-! #### listParser.Close -/

theorem plt_tightenItem (child : Nat) : ∀ (gcs : List Nat) (s s' : St), child < s.nodes.length → PLT s →
    tightenItem child gcs s = .ok ((), s') → PLT s' ∧ s.nodes.length ≤ s'.nodes.length := by
  intro gcs
  induction gcs with
  | nil => intro s s' _ hp h; unfold tightenItem at h; cases h; exact ⟨hp, Nat.le_refl _⟩
  | cons gc gcs ih =>
    intro s s' hc hp h
    unfold tightenItem at h
    obtain ⟨g, s0, h0, h1⟩ := fr_bind_ok h
    cases h0
    simp only at h1
    split at h1
    · obtain ⟨tb, s1, h2, h3⟩ := fr_bind_ok h1
      obtain ⟨p1, l1, etb⟩ := plt_newNode _ s tb s1 hp rfl h2
      obtain ⟨_, s2, h4, h5⟩ := fr_bind_ok h3
      obtain ⟨p2, l2⟩ := plt_replaceChild child gc tb s1 s2 p1 (by omega) h4
      obtain ⟨p3, l3⟩ := ih s2 s' (by omega) p2 h5
      exact ⟨p3, by omega⟩
    · exact ih s s' hc hp h1

theorem plt_tightenItems : ∀ (cs : List Nat) (s s' : St), (∀ c ∈ cs, c < s.nodes.length) → PLT s →
    tightenItems cs s = .ok ((), s') → PLT s' ∧ s.nodes.length ≤ s'.nodes.length := by
  intro cs
  induction cs with
  | nil => intro s s' _ hp h; unfold tightenItems at h; cases h; exact ⟨hp, Nat.le_refl _⟩
  | cons child rest ih =>
    intro s s' hc hp h
    unfold tightenItems at h
    obtain ⟨cn, s0, h0, h1⟩ := fr_bind_ok h
    cases h0
    obtain ⟨_, s1, h2, h3⟩ := fr_bind_ok h1
    obtain ⟨p1, l1⟩ := plt_tightenItem child _ s s1 (hc child (by simp)) hp h2
    obtain ⟨p2, l2⟩ := ih s1 s' (fun c hm => Nat.lt_of_lt_of_le (hc c (by simp [hm])) l1) p1 h3
    exact ⟨p2, Nat.le_trans l1 l2⟩

/-- closing a List keeps all parent pointers in range (the store may grow) -/
theorem listClose_plt (node : Nat) (s s' : St) (hkids : KidsOK s) (hkind : (nd s node).kind = .list) (hp : PLT s)
    (h : listClose node s = .ok ((), s')) : PLT s' ∧ s.nodes.length ≤ s'.nodes.length := by
  unfold listClose at h
  obtain ⟨list, s0, h0, h1⟩ := fr_bind_ok h
  cases h0
  obtain ⟨st, s0, h0, h2⟩ := fr_bind_ok h1
  cases h0
  simp only at h2
  obtain ⟨_, s1, h3, h4⟩ := fr_bind_ok h2
  have t1 : TreeSame s s1 := fr_modNode_treeSame h3 (fun _ => ⟨rfl, rfl, rfl, rfl⟩)
  have p1 : PLT s1 := hp.treeSame t1
  split at h4
  · obtain ⟨p2, l2⟩ := plt_tightenItems _ s1 s' (fun c hc => by
      rw [t1.len]; exact (hkids.kids node c hkind hc).1) p1 h4
    exact ⟨p2, by rw [← t1.len]; exact l2⟩
  · cases h4; exact ⟨p1, Nat.le_of_eq t1.len.symm⟩

/-! #### setextHeadingParser.Close -/

theorem setextClose_plt (node : Nat) (s s' : St) (hk : KeysOK s) (hb : BlockOK s ⟨node, .setext⟩) (hp : PLT s)
    (h : setextClose node s = .ok ((), s')) : PLT s' ∧ s'.nodes.length = s.nodes.length := by
  unfold setextClose at h
  obtain ⟨_, htmp⟩ := hb.setext rfl
  have hkind : (nd s node).kind = .heading := hb.kind
  obtain ⟨t, ht⟩ := Option.isSome_iff_exists.mp htmp
  obtain ⟨_, htkind, htlines⟩ := hk.tmp t ht
  have hne : node ≠ t := by
    intro e; rw [e, htkind] at hkind; cases hkind
  obtain ⟨hn, s0, h0, h1⟩ := fr_bind_ok h
  cases h0
  obtain ⟨seg, s0, h0, h2⟩ := fr_bind_ok h1
  obtain ⟨_, e0⟩ := fr_liftE_ok h0
  rw [e0] at h2
  obtain ⟨_, s1, h3, h4⟩ := fr_bind_ok h2
  have e1 := fr_modNode_ok h3
  have t1 : TreeSame s s1 := fr_modNode_treeSame h3 (fun _ => ⟨rfl, rfl, rfl, rfl⟩)
  have epc : s1.pc.tmpPara = some t := by rw [e1]; exact ht
  obtain ⟨pc, s2, h5, h6⟩ := fr_bind_ok h4
  cases h5
  simp only [epc] at h6
  obtain ⟨tmp, s2, h7, h8⟩ := fr_bind_ok h6
  cases h7
  clear h6
  have h6 := h8
  obtain ⟨_, s2, h9, h10⟩ := fr_bind_ok h6
  have e2 : s2.nodes = s1.nodes := by cases h9; rfl
  obtain ⟨tn, s3, h11, h12⟩ := fr_bind_ok h10
  cases h11
  have etn : s2.nodes.getD t default = s.nodes.getD t default := by
    simp only [e2, e1]
    exact SpecHtml.getD_set_ne _ _ _ _ _ hne
  rw [etn] at h12
  have t2 : TreeSame s s2 := t1.trans (TreeSame.of_nodes_eq e2)
  split at h12
  · rename_i hc
    exfalso
    cases hh : (nd s t).lines with
    | nil => exact htlines hh
    | cons a b => rw [hh] at hc; simp at hc
  · obtain ⟨_, s3, h13, h14⟩ := fr_bind_ok h12
    have t3 : TreeSame s2 s3 := fr_modNode_treeSame h13 (fun _ => ⟨rfl, rfl, rfl, rfl⟩)
    have t4 : TreeSame s s3 := t2.trans t3
    have p4 : PLT s3 := hp.treeSame t4
    cases htp : (s.nodes.getD t default).parent with
    | none => simp only [htp] at h14; cases h14; exact ⟨p4, t4.len⟩
    | some tp =>
      simp only [htp] at h14
      obtain ⟨p5, l5⟩ := plt_removeChild tp t s3 s' p4 h14
      exact ⟨p5, by rw [l5, t4.len]⟩

/-! #### summary: every `Close` keeps the parent pointers in range, and never shrinks the store -/

theorem bpClose_plt_len (src : Bytes) (bp : BP) (node : Nat) (s s' : St) (hn : NodesOK src s) (hk : KeysOK s)
    (hb : BlockOK s ⟨node, bp⟩) (hkids : KidsOK s) (hp : PLT s) (h : bpClose bp node s = .ok ((), s')) :
    PLT s' ∧ s.nodes.length ≤ s'.nodes.length := by
  cases bp <;> unfold bpClose at h
  · obtain ⟨a, b⟩ := setextClose_plt node s s' hk hb hp h
    exact ⟨a, Nat.le_of_eq b.symm⟩
  · cases h; exact ⟨hp, Nat.le_refl _⟩
  · exact listClose_plt node s s' hkids hb.kind hp h
  · cases h; exact ⟨hp, Nat.le_refl _⟩
  · have t := (codeClose_tsame node).h s () s' h
    exact ⟨hp.treeSame t, Nat.le_of_eq t.len.symm⟩
  · cases h; exact ⟨hp, Nat.le_refl _⟩
  · have t := (fencedClose_tsame node).h s () s' h
    exact ⟨hp.treeSame t, Nat.le_of_eq t.len.symm⟩
  · cases h; exact ⟨hp, Nat.le_refl _⟩
  · cases h; exact ⟨hp, Nat.le_refl _⟩
  · have t := paragraphClose_tf node s s' hb hn h
    exact ⟨hp.treeSame t, Nat.le_of_eq t.len.symm⟩

theorem bpClose_plt (src : Bytes) (bp : BP) (node : Nat) (s s' : St) (hn : NodesOK src s) (hk : KeysOK s)
    (hb : BlockOK s ⟨node, bp⟩) (hkids : KidsOK s) (hp : PLT s) (h : bpClose bp node s = .ok ((), s')) : PLT s' :=
  (bpClose_plt_len src bp node s s' hn hk hb hkids hp h).1

/-- no `Continue` changes a parent pointer or the store length -/
theorem bpContinue_plt (bp : BP) (node : Nat) (s : St) (st : PState) (s' : St) (hp : PLT s)
    (h : bpContinue bp node s = .ok (st, s')) : PLT s' :=
  hp.treeSame (bpContinue_treeSame bp node s st s' h)

end GM.Blocks
