-- GENERATED from BlocksTNP2.lean by tools/port_blocks_v.py (package headingids): the same proofs for the monitored driver runV. Do not edit.
/-
  GM.Proof.BlocksTNP2 — no-panic proof of the block driver WITH paragraph transformers, part 2: one `openBlocksV` call
  (`tryParsersV`, `retryStepV` with both contract monitors, `openBlocksLoopV`, `openBlocksV`) for a set `A` of block
  parsers WITHOUT the setext heading parser (the only RequireParagraph parser): then `requireParaV` is never entered,
  `.retryTransformed` is never answered (monitor (2) cannot fire), temporaryParagraphKey stays unset, and transformers
  run in `closeBlocksV` only (GM.Proof.BlocksTNP1). The invariant structures `Win`, `Mid`, `OBPost` of
  GM.Proof.BlocksDriver are reused unchanged (inside one `openBlocksV` call no transformer runs: the only `closeBlocksV`
  there drops a parentless block).
-/
import GM.Proof.BlocksVNP1

namespace GM.Blocks.TV
open GM GM.Text GM.Spec GM.Proof.Reader

/-- what `tryParsersV` hands back (no setext parser: never `.retryTransformed`, the temporary paragraph key stays unset) -/
def TPPostT (src : Bytes) (A : BP → Prop) (old : List Block) (s0 : St) (c : RCur)
    (x : TryOutcomeT × OpenResult × Option Block) (s' : St) : Prop :=
  ∃ c' new', RI src s'.r c' ∧ PadOK c' ∧ c.p ≤ c'.p ∧ Win src A old s0 s' new' ∧
    ((x.2.1 = .noBlocksOpened ∧ new' = [] ∧ x.2.2 = old.getLast?) ∨ (x.2.1 = .newBlocksOpened ∧ new' ≠ [])) ∧
    (∀ k ∈ new', ∀ b ∈ old, CompatT s' k b) ∧ s'.pc.tmpPara = none ∧
    match x.1 with
    | .retry _ => (∀ b ∈ new', b.bp.isContainer = true) ∧ c.p < c'.p
    | .retryTransformed => False
    | .done => Leafy new'

theorem closeBlocksV_last_skip (pts : List PT) (pre : List Block) (x : Block) (s : St) (hop : s.pc.opened = pre ++ [x])
    (hp : (nd s x.node).parent.isSome = false) :
    closeBlocksV pts ((s.pc.opened.length : Int) - 1) ((s.pc.opened.length : Int) - 1) s =
      .ok ((), { s with pc := { s.pc with opened := pre } }) := by
  have hlen : ((s.pc.opened.length : Int) - 1) = (pre.length : Int) := by rw [hop]; simp
  rw [hlen]
  unfold closeBlocksV
  simp only [bind, StateT.bind, getPc, pure, StateT.pure, Except.bind, Except.pure]
  have hcnt : ((pre.length : Int) - (pre.length : Int) + 1).toNat = 1 := by omega
  rw [hcnt, hop, closeLoopV_eq pts (pre ++ [x]) pre.length 1 (by simp)]
  have hdt : ((pre ++ [x]).drop pre.length).take 1 = [x] := by simp
  rw [hdt]
  have hp' : (s.nodes.getD x.node default).parent.isSome = false := hp
  simp only [List.reverse_cons, List.reverse_nil, List.nil_append, closeListV, bind, StateT.bind, getNode, pure, StateT.pure,
    Except.bind, Except.pure, hp', Bool.and_false, Bool.false_eq_true, if_false]
  have hfl : ((pre.length : Int) == ((pre ++ [x]).length : Int) - 1) = true := by simp
  rw [if_pos hfl]
  have hpre : closeBlocks.slice' (pre ++ [x]) 0 (pre.length : Int) = .ok pre := by
    unfold closeBlocks.slice'
    rw [if_pos ⟨by omega, by omega, by simp; omega⟩]
    simp
  rw [hpre]
  rfl


/-- what `openBlocksV` hands back: `new'` = the blocks it appended; the temporary paragraph key is unset -/
def OBPostT (src : Bytes) (A : BP → Prop) (old : List Block) (s0 : St) (c : RCur) (res : OpenResult) (s' : St) : Prop :=
  ∃ c' new', RIa src s'.r c' ∧ c.p ≤ c'.p ∧ Win src A old s0 s' new' ∧ Leafy new' ∧
    (∀ k ∈ new', ∀ b ∈ old, CompatT s' k b) ∧ (res = .paragraphContinuation → new' = []) ∧ s'.pc.tmpPara = none

/-- the state invariant at line boundaries (no setext parser: the temporary paragraph key is unset) -/
structure Stable (src : Bytes) (A : BP → Prop) (s : St) : Prop where
  nodes : NodesOK src s
  keys : KeysOK s
  blocks : ∀ b ∈ s.pc.opened, BlockOK s b ∧ A b.bp
  leafy : Leafy s.pc.opened
  tmp : s.pc.tmpPara = none

section tp
variable {src : Bytes} {A : BP → Prop} (sp : Specs src A) {e : Panic} {pts : List PT} (hpts : PTsSpec src e pts)
  (hNS : ¬ A .setext)
include sp hpts hNS

omit sp hpts hNS in
/-- the tail of a successful attempt: `parent.AppendChild(node)`, push onto `openedBlocks` -/
theorem tryTailT_oke {old : List Block} {s0 : St} {c c' : RCur} (parent id : Nat) (bp : BP) (st : PState)
    (lb0 : Option Block) (s : St) (new : List Block) (hm : Mid src A old s0 id bp s new)
    (hw0 : ∀ b ∈ old, b.node < s0.nodes.length) (hleafy : Leafy old) (hfresh : ∀ b ∈ new, s0.nodes.length ≤ b.node)
    (hallc : ∀ b ∈ new, b.bp.isContainer = true)
    (hri : RI src s.r c') (hpad : PadOK c') (hle : c.p ≤ c'.p) (hprog : st.hasChildren = true → c.p < c'.p)
    (hkids : st.hasChildren = true → bp.isContainer = true) (htmp : s.pc.tmpPara = none) :
    OKE e (TPPostT src A old s0 c)
      ((do
        appendChild parent id
        modPc fun pc => { pc with opened := pc.opened ++ [{ node := id, bp := bp }] }
        if st.hasChildren then return (TryOutcomeT.retry id, OpenResult.newBlocksOpened, lb0)
        return (TryOutcomeT.done, OpenResult.newBlocksOpened, lb0) : M _) s) := by
  obtain ⟨s1, e1, hf, hpar⟩ := appendChild_okl parent id s
  simp only [bind, StateT.bind, e1, Except.bind, modPc, pure, StateT.pure, Except.pure]
  -- the final state
  generalize hs2 : ({ r := s1.r, nodes := s1.nodes, pc := { s1.pc with opened := s1.pc.opened ++ [{ node := id, bp := bp }] } } : St) = s2
  have hr2 : s2.r = s.r := by rw [← hs2]; exact hf.r
  have hn2 : s2.nodes = s1.nodes := by rw [← hs2]
  have hop2 : s2.pc.opened = s.pc.opened ++ [{ node := id, bp := bp }] := by rw [← hs2]; simp only; rw [hf.pc]
  have htmp2 : s2.pc.tmpPara = s.pc.tmpPara := by rw [← hs2]; simp only; rw [hf.pc]
  have hfen2 : s2.pc.fence = s.pc.fence := by rw [← hs2]; simp only; rw [hf.pc]
  have hnd2 : ∀ j, nd s2 j = nd s1 j := fun j => by simp only [nd, hn2]
  have hext : Ext s s2 := by
    have := hf.ext
    exact ⟨by rw [hn2]; exact this.len, fun j hj => by rw [hnd2]; exact this.kind j hj,
      fun j hj hk hl => by rw [hnd2]; exact this.linesNE j hj hk hl⟩
  have hnodes2 : NodesOK src s2 := by
    have := hf.nodesOK hm.nodes
    intro n hn; rw [hn2] at hn; exact this n hn
  have hkeys2 : KeysOK s2 := hm.keys.ext hext (.inl htmp2) (.inl hfen2)
  have hbok : ∀ b, BlockOK s b → BlockOK s2 b := fun b hb =>
    hb.ext hext (fun hp => by rw [htmp2]; exact (hb.setext hp).2) (fun hp => by rw [hfen2]; exact hb.fenced hp)
  have hwin : Win src A old s0 s2 (new ++ [{ node := id, bp := bp }]) := by
    refine ⟨hnodes2, hkeys2, hm.ext.trans hext, ?_, ?_, hw0, hleafy, ?_, ?_⟩
    · rcases hm.shape with h | ⟨h1, h2⟩
      · exact .inl (by rw [hop2, h, List.append_assoc])
      · exact .inr ⟨h1, by simp, by rw [hop2, h2, List.append_assoc]⟩
    · intro b hb
      rw [hop2] at hb
      rcases List.mem_append.1 hb with hb | hb
      · exact ⟨hbok b (hm.blocks b hb).1, (hm.blocks b hb).2⟩
      · simp only [List.mem_singleton] at hb; subst hb; exact ⟨hbok _ hm.nb, hm.abp⟩
    · intro b hb
      rcases List.mem_append.1 hb with hb | hb
      · exact hfresh b hb
      · simp only [List.mem_singleton] at hb; subst hb; exact hm.idge
    · intro lb hlb
      rw [List.getLast?_concat] at hlb
      cases hlb
      simp only
      rw [hnd2, hpar hm.nb.lt]; rfl
  have hcompat : ∀ k ∈ new ++ [{ node := id, bp := bp }], ∀ b ∈ old, CompatT s2 k b := by
    intro k hk b hb
    rcases List.mem_append.1 hk with hk | hk
    · exact CompatT.of_container_left (hallc k hk)
    · simp only [List.mem_singleton] at hk; subst hk
      refine ⟨⟨fun hse => hm.setextOld hse b hb, fun hfe _ f hf2 => ?_⟩, fun _ _ => ?_⟩
      · obtain ⟨f', hf', hfn⟩ := hm.fenceNew hfe
        rw [hfen2, hf'] at hf2
        cases hf2
        have := hw0 b hb
        have := hm.idge
        omega
      · have := hw0 b hb
        have := hm.idge
        simp only; omega
  have hne : new ++ [({ node := id, bp := bp } : Block)] ≠ [] := by simp
  by_cases hc : st.hasChildren = true
  · rw [if_pos hc]
    refine OKE.ok ⟨c', _, by rw [hr2]; exact hri, hpad, hle, hwin, .inr ⟨rfl, hne⟩, hcompat, by rw [htmp2]; exact htmp, ?_, hprog hc⟩
    intro b hb
    rcases List.mem_append.1 hb with hb | hb
    · exact hallc b hb
    · simp only [List.mem_singleton] at hb; subst hb; exact hkids hc
  · rw [if_neg hc]
    exact OKE.ok ⟨c', _, by rw [hr2]; exact hri, hpad, hle, hwin, .inr ⟨rfl, hne⟩, hcompat, by rw [htmp2]; exact htmp, leafy_snoc hallc _⟩


theorem tryParsersV_oke {old : List Block} {s0 : St} (parent : Nat) (blank cont : Bool) (w : Int) :
    ∀ (bps : List BP), (∀ bp ∈ bps, A bp) → ∀ (result : OpenResult) (lastBlock : Option Block) (s : St) (c : RCur)
      (new : List Block), LineCtx src s c → Win src A old s0 s new → s.pc.tmpPara = none → (∀ b ∈ new, b.bp.isContainer = true) →
      ((result = .noBlocksOpened ∧ new = [] ∧ lastBlock = old.getLast?) ∨ (result = .newBlocksOpened ∧ new ≠ [])) →
      OKE e (TPPostT src A old s0 c) (tryParsersV pts parent blank cont w bps result lastBlock s) := by
  intro bps
  induction bps with
  | nil =>
    intro _ result lastBlock s c new hc hw htmp hallc hres
    unfold tryParsersV
    exact OKE.ok ⟨c, new, hc.ri, hc.pad, Nat.le_refl _, hw, hres, fun k hk b _ => CompatT.of_container_left (hallc k hk),
      htmp, leafy_of_all hallc⟩
  | cons bp bps ih =>
    intro hA result lastBlock s c new hc hw htmp hallc hres
    have ih' := ih (fun b hb => hA b (List.mem_cons_of_mem _ hb))
    unfold tryParsersV
    simp only []
    by_cases hs1 : (cont && result == OpenResult.noBlocksOpened && !bp.canInterruptParagraph) = true
    · rw [if_pos hs1]; exact ih' result lastBlock s c new hc hw htmp hallc hres
    rw [if_neg hs1]
    by_cases hs2 : (decide (w > 3) && !bp.canAcceptIndentedLine) = true
    · rw [if_pos hs2]; exact ih' result lastBlock s c new hc hw htmp hallc hres
    rw [if_neg hs2]
    refine OKE.bind (m := lastOpenedBlock) (P := fun lb s1 => lb = s.pc.opened.getLast? ∧ s1 = s) (OKE.ok ⟨rfl, rfl⟩)
      (fun lb0 sx hlb => ?_)
    obtain ⟨hlb0, hsx⟩ := hlb
    subst sx
    have habp : A bp := hA bp (List.mem_cons_self ..)
    refine OKE.bind (OKE.of_okl (sp.opn bp habp parent s c hc)) (fun x s1 hO => ?_)
    obtain ⟨nodeopt, st⟩ := x
    have htmp1 : s1.pc.tmpPara = none := by
      rcases hO.tmp with ⟨h, _⟩ | ⟨_, h⟩
      · exact absurd (h ▸ habp) hNS
      · rw [h]; exact htmp
    -- the value of `lastBlock` while nothing is opened
    have hlbold : result = .noBlocksOpened → lb0 = old.getLast? := by
      intro hr
      rcases hres with ⟨_, hn, _⟩ | ⟨h, _⟩
      · rcases hw.shape with h | ⟨_, h, _⟩
        · rw [hlb0, h, hn, List.append_nil]
        · exact absurd hn h
      · rw [hr] at h; cases h
    cases nodeopt with
    | none =>
      simp only []
      obtain ⟨hc1, hw1, _⟩ := open_none hO hc hw
      refine ih' result lb0 s1 c new hc1 hw1 htmp1 hallc ?_
      rcases hres with ⟨h1, h2, _⟩ | h
      · exact .inl ⟨h1, h2, hlbold h1⟩
      · exact .inr h
    | some id =>
      simp only []
      obtain ⟨hm1, hid, hop1, hnd1, hpar1, hlen1, hreq⟩ := open_some hO hw hallc habp
      obtain ⟨c', hri, hpad, hle, _, hprog⟩ := hO.ri
      have hkids : st.hasChildren = true → bp.isContainer = true := fun h => (hO.kids h).1
      -- the tail: AppendChild, push
      have tail : ∀ (sX : St) (newX : List Block), Mid src A old s0 id bp sX newX → sX.r = s1.r → sX.pc.tmpPara = none →
          (∀ b ∈ newX, s0.nodes.length ≤ b.node) → (∀ b ∈ newX, b.bp.isContainer = true) →
          OKE e (TPPostT src A old s0 c)
            ((do
              appendChild parent id
              modPc fun pc => { pc with opened := pc.opened ++ [{ node := id, bp := bp }] }
              if st.hasChildren then return (TryOutcomeT.retry id, OpenResult.newBlocksOpened, lb0)
              return (TryOutcomeT.done, OpenResult.newBlocksOpened, lb0) : M _) sX) := by
        intro sX newX hmX hrX htX hfX haX
        exact tryTailT_oke parent id bp st lb0 sX newX hmX hw.oldlt hw.leafyOld hfX haX (by rw [hrX]; exact hri) hpad hle
          hprog hkids htX
      -- the middle: blank flag, the `last.Parent() == nil` test; `K` = the tail
      have mid : ∀ (K : M (TryOutcomeT × OpenResult × Option Block)),
          (∀ (sX : St) (newX : List Block), Mid src A old s0 id bp sX newX → sX.r = s1.r → sX.pc.tmpPara = none →
            (∀ b ∈ newX, s0.nodes.length ≤ b.node) → (∀ b ∈ newX, b.bp.isContainer = true) →
            OKE e (TPPostT src A old s0 c) (K sX)) →
          ∀ (sX : St), Mid src A old s0 id bp sX new → sX.r = s1.r → sX.pc.tmpPara = none →
          (∀ lb, lb0 = some lb → (nd sX lb.node).parent.isSome = true ∨
              (new = [] ∧ sX.pc.opened = old ∧ old.getLast? = some lb)) →
          OKE e (TPPostT src A old s0 c)
            ((modNode id (fun n => { n with blankPrev := blank }) >>= fun _ =>
              match Option.map (fun x => x.node) lb0 with
              | some l => getNode l >>= fun n =>
                  if n.parent.isNone = true then
                    getPc >>= fun pc =>
                      closeBlocksV pts ((pc.opened.length : Int) - 1) ((pc.opened.length : Int) - 1) >>= fun _ => K
                  else K
              | none => K) sX) := by
        intro K hK sX hmX hrX htX hcase
        have hfr : FrameEq sX (upd sX id fun n => { n with blankPrev := blank }) :=
          upd_frame sX id (f := fun n => { n with blankPrev := blank }) (fun n => ⟨rfl, rfl, rfl⟩)
        have hm3 := hmX.frame hfr
        have hpar3 : ∀ j, (nd (upd sX id fun n => { n with blankPrev := blank }) j).parent = (nd sX j).parent := by
          intro j; rw [nd_upd]; split
          · rename_i h; obtain ⟨rfl, _⟩ := h; rfl
          · rfl
        refine OKE.bind (m := modNode id fun n => { n with blankPrev := blank })
          (P := fun _ s3 => s3 = upd sX id fun n => { n with blankPrev := blank }) (OKE.ok rfl) (fun _ s3 h3 => ?_)
        subst h3
        cases hl : lb0 with
        | none => exact hK _ new hm3 (by rw [hfr.r, hrX]) (by rw [hfr.pc]; exact htX) hw.fresh hallc
        | some lb =>
          simp only [Option.map]
          refine OKE.bind (m := getNode lb.node)
            (P := fun n s4 => n = nd (upd sX id fun n => { n with blankPrev := blank }) lb.node ∧
              s4 = upd sX id fun n => { n with blankPrev := blank }) (OKE.ok ⟨rfl, rfl⟩) (fun n s4 h4 => ?_)
          obtain ⟨h4n, h4s⟩ := h4
          subst h4n h4s
          by_cases hnn : (nd (upd sX id fun n => { n with blankPrev := blank }) lb.node).parent.isNone = true
          · rw [if_pos hnn]
            rcases hcase lb hl with hsome | ⟨hnew, hopX, hlast⟩
            · exfalso
              rw [hpar3] at hnn
              cases hh : (nd sX lb.node).parent with
              | none => rw [hh] at hsome; cases hsome
              | some _ => rw [hh] at hnn; cases hnn
            · refine OKE.bind (m := getPc)
                (P := fun pc s5 => pc = (upd sX id fun n => { n with blankPrev := blank }).pc ∧
                  s5 = upd sX id fun n => { n with blankPrev := blank }) (OKE.ok ⟨rfl, rfl⟩) (fun pc s5 h5 => ?_)
              obtain ⟨h5p, h5s⟩ := h5
              subst h5p h5s
              have hop3 : (upd sX id fun n => { n with blankPrev := blank }).pc.opened = old.dropLast ++ [lb] := by
                rw [hfr.pc, hopX]; exact eq_dropLast_append_of_getLast? old lb hlast
              have hp3 : (nd (upd sX id fun n => { n with blankPrev := blank }) lb.node).parent.isSome = false := by
                cases hh : (nd (upd sX id fun n => { n with blankPrev := blank }) lb.node).parent with
                | none => rfl
                | some _ => rw [hh] at hnn; cases hnn
              subst hnew
              have hne : old ≠ [] := by intro h; rw [h] at hlast; cases hlast
              have hm4 := hm3.pop (by rw [hfr.pc, hopX]) hne
              refine OKE.bind (P := fun _ s6 => s6 = { (upd sX id fun n => { n with blankPrev := blank }) with
                  pc := { (upd sX id fun n => { n with blankPrev := blank }).pc with opened := old.dropLast } })
                (by rw [closeBlocksV_last_skip pts old.dropLast lb _ hop3 hp3]; exact OKE.ok rfl) (fun _ s6 h6 => ?_)
              subst h6
              exact hK _ [] hm4 (by simp only; rw [hfr.r, hrX]) (by simp only; rw [hfr.pc]; exact htX) (fun _ h => by cases h) (fun _ h => by cases h)
          · rw [if_neg hnn]
            exact hK _ new hm3 (by rw [hfr.r, hrX]) (by rw [hfr.pc]; exact htX) hw.fresh hallc
      -- the `last` of the non-RequireParagraph path
      have hcase1 : ∀ lb, lb0 = some lb → (nd s1 lb.node).parent.isSome = true ∨
          (new = [] ∧ s1.pc.opened = old ∧ old.getLast? = some lb) := by
        intro lb hl
        by_cases hnew : new = []
        · right
          have hop : s.pc.opened = old := by
            rcases hw.shape with h | ⟨_, h, _⟩
            · rw [h, hnew, List.append_nil]
            · exact absurd hnew h
          exact ⟨hnew, by rw [hop1, hop], by rw [← hop, ← hlb0, hl]⟩
        · left
          have hlast : new.getLast? = some lb := by
            have : s.pc.opened.getLast? = new.getLast? := by
              cases hne : new.getLast? with
              | none => exact absurd (List.getLast?_eq_none_iff.1 hne) hnew
              | some x => rcases hw.shape with h | ⟨_, _, h⟩ <;> rw [h, List.getLast?_append, hne] <;> rfl
            rw [← this, ← hlb0, hl]
          have hmem : lb ∈ s.pc.opened := by
            rcases hw.shape with h | ⟨_, _, h⟩ <;> rw [h] <;> exact List.mem_append_right _ (List.mem_of_getLast? hlast)
          rw [hnd1 _ (hw.blocks lb hmem).1.lt]
          exact hw.lastParent lb hlast
      by_cases hrq : st.requirePara = true
      · obtain ⟨hbp, _⟩ := hO.req hrq
        exact absurd (hbp ▸ habp) hNS
      · rw [if_neg hrq]
        simp only [pure_bind, Bool.false_eq_true, if_false]
        exact mid _ tail s1 hm1 rfl htmp1 hcase1

omit hpts hNS in
theorem toContinuableT_oke {old : List Block} {s0 : St} (cont : Bool) (result : OpenResult) (lastBlock : Option Block)
    (s : St) (c c0 : RCur) (new : List Block) (hri : RI src s.r c) (hpad : PadOK c) (hle : c0.p ≤ c.p)
    (hw : Win src A old s0 s new) (hleafy : Leafy new) (hcompat : ∀ k ∈ new, ∀ b ∈ old, CompatT s k b) (htmp : s.pc.tmpPara = none)
    (hres : (result = .noBlocksOpened ∧ new = [] ∧ lastBlock = old.getLast?) ∨ (result = .newBlocksOpened ∧ new ≠ []))
    (hcont : cont = true → ∃ lb, old.getLast? = some lb ∧ lb.bp = .paragraph) :
    OKE e (OBPostT src A old s0 c0) (toContinuable cont result lastBlock s) := by
  unfold toContinuable
  have fin : OKE e (OBPostT src A old s0 c0) ((pure result : M OpenResult) s) := by
    refine OKE.ok ⟨c, new, hri.toRIa, hle, hw, hleafy, hcompat, fun h => ?_, htmp⟩
    rcases hres with ⟨h', _⟩ | ⟨h', _⟩ <;> rw [h'] at h <;> cases h
  by_cases hc : (result == OpenResult.noBlocksOpened && cont) = true
  · rw [if_pos hc]
    simp only [Bool.and_eq_true, beq_iff_eq] at hc
    obtain ⟨hr, hct⟩ := hc
    obtain ⟨lb, hlast, hbp⟩ := hcont hct
    rcases hres with ⟨_, hnew, hlb⟩ | ⟨h', _⟩
    · subst hnew
      rw [hlb, hlast]
      simp only []
      have hop : s.pc.opened = old := by
        rcases hw.shape with h | ⟨_, h, _⟩
        · rw [h, List.append_nil]
        · exact absurd rfl h
      have hmem : lb ∈ s.pc.opened := by rw [hop]; exact List.mem_of_getLast? hlast
      obtain ⟨lnode, lbp⟩ := lb
      simp only at hbp
      subst hbp
      have hpc := sp.paraCont (hw.blocks _ hmem).2 lnode s c hri hpad hw.nodes hw.keys (hw.blocks _ hmem).1
      refine OKE.bind (m := bpContinue .paragraph lnode) (OKE.of_okl hpc) (fun st s1 h1 => ?_)
      obtain ⟨c1, hria, _, hle1, _, _⟩ := h1.ria
      have hwin : Win src A old s0 s1 [] := by
        refine ⟨h1.nodes, hw.keys.ext h1.ext (.inl (by rw [h1.pc])) (.inl (by rw [h1.pc])), hw.ext.trans h1.ext,
          by rw [h1.pc]; exact hw.shape, ?_, hw.oldlt, hw.leafyOld, by simp, by intro lb h; simp at h⟩
        intro b hb
        rw [h1.pc] at hb
        have := hw.blocks b hb
        exact ⟨this.1.ext h1.ext (fun hp => by rw [h1.pc]; exact (this.1.setext hp).2)
          (fun hp => by rw [h1.pc]; exact this.1.fenced hp), this.2⟩
      have fin' : ∀ r : OpenResult, OKE e (OBPostT src A old s0 c0) ((pure r : M OpenResult) s1) := fun r =>
        OKE.ok ⟨c1, [], hria, Nat.le_trans hle hle1, hwin, by intro b hb; simp at hb, by simp, fun _ => rfl, by rw [h1.pc]; exact htmp⟩
      by_cases hst : st.cont = true
      · rw [if_pos hst]; exact fin' _
      · rw [if_neg hst]; exact fin' _
    · rw [hr] at h'; cases h'
  · rw [if_neg hc]; exact fin


theorem openBlocksLoopV_oke {old : List Block} {s0 : St} {c0 : RCur}
    (hT : ∀ ch ∈ src, ∀ bps, triggered ch = some bps → ∀ bp ∈ bps, A bp) (hFree : ∀ bp ∈ freeParsers, A bp)
    (blank cont : Bool) (hcont : cont = true → ∃ lb, old.getLast? = some lb ∧ lb.bp = .paragraph) :
    ∀ (fuel : Nat) (tdone : Bool) (parent : Nat) (result : OpenResult) (lb : Option Block) (s : St) (c : RCur) (new : List Block),
      RI src s.r c → PadOK c → c0.p ≤ c.p → Win src A old s0 s new → s.pc.tmpPara = none → (∀ b ∈ new, b.bp.isContainer = true) →
      ((result = .noBlocksOpened ∧ new = [] ∧ lb = old.getLast?) ∨ (result = .newBlocksOpened ∧ new ≠ [])) →
      OKE e (OBPostT src A old s0 c0) (openBlocksLoopV pts blank fuel tdone cont parent result lb s) := by
  intro fuel
  induction fuel with
  | zero => intro _ _ _ _ _ _ _ _ _ _ _ _ _ _; exact .inl (.inr rfl)
  | succ fuel ih =>
    intro tdone parent result lb s c new hri hpad hle hw htmp hallc hres
    have hcompat0 : ∀ (sX : St), ∀ k ∈ new, ∀ b ∈ old, CompatT sX k b :=
      fun _ k hk _ _ => CompatT.of_container_left (hallc k hk)
    unfold openBlocksLoopV
    refine OKE.bind (OKE.of_okl (peekLine_okl hri)) (fun x s1 hx => ?_)
    obtain ⟨hx, r1, hs1, h1⟩ := hx
    subst hx hs1
    simp only
    refine OKE.bind (OKE.of_okl (lineOffset_okl (s := { s with r := r1 }) h1)) (fun lo s2 hlo => ?_)
    obtain ⟨_, r2, hs2, h2⟩ := hlo
    subst hs2
    generalize hline : (RCur.view src c).getD [] = line
    have hb := indentWidthI_bounds line lo
    generalize hpos : (indentWidthI line lo).2 = pos at hb
    generalize hwd : (indentWidthI line lo).1 = wd
    refine OKE.bind (m := modPc _)
      (P := fun _ s3 => s3.r = r2 ∧ s3.nodes = s.nodes ∧ s3.pc.opened = s.pc.opened ∧ s3.pc.tmpPara = s.pc.tmpPara ∧
        s3.pc.fence = s.pc.fence ∧ s3.pc.blockOffset = (if pos ≥ (line.length : Int) then -1 else pos))
      (OKE.ok ⟨rfl, rfl, by simp only; split <;> rfl, by simp only; split <;> rfl, by simp only; split <;> rfl,
        by simp only; split <;> rfl⟩) (fun _ s3 h3 => ?_)
    obtain ⟨h3r, h3n, h3o, h3t, h3f, h3b⟩ := h3
    have hri3 : RI src s3.r c := by rw [h3r]; exact h2
    have hw3 : Win src A old s0 s3 new := hw.congr h3n h3o h3t h3f
    have htmp3 : s3.pc.tmpPara = none := by rw [h3t]; exact htmp
    have exit : ∀ (r : OpenResult) (l : Option Block),
        ((r = .noBlocksOpened ∧ new = [] ∧ l = old.getLast?) ∨ (r = .newBlocksOpened ∧ new ≠ [])) →
        OKE e (OBPostT src A old s0 c0) (toContinuable cont r l s3) := fun r l hr =>
      toContinuableT_oke sp cont r l s3 c c0 new hri3 hpad hle hw3 (leafy_of_all hallc) (hcompat0 s3) htmp3 hr hcont
    by_cases hnone : (RCur.view src c).isNone = true
    · rw [if_pos hnone]; exact exit _ _ hres
    rw [if_neg hnone]
    have hp : c.p < src.length := by
      rcases Nat.lt_or_ge c.p src.length with hp | hp
      · exact hp
      · rw [view_none src c (by omega)] at hnone; simp at hnone
    have hvl := view_length src c hp (view_eq src c hp)
    have hlen : 1 ≤ line.length := by rw [← hline, view_eq src c hp]; simp only [Option.getD_some]; omega
    obtain ⟨b0, hb0, _⟩ := idx_ok line 0 (by omega) (by omega)
    refine OKE.bind (OKE.of_okl (liftE_okl (P := fun a s' => a = b0 ∧ s' = s3) hb0 ⟨rfl, rfl⟩)) (fun a sy hy => ?_)
    obtain ⟨ha, hsy⟩ := hy
    subst a sy
    by_cases hnl : (b0 == 10) = true
    · rw [if_pos hnl]; exact exit _ _ hres
    rw [if_neg hnl]
    have hctx : LineCtx src s3 c := by
      refine ⟨hri3, hp, hpad, ?_, hw3.nodes⟩
      rw [h3b, hline]
      split
      · omega
      · omega
    -- the rest of the iteration, for the parser list `bps`
    have tail : ∀ bps : List BP, (∀ bp ∈ bps, A bp) → OKE e (OBPostT src A old s0 c0)
        (retryStepV pts blank tdone cont parent wd bps result lb (openBlocksLoopV pts blank fuel) s3) := by
      intro bps hbps
      unfold retryStepV
      refine OKE.bind (m := get) (P := fun sb sy => sb = s3 ∧ sy = s3) (OKE.ok ⟨rfl, rfl⟩) (fun sb sy hy => ?_)
      obtain ⟨hsb, hsy⟩ := hy
      subst sb sy
      refine OKE.bind (tryParsersV_oke sp hpts hNS parent blank cont wd bps hbps result lb s3 c new hctx hw3 htmp3 hallc hres) (fun x s4 h4 => ?_)
      obtain ⟨outcome, res, lb'⟩ := x
      obtain ⟨c', new', hri4, hpad4, hle4, hw4, hres4, hcompat4, htmp4, hout⟩ := h4
      cases outcome with
      | retry p' =>
        simp only at hout ⊢
        refine OKE.bind (m := get) (P := fun sb sy => sb = s4 ∧ sy = s4) (OKE.ok ⟨rfl, rfl⟩) (fun sb sy hy => ?_)
        obtain ⟨hsb, hsy⟩ := hy
        subst sb sy
        have hlt : retryMeasure s4 < retryMeasure s3 := by
          unfold retryMeasure
          rw [hri4.source, hri3.source, hri4.pos, hri3.pos]
          simp only [Int.toNat_natCast]
          have := hri4.inRange
          have := hout.2
          split <;> split <;> omega
        rw [if_neg (by simp [hlt])]
        exact ih tdone p' res lb' s4 c' new' hri4 hpad4 (Nat.le_trans hle hle4) hw4 htmp4 hout.1 hres4
      | retryTransformed => exact hout.elim
      | done =>
        simp only at hout ⊢
        exact toContinuableT_oke sp cont res lb' s4 c' c0 new' hri4 hpad4 (Nat.le_trans hle hle4) hw4 hout hcompat4 htmp4 hres4 hcont
    by_cases hpl : pos < (line.length : Int)
    · rw [if_pos hpl]
      obtain ⟨b1, hb1, hb1'⟩ := idx_ok line pos hb.1 hpl
      refine OKE.bind (OKE.of_okl (liftE_okl (P := fun a s' => a = b1 ∧ s' = s3) hb1 ⟨rfl, rfl⟩)) (fun a sy hy => ?_)
      obtain ⟨ha, hsy⟩ := hy
      subst a sy
      simp only [pure_bind]
      refine tail _ ?_
      intro bp hbp
      cases htr : triggered b1 with
      | none => rw [htr] at hbp; exact hFree bp hbp
      | some l =>
        rw [htr] at hbp
        have hmem : b1 ∈ line := List.mem_of_getElem? hb1'
        rw [← hline] at hmem
        rcases mem_view_src hmem with h | h
        · exact hT b1 h l htr bp hbp
        · subst h; have : triggered 32 = none := by decide
          rw [this] at htr; cases htr
    · rw [if_neg hpl]
      simp only [pure_bind]
      exact tail _ hFree


theorem openBlocksV_oke (hT : ∀ ch ∈ src, ∀ bps, triggered ch = some bps → ∀ bp ∈ bps, A bp) (hFree : ∀ bp ∈ freeParsers, A bp)
    (parent : Nat) (blank : Bool) (s : St) (c : RCur) (hri : RI src s.r c) (hpad : PadOK c) (hst : Stable src A s) :
    OKE e (OBPostT src A s.pc.opened s c) (openBlocksV pts parent blank s) := by
  unfold openBlocksV
  refine OKE.bind (m := lastOpenedBlock) (P := fun lb s1 => lb = s.pc.opened.getLast? ∧ s1 = s) (OKE.ok ⟨rfl, rfl⟩)
    (fun lb0 sx hlb => ?_)
  obtain ⟨hlb0, hsx⟩ := hlb
  subst sx
  have hw : Win src A s.pc.opened s s [] :=
    ⟨hst.nodes, hst.keys, Ext.refl s, .inl (by simp), hst.blocks, fun b hb => (hst.blocks b hb).1.lt, hst.leafy, by simp,
      by intro lb h; simp at h⟩
  have run : ∀ cont : Bool, (cont = true → ∃ lb, s.pc.opened.getLast? = some lb ∧ lb.bp = .paragraph) →
      OKE e (OBPostT src A s.pc.opened s c)
        ((do let v ← source; openBlocksLoopV pts blank (retryFuel v) false cont parent OpenResult.noBlocksOpened lb0) s) := by
    intro cont hcont
    refine OKE.bind (m := source) (P := fun v sy => v = s.r.source ∧ sy = s) (OKE.ok ⟨rfl, rfl⟩) (fun v sy hy => ?_)
    obtain ⟨hv, hsy⟩ := hy
    subst v sy
    exact openBlocksLoopV_oke sp hpts hNS hT hFree blank cont hcont _ false parent .noBlocksOpened lb0 s c [] hri hpad (Nat.le_refl _) hw
      hst.tmp (by simp) (.inl ⟨rfl, rfl, hlb0⟩)
  cases hl : lb0 with
  | none =>
    simp only [pure_bind]
    rw [← hl]
    exact run false (fun h => by cases h)
  | some lb =>
    simp only []
    refine OKE.bind (m := getNode lb.node)
      (P := fun v sy => v = nd s lb.node ∧ sy = s) (OKE.ok ⟨rfl, rfl⟩) (fun v sy hy => ?_)
    obtain ⟨hv, hsy⟩ := hy
    subst v sy
    simp only [pure_bind]
    rw [← hl]
    refine run _ (fun h => ?_)
    have hlast : s.pc.opened.getLast? = some lb := by rw [← hlb0, hl]
    have hk := (hst.blocks lb (List.mem_of_getLast? hlast)).1.kind
    have : (nd s lb.node).kind = Kind.paragraph := by simpa using h
    rw [this] at hk
    exact ⟨lb, hlast, kind_paragraph hk.symm⟩


end tp

end GM.Blocks.TV
