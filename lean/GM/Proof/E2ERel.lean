/-
  GM.Proof.E2ERel — the block phase WITH the link-reference transformer against the block phase WITHOUT transformers, on a
  source without `[`: the same outcome, or the run with the transformer ends in an error (`runT_rel`).

  The monotonicity argument of GM.Proof.ConvertXRel ("a transformer that is silent on EVERY state") does not apply: the
  link-reference transformer changes the tree on a line-less attached Paragraph (GM.Proof.E2EBracket). What is needed at the
  two call sites of `transformParagraph` is supplied by invariants of the run WITHOUT transformers that are carried along:
    * the source is fixed (`XS src`, GM.Proof.E2EXSegs) — the scan finds nothing;
    * every Paragraph has a line (`PNE`, GM.Proof.E2EPara) — the transformer returns the state unchanged or an error;
    * the open-block stack is consistent (`J2`) — so the block that `RequireParagraph` closes is closed by
      `paragraphParser.Close`, which keeps the paragraph attached when it has a line: `transformed` is false on both sides.
  Relations: `RelK I m₁ m₂` (from every `I`-state: same outcome or `m₁` errs; `m₂` keeps `I`), and `RelKP I P` for a
  pre-condition `P` that only has to hold where the computation starts (the value just read, the state `Open` has just left).
-/
import GM.Proof.E2EPara
import GM.Proof.E2EBracket
import GM.Proof.BlocksLeaf
import GM.Proof.E2ERunEq

namespace GM.E2E.Rel
open GM GM.Text GM.Blocks GM.E2E GM.E2E.LI GM.E2E.PJ

/-! ### the relations -/

/-- at `s`: the same outcome, or the left computation errs -/
def RelS {α : Type} (m1 m2 : M α) (s : St) : Prop := m1 s = m2 s ∨ ∃ e, m1 s = .error e

/-- from every state that satisfies the invariant `I` and the pre-condition `P`: the same outcome or the left computation errs;
    and the right computation re-establishes `I` -/
structure RelKP (I P : St → Prop) {α : Type} (m1 m2 : M α) : Prop where
  rel : ∀ s, I s → P s → RelS m1 m2 s
  keep : ∀ s a s', I s → P s → m2 s = .ok (a, s') → I s'

/-- no pre-condition -/
abbrev RelK (I : St → Prop) {α : Type} (m1 m2 : M α) : Prop := RelKP I (fun _ => True) m1 m2

variable {I : St → Prop}

theorem RelK.refl {α} {m : M α} (hk : Keeps I m) : RelK I m m :=
  ⟨fun _ _ _ => .inl rfl, fun s a s' hs _ h => hk.h s a s' hs h⟩

theorem RelK.keeps {α} {m1 m2 : M α} (h : RelK I m1 m2) : Keeps I m2 := ⟨fun s a s' hs hm => h.keep s a s' hs trivial hm⟩

theorem RelK.toP {α} {P : St → Prop} {m1 m2 : M α} (h : RelK I m1 m2) : RelKP I P m1 m2 :=
  ⟨fun s hs _ => h.rel s hs trivial, fun s a s' hs _ hm => h.keep s a s' hs trivial hm⟩

theorem relS_bind {α β} {m1 m2 : M α} {f1 f2 : α → M β} {s : St} (hm : RelS m1 m2 s)
    (hf : ∀ a s', m2 s = .ok (a, s') → RelS (f1 a) (f2 a) s') : RelS (m1 >>= f1) (m2 >>= f2) s := by
  unfold RelS at *
  simp only [bind, StateT.bind, Except.bind]
  rcases hm with h | ⟨e, h⟩
  · rw [h]
    cases h2 : m2 s with
    | error e => exact .inl rfl
    | ok p => exact hf p.1 p.2 (by rw [h2])
  · rw [h]; exact .inr ⟨e, rfl⟩

theorem bind_ok' {α β} {m : M α} {f : α → M β} {s : St} {b : β} {s'' : St} (h : (m >>= f) s = .ok (b, s'')) :
    ∃ a s', m s = .ok (a, s') ∧ f a s' = .ok (b, s'') := by
  simp only [bind, StateT.bind, Except.bind] at h
  cases hm : m s with
  | error e => rw [hm] at h; cases h
  | ok p => rw [hm] at h; exact ⟨p.1, p.2, rfl, h⟩

/-- the pre-condition is only needed for the first part -/
theorem RelKP.bind {α β} {P : St → Prop} {m1 m2 : M α} {f1 f2 : α → M β} (hm : RelKP I P m1 m2)
    (hf : ∀ a, RelK I (f1 a) (f2 a)) : RelKP I P (m1 >>= f1) (m2 >>= f2) :=
  ⟨fun s hs hp => relS_bind (hm.rel s hs hp) (fun a s' h2 => (hf a).rel s' (hm.keep s a s' hs hp h2) trivial),
    fun s b s'' hs hp h => by
      obtain ⟨a, s', h1, h2⟩ := bind_ok' h
      exact (hf a).keep s' b s'' (hm.keep s a s' hs hp h1) trivial h2⟩

/-- behind a common first step, the continuations may use what that step is known to establish (at the state it leaves) -/
theorem RelKP.bindP {α β} {P0 : St → Prop} {m : M α} {f1 f2 : α → M β} (hk : Keeps I m) (P : α → St → Prop)
    (hp : ∀ s a s', I s → m s = .ok (a, s') → P a s') (hf : ∀ a, RelKP I (P a) (f1 a) (f2 a)) :
    RelKP I P0 (m >>= f1) (m >>= f2) :=
  ⟨fun s hs _ => relS_bind (.inl rfl) (fun a s' h2 => (hf a).rel s' (hk.h s a s' hs h2) (hp s a s' hs h2)),
    fun s b s'' hs _ h => by
      obtain ⟨a, s', h1, h2⟩ := bind_ok' h
      exact (hf a).keep s' b s'' (hk.h s a s' hs h1) (hp s a s' hs h1) h2⟩

theorem RelKP.ite {α} {P : St → Prop} {c : Prop} [Decidable c] {a1 a2 b1 b2 : M α} (ha : c → RelKP I P a1 a2)
    (hb : ¬ c → RelKP I P b1 b2) : RelKP I P (if c then a1 else b1) (if c then a2 else b2) := by
  split
  · exact ha (by assumption)
  · exact hb (by assumption)

/-- a pure pre-condition can be assumed -/
theorem RelKP.ofPure {α} {p : Prop} {m1 m2 : M α} (h : p → RelK I m1 m2) : RelKP I (fun _ => p) m1 m2 :=
  ⟨fun s hs hp => (h hp).rel s hs trivial, fun s a s' hs hp hm => (h hp).keep s a s' hs trivial hm⟩

theorem liftE_eq {α} {e : Except Panic α} {s : St} {a : α} {s' : St} (h : liftE e s = .ok (a, s')) : e = .ok a := by
  unfold liftE at h
  cases e with
  | error x => simp [Except.map] at h
  | ok v => simp only [Except.map, Except.ok.injEq, Prod.mk.injEq] at h; rw [h.1]

/-- a value computed without the state carries its equation -/
theorem RelK.liftE_bind {α β} {P0 : St → Prop} (e : Except Panic α) {f1 f2 : α → M β} (hk : Keeps I (liftE e))
    (hf : ∀ a, e = .ok a → RelK I (f1 a) (f2 a)) : RelKP I P0 (liftE e >>= f1) (liftE e >>= f2) :=
  RelKP.bindP hk (fun a _ => e = .ok a) (fun _ _ _ _ h => liftE_eq h) (fun a => RelKP.ofPure (hf a))

theorem RelKP.mono {α} {P P' : St → Prop} {m1 m2 : M α} (h : RelKP I P m1 m2) (hpp : ∀ s, P' s → P s) :
    RelKP I P' m1 m2 :=
  ⟨fun s hs hp => h.rel s hs (hpp s hp), fun s a s' hs hp hm => h.keep s a s' hs (hpp s hp) hm⟩

/-- `bindP` where what the first step establishes may depend on the pre-condition -/
theorem RelKP.bindP' {α β} {P0 : St → Prop} {m : M α} {f1 f2 : α → M β} (hk : Keeps I m) (P : α → St → Prop)
    (hp : ∀ s a s', I s → P0 s → m s = .ok (a, s') → P a s') (hf : ∀ a, RelKP I (P a) (f1 a) (f2 a)) :
    RelKP I P0 (m >>= f1) (m >>= f2) :=
  ⟨fun s hs h0 => relS_bind (.inl rfl) (fun a s' h2 => (hf a).rel s' (hk.h s a s' hs h2) (hp s a s' hs h0 h2)),
    fun s b s'' hs h0 h => by
      obtain ⟨a, s', h1, h2⟩ := bind_ok' h
      exact (hf a).keep s' b s'' (hk.h s a s' hs h1) (hp s a s' hs h0 h1) h2⟩

/-! ### the invariant -/

/-- the source is fixed (`XS src`), every Paragraph has a line, the open-block stack is consistent, and a stable side fact -/
def INV (src : Bytes) (A : St → Prop) (s : St) : Prop := XS src s ∧ PJ A s

theorem inv_keeps {src : Bytes} {A : St → Prop} {α} {m : M α} (h1 : Keeps (XS src) m) (h2 : Keeps (PJ A) m) :
    Keeps (INV src A) m :=
  ⟨fun s a s' hs hm => ⟨h1.h s a s' hs.1 hm, h2.h s a s' hs.2 hm⟩⟩

theorem inv_source {src : Bytes} {A : St → Prop} {s : St} (h : INV src A s) : s.r.source = src := h.1.1.1

/-- a common first step that establishes a STABLE side fact: the continuations are compared under the larger invariant -/
theorem RelKP.bindQ {src : Bytes} {A : St → Prop} {α β} {P0 : St → Prop} {m : M α} {f1 f2 : α → M β}
    (hk : Keeps (INV src A) m) (Q : α → St → Prop) (hq : ∀ s a s', INV src A s → m s = .ok (a, s') → Q a s')
    (hf : ∀ a, RelK (INV src (fun s => A s ∧ Q a s)) (f1 a) (f2 a)) :
    RelKP (INV src A) P0 (m >>= f1) (m >>= f2) := by
  refine RelKP.bindP hk Q hq (fun a => ⟨fun s hs hp => ?_, fun s b s' hs hp hm => ?_⟩)
  · exact (hf a).rel s ⟨hs.1, hs.2.1, hs.2.2.1, hs.2.2.2, hp⟩ trivial
  · have := (hf a).keep s b s' ⟨hs.1, hs.2.1, hs.2.2.1, hs.2.2.2, hp⟩ trivial hm
    exact ⟨this.1, this.2.1, this.2.2.1, this.2.2.2.1⟩

/-- a common first step that establishes a stable side fact `Q` and a fact `P` about the state it leaves -/
theorem RelKP.bindQP {src : Bytes} {A : St → Prop} {α β} {P0 : St → Prop} {m : M α} {f1 f2 : α → M β}
    (hk : Keeps (INV src A) m) (Q P : α → St → Prop)
    (hq : ∀ s a s', INV src A s → P0 s → m s = .ok (a, s') → Q a s' ∧ P a s')
    (hf : ∀ a, RelKP (INV src (fun s => A s ∧ Q a s)) (P a) (f1 a) (f2 a)) :
    RelKP (INV src A) P0 (m >>= f1) (m >>= f2) := by
  refine RelKP.bindP' hk (fun a s => Q a s ∧ P a s) hq (fun a => ⟨fun s hs hp => ?_, fun s b s' hs hp hm => ?_⟩)
  · exact (hf a).rel s ⟨hs.1, hs.2.1, hs.2.2.1, hs.2.2.2, hp.1⟩ hp.2
  · have := (hf a).keep s b s' ⟨hs.1, hs.2.1, hs.2.2.1, hs.2.2.2, hp.1⟩ hp.2 hm
    exact ⟨this.1, this.2.1, this.2.2.1, this.2.2.2.1⟩

/-! ### the call of the transformer -/

section call
variable {src : Bytes} (hb : NoBracket src) (guard : Bool)
include hb

/-- on a Paragraph that has a line and a parent, `transformParagraph` with the link-reference transformer answers `false`
    and leaves the state alone — or errs -/
theorem tp_silent (node : Nat) (s : St) (hs : s.r.source = src) (hl : (s.nodes.getD node default).lines ≠ [])
    (hp : (s.nodes.getD node default).parent.isSome = true) :
    transformParagraph (GM.Convert.paragraphTransformers guard) node s = .ok (false, s) ∨
      ∃ e, transformParagraph (GM.Convert.paragraphTransformers guard) node s = .error e := by
  have hsil := paragraphTransformer_silent guard node s (by rw [hs]; exact hb) hl
  unfold GM.Convert.paragraphTransformers at hsil ⊢
  simp only [List.mem_singleton, forall_eq] at hsil
  unfold transformParagraph
  simp only [bind, StateT.bind, Except.bind]
  rcases hsil with h | ⟨e, h⟩
  · rw [h]
    simp only [getNode, pure, StateT.pure, Except.pure]
    have hn : (s.nodes.getD node default).parent.isNone = false := by
      cases hq : (s.nodes.getD node default).parent with
      | none => rw [hq] at hp; cases hp
      | some p => rfl
    rw [hn]
    simp only [Bool.false_eq_true, ↓reduceIte]
    left
    unfold transformParagraph
    rfl
  · rw [h]; exact .inr ⟨e, rfl⟩

theorem tp_nil (node : Nat) (s : St) : transformParagraph [] node s = .ok (false, s) := by
  unfold transformParagraph; rfl

/-- the guarded call of parser.go:904-907, given the node that has just been read, in front of a common rest -/
theorem tpGuard_rel {A : St → Prop} {β : Type} (node : Nat) (n : Blocks.Node) (r1 r2 : M β) (hr : RelK (INV src A) r1 r2) :
    RelKP (INV src A) (fun s => n = s.nodes.getD node default)
      (if (n.kind == .paragraph && n.parent.isSome) = true then
          transformParagraph (GM.Convert.paragraphTransformers guard) node >>= fun _ => r1
        else r1)
      (if (n.kind == .paragraph && n.parent.isSome) = true then transformParagraph [] node >>= fun _ => r2 else r2) := by
  constructor
  · intro s hs hn
    split
    · rename_i hc
      simp only [Bool.and_eq_true, beq_iff_eq] at hc
      have hk : (s.nodes.getD node default).kind = .paragraph := by rw [← hn]; exact hc.1
      have hp : (s.nodes.getD node default).parent.isSome = true := by rw [← hn]; exact hc.2
      have hl := hs.2.1 node hk
      unfold RelS
      simp only [bind, StateT.bind, Except.bind, tp_nil]
      rcases tp_silent hb guard node s (inv_source hs) hl hp with h | ⟨e, h⟩
      · rw [h]; exact hr.rel s hs trivial
      · rw [h]; exact .inr ⟨e, rfl⟩
    · exact hr.rel s hs trivial
  · intro s a s' hs _ hm
    split at hm
    · simp only [bind, StateT.bind, Except.bind, tp_nil] at hm
      exact hr.keep s a s' hs trivial hm
    · exact hr.keep s a s' hs trivial hm

end call

/-! ### two facts about single parser calls -/

theorem getD_append_left (l : List Blocks.Node) (n : Blocks.Node) {j : Nat} (hj : j < l.length) :
    (l ++ [n]).getD j default = l.getD j default := by
  rw [LI.getD_append, if_pos hj]

/-- setext_headings.go:55-76: `RequireParagraph` is only answered when the last opened block is a Paragraph child of
    `parent` — and that node is untouched -/
theorem setextOpen_post (parent : Nat) (s s' : St) (a : Option Nat × PState) (h : setextOpen parent s = .ok (a, s'))
    (hr : a.2.requirePara = true) :
    ∃ lb, s.pc.opened.getLast? = some lb ∧ (s'.nodes.getD lb.node default).kind = .paragraph ∧
      (s'.nodes.getD lb.node default).parent = some parent := by
  unfold setextOpen at h
  simp only [lastOpenedBlock, bind, StateT.bind, getPc, pure, StateT.pure, Except.pure, Except.bind] at h
  cases hl : s.pc.opened.getLast? with
  | none => rw [hl] at h; simp only [] at h; cases h; cases hr
  | some lb =>
    rw [hl] at h
    refine ⟨lb, rfl, ?_⟩
    obtain ⟨ln, s0, h1, h2⟩ := bind_ok' (m := getNode lb.node) h
    cases h1
    by_cases hc : (((s.nodes.getD lb.node default).kind != Blocks.Kind.paragraph ||
        (s.nodes.getD lb.node default).parent != some parent) = true)
    · rw [if_pos hc] at h2; cases h2; cases hr
    · rw [if_neg hc] at h2
      simp only [Bool.or_eq_true, bne_iff_ne, ne_eq, not_or, Decidable.not_not] at hc
      obtain ⟨hk, hp⟩ := hc
      have hlt : lb.node < s.nodes.length := by
        rcases Nat.lt_or_ge lb.node s.nodes.length with h' | h'
        · exact h'
        · rw [List.getD_eq_getElem?_getD, List.getElem?_eq_none h'] at hk; cases hk
      obtain ⟨x, s1, h3, h4⟩ := bind_ok' (m := peekLine) h2
      have hn1 : s1.nodes = s.nodes := by
        unfold peekLine at h3
        cases hq : s.r.peekLine with
        | error e => simp [hq, bind, Except.bind] at h3
        | ok v =>
          simp only [hq, bind, Except.bind, pure, Except.pure, Except.ok.injEq, Prod.mk.injEq] at h3
          rw [← h3.2]
      obtain ⟨y, s2, h5, h6⟩ := bind_ok' (m := liftE _) h4
      have hs2 : s2 = s1 := by
        unfold liftE at h5
        cases hm : matchesSetextHeadingBar (x.1.getD []) with
        | error e => rw [hm] at h5; simp [Except.map] at h5
        | ok v => rw [hm] at h5; simp only [Except.map, Except.ok.injEq, Prod.mk.injEq] at h5; exact h5.2.symm
      subst hs2
      by_cases hok : ((!y.2) = true)
      · rw [if_pos hok] at h6; cases h6; cases hr
      · rw [if_neg hok] at h6
        simp only [StateT.bind, newNode, appendLine, modNode, modPc, pure, StateT.pure, Except.pure, Except.bind] at h6
        cases h6
        dsimp only
        rw [LI.getD_set, if_neg (by simp [hn1]; omega), hn1, getD_append_left s.nodes _ hlt]
        exact ⟨hk, hp⟩

/-- only `setextHeadingParser.Open` answers `RequireParagraph` -/
theorem requirePara_setext (bp : BP) (parent : Nat) (s s' : St) (a : Option Nat × PState)
    (h : bpOpen bp parent s = .ok (a, s')) (hr : a.2.requirePara = true) : bp = .setext := by
  have no : ∀ {m : M (Option Nat × PState)}, GM.Blocks.Ret m (fun x => x.2.requirePara = false) → m s = .ok (a, s') → False :=
    fun hm hh => by have := hm.h s a s' hh; rw [this] at hr; cases hr
  cases bp <;> unfold bpOpen at h
  · rfl
  · exact (no (by unfold thematicOpen; ret) h).elim
  · exact (no (by unfold listOpen; ret) h).elim
  · exact (no (by unfold listItemOpen; ret) h).elim
  · exact (no (by unfold codeOpen; ret) h).elim
  · exact (no (by unfold atxOpen; ret) h).elim
  · exact (no (by unfold fencedOpen; ret) h).elim
  · exact (no (by unfold blockquoteOpen; ret) h).elim
  · exact (no (by unfold htmlOpen; ret) h).elim
  · exact (no (by unfold paragraphOpen; ret) h).elim

/-- paragraph.go:46-64: `Close` of a Paragraph that has a line keeps it attached -/
theorem paragraphClose_parent (node : Nat) (s s1 : St) (h : paragraphClose node s = .ok ((), s1))
    (hl : (s.nodes.getD node default).lines ≠ []) :
    (s1.nodes.getD node default).parent = (s.nodes.getD node default).parent := by
  unfold paragraphClose at h
  obtain ⟨n, s0, h1, h2⟩ := bind_ok' (m := getNode node) h
  cases h1
  obtain ⟨src, s0, h1, h2⟩ := bind_ok' (m := source) h2
  cases h1
  have hlen : ((s.nodes.getD node default).lines.length != 0) = true := by
    cases hq : (s.nodes.getD node default).lines with
    | nil => exact absurd hq hl
    | cons a b => rfl
  dsimp only at h2
  rw [if_pos hlen] at h2
  have stay : ∀ {α : Type} {e : Except Panic α} {a : α} {t t' : St}, liftE e t = .ok (a, t') → t' = t := by
    intro α e a t t' hh
    have e' := liftE_eq hh
    unfold liftE at hh; rw [e'] at hh; simp only [Except.map, Except.ok.injEq, Prod.mk.injEq] at hh; exact hh.2.symm
  obtain ⟨ls, t1, h1, h2⟩ := bind_ok' (m := liftE _) h2
  have e1 := liftE_eq h1
  rw [stay h1] at h2
  obtain ⟨l1, t2, h1, h2⟩ := bind_ok' (m := liftE _) h2
  rw [stay h1] at h2
  obtain ⟨l2, t3, h1, h2⟩ := bind_ok' (m := liftE _) h2
  rw [stay h1] at h2
  obtain ⟨ls', t4, h1, h2⟩ := bind_ok' (m := liftE _) h2
  have e4 := liftE_eq h1
  rw [stay h1] at h2
  obtain ⟨u, s2, h1, h2⟩ := bind_ok' (m := modNode node _) h2
  cases h1
  obtain ⟨n', s3, h1, h2⟩ := bind_ok' (m := getNode node) h2
  cases h1
  have hlt : node < s.nodes.length := by
    rcases Nat.lt_or_ge node s.nodes.length with h' | h'
    · exact h'
    · rw [List.getD_eq_getElem?_getD, List.getElem?_eq_none h'] at hl; exact absurd rfl hl
  have hne : ls'.length ≠ 0 := by
    have a1 := PJ.lineSet_length e4
    have a2 := PJ.trimLeftAll_length _ _ _ e1
    simp only [bne_iff_ne, ne_eq] at hlen
    omega
  have hpos : node = node ∧ node < s.nodes.length := ⟨rfl, hlt⟩
  dsimp only at h2
  rw [LI.getD_set, if_pos hpos] at h2
  have hz : ¬ ((ls'.length == 0) = true) := by simpa using hne
  rw [if_neg hz] at h2
  cases h2
  dsimp only
  rw [LI.getD_set, if_pos hpos]

/-! ### the driver -/

section driver
variable {src : Bytes} (hb : NoBracket src) (guard : Bool)

theorem k_getNode {A : St → Prop} [Stable A] (id : Nat) : Keeps (INV src A) (getNode id) :=
  inv_keeps (GM.E2E.getNode_keeps id) (PJ.getNode_keeps id)

theorem k_liftE {A : St → Prop} [Stable A] {α} (e : Except Panic α) : Keeps (INV src A) (liftE e) :=
  inv_keeps (GM.E2E.liftE_keeps e) (PJ.liftE_keeps e)

theorem k_bpClose {A : St → Prop} [Stable A] (bp : BP) (n : Nat)
    (hk : ∀ s, A s → (s.nodes.getD n default).kind = GM.ConvertH.BP.kindOf bp) : Keeps (INV src A) (bpClose bp n) :=
  inv_keeps (GM.E2E.bpClose_keeps bp n) (PJ.bpClose_keeps bp n hk)

theorem k_pure {A : St → Prop} {α} (a : α) : Keeps (INV src A) (pure a : M α) := inv_keeps (Keeps.pure a) (Keeps.pure a)
theorem k_throw {A : St → Prop} {α} (e : Panic) : Keeps (INV src A) (throw e : M α) := inv_keeps (Keeps.throw e) (Keeps.throw e)
theorem k_get {A : St → Prop} [Stable A] : Keeps (INV src A) (get : M St) := inv_keeps GM.E2E.get_keeps PJ.get_keeps
theorem k_getPc {A : St → Prop} [Stable A] : Keeps (INV src A) getPc := inv_keeps GM.E2E.getPc_keeps PJ.getPc_keeps
theorem k_source {A : St → Prop} [Stable A] : Keeps (INV src A) source := inv_keeps GM.E2E.source_keeps PJ.source_keeps
theorem k_position {A : St → Prop} [Stable A] : Keeps (INV src A) position := inv_keeps GM.E2E.position_keeps PJ.position_keeps
theorem k_peekLine {A : St → Prop} [Stable A] : Keeps (INV src A) peekLine := inv_keeps GM.E2E.peekLine_keeps PJ.peekLine_keeps
theorem k_lineOffset {A : St → Prop} [Stable A] : Keeps (INV src A) lineOffset :=
  inv_keeps GM.E2E.lineOffset_keeps PJ.lineOffset_keeps
theorem k_advanceLine {A : St → Prop} [Stable A] : Keeps (INV src A) advanceLine :=
  inv_keeps GM.E2E.advanceLine_keeps PJ.advanceLine_keeps
theorem k_skipBlank {A : St → Prop} [Stable A] : Keeps (INV src A) skipBlankLinesR :=
  inv_keeps GM.E2E.skipBlankLinesR_keeps PJ.skipBlankLinesR_keeps
theorem k_modPc {A : St → Prop} [Stable A] (f : Ctx → Ctx) (hf : ∀ pc, (f pc).opened = pc.opened) :
    Keeps (INV src A) (modPc f) := inv_keeps (GM.E2E.modPc_keeps f) (PJ.modPc_keeps f hf)
theorem k_toContinuable {A : St → Prop} [Stable A] (c : Bool) (r : OpenResult) (lb : Option Block) :
    Keeps (INV src A) (toContinuable c r lb) := inv_keeps (GM.E2E.toContinuable_keeps c r lb) (PJ.toContinuable_keeps c r lb)
theorem k_bpContinue {A : St → Prop} [Stable A] (bp : BP) (n : Nat) : Keeps (INV src A) (bpContinue bp n) :=
  inv_keeps (GM.E2E.bpContinue_keeps bp n) (PJ.bpContinue_keeps bp n)
theorem k_bpOpen {A : St → Prop} [Stable A] (bp : BP) (n : Nat) : Keeps (INV src A) (bpOpen bp n) :=
  inv_keeps (GM.E2E.bpOpen_keeps bp n) (PJ.bpOpen_keeps bp n)
theorem k_lastOpened {A : St → Prop} [Stable A] : Keeps (INV src A) lastOpenedBlock :=
  inv_keeps GM.E2E.lastOpenedBlock_keeps PJ.lastOpenedBlock_keeps
theorem k_appendChild {A : St → Prop} [Stable A] (p c : Nat) : Keeps (INV src A) (appendChild p c) :=
  inv_keeps (GM.E2E.appendChild_keeps p c) (PJ.appendChild_keeps p c)
theorem k_setOpened {A : St → Prop} [Stable A] (l : List Block) (h : ∀ s, A s → ∀ b ∈ l, OKB b s) :
    Keeps (INV src A) (modPc fun pc => { pc with opened := l }) :=
  inv_keeps (GM.E2E.modPc_keeps _) (PJ.setOpened_keeps l h)
theorem k_pushOpened {A : St → Prop} [Stable A] (b : Block) (h : ∀ s, A s → OKB b s) :
    Keeps (INV src A) (modPc fun pc => { pc with opened := pc.opened ++ [b] }) :=
  inv_keeps (GM.E2E.modPc_keeps _) (PJ.pushOpened_keeps b h)

theorem ptsKeepXS_nil : PTsKeep (XS src) [] := fun _ h => by cases h
theorem ptsKeepPJ_nil : ∀ (B : St → Prop) [Stable B], PTsKeep (PJ B) [] := fun _ _ _ h => by cases h

theorem k_closeBlocksT {A : St → Prop} [Stable A] (frm to : Int) : Keeps (INV src A) (closeBlocksT [] frm to) :=
  inv_keeps (GM.E2E.closeBlocksT_keeps ptsKeepXS_nil frm to) (PJ.closeBlocksT_keeps ptsKeepPJ_nil frm to)

include hb

theorem closeLoopT_rel {A : St → Prop} [Stable A] (blocks : List Block) (hbk : ∀ s, A s → AllOKB blocks s) (to : Int) :
    ∀ k, RelK (INV src A) (closeLoopT (GM.Convert.paragraphTransformers guard) blocks to k) (closeLoopT [] blocks to k)
  | 0 => by
    unfold closeLoopT
    exact RelK.refl (inv_keeps (Keeps.pure _) (Keeps.pure _))
  | k + 1 => by
    unfold closeLoopT
    refine RelK.liftE_bind _ (k_liftE _) (fun b hbl => ?_)
    refine RelKP.bindP (k_getNode b.node) (fun n s => n = s.nodes.getD b.node default) (fun s a s' _ h => by cases h; rfl)
      (fun n => ?_)
    refine tpGuard_rel hb guard b.node n _ _ ?_
    refine RelKP.bind (RelK.refl (k_getNode _)) (fun n2 => ?_)
    have hbc : Keeps (INV src A) (bpClose b.bp b.node) :=
      k_bpClose b.bp b.node (fun s h => (hbk s h b (blockAt_mem hbl)).2)
    refine RelKP.ite (fun _ => ?_) (fun _ => closeLoopT_rel blocks hbk to k)
    exact RelKP.bind (RelK.refl hbc) (fun _ => closeLoopT_rel blocks hbk to k)

theorem closeBlocksT_rel {A : St → Prop} [Stable A] (frm to : Int) :
    RelK (INV src A) (closeBlocksT (GM.Convert.paragraphTransformers guard) frm to) (closeBlocksT [] frm to) := by
  refine ⟨fun s hs _ => ?_, fun s a s' hs _ hm => (k_closeBlocksT frm to).h s a s' hs hm⟩
  unfold closeBlocksT
  refine relS_bind (.inl rfl) (fun pc s1 h1 => ?_)
  cases h1
  have hI : INV src (fun t => A t ∧ AllOKB s.pc.opened t) s := ⟨hs.1, hs.2.1, hs.2.2.1, hs.2.2.2, hs.2.2.1⟩
  exact relS_bind ((closeLoopT_rel hb guard s.pc.opened (fun _ h => h.2) to _).rel s hI trivial) (fun _ _ _ => .inl rfl)

/-- what `setextHeadingParser.Open` leaves behind when it answers `RequireParagraph`: the last opened block is a consistent
    Paragraph block whose node is attached -/
def ReqPre (lastBlock : Option Block) (s : St) : Prop :=
  ∀ b, lastBlock = some b → OKB b s ∧ (s.nodes.getD b.node default).kind = .paragraph ∧
    (s.nodes.getD b.node default).parent.isSome = true

theorem requireParaT_rel {A : St → Prop} [Stable A] (parent : Nat) (last : Option Nat) (lastBlock : Option Block) :
    RelKP (INV src A) (ReqPre lastBlock) (requireParaT (GM.Convert.paragraphTransformers guard) parent last lastBlock)
      (requireParaT [] parent last lastBlock) := by
  constructor
  · intro s hs hp
    unfold requireParaT
    refine relS_bind (.inl rfl) (fun pn s0 h0 => ?_)
    cases h0
    split
    · cases lastBlock with
      | none => exact .inl rfl
      | some b =>
        obtain ⟨hokb, hkind, hpar⟩ := hp b rfl
        dsimp only
        refine relS_bind (.inl rfl) (fun _ s1 h1 => ?_)
        have hbp : b.bp = .paragraph := by
          have := hokb.2
          rw [hkind] at this
          cases hb' : b.bp <;> rw [hb'] at this <;> simp [GM.ConvertH.BP.kindOf] at this
        have hpc : bpClose b.bp b.node = paragraphClose b.node := by rw [hbp]; rfl
        rw [hpc] at h1
        have hl : (s.nodes.getD b.node default).lines ≠ [] := hs.2.1 b.node hkind
        have hpar1 := paragraphClose_parent b.node s s1 h1 hl
        have hI1 : INV src A s1 :=
          (inv_keeps (GM.E2E.paragraphClose_keeps b.node) (PJ.paragraphClose_keeps b.node)).h s _ s1 hs h1
        refine relS_bind (.inl rfl) (fun pc s1' hpc' => ?_)
        cases hpc'
        split
        · exact .inl rfl
        · refine relS_bind (.inl rfl) (fun _ s2 h2 => ?_)
          cases h2
          refine relS_bind (.inl rfl) (fun n2 s2' h3 => ?_)
          cases h3
          split
          · exact .inl rfl
          · rename_i hk2
            have hk2' : (s1.nodes.getD b.node default).kind = .paragraph := by simpa using hk2
            have hsil := tp_silent (src := src) hb guard b.node
              ({ s1 with pc := { s1.pc with opened := s1.pc.opened.dropLast } } : St) (by show s1.r.source = src; exact inv_source hI1)
              (hI1.2.1 b.node hk2') (by show (s1.nodes.getD b.node default).parent.isSome = true; rw [hpar1]; exact hpar)
            unfold RelS
            rw [tp_nil hb]
            rcases hsil with h | h
            · exact .inl h
            · exact .inr h
    · exact .inl rfl
  · intro s a s' hs hp hm
    have hI : INV src (fun t => A t ∧ LastOK lastBlock t) s :=
      ⟨hs.1, hs.2.1, hs.2.2.1, hs.2.2.2, fun b hb' => (hp b hb').1⟩
    have := (inv_keeps (GM.E2E.requireParaT_keeps ptsKeepXS_nil parent last lastBlock)
      (PJ.requireParaT_keeps ptsKeepPJ_nil parent last lastBlock (fun _ h => h.2))).h s a s' hI hm
    exact ⟨this.1, this.2.1, this.2.2.1, this.2.2.2.1⟩


omit hb in
theorem k_blankPrev {A : St → Prop} [Stable A] (node : Nat) (bl : Bool) :
    Keeps (INV src A) (modNode node fun n => { n with blankPrev := bl }) :=
  inv_keeps (GM.E2E.modNode_keeps _ _ (fun _ => ⟨rfl, rfl, rfl, rfl⟩)) (PJ.modNode_keeps _ _ (fun _ => ⟨rfl, fun _ h => h⟩))

macro "kinv" : tactic =>
  `(tactic| first
    | exact k_pure _
    | exact k_throw _
    | exact k_get
    | exact k_getNode _
    | exact k_getPc
    | exact k_source
    | exact k_position
    | exact k_peekLine
    | exact k_lineOffset
    | exact k_advanceLine
    | exact k_skipBlank
    | exact k_liftE _
    | exact k_toContinuable _ _ _
    | exact k_bpContinue _ _
    | exact k_lastOpened
    | exact k_appendChild _ _
    | exact k_blankPrev _ _
    | (refine k_modPc _ (fun _ => ?_); first | rfl | (split <;> rfl))
    | apply_hyp)

macro "relk_step" : tactic =>
  `(tactic| first
    | apply_hyp
    | ((with_reducible refine RelK.refl ?_); kinv)
    | refine RelKP.bind ?_ (fun _ => ?_)
    | refine RelKP.ite (fun _ => ?_) (fun _ => ?_)
    | intro _
    | split)

macro "relk" : tactic => `(tactic| repeat' relk_step)

/-- parser.go:960-1014 -/
theorem tryParsersT_rel (parent : Nat) (blankLine continuable : Bool) (w : Int) :
    ∀ (bps : List BP) (A : St → Prop) [Stable A] (result : OpenResult) (lastBlock : Option Block),
      RelK (INV src A) (tryParsersT (GM.Convert.paragraphTransformers guard) parent blankLine continuable w bps result lastBlock)
        (tryParsersT [] parent blankLine continuable w bps result lastBlock)
  | [], A, _, result, lastBlock => by
    unfold tryParsersT
    exact RelK.refl (k_pure _)
  | bp :: bps, A, _, result, lastBlock => by
    have ih := tryParsersT_rel parent blankLine continuable w bps
    unfold tryParsersT
    refine RelKP.ite (fun _ => ih A result lastBlock) (fun _ => ?_)
    refine RelKP.ite (fun _ => ih A result lastBlock) (fun _ => ?_)
    -- `lastOpenedBlock`: the block is consistent (stable), and it IS the top of the stack (here)
    refine RelKP.bindQP k_lastOpened (fun lb => LastOK lb) (fun lb s => lb = s.pc.opened.getLast?)
      (fun s a s' hs _ hm => ?_) (fun lb => ?_)
    · simp only [lastOpenedBlock, bind, StateT.bind, getPc, pure, StateT.pure, Except.pure, Except.bind] at hm
      cases hm
      exact ⟨fun x hx => hs.2.2.1 x (List.mem_of_getLast? hx), rfl⟩
    -- `Open`: the node it answers is consistent (stable); on `RequireParagraph` the top block is an attached Paragraph (here)
    refine RelKP.bindQP (k_bpOpen bp parent) (fun a => OpenKind bp a)
      (fun a s => a.2.requirePara = true → ReqPre lb s) (fun s a s' hs hlb hm => ?_) (fun a => ?_)
    · refine ⟨PJ.bpOpen_kind bp parent s s' a hm, fun hr => ?_⟩
      have hbp := requirePara_setext bp parent s s' a hm hr
      subst hbp
      obtain ⟨lb', h1, h2, h3⟩ := setextOpen_post parent s s' a (by simpa [bpOpen] using hm) hr
      have hI' := (k_bpOpen (A := fun t => A t ∧ LastOK lb t) BP.setext parent).h s a s' hs hm
      intro b hb'
      have : b = lb' := by rw [hlb, h1] at hb'; cases hb'; rfl
      subst this
      exact ⟨hI'.2.2.2.2 b hb', h2, by rw [h3]; rfl⟩
    obtain ⟨node, state⟩ := a
    cases node with
    | none => exact (ih _ result lb).toP
    | some node =>
      dsimp only
      have hcl := fun (B : St → Prop) [Stable B] => closeBlocksT_rel (A := B) hb guard
      have hpush : Keeps (INV src (fun s => (A s ∧ LastOK lb s) ∧ OpenKind bp (some node, state) s))
          (modPc fun pc => { pc with opened := pc.opened ++ [{ node := node, bp := bp }] }) :=
        k_pushOpened _ (fun s h => h.2 node rfl)
      refine RelKP.ite (fun hr => ?_) (fun _ => ?_)
      · refine RelKP.bind ((requireParaT_rel hb guard parent _ lb).mono (fun s h => h hr)) (fun transformed => ?_)
        relk
      · refine RelK.toP ?_
        relk

theorem retryStepT_rel {A : St → Prop} [Stable A] (blank tdone cont : Bool) (parent : Nat) (w : Int) (bps : List BP)
    (result : OpenResult) (lb : Option Block)
    (againA againB : Bool → Bool → Nat → OpenResult → Option Block → M OpenResult)
    (hag : ∀ a b c d e, RelK (INV src A) (againA a b c d e) (againB a b c d e)) :
    RelK (INV src A) (retryStepT (GM.Convert.paragraphTransformers guard) blank tdone cont parent w bps result lb againA)
      (retryStepT [] blank tdone cont parent w bps result lb againB) := by
  have := fun p b c w bps r l => tryParsersT_rel hb guard p b c w bps A r l
  unfold retryStepT; relk

theorem openBlocksLoopT_rel {A : St → Prop} [Stable A] (blank : Bool) :
    ∀ (fuel : Nat) (tdone cont : Bool) (parent : Nat) (result : OpenResult) (lb : Option Block),
      RelK (INV src A) (openBlocksLoopT (GM.Convert.paragraphTransformers guard) blank fuel tdone cont parent result lb)
        (openBlocksLoopT [] blank fuel tdone cont parent result lb) := by
  intro fuel
  induction fuel with
  | zero => intro _ _ _ _ _; unfold openBlocksLoopT; relk
  | succ fuel ih =>
    intro tdone cont parent result lb
    have := fun a b c d e f g => retryStepT_rel hb guard (A := A) blank a b c d e f g _ _ ih
    unfold openBlocksLoopT; relk

theorem openBlocksT_rel {A : St → Prop} [Stable A] (parent : Nat) (blank : Bool) :
    RelK (INV src A) (openBlocksT (GM.Convert.paragraphTransformers guard) parent blank) (openBlocksT [] parent blank) := by
  have := openBlocksLoopT_rel hb guard (A := A)
  unfold openBlocksT; relk

theorem lineLoopT_rel {A : St → Prop} [Stable A] (parent : Nat) (ob : List Block) (li : Int) :
    ∀ (rest : List Block) (i : Int) (bl : List LineStat),
      RelK (INV src A) (lineLoopT (GM.Convert.paragraphTransformers guard) parent ob li rest i bl)
        (lineLoopT [] parent ob li rest i bl) := by
  have := closeBlocksT_rel hb guard (A := A)
  have := openBlocksT_rel hb guard (A := A)
  intro rest
  induction rest with
  | nil => intro _ _; unfold lineLoopT; relk
  | cons be rest ih => intro i bl; unfold lineLoopT; relk

theorem linesLoopT_rel {A : St → Prop} [Stable A] (parent : Nat) : ∀ (fuel : Nat) (bl : List LineStat),
    RelK (INV src A) (linesLoopT (GM.Convert.paragraphTransformers guard) parent fuel bl) (linesLoopT [] parent fuel bl) := by
  have := lineLoopT_rel hb guard (A := A)
  intro fuel
  induction fuel with
  | zero => intro _; unfold linesLoopT; relk
  | succ fuel ih => intro bl; unfold linesLoopT; relk

theorem blocksLoopT_rel {A : St → Prop} [Stable A] (parent : Nat) : ∀ (fuel : Nat) (bl : List LineStat),
    RelK (INV src A) (blocksLoopT (GM.Convert.paragraphTransformers guard) parent fuel bl) (blocksLoopT [] parent fuel bl) := by
  have := openBlocksT_rel hb guard (A := A)
  have := linesLoopT_rel hb guard (A := A)
  intro fuel
  induction fuel with
  | zero => intro _; unfold blocksLoopT; relk
  | succ fuel ih => intro bl; unfold blocksLoopT; relk

theorem parseBlocksT_rel {A : St → Prop} [Stable A] (parent : Nat) :
    RelK (INV src A) (parseBlocksT (GM.Convert.paragraphTransformers guard) parent) (parseBlocksT [] parent) := by
  have := blocksLoopT_rel hb guard (A := A)
  have hset : Keeps (INV src A) (modPc fun pc => { pc with opened := [] }) := k_setOpened [] (fun _ _ _ h => by cases h)
  unfold parseBlocksT; relk

end driver

/-! ### whole runs -/

/-- **the block phase with the link-reference transformer on a source without `[`**: the outcome of the block phase
    without transformers (the same final state — reader, node store, parse context — or the same error), or an error -/
theorem runT_rel (src : Bytes) (hb : NoBracket src) (guard : Bool) :
    runT (GM.Convert.paragraphTransformers guard) src = runT [] src ∨
      ∃ e, runT (GM.Convert.paragraphTransformers guard) src = .error e := by
  have hI : INV src (fun _ => True) (initSt src) := ⟨xs_init src, PJ.pj_init src⟩
  unfold runT
  rcases (parseBlocksT_rel hb guard (A := fun _ => True) 0).rel (initSt src) hI trivial with h | ⟨e, h⟩
  · rw [h]; exact .inl rfl
  · rw [h]; exact .inr ⟨e, rfl⟩

end GM.E2E.Rel

namespace GM.E2E
open GM GM.Text GM.Convert

/-- **`block_phase_bracket_free`**: on a source without `[` the block phase of the default pipeline (guarded or not) answers what
    the block phase without paragraph transformers answers, or it errs -/
theorem blockPhase_noBracket (guard : Bool) (src : Bytes) (hb : NoBracket src) :
    blockPhase guard src = GM.Blocks.run src ∨ ∃ e, blockPhase guard src = .error e := by
  unfold blockPhase
  rw [← GM.Blocks.runT_nil]
  exact Rel.runT_rel src hb guard

end GM.E2E
