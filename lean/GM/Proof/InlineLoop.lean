/-
  GM.Proof.InlineLoop — lemmas about the model of `(*parser).parseBlock` (GM.Model.InlineLoop).
-/
import GM.Model.InlineLoop
import GM.Spec.HardBreak

namespace GM.Proof.InlineLoop
open GM GM.InlineLoop

/-! ### slices, trimming -/

theorem slice_self (src : Bytes) (a : Nat) : slice src a a = [] := by simp [slice]

theorem slice_append (src : Bytes) {a b c : Nat} (h1 : a ≤ b) (h2 : b ≤ c) :
    slice src a b ++ slice src b c = slice src a c := by
  unfold slice
  have e : c - a = (b - a) + (c - b) := by omega
  rw [e, List.take_add, List.drop_drop]
  have : a + (b - a) = b := by omega
  rw [this]

theorem slice_length (src : Bytes) {a b : Nat} (h1 : a ≤ b) (h2 : b ≤ src.length) : (slice src a b).length = b - a := by
  simp [slice]; omega

theorem le_trimStop (src : Bytes) (a b : Nat) : a ≤ trimStop src a b := by
  induction b with
  | zero => simp [trimStop]
  | succ b ih =>
    unfold trimStop
    split
    · omega
    · split <;> omega

theorem trimStop_le (src : Bytes) (a b : Nat) (h : a ≤ b) : trimStop src a b ≤ b := by
  induction b with
  | zero => simp [trimStop]; omega
  | succ b ih =>
    unfold trimStop
    split
    · omega
    · split
      · have := ih (by omega); omega
      · omega

theorem trimStop_shift (src : Bytes) (s0 sp cur : Nat) (h0 : s0 ≤ sp) (h : sp < trimStop src sp cur) :
    trimStop src s0 cur = trimStop src sp cur := by
  induction cur with
  | zero => simp [trimStop] at h
  | succ b ih =>
    unfold trimStop at h ⊢
    by_cases hb : b < sp
    · simp [hb] at h
    · have hb0 : ¬ b < s0 := by omega
      simp only [hb, hb0, if_false] at h ⊢
      split
      · rename_i hs; simp only [hs, if_true] at h; exact ih h
      · rfl

theorem trimStop_empty (src : Bytes) (s0 sp cur : Nat) (h0 : s0 ≤ sp) (h1 : sp ≤ cur) (h : trimStop src sp cur ≤ sp) :
    trimStop src s0 cur = trimStop src s0 sp := by
  induction cur with
  | zero => have : sp = 0 := by omega
            subst this; rfl
  | succ b ih =>
    by_cases hb : b < sp
    · have : sp = b + 1 := by omega
      subst this; rfl
    · have hb0 : ¬ b < s0 := by omega
      unfold trimStop at h
      simp only [hb, if_false] at h
      rw [trimStop]
      simp only [hb0, if_false]
      split
      · rename_i hs; simp only [hs, if_true] at h; exact ih (by omega) h
      · rename_i hs; simp only [hs] at h; simp at h; omega

/-! ### children: flushing, resolving -/

/-- the text flushed so far in the current stretch `[s0, p)` on top of the older children `k` -/
def fl (k : List Child) (s0 p : Nat) : List Child := if s0 = p then k else .text s0 p false false :: k

/-- the last child, if a Text, ends strictly before `p` -/
def inert (k : List Child) (p : Nat) : Prop := ∀ a t s h rest, k = .text a t s h :: rest → t < p

theorem inert_nil (p : Nat) : inert [] p := by intro a t s h rest e; cases e
theorem inert_node (id : Nat) (k : List Child) (p : Nat) : inert (.node id :: k) p := by
  intro a t s h rest e; cases e
theorem inert_mono {k : List Child} {p q : Nat} (h : inert k p) (hpq : p ≤ q) : inert k q := by
  intro a t s h' rest e; have := h a t s h' rest e; omega

theorem mergeOrAppend_fl {k : List Child} {s0 sp e : Nat} (hk : inert k s0) (h0 : s0 ≤ sp) (h1 : sp < e) :
    mergeOrAppend (fl k s0 sp) sp e = fl k s0 e := by
  unfold fl
  by_cases h : s0 = sp
  · subst h
    have hne : s0 ≠ e := by omega
    simp only [if_true, hne, if_false]
    match k, hk with
    | [], _ => rfl
    | .node _ :: _, _ => rfl
    | .text a t s h' :: rest, hk =>
      have := hk a t s h' rest rfl
      have hts : (t == s0) = false := by simp; omega
      simp [mergeOrAppend, hts]
  · have hne : s0 ≠ e := by omega
    simp [h, hne, mergeOrAppend]

theorem resolve_cons (src : Bytes) (x : Child) (k : List Child) :
    resolve src (x :: k) = resolve src k ++ itemsOf src x := by
  simp [resolve]

def bytesOf (src : Bytes) (a b : Nat) : List Item := (slice src a b).map .byte

theorem bytesOf_append (src : Bytes) {a b c : Nat} (h1 : a ≤ b) (h2 : b ≤ c) :
    bytesOf src a b ++ bytesOf src b c = bytesOf src a c := by
  unfold bytesOf; rw [← List.map_append, slice_append src h1 h2]

theorem bytesOf_self (src : Bytes) (a : Nat) : bytesOf src a a = [] := by simp [bytesOf, slice_self]

theorem resolve_fl (src : Bytes) (k : List Child) (s0 p : Nat) :
    resolve src (fl k s0 p) = resolve src k ++ bytesOf src s0 p := by
  unfold fl
  split
  · rename_i h; subst h; simp [bytesOf_self]
  · simp [resolve_cons, itemsOf, bytesOf]

theorem repairPrev_inert (src : Bytes) {k : List Child} {s0 : Nat} (hk : inert k s0) : repairPrev src k s0 = k := by
  match k, hk with
  | [], _ => rfl
  | .node _ :: _, _ => rfl
  | .text a t true _ :: rest, _ => rfl
  | .text a t false true :: rest, _ => rfl
  | .text a t false false :: rest, hk =>
    have := hk a t false false rest rfl
    have hts : (t == s0) = false := by simp; omega
    simp [repairPrev, hts]

def brkOf (f : Flags) : List Item := if f.soft || f.hard then [.brk f.soft f.hard] else []

/-- where the end-of-line Text stops -/
def eolStop (src : Bytes) (f : Flags) (s0 cur : Nat) : Nat :=
  if f.hard && f.visible then cur else trimStop src s0 cur

/-- closed form of the end-of-line step: whatever part `[s0, sp)` of the stretch had already been flushed, the
    resolved text is the older children, the bytes `[s0, eolStop)` and the break -/
theorem eolKids_resolve (src : Bytes) (f : Flags) {k : List Child} {s0 sp cur : Nat}
    (hk : inert k s0) (h0 : s0 ≤ sp) (h1 : sp ≤ cur) :
    resolve src (eolKids src f (fl k s0 sp) sp cur) =
      resolve src k ++ bytesOf src s0 (eolStop src f s0 cur) ++ brkOf f := by
  unfold eolKids eolStop
  by_cases hv : (f.hard && f.visible) = true
  · simp only [hv, if_true]
    rw [resolve_cons, resolve_fl]
    simp only [itemsOf, List.append_assoc]
    rw [← List.append_assoc (bytesOf src s0 sp)]
    show _ ++ ((bytesOf src s0 sp ++ bytesOf src sp cur) ++ _) = _
    rw [bytesOf_append src h0 h1]; rfl
  · simp only [hv, if_false, Bool.false_eq_true]
    by_cases he : sp ≥ trimStop src sp cur
    · simp only [he, if_true]
      have hE := trimStop_empty src s0 sp cur h0 h1 he
      rw [hE]
      by_cases hs : s0 = sp
      · subst hs
        have hfl : fl k s0 s0 = k := by simp [fl]
        rw [hfl]
        have hrep : repairPrev src k s0 = k := repairPrev_inert src hk
        rw [hrep, resolve_cons]
        have : trimStop src s0 s0 = s0 := by
          have a1 := le_trimStop src s0 s0
          have a2 := trimStop_le src s0 s0 (Nat.le_refl _)
          omega
        simp [itemsOf, slice_self, this, bytesOf_self, brkOf]
      · have hfl : fl k s0 sp = .text s0 sp false false :: k := by simp [fl, hs]
        rw [hfl]
        simp only [repairPrev, beq_self_eq_true, if_true]
        rw [resolve_cons, resolve_cons]
        simp [itemsOf, slice_self, bytesOf, brkOf]
    · simp only [he, if_false]
      have hlt : sp < trimStop src sp cur := by omega
      rw [trimStop_shift src s0 sp cur h0 hlt, resolve_cons, resolve_fl]
      simp only [itemsOf, List.append_assoc]
      rw [← List.append_assoc (bytesOf src s0 sp)]
      show _ ++ ((bytesOf src s0 sp ++ bytesOf src sp _) ++ _) = _
      rw [bytesOf_append src h0 (Nat.le_of_lt hlt)]; rfl

/-! ### reader -/

theorem advance_zero (b : Block) (r : Reader) : advance b r 0 = r := by
  unfold advance; split <;> simp [advanceSlow]

theorem advance_fast (b : Block) (r : Reader) (n : Nat) (h : r.start + n < r.stop) :
    advance b r n = { r with start := r.start + n } := by
  unfold advance; have : n < r.stop - r.start := by omega
  simp [this]

/-! ### consultation -/

/-- what a consultation of the parsers `ps` at the reader position `saved` returns: the first acceptance -/
def firstAccept (b : Block) (saved : Reader) : List Parser → Option (Reader × Nat)
  | [] => none
  | p :: ps =>
    match p.script saved.line saved.start with
    | .accept n id => some (advance b saved n, id)
    | .decline _ => firstAccept b saved ps

theorem tryParsers_fst (b : Block) (saved : Reader) (pc : UInt8) (i : Nat) (c : UInt8) (esc : Bool)
    (ps : List Parser) (log : List Call) :
    (tryParsers b saved pc i c esc ps log).1 = firstAccept b saved ps := by
  induction ps generalizing log with
  | nil => rfl
  | cons p ps ih =>
    unfold tryParsers firstAccept
    cases h : p.script saved.line saved.start with
    | accept n id => rfl
    | decline m => exact ih _

theorem firstAccept_append (b : Block) (saved : Reader) (xs ys : List Parser) :
    firstAccept b saved (xs ++ ys) =
      match firstAccept b saved xs with
      | some r => some r
      | none => firstAccept b saved ys := by
  induction xs with
  | nil => rfl
  | cons p xs ih =>
    simp only [List.cons_append, firstAccept]
    cases h : p.script saved.line saved.start with
    | accept n id => rfl
    | decline m => exact ih

theorem mem_table {ps : List Parser} {pc : UInt8} {q : Parser} (h : q ∈ table ps pc) : q ∈ ps ∧ pc ∈ q.triggers := by
  unfold table at h
  rw [List.mem_flatMap] at h
  obtain ⟨p, hp, hq⟩ := h
  rw [List.mem_map] at hq
  obtain ⟨x, hx, rfl⟩ := hq
  rw [List.mem_filter] at hx
  have : x = pc := by simpa using hx.2
  exact ⟨hp, this ▸ hx.1⟩

theorem firstAccept_some {b : Block} {saved : Reader} {xs : List Parser} {rd' : Reader} {id : Nat}
    (h : firstAccept b saved xs = some (rd', id)) :
    ∃ q ∈ xs, ∃ n, q.script saved.line saved.start = .accept n id ∧ rd' = advance b saved n := by
  induction xs with
  | nil => cases h
  | cons p xs ih =>
    unfold firstAccept at h
    cases hs : p.script saved.line saved.start with
    | accept n id' =>
      rw [hs] at h
      simp only [Option.some.injEq, Prod.mk.injEq] at h
      exact ⟨p, List.mem_cons_self, n, by rw [hs, h.2], h.1.symm⟩
    | decline m =>
      rw [hs] at h
      obtain ⟨q, hq, n, h1, h2⟩ := ih h
      exact ⟨q, List.mem_cons_of_mem _ hq, n, h1, h2⟩

/-- the trigger test parser.go:1199 and the table index parser.go:1200-1203 -/
def isSp (c : UInt8) : Bool := isSpace c && c != 13 && c != 10
def trigOf (escSpace : Bool) (c : UInt8) (i : Nat) (escaped : Bool) : Bool :=
  (isPunct c && !escaped) || (isSp c && !(escaped && escSpace)) || i == 0
def pcOf (c : UInt8) (i : Nat) : UInt8 := if isSp c || (i == 0 && !isPunct c) then 32 else c

theorem step_def (P : Params) (b : Block) (c : UInt8) (i n sp : Nat) (st : St) :
    step P b c i n sp st =
      if trigOf P.escapedSpace c i st.escaped && !(table P.parsers (pcOf c i)).isEmpty then
        match tryParsers b (advance b st.rd n) (pcOf c i) i c st.escaped (table P.parsers (pcOf c i)) st.log with
        | (some (rd', id), log) =>
          .hit { st with rd := rd', log := log,
                         kids := .node id :: (if i != 0 then mergeOrAppend st.kids sp (advance b st.rd n).start else st.kids) }
        | (none, log) =>
          .cont 1 (if i != 0 then (advance b st.rd n).start else sp)
            { st with rd := advance b st.rd n, log := log, escaped := !st.escaped && c == 92,
                      kids := (if i != 0 then mergeOrAppend st.kids sp (advance b st.rd n).start else st.kids) }
      else .cont (n + 1) sp { st with escaped := !st.escaped && c == 92 } := rfl

/-- the three outcomes of one byte, in closed form -/
theorem step_cases (P : Params) (b : Block) (c : UInt8) (i n sp : Nat) (st : St) (k : List Child) (s0 : Nat)
    (hroom : st.rd.start + n < st.rd.stop) (hsp : sp = st.rd.start) (hk : st.kids = fl k s0 st.rd.start)
    (hin : inert k s0) (hs0 : s0 ≤ st.rd.start) (hi0 : i = 0 → n = 0) (hipos : i ≠ 0 → 1 ≤ n) :
    let cur := st.rd.start + n
    let rdc : Reader := { st.rd with start := cur }
    let cond := trigOf P.escapedSpace c i st.escaped && !(table P.parsers (pcOf c i)).isEmpty
    let esc' := !st.escaped && c == 92
    (cond = false ∧ step P b c i n sp st = .cont (n + 1) sp { st with escaped := esc' }) ∨
    (cond = true ∧ firstAccept b rdc (table P.parsers (pcOf c i)) = none ∧
      ∃ log, step P b c i n sp st = .cont 1 cur ⟨rdc, fl k s0 cur, esc', log⟩) ∨
    (cond = true ∧ ∃ rd' id log, firstAccept b rdc (table P.parsers (pcOf c i)) = some (rd', id) ∧
      step P b c i n sp st = .hit ⟨rd', .node id :: fl k s0 cur, st.escaped, log⟩) := by
  intro cur rdc cond esc'
  have hadv : advance b st.rd n = rdc := advance_fast b st.rd n hroom
  have hkids : (if i != 0 then mergeOrAppend st.kids sp (advance b st.rd n).start else st.kids) = fl k s0 cur := by
    rw [hadv]
    by_cases h : i = 0
    · have : n = 0 := hi0 h
      subst h; simp [hk, cur, this]
    · have := hipos h
      have hne : (i != 0) = true := by simp [h]
      simp only [hne, if_true]
      rw [hk, hsp]
      exact mergeOrAppend_fl hin hs0 (by show st.rd.start < st.rd.start + n; omega)
  have hsp' : (if i != 0 then (advance b st.rd n).start else sp) = cur := by
    rw [hadv]
    by_cases h : i = 0
    · have : n = 0 := hi0 h
      subst h; simp [hsp, cur, this]
    · have hne : (i != 0) = true := by simp [h]
      simp [hne, rdc]
  cases hc : cond with
  | false =>
    left
    refine ⟨rfl, ?_⟩
    have hc' : (trigOf P.escapedSpace c i st.escaped && !(table P.parsers (pcOf c i)).isEmpty) = false := hc
    rw [step_def, hc']
    rfl
  | true =>
    right
    have hc' : (trigOf P.escapedSpace c i st.escaped && !(table P.parsers (pcOf c i)).isEmpty) = true := hc
    have hfst := tryParsers_fst b (advance b st.rd n) (pcOf c i) i c st.escaped (table P.parsers (pcOf c i)) st.log
    rw [hadv] at hfst
    cases hr : tryParsers b (advance b st.rd n) (pcOf c i) i c st.escaped (table P.parsers (pcOf c i)) st.log with
    | mk r log =>
      rw [hadv] at hr
      rw [hr] at hfst
      simp only at hfst
      cases r with
      | none =>
        left
        refine ⟨rfl, hfst.symm, log, ?_⟩
        rw [step_def, hc', hkids, hsp', hadv, hr]
        rfl
      | some v =>
        right
        obtain ⟨rd', id⟩ := v
        refine ⟨rfl, rd', id, log, hfst.symm, ?_⟩
        rw [step_def, hc', hkids, hadv, hr]
        rfl

/-! ### two runs of the byte loop side by side -/

/-- `B` consults at least where `A` consults, and every consultation has the same result -/
structure TabRel (A B : List Parser) : Prop where
  same : ∀ pc b saved, firstAccept b saved (table A pc) = firstAccept b saved (table B pc)
  more : ∀ pc, (table A pc).isEmpty = false → (table B pc).isEmpty = false

theorem TabRel.refl (A : List Parser) : TabRel A A := ⟨fun _ _ _ => rfl, fun _ h => h⟩

/-- bytes before the first newline -/
def pre (cs : List UInt8) : Nat := (cs.takeWhile (· != 10)).length

theorem pre_cons_ne {c : UInt8} (cs : List UInt8) (h : (c == 10) = false) : pre (c :: cs) = pre cs + 1 := by
  have : (c != 10) = true := by simp [bne, h]
  simp [pre, List.takeWhile, this]

theorem pre_cons_nl (cs : List UInt8) : pre (10 :: cs) = 0 := by simp [pre, List.takeWhile]

theorem pre_le (cs : List UInt8) : pre cs ≤ cs.length := by
  unfold pre; exact (List.takeWhile_sublist _).length_le

structure Sim (i nA nB s0 : Nat) (kA kB : List Child) (spA spB : Nat) (stA stB : St) : Prop where
  line : stB.rd.line = stA.rd.line
  stop : stB.rd.stop = stA.rd.stop
  esc : stB.escaped = stA.escaped
  cur : stB.rd.start + nB = stA.rd.start + nA
  spA : spA = stA.rd.start
  spB : spB = stB.rd.start
  kidsA : stA.kids = fl kA s0 stA.rd.start
  kidsB : stB.kids = fl kB s0 stB.rd.start
  s0A : s0 ≤ stA.rd.start
  s0B : s0 ≤ stB.rd.start
  i0 : i = 0 → nA = 0 ∧ nB = 0
  ipos : i ≠ 0 → 1 ≤ nA ∧ 1 ≤ nB

def ScanPost (PA : Params) (b : Block) (line stop cur0 : Nat) (cs : List UInt8) (s0 : Nat) (kA kB : List Child) :
    ScanRes → ScanRes → Prop
  | .hit a, .hit b' => ∃ p id n q, cur0 ≤ p ∧ p < cur0 + pre cs ∧ q ∈ PA.parsers ∧ q.script line p = .accept n id ∧
      a.rd = advance b ⟨line, p, stop⟩ n ∧ b'.rd = a.rd ∧ b'.escaped = a.escaped ∧
      a.kids = .node id :: fl kA s0 p ∧ b'.kids = .node id :: fl kB s0 p
  | .eol a spa na, .eol b' spb nb =>
      a.rd.line = line ∧ a.rd.stop = stop ∧ b'.rd.line = line ∧ b'.rd.stop = stop ∧ b'.escaped = a.escaped ∧
      a.rd.start + na = cur0 + pre cs ∧ b'.rd.start + nb = cur0 + pre cs ∧
      spa = a.rd.start ∧ spb = b'.rd.start ∧ a.kids = fl kA s0 a.rd.start ∧ b'.kids = fl kB s0 b'.rd.start ∧
      s0 ≤ a.rd.start ∧ s0 ≤ b'.rd.start
  | _, _ => False

theorem ScanPost_shift {PA : Params} {b : Block} {line stop cur0 : Nat} {c : UInt8} {cs : List UInt8} {s0 : Nat}
    {kA kB : List Child} {r1 r2 : ScanRes} (hc : (c == 10) = false)
    (h : ScanPost PA b line stop (cur0 + 1) cs s0 kA kB r1 r2) :
    ScanPost PA b line stop cur0 (c :: cs) s0 kA kB r1 r2 := by
  have hp := pre_cons_ne cs hc
  cases r1 <;> cases r2 <;> simp only [ScanPost] at h ⊢
  · obtain ⟨p, id, n, q, h1, h2, rest⟩ := h
    exact ⟨p, id, n, q, by omega, by omega, rest⟩
  · obtain ⟨h1, h2, h3, h4, h5, h6, h7, rest⟩ := h
    exact ⟨h1, h2, h3, h4, h5, by omega, by omega, rest⟩

theorem scan_sim {PA PB : Params} (b : Block) (hT : TabRel PA.parsers PB.parsers) (hE : PB.escapedSpace = PA.escapedSpace)
    (s0 : Nat) (kA kB : List Child) (hinA : inert kA s0) (hinB : inert kB s0)
    (cs : List UInt8) : ∀ (i nA nB spA spB : Nat) (stA stB : St),
    Sim i nA nB s0 kA kB spA spB stA stB → stA.rd.start + nA + pre cs ≤ stA.rd.stop →
    ScanPost PA b stA.rd.line stA.rd.stop (stA.rd.start + nA) cs s0 kA kB
      (scan PA b cs i nA spA stA) (scan PB b cs i nB spB stB) := by
  induction cs with
  | nil =>
    intro i nA nB spA spB stA stB S _
    simp only [scan]
    exact ⟨rfl, rfl, S.line, S.stop, S.esc, by simp [pre], by simp [pre]; exact S.cur, S.spA, S.spB, S.kidsA, S.kidsB, S.s0A, S.s0B⟩
  | cons c cs ih =>
    intro i nA nB spA spB stA stB S hroom
    unfold scan
    cases hc : c == 10 with
    | true =>
      have : c = 10 := by simpa using hc
      subst this
      simp only [if_true]
      exact ⟨rfl, rfl, S.line, S.stop, S.esc, by simp [pre_cons_nl], by simp [pre_cons_nl]; exact S.cur, S.spA, S.spB, S.kidsA, S.kidsB, S.s0A, S.s0B⟩
    | false =>
      simp only [Bool.false_eq_true, if_false]
      have hp := pre_cons_ne cs hc
      have hrA : stA.rd.start + nA < stA.rd.stop := by omega
      have hrB : stB.rd.start + nB < stB.rd.stop := by rw [S.cur, S.stop]; exact hrA
      have cA := step_cases PA b c i nA spA stA kA s0 hrA S.spA S.kidsA hinA S.s0A (fun h => (S.i0 h).1) (fun h => (S.ipos h).1)
      have cB := step_cases PB b c i nB spB stB kB s0 hrB S.spB S.kidsB hinB S.s0B (fun h => (S.i0 h).2) (fun h => (S.ipos h).2)
      simp only at cA cB
      have hrd : ({ stB.rd with start := stB.rd.start + nB } : Reader) = { stA.rd with start := stA.rd.start + nA } := by
        have h1 := S.cur; have h2 := S.line; have h3 := S.stop
        show Reader.mk stB.rd.line (stB.rd.start + nB) stB.rd.stop = Reader.mk stA.rd.line (stA.rd.start + nA) stA.rd.stop
        rw [h1, h2, h3]
      rw [hrd, S.cur, S.esc, hE] at cB
      have hsame := hT.same (pcOf c i) b { stA.rd with start := stA.rd.start + nA }
      rcases cA with ⟨hcA, eA⟩ | ⟨hcA, fA, logA, eA⟩ | ⟨hcA, rdA, idA, logA, fA, eA⟩
      · rcases cB with ⟨hcB, eB⟩ | ⟨hcB, fB, logB, eB⟩ | ⟨hcB, rdB, idB, logB, fB, eB⟩
        · rw [eA, eB]
          have := ih (i + 1) (nA + 1) (nB + 1) spA spB { stA with escaped := !stA.escaped && c == 92 }
            { stB with escaped := !stA.escaped && c == 92 }
            ⟨S.line, S.stop, rfl, by have := S.cur; show stB.rd.start + (nB + 1) = stA.rd.start + (nA + 1); omega,
             S.spA, S.spB, S.kidsA, S.kidsB, S.s0A, S.s0B, fun h => by omega, fun _ => ⟨by omega, by omega⟩⟩
            (by show stA.rd.start + (nA + 1) + pre cs ≤ stA.rd.stop; omega)
          exact ScanPost_shift hc this
        · rw [eA, eB]
          have := ih (i + 1) (nA + 1) 1 spA (stA.rd.start + nA) { stA with escaped := !stA.escaped && c == 92 }
            ⟨{ stA.rd with start := stA.rd.start + nA }, fl kB s0 (stA.rd.start + nA), !stA.escaped && c == 92, logB⟩
            ⟨rfl, rfl, rfl, by show stA.rd.start + nA + 1 = stA.rd.start + (nA + 1); omega,
             S.spA, rfl, S.kidsA, rfl, S.s0A, by have := S.s0A; show s0 ≤ stA.rd.start + nA; omega,
             fun h => by omega, fun _ => ⟨by omega, by omega⟩⟩
            (by show stA.rd.start + (nA + 1) + pre cs ≤ stA.rd.stop; omega)
          exact ScanPost_shift hc this
        · -- B accepts where A does not even consult: impossible
          exfalso
          rw [Bool.and_eq_false_iff] at hcA
          rw [Bool.and_eq_true] at hcB
          rcases hcA with h | h
          · rw [h] at hcB; exact absurd hcB.1 (by simp)
          · have he : (table PA.parsers (pcOf c i)) = [] := by
              cases ht : table PA.parsers (pcOf c i) with
              | nil => rfl
              | cons x xs => rw [ht] at h; simp at h
            rw [he] at hsame
            rw [← hsame] at fB
            simp [firstAccept] at fB
      · have hcB' : (trigOf PA.escapedSpace c i stA.escaped && !(table PB.parsers (pcOf c i)).isEmpty) = true := by
          rw [Bool.and_eq_true] at hcA ⊢
          refine ⟨hcA.1, ?_⟩
          have h2 := hcA.2
          have := hT.more (pcOf c i) (by simpa using h2)
          simp [this]
        rcases cB with ⟨hcB, eB⟩ | ⟨hcB, fB, logB, eB⟩ | ⟨hcB, rdB, idB, logB, fB, eB⟩
        · rw [hcB'] at hcB; cases hcB
        · rw [eA, eB]
          have := ih (i + 1) 1 1 (stA.rd.start + nA) (stA.rd.start + nA)
            ⟨{ stA.rd with start := stA.rd.start + nA }, fl kA s0 (stA.rd.start + nA), !stA.escaped && c == 92, logA⟩
            ⟨{ stA.rd with start := stA.rd.start + nA }, fl kB s0 (stA.rd.start + nA), !stA.escaped && c == 92, logB⟩
            ⟨rfl, rfl, rfl, rfl, rfl, rfl, rfl, rfl, by have := S.s0A; show s0 ≤ stA.rd.start + nA; omega,
             by have := S.s0A; show s0 ≤ stA.rd.start + nA; omega, fun h => by omega, fun _ => ⟨by omega, by omega⟩⟩
            (by show stA.rd.start + nA + 1 + pre cs ≤ stA.rd.stop; omega)
          exact ScanPost_shift hc this
        · exfalso; rw [fA] at hsame; rw [← hsame] at fB; cases fB
      · have hcB' : (trigOf PA.escapedSpace c i stA.escaped && !(table PB.parsers (pcOf c i)).isEmpty) = true := by
          rw [Bool.and_eq_true] at hcA ⊢
          refine ⟨hcA.1, ?_⟩
          have h2 := hcA.2
          have := hT.more (pcOf c i) (by simpa using h2)
          simp [this]
        rcases cB with ⟨hcB, eB⟩ | ⟨hcB, fB, logB, eB⟩ | ⟨hcB, rdB, idB, logB, fB, eB⟩
        · rw [hcB'] at hcB; cases hcB
        · exfalso; rw [fA] at hsame; rw [← hsame] at fB; cases fB
        · rw [eA, eB]
          rw [fA] at hsame
          rw [← hsame] at fB
          simp only [Option.some.injEq, Prod.mk.injEq] at fB
          obtain ⟨q, hq, n, hs, hadv⟩ := firstAccept_some fA
          refine ⟨stA.rd.start + nA, idA, n, q, Nat.le_refl _, by omega, (mem_table hq).1, hs, hadv, fB.1.symm, rfl, rfl, ?_⟩
          rw [← fB.2]

/-! ### well-formed blocks, reader invariant -/

/-- what the block parsers guarantee about `Lines()`: non-empty segments inside the source, in increasing order
    without overlap, every line but the last ends with its newline -/
structure WF (b : Block) : Prop where
  segs : ∀ (i : Nat) (s : Seg), b.lines[i]? = some s → s.start < s.stop ∧ s.stop ≤ b.src.length
  sorted : ∀ (i : Nat) (s t : Seg), b.lines[i]? = some s → b.lines[i + 1]? = some t → s.stop ≤ t.start
  nl : ∀ (i : Nat) (s : Seg), b.lines[i]? = some s → i + 1 < b.lines.length → b.src[s.stop - 1]? = some 10

theorem last_eq {b : Block} {i : Nat} {s : Seg} (h : b.lines[i]? = some s) (hl : i + 1 = b.lines.length) :
    b.last = s.stop := by
  unfold Block.last
  rw [List.getLast?_eq_getElem?]
  have : b.lines.length - 1 = i := by omega
  rw [this, h]

theorem sorted_lt {b : Block} (hWF : WF b) {i : Nat} {s : Seg} (hs : b.lines[i]? = some s) :
    ∀ d t, b.lines[i + 1 + d]? = some t → s.stop ≤ t.start := by
  intro d
  induction d with
  | zero => intro t ht; exact hWF.sorted i s t hs ht
  | succ d ih =>
    intro t ht
    have hlt : i + 1 + d < b.lines.length := by
      have := (List.getElem?_eq_some_iff.mp ht).1; omega
    have hu : b.lines[i + 1 + d]? = some b.lines[i + 1 + d] := List.getElem?_eq_getElem hlt
    have h1 := ih _ hu
    have h2 := hWF.sorted (i + 1 + d) _ t hu ht
    have h3 := (hWF.segs _ _ hu).1
    omega

theorem stop_lt_last {b : Block} (hWF : WF b) {i : Nat} {s : Seg} (hs : b.lines[i]? = some s)
    (hl : i + 1 < b.lines.length) : s.stop < b.last := by
  have hlt : b.lines.length - 1 < b.lines.length := by omega
  have hu : b.lines[b.lines.length - 1]? = some b.lines[b.lines.length - 1] := List.getElem?_eq_getElem hlt
  have e : i + 1 + (b.lines.length - 1 - (i + 1)) = b.lines.length - 1 := by omega
  have h1 := sorted_lt hWF hs (b.lines.length - 1 - (i + 1)) b.lines[b.lines.length - 1] (by rw [e]; exact hu)
  have h2 := (hWF.segs _ _ hu).1
  rw [last_eq hu (by omega)]
  omega

/-- the reader sits on its line: same Stop, not before the line's Start, and before the Stop on every line but the last -/
def RI (b : Block) (r : Reader) : Prop :=
  ∀ s, b.lines[r.line]? = some s → r.stop = s.stop ∧ s.start ≤ r.start ∧ (r.line + 1 < b.lines.length → r.start < r.stop)

theorem RI_setLine {b : Block} (hWF : WF b) (r : Reader) (l : Nat) : RI b (setLine b r l) := by
  unfold setLine
  cases h : b.lines[l]? with
  | none => intro s hs; simp only at hs; rw [h] at hs; cases hs
  | some t =>
    intro s hs
    simp only at hs
    rw [h] at hs
    cases hs
    exact ⟨rfl, Nat.le_refl _, fun _ => (hWF.segs l t h).1⟩

theorem RI_advance1 {b : Block} (hWF : WF b) {r : Reader} (h : RI b r) : RI b (advance1 b r) := by
  unfold advance1
  split
  · exact RI_setLine hWF r _
  · rename_i hn
    intro s hs
    obtain ⟨h1, h2, h3⟩ := h s hs
    refine ⟨h1, by show s.start ≤ r.start + 1; omega, fun hl => ?_⟩
    have hl' : r.line + 1 < b.lines.length := hl
    have := stop_lt_last hWF hs hl'
    show r.start + 1 < r.stop
    have h3' := h3 hl'
    rw [← h1] at this
    omega

theorem RI_advanceSlow {b : Block} (hWF : WF b) (n : Nat) : ∀ {r : Reader}, RI b r → RI b (advanceSlow b n r) := by
  induction n with
  | zero => intro r h; exact h
  | succ n ih => intro r h; exact ih (RI_advance1 hWF h)

theorem RI_advance {b : Block} (hWF : WF b) {r : Reader} (h : RI b r) (n : Nat) : RI b (advance b r n) := by
  unfold advance
  split
  · intro s hs
    obtain ⟨h1, h2, _⟩ := h s hs
    exact ⟨h1, by show s.start ≤ r.start + n; omega, fun _ => by show r.start + n < r.stop; omega⟩
  · exact RI_advanceSlow hWF n h

theorem advanceSlow_last (b : Block) (n : Nat) : ∀ (r : Reader), ¬ r.stop < b.last →
    advanceSlow b n r = { r with start := r.start + n } := by
  induction n with
  | zero => intro r _; rfl
  | succ n ih =>
    intro r h
    have h1 : advance1 b r = { r with start := r.start + 1 } := by
      unfold advance1
      have : ¬ (r.start + 1 ≥ r.stop ∧ r.stop < b.last) := fun hh => h hh.2
      simp [this]
    show advanceSlow b n (advance1 b r) = _
    rw [h1, ih ⟨r.line, r.start + 1, r.stop⟩ h]
    show Reader.mk r.line (r.start + 1 + n) r.stop = Reader.mk r.line (r.start + (n + 1)) r.stop
    congr 1; omega

theorem advance_to (b : Block) (r : Reader) (n : Nat) (h : r.start + n < r.stop ∨ ¬ r.stop < b.last) :
    advance b r n = { r with start := r.start + n } := by
  rcases h with h | h
  · exact advance_fast b r n h
  · unfold advance; split
    · rfl
    · exact advanceSlow_last b n r h

/-! ### the peeked line -/

theorem slice_getD (src : Bytes) {a b k : Nat} (hk : k < b - a) :
    (slice src a b).getD k 0 = src.getD (a + k) 0 := by
  unfold slice
  simp [List.getD_eq_getElem?_getD, List.getElem?_take, hk]

theorem classify_fst_le (line : Bytes) : (classify line).1 ≤ line.length := by
  unfold classify
  simp only
  repeat' split
  all_goals (simp only; omega)

theorem pre_le_of_nl : ∀ (cs : List UInt8) (j : Nat), j < cs.length → cs.getD j 0 = 10 → pre cs ≤ j := by
  intro cs
  induction cs with
  | nil => intro j h; simp at h
  | cons c cs ih =>
    intro j hj hc
    cases hcn : c == 10 with
    | true =>
      have : c = 10 := by simpa using hcn
      subst this; rw [pre_cons_nl]; omega
    | false =>
      rw [pre_cons_ne cs hcn]
      cases j with
      | zero => simp at hc; rw [hc] at hcn; simp at hcn
      | succ j =>
        have := ih j (by simpa using hj) (by simpa using hc)
        omega

/-! ### one pass of two related runs -/

theorem fl_self (k : List Child) (s : Nat) : fl k s s = k := by simp [fl]

theorem eol_eq (b : Block) (f : Flags) (l : Nat) (st : St) (sp n : Nat)
    (h : st.rd.start + n < st.rd.stop ∨ ¬ st.rd.stop < b.last) (hl : l = st.rd.line) :
    eol b f l st sp n =
      { st with rd := advanceLine b { st.rd with start := st.rd.start + n },
                kids := eolKids b.src f st.kids sp (st.rd.start + n), escaped := false } := by
  have hrd : (if n != 0 then advance b st.rd n else st.rd) = { st.rd with start := st.rd.start + n } := by
    by_cases hn : n = 0
    · subst hn; simp
    · have : (n != 0) = true := by simp [hn]
      rw [this]; simp only [if_true]
      exact advance_to b st.rd n h
  unfold eol
  simp only [hrd, hl]
  simp

/-- what one pass did in two related runs `A` (from `stA`) and `B` (from `stB`) -/
inductive PassPost (PA : Params) (b : Block) (stA stB : St) : St → St → Prop
  | hit (p id n : Nat) (q : Parser) (a b' : St) :
      stA.rd.start ≤ p → p < stA.rd.stop → q ∈ PA.parsers → q.script stA.rd.line p = .accept n id →
      a.rd = advance b ⟨stA.rd.line, p, stA.rd.stop⟩ n → b'.rd = a.rd → b'.escaped = a.escaped →
      a.kids = .node id :: fl stA.kids stA.rd.start p → b'.kids = .node id :: fl stB.kids stA.rd.start p →
      PassPost PA b stA stB a b'
  | eol (f : Flags) (spa spb cur : Nat) (a b' : St) :
      stA.rd.start ≤ spa → spa ≤ cur → stA.rd.start ≤ spb → spb ≤ cur → cur ≤ stA.rd.stop →
      (stA.rd.line + 1 < b.lines.length → cur < stA.rd.stop) →
      a.rd = advanceLine b ⟨stA.rd.line, cur, stA.rd.stop⟩ → b'.rd = a.rd → b'.escaped = a.escaped →
      a.kids = eolKids b.src f (fl stA.kids stA.rd.start spa) spa cur →
      b'.kids = eolKids b.src f (fl stB.kids stA.rd.start spb) spb cur →
      PassPost PA b stA stB a b'

theorem pass_sim {PA PB : Params} {b : Block} (hWF : WF b) (hT : TabRel PA.parsers PB.parsers)
    (hE : PB.escapedSpace = PA.escapedSpace) {stA stB : St}
    (hrd : stB.rd = stA.rd) (hesc : stB.escaped = stA.escaped) (hRI : RI b stA.rd)
    (hin : peekLine b stA.rd = .none ∨ (inert stA.kids stA.rd.start ∧ inert stB.kids stA.rd.start)) :
    (pass PA b stA = .done ∧ pass PB b stB = .done ∧ peekLine b stA.rd = .none) ∨
    (∃ a b', pass PA b stA = .next a ∧ pass PB b stB = .next b' ∧ PassPost PA b stA stB a b' ∧
      ∃ l, peekLine b stA.rd = .line l) := by
  unfold pass
  rw [hrd]
  cases hp : peekLine b stA.rd with
  | none => left; exact ⟨rfl, rfl, rfl⟩
  | panic =>
    exfalso
    unfold peekLine at hp
    split at hp
    · rename_i h1
      split at hp
      · cases hp
      · rename_i h2
        obtain ⟨hl, hlast⟩ := h1
        have hu : b.lines[stA.rd.line]? = some b.lines[stA.rd.line] := List.getElem?_eq_getElem hl
        obtain ⟨r1, r2, r3⟩ := hRI _ hu
        have w := hWF.segs _ _ hu
        apply h2
        refine ⟨?_, by omega⟩
        by_cases hlen : stA.rd.line + 1 < b.lines.length
        · have := r3 hlen; omega
        · have := last_eq hu (by omega); omega
    · cases hp
  | line l =>
    right
    rcases hin with hin | ⟨hinA, hinB⟩
    · rw [hin] at hp; cases hp
    -- facts about the line
    have hp' := hp
    unfold peekLine at hp'
    split at hp'
    case isFalse => cases hp'
    rename_i h1
    split at hp'
    case isFalse => cases hp'
    rename_i h2
    simp only [Peek.line.injEq] at hp'
    obtain ⟨hl, hlast⟩ := h1
    have hu : b.lines[stA.rd.line]? = some b.lines[stA.rd.line] := List.getElem?_eq_getElem hl
    obtain ⟨r1, r2, r3⟩ := hRI _ hu
    have hlt : stA.rd.start < stA.rd.stop := by
      by_cases hlen : stA.rd.line + 1 < b.lines.length
      · exact r3 hlen
      · have := last_eq hu (by omega); omega
    have hL : l.length = stA.rd.stop - stA.rd.start := by rw [← hp']; exact slice_length _ h2.1 h2.2
    have hne : l.isEmpty = false := by
      cases l with
      | nil => simp at hL; omega
      | cons _ _ => rfl
    simp only [hne, Bool.false_eq_true, if_false]
    have hll := classify_fst_le l
    have hbody : (l.take (classify l).1).length = (classify l).1 := by simp [List.length_take]; omega
    have hpre := pre_le (l.take (classify l).1)
    have S : Sim 0 0 0 stA.rd.start stA.kids stB.kids stA.rd.start stA.rd.start stA stB :=
      ⟨by rw [hrd], by rw [hrd], hesc, by rw [hrd], rfl, by rw [hrd], (fl_self _ _).symm, by rw [hrd]; exact (fl_self _ _).symm,
       Nat.le_refl _, by rw [hrd]; exact Nat.le_refl _, fun _ => ⟨rfl, rfl⟩, fun h => absurd rfl h⟩
    have hsim := scan_sim b hT hE stA.rd.start stA.kids stB.kids hinA hinB (l.take (classify l).1) 0 0 0
      stA.rd.start stA.rd.start stA stB S (by omega)
    -- on every line but the last the scan stops before the newline
    have hnl : stA.rd.line + 1 < b.lines.length → stA.rd.start + pre (l.take (classify l).1) < stA.rd.stop := by
      intro hlen
      have hn := hWF.nl _ _ hu hlen
      have hlast1 : l.getD (l.length - 1) 0 = 10 := by
        rw [← hp', slice_length _ h2.1 h2.2, slice_getD _ (by omega)]
        have : stA.rd.start + (stA.rd.stop - stA.rd.start - 1) = b.lines[stA.rd.line].stop - 1 := by omega
        rw [this, List.getD_eq_getElem?_getD, hn]; rfl
      by_cases hc : (classify l).1 < l.length
      · omega
      · have : (classify l).1 = l.length := by omega
        rw [this, List.take_length]
        have := pre_le_of_nl l (l.length - 1) (by omega) hlast1
        omega
    have hlastline : ¬ stA.rd.line + 1 < b.lines.length → ¬ stA.rd.stop < b.last := by
      intro hlen; have := last_eq hu (by omega); omega
    cases hA : scan PA b (l.take (classify l).1) 0 0 stA.rd.start stA with
    | hit a =>
      cases hB : scan PB b (l.take (classify l).1) 0 0 stA.rd.start stB with
      | hit b' =>
        rw [hA, hB] at hsim
        obtain ⟨p, id, n, q, h1, h2', h3, h4, h5, h6, h7, h8, h9⟩ := hsim
        exact ⟨a, b', rfl, rfl, PassPost.hit p id n q a b' (by omega) (by omega) h3 h4 h5 h6 h7 h8 h9, l, rfl⟩
      | eol b' spb nb => rw [hA, hB] at hsim; exact hsim.elim
    | eol a spa na =>
      cases hB : scan PB b (l.take (classify l).1) 0 0 stA.rd.start stB with
      | hit b' => rw [hA, hB] at hsim; exact hsim.elim
      | eol b' spb nb =>
        rw [hA, hB] at hsim
        obtain ⟨e1, e2, e3, e4, e5, e6, e7, e8, e9, e10, e11, e12, e13⟩ := hsim
        have hcond : ∀ (x : St) (nx : Nat), x.rd.stop = stA.rd.stop → x.rd.start + nx = stA.rd.start + 0 + pre (l.take (classify l).1) →
            x.rd.start + nx < x.rd.stop ∨ ¬ x.rd.stop < b.last := by
          intro x nx hx1 hx2
          by_cases hlen : stA.rd.line + 1 < b.lines.length
          · left; have := hnl hlen; omega
          · right; rw [hx1]; exact hlastline hlen
        refine ⟨_, _, rfl, rfl, ?_, l, rfl⟩
        rw [eol_eq b _ _ a spa na (hcond a na e2 e6) e1.symm, eol_eq b _ _ b' spb nb (hcond b' nb e4 e7) e3.symm]
        refine PassPost.eol (classify l).2 a.rd.start b'.rd.start (stA.rd.start + pre (l.take (classify l).1)) _ _
          e12 (by omega) e13 (by omega) (by omega) (fun hlen => hnl hlen) ?_ ?_ rfl ?_ ?_
        · show advanceLine b ⟨a.rd.line, a.rd.start + na, a.rd.stop⟩ = _
          rw [e1, e2, e6]; simp
        · show advanceLine b ⟨b'.rd.line, b'.rd.start + nb, b'.rd.stop⟩ = advanceLine b ⟨a.rd.line, a.rd.start + na, a.rd.stop⟩
          rw [e1, e2, e3, e4, e6, e7]
        · show eolKids b.src _ a.kids spa (a.rd.start + na) = _
          rw [e10, e8, e6]; simp
        · show eolKids b.src _ b'.kids spb (b'.rd.start + nb) = _
          rw [e11, e9, e7]; simp

/-! ### the whole loop, two related runs -/

structure Rel (b : Block) (stA stB : St) : Prop where
  rd : stB.rd = stA.rd
  esc : stB.escaped = stA.escaped
  res : resolve b.src stB.kids = resolve b.src stA.kids
  ri : RI b stA.rd
  inert : peekLine b stA.rd = .none ∨ (inert stA.kids stA.rd.start ∧ inert stB.kids stA.rd.start)

theorem eolKids_inert (src : Bytes) (f : Flags) (k : List Child) {sp cur q : Nat} (h1 : sp ≤ cur) (h2 : cur < q) :
    inert (eolKids src f k sp cur) q := by
  unfold eolKids
  intro a t s h rest e
  split at e
  · cases e; exact h2
  · simp only at e
    split at e
    · cases e; omega
    · cases e; have := trimStop_le src sp cur h1; omega

theorem peekLine_none_of_line (b : Block) (r : Reader) (h : b.lines.length ≤ r.line) : peekLine b r = .none := by
  unfold peekLine
  have : ¬ (r.line < b.lines.length ∧ r.start < b.last) := fun hh => by omega
  simp [this]

theorem RI_mid {b : Block} {r : Reader} (h : RI b r) {p : Nat} (h1 : r.start ≤ p) (h2 : p < r.stop) :
    RI b ⟨r.line, p, r.stop⟩ := by
  intro s hs
  obtain ⟨a1, a2, _⟩ := h s hs
  exact ⟨a1, by show s.start ≤ p; omega, fun _ => h2⟩

theorem Rel_of_PassPost {PA : Params} {b : Block} (hWF : WF b) {stA stB a b' : St}
    (R : Rel b stA stB) (hinA : inert stA.kids stA.rd.start) (hinB : inert stB.kids stA.rd.start)
    (hlt : stA.rd.line < b.lines.length)
    (h : PassPost PA b stA stB a b') : Rel b a b' := by
  cases h with
  | hit p id n q _ _ h1 h2 h3 h4 h5 h6 h7 h8 h9 =>
    refine ⟨h6, h7, ?_, ?_, Or.inr ⟨?_, ?_⟩⟩
    · rw [h8, h9, resolve_cons, resolve_cons, resolve_fl, resolve_fl, R.res]
    · rw [h5]; exact RI_advance hWF (RI_mid R.ri h1 h2) n
    · rw [h8]; exact inert_node _ _ _
    · rw [h9]; exact inert_node _ _ _
  | eol f spa spb cur _ _ g1 g2 g3 g4 g5 g6 g7 g8 g9 g10 g11 =>
    have hu : b.lines[stA.rd.line]? = some b.lines[stA.rd.line] := List.getElem?_eq_getElem hlt
    obtain ⟨r1, r2, r3⟩ := R.ri _ hu
    refine ⟨g8, g9, ?_, ?_, ?_⟩
    · rw [g10, g11, eolKids_resolve b.src f hinA g1 g2, eolKids_resolve b.src f hinB g3 g4, R.res]
    · rw [g7]; exact RI_setLine hWF _ _
    · by_cases hlen : stA.rd.line + 1 < b.lines.length
      · right
        have hv : b.lines[stA.rd.line + 1]? = some b.lines[stA.rd.line + 1] := List.getElem?_eq_getElem hlen
        have hs := hWF.sorted _ _ _ hu hv
        have hc := g6 hlen
        have hstart : a.rd.start = b.lines[stA.rd.line + 1].start := by
          rw [g7]; unfold advanceLine setLine; simp only; rw [hv]
        rw [hstart, g10, g11]
        exact ⟨eolKids_inert _ _ _ g2 (by omega), eolKids_inert _ _ _ g4 (by omega)⟩
      · left
        apply peekLine_none_of_line
        rw [g7]; unfold advanceLine setLine; simp only
        have : b.lines[stA.rd.line + 1]? = none := List.getElem?_eq_none (by omega)
        rw [this]; show b.lines.length ≤ stA.rd.line + 1; omega

def OutRel (src : Bytes) : Out → Out → Prop
  | .done a, .done b' => resolve src b'.kids = resolve src a.kids
  | .fuelOut _, .fuelOut _ => True
  | _, _ => False

theorem peekLine_line_lt {b : Block} {r : Reader} {l : Bytes} (h : peekLine b r = .line l) : r.line < b.lines.length := by
  unfold peekLine at h
  split at h
  · rename_i hh; exact hh.1
  · cases h

theorem loop_sim {PA PB : Params} {b : Block} (hWF : WF b) (hT : TabRel PA.parsers PB.parsers)
    (hE : PB.escapedSpace = PA.escapedSpace) (fuel : Nat) :
    ∀ stA stB, Rel b stA stB → OutRel b.src (loop PA b fuel stA) (loop PB b fuel stB) := by
  induction fuel with
  | zero => intro stA stB _; exact True.intro
  | succ fuel ih =>
    intro stA stB R
    unfold loop
    rcases pass_sim hWF hT hE R.rd R.esc R.ri R.inert with ⟨hA, hB, _⟩ | ⟨a, b', hA, hB, hP, l, hl⟩
    · rw [hA, hB]; exact R.res
    · rw [hA, hB]
      rcases R.inert with hn | ⟨hinA, hinB⟩
      · rw [hn] at hl; cases hl
      · exact ih a b' (Rel_of_PassPost hWF R hinA hinB (peekLine_line_lt hl) hP)

/-! ### a parser that always declines -/

def Silent (q : Parser) : Prop := ∀ l p, ∃ m, q.script l p = .decline m

theorem table_append (xs ys : List Parser) (pc : UInt8) : table (xs ++ ys) pc = table xs pc ++ table ys pc := by
  simp [table, List.flatMap_append]

theorem firstAccept_silent (b : Block) (saved : Reader) (xs : List Parser) (h : ∀ x ∈ xs, Silent x) :
    firstAccept b saved xs = none := by
  induction xs with
  | nil => rfl
  | cons x xs ih =>
    unfold firstAccept
    obtain ⟨m, hm⟩ := h x List.mem_cons_self saved.line saved.start
    rw [hm]
    exact ih (fun y hy => h y (List.mem_cons_of_mem _ hy))

theorem TabRel_insert (l1 l2 : List Parser) (q : Parser) (hq : Silent q) : TabRel (l1 ++ l2) (l1 ++ q :: l2) := by
  have hsplit : ∀ pc, table (l1 ++ q :: l2) pc = table l1 pc ++ (table [q] pc ++ table l2 pc) := by
    intro pc
    have : l1 ++ q :: l2 = l1 ++ ([q] ++ l2) := by simp
    rw [this, table_append, table_append]
  have hqn : ∀ pc b saved, firstAccept b saved (table [q] pc) = none := by
    intro pc b saved
    apply firstAccept_silent
    intro x hx
    have := (mem_table hx).1
    simp at this
    rw [this]; exact hq
  constructor
  · intro pc b saved
    rw [hsplit, table_append, firstAccept_append, firstAccept_append, firstAccept_append, hqn]
  · intro pc h
    rw [hsplit]
    rw [table_append] at h
    cases h1 : table l1 pc with
    | cons _ _ => rfl
    | nil =>
      rw [h1] at h
      cases h2 : table l2 pc with
      | cons _ _ => simp
      | nil => rw [h2] at h; simp at h

/-! ### termination -/

/-- the forward-progress contract of inline parsers: a parser that returns a node has consumed at least one byte -/
def Contract (ps : List Parser) : Prop := ∀ q ∈ ps, ∀ l p n id, q.script l p = .accept n id → 1 ≤ n

def mu (b : Block) (r : Reader) : Nat := (b.lines.length - r.line) * (b.src.length + 2) + (r.stop - r.start)

theorem mul_step (m K x y : Nat) (hx : x < K) : m * K + x < (m + 1) * K + y := by
  rw [Nat.succ_mul]; omega

theorem mu_setLine_lt {b : Block} (hWF : WF b) {r : Reader} (hl : r.line < b.lines.length) (hst : r.stop ≤ b.src.length) :
    mu b (setLine b r (r.line + 1)) < mu b r := by
  unfold setLine mu
  cases h : b.lines[r.line + 1]? with
  | none =>
    simp only
    have hlen : b.lines.length ≤ r.line + 1 := by
      rcases Nat.lt_or_ge (r.line + 1) b.lines.length with hh | hh
      · rw [List.getElem?_eq_getElem hh] at h; cases h
      · exact hh
    have e1 : b.lines.length - (r.line + 1) = 0 := by omega
    have e2 : b.lines.length - r.line = 0 + 1 := by omega
    rw [e1, e2]
    have := mul_step 0 (b.src.length + 2) (r.stop - r.start) (r.stop - r.start) (by omega)
    omega
  | some t =>
    simp only
    have hlen : r.line + 1 < b.lines.length := (List.getElem?_eq_some_iff.mp h).1
    have w := hWF.segs _ _ h
    have e2 : b.lines.length - r.line = (b.lines.length - (r.line + 1)) + 1 := by omega
    rw [e2]
    exact mul_step _ _ _ _ (by omega)

theorem RI_stop_le {b : Block} (hWF : WF b) {r : Reader} (hRI : RI b r) (hl : r.line < b.lines.length) :
    r.stop ≤ b.src.length := by
  have hu : b.lines[r.line]? = some b.lines[r.line] := List.getElem?_eq_getElem hl
  have := (hRI _ hu).1
  have := (hWF.segs _ _ hu).2
  omega

theorem mu_advance1_le {b : Block} (hWF : WF b) {r : Reader} (hRI : RI b r) : mu b (advance1 b r) ≤ mu b r := by
  unfold advance1
  split
  · by_cases hl : r.line < b.lines.length
    · exact Nat.le_of_lt (mu_setLine_lt hWF hl (RI_stop_le hWF hRI hl))
    · unfold advanceLine setLine
      have : b.lines[r.line + 1]? = none := List.getElem?_eq_none (by omega)
      rw [this]; unfold mu; simp only
      have e1 : b.lines.length - (r.line + 1) = 0 := by omega
      have e2 : b.lines.length - r.line = 0 := by omega
      rw [e1, e2]; omega
  · unfold mu; simp only; omega

theorem mu_advance1_lt {b : Block} (hWF : WF b) {r : Reader} (hRI : RI b r) (hl : r.line < b.lines.length)
    (hs : r.start < r.stop) : mu b (advance1 b r) < mu b r := by
  unfold advance1
  split
  · exact mu_setLine_lt hWF hl (RI_stop_le hWF hRI hl)
  · unfold mu; simp only; omega

theorem mu_advanceSlow_le {b : Block} (hWF : WF b) (n : Nat) : ∀ {r : Reader}, RI b r → mu b (advanceSlow b n r) ≤ mu b r := by
  induction n with
  | zero => intro r _; exact Nat.le_refl _
  | succ n ih => intro r h; exact Nat.le_trans (ih (RI_advance1 hWF h)) (mu_advance1_le hWF h)

theorem mu_advance_lt {b : Block} (hWF : WF b) {r : Reader} (hRI : RI b r) (hl : r.line < b.lines.length)
    (hs : r.start < r.stop) {n : Nat} (hn : 1 ≤ n) : mu b (advance b r n) < mu b r := by
  unfold advance
  split
  · unfold mu; simp only; omega
  · cases n with
    | zero => omega
    | succ n =>
      show mu b (advanceSlow b n (advance1 b r)) < _
      exact Nat.lt_of_le_of_lt (mu_advanceSlow_le hWF n (RI_advance1 hWF hRI)) (mu_advance1_lt hWF hRI hl hs)

theorem mu_mid_le (b : Block) (r : Reader) {p : Nat} (h : r.start ≤ p) : mu b ⟨r.line, p, r.stop⟩ ≤ mu b r := by
  unfold mu; simp only; omega

theorem pass_progress {PA : Params} {b : Block} (hWF : WF b) (hC : Contract PA.parsers) {stA stB a b' : St}
    (hRI : RI b stA.rd) (hlt : stA.rd.line < b.lines.length) (h : PassPost PA b stA stB a b') :
    mu b a.rd < mu b stA.rd := by
  cases h with
  | hit p id n q _ _ h1 h2 h3 h4 h5 h6 h7 h8 h9 =>
    rw [h5]
    exact Nat.lt_of_lt_of_le (mu_advance_lt hWF (RI_mid hRI h1 h2) hlt h2 (hC q h3 _ _ _ _ h4)) (mu_mid_le b _ h1)
  | eol f spa spb cur _ _ g1 g2 g3 g4 g5 g6 g7 g8 g9 g10 g11 =>
    rw [g7]
    have hst := RI_stop_le hWF hRI hlt
    exact Nat.lt_of_lt_of_le (mu_setLine_lt hWF (r := ⟨stA.rd.line, cur, stA.rd.stop⟩) hlt hst) (mu_mid_le b _ (by omega))

theorem Rel_self {b : Block} {st : St} (hRI : RI b st.rd)
    (hin : peekLine b st.rd = .none ∨ inert st.kids st.rd.start) : Rel b st st :=
  ⟨rfl, rfl, rfl, hRI, hin.imp id (fun h => ⟨h, h⟩)⟩

theorem loop_done {P : Params} {b : Block} (hWF : WF b) (hC : Contract P.parsers) (fuel : Nat) :
    ∀ st, Rel b st st → mu b st.rd < fuel → ∃ st', loop P b fuel st = .done st' := by
  induction fuel with
  | zero => intro st _ h; omega
  | succ fuel ih =>
    intro st R hmu
    unfold loop
    rcases pass_sim hWF (TabRel.refl P.parsers) rfl R.rd R.esc R.ri R.inert with ⟨hA, _, _⟩ | ⟨a, b', hA, hB, hP, l, hl⟩
    · rw [hA]; exact ⟨st, rfl⟩
    · have hab : b' = a := by rw [hA] at hB; cases hB; rfl
      subst hab
      rw [hA]
      rcases R.inert with hn | ⟨hinA, hinB⟩
      · rw [hn] at hl; cases hl
      · have hlt := peekLine_line_lt hl
        have hprog := pass_progress hWF hC R.ri hlt hP
        exact ih b' (Rel_of_PassPost hWF R hinA hinB hlt hP) (by omega)

theorem Rel_init {b : Block} (hWF : WF b) : Rel b (initSt b) (initSt b) :=
  Rel_self (RI_setLine hWF _ _) (Or.inr (inert_nil _))

theorem mu_init_lt {b : Block} (hWF : WF b) : mu b (initSt b).rd < fuelFor b := by
  unfold initSt resetReader setLine mu fuelFor
  cases h : b.lines[0]? with
  | none =>
    simp only [Nat.sub_zero]
    have := mul_step (b.lines.length) (b.src.length + 2) 0 0 (by omega)
    omega
  | some s =>
    simp only [Nat.sub_zero]
    have w := hWF.segs _ _ h
    have := mul_step (b.lines.length) (b.src.length + 2) (s.stop - s.start) 0 (by omega)
    omega

/-! ### who is consulted where -/

/-- a logged `Parse` call respects the dispatch rule parser.go:1199-1204: the byte passed the trigger test, the
    table index is the byte itself (punctuation) or ' ' (space/tab, or a non-punctuation byte at the start of a
    scan), and the parser called is registered for that index -/
def CallOK (P : Params) (e : Call) : Prop :=
  e.pc = pcOf e.c e.i ∧ trigOf P.escapedSpace e.c e.i e.escaped = true ∧
    ∃ q ∈ P.parsers, q.id = e.id ∧ e.pc ∈ q.triggers

def LogOK (P : Params) (log : List Call) : Prop := ∀ e ∈ log, CallOK P e

theorem tryParsers_log (b : Block) (saved : Reader) (pc : UInt8) (i : Nat) (c : UInt8) (esc : Bool) (ps : List Parser) :
    ∀ (log : List Call) (e : Call), e ∈ (tryParsers b saved pc i c esc ps log).2 →
      e ∈ log ∨ (e.pc = pc ∧ e.i = i ∧ e.c = c ∧ e.escaped = esc ∧ ∃ q ∈ ps, q.id = e.id) := by
  induction ps with
  | nil => intro log e h; exact Or.inl h
  | cons p ps ih =>
    intro log e h
    unfold tryParsers at h
    simp only at h
    cases hs : p.script saved.line saved.start with
    | accept n id =>
      rw [hs] at h
      simp only [List.mem_cons] at h
      rcases h with h | h
      · right; subst h; exact ⟨rfl, rfl, rfl, rfl, p, List.mem_cons_self, rfl⟩
      · exact Or.inl h
    | decline m =>
      rw [hs] at h
      rcases ih _ e h with h' | ⟨a1, a2, a3, a4, q, hq, hid⟩
      · simp only [List.mem_cons] at h'
        rcases h' with h' | h'
        · right; subst h'; exact ⟨rfl, rfl, rfl, rfl, p, List.mem_cons_self, rfl⟩
        · exact Or.inl h'
      · exact Or.inr ⟨a1, a2, a3, a4, q, List.mem_cons_of_mem _ hq, hid⟩

def _root_.GM.InlineLoop.StepRes.st : StepRes → St
  | .hit st => st
  | .cont _ _ st => st

def _root_.GM.InlineLoop.ScanRes.st : ScanRes → St
  | .hit st => st
  | .eol st _ _ => st

theorem step_log (P : Params) (b : Block) (c : UInt8) (i n sp : Nat) (st : St) (h : LogOK P st.log) :
    LogOK P (step P b c i n sp st).st.log := by
  rw [step_def]
  cases hc : (trigOf P.escapedSpace c i st.escaped && !(table P.parsers (pcOf c i)).isEmpty) with
  | false => simp only [Bool.false_eq_true, if_false]; exact h
  | true =>
    simp only [if_true]
    have key : LogOK P (tryParsers b (advance b st.rd n) (pcOf c i) i c st.escaped (table P.parsers (pcOf c i)) st.log).2 := by
      intro e he
      rcases tryParsers_log _ _ _ _ _ _ _ _ e he with h' | ⟨a1, a2, a3, a4, q, hq, hid⟩
      · exact h e h'
      · rw [Bool.and_eq_true] at hc
        have hm := mem_table hq
        refine ⟨by rw [a1, a3, a2], by rw [a3, a2, a4]; exact hc.1, q, hm.1, hid, by rw [a1]; exact hm.2⟩
    cases hr : tryParsers b (advance b st.rd n) (pcOf c i) i c st.escaped (table P.parsers (pcOf c i)) st.log with
    | mk r log =>
      rw [hr] at key
      cases r with
      | none => exact key
      | some v => exact key

theorem scan_log (P : Params) (b : Block) (cs : List UInt8) : ∀ (i n sp : Nat) (st : St), LogOK P st.log →
    LogOK P (scan P b cs i n sp st).st.log := by
  induction cs with
  | nil => intro i n sp st h; exact h
  | cons c cs ih =>
    intro i n sp st h
    unfold scan
    split
    · exact h
    · have := step_log P b c i n sp st h
      cases hs : step P b c i n sp st with
      | hit st' => rw [hs] at this; exact this
      | cont n' sp' st' => rw [hs] at this; exact ih _ _ _ _ this

theorem eol_log (b : Block) (f : Flags) (l : Nat) (st : St) (sp n : Nat) : (eol b f l st sp n).log = st.log := by
  unfold eol
  simp only
  split <;> split <;> rfl

theorem pass_log (P : Params) (b : Block) (st : St) (h : LogOK P st.log) :
    ∀ st', pass P b st = .next st' → LogOK P st'.log := by
  intro st' hp
  unfold pass at hp
  split at hp
  · cases hp
  · cases hp
  · rename_i line _
    split at hp
    · cases hp
    · have := scan_log P b (line.take (classify line).1) 0 0 st.rd.start st h
      split at hp
      · rename_i st'' hs; rw [hs] at this; cases hp; exact this
      · rename_i st'' sp n hs; rw [hs] at this; cases hp
        rw [eol_log]; exact this

theorem loop_log (P : Params) (b : Block) (fuel : Nat) : ∀ st, LogOK P st.log → LogOK P (loop P b fuel st).st.log := by
  induction fuel with
  | zero => intro st h; exact h
  | succ fuel ih =>
    intro st h
    unfold loop
    cases hp : pass P b st with
    | done => exact h
    | panic k => exact h
    | next st' => exact ih st' (pass_log P b st h st' hp)

/-! ### top level -/

theorem Contract_insert {l1 l2 : List Parser} {q : Parser} (hq : Silent q) (hC : Contract (l1 ++ l2)) :
    Contract (l1 ++ q :: l2) := by
  intro x hx l p n id hs
  simp only [List.mem_append, List.mem_cons] at hx
  rcases hx with hx | hx | hx
  · exact hC x (List.mem_append_left _ hx) l p n id hs
  · subst hx
    obtain ⟨m, hm⟩ := hq l p
    rw [hm] at hs; cases hs
  · exact hC x (List.mem_append_right _ hx) l p n id hs

theorem run_done {P : Params} {b : Block} (hWF : WF b) (hC : Contract P.parsers) : ∃ st, run P b = .done st :=
  loop_done hWF hC (fuelFor b) (initSt b) (Rel_init hWF) (mu_init_lt hWF)

theorem run_silent {b : Block} (hWF : WF b) (l1 l2 : List Parser) (q : Parser) (esc : Bool)
    (hq : Silent q) (hC : Contract (l1 ++ l2)) :
    ∃ stA stB, run ⟨l1 ++ l2, esc⟩ b = .done stA ∧ run ⟨l1 ++ q :: l2, esc⟩ b = .done stB ∧
      resolve b.src stB.kids = resolve b.src stA.kids := by
  obtain ⟨stA, hA⟩ := run_done (P := ⟨l1 ++ l2, esc⟩) hWF hC
  obtain ⟨stB, hB⟩ := run_done (P := ⟨l1 ++ q :: l2, esc⟩) hWF (Contract_insert hq hC)
  have h := loop_sim (PA := ⟨l1 ++ l2, esc⟩) (PB := ⟨l1 ++ q :: l2, esc⟩) hWF (TabRel_insert l1 l2 q hq) rfl
    (fuelFor b) (initSt b) (initSt b) (Rel_init hWF)
  unfold run at hA hB
  rw [hA, hB] at h
  exact ⟨stA, stB, hA, hB, h⟩

theorem run_log (P : Params) (b : Block) : LogOK P (run P b).st.log :=
  loop_log P b (fuelFor b) (initSt b) (fun _ h => by cases h)

theorem tryParsers_first_accept (b : Block) (saved : Reader) (pc : UInt8) (i : Nat) (c : UInt8) (esc : Bool)
    (pre post : List Parser) (p : Parser) (n id : Nat) (log : List Call)
    (hpre : ∀ x ∈ pre, ∃ m, x.script saved.line saved.start = .decline m)
    (hp : p.script saved.line saved.start = .accept n id) :
    tryParsers b saved pc i c esc (pre ++ p :: post) log =
      (some (advance b saved n, id),
       ((pre ++ [p]).map fun x => (⟨x.id, saved.line, saved.start, pc, i, c, esc⟩ : Call)).reverse ++ log) := by
  induction pre generalizing log with
  | nil => simp [tryParsers, hp]
  | cons x pre ih =>
    obtain ⟨m, hm⟩ := hpre x List.mem_cons_self
    simp only [List.cons_append, tryParsers, hm]
    rw [ih _ (fun y hy => hpre y (List.mem_cons_of_mem _ hy))]
    simp

/-! ### order and range of the Text segments -/

/-- (on the reversed child list) every Text is a range `a ≤ t` inside one line of the block, the Texts are in
    increasing order without overlap, and the last one ends at or before `u` -/
def KOK (b : Block) : List Child → Nat → Prop
  | [], _ => True
  | .node _ :: k, u => KOK b k u
  | .text a t _ _ :: k, u => a ≤ t ∧ t ≤ u ∧ (∃ s ∈ b.lines, s.start ≤ a ∧ t ≤ s.stop) ∧ KOK b k a

theorem KOK_mono {b : Block} : ∀ {k : List Child} {u v : Nat}, KOK b k u → u ≤ v → KOK b k v
  | [], _, _, _, _ => True.intro
  | .node _ :: k, _, _, h, huv => KOK_mono (k := k) h huv
  | .text _ _ _ _ :: _, _, _, ⟨h1, h2, h3, h4⟩, huv => ⟨h1, Nat.le_trans h2 huv, h3, h4⟩

theorem KOK_fl {b : Block} {k : List Child} {s0 p : Nat} (h : KOK b k s0) (h0 : s0 ≤ p)
    (hseg : ∃ s ∈ b.lines, s.start ≤ s0 ∧ p ≤ s.stop) : KOK b (fl k s0 p) p := by
  unfold fl
  split
  · exact KOK_mono h h0
  · exact ⟨h0, Nat.le_refl _, hseg, h⟩

theorem KOK_repairPrev {b : Block} {k : List Child} {u : Nat} (sp : Nat) (h : KOK b k u) :
    KOK b (repairPrev b.src k sp) u := by
  unfold repairPrev
  split
  · rename_i a t k'
    split
    · obtain ⟨h1, h2, ⟨s, hs, h3, h4⟩, h5⟩ := h
      have g1 := le_trimStop b.src a t
      have g2 := trimStop_le b.src a t h1
      exact ⟨g1, by omega, ⟨s, hs, h3, by omega⟩, h5⟩
    · exact h
  · exact h

theorem KOK_eolKids {b : Block} (f : Flags) {k : List Child} {sp cur : Nat} (h : KOK b k sp) (h1 : sp ≤ cur)
    (hseg : ∃ s ∈ b.lines, s.start ≤ sp ∧ cur ≤ s.stop) : KOK b (eolKids b.src f k sp cur) cur := by
  obtain ⟨s, hs, g1, g2⟩ := hseg
  unfold eolKids
  split
  · exact ⟨h1, Nat.le_refl _, ⟨s, hs, g1, g2⟩, h⟩
  · simp only
    have e1 := le_trimStop b.src sp cur
    have e2 := trimStop_le b.src sp cur h1
    split
    · exact ⟨Nat.le_refl _, h1, ⟨s, hs, g1, by omega⟩, KOK_repairPrev sp h⟩
    · exact ⟨e1, e2, ⟨s, hs, g1, by omega⟩, h⟩

theorem advance1_start_ge {b : Block} (hWF : WF b) {r : Reader} (hRI : RI b r) : r.start ≤ (advance1 b r).start := by
  unfold advance1
  split
  · unfold advanceLine setLine
    cases h : b.lines[r.line + 1]? with
    | none => exact Nat.le_refl _
    | some t =>
      have hlen : r.line + 1 < b.lines.length := (List.getElem?_eq_some_iff.mp h).1
      have hu : b.lines[r.line]? = some b.lines[r.line] := List.getElem?_eq_getElem (by omega)
      obtain ⟨r1, r2, r3⟩ := hRI _ hu
      have := hWF.sorted _ _ _ hu h
      have := r3 hlen
      show r.start ≤ t.start
      omega
  · show r.start ≤ r.start + 1; omega

theorem advanceSlow_start_ge {b : Block} (hWF : WF b) (n : Nat) : ∀ {r : Reader}, RI b r → r.start ≤ (advanceSlow b n r).start := by
  induction n with
  | zero => intro r _; exact Nat.le_refl _
  | succ n ih => intro r h; exact Nat.le_trans (advance1_start_ge hWF h) (ih (RI_advance1 hWF h))

theorem advance_start_ge {b : Block} (hWF : WF b) {r : Reader} (hRI : RI b r) (n : Nat) : r.start ≤ (advance b r n).start := by
  unfold advance
  split
  · show r.start ≤ r.start + n; omega
  · exact advanceSlow_start_ge hWF n hRI

theorem advanceLine_start_ge {b : Block} (hWF : WF b) {r : Reader} (hRI : RI b r) (h : r.start ≤ r.stop) :
    r.start ≤ (advanceLine b r).start := by
  unfold advanceLine setLine
  cases h' : b.lines[r.line + 1]? with
  | none => exact Nat.le_refl _
  | some t =>
    have hlen : r.line + 1 < b.lines.length := (List.getElem?_eq_some_iff.mp h').1
    have hu : b.lines[r.line]? = some b.lines[r.line] := List.getElem?_eq_getElem (by omega)
    obtain ⟨r1, r2, r3⟩ := hRI _ hu
    have := hWF.sorted _ _ _ hu h'
    show r.start ≤ t.start
    omega

theorem pass_KOK {P : Params} {b : Block} (hWF : WF b) {st a : St} (hRI : RI b st.rd)
    (hlt : st.rd.line < b.lines.length) (hK : KOK b st.kids st.rd.start) (h : PassPost P b st st a a) :
    KOK b a.kids a.rd.start := by
  have hu : b.lines[st.rd.line]? = some b.lines[st.rd.line] := List.getElem?_eq_getElem hlt
  have hmem : b.lines[st.rd.line] ∈ b.lines := List.getElem_mem hlt
  obtain ⟨r1, r2, r3⟩ := hRI _ hu
  cases h with
  | hit p id n q _ _ h1 h2 h3 h4 h5 h6 h7 h8 h9 =>
    rw [h8, h5]
    have hk := KOK_fl hK h1 ⟨_, hmem, r2, by omega⟩
    have hge := advance_start_ge hWF (RI_mid hRI h1 h2) n
    exact KOK_mono (k := fl st.kids st.rd.start p) hk hge
  | eol f spa spb cur _ _ g1 g2 g3 g4 g5 g6 g7 g8 g9 g10 g11 =>
    rw [g10, g7]
    have hk := KOK_fl hK g1 ⟨_, hmem, r2, by omega⟩
    have hk2 := KOK_eolKids f hk g2 ⟨_, hmem, by omega, by omega⟩
    have hRI' : RI b ⟨st.rd.line, cur, st.rd.stop⟩ := by
      intro s hs
      rw [hu] at hs; cases hs
      exact ⟨r1, by show _ ≤ cur; omega, fun hl => g6 hl⟩
    exact KOK_mono hk2 (advanceLine_start_ge hWF hRI' g5)

theorem loop_KOK {P : Params} {b : Block} (hWF : WF b) (fuel : Nat) :
    ∀ st, Rel b st st → KOK b st.kids st.rd.start → KOK b (loop P b fuel st).st.kids (loop P b fuel st).st.rd.start := by
  induction fuel with
  | zero => intro st _ h; exact h
  | succ fuel ih =>
    intro st R hK
    unfold loop
    rcases pass_sim hWF (TabRel.refl P.parsers) rfl R.rd R.esc R.ri R.inert with ⟨hA, _, _⟩ | ⟨a, b', hA, hB, hP, l, hl⟩
    · rw [hA]; exact hK
    · have hab : b' = a := by rw [hA] at hB; cases hB; rfl
      subst hab
      rw [hA]
      rcases R.inert with hn | ⟨hinA, hinB⟩
      · rw [hn] at hl; cases hl
      · have hlt := peekLine_line_lt hl
        exact ih b' (Rel_of_PassPost hWF R hinA hinB hlt hP) (pass_KOK hWF R.ri hlt hK hP)

/-- the Text segments `(start, stop)` in document order -/
def texts (kids : List Child) : List (Nat × Nat) :=
  kids.reverse.filterMap fun | .text a t _ _ => some (a, t) | .node _ => none

theorem texts_cons_text (a t : Nat) (s h : Bool) (k : List Child) : texts (.text a t s h :: k) = texts k ++ [(a, t)] := by
  simp [texts, List.filterMap_append]

theorem texts_cons_node (id : Nat) (k : List Child) : texts (.node id :: k) = texts k := by
  simp [texts, List.filterMap_append]

theorem KOK_texts {b : Block} : ∀ (k : List Child) (u : Nat), KOK b k u →
    (∀ x ∈ texts k, x.1 ≤ x.2 ∧ x.2 ≤ u ∧ ∃ s ∈ b.lines, s.start ≤ x.1 ∧ x.2 ≤ s.stop) ∧
    (texts k).Pairwise (fun x y => x.2 ≤ y.1)
  | [], _, _ => ⟨fun x hx => by simp [texts] at hx, by simp [texts]⟩
  | .node id :: k, u, h => by rw [texts_cons_node]; exact KOK_texts k u h
  | .text a t s' h' :: k, u, ⟨h1, h2, h3, h4⟩ => by
    rw [texts_cons_text]
    obtain ⟨ih1, ih2⟩ := KOK_texts k a h4
    constructor
    · intro x hx
      rw [List.mem_append] at hx
      rcases hx with hx | hx
      · obtain ⟨p1, p2, p3⟩ := ih1 x hx
        exact ⟨p1, by omega, p3⟩
      · simp at hx; subst hx; exact ⟨h1, h2, h3⟩
    · rw [List.pairwise_append]
      refine ⟨ih2, by simp, ?_⟩
      intro x hx y hy
      simp at hy; subst hy
      exact (ih1 x hx).2.1

theorem run_texts {P : Params} {b : Block} (hWF : WF b) :
    (∀ x ∈ texts (run P b).st.kids, x.1 ≤ x.2 ∧ ∃ s ∈ b.lines, s.start ≤ x.1 ∧ x.2 ≤ s.stop) ∧
    (texts (run P b).st.kids).Pairwise (fun x y => x.2 ≤ y.1) := by
  have h := loop_KOK (P := P) hWF (fuelFor b) (initSt b) (Rel_init hWF) True.intro
  obtain ⟨h1, h2⟩ := KOK_texts _ _ h
  exact ⟨fun x hx => ⟨(h1 x hx).1, (h1 x hx).2.2⟩, h2⟩

/-! ### the line-break classifier against the spec-side reading -/

section HardBreak
open GM.Spec

theorem tb_eq (l : Bytes) : trailingBackslashes l = backslashRun l.reverse := rfl

theorem backslashRun_cons (x : UInt8) (r : Bytes) : backslashRun (x :: r) = if x == 92 then backslashRun r + 1 else 0 := by
  unfold backslashRun; simp only [List.takeWhile]; split <;> simp_all

theorem shape4 (front : Bytes) (z y x : UInt8) :
    (classify (front ++ [z, y, x] ++ [10])).2.hard = hardBreak (front ++ [z, y, x]) := by
  have hL : (front ++ [z, y, x] ++ [10]).length = front.length + 4 := by simp
  unfold classify
  simp only [hL]
  have e1 : (front ++ [z, y, x] ++ [10]).getD (front.length + 4 - 1) 0 = 10 := by
    simp [List.getD_eq_getElem?_getD, List.getElem?_append_right]
  have e2 : (front ++ [z, y, x] ++ [10]).getD (front.length + 4 - 2) 0 = x := by
    have : front.length + 4 - 2 = front.length + 2 := by omega
    simp [this, List.getD_eq_getElem?_getD, List.getElem?_append_right, List.getElem?_append_left]
  have e3 : (front ++ [z, y, x] ++ [10]).getD (front.length + 4 - 3) 0 = y := by
    have : front.length + 4 - 3 = front.length + 1 := by omega
    simp [this, List.getD_eq_getElem?_getD, List.getElem?_append_right, List.getElem?_append_left]
  have e4 : (front ++ [z, y, x] ++ [10]).getD (front.length + 4 - 4) 0 = z := by
    have : front.length + 4 - 4 = front.length + 0 := by omega
    simp [this, List.getD_eq_getElem?_getD, List.getElem?_append_right, List.getElem?_append_left]
  have t1 : (front ++ [z, y, x] ++ [10]).take (front.length + 4 - 1) = front ++ [z, y, x] := by
    have : front.length + 4 - 1 = (front ++ [z, y, x]).length := by simp
    rw [this, List.take_left']; rfl
  have t2 : (front ++ [z, y, x] ++ [10]).take (front.length + 4 - 2) = front ++ [z, y] := by
    have : front ++ [z, y, x] ++ [10] = (front ++ [z, y]) ++ [x, 10] := by simp
    rw [this]
    have : front.length + 4 - 2 = (front ++ [z, y]).length := by simp
    rw [this, List.take_left']; rfl
  rw [e1, e2, e3, e4, t1, t2, tb_eq, tb_eq]
  unfold hardBreak hardBefore
  simp only [List.reverse_append, List.reverse_cons, List.reverse_nil, List.nil_append, List.cons_append, backslashRun_cons]
  clear e1 e2 e3 e4 t1 t2 hL
  by_cases hx92 : x = 92 <;> by_cases hx13 : x = 13 <;> by_cases hx32 : x = 32 <;>
    by_cases hy92 : y = 92 <;> by_cases hy32 : y = 32 <;> by_cases hz92 : z = 92 <;> by_cases hz32 : z = 32 <;>
    (try subst_vars) <;> (try (first | contradiction | (exfalso; revert hx13; decide) | (exfalso; revert hx32; decide) | (exfalso; revert hy32; decide) | (exfalso; revert hz32; decide))) <;>
    simp_all [backslashRun_cons] <;> generalize backslashRun front.reverse = t <;> (try split) <;> (try simp_all) <;> (try omega)

theorem shape0 : (classify ([] ++ [10])).2.hard = hardBreak [] := by decide
theorem shape1 (x : UInt8) : (classify ([x] ++ [10])).2.hard = hardBreak [x] := by
  unfold classify hardBreak hardBefore
  simp only [tb_eq]
  by_cases hx92 : x = 92 <;> by_cases hx13 : x = 13 <;> by_cases hx32 : x = 32 <;>
    (try subst_vars) <;> (try (first | contradiction | (exfalso; revert hx13; decide) | (exfalso; revert hx32; decide))) <;>
    simp_all [backslashRun_cons, backslashRun]
theorem shape2 (y x : UInt8) : (classify ([y, x] ++ [10])).2.hard = hardBreak [y, x] := by
  unfold classify hardBreak hardBefore
  simp only [tb_eq]
  by_cases hx92 : x = 92 <;> by_cases hx13 : x = 13 <;> by_cases hx32 : x = 32 <;>
    by_cases hy92 : y = 92 <;> by_cases hy32 : y = 32 <;>
    (try subst_vars) <;> (try (first | contradiction | (exfalso; revert hx13; decide) | (exfalso; revert hx32; decide) | (exfalso; revert hy32; decide))) <;>
    simp_all [backslashRun_cons, backslashRun]

theorem classify_hard (body : Bytes) : (classify (body ++ [10])).2.hard = hardBreak body := by
  rcases List.eq_nil_or_concat body with rfl | ⟨b1, x, rfl⟩
  · exact shape0
  rcases List.eq_nil_or_concat b1 with rfl | ⟨b2, y, rfl⟩
  · exact shape1 x
  rcases List.eq_nil_or_concat b2 with rfl | ⟨b3, z, rfl⟩
  · exact shape2 y x
  have : ((b3.concat z).concat y).concat x = b3 ++ [z, y, x] := by simp
  rw [this]; exact shape4 b3 z y x

theorem classify_soft (line : Bytes) :
    (classify line).2.soft = (line.getD (line.length - 1) 0 == 10 && !(classify line).2.hard) := by
  unfold classify
  simp only
  repeat' split
  all_goals simp_all

theorem classify_no_newline (line : Bytes) (h : (line.getD (line.length - 1) 0 == 10) = false) :
    (classify line).2 = ⟨false, false, false⟩ ∧ (classify line).1 = line.length := by
  have h' : ¬ (line.getD (line.length - 1) 0 = 10) := by simpa using h
  unfold classify
  simp only
  repeat' split
  all_goals simp_all

end HardBreak

end GM.Proof.InlineLoop
