/-
  GM.Proof.InlinesLoopTotal — part 2 of the totality proof of the inline phase: the loop of parseBlock, given
  contracts of the five parsers. The contract of the link parser is a parameter (`PContract … Ip.link`); the
  other four are discharged from GM.Proof.InlinesTotal.
-/
import GM.Proof.InlinesTotal

namespace GM.Proof.InlinesTotal
open GM GM.Text GM.Spec GM.Inl GM.Proof.Reader GM.Proof.InlinesReader GM.Proof.Inlines

variable {src : Bytes} {segs : List Segment}

/-! ### what the loop needs of the context-side invariant of the link parser -/

/-- an invariant of (children, next id, linkBottom stack) that the loop itself cannot break -/
structure Ctx where
  LK : List Node → Nat → List Bottom → Prop
  appendText : ∀ {k n b} (s : Segment) (so ha ra : Bool), LK k n b → LK (k ++ [.text s so ha ra]) n b
  swapText : ∀ {k n b} (s t : Segment) (so ha ra : Bool), LK (k ++ [.text s so ha ra]) n b → LK (k ++ [.text t so ha ra]) n b
  appendPlain : ∀ {k n b} (nd : Node), LK k n b → wf false nd = true → LK (k ++ [nd]) n b
  appendDelim : ∀ {k n b} (d : Delim), LK k n b → 1 ≤ d.length → d.seg.stop = d.seg.start + d.length →
    LK (k ++ [.delim n d]) (n + 1) b
  bumpId : ∀ {k n b}, LK k n b → LK k (n + 1) b

/-- the trivial context invariant -/
def Ctx.trivial : Ctx where
  LK := fun _ _ _ => True
  appendText := fun _ _ _ _ _ => True.intro
  swapText := fun _ _ _ _ _ _ => True.intro
  appendPlain := fun _ _ _ => True.intro
  appendDelim := fun _ _ _ _ => True.intro
  bumpId := fun _ => True.intro

theorem Ctx.merge (X : Ctx) {k : List Node} {n : Nat} {b : List Bottom} (s : Segment) (h : X.LK k n b) :
    X.LK (mergeOrAppend k s) n b := by
  unfold mergeOrAppend
  split
  · rename_i seg so ha ra hl
    split
    · obtain ⟨ys, rfl⟩ := List.getLast?_eq_some_iff.mp hl
      simp only [List.dropLast_concat]
      exact X.swapText _ _ _ _ _ h
    · exact X.appendText _ _ _ _ h
  · exact X.appendText _ _ _ _ h

/-- the loop invariant: the reader stands for `c`, the recorded segments form a chain ending at the cursor -/
structure LInv (X : Ctx) (src : Bytes) (segs : List Segment) (st : St) (c : BCur) : Prop where
  rs : RS src segs st.rd c
  ch : chain 0 c.p (segsOfL st.kids)
  lk : X.LK st.kids st.nextId st.bottoms

/-- what a parser owes the loop when it is consulted at a byte it is triggered by -/
def PContract (X : Ctx) (src : Bytes) (segs : List Segment) (trig : UInt8 → Bool) (parse : St → PRes) : Prop :=
  ∀ (st : St) (c : BCur) (b : UInt8) (l : Bytes), LInv X src segs st c → BCur.view src segs c = some (b :: l) →
    trig b = true →
    ∃ n st' c', parse st = .ok (n, st') ∧ RS src segs st'.rd c' ∧ c.p ≤ c'.p ∧ c.ln ≤ c'.ln ∧
      (match n with
        | none => chain 0 c.p (segsOfL st'.kids) ∧ X.LK st'.kids st'.nextId st'.bottoms
        | some nd => BCur.remaining segs c' + 1 ≤ BCur.remaining segs c ∧
            chain 0 c'.p (segsOfL (st'.kids ++ [nd])) ∧ X.LK (st'.kids ++ [nd]) st'.nextId st'.bottoms)

def trigOf : Ip → UInt8 → Bool
  | .codeSpan, b => b == 96
  | .link, b => b == 33 || b == 91 || b == 93
  | .autoLink, b => b == 60
  | .rawHTML, b => b == 60
  | .emphasis, b => b == 42 || b == 95

theorem parsersFor_trig {pc : UInt8} {ip : Ip} (h : ip ∈ parsersFor pc) : trigOf ip pc = true := by
  unfold parsersFor at h
  split at h
  · rename_i hc; simp at h; subst h; simpa [trigOf] using hc
  · split at h
    · rename_i hc; simp at h; subst h; simpa [trigOf] using hc
    · split at h
      · rename_i hc
        simp at h
        rcases h with rfl | rfl <;> simpa [trigOf] using hc
      · split at h
        · rename_i hc; simp at h; subst h; simpa [trigOf] using hc
        · simp at h

/-- a reader-only parser that meets `RPost` and never returns a delimiter meets the loop's contract -/
theorem plain_contract (X : Ctx) (trig : UInt8 → Bool) (f : BlockReader → RRes)
    (hf : ∀ (r : BlockReader) (c : BCur) (b : UInt8) (l : Bytes), RS src segs r c →
      BCur.view src segs c = some (b :: l) → trig b = true → RPost src segs c (f r))
    (hplain : ∀ (r r' : BlockReader) (id : Nat) (d : Delim), f r ≠ .ok (some (.delim id d), r')) :
    PContract X src segs trig (fun st => liftR st (f st.rd)) := by
  intro st c b l hI hv ht
  obtain ⟨n, r', c', e1, e2, e3, e4, e5⟩ := hf st.rd c b l hI.rs hv ht
  refine ⟨n, { st with rd := r' }, c', by simp only [e1, liftR], e2, e3, e4, ?_⟩
  cases n with
  | none => exact ⟨hI.ch, hI.lk⟩
  | some nd =>
    obtain ⟨g1, g2, g3⟩ := e5 nd rfl
    refine ⟨g1, ?_, ?_⟩
    · rw [segsOfL_append]
      exact chain_append hI.ch (by simpa [segsOfL] using g2)
    · cases nd with
      | delim id d => exact absurd e1 (hplain _ _ _ _)
      | label => exact absurd g3 (by simp)
      | _ => exact X.appendPlain _ hI.lk g3

theorem parseEmphasis_delim {env : Env} {id : Nat} {r r' : BlockReader} {nd : Node}
    (h : parseEmphasis env id r = .ok (some nd, r')) : ∃ d, nd = .delim id d := by
  unfold parseEmphasis at h
  mpaths h
  all_goals (obtain ⟨rfl, _⟩ := h; exact ⟨_, rfl⟩)

theorem emphasis_contract (X : Ctx) (W : WFSegs src segs) (Z : ∀ s ∈ segs, s.padding = 0) (env : Env) :
    PContract X src segs (trigOf .emphasis) (Ip.emphasis.parse env) := by
  intro st c b l hI hv ht
  have F := segFacts W
  obtain ⟨n, r', c', e1, e2, e3, e4, e5⟩ := parseEmphasis_post F Z env st.nextId hI.rs hv
  refine ⟨n, { st with nextId := st.nextId + 1, rd := r' }, c', by simp only [Ip.parse, e1, liftR], e2, e3, e4, ?_⟩
  cases n with
  | none => exact ⟨hI.ch, X.bumpId hI.lk⟩
  | some nd =>
    obtain ⟨g1, g2, g3⟩ := e5 nd rfl
    obtain ⟨d, rfl⟩ := parseEmphasis_delim e1
    refine ⟨g1, ?_, X.appendDelim d hI.lk g3.1 g3.2⟩
    rw [segsOfL_append]
    exact chain_append hI.ch (by simpa [segsOfL] using g2)

theorem parseAutoLink_nd {r r' : BlockReader} {n : Node} (h : parseAutoLink r = .ok (some n, r')) :
    n.isDelim = false := by
  unfold parseAutoLink at h
  mpaths h
  all_goals (obtain ⟨rfl, _⟩ := h; rfl)

theorem parseTag_nd {m : Bytes → Option Nat} {r r' : BlockReader} {n : Node}
    (h : parseTag m r = .ok (some n, r')) : n.isDelim = false := by
  unfold parseTag at h
  mpaths h
  all_goals (obtain ⟨rfl, _⟩ := h; rfl)

theorem parseRawHTML_nd {r r' : BlockReader} {n : Node} (h : parseRawHTML r = .ok (some n, r')) :
    n.isDelim = false := by
  unfold parseRawHTML at h
  mpaths h
  all_goals first | exact parseTag_nd h | (obtain ⟨rfl, _⟩ := h; rfl)

theorem parseCodeSpan_nd {r r' : BlockReader} {n : Node} (h : parseCodeSpan r = .ok (some n, r')) :
    n.isDelim = false := by
  unfold parseCodeSpan at h
  simp only [bind, Except.bind, pure, Except.pure] at h
  split at h
  · contradiction
  · split at h
    · contradiction
    · split at h
      · contradiction
      · rename_i v3 hl
        have sh := csLoop_shape _ _ _ _ _ _ _ hl (by simp)
        split at h
        · rename_i t hr
          simp at h; obtain ⟨rfl, _⟩ := h
          rw [hr] at sh
          cases t <;> simp [isText] at sh
          rfl
        · split at h
          · contradiction
          · simp at h; obtain ⟨rfl, _⟩ := h; rfl

theorem codeSpan_contract (X : Ctx) (W : WFSegs src segs) (Z : ∀ s ∈ segs, s.padding = 0) (env : Env) :
    PContract X src segs (trigOf .codeSpan) (Ip.codeSpan.parse env) := by
  apply plain_contract X (trigOf .codeSpan) parseCodeSpan
  · intro r c b l h hv ht
    simp only [trigOf, beq_iff_eq] at ht; subst ht
    exact parseCodeSpan_post (segFacts W) Z h hv
  · intro r r' id d h
    have := parseCodeSpan_nd h
    simp [Node.isDelim] at this

theorem autoLink_contract (X : Ctx) (W : WFSegs src segs) (Z : ∀ s ∈ segs, s.padding = 0) (env : Env) :
    PContract X src segs (trigOf .autoLink) (Ip.autoLink.parse env) := by
  apply plain_contract X (trigOf .autoLink) parseAutoLink
  · intro r c b l h hv _
    exact parseAutoLink_post (segFacts W) Z h hv
  · intro r r' id d h
    have := parseAutoLink_nd h
    simp [Node.isDelim] at this

theorem rawHTML_contract (X : Ctx) (W : WFSegs src segs) (Z : ∀ s ∈ segs, s.padding = 0) (env : Env) :
    PContract X src segs (trigOf .rawHTML) (Ip.rawHTML.parse env) := by
  apply plain_contract X (trigOf .rawHTML) parseRawHTML
  · intro r c b l h hv _
    exact parseRawHTML_post W Z h hv
  · intro r r' id d h
    have := parseRawHTML_nd h
    simp [Node.isDelim] at this

/-! ### the loop -/

theorem chain_mergeOrAppend {lo : Int} {kids : List Node} {s : Segment} (h : chain lo s.start (segsOfL kids))
    (hs : s.start ≤ s.stop) : chain lo s.stop (segsOfL (mergeOrAppend kids s)) := by
  unfold mergeOrAppend
  have happ : chain lo s.stop (segsOfL (kids ++ [textOf s])) := by
    rw [segsOfL_append]
    exact chain_append h (by simpa [segsOfL, segsOf, textOf] using chain_single (Int.le_refl _) hs (Int.le_refl _))
  split
  · rename_i seg so ha ra hl
    split
    · obtain ⟨ys, rfl⟩ := List.getLast?_eq_some_iff.mp hl
      rw [segsOfL_append] at h
      obtain ⟨mid, h1, h2⟩ := chain_split h
      simp only [segsOfL, segsOf, List.append_nil, chain] at h2
      simp only [List.dropLast_concat]
      rw [segsOfL_append]
      refine chain_append h1 ?_
      simp only [segsOfL, segsOf, List.append_nil, Segment.withStop]
      exact chain_single (by simp only; omega) (by simp only; omega) (by simp only; omega)
    · exact happ
  · exact happ

theorem trimRightSpace_ok {t : Segment} (h0 : 0 ≤ t.start) (h1 : t.start ≤ t.stop) (h2 : t.stop ≤ src.length) :
    ∃ t', t.trimRightSpace src = .ok t' ∧ t'.start = t.start ∧ t.start ≤ t'.stop ∧ t'.stop ≤ t.stop := by
  unfold Segment.trimRightSpace
  have hs : sliceB src t.start t.stop = .ok (sub src t.start.toNat t.stop.toNat) := by
    simp [sliceB, h0, h1, h2]
  simp only [hs, bind, Except.bind, pure, Except.pure]
  have hl : (sub src t.start.toNat t.stop.toNat).length = (t.stop - t.start).toNat := by
    simp only [sub, List.length_take, List.length_drop]; omega
  have ht : trimRightSpaceLength (sub src t.start.toNat t.stop.toNat) ≤ (sub src t.start.toNat t.stop.toNat).length := by
    unfold trimRightSpaceLength
    have := takeWhile_len_le isSpace (sub src t.start.toNat t.stop.toNat).reverse
    simpa using this
  split
  · exact ⟨_, rfl, rfl, by simp only; omega, by simp only; omega⟩
  · exact ⟨_, rfl, rfl, by simp only; omega, by simp only; omega⟩

/-- the view from `n` bytes further inside the line -/
theorem view_shift (F : SegFacts src segs) {c : BCur} (w : BWF segs c) (hz : c.pad = 0) {v : Bytes}
    (hv : BCur.view src segs c = some v) {n : Nat} (hn : n < v.length) :
    BCur.view src segs { c with p := c.p + n } = some (v.drop n) ∧
    BCur.stopOf segs { c with p := c.p + n } = BCur.stopOf segs c := by
  obtain ⟨v1, v2, v3, v4, v5, v6, v7, v8⟩ := view_some F w hz hv
  have hst : BCur.stopOf segs { c with p := c.p + n } = BCur.stopOf segs c := by simp [BCur.stopOf]
  refine ⟨?_, hst⟩
  have hlast : BCur.stopOf segs c ≤ BCur.lastStop segs := by
    simp only [BCur.stopOf, v1, if_true]; exact stop_le_last F w.ln0 v1
  have hlive : BCur.live segs { c with p := c.p + n } = true := by
    simp only [BCur.live, v1, decide_true, Bool.true_and, decide_eq_true_eq]; omega
  unfold BCur.view
  rw [if_pos hlive, hst]
  simp only [hz, Int.toNat_zero, spaces, List.replicate_zero, List.nil_append]
  rw [v5]
  simp only [sub, List.drop_take, List.drop_drop]
  have e1 : (c.p + (n : Int)).toNat = c.p.toNat + n := by omega
  rw [e1]
  congr 2
  omega

theorem tryParsers_total (X : Ctx) (F : SegFacts src segs) (env : Env)
    (hC : ∀ ip, PContract X src segs (trigOf ip) (ip.parse env)) {r0 : BlockReader} {c : BCur} {b : UInt8} {l : Bytes}
    (h0 : RS src segs r0 c) (hv : BCur.view src segs c = some (b :: l)) :
    ∀ (ips : List Ip) (st : St), LInv X src segs st c → (∀ ip ∈ ips, trigOf ip b = true) →
    ∃ n st' c', tryParsers env r0.position.1 r0.position.2 ips st = .ok (n, st') ∧ RS src segs st'.rd c' ∧
      c.p ≤ c'.p ∧ c.ln ≤ c'.ln ∧
      (match n with
        | none => c' = c ∧ chain 0 c.p (segsOfL st'.kids) ∧ X.LK st'.kids st'.nextId st'.bottoms
        | some nd => BCur.remaining segs c' + 1 ≤ BCur.remaining segs c ∧
            chain 0 c'.p (segsOfL (st'.kids ++ [nd])) ∧ X.LK (st'.kids ++ [nd]) st'.nextId st'.bottoms) := by
  intro ips
  induction ips with
  | nil =>
    intro st hI _
    exact ⟨none, st, c, rfl, hI.rs, Int.le_refl _, Int.le_refl _, rfl, hI.ch, hI.lk⟩
  | cons ip rest ih =>
    intro st hI ht
    obtain ⟨n, st1, c1, e1, e2, e3, e4, e5⟩ := hC ip st c b l hI hv (ht ip (by simp))
    simp only [tryParsers, e1, bind, Except.bind]
    cases n with
    | some nd => exact ⟨some nd, st1, c1, rfl, e2, e3, e4, e5⟩
    | none =>
      obtain ⟨r3, s1, s2⟩ := setPosition_restore F h0 e2
      simp only [s1]
      exact ih { st1 with rd := r3 } ⟨s2, e5.1, e5.2⟩ (fun ip' hip => ht ip' (by simp [hip]))

/-- the state of the byte loop: the reader stands for `c`, `startPosition` is the reader's position, `n` bytes of the
    peeked rest `v` of the line are pending, `bs` is what remains to be scanned -/
structure ScanInv (X : Ctx) (src : Bytes) (segs : List Segment) (v bs : Bytes) (i : Nat) (s : Inl.Scan) (c : BCur) : Prop where
  inv : LInv X src segs s.st c
  view : BCur.view src segs c = some v
  spStart : s.sp.start = c.p
  spStop : s.sp.stop = BCur.stopOf segs c
  spPad : s.sp.padding = 0
  n0 : 0 ≤ s.n
  len : s.n.toNat + bs.length ≤ v.length
  pre : bs <+: v.drop s.n.toNat
  i0 : i = 0 → s.n = 0

theorem scan_total (X : Ctx) (F : SegFacts src segs) (Z : ∀ s ∈ segs, s.padding = 0) (env : Env)
    (hC : ∀ ip, PContract X src segs (trigOf ip) (ip.parse env)) :
    ∀ (bs : Bytes) (i : Nat) (s : Inl.Scan) (v : Bytes) (c : BCur), ScanInv X src segs v bs i s c →
    ∃ res, scan env bs i s = .ok res ∧
      (match res with
        | .hit st' _ => ∃ c', LInv X src segs st' c' ∧ BCur.remaining segs c' + 1 ≤ BCur.remaining segs c ∧ c.ln ≤ c'.ln
        | .eol s' => ∃ v' c', ScanInv X src segs v' [] 1 s' c' ∧ BCur.remaining segs c' ≤ BCur.remaining segs c ∧
            c'.ln = c.ln) := by
  intro bs
  induction bs with
  | nil =>
    intro i s v c hS
    refine ⟨.eol s, rfl, v, c, ?_, Int.le_refl _, rfl⟩
    exact { hS with i0 := fun h => by omega, len := by simpa using hS.len, pre := by simp }
  | cons b cs ih =>
    intro i s v c hS
    have hlen := hS.len
    simp only [List.length_cons] at hlen
    have hpre := hS.pre
    -- the byte under the scan is byte `n` of the view
    have hvb : v.drop s.n.toNat = b :: (v.drop (s.n.toNat + 1)) := by
      obtain ⟨t, ht⟩ := hpre
      have h1 : (v.drop s.n.toNat).head? = some b := by rw [← ht]; rfl
      have h2 : v.drop (s.n.toNat + 1) = (v.drop s.n.toNat).tail := by
        rw [← List.drop_one, List.drop_drop]
      rw [h2]
      cases hd : v.drop s.n.toNat with
      | nil => rw [hd] at h1; simp at h1
      | cons x xs => rw [hd] at h1; simp at h1; subst h1; rfl
    have hcs : cs <+: v.drop (s.n.toNat + 1) := by
      obtain ⟨t, ht⟩ := hpre
      rw [hvb] at ht
      simp at ht
      exact ⟨t, ht⟩
    -- going on without a parser
    have hskip : ∃ res, scan env cs (i + 1) (bump b s) = .ok res ∧
        (match res with
          | .hit st' _ => ∃ c', LInv X src segs st' c' ∧ BCur.remaining segs c' + 1 ≤ BCur.remaining segs c ∧ c.ln ≤ c'.ln
          | .eol s' => ∃ v' c', ScanInv X src segs v' [] 1 s' c' ∧ BCur.remaining segs c' ≤ BCur.remaining segs c ∧
              c'.ln = c.ln) := by
      apply ih (i + 1) (bump b s) v c
      have hb : (bump b s).st = s.st ∧ (bump b s).sp = s.sp ∧ (bump b s).n = s.n + 1 := by
        unfold bump; split
        · exact ⟨rfl, rfl, rfl⟩
        · split <;> exact ⟨rfl, rfl, rfl⟩
      have hn0 := hS.n0
      have e : (s.n + 1).toNat = s.n.toNat + 1 := by omega
      exact { inv := by rw [hb.1]; exact hS.inv, view := hS.view, spStart := by rw [hb.2.1]; exact hS.spStart,
              spStop := by rw [hb.2.1]; exact hS.spStop, spPad := by rw [hb.2.1]; exact hS.spPad,
              n0 := by rw [hb.2.2]; omega, len := by rw [hb.2.2, e]; omega,
              pre := by rw [hb.2.2, e]; exact hcs, i0 := fun h => by omega }
    simp only [scan]
    split
    · -- a newline ends the loop
      refine ⟨.eol s, rfl, v, c, ?_, Int.le_refl _, rfl⟩
      exact { hS with i0 := fun h => by omega, len := by simp; omega, pre := by simp }
    · split
      · rename_i htrig
        simp only [Bool.and_eq_true, Bool.not_eq_true', List.isEmpty_eq_false_iff_exists_mem] at htrig
        -- the table entry is non-nil, so its index is the byte itself
        have hpc : parserChar b i = b := by
          unfold parserChar
          simp only
          split
          · rename_i h32
            exfalso
            obtain ⟨ip, hip⟩ := htrig.2
            unfold parserChar at hip
            simp only [h32, if_true] at hip
            simp [parsersFor] at hip
          · rfl
        rw [hpc] at htrig ⊢
        -- flush the pending bytes: still inside the line
        have hnlt : s.n.toNat < v.length := by omega
        have w := hS.inv.rs.abs.wf
        have hz := hS.inv.rs.pad
        obtain ⟨v1, v2, v3, v4, v5, v6, v7, v8⟩ := view_some F w hz hS.view
        obtain ⟨r1, a1, a2⟩ := advance_inline F Z hS.inv.rs (n := s.n) hS.n0 (by omega) (by omega)
        have hnn : c.p + s.n = c.p + (s.n.toNat : Int) := by have := hS.n0; omega
        obtain ⟨vs1, vs2⟩ := view_shift F w hz hS.view hnlt
        rw [← hnn] at vs1 vs2
        rw [hvb] at vs1
        have hpos1 := (peekLine_facts F a2).2
        have hbetween : s.sp.between r1.position.2 = .ok { start := c.p, stop := c.p + s.n, padding := 0 } := by
          simp only [Segment.between, BlockReader.position, hpos1, hS.spStop, vs2, bne_self_eq_false, Bool.false_eq_true,
            if_false, hS.spStart, hS.spPad]
          rfl
        -- the children and startPosition after the flush
        have hkids : ∃ ks sp', (if (i != 0) = true then
              (s.sp.between r1.position.2).map (fun seg => (mergeOrAppend s.st.kids seg, r1.position.2))
            else (pure (s.st.kids, s.sp) : Except Panic (List Node × Segment))) = .ok (ks, sp') ∧
            chain 0 (c.p + s.n) (segsOfL ks) ∧ X.LK ks s.st.nextId s.st.bottoms ∧ sp'.start = c.p + s.n ∧
            sp'.stop = BCur.stopOf segs c ∧ sp'.padding = 0 := by
          by_cases hi : i = 0
          · have hn := hS.i0 hi
            simp only [hi, bne_self_eq_false, Bool.false_eq_true, if_false, pure, Except.pure]
            refine ⟨_, _, rfl, ?_, hS.inv.lk, ?_, hS.spStop, hS.spPad⟩
            · rw [hn]; simpa using hS.inv.ch
            · rw [hn, hS.spStart]; omega
          · have : (i != 0) = true := by simpa using hi
            simp only [this, if_true, hbetween, Except.map]
            refine ⟨_, _, rfl, ?_, X.merge _ hS.inv.lk, ?_, ?_, ?_⟩
            · exact chain_mergeOrAppend (s := { start := c.p, stop := c.p + s.n, padding := 0 }) hS.inv.ch
                (by simp only; have := hS.n0; omega)
            · simp [BlockReader.position, hpos1]
            · simp [BlockReader.position, hpos1, vs2]
            · simp [BlockReader.position, hpos1]
        obtain ⟨ks, sp', hk1, hk2, hk3, hk4, hk5, hk6⟩ := hkids
        have hI1 : LInv X src segs { s.st with rd := r1, kids := ks } { c with p := c.p + s.n } := ⟨a2, hk2, hk3⟩
        obtain ⟨n, st', c', t1, t2, t3, t4, t5⟩ := tryParsers_total X F env hC a2 vs1 (parsersFor b)
          { s.st with rd := r1, kids := ks } hI1 (fun ip hip => parsersFor_trig hip)
        have hrem1 : BCur.remaining segs { c with p := c.p + s.n } ≤ BCur.remaining segs c := by
          obtain ⟨_, c1', f1, f2, f3, _, _, _⟩ := advance_ok F Z hS.inv.rs (n := s.n) hS.n0 (by omega)
          have ec : c1' = { c with p := c.p + s.n } := by
            have h1 := f2.abs.line; have h2 := f2.abs.pos; have h3 := a2.abs.line; have h4 := a2.abs.pos
            rw [a1] at f1; simp at f1; subst f1
            cases c1'; simp only [BCur.mk.injEq]
            rw [h3] at h1; rw [h4] at h2
            simp at h2
            exact ⟨h1.symm, h2.1.symm, h2.2.2.symm⟩
          rw [← ec, f3]; have := hS.n0; omega
        have htr : trigger env (parsersFor b) i s = (match n with
            | some nd => .ok (.inl { st' with kids := st'.kids ++ [nd] })
            | none => .ok (.inr { s with st := st', n := 0, sp := sp' })) := by
          unfold trigger
          simp only [a1, bind, Except.bind, hk1, t1]
          cases n <;> rfl
        rw [htr]
        cases n with
        | some nd =>
          simp only [pure, Except.pure]
          refine ⟨_, rfl, c', ⟨t2, t5.2.1, t5.2.2⟩, by have := t5.1; omega, t4⟩
        | none =>
          simp only
          obtain ⟨rfl, t6, t7⟩ := t5
          -- the loop goes on behind the trigger byte with nothing pending
          have := ih (i + 1) (bump b { s with st := st', n := 0, sp := sp' }) (b :: v.drop (s.n.toNat + 1))
            { c with p := c.p + s.n } (by
              have hb : (bump b { s with st := st', n := 0, sp := sp' }).st = st' ∧
                  (bump b { s with st := st', n := 0, sp := sp' }).sp = sp' ∧
                  (bump b { s with st := st', n := 0, sp := sp' }).n = 1 := by
                unfold bump; split
                · exact ⟨rfl, rfl, rfl⟩
                · split <;> exact ⟨rfl, rfl, rfl⟩
              have hl2 : (v.drop (s.n.toNat + 1)).length = v.length - (s.n.toNat + 1) := by simp
              exact { inv := by rw [hb.1]; exact ⟨t2, t6, t7⟩, view := vs1, spStart := by rw [hb.2.1]; exact hk4,
                      spStop := by rw [hb.2.1, hk5, vs2], spPad := by rw [hb.2.1]; exact hk6,
                      n0 := by rw [hb.2.2]; omega,
                      len := by rw [hb.2.2]; simp only [List.length_cons, hl2]; omega,
                      pre := by rw [hb.2.2]; simpa using hcs, i0 := fun h => by omega })
          obtain ⟨res, r1', r2'⟩ := this
          refine ⟨res, r1', ?_⟩
          cases res with
          | hit st'' e =>
            obtain ⟨c'', q1, q2, q3⟩ := r2'
            exact ⟨c'', q1, by omega, q3⟩
          | eol s'' =>
            obtain ⟨v'', c'', q1, q2, q3⟩ := r2'
            exact ⟨v'', c'', q1, by omega, q3⟩
      · exact hskip

theorem eolText_total (X : Ctx) {flags : Nat} {diff : Segment} {kids : List Node} {n : Nat} {bt : List Bottom}
    (hc : chain 0 diff.start (segsOfL kids)) (h1 : diff.start ≤ diff.stop) (h2 : diff.stop ≤ src.length)
    (hlk : X.LK kids n bt) :
    ∃ seg kids', eolText src flags diff kids = .ok (seg, kids') ∧ chain 0 diff.start (segsOfL kids') ∧
      seg.start = diff.start ∧ diff.start ≤ seg.stop ∧ seg.stop ≤ diff.stop ∧ X.LK kids' n bt := by
  have h0 : 0 ≤ diff.start := chain_le hc
  unfold eolText
  split
  · exact ⟨diff, kids, rfl, hc, rfl, h1, Int.le_refl _, hlk⟩
  · obtain ⟨t', e1, e2, e3, e4⟩ := trimRightSpace_ok (src := src) (t := diff) h0 h1 h2
    simp only [e1, bind, Except.bind, pure, Except.pure]
    split
    · split
      · rename_i tseg hl
        split
        · rename_i hadj
          simp only [beq_iff_eq] at hadj
          obtain ⟨ys, rfl⟩ := List.getLast?_eq_some_iff.mp hl
          rw [segsOfL_append] at hc
          obtain ⟨mid, c1, c2⟩ := chain_split hc
          simp only [segsOfL, segsOf, List.append_nil, chain] at c2
          have hm := chain_le c1
          obtain ⟨t2, f1, f2, f3, f4⟩ := trimRightSpace_ok (src := src) (t := tseg) (by omega) c2.2.1 (by omega)
          simp only [f1, List.dropLast_concat]
          refine ⟨t', _, rfl, ?_, e2, e3, e4, X.swapText _ _ _ _ _ hlk⟩
          rw [segsOfL_append]
          refine chain_append c1 ?_
          simp only [segsOfL, segsOf, List.append_nil]
          exact chain_single (by omega) (by omega) (by omega)
        · exact ⟨t', kids, rfl, hc, e2, e3, e4, hlk⟩
      · exact ⟨t', kids, rfl, hc, e2, e3, e4, hlk⟩
    · exact ⟨t', kids, rfl, hc, e2, e3, e4, hlk⟩

theorem endOfLine_total (X : Ctx) (F : SegFacts src segs) (Z : ∀ s ∈ segs, s.padding = 0) {flags : Nat} {v : Bytes}
    {i : Nat} {s : Inl.Scan} {c : BCur} (hS : ScanInv X src segs v [] i s c) :
    ∃ st' c', endOfLine flags c.ln s = .ok st' ∧ LInv X src segs st' c' ∧
      BCur.remaining segs c' + 1 ≤ BCur.remaining segs c := by
  have w := hS.inv.rs.abs.wf
  have hz := hS.inv.rs.pad
  obtain ⟨v1, v2, v3, v4, v5, v6, v7, v8⟩ := view_some F w hz hS.view
  have hlen := hS.len
  simp only [List.length_nil, Nat.add_zero] at hlen
  have hn0 := hS.n0
  -- the pending bytes
  have hadv : ∃ r1 c1, (if (s.n != 0) = true then s.st.rd.advance s.n else pure s.st.rd) = .ok r1 ∧ RS src segs r1 c1 ∧
      BCur.remaining segs c1 = BCur.remaining segs c - s.n ∧ c.ln ≤ c1.ln ∧ c.p + s.n ≤ c1.p ∧ (s.n = 0 → c1 = c) := by
    by_cases hn : s.n = 0
    · simp only [hn, bne_self_eq_false, Bool.false_eq_true, if_false, pure, Except.pure]
      exact ⟨_, c, rfl, hS.inv.rs, by omega, Int.le_refl _, by omega, fun _ => rfl⟩
    · have : (s.n != 0) = true := by simpa using hn
      simp only [this, if_true]
      obtain ⟨r1, c1, e1, e2, e3, e4, e5, _⟩ := advance_ok F Z hS.inv.rs (n := s.n) hn0 (by omega)
      exact ⟨r1, c1, e1, e2, e3, e4, e5, fun h => absurd h hn⟩
  obtain ⟨r1, c1, e1, e2, e3, e4, e5, e6⟩ := hadv
  unfold endOfLine
  simp only [e1, bind, Except.bind, BlockReader.position, e2.abs.line]
  have hmono : chain 0 c1.p (segsOfL s.st.kids) := chain_mono (Int.le_refl _) (by omega) hS.inv.ch
  by_cases hl : c.ln = c1.ln
  · have hne : (c.ln != c1.ln) = false := by simpa using hl
    simp only [hne, Bool.false_eq_true, if_false]
    have hpos1 := (peekLine_facts F e2).2
    have hrng := bpos_wf F e2.abs
    rw [hpos1] at hrng
    have hst1 : BCur.stopOf segs c1 = BCur.stopOf segs c := by simp [BCur.stopOf, hl]
    have hbetween : s.sp.between r1.pos = .ok { start := c.p, stop := c1.p, padding := 0 } := by
      simp only [Segment.between, hpos1, hS.spStop, hst1, bne_self_eq_false, Bool.false_eq_true, if_false, hS.spStart,
        hS.spPad]
      rfl
    simp only [hbetween]
    obtain ⟨seg, kids', g1, g2, g3, g4, g5, g6⟩ := eolText_total (src := src) X (flags := flags)
      (diff := { start := c.p, stop := c1.p, padding := 0 }) hS.inv.ch (by simp only; omega)
      (by have := hrng.2.1; have := hrng.2.2.1; simp only at *; omega) hS.inv.lk
    have hsrc : r1.source = src := e2.abs.source
    simp only [hsrc, g1]
    obtain ⟨r2, a1, a2⟩ := advanceLine_ok F Z e2
    obtain ⟨b1, b2, b3, b4, b5⟩ := advanceLine_facts F e2.abs.wf e2.pad
    simp only [a1, pure, Except.pure]
    refine ⟨_, _, rfl, ⟨a2, ?_, X.appendText _ _ _ _ g6⟩, ?_⟩
    · rw [segsOfL_append]
      refine chain_append g2 ?_
      simp only [segsOfL, segsOf, List.append_nil]
      simp only at g3 g4 g5
      exact chain_single (by omega) (by omega) (by omega)
    · by_cases hl1 : BCur.live segs c1 = true
      · have := b4 hl1
        have hv1 : ∃ v', BCur.view src segs c1 = some v' := by simp [BCur.view, hl1]
        obtain ⟨v', hv'⟩ := hv1
        obtain ⟨_, _, u3, _⟩ := view_some F e2.abs.wf e2.pad hv'
        omega
      · have : BCur.remaining segs c1 = 0 := by simp [BCur.remaining, hl1]
        omega
  · have hne : (c.ln != c1.ln) = true := by simpa using hl
    simp only [hne, if_true, pure, Except.pure]
    refine ⟨_, c1, rfl, ⟨e2, hmono, hS.inv.lk⟩, ?_⟩
    have : s.n ≠ 0 := fun h => hl (by rw [e6 h])
    omega

theorem lineLoop_total (X : Ctx) (F : SegFacts src segs) (Z : ∀ s ∈ segs, s.padding = 0) (env : Env)
    (hC : ∀ ip, PContract X src segs (trigOf ip) (ip.parse env)) :
    ∀ (fuel : Nat) (esc : Bool) (st : St) (c : BCur), LInv X src segs st c →
    (BCur.remaining segs c).toNat < fuel →
    ∃ st' c', lineLoop env fuel esc st = .ok st' ∧ LInv X src segs st' c' := by
  intro fuel
  induction fuel with
  | zero => intro esc st c _ hf; omega
  | succ f ih =>
    intro esc st c hI hf
    obtain ⟨hpl, hpos⟩ := peekLine_facts F hI.rs
    simp only [lineLoop, hpl, bind, Except.bind]
    cases hv : BCur.view src segs c with
    | none => exact ⟨st, c, rfl, hI⟩
    | some line =>
      obtain ⟨v1, v2, v3, v4, v5, v6, v7, v8⟩ := view_some F hI.rs.abs.wf hI.rs.pad hv
      have hne : line.isEmpty = false := by
        cases line with
        | nil => simp at v6; omega
        | cons a t => rfl
      simp only [hne, Bool.false_eq_true, if_false]
      have hS : ScanInv X src segs line (line.take (classify line).1) 0
          { st := st, n := 0, sp := st.rd.position.2, escaped := esc } c :=
        { inv := hI, view := hv, spStart := by simp [BlockReader.position, hpos],
          spStop := by simp [BlockReader.position, hpos], spPad := by simp [BlockReader.position, hpos],
          n0 := Int.le_refl _, len := by simp [List.length_take]; omega,
          pre := by simpa using List.take_prefix _ _, i0 := fun _ => rfl }
      obtain ⟨res, r1, r2⟩ := scan_total X F Z env hC _ 0 _ line c hS
      simp only [r1]
      cases res with
      | hit st' e' =>
        obtain ⟨c', q1, q2, q3⟩ := r2
        exact ih e' st' c' q1 (by omega)
      | eol s' =>
        obtain ⟨v', c', q1, q2, q3⟩ := r2
        obtain ⟨st2, c2, g1, g2, g3⟩ := endOfLine_total X F Z (flags := (classify line).2) q1
        simp only [BlockReader.position, hI.rs.abs.line, ← q3, g1]
        exact ih false st2 c2 g2 (by omega)

/-! ### the whole phase -/

/-- the context invariant "every open delimiter still has characters" -/
def Ctx.pos : Ctx where
  LK := fun k _ _ => posL k
  appendText := fun s so ha ra h => posL_append.mpr ⟨h, posL_text s so ha ra⟩
  swapText := fun s t so ha ra h => posL_append.mpr ⟨(posL_append.mp h).1, posL_text t so ha ra⟩
  appendPlain := fun nd h hw => posL_append.mpr ⟨h, posL_nondelim (by cases nd <;> simp_all [wf, Node.isDelim])⟩
  appendDelim := fun d h hd _ => posL_append.mpr ⟨h, posL_delim.mpr hd⟩
  bumpId := fun h => h

theorem sub_mem {src : Bytes} {a b : Nat} {x : UInt8} (h : x ∈ sub src a b) : x ∈ src := by
  unfold sub at h
  exact List.mem_of_mem_drop (List.mem_of_mem_take h)

/-- without `[` and `]` in the source the link parser is only ever asked about a `!` and declines -/
theorem link_contract_nobracket (X : Ctx) (W : WFSegs src segs) (Z : ∀ s ∈ segs, s.padding = 0) (env : Env)
    (hnb : ∀ x ∈ src, x ≠ 91 ∧ x ≠ 93) : PContract X src segs (trigOf .link) (Ip.link.parse env) := by
  intro st c b l hI hv ht
  have F := segFacts W
  obtain ⟨hpl, hpos⟩ := peekLine_facts F hI.rs
  obtain ⟨v1, v2, v3, v4, v5, v6, v7, v8⟩ := view_some F hI.rs.abs.wf hI.rs.pad hv
  have hmem : ∀ x ∈ (b :: l), x ≠ 91 ∧ x ≠ 93 := fun x hx => hnb x (sub_mem (by rw [← v5]; exact hx))
  have hb := hmem b (by simp)
  simp only [trigOf, Bool.or_eq_true, beq_iff_eq] at ht
  have hb33 : b = 33 := by rcases ht with (h | h) | h <;> simp_all
  subst hb33
  have hst : ({ st with rd := st.rd } : St) = st := rfl
  refine ⟨none, st, c, ?_, hI.rs, Int.le_refl _, Int.le_refl _, hI.ch, hI.lk⟩
  simp only [Ip.parse, parseLink, hpl, hv, bind, Except.bind, Option.getD_some, hst]
  cases l with
  | nil => rfl
  | cons x t =>
    have hx := hmem x (by simp)
    simp only [show ((33 : UInt8) == 33) = true from rfl, if_true]
    split
    · rename_i heq; simp at heq; exact absurd heq.1 hx.1
    · rfl

theorem blockFuel_gt (W : WFSegs src segs) (Z : ∀ s ∈ segs, s.padding = 0) {c : BCur} (w : BWF segs c) (hz : c.pad = 0) :
    (BCur.remaining segs c).toNat < blockFuel src segs := by
  have := remaining_le_len W Z w hz
  unfold blockFuel
  omega

/-- the inline phase of a block finishes whenever the link parser keeps its contract -/
theorem parseBlock_total_of (X : Ctx) (hbase : X.LK [] 0 []) (hposL : ∀ k n b, X.LK k n b → posL k)
    (W : WFSegs src segs) (Z : ∀ s ∈ segs, s.padding = 0) (env : Env)
    (hlink : PContract X src segs (trigOf .link) (Ip.link.parse env)) :
    ∃ kids, parseBlock env src segs = .ok kids := by
  have F := segFacts W
  obtain ⟨r0, e0, a0⟩ := blockReader_init F
  have hz0 : (BCur.init segs).pad = 0 := segOf_pad F Z 0 (Int.le_refl _) F.kpos
  have hI : LInv X src segs { rd := r0 } (BCur.init segs) :=
    ⟨⟨a0, hz0⟩, by simp only [segsOfL, chain, BCur.init]; exact (F.rng 0 (Int.le_refl _) F.kpos).1, hbase⟩
  have hC : ∀ ip, PContract X src segs (trigOf ip) (ip.parse env) := by
    intro ip
    cases ip with
    | codeSpan => exact codeSpan_contract X W Z env
    | link => exact hlink
    | autoLink => exact autoLink_contract X W Z env
    | rawHTML => exact rawHTML_contract X W Z env
    | emphasis => exact emphasis_contract X W Z env
  obtain ⟨st', c', l1, l2⟩ := lineLoop_total X F Z env hC (blockFuel src segs) false _ _ hI
    (blockFuel_gt W Z a0.wf hz0)
  obtain ⟨res, p1, _⟩ := processDelimiters_ok .nil st'.kids (hposL _ _ _ l2.lk)
  unfold parseBlock
  simp only [e0, l1, p1, bind, Except.bind, pure, Except.pure]
  exact ⟨_, rfl⟩

/-- the inline phase of a block finishes — no panic, no fuel exhaustion, no broken modelling invariant — for
    every source without square brackets -/
theorem parseBlock_total_nobracket (W : WFSegs src segs) (Z : ∀ s ∈ segs, s.padding = 0) (env : Env)
    (hnb : ∀ x ∈ src, x ≠ 91 ∧ x ≠ 93) : ∃ kids, parseBlock env src segs = .ok kids :=
  parseBlock_total_of Ctx.pos (by intro id d h; simp at h) (fun _ _ _ h => h) W Z env
    (link_contract_nobracket Ctx.pos W Z env hnb)

/-- at the end of the `retry:` loop every recorded segment lies inside the source and they are in document order -/
theorem lineLoop_segments (X : Ctx) (hbase : X.LK [] 0 []) (W : WFSegs src segs) (Z : ∀ s ∈ segs, s.padding = 0)
    (env : Env) (hC : ∀ ip, PContract X src segs (trigOf ip) (ip.parse env)) {r0 : BlockReader} {st' : St}
    (h0 : BlockReader.new src segs = .ok r0)
    (h : lineLoop env (blockFuel src segs) false { rd := r0 } = .ok st') :
    chain 0 src.length (segsOfL st'.kids) := by
  have F := segFacts W
  obtain ⟨r0', e0, a0⟩ := blockReader_init F
  rw [h0] at e0; simp at e0; subst e0
  have hz0 : (BCur.init segs).pad = 0 := segOf_pad F Z 0 (Int.le_refl _) F.kpos
  have hI : LInv X src segs { rd := r0 } (BCur.init segs) :=
    ⟨⟨a0, hz0⟩, by simp only [segsOfL, chain, BCur.init]; exact (F.rng 0 (Int.le_refl _) F.kpos).1, hbase⟩
  obtain ⟨st2, c', l1, l2⟩ := lineLoop_total X F Z env hC (blockFuel src segs) false _ _ hI
    (blockFuel_gt W Z a0.wf hz0)
  rw [h] at l1; simp at l1; subst l1
  have hr := bpos_wf F l2.rs.abs
  rw [(peekLine_facts F l2.rs).2] at hr
  exact chain_mono (Int.le_refl _) (by have := hr.2.1; have := hr.2.2.1; simp only at *; omega) l2.ch

theorem all_contracts_nobracket (X : Ctx) (W : WFSegs src segs) (Z : ∀ s ∈ segs, s.padding = 0) (env : Env)
    (hnb : ∀ x ∈ src, x ≠ 91 ∧ x ≠ 93) : ∀ ip, PContract X src segs (trigOf ip) (ip.parse env) := by
  intro ip
  cases ip with
  | codeSpan => exact codeSpan_contract X W Z env
  | link => exact link_contract_nobracket X W Z env hnb
  | autoLink => exact autoLink_contract X W Z env
  | rawHTML => exact rawHTML_contract X W Z env
  | emphasis => exact emphasis_contract X W Z env

end GM.Proof.InlinesTotal
