/-
  GM.Proof.ConvertHIds — the invariant of the AutoHeadingID state layer (`HInv`) and the two facts the driver simulation
  (GM.Proof.ConvertHSim) needs about `bpCloseH`:
    * option off: `bpCloseH false` IS `bpClose` (strictly: same outcome, `HS` untouched);
    * option on: `bpCloseH true` behaves like `bpClose` on `St`, keeps `HInv`, and when it panics where `bpClose` does not,
      the panic is `Segment.Value`'s in generateAutoHeadingID — never fuel exhaustion (`Generate`'s probing loop always
      finds a free id: GM.Props.C15.generate_terminates).
-/
import GM.Proof.ConvertHSim
import GM.Proof.Ids

namespace GM.ConvertH
open GM GM.Text GM.Blocks GM.Convert

/-- the attribute list `generateAutoHeadingID` leaves on a node -/
def idAttrs (v : Bytes) : List Attr.PAttr := [(Attr.nameId, Attr.Val.bytes v)]

/-! ### the id table as a function of the operations on it -/

/-- the table after one operation -/
def stepTbl (used : Ids.Tbl) : Ids.Op → Ids.Tbl
  | .put v => Ids.put used v
  | .gen v hd => match Ids.generate used v hd with
    | some (_, t) => t
    | none => used

/-- the table after a sequence of operations -/
def tblOf (used : Ids.Tbl) (ops : List Ids.Op) : Ids.Tbl := ops.foldl stepTbl used

theorem tblOf_snoc (used : Ids.Tbl) (ops : List Ids.Op) (op : Ids.Op) :
    tblOf used (ops ++ [op]) = stepTbl (tblOf used ops) op := by
  simp [tblOf, List.foldl_append]

theorem run_snoc_put : ∀ (ops : List Ids.Op) (used : Ids.Tbl) (v : Bytes), Ids.run used (ops ++ [.put v]) = Ids.run used ops
  | [], used, v => by simp [Ids.run]
  | .put w :: ops, used, v => by simp only [List.cons_append, Ids.run]; exact run_snoc_put ops _ v
  | .gen w hd :: ops, used, v => by
    simp only [List.cons_append, Ids.run]
    cases Ids.generate used w hd with
    | none => rfl
    | some p => simp only [run_snoc_put ops p.2 v]

theorem run_snoc_gen : ∀ (ops : List Ids.Op) (used : Ids.Tbl) (v : Bytes) (hd : Bool) (ids : List Bytes) (id : Bytes) (t : Ids.Tbl),
    Ids.run used ops = some ids → Ids.generate (tblOf used ops) v hd = some (id, t) →
    Ids.run used (ops ++ [.gen v hd]) = some (ids ++ [id])
  | [], used, v, hd, ids, id, t, h1, h2 => by
    simp only [Ids.run, Option.some.injEq] at h1
    subst h1
    simp only [tblOf, List.foldl] at h2
    simp [Ids.run, h2]
  | .put w :: ops, used, v, hd, ids, id, t, h1, h2 => by
    simp only [List.cons_append, Ids.run] at h1 ⊢
    exact run_snoc_gen ops _ v hd ids id t h1 (by simpa [tblOf, stepTbl] using h2)
  | .gen w hw :: ops, used, v, hd, ids, id, t, h1, h2 => by
    simp only [List.cons_append, Ids.run] at h1 ⊢
    cases hg : Ids.generate used w hw with
    | none => rw [hg] at h1; cases h1
    | some p =>
      obtain ⟨id0, used'⟩ := p
      rw [hg] at h1
      simp only at h1 ⊢
      cases hr : Ids.run used' ops with
      | none => rw [hr] at h1; cases h1
      | some ids' =>
        rw [hr] at h1
        simp only [Option.map, Option.some.injEq] at h1
        subst h1
        have h2' : Ids.generate (tblOf used' ops) v hd = some (id, t) := by
          simpa [tblOf, stepTbl, hg] using h2
        rw [run_snoc_gen ops used' v hd ids' id t hr h2']
        rfl

/-- invariant of the second state layer -/
structure HInv (h : HS) : Prop where
  /-- every node with attributes has exactly one, `id`, a non-empty byte string that is in the id table -/
  shape : ∀ e ∈ h.attrs, ∃ v, e.2 = idAttrs v ∧ v ≠ [] ∧ v ∈ h.ids
  /-- one entry per node, and different nodes have different ids -/
  pw : h.attrs.Pairwise (fun a b => a.1 ≠ b.1 ∧ a.2 ≠ b.2)
  /-- every attribute was put there by a `Generate` call for that node, with the id it returned -/
  fromGen : ∀ e ∈ h.attrs, ∃ g ∈ h.gens, g.node = e.1 ∧ e.2 = idAttrs g.id
  /-- every `Generate` call for a node left its id on the node, for good -/
  genKept : ∀ g ∈ h.gens, nodeAttrs h g.node = some (idAttrs g.id)
  /-- the id table is the one the logged operations build from the empty table (`NewContext`) -/
  tbl : h.ids = tblOf [] h.ops
  /-- replaying the logged operations on an empty table (GM.Ids.run, the function GM.Props.C15 speaks about) returns
      the logged ids, in order -/
  run : Ids.run [] h.ops = some (h.gens.map (·.id))
  /-- a logged id is what `Generate` returned for the logged text on some table -/
  genFrom : ∀ g ∈ h.gens, ∃ used tbl, Ids.generate used g.text true = some (g.id, tbl)
  /-- a logged `Generate` call is logged with its text, in the same order -/
  opsGens : h.ops.filterMap (fun op => match op with | .gen v _ => some v | .put _ => none) = h.gens.map (·.text)

theorem hinv_init : HInv {} where
  shape := fun _ h => by cases h
  pw := List.Pairwise.nil
  fromGen := fun _ h => by cases h
  genKept := fun _ h => by cases h
  tbl := rfl
  run := rfl
  genFrom := fun _ h => by cases h
  opsGens := rfl

/-! ### the state primitives -/

theorem getH_apply (h : HS) (s : St) : getH h s = .ok ((h, h), s) := rfl
theorem setH_apply (h' h : HS) (s : St) : setH h' h s = .ok (((), h'), s) := rfl
theorem mh_pure_apply {α} (a : α) (h : HS) (s : St) : (pure a : MH α) h s = .ok ((a, h), s) := rfl
theorem mh_throw_apply {α} (e : Panic) (h : HS) (s : St) : (throw e : MH α) h s = .error e := rfl

/-! ### lookups -/

theorem lookup_mem {α} : ∀ (l : List (Nat × α)) (k : Nat) (v : α), l.lookup k = some v → (k, v) ∈ l
  | [], _, _, h => by cases h
  | (k', v') :: rest, k, v, h => by
    simp only [List.lookup] at h
    split at h
    · rename_i he
      have : k = k' := by simpa using he
      cases h; subst this; exact List.mem_cons_self ..
    · exact List.mem_cons_of_mem _ (lookup_mem rest k v h)

theorem lookup_none_not_key {α} : ∀ (l : List (Nat × α)) (k : Nat), l.lookup k = none → ∀ e ∈ l, e.1 ≠ k
  | [], _, _, _, h => by cases h
  | (k', v') :: rest, k, h, e, he => by
    simp only [List.lookup] at h
    split at h
    · cases h
    · rename_i hne
      rcases List.mem_cons.1 he with rfl | he
      · intro hk; simp only at hk; subst hk; simp at hne
      · exact lookup_none_not_key rest k h e he

theorem lookup_of_pairwise {α} {R : α → α → Prop} : ∀ (l : List (Nat × α)) (k : Nat) (v : α),
    l.Pairwise (fun a b => a.1 ≠ b.1 ∧ R a.2 b.2) → (k, v) ∈ l → l.lookup k = some v
  | [], _, _, _, h => by cases h
  | (k', v') :: rest, k, v, hp, hm => by
    rw [List.pairwise_cons] at hp
    simp only [List.lookup]
    rcases List.mem_cons.1 hm with he | he
    · cases he; simp
    · have := (hp.1 _ he).1
      have hne : (k == k') = false := by
        simp only [beq_eq_false_iff_ne, ne_eq]
        intro e; exact this e.symm
      simp only [hne]
      exact lookup_of_pairwise rest k v hp.2 he

theorem attrLookup_idAttrs (v : Bytes) : attrLookup (idAttrs v) Attr.nameId = some (.bytes v) := by
  simp [attrLookup, idAttrs, List.find?]

theorem setNodeAttr_fresh : ∀ (l : List (Nat × List Attr.PAttr)) (node : Nat) (a : Attr.PAttr),
    (∀ e ∈ l, e.1 ≠ node) → setNodeAttr l node a = l ++ [(node, [a])]
  | [], _, _, _ => by simp [setNodeAttr, Attr.setAttribute]
  | (n, as) :: rest, node, a, h => by
    have hn : (n == node) = false := by
      have := h (n, as) (List.mem_cons_self ..)
      simpa using this
    simp only [setNodeAttr, hn, Bool.false_eq_true, if_false, List.cons_append]
    rw [setNodeAttr_fresh rest node a (fun e he => h e (List.mem_cons_of_mem _ he))]

/-! ### `Segment.Value` never answers fuel exhaustion -/

theorem sliceB_noLoop (src : Bytes) (a b : Int) (e : Panic) (h : sliceB src a b = .error e) : e ≠ .loop := by
  unfold sliceB at h
  split at h
  · cases h
  · cases h; decide

theorem value_noLoop (seg : Segment) (src : Bytes) (e : Panic) (h : seg.value src = .error e) : e ≠ .loop := by
  unfold Segment.value at h
  split at h
  · cases hs : sliceB src seg.start seg.stop with
    | error x =>
      rw [hs] at h; simp only [bind, Except.bind] at h; cases h
      exact sliceB_noLoop _ _ _ _ hs
    | ok r =>
      rw [hs] at h; simp only [bind, Except.bind] at h
      split at h <;> cases h
  · simp only [bind, Except.bind, throw, throwThe, MonadExceptOf.throw] at h
    split at h
    · cases h; decide
    · simp only [pure, Except.pure] at h
      split at h
      · cases h; decide
      · cases hs : sliceB src seg.start seg.stop with
        | error x =>
          rw [hs] at h; simp only at h; cases h
          exact sliceB_noLoop _ _ _ _ hs
        | ok r =>
          rw [hs] at h; simp only at h
          split at h <;> cases h

/-! ### the option's code in `Close` -/

/-- outcome of the option's code: `St` untouched, invariant kept; a panic is not fuel exhaustion -/
def HookPost (s : St) (x : Except Panic ((Unit × HS) × St)) : Prop :=
  match x with
  | .ok ((_, h'), s') => s' = s ∧ HInv h'
  | .error e => e ≠ Panic.loop

theorem hinv_put (h : HS) (hh : HInv h) (v : Bytes) :
    HInv { h with ids := Ids.put h.ids v, ops := h.ops ++ [.put v] } where
  shape := fun e he => by
    obtain ⟨w, h1, h2, h3⟩ := hh.shape e he
    exact ⟨w, h1, h2, List.mem_cons_of_mem _ h3⟩
  pw := hh.pw
  fromGen := hh.fromGen
  genKept := hh.genKept
  tbl := by simp only [tblOf_snoc, stepTbl, ← hh.tbl]
  run := by simp only [run_snoc_put]; exact hh.run
  genFrom := hh.genFrom
  opsGens := by simp only [List.filterMap_append, List.filterMap, List.append_nil]; exact hh.opsGens

theorem hinv_gen (h : HS) (hh : HInv h) (node : Nat) (line id : Bytes) (tbl : Ids.Tbl)
    (hno : nodeAttrs h node = none) (hg : Ids.generate h.ids line true = some (id, tbl)) :
    HInv { ids := tbl, attrs := setNodeAttr h.attrs node (Attr.nameId, .bytes id),
           ops := h.ops ++ [.gen line true], gens := h.gens ++ [{ node := node, text := line, id := id }] } := by
  obtain ⟨hfresh, htbl, hne⟩ := GM.Proof.Ids.generate_spec hg
  subst htbl
  have hkeys : ∀ e ∈ h.attrs, e.1 ≠ node := lookup_none_not_key h.attrs node hno
  have hset := setNodeAttr_fresh h.attrs node (Attr.nameId, .bytes id) hkeys
  have hpw : (h.attrs ++ [(node, idAttrs id)]).Pairwise (fun a b => a.1 ≠ b.1 ∧ a.2 ≠ b.2) := by
    rw [List.pairwise_append]
    refine ⟨hh.pw, List.pairwise_singleton _ _, ?_⟩
    intro a ha b hb
    rw [List.mem_singleton] at hb
    subst hb
    refine ⟨hkeys a ha, ?_⟩
    obtain ⟨w, h1, _, h3⟩ := hh.shape a ha
    rw [h1]
    intro heq
    simp only [idAttrs, List.cons.injEq, Prod.mk.injEq, Attr.Val.bytes.injEq, and_true, true_and] at heq
    subst heq
    exact hfresh h3
  constructor
  · intro e he
    simp only [hset] at he
    rcases List.mem_append.1 he with he | he
    · obtain ⟨w, h1, h2, h3⟩ := hh.shape e he
      exact ⟨w, h1, h2, List.mem_cons_of_mem _ h3⟩
    · rw [List.mem_singleton] at he
      subst he
      exact ⟨id, rfl, hne, List.mem_cons_self ..⟩
  · simp only [hset]; exact hpw
  · intro e he
    simp only [hset] at he
    rcases List.mem_append.1 he with he | he
    · obtain ⟨g, hg1, hg2, hg3⟩ := hh.fromGen e he
      exact ⟨g, List.mem_append_left _ hg1, hg2, hg3⟩
    · rw [List.mem_singleton] at he
      subst he
      exact ⟨_, List.mem_append_right _ (List.mem_singleton.2 rfl), rfl, rfl⟩
  · intro g hgm
    simp only [nodeAttrs, hset]
    apply lookup_of_pairwise (R := fun a b => a ≠ b) _ _ _ hpw
    rcases List.mem_append.1 hgm with hgm | hgm
    · exact List.mem_append_left _ (lookup_mem _ _ _ (hh.genKept g hgm))
    · rw [List.mem_singleton] at hgm
      subst hgm
      exact List.mem_append_right _ (List.mem_singleton.2 rfl)
  · simp only [tblOf_snoc, stepTbl, ← hh.tbl, hg]
  · simp only [List.map_append, List.map]
    exact run_snoc_gen h.ops [] line true _ id _ hh.run (by rw [← hh.tbl]; exact hg)
  · intro g hgm
    rcases List.mem_append.1 hgm with hgm | hgm
    · exact hh.genFrom g hgm
    · rw [List.mem_singleton] at hgm
      subst hgm
      exact ⟨h.ids, _, hg⟩
  · simp only [List.filterMap_append, List.filterMap, List.map_append, List.map, hh.opsGens]

theorem generateAutoHeadingID_post (node : Nat) (h : HS) (s : St) (hh : HInv h) (hno : nodeAttrs h node = none) :
    HookPost s (generateAutoHeadingID node h s) := by
  unfold generateAutoHeadingID
  rw [mh_bind_apply, up_apply]
  have e1 : getNode node s = .ok (s.nodes.getD node default, s) := rfl
  rw [e1]
  simp only
  -- the text
  have key : ∀ (line : Bytes), HookPost s ((do
      let h ← getH
      match Ids.generate h.ids line true with
      | none => throw Panic.loop
      | some (id, tbl) =>
        setH { ids := tbl, attrs := setNodeAttr h.attrs node (Attr.nameId, .bytes id),
               ops := h.ops ++ [.gen line true], gens := h.gens ++ [{ node := node, text := line, id := id }] } : MH Unit) h s) := by
    intro line
    rw [mh_bind_apply, getH_apply]
    simp only
    obtain ⟨id, hg⟩ := GM.Proof.Ids.generate_isSome h.ids line true
    rw [hg]
    simp only [setH_apply]
    exact ⟨rfl, hinv_gen h hh node line id _ hno hg⟩
  cases hl : (s.nodes.getD node default).lines.getLast? with
  | none =>
    simp only
    rw [mh_bind_apply, mh_pure_apply]
    exact key []
  | some seg =>
    simp only
    rw [mh_bind_apply, up_apply]
    have e2 : source s = .ok (s.r.source, s) := rfl
    rw [e2]
    simp only
    rw [mh_bind_apply, up_apply]
    cases hv : seg.value s.r.source with
    | error e =>
      simp only [liftE, Except.map]
      exact value_noLoop _ _ _ hv
    | ok line =>
      simp only [liftE, Except.map]
      exact key line

theorem autoIdClose_post (node : Nat) (h : HS) (s : St) (hh : HInv h) : HookPost s (autoIdClose node h s) := by
  unfold autoIdClose
  rw [mh_bind_apply, getH_apply]
  simp only
  cases hn : nodeAttrs h node with
  | none =>
    simp only [Option.getD, attrLookup, List.find?]
    exact generateAutoHeadingID_post node h s hh hn
  | some as =>
    obtain ⟨v, h1, _, _⟩ := hh.shape (node, as) (lookup_mem _ _ _ hn)
    simp only at h1
    subst h1
    simp only [Option.getD, attrLookup_idAttrs, setH_apply]
    exact ⟨rfl, hinv_put h hh v⟩

/-! ### the two hook facts -/

theorem hookOK_off (IH : HS → Prop) : HookOK true IH false := by
  intro bp node
  constructor
  intro h s hh
  unfold bpCloseH
  rw [mh_bind_apply, up_apply]
  cases bpClose bp node s with
  | error e => exact Or.inl rfl
  | ok p => exact ⟨hh, rfl⟩

theorem hookOK_on : HookOK false HInv true := by
  intro bp node
  constructor
  intro h s hh
  unfold bpCloseH
  rw [mh_bind_apply, up_apply]
  cases hb : bpClose bp node s with
  | error e => exact Or.inl rfl
  | ok p =>
    obtain ⟨⟨⟩, s'⟩ := p
    simp only [Bool.true_and]
    cases hp : BP.isHeadingParser bp with
    | false => exact ⟨hh, rfl⟩
    | true =>
      simp only [if_true]
      have := autoIdClose_post node h s' hh
      unfold HookPost at this
      cases hc : autoIdClose node h s' with
      | error e => rw [hc] at this; exact Or.inr ⟨rfl, this⟩
      | ok q =>
        obtain ⟨⟨⟨⟩, h'⟩, s''⟩ := q
        rw [hc] at this
        obtain ⟨e1, e2⟩ := this
        subst e1
        exact ⟨e2, rfl⟩

end GM.ConvertH
