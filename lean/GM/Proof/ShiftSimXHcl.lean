/-
  GM.Proof.ShiftSimXHcl — the six parsers of `Cov6` (thematic, code, atx, blockquote, html, paragraph):
  only the block quote parser answers `hasChildren`; a parser that answers Close leaves the reader of run A on
  its line (`HasLine`).
-/
import GM.Proof.ShiftSimXQuoteHtml
import GM.Proof.ShiftSimXCode
import GM.Proof.ShiftSimXKeys
import GM.Proof.BlocksLeaf

namespace GM.Blocks.Xs
open GM GM.Text GM.Spec GM.Proof.Reader GM.Blocks

/-! ### (H1), (H2): the five leaf parsers never answer `hasChildren` -/

theorem open_children_container (bp : BP) (h : Cov6 bp) (parent : Nat) (s s' : St) (x : Option Nat × PState)
    (e : bpOpen bp parent s = .ok (x, s')) (hc : x.2.hasChildren = true) : bp = .blockquote := by
  have hk := hasChildren_only_containers bp parent s s' x e hc
  cases bp <;> simp only [BP.isContainer] at hk <;> first | rfl | cases hk | skip
  · exact absurd rfl h.1
  · exact absurd rfl h.2.1

theorem xh_paragraphContinue_leaf (n : Nat) : Ret (paragraphContinue n) (fun st => st.hasChildren = false) := by
  unfold paragraphContinue; ret
theorem xh_codeContinue_leaf (n : Nat) : Ret (codeContinue n) (fun st => st.hasChildren = false) := by
  unfold codeContinue; ret
theorem xh_htmlContinue_leaf (n : Nat) : Ret (htmlContinue n) (fun st => st.hasChildren = false) := by
  unfold htmlContinue; ret

theorem continue_children_container (bp : BP) (h : Cov6 bp) (node : Nat) (s s' : St) (st : PState)
    (e : bpContinue bp node s = .ok (st, s')) (hc : st.hasChildren = true) : bp = .blockquote := by
  cases bp <;> unfold bpContinue at e
  · exact absurd rfl h.2.2.1
  · cases e; cases hc
  · exact absurd rfl h.1
  · exact absurd rfl h.2.1
  · have := (xh_codeContinue_leaf node).h s st s' e; rw [this] at hc; cases hc
  · cases e; cases hc
  · exact absurd rfl h.2.2.2
  · rfl
  · have := (xh_htmlContinue_leaf node).h s st s' e; rw [this] at hc; cases hc
  · have := (xh_paragraphContinue_leaf node).h s st s' e; rw [this] at hc; cases hc

/-! ### a partial-correctness calculus -/

/-- every normal end of `x` satisfies `P` -/
def xh_Post {α : Type} (P : α → St → Prop) (x : Except Panic (α × St)) : Prop :=
  ∀ a s', x = .ok (a, s') → P a s'

theorem xh_Post.pure {α} {P : α → St → Prop} {a : α} {s : St} (h : P a s) : xh_Post P ((Pure.pure a : M α) s) := by
  intro a' s' e; cases e; exact h

theorem xh_Post.bind {α β} {P : α → St → Prop} {Q : β → St → Prop} {m : M α} {f : α → M β} {s : St}
    (hm : xh_Post P (m s)) (hf : ∀ a s', P a s' → xh_Post Q (f a s')) : xh_Post Q ((m >>= f) s) := by
  intro b s2 e
  simp only [Bind.bind, StateT.bind] at e
  cases hms : m s with
  | error er => rw [hms] at e; simp [Except.bind] at e
  | ok p =>
    rw [hms] at e
    simp only [Except.bind] at e
    exact hf p.1 p.2 (hm p.1 p.2 hms) b s2 e

theorem xh_Post.of_okl {α} {P : α → St → Prop} {x : Except Panic (α × St)} (h : OKL P x) : xh_Post P x :=
  fun _ _ e => qh_okl_run h e

theorem xh_Post.of_ret {α} {Q : α → Prop} {m : M α} (h : Ret m Q) (s : St) : xh_Post (fun a _ => Q a) (m s) :=
  fun a s' e => h.h s a s' e

theorem xh_Post.mono {α} {P Q : α → St → Prop} {x : Except Panic (α × St)} (h : xh_Post P x)
    (hpq : ∀ a s, P a s → Q a s) : xh_Post Q x := fun a s' e => hpq a s' (h a s' e)

/-- the property of (H3) -/
def xh_CL (b : Bytes) : PState → St → Prop := fun st s' => st.cont = false → HasLine b s'

theorem xh_cl_of_ret {b : Bytes} {m : M PState} (h : Ret m (fun st => st.cont = true)) (s : St) :
    xh_Post (xh_CL b) (m s) :=
  (xh_Post.of_ret h s).mono (fun a _ ha hf => by rw [ha] at hf; cases hf)

theorem xh_cl_pure {b : Bytes} {st : PState} {s : St} (h : HasLine b s) :
    xh_Post (xh_CL b) ((Pure.pure st : M PState) s) := xh_Post.pure (fun _ => h)

theorem xh_liftE_post {α} (e : Except Panic α) (s : St) : xh_Post (fun _ s' => s' = s) (liftE e s) := by
  intro a s' h
  unfold liftE at h
  cases e with
  | error er => cases h
  | ok v => cases h; rfl

theorem xh_source_post (s : St) : xh_Post (fun _ s' => s' = s) (source s) := by
  intro a s' h; cases h; rfl

theorem xh_getNode_post (id : Nat) (s : St) : xh_Post (fun _ s' => s' = s) (getNode id s) := by
  intro a s' h; cases h; rfl

theorem xh_modNode_post (id : Nat) (f : Node → Node) (s : St) : xh_Post (fun _ s' => s'.r = s.r) (modNode id f s) := by
  intro a s' h
  unfold modNode at h
  cases h; rfl

/-! ### (H3) per parser -/

theorem xh_paragraphContinue_cl (b : Bytes) (node : Nat) (s : St) (hl : HasLine b s) :
    xh_Post (xh_CL b) (paragraphContinue node s) := by
  obtain ⟨c, hc, hp⟩ := hl
  unfold paragraphContinue
  refine xh_Post.bind (xh_Post.of_okl (peekLine_okl hc)) (fun x s1 ⟨hx, r1, hs1, h1⟩ => ?_)
  subst hx hs1
  simp only
  split
  · exact xh_cl_pure ⟨c, h1, hp⟩
  · apply xh_cl_of_ret; ret

theorem xh_codeContinue_cl (b : Bytes) (node : Nat) (s : St) (hl : HasLine b s) :
    xh_Post (xh_CL b) (codeContinue node s) := by
  obtain ⟨c, hc, hp⟩ := hl
  unfold codeContinue
  refine xh_Post.bind (xh_Post.of_okl (peekLine_okl hc)) (fun x s1 ⟨hx, r1, hs1, h1⟩ => ?_)
  subst hx hs1
  simp only
  split
  · apply xh_cl_of_ret; ret
  · refine xh_Post.bind (xh_Post.of_okl (lineOffset_okl (s := { s with r := r1 }) h1)) (fun lo s2 ⟨_, r2, hs2, h2⟩ => ?_)
    subst hs2
    simp only
    split
    · exact xh_cl_pure ⟨c, h2, hp⟩
    · apply xh_cl_of_ret; ret

theorem xh_htmlContinue_cl (b : Bytes) (hnl : b.getLast? = some 10) (node : Nat) (s : St) (hl : HasLine b s) :
    xh_Post (xh_CL b) (htmlContinue node s) := by
  obtain ⟨c, hc0, hp⟩ := hl
  unfold htmlContinue
  refine xh_Post.bind (xh_getNode_post node s) (fun n s0 hs0 => ?_)
  subst hs0
  refine xh_Post.bind (xh_Post.of_okl (peekLine_okl hc0)) (fun x s1 ⟨hx, r1, hs1, hc⟩ => ?_)
  subst hx hs1
  simp only
  have hn := qh_html_adv_nonneg hc
  have hT : 1 ≤ trimRightSpaceLength ((RCur.view b c).getD []) := qh_view_trimRight_pos b hnl c hp
  have hS : (RCur.seg b c).len = (c.pad : Int) + (lineEnd b c.p : Int) - (c.p : Int) := by
    simp only [RCur.seg, Segment.len]; omega
  have hle0 := lt_lineEnd b hp
  have hw := advN_within b ((RCur.seg b c).len - (trimRightSpaceLength ((RCur.view b c).getD []) : Int)).toNat c hp
    (by omega)
  generalize (RCur.view b c).getD [] = line at hn hT hw ⊢
  generalize RCur.seg b c = segment at hn hS hw ⊢
  have hcl : ∀ v, (if (n.htmlType == 1) = true then type1Close v
      else if (n.htmlType == 2) = true then containsSub (strBytes "-->") v
      else if (n.htmlType == 3) = true then containsSub (strBytes "?>") v
      else if (n.htmlType == 4) = true then containsSub (strBytes ">") v
      else containsSub (strBytes "]]>") v) = qh_htmlCloses n.htmlType v := fun v => rfl
  simp only [hcl]
  have fin : ∀ s2 : St, xh_Post (xh_CL b)
      ((do appendLine node segment
           advance (segment.len - trimRightSpaceLength line)
           pure stContinueNoChildren : M PState) s2) := by
    intro s2; apply xh_cl_of_ret; ret
  have mid : ∀ (cl : Bool) (s2 : St), s2.r = r1 → xh_Post (xh_CL b)
      ((if cl = true then do
            modNode node fun n => { n with closure := segment }
            advance (segment.len - trimRightSpaceLength line)
            pure stClose
          else do
            appendLine node segment
            advance (segment.len - trimRightSpaceLength line)
            pure stContinueNoChildren : M PState) s2) := by
    intro cl s2 hr2
    by_cases hc1 : cl = true
    · rw [if_pos hc1]
      refine xh_Post.bind (xh_modNode_post node _ s2) (fun _ s3 h3 => ?_)
      have h3' : RI b s3.r c := by rw [h3, hr2]; exact hc
      refine xh_Post.bind (xh_Post.of_okl (advance_okl h3' hn)) (fun _ s4 ⟨r4, hs4, h4⟩ => ?_)
      subst hs4
      exact xh_cl_pure ⟨_, h4, hw.2.2.2.2.2⟩
    · rw [if_neg hc1]; exact fin _
  split
  · split
    · refine xh_Post.bind (xh_liftE_post _ _) ?_
      intro l1 s3 hs3
      subst hs3
      refine xh_Post.bind (xh_source_post _) ?_
      intro src s3 hs3
      subst hs3
      refine xh_Post.bind (xh_liftE_post _ _) ?_
      intro v s3 hs3
      subst hs3
      by_cases hc2 : qh_htmlCloses n.htmlType v = true
      · rw [if_pos hc2]; exact xh_cl_pure ⟨c, hc, hp⟩
      · rw [if_neg hc2]; exact mid _ _ rfl
    · exact mid _ _ rfl
  · split
    · split
      · exact xh_cl_pure ⟨c, hc, hp⟩
      · exact fin _
    · exact fin _

theorem xh_blockquoteContinue_any (b : Bytes) (hnl : b.getLast? = some 10) (node : Nat) (s s' : St) (st : PState)
    (hl : HasLine b s) (e : bpContinue .blockquote node s = .ok (st, s')) : HasLine b s' := by
  obtain ⟨c, hc, hp⟩ := hl
  have hokl : OKL (fun _ s' => HasLine b s') (blockquoteContinue node s) := by
    unfold blockquoteContinue
    refine OKL.bind (qh_blockquoteProcess_line hnl hc hp) (fun t s1 h1 => ?_)
    cases t with
    | true =>
      simp only [if_true, pure, StateT.pure, Except.pure]
      exact OKL.ok h1
    | false =>
      simp only [Bool.false_eq_true, if_false, pure, StateT.pure, Except.pure]
      exact OKL.ok h1
  exact qh_okl_run (P := fun _ s' => HasLine b s') hokl e

theorem continue_close_hasLine (b : Bytes) (hnl : b.getLast? = some 10) (bp : BP) (h : Cov6 bp) (node : Nat) (s s' : St)
    (st : PState) (hl : HasLine b s) (e : bpContinue bp node s = .ok (st, s')) (hc : st.cont = false) : HasLine b s' := by
  cases bp
  · exact absurd rfl h.2.2.1
  · unfold bpContinue at e; cases e; exact hl
  · exact absurd rfl h.1
  · exact absurd rfl h.2.1
  · exact xh_codeContinue_cl b node s hl st s' e hc
  · unfold bpContinue at e; cases e; exact hl
  · exact absurd rfl h.2.2.2
  · exact xh_blockquoteContinue_any b hnl node s s' st hl e
  · exact xh_htmlContinue_cl b hnl node s hl st s' e hc
  · exact xh_paragraphContinue_cl b node s hl st s' e hc

/-! ### (H4) the shapes the driver wants -/

theorem strictO6 (b : Bytes) (hnl : b.getLast? = some 10) : ∀ bp, Cov6 bp → ∀ (parent : Nat) (s s' : St)
    (x : Option Nat × PState), HasLine b s → bpOpen bp parent s = .ok (x, s') → x.2.hasChildren = true → HasLine b s' := by
  intro bp h parent s s' x hl e hc
  have := open_children_container bp h parent s s' x e hc
  subst this
  exact blockquoteOpen_hasLine b hnl parent s s' x hl e

theorem strictC6 (b : Bytes) (hnl : b.getLast? = some 10) : ∀ bp, Cov6 bp → ∀ (node : Nat) (s s' : St) (st : PState),
    HasLine b s → bpContinue bp node s = .ok (st, s') → st.cont = true → st.hasChildren = true → HasLine b s' := by
  intro bp h node s s' st hl e hc hk
  have := continue_children_container bp h node s s' st e hk
  subst this
  exact blockquoteContinue_hasLine b hnl node s s' st hl e hc

/-! ### (H5) a leaf parser that continues stops at the latest on the line feed of its line -/

/-- the property of (H5) -/
def xh_KL (b : Bytes) : PState → St → Prop := fun st s' => st.cont = true → HasLine b s'

theorem xh_kl_of_ret {b : Bytes} {m : M PState} (h : Ret m (fun st => st.cont = false)) (s : St) :
    xh_Post (xh_KL b) (m s) :=
  (xh_Post.of_ret h s).mono (fun a _ ha hf => by rw [ha] at hf; cases hf)

theorem xh_kl_pure {b : Bytes} {st : PState} {s : St} (h : HasLine b s) :
    xh_Post (xh_KL b) ((Pure.pure st : M PState) s) := xh_Post.pure (fun _ => h)

theorem xh_appendLine_post (id : Nat) (seg : Segment) (s : St) :
    xh_Post (fun _ s' => s'.r = s.r) (appendLine id seg s) := xh_modNode_post id _ s

theorem xh_position_post (s : St) : xh_Post (fun a s' => a = (s.r.line, s.r.pos) ∧ s' = s) (position s) := by
  intro a s' h; cases h; exact ⟨rfl, rfl⟩

theorem xh_setPosition_post (l : Int) (p : Segment) (s : St) :
    xh_Post (fun _ s' => s' = { s with r := s.r.setPosition l p }) (setPosition l p s) := by
  intro a s' h; cases h; rfl

theorem xh_lineOffset_raw_post (s : St) :
    xh_Post (fun _ s' => ∃ r', s' = { s with r := r' } ∧ r'.source = s.r.source) (lineOffset s) := by
  intro a s' e
  unfold GM.Blocks.lineOffset at e
  cases hl : s.r.lineOffsetOp with
  | error er => rw [hl] at e; cases e
  | ok v =>
    rw [hl] at e
    cases e
    exact ⟨v.2, rfl, code_lineOffsetOp_source hl⟩

theorem xh_preserveLeadingTab_post {b : Bytes} {s : St} {c : RCur} (hc0 : RI b s.r c) (seg : Segment) (ind : Int) :
    xh_Post (fun x s' => (x = seg ∨ x = { seg with padding := 0, start := seg.start - 1 }) ∧ RI b s'.r c)
      (preserveLeadingTab seg ind s) := by
  unfold preserveLeadingTab
  refine xh_Post.bind (xh_Post.of_okl (lineOffset_okl hc0)) ?_
  intro lo s1 ⟨_, r1, hs1, hc⟩
  subst hs1
  refine xh_Post.bind (xh_position_post _) ?_
  intro x s2 ⟨hx, hs2⟩
  subst hx hs2
  simp only
  refine xh_Post.bind (xh_setPosition_post _ _ _) ?_
  intro _ s3 hs3
  subst hs3
  refine xh_Post.bind (xh_lineOffset_raw_post _) ?_
  intro lo2 s4 ⟨r4, hs4, hsrc⟩
  subst hs4
  refine xh_Post.bind (xh_setPosition_post _ _ _) ?_
  intro _ s5 hs5
  subst hs5
  refine xh_Post.pure ⟨?_, ?_⟩
  · split
    · exact .inr rfl
    · exact .inl rfl
  · exact ri_setPosition_back hc (by rw [hsrc]; exact hc.source)

theorem xh_codeTakeLine_post {b : Bytes} {s : St} {c : RCur} (hc : RI b s.r c) (node : Nat) {pos : Int} (hn : 0 ≤ pos)
    (pd : Int) (hk : CodeTakeOK b c pos) : xh_Post (fun _ s' => HasLine b s') (codeTakeLine node pos pd s) := by
  unfold codeTakeLine
  refine xh_Post.bind (xh_Post.of_okl (advanceAndSetPadding_okl hc hn pd)) ?_
  intro _ s1 ⟨r1, hs1, hr1⟩
  subst hs1
  have hc1 : (advPadCur b pos pd c).p < b.length := by
    obtain ⟨hp, hlt⟩ := hk
    obtain ⟨_, _, _, _, _, i6⟩ := advN_within b pos.toNat c hp hlt
    unfold advPadCur
    simp only
    split <;> exact i6
  generalize advPadCur b pos pd c = c1 at hr1 hc1
  refine xh_Post.bind (xh_Post.of_okl (peekLine_okl (s := { s with r := r1 }) hr1)) ?_
  intro x s2 ⟨hx, r2, hs2, hr2⟩
  subst hx hs2
  simp only
  have hl := lt_lineEnd b hc1
  have tail : ∀ (x : Segment) (s3 : St), (x = RCur.seg b c1 ∨
      (c1.pad ≠ 0 ∧ x = { RCur.seg b c1 with padding := 0, start := (RCur.seg b c1).start - 1 })) →
      RI b s3.r c1 → xh_Post (fun _ s' => HasLine b s')
        ((do appendLine node { x with forceNewline := true }
             advance (({ x with forceNewline := true } : Segment).len - 1) : M Unit) s3) := by
    intro x s3 hx hc3
    refine xh_Post.bind (xh_appendLine_post node _ s3) ?_
    intro _ s4 hs4
    have hc4 : RI b s4.r c1 := by rw [hs4]; exact hc3
    have h0 : 0 ≤ ({ x with forceNewline := true } : Segment).len - 1 := by
      rcases hx with e | ⟨_, e⟩ <;> rw [e] <;> simp only [Segment.len, RCur.seg] <;> omega
    refine (xh_Post.of_okl (advance_okl hc4 h0)).mono ?_
    intro _ s5 ⟨r5, hs5, hr5⟩
    subst hs5
    refine ⟨_, hr5, (advN_within b _ c1 hc1 ?_).2.2.2.2.2⟩
    rcases hx with e | ⟨_, e⟩ <;> rw [e] <;> simp only [Segment.len, RCur.seg] <;> omega
  by_cases hpd : ((RCur.seg b c1).padding != 0) = true
  · rw [if_pos hpd]
    refine xh_Post.bind (xh_preserveLeadingTab_post (s := { s with r := r2 }) hr2 _ 0) ?_
    intro x s3 ⟨hx, hc3⟩
    have hpad : c1.pad ≠ 0 := by
      intro e0; apply (bne_iff_ne.mp hpd); simp [RCur.seg, e0]
    exact tail x s3 (hx.imp id (fun e => ⟨hpad, e⟩)) hc3
  · rw [if_neg hpd]
    exact tail _ _ (.inl rfl) hr2

theorem xh_paragraphContinue_kl (b : Bytes) (node : Nat) (s : St) (hl : HasLine b s) :
    xh_Post (xh_KL b) (paragraphContinue node s) := by
  obtain ⟨c, hc, hp⟩ := hl
  unfold paragraphContinue
  refine xh_Post.bind (xh_Post.of_okl (peekLine_okl hc)) (fun x s1 ⟨hx, r1, hs1, h1⟩ => ?_)
  subst hx hs1
  simp only
  have hle := lt_lineEnd b hp
  split
  · apply xh_kl_of_ret; ret
  · refine xh_Post.bind (xh_appendLine_post node _ _) ?_
    intro _ s2 hs2
    have h2 : RI b s2.r c := by rw [hs2]; exact h1
    have h0 : 0 ≤ (RCur.seg b c).len - 1 := by simp only [Segment.len, RCur.seg]; omega
    refine xh_Post.bind (xh_Post.of_okl (advance_okl h2 h0)) ?_
    intro _ s3 ⟨r3, hs3, h3⟩
    subst hs3
    refine xh_kl_pure ⟨_, h3, (advN_within b _ c hp ?_).2.2.2.2.2⟩
    simp only [Segment.len, RCur.seg]; omega

theorem xh_codeContinue_kl (b : Bytes) (node : Nat) (s : St) (hl : HasLine b s) :
    xh_Post (xh_KL b) (codeContinue node s) := by
  obtain ⟨c, hc, hp⟩ := hl
  unfold codeContinue
  refine xh_Post.bind (xh_Post.of_okl (peekLine_okl hc)) (fun x s1 ⟨hx, r1, hs1, h1⟩ => ?_)
  subst hx hs1
  simp only
  by_cases hbl : isBlank ((RCur.view b c).getD []) = true
  · rw [if_pos hbl]
    refine xh_Post.bind (xh_source_post _) ?_
    intro src s3 hs3
    subst hs3
    refine xh_Post.bind (xh_liftE_post _ _) ?_
    intro sg s3 hs3
    subst hs3
    refine xh_Post.bind (xh_appendLine_post node _ _) ?_
    intro _ s4 hs4
    exact xh_kl_pure ⟨c, by rw [hs4]; exact h1, hp⟩
  · rw [if_neg hbl]
    refine xh_Post.bind (xh_Post.of_okl (lineOffset_okl (s := { s with r := r1 }) h1)) (fun lo s2 ⟨_, r2, hs2, h2⟩ => ?_)
    subst hs2
    have hvl := view_getD_length_nat b c hp
    generalize (RCur.view b c).getD [] = line at hvl hbl ⊢
    have hbd := indentPosition_bounds line lo
    generalize indentPosition line lo 4 = pp at hbd ⊢
    obtain ⟨pos, pd⟩ := pp
    simp only at hbd ⊢
    by_cases hneg : pos < 0
    · rw [if_pos hneg]; apply xh_kl_of_ret; ret
    · rw [if_neg hneg]
      have hnb : isBlank line = false := by
        cases hh : isBlank line with
        | true => exact absurd hh hbl
        | false => rfl
      obtain ⟨_, _, hb3, _⟩ := hbd (by omega)
      have hlt := hb3 hnb
      have hok : CodeTakeOK b c pos := ⟨hp, by omega⟩
      refine xh_Post.bind (xh_codeTakeLine_post (s := { s with r := r2 }) h2 node (by omega) pd hok) ?_
      intro _ s4 h4
      exact xh_kl_pure h4

theorem xh_htmlContinue_kl (b : Bytes) (hnl : b.getLast? = some 10) (node : Nat) (s : St) (hl : HasLine b s) :
    xh_Post (xh_KL b) (htmlContinue node s) := by
  obtain ⟨c, hc0, hp⟩ := hl
  unfold htmlContinue
  refine xh_Post.bind (xh_getNode_post node s) (fun n s0 hs0 => ?_)
  subst hs0
  refine xh_Post.bind (xh_Post.of_okl (peekLine_okl hc0)) (fun x s1 ⟨hx, r1, hs1, hc⟩ => ?_)
  subst hx hs1
  simp only
  have hn := qh_html_adv_nonneg hc
  have hT : 1 ≤ trimRightSpaceLength ((RCur.view b c).getD []) := qh_view_trimRight_pos b hnl c hp
  have hS : (RCur.seg b c).len = (c.pad : Int) + (lineEnd b c.p : Int) - (c.p : Int) := by
    simp only [RCur.seg, Segment.len]; omega
  have hle0 := lt_lineEnd b hp
  have hw := advN_within b ((RCur.seg b c).len - (trimRightSpaceLength ((RCur.view b c).getD []) : Int)).toNat c hp
    (by omega)
  generalize (RCur.view b c).getD [] = line at hn hT hw ⊢
  generalize RCur.seg b c = segment at hn hS hw ⊢
  have hcl : ∀ v, (if (n.htmlType == 1) = true then type1Close v
      else if (n.htmlType == 2) = true then containsSub (strBytes "-->") v
      else if (n.htmlType == 3) = true then containsSub (strBytes "?>") v
      else if (n.htmlType == 4) = true then containsSub (strBytes ">") v
      else containsSub (strBytes "]]>") v) = qh_htmlCloses n.htmlType v := fun v => rfl
  simp only [hcl]
  have fin : ∀ s2 : St, s2.r = r1 → xh_Post (xh_KL b)
      ((do appendLine node segment
           advance (segment.len - trimRightSpaceLength line)
           pure stContinueNoChildren : M PState) s2) := by
    intro s2 hr2
    refine xh_Post.bind (xh_appendLine_post node _ s2) (fun _ s3 h3 => ?_)
    have h3' : RI b s3.r c := by rw [h3, hr2]; exact hc
    refine xh_Post.bind (xh_Post.of_okl (advance_okl h3' hn)) (fun _ s4 ⟨r4, hs4, h4⟩ => ?_)
    subst hs4
    exact xh_kl_pure ⟨_, h4, hw.2.2.2.2.2⟩
  have mid : ∀ (cl : Bool) (s2 : St), s2.r = r1 → xh_Post (xh_KL b)
      ((if cl = true then do
            modNode node fun n => { n with closure := segment }
            advance (segment.len - trimRightSpaceLength line)
            pure stClose
          else do
            appendLine node segment
            advance (segment.len - trimRightSpaceLength line)
            pure stContinueNoChildren : M PState) s2) := by
    intro cl s2 hr2
    by_cases hc1 : cl = true
    · rw [if_pos hc1]; apply xh_kl_of_ret; ret
    · rw [if_neg hc1]; exact fin _ hr2
  split
  · split
    · refine xh_Post.bind (xh_liftE_post _ _) ?_
      intro l1 s3 hs3
      subst hs3
      refine xh_Post.bind (xh_source_post _) ?_
      intro src s3 hs3
      subst hs3
      refine xh_Post.bind (xh_liftE_post _ _) ?_
      intro v s3 hs3
      subst hs3
      by_cases hc2 : qh_htmlCloses n.htmlType v = true
      · rw [if_pos hc2]; apply xh_kl_of_ret; ret
      · rw [if_neg hc2]; exact mid _ _ rfl
    · exact mid _ _ rfl
  · split
    · split
      · apply xh_kl_of_ret; ret
      · exact fin _ rfl
    · exact fin _ rfl

theorem continue_leaf_hasLine (b : Bytes) (hnl : b.getLast? = some 10) (bp : BP) (h : Cov6 bp) (node : Nat) (s s' : St)
    (st : PState) (hl : HasLine b s) (e : bpContinue bp node s = .ok (st, s')) (hc : st.cont = true)
    (_hn : st.hasChildren = false) : HasLine b s' := by
  cases bp
  · exact absurd rfl h.2.2.1
  · unfold bpContinue at e; cases e; exact hl
  · exact absurd rfl h.1
  · exact absurd rfl h.2.1
  · exact xh_codeContinue_kl b node s hl st s' e hc
  · unfold bpContinue at e; cases e; exact hl
  · exact absurd rfl h.2.2.2
  · exact xh_blockquoteContinue_any b hnl node s s' st hl e
  · exact xh_htmlContinue_kl b hnl node s hl st s' e hc
  · exact xh_paragraphContinue_kl b node s hl st s' e hc

end GM.Blocks.Xs
