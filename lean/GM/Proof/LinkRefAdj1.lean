/-
  GM.Proof.LinkRefAdj1 — cursor-level facts for the link reference definition scanner on well-formed lines WITH ANY
  paddings (the block cursor `BCur` of GM.Spec.Cursor, lifted to the block reader by the simulation of
  GM.Proof.BlockReader):
    * `Advance` never moves back (line number, byte offset), stays on a line of the block (`ln < k`) when it started on one,
      and passes a real byte when the padding is used up;
    * the invariant `J` (well-formed cursor, `PadOK`, at or behind a reference line / offset) is kept by SkipSpaces and
      FindClosure;
    * FindClosure: a found closer leaves the cursor on a line of the block; every segment handed out starts at or behind a
      lower bound and is not inverted (what `BlockReader.Value` needs not to panic);
    * the LANDING lemma of SkipSpaces: behind it the line is exhausted or starts with a byte that is not white space; and
      when no line of the block is blank, it stops on the line where the blank rest of a line ends.
-/
import GM.Proof.LinkRefPad

namespace GM.Proof.LinkRefAdj
open GM GM.Text GM.Spec GM.Inl GM.LinkRef GM.Proof.Reader GM.Proof.InlinesReader GM.Proof.BlockReaderFuel
open GM.Proof.LinkRefPad

variable {src : Bytes} {segs : List Segment}

/-- the cursor at the head of line `j` (what AdvanceLine and a line-crossing Advance produce) -/
def lineCur (segs : List Segment) (j : Int) : BCur := ⟨j, (BCur.segOf segs j).start, (BCur.segOf segs j).padding⟩

/-! ### one byte forward -/

theorem adv1_ln (c : BCur) :
    c.ln ≤ (BCur.adv1 segs c).ln ∧ (c.ln < BCur.k segs → (BCur.adv1 segs c).ln < BCur.k segs) := by
  unfold BCur.adv1
  split
  · simp
  · split
    · simp
    · rename_i h; simp only; constructor <;> omega

theorem advN_ln (n : Nat) : ∀ (c : BCur),
    c.ln ≤ (BCur.advN segs n c).ln ∧ (c.ln < BCur.k segs → (BCur.advN segs n c).ln < BCur.k segs) := by
  induction n with
  | zero => intro c; simp [BCur.advN]
  | succ n ih =>
    intro c
    have h1 := adv1_ln (segs := segs) c
    have h2 := ih (BCur.adv1 segs c)
    simp only [BCur.advN]
    exact ⟨by omega, fun h => h2.2 (h1.2 h)⟩

theorem adv1_p (F : SegFacts src segs) {c : BCur} (w : BWF segs c) (hl : BCur.live segs c = true) :
    c.p ≤ (BCur.adv1 segs c).p ∧ (c.pad = 0 → c.p < (BCur.adv1 segs c).p) := by
  simp only [BCur.live, Bool.and_eq_true, decide_eq_true_eq] at hl
  have i1 := w.inLine hl.1
  unfold BCur.adv1
  split
  · rename_i hp; exact ⟨Int.le_refl _, fun h => absurd h hp⟩
  · split
    · simp only; exact ⟨by omega, fun _ => by omega⟩
    · rename_i h
      have hm := F.mono c.ln (c.ln + 1) w.ln0 (by omega) (by omega)
      simp only
      exact ⟨by omega, fun _ => by omega⟩

theorem advN_p (F : SegFacts src segs) (n : Nat) : ∀ {c : BCur}, BWF segs c → (n : Int) ≤ BCur.remaining segs c →
    c.p ≤ (BCur.advN segs n c).p ∧ (c.pad = 0 → 1 ≤ n → c.p < (BCur.advN segs n c).p) := by
  induction n with
  | zero => intro c _ _; simp [BCur.advN]
  | succ n ih =>
    intro c w hn
    have hl : BCur.live segs c = true := rem_nonneg_live (by omega)
    obtain ⟨r1, r2⟩ := rem_adv1 F w hl
    obtain ⟨a1, a2⟩ := adv1_p F w hl
    obtain ⟨b1, _⟩ := ih r2 (by omega)
    simp only [BCur.advN]
    exact ⟨by omega, fun hz _ => by have := a2 hz; omega⟩

/-! ### the invariant carried through the helpers -/

/-- a well-formed cursor with `PadOK`, on or behind line `L0`, at or behind offset `P0` -/
def J (segs : List Segment) (L0 P0 : Int) (c : BCur) : Prop := BWF segs c ∧ PadOK segs c ∧ L0 ≤ c.ln ∧ P0 ≤ c.p

theorem J.mono {L0 P0 L1 P1 : Int} {c : BCur} (h : J segs L1 P1 c) (hl : L0 ≤ L1) (hp : P0 ≤ P1) : J segs L0 P0 c :=
  ⟨h.1, h.2.1, by have := h.2.2.1; omega, by have := h.2.2.2; omega⟩

theorem J_advN (F : SegFacts src segs) {L0 P0 : Int} {c : BCur} (h : J segs L0 P0 c) (n : Nat)
    (hn : (n : Int) ≤ BCur.remaining segs c) : J segs L0 P0 (BCur.advN segs n c) := by
  obtain ⟨w, pd, hl, hp⟩ := h
  obtain ⟨w', _⟩ := bcur_advN_rem F n w hn
  have h1 := (advN_ln (segs := segs) n c).1
  have h2 := (advN_p F n w hn).1
  exact ⟨w', padOK_advN n pd, by omega, by omega⟩

theorem J_adv (F : SegFacts src segs) (L0 P0 : Int) : ∀ n (c c' : BCur), J segs L0 P0 c →
    (BCur.ops src segs).advance n c = .ok c' → J segs L0 P0 c' := by
  intro n c c' h e
  simp only [BCur.ops, BCur.advance] at e
  split at e
  · rename_i hc
    cases e
    exact J_advN F h _ (by omega)
  · cases e

theorem advanceLine_p (F : SegFacts src segs) {c : BCur} (w : BWF segs c) : c.p ≤ (BCur.advanceLine segs c).p := by
  unfold BCur.advanceLine
  split
  · rename_i hl
    have i1 := w.inLine (by omega)
    have hm := F.mono c.ln (c.ln + 1) w.ln0 (by omega) hl
    simp only; omega
  · exact Int.le_refl _

theorem J_al (F : SegFacts src segs) (L0 P0 : Int) : ∀ (c c' : BCur), J segs L0 P0 c →
    (BCur.ops src segs).advanceLine c = .ok c' → J segs L0 P0 c' := by
  intro c c' h e
  simp only [BCur.ops, Except.ok.injEq] at e
  subst e
  obtain ⟨w, pd, hl, hp⟩ := h
  have h1 := advanceLine_p F w
  have h2 : c.ln ≤ (BCur.advanceLine segs c).ln := by unfold BCur.advanceLine; split <;> simp only <;> omega
  exact ⟨bwf_advanceLine F w, padOK_advanceLine pd, by omega, by omega⟩

theorem J_pl (L0 P0 : Int) : ∀ (c : BCur) x (c' : BCur), J segs L0 P0 c →
    (BCur.ops src segs).peekLine c = .ok (x, c') → J segs L0 P0 c' := by
  intro c x c' h e
  simp only [BCur.ops, BCur.peekLine, Except.ok.injEq, Prod.mk.injEq] at e
  obtain ⟨_, rfl⟩ := e; exact h

theorem skipSpaces_J (F : SegFacts src segs) {L0 P0 : Int} {fuel : Nat} {chars : Int} {c c' : BCur} {x}
    (h : J segs L0 P0 c) (e : skipSpaces (BCur.ops src segs) fuel chars c = .ok (x, c')) : J segs L0 P0 c' :=
  skipSpaces_inv (BCur.ops src segs) (J segs L0 P0) (J_adv F L0 P0) (J_pl L0 P0) fuel chars c x c' h e

theorem findClosure_J (F : SegFacts src segs) {L0 P0 : Int} {fuel : Nat} {o cl : UInt8} {c c' : BCur} {x}
    (h : J segs L0 P0 c) (e : findClosure (BCur.ops src segs) fuel o cl linkFindClosureOptions c = .ok (x, c')) :
    J segs L0 P0 c' := by
  unfold findClosure at e
  cases hl : findClosureLoop (BCur.ops src segs) o cl linkFindClosureOptions fuel 1 0 none c with
  | error er => rw [hl] at e; simp [bind, Except.bind] at e
  | ok y =>
    obtain ⟨y1, c1⟩ := y
    have hp := findClosureLoop_inv (BCur.ops src segs) (J segs L0 P0) (J_adv F L0 P0) (J_al F L0 P0) (J_pl L0 P0) o cl
      linkFindClosureOptions fuel 1 0 none c y1 c1 h hl
    rw [hl] at e
    simp only [bind, Except.bind, linkFindClosureOptions, Bool.not_true, Bool.false_eq_true, if_false, pure, Except.pure] at e
    split at e <;> (simp only [Except.ok.injEq, Prod.mk.injEq] at e; obtain ⟨_, rfl⟩ := e; exact hp)

/-! ### FindClosure: where it stops, what it hands out -/

theorem view_live {c : BCur} {l : Bytes} (hv : BCur.view src segs c = some l) : c.ln < BCur.k segs := by
  unfold BCur.view at hv
  split at hv
  · rename_i hl
    simp only [BCur.live, Bool.and_eq_true, decide_eq_true_eq] at hl
    exact hl.1
  · cases hv

/-- the closer `scanLine` finds on the peeked line of the cursor is not one of the padding spaces in front of it -/
theorem found_behind_pad {c : BCur} {bs : Bytes} (hv : BCur.view src segs c = some bs) {o cl : UInt8} (hcl : cl ≠ 32)
    {cs ne : Bool} {op cso i : Nat} (hsc : scanLine o cl cs ne bs 0 op cso = .found i) : c.pad ≤ (i : Int) := by
  have hb := scanLine_found_closer _ _ _ _ _ _ _ _ _ hsc
  simp only [Nat.sub_zero] at hb
  unfold BCur.view at hv
  split at hv
  · simp only [Option.some.injEq] at hv
    rw [← hv] at hb
    by_cases hlt : i < c.pad.toNat
    · rw [List.getElem?_append_left (by simpa [spaces] using hlt)] at hb
      simp only [spaces, List.getElem?_replicate, hlt, if_true, Option.some.injEq] at hb
      exact absurd hb.symm hcl
    · omega
  · cases hv

theorem fcl_facts (F : SegFacts src segs) (o cl : UInt8) (hcl : cl ≠ 32) (opts : FindClosureOptions) (lo : Int) :
    ∀ (fuel opened cso : Nat) (ret : Option (List Segment)) (c : BCur) x c', BWF segs c → lo ≤ c.p →
    (∀ s ∈ ret.getD [], lo ≤ s.start ∧ s.start ≤ s.stop) →
    findClosureLoop (BCur.ops src segs) o cl opts fuel opened cso ret c = .ok (x, c') →
    (x.2 = true → c'.ln < BCur.k segs) ∧ (∀ s ∈ x.1.getD [], lo ≤ s.start ∧ s.start ≤ s.stop) := by
  intro fuel
  induction fuel with
  | zero => intro opened cso ret c x c' _ _ _ h; simp [findClosureLoop] at h
  | succ f ih =>
    intro opened cso ret c x c' w hlo hret h
    have hpl : (BCur.ops src segs).peekLine c = .ok ((BCur.view src segs c, BCur.seg segs c), c) := rfl
    simp only [findClosureLoop, hpl, bind, Except.bind] at h
    cases hv : BCur.view src segs c with
    | none =>
      rw [hv] at h
      simp only [pure, Except.pure, Except.ok.injEq, Prod.mk.injEq] at h
      obtain ⟨rfl, rfl⟩ := h
      exact ⟨by simp, hret⟩
    | some bs =>
      rw [hv] at h
      obtain ⟨v1, v2, _, _, v5⟩ := bcur_view_len F w hv
      simp only at h
      split at h
      · rename_i i hsc
        cases ha : (BCur.ops src segs).advance (↑i + 1) c with
        | error er => rw [ha] at h; simp at h
        | ok c1 =>
          rw [ha] at h
          simp only [pure, Except.pure, Except.ok.injEq, Prod.mk.injEq] at h
          obtain ⟨rfl, rfl⟩ := h
          simp only [BCur.ops, BCur.advance] at ha
          split at ha
          · cases ha
            refine ⟨fun _ => (advN_ln _ c).2 (view_live hv), ?_⟩
            intro s hs
            simp only [Option.getD_some, List.mem_append, List.mem_singleton] at hs
            rcases hs with hs | hs
            · exact hret s hs
            · subst hs
              simp only [Segment.withStop, BCur.seg]
              have hpad := found_behind_pad hv hcl hsc
              exact ⟨hlo, by omega⟩
          · cases ha
      · simp only [pure, Except.pure, Except.ok.injEq, Prod.mk.injEq] at h
        obtain ⟨rfl, rfl⟩ := h
        exact ⟨by simp, hret⟩
      · split at h
        · simp only [pure, Except.pure, Except.ok.injEq, Prod.mk.injEq] at h
          obtain ⟨rfl, rfl⟩ := h
          exact ⟨by simp, hret⟩
        · have hal : (BCur.ops src segs).advanceLine c = .ok (BCur.advanceLine segs c) := rfl
          rw [hal] at h
          simp only at h
          have hp := advanceLine_p F w
          exact ih _ _ _ _ x c' (bwf_advanceLine F w) (by omega)
            (by
              intro s hs
              simp only [Option.getD_some, List.mem_append, List.mem_singleton] at hs
              rcases hs with hs | hs
              · exact hret s hs
              · subst hs; simp only [BCur.seg]; exact ⟨hlo, by omega⟩) h

theorem findClosure_facts (F : SegFacts src segs) (o cl : UInt8) (hcl : cl ≠ 32) (fuel : Nat) {c c' : BCur} {x} (w : BWF segs c)
    (e : findClosure (BCur.ops src segs) fuel o cl linkFindClosureOptions c = .ok (x, c')) :
    (x.2 = true → c'.ln < BCur.k segs) ∧ (∀ s ∈ x.1.getD [], c.p ≤ s.start ∧ s.start ≤ s.stop) := by
  unfold findClosure at e
  cases hl : findClosureLoop (BCur.ops src segs) o cl linkFindClosureOptions fuel 1 0 none c with
  | error er => rw [hl] at e; simp [bind, Except.bind] at e
  | ok y =>
    obtain ⟨y1, c1⟩ := y
    have hp := fcl_facts F o cl hcl linkFindClosureOptions c.p fuel 1 0 none c y1 c1 w (Int.le_refl _)
      (by intro s hs; simp at hs) hl
    rw [hl] at e
    simp only [bind, Except.bind, linkFindClosureOptions, Bool.not_true, Bool.false_eq_true, if_false, pure, Except.pure] at e
    split at e
    · rename_i hf
      simp only [Except.ok.injEq, Prod.mk.injEq] at e
      obtain ⟨rfl, rfl⟩ := e
      exact ⟨fun _ => hp.1 hf, hp.2⟩
    · simp only [Except.ok.injEq, Prod.mk.injEq] at e
      obtain ⟨rfl, rfl⟩ := e
      exact ⟨by simp, by intro s hs; simp at hs⟩

end GM.Proof.LinkRefAdj
