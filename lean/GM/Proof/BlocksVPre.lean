/-
  GM.Proof.BlocksVPre — the monitor `valueCheck` behind the Close of the heading parsers (GM.Proof.ConvertHV) is a no-op in
  every state with `NodesOK`; so `bpCloseV` has every `OKL` contract `bpClose` has whose postcondition gives `NodesOK` and
  keeps the source (`bpCloseV_okl`), keeps every reader-only invariant (`bpCloseV_pres`), and a normal end of `bpCloseV` is a
  normal end of `bpClose` in the same state (`bpCloseV_ok_inv`).
-/
import GM.Proof.ConvertHV
import GM.Proof.BlocksInv
import GM.Proof.BlocksPres
import GM.Proof.ConvertHSim

namespace GM.Blocks
open GM GM.Text GM.Spec GM.Proof.Reader

theorem value_ok_of_segOK {src : Bytes} {t : Segment} (h : SegOK src t) : ∃ v, t.value src = .ok v := by
  obtain ⟨h0, h1, h2, h3⟩ := h
  unfold Segment.value
  have hs : sliceB src t.start t.stop = .ok (sub src t.start.toNat t.stop.toNat) := by
    unfold sliceB; simp [h0, h1, h2]
  split
  · simp only [hs, bind, Except.bind]
    split <;> exact ⟨_, rfl⟩
  · have a1 : ¬ (t.padding + t.stop - t.start + 1 < 0) := by omega
    have a2 : ¬ (t.padding < 0) := by omega
    simp only [a1, a2, if_false, hs, bind, Except.bind, pure, Except.pure]
    split <;> exact ⟨_, rfl⟩

/-- the outcome of the monitor, computed -/
theorem valueCheck_eq (node : Nat) (s : St) :
    valueCheck node s = match (s.nodes.getD node default).lines.getLast? with
      | none => .ok ((), s)
      | some seg => match seg.value s.r.source with
        | .ok _ => .ok ((), s)
        | .error e => .error e := by
  unfold valueCheck
  have e0 : getNode node s = .ok (s.nodes.getD node default, s) := rfl
  rw [GM.ConvertH.m_bind_apply, e0]
  dsimp only
  cases hl : (s.nodes.getD node default).lines.getLast? with
  | none => rfl
  | some seg =>
    dsimp only
    have e1 : source s = .ok (s.r.source, s) := rfl
    rw [GM.ConvertH.m_bind_apply, e1]
    dsimp only
    rw [GM.ConvertH.m_bind_apply]
    cases hv : seg.value s.r.source with
    | error x => simp only [liftE, hv, Except.map]
    | ok v => simp only [liftE, hv, Except.map]; rfl

theorem valueCheck_ok {src : Bytes} (node : Nat) (s : St) (hn : NodesOK src s) (hsrc : s.r.source = src) :
    valueCheck node s = .ok ((), s) := by
  rw [valueCheck_eq]
  cases hl : (s.nodes.getD node default).lines.getLast? with
  | none => rfl
  | some seg =>
    have hmem : seg ∈ (s.nodes.getD node default).lines := List.mem_of_getLast? hl
    have hok : SegOK src seg := by
      by_cases hv : node < s.nodes.length
      · have : s.nodes.getD node default ∈ s.nodes := by
          rw [List.getD_eq_getElem?_getD, List.getElem?_eq_getElem hv]; simp
        exact (hn _ this).lines seg hmem
      · have : s.nodes.getD node default = default := by
          simp [List.getD_eq_getElem?_getD, List.getElem?_eq_none (Nat.le_of_not_lt hv)]
        rw [this] at hmem; cases hmem
    obtain ⟨v, hv⟩ := value_ok_of_segOK hok
    simp only [hsrc, hv]

theorem valueCheck_same (node : Nat) (s s' : St) (h : valueCheck node s = .ok ((), s')) : s' = s := by
  rw [valueCheck_eq] at h
  cases hl : (s.nodes.getD node default).lines.getLast? with
  | none => simp only [hl] at h; cases h; rfl
  | some seg =>
    simp only [hl] at h
    cases hv : seg.value s.r.source with
    | error x => simp only [hv] at h; cases h
    | ok v => simp only [hv] at h; cases h; rfl

theorem bpCloseV_ok_inv (bp : BP) (node : Nat) (s s' : St) (h : bpCloseV bp node s = .ok ((), s')) :
    bpClose bp node s = .ok ((), s') := by
  unfold bpCloseV at h
  simp only [bind, StateT.bind, Except.bind] at h
  cases hc : bpClose bp node s with
  | error e => rw [hc] at h; cases h
  | ok p =>
    obtain ⟨⟨⟩, s1⟩ := p
    rw [hc] at h
    simp only at h
    split at h
    · rw [valueCheck_same node s1 s' h]
    · cases h; rfl

theorem bpCloseV_okl {src : Bytes} {P : Unit → St → Prop} {bp : BP} {node : Nat} {s : St}
    (hP : ∀ a s', P a s' → NodesOK src s' ∧ s'.r.source = src) (h : OKL P (bpClose bp node s)) :
    OKL P (bpCloseV bp node s) := by
  rcases h with ⟨a, s', e, hp⟩ | e
  · left
    refine ⟨a, s', ?_, hp⟩
    unfold bpCloseV
    simp only [bind, StateT.bind, Except.bind, e]
    split
    · exact valueCheck_ok node s' (hP a s' hp).1 (hP a s' hp).2
    · rfl
  · right
    unfold bpCloseV
    simp only [bind, StateT.bind, Except.bind, e]

theorem valueCheck_pres {I : St → Prop} (node : Nat) : Pres I (valueCheck node) := by
  constructor
  intro s hs
  rw [valueCheck_eq]
  cases hl : (s.nodes.getD node default).lines.getLast? with
  | none => exact hs
  | some seg =>
    dsimp only
    cases hv : seg.value s.r.source with
    | error x => exact (value_noLoop seg s.r.source).h x hv
    | ok v => exact hs

theorem bpCloseV_pres {I : St → Prop} (h : RPrims I) (bp : BP) (n : Nat) : Pres I (bpCloseV bp n) := by
  unfold bpCloseV
  refine Pres.bind (bpClose_pres h bp n) (fun _ => ?_)
  split
  · exact valueCheck_pres n
  · exact Pres.pure _

end GM.Blocks
