/-
  GM.Proof.QuoteSimFE3 — `FE` across the steps of the block driver (groundwork for C08 with lists in sources with blank
  lines): a whole parser call (`S2.withFE`, from the unary facts `BPn` / `CHn` of both runs), the driver's
  `SetBlankPreviousLines` (`fe_setFlag`) and its `AppendChild` (`fe_append`).
-/
import GM.Proof.QuoteSimFE0

namespace GM.Blocks
open GM GM.Text

/-- `FE`, asked only of simulations whose parser set excludes the setext heading parser (whose `Close` copies a flag) -/
def FEc (al : BP → Bool) (nA nB : List Node) : Prop := al .setext = false → FE nA nB

/-- a whole parser call keeps `FE` -/
theorem S2.withFE {α β} {src : Bytes} {al : BP → Bool} {k ls p : Nat} {sA sB : St} (hsr : SR src k ls p sA sB)
    (hfe : FEc al sA.nodes sB.nodes) {Q : α → β → St → St → Prop} {x : Except Panic (α × St)} {y : Except Panic (β × St)}
    (h : S2 Q x y)
    (hA : al .setext = false → ∀ a sA', x = .ok (a, sA') → BPn sA.nodes sA'.nodes ∧ CHn sA.nodes sA'.nodes)
    (hB : al .setext = false → ∀ b sB', y = .ok (b, sB') → BPn sB.nodes sB'.nodes) :
    S2 (fun a b sA' sB' => Q a b sA' sB' ∧ FEc al sA'.nodes sB'.nodes) x y := by
  intro a sA' e
  obtain ⟨b, sB', h1, h2⟩ := h a sA' e
  refine ⟨b, sB', h1, h2, fun hns => ?_⟩
  obtain ⟨hb1, hc1⟩ := hA hns a sA' e
  exact fe_step (hfe hns) hb1 (hB hns b sB' h1) hc1 hsr.n.len

/-- what `modNode id (fun n => { n with blankPrev := b })` does to a store, as far as `FE` is concerned -/
def MF (id : Nat) (b : Bool) (n n' : List Node) : Prop :=
  (∀ i, (n'.getD i default).children = (n.getD i default).children) ∧
  (∀ i, i ≠ id → (n'.getD i default).blankPrev = (n.getD i default).blankPrev) ∧
  (n'.getD id default).blankPrev = b

/-- `SetBlankPreviousLines` on a node: fine when the two flags agree, or when the node is nobody's child -/
theorem fe_setFlag {nA nB nA' nB' : List Node} {node : Nat} {bA bB : Bool} (hfe : FE nA nB)
    (hA : MF node bA nA nA') (hB : MF (node + 1) bB nB nB')
    (h : bB = bA ∨ ∀ q, node ∉ (nA.getD q default).children) : FE nA' nB' := by
  intro q hq c hc
  rw [hA.1 q] at hc
  by_cases hcn : c = node
  · subst hcn
    rcases h with h | h
    · show (nB'.getD (c + 1) default).blankPrev = (nA'.getD c default).blankPrev
      rw [hA.2.2, hB.2.2, h]
    · exact absurd (List.mem_of_mem_drop hc) (h q)
  · show (nB'.getD (c + 1) default).blankPrev = (nA'.getD c default).blankPrev
    rw [hA.2.1 c hcn, hB.2.1 (c + 1) (by omega)]
    exact hfe q hq c hc

/-- what `appendChild q node` does to the children lists, as far as `FE` is concerned -/
def CHA (q node : Nat) (n n' : List Node) : Prop :=
  ∀ q', q' ≠ 0 → ∀ c ∈ (n'.getD q' default).children.drop 1,
    c ∈ (n.getD q' default).children.drop 1 ∨ (c = node ∧ q' = q ∧ (n.getD q default).children ≠ [])

/-- flags unchanged (no new node) -/
def BPs (n n' : List Node) : Prop := ∀ i, (n'.getD i default).blankPrev = (n.getD i default).blankPrev

/-- `AppendChild`: fine when the appended node's flags agree, the parent is the Document, or the parent had no child -/
theorem fe_append {nA nB nA' nB' : List Node} {q node : Nat} (hfe : FE nA nB) (hA : BPs nA nA') (hB : BPs nB nB')
    (hc : CHA q node nA nA')
    (h : FlagEqAt nA nB node ∨ q = 0 ∨ (nA.getD q default).children = []) : FE nA' nB' := by
  intro q' hq' c hcm
  show (nB'.getD (c + 1) default).blankPrev = (nA'.getD c default).blankPrev
  rw [hA c, hB (c + 1)]
  rcases hc q' hq' c hcm with h1 | ⟨h1, h2, h3⟩
  · exact hfe q' hq' c h1
  · subst h1 h2
    rcases h with h | h | h
    · exact h
    · exact absurd h hq'
    · exact absurd h h3

end GM.Blocks
