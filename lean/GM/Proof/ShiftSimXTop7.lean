/-
  GM.Proof.ShiftSimXTop7 — (T1) assembled for `Plain6` sources and stacks of attached `Cov6` blocks:
  `topLast_lineLoop6_of` (any reader invariant `J` with the listed closure properties), `topLast_lineLoop6` (`J` = the
  reader invariant `∃ c, RI src r c`).
-/
import GM.Proof.ShiftSimXTop6
import GM.Proof.IndepEnd
import GM.Proof.ShiftSimListB
import GM.Proof.ShiftSimXOpens

namespace GM.Blocks.Xs
open GM GM.Text GM.Spec GM.Proof.Reader GM.Blocks GM.Blocks.L
open GM.Blocks.Sh (K KS bind_ok_inv liftE_ok_inv a2_getNode_inv a2_getPc_inv a2_modPc_inv a2_lastOpenedBlock_inv
  llOpen llFall llBody ll_lineLoop_cons)

/-! ### `closeBlocks` with the exact index range -/

theorem h7_closeLoop {z : Nat} (blocks : List Block) (to : Int) (kmax : Nat)
    (hb : ∀ (j : Int) b, to ≤ j → j < to + kmax → blockAt blocks j = .ok b → Cov6 b.bp ∧ b.node ≠ z) :
    ∀ k, k ≤ kmax → Keeps (tl_Last z) (closeLoop blocks to k)
  | 0, _ => by unfold closeLoop; exact Keeps.pure _
  | k + 1, hk => by
    have ih := h7_closeLoop blocks to kmax hb k (by omega)
    unfold closeLoop
    intro s a s' hs h
    obtain ⟨b, s1, h1, hA⟩ := bind_ok_inv h
    obtain ⟨hb1, e1⟩ := liftE_ok_inv h1
    subst e1
    obtain ⟨hc, hne⟩ := hb (to + k) b (by omega) (by omega) hb1
    have := h6_bpClose (z := z) b.bp hc b.node hne
    revert hA
    refine (?_ : Keeps (tl_Last z) _) s1 a s' hs
    h6

theorem h7_closeBlocks {z : Nat} (frm to : Int) (s s' : St) (a : Unit)
    (hb : ∀ (j : Int) b, to ≤ j → j ≤ frm → blockAt s.pc.opened j = .ok b → Cov6 b.bp ∧ b.node ≠ z)
    (hs : tl_Last z s) (h : closeBlocks frm to s = .ok (a, s')) : tl_Last z s' := by
  unfold closeBlocks at h
  obtain ⟨pc, s1, h1, hA⟩ := bind_ok_inv h
  cases h1
  obtain ⟨_, s2, h2, hB⟩ := bind_ok_inv hA
  have k2 := h7_closeLoop (z := z) s.pc.opened to (frm - to + 1).toNat
    (fun j b h1 h2 h3 => hb j b h1 (by omega) h3) _ (Nat.le_refl _) _ _ _ hs h2
  revert hB
  refine (?_ : Keeps (tl_Last z) _) s2 a s' k2
  h6

theorem h7_blockAt_tail {b0 : Block} {l : List Block} {j : Int} {b : Block} (h : blockAt (b0 :: l) j = .ok b)
    (hj : 1 ≤ j) : b ∈ l := by
  unfold blockAt at h
  rw [if_neg (by omega)] at h
  obtain ⟨n, hn⟩ : ∃ n, j.toNat = n + 1 := ⟨j.toNat - 1, by omega⟩
  rw [hn, List.getElem?_cons_succ] at h
  cases hg : l[n]? with
  | none => rw [hg] at h; cases h
  | some y => rw [hg] at h; cases h; exact List.mem_of_getElem? hg

theorem h7_blockAt_get {l : List Block} {j : Int} {b : Block} (h : blockAt l j = .ok b) :
    0 ≤ j ∧ l[j.toNat]? = some b := by
  unfold blockAt at h
  by_cases hj : j < 0
  · rw [if_pos hj] at h; cases h
  · rw [if_neg hj] at h
    cases hg : l[j.toNat]? with
    | none => rw [hg] at h; cases h
    | some y => rw [hg] at h; cases h; exact ⟨by omega, rfl⟩

theorem h7_blockAt_left {l m : List Block} {j : Int} {b : Block} (h : blockAt (l ++ m) j = .ok b)
    (hj : j < l.length) : b ∈ l := by
  obtain ⟨h0, hg⟩ := h7_blockAt_get h
  rw [List.getElem?_append_left (by omega)] at hg
  exact List.mem_of_getElem? hg

/-! ### the pass -/

/-- at the levels of a pass: the stack is still `b0 :: rest`, all of it attached and `Cov6`, and `b0`'s node is the
    Document's last child -/
def M6 (b0 : Block) (rest : List Block) (t : St) : Prop :=
  K t ∧ t.pc.opened = b0 :: rest ∧ (∀ x ∈ b0 :: rest, (nd t x.node).parent.isSome = true ∧ Cov6 x.bp) ∧
    tl_Last b0.node t

theorem M6.links {b0 : Block} {rest : List Block} {t t' : St} (h : M6 b0 rest t) (k : K t') (lk : LinksKept t t')
    (ho : t'.pc.opened = t.pc.opened) : M6 b0 rest t' := by
  obtain ⟨hk, e1, hatt, hl⟩ := h
  refine ⟨k, ho.trans e1, fun x hx => ?_, ?_⟩
  · rw [(lk.2.1 x.node (hk.opened x (e1 ▸ hx)).2).1]
    exact hatt x hx
  · show (nd t' 0).children.getLast? = _
    rw [(lk.2.1 0 hk.doc.1).2]
    exact hl

theorem M6.top {b0 : Block} {rest : List Block} {t : St} (h : M6 b0 rest t) : TopLast t := by
  intro b hb
  rw [h.2.1] at hb
  cases hb
  exact h.2.2.2

section asm
variable {J : St → Prop} {src : Bytes} (hJr : ∀ t t' : St, J t → t'.r = t.r → J t')
  (hJo : ∀ bp, Cov6 bp → ∀ p, Keeps J (bpOpen bp p)) (hJlo : Keeps J lineOffset)
  (hJpk : ∀ (t : St) lp t1, J t → peekLine t = .ok (lp, t1) → J t1 ∧ ∀ c ∈ lp.1.getD [], c ∈ src ∨ c = 32)
  (hpl : Plain6 src)
include hJr hJo hJlo hJpk hpl

theorem h7_llOpen (b0 : Block) (rest : List Block) (hne : ∀ z ∈ rest, z.node ≠ b0.node) (i : Int) (p : Nat)
    (blank : Bool) (bl : List LineStat) (t t' : St) (x : LineOutcome × List LineStat) (hj : J t)
    (hm : M6 b0 rest t)
    (hcase : (i = 0 ∧ p = 0) ∨ (0 < i ∧ ∃ b ∈ b0 :: rest, p = b.node))
    (h : llOpen (b0 :: rest) (((b0 :: rest).length : Int) - 1) i blank bl p t = .ok (x, t')) : TopLast t' := by
  obtain ⟨hk, ho, hatt, hl⟩ := hm
  unfold llOpen at h
  obtain ⟨lastNode, u1, g1, gA⟩ := bind_ok_inv h
  obtain ⟨elast, e1⟩ := liftE_ok_inv g1
  rw [e1] at gA
  obtain ⟨r, t1, g2, gB⟩ := bind_ok_inv gA
  have hp0 : p < t.nodes.length := by
    rcases hcase with ⟨_, rfl⟩ | ⟨_, b, hb, rfl⟩
    · exact hk.doc.1
    · exact (hk.opened b (ho ▸ hb)).2
  obtain ⟨q, hw⟩ := h6_openBlocks hJr hJo hJlo hJpk hpl p blank t t1 r hj hk (fun y hy => hatt y (ho ▸ hy)) hp0 g2
  rw [ho] at hw
  have hb0lt : b0.node < t.nodes.length := (hk.opened b0 (by rw [ho]; exact List.mem_cons_self)).2
  by_cases hr : (r != OpenResult.paragraphContinuation) = true
  · rw [if_pos hr] at gB
    obtain ⟨pc, u2, g3, gC⟩ := bind_ok_inv gB
    obtain ⟨epc, e3⟩ := a2_getPc_inv g3
    subst e3
    subst epc
    obtain ⟨_, t2, g4, gD⟩ := bind_ok_inv gC
    cases gD
    obtain ⟨_, est⟩ := closeBlocks_opened _ _ _ _ g4
    rcases hcase with ⟨rfl, rfl⟩ | ⟨hi, b, hb, rfl⟩
    · -- level 0
      obtain ⟨hk1, hattc, hL, _, new, e1, e2, e3, e4⟩ := hw
      obtain ⟨_, hget⟩ := h7_blockAt_get elast
      have hlt : ((((b0 :: rest).length : Int) - 1)).toNat < (b0 :: rest).length := by
        rcases Nat.lt_or_ge ((((b0 :: rest).length : Int) - 1)).toNat (b0 :: rest).length with hh | hh
        · exact hh
        · rw [List.getElem?_eq_none hh] at hget; cases hget
      have hslot : slotAfter (b0 :: rest) u2.pc.opened ((((b0 :: rest).length : Int) - 1)).toNat = some lastNode := by
        unfold slotAfter
        rw [e1, List.getElem?_append_left hlt, hget]
      rw [hslot] at g4 est
      have hfrm : ((Option.map (fun x : Block => x.node) (some lastNode) != some lastNode.node) = true) = False := by
        simp
      simp only [hfrm, if_false] at g4 est
      have hst : t'.pc.opened = new := by
        rw [est, e1]
        have : ((((b0 :: rest).length : Int) - 1) + 1).toNat = (b0 :: rest).length := by omega
        rw [this]
        simp
      cases new with
      | nil =>
        intro b hb
        rw [hst] at hb
        cases hb
      | cons n0 more =>
        have hl1 : tl_Last n0.node u2 := by
          show (nd u2 0).children.getLast? = _
          rw [e3]
          simp [w6D]
        have hl2 := h7_closeBlocks (z := n0.node) _ 0 u2 t' _ (fun j b h1 h2 h3 => by
          rw [e1] at h3
          have hbm : b ∈ b0 :: rest := h7_blockAt_left (l := b0 :: rest) h3 (by omega)
          refine ⟨(hatt b hbm).2, ?_⟩
          have := (hk.opened b (ho ▸ hbm)).2
          have := e2 n0 List.mem_cons_self
          omega) hl1 g4
        intro b hb
        rw [hst] at hb
        cases hb
        exact hl2
    · -- level i > 0
      have hp : 0 < b.node := (hk.opened b (ho ▸ hb)).1
      obtain ⟨_, hl1, hh1⟩ := hw.topLast_pos hp b0 rest rfl hl
      obtain ⟨hk1, hattc, hL, _, new, e1, e2, e3, e4⟩ := hw
      have hl2 := h6_closeBlocks (z := b0.node) _ i u2 t' _ (fun j c h1 h3 => by
        refine ⟨(hattc c (Sh.blockAt_mem h3)).2, ?_⟩
        rw [e1] at h3
        have hm : c ∈ rest ++ new := h7_blockAt_tail h3 (by omega)
        rcases List.mem_append.1 hm with hm | hm
        · exact hne c hm
        · have := e2 c hm
          omega) hl1 g4
      intro c hc
      rw [est, e1] at hc
      obtain ⟨n, hn⟩ : ∃ n, i.toNat = n + 1 := ⟨i.toNat - 1, by omega⟩
      rw [hn] at hc
      have hc' : some b0 = some c := hc
      cases hc'
      exact hl2
  · rw [if_neg hr] at gB
    cases gB
    have hr' : r = OpenResult.paragraphContinuation := by simpa using hr
    have ho1 := openBlocks_opened p blank t r t' g2 (by rw [hr']; intro hh; cases hh)
    obtain ⟨hk1, hattc, hL, _, new, e1, e2, e3, e4⟩ := hw
    have hnew : new = [] := by
      rw [ho1, ho] at e1
      exact List.self_eq_append_right.1 e1
    subst hnew
    intro c hc
    rw [ho1, ho] at hc
    cases hc
    show (nd t' 0).children.getLast? = _
    rw [e3]
    exact hl

theorem h7_lineLoop (hJc : ∀ bp, Cov6 bp → ∀ n, Keeps J (bpContinue bp n)) (b0 : Block) (rest : List Block)
    (hne : ∀ z ∈ rest, z.node ≠ b0.node) :
    ∀ (rem : List Block) (i : Int) (bl : List LineStat) (t t' : St) (x : LineOutcome × List LineStat),
      J t → M6 b0 rest t → 0 ≤ i → (∀ z ∈ rem, z ∈ b0 :: rest) →
      lineLoop 0 (b0 :: rest) (((b0 :: rest).length : Int) - 1) rem i bl t = .ok (x, t') → TopLast t' := by
  intro rem
  induction rem with
  | nil =>
    intro i bl t t' x _ hm _ _ h
    unfold lineLoop at h
    cases h
    exact hm.top
  | cons be rem ih =>
    intro i bl t t' x hj hm hi hrem h
    rw [ll_lineLoop_cons] at h
    obtain ⟨lp, t1, h1, hA⟩ := bind_ok_inv h
    obtain ⟨hj1, _⟩ := hJpk t lp t1 hj h1
    obtain ⟨r', e1⟩ := tl_peekLine_inv h1
    subst e1
    have hm1 : M6 b0 rest { t with r := r' } :=
      hm.links (Sh.a2_KS_same (s' := { t with r := r' }) hm.1 ⟨rfl, rfl⟩).1 (LinksKept.of_nodes rfl) rfl
    have ho1 := hm1.2.1
    cases hl : lp.1 with
    | none =>
      rw [hl] at hA
      obtain ⟨_, t2, h2, hB⟩ := bind_ok_inv hA
      obtain ⟨_, e2⟩ := closeBlocks_opened _ _ _ _ h2
      obtain ⟨_, t3, h3, hC⟩ := bind_ok_inv hB
      cases h3
      cases hC
      intro b hb
      exfalso
      have e2' : t2.pc.opened = [] := by
        rw [e2, ho1]
        have : ((((b0 :: rest).length : Int) - 1) + 1).toNat = (b0 :: rest).length := by omega
        rw [this, List.drop_length]
        rfl
      have hb' : t2.pc.opened.head? = some b := hb
      rw [e2'] at hb'
      cases hb'
    | some line =>
      rw [hl] at hA
      obtain ⟨y, t2, h2, hB⟩ := bind_ok_inv hA
      cases h2
      have hbe : be ∈ b0 :: rest := hrem be List.mem_cons_self
      have fall : ∀ u bl', J u → M6 b0 rest u →
          llFall 0 (b0 :: rest) (((b0 :: rest).length : Int) - 1) i
            ({ t with r := r' } : St).r.position.1 bl' u = .ok (x, t') → TopLast t' := by
        intro u bl' ju mu e
        unfold llFall at e
        by_cases c : (i != 0) = true
        · rw [if_pos c] at e
          obtain ⟨b, u1, g1, gA⟩ := bind_ok_inv e
          obtain ⟨eb, e1⟩ := liftE_ok_inv g1
          rw [e1] at gA
          have hi0 : i ≠ 0 := by simpa using c
          exact h7_llOpen hJr hJo hJlo hJpk hpl b0 rest hne i b.node _ _ _ _ _ ju mu
            (Or.inr ⟨by omega, b, Sh.blockAt_mem eb, rfl⟩) gA
        · rw [if_neg c] at e
          have hi0 : i = 0 := by simpa using c
          exact h7_llOpen hJr hJo hJlo hJpk hpl b0 rest hne i 0 _ _ _ _ _ ju mu (Or.inl ⟨hi0, rfl⟩) e
      unfold llBody at hB
      obtain ⟨bn, t3, h3, hC⟩ := bind_ok_inv hB
      obtain ⟨_, e3⟩ := a2_getNode_inv h3
      subst e3
      split at hC
      · obtain ⟨st, t4, h4, hD⟩ := bind_ok_inv hC
        have hbe1 : be ∈ ({ t with r := r' } : St).pc.opened := by rw [ho1]; exact hbe
        have hbn := hm1.1.opened be hbe1
        have k4 := (Sh.a2_bpContinue_KS be.bp be.node hbn.1 _ _ _ hm1.1 h4).1
        have hm4 : M6 b0 rest t4 := hm1.links k4 ((bpContinue_frl be.bp be.node).h _ _ _ h4)
          (bpContinue_opened be.bp be.node _ _ _ h4)
        have hj4 : J t4 := hJc be.bp (hm1.2.2.1 be hbe).2 be.node _ _ _ hj1 h4
        split at hD
        · split at hD
          · obtain ⟨_, t5, h5, hE⟩ := bind_ok_inv hD
            cases hE
            have hbn4 := hm4.1.opened be (by rw [hm4.2.1]; exact hbe)
            obtain ⟨q, hw⟩ := h6_openBlocks hJr hJo hJlo hJpk hpl be.node _ t4 _ _ hj4 hm4.1
              (fun y hy => hm4.2.2.1 y (hm4.2.1 ▸ hy)) hbn4.2 h5
            rw [hm4.2.1] at hw
            exact (hw.topLast_pos hbn4.1 b0 rest rfl hm4.2.2.2).1
          · exact ih (i + 1) _ _ _ _ hj4 hm4 (by omega)
              (fun z hz => hrem z (List.mem_cons_of_mem _ hz)) hD
        · exact fall _ _ hj4 hm4 hD
      · exact fall _ _ hj1 hm1 hC

/-- (T1) for `Plain6` sources and attached `Cov6` stacks, over any reader invariant `J` with the closure properties
    `hJr`, `hJo`, `hJlo`, `hJpk`, `hJc` -/
theorem topLast_lineLoop6_of (hJc : ∀ bp, Cov6 bp → ∀ n, Keeps J (bpContinue bp n)) (b0 : Block) (rest : List Block)
    (s s' : St) (bl : List LineStat) (x : LineOutcome × List LineStat) (hk : K s) (htop : TopLast s)
    (hop : s.pc.opened = b0 :: rest) (hcov : ∀ z ∈ b0 :: rest, Cov6 z.bp) (hj : J s)
    (hne : ∀ z ∈ rest, z.node ≠ b0.node) (hatt : ∀ z ∈ b0 :: rest, (nd s z.node).parent.isSome = true)
    (h : lineLoop 0 (b0 :: rest) (((b0 :: rest).length : Int) - 1) (b0 :: rest) 0 bl s = .ok (x, s')) :
    TopLast s' :=
  h7_lineLoop hJr hJo hJlo hJpk hpl hJc b0 rest hne (b0 :: rest) 0 bl s s' x hj
    ⟨hk, hop, fun z hz => ⟨hatt z hz, hcov z hz⟩, htop b0 (by rw [hop]; rfl)⟩ (Int.le_refl 0) (fun z hz => hz) h

end asm

/-! ### the instance `J = ∃ c, RI src r c` -/

theorem h7_ri_r (src : Bytes) : ∀ t t' : St, Sh.lb_RIs src t → t'.r = t.r → Sh.lb_RIs src t' := by
  intro t t' ⟨c, hc⟩ e
  exact ⟨c, by rw [e]; exact hc⟩

theorem h7_ri_peek (src : Bytes) : ∀ (t : St) lp t1, Sh.lb_RIs src t → peekLine t = .ok (lp, t1) →
    Sh.lb_RIs src t1 ∧ ∀ c ∈ lp.1.getD [], c ∈ src ∨ c = 32 := by
  intro t lp t1 ⟨c, hc⟩ h
  obtain ⟨rfl, h2, _, _⟩ := xo_peekLine_ri hc h
  refine ⟨⟨c, h2⟩, fun x hx => ?_⟩
  cases hv : RCur.view src c with
  | none => rw [hv] at hx; cases hx
  | some l => rw [hv] at hx; exact Sh.view_byte hv hx

theorem h7_hne {src : Bytes} {s : St} (hst : StableL src 0 s) (b0 : Block) (rest : List Block)
    (hop : s.pc.opened = b0 :: rest) : ∀ z ∈ rest, z.node ≠ b0.node := by
  have := hst.ls.incr
  rw [hop] at this
  simp only [List.map_cons, List.pairwise_cons] at this
  intro z hz
  have := this.2.1 z.node (List.mem_map.2 ⟨z, hz, rfl⟩)
  omega

/-- (T1) for `Plain6` sources. `hRIo`, `hRIc`: the `Cov6` parsers keep the reader invariant (the one gap left open);
    `hatt`: every open block is attached. -/
theorem topLast_lineLoop6 (src : Bytes) (hpl : Plain6 src)
    (hRIo : ∀ bp, Cov6 bp → ∀ p, Keeps (Sh.lb_RIs src) (bpOpen bp p))
    (hRIc : ∀ bp, Cov6 bp → ∀ n, Keeps (Sh.lb_RIs src) (bpContinue bp n))
    (b0 : Block) (rest : List Block) (s s' : St) (bl : List LineStat) (x : LineOutcome × List LineStat)
    (hk : K s) (htop : TopLast s) (hop : s.pc.opened = b0 :: rest) (hcov : ∀ z ∈ b0 :: rest, Cov6 z.bp)
    (hri : ∃ c, RI src s.r c) (hst : StableL src 0 s)
    (hatt : ∀ z ∈ b0 :: rest, (nd s z.node).parent.isSome = true)
    (h : lineLoop 0 (b0 :: rest) (((b0 :: rest).length : Int) - 1) (b0 :: rest) 0 bl s = .ok (x, s')) :
    TopLast s' :=
  topLast_lineLoop6_of (h7_ri_r src) hRIo (Sh.lb_lineOffset_keeps src) (h7_ri_peek src) hpl hRIc b0 rest s s' bl x hk htop
    hop hcov hri (h7_hne hst b0 rest hop) hatt h

/-- `openBlocks 0` on an empty stack leaves every open block attached -/
theorem att_openBlocks0 (src : Bytes) (hpl : Plain6 src)
    (hRIo : ∀ bp, Cov6 bp → ∀ p, Keeps (Sh.lb_RIs src) (bpOpen bp p))
    (blank : Bool) (s s' : St) (r : OpenResult) (hk : K s) (hop : s.pc.opened = []) (hri : ∃ c, RI src s.r c)
    (h : openBlocks 0 blank s = .ok (r, s')) :
    ∀ z ∈ s'.pc.opened, (nd s' z.node).parent.isSome = true ∧ Cov6 z.bp := by
  obtain ⟨q, hw⟩ := h6_openBlocks (h7_ri_r src) hRIo (Sh.lb_lineOffset_keeps src) (h7_ri_peek src) hpl 0 blank s s' r hri hk
    (fun y hy => by rw [hop] at hy; cases hy) hk.doc.1 h
  exact hw.2.1

/-! ### closing a `Cov6` block keeps the parent pointer of every other node -/

/-- node `a` is attached -/
def tl_Att (a : Nat) (s : St) : Prop := (nd s a).parent.isSome = true

section att
variable {a : Nat}

theorem p6_modPc (f : Ctx → Ctx) : Keeps (tl_Att a) (modPc f) := modPc_keeps f fun _ hs => hs

theorem p6_modNode (id : Nat) (f : Node → Node)
    (h : id = a → ∀ n : Node, n.parent.isSome = true → (f n).parent.isSome = true) :
    Keeps (tl_Att a) (modNode id f) := by
  intro s u s' hs hm
  cases hm
  show ((s.nodes.set id _).getD a default).parent.isSome = true
  rw [Sh.ac_getD_set]
  split
  · next hc => exact h hc.1 _ (hc.1 ▸ hs)
  · exact hs

macro "p6_step" : tactic =>
  `(tactic| first
    | with_reducible apply Keeps.pure
    | with_reducible apply Sh.ac_pure_bind
    | with_reducible apply Sh.ac_throw_bind
    | with_reducible apply Keeps.bind
    | with_reducible apply Keeps.ite
    | with_reducible apply Keeps.throw
    | with_reducible apply getNode_keeps
    | with_reducible apply getPc_keeps
    | with_reducible apply source_keeps
    | with_reducible apply position_keeps
    | with_reducible apply get_keeps
    | with_reducible apply liftE_keeps
    | with_reducible apply p6_modPc
    | ((with_reducible apply p6_modNode); (intro _ n hn; exact hn))
    | apply_hyp
    | intro_pi
    | split)

macro "p6" : tactic => `(tactic| repeat' p6_step)

theorem p6_removeChild (p c : Nat) (hc : c ≠ a) : Keeps (tl_Att a) (removeChild p c) := by
  unfold removeChild
  refine Keeps.bind (getNode_keeps _) fun cn => ?_
  split
  · exact Keeps.pure _
  · refine Keeps.bind ?_ fun _ => ?_
    · exact p6_modNode p _ fun _ n hn => hn
    · exact p6_modNode c _ fun e => absurd e hc

theorem p6_paragraphClose (n : Nat) (hn : n ≠ a) : Keeps (tl_Att a) (paragraphClose n) := by
  have := fun p => p6_removeChild (a := a) p n hn
  unfold paragraphClose; p6

theorem p6_codeClose (n : Nat) : Keeps (tl_Att a) (codeClose n) := by
  unfold codeClose; p6

/-- closing a `Cov6` block keeps every other node attached -/
theorem p6_bpClose (bp : BP) (h : Cov6 bp) (n : Nat) (hn : n ≠ a) : Keeps (tl_Att a) (bpClose bp n) := by
  cases bp <;> unfold bpClose
  · exact absurd rfl h.2.2.1
  · exact Keeps.pure _
  · exact absurd rfl h.1
  · exact Keeps.pure _
  · exact p6_codeClose n
  · exact Keeps.pure _
  · exact absurd rfl h.2.2.2
  · exact Keeps.pure _
  · exact Keeps.pure _
  · exact p6_paragraphClose n hn

theorem p6_closeLoop (blocks : List Block) (to : Int) (kmax : Nat)
    (hb : ∀ (j : Int) b, to ≤ j → j < to + kmax → blockAt blocks j = .ok b → Cov6 b.bp ∧ b.node ≠ a) :
    ∀ k, k ≤ kmax → Keeps (tl_Att a) (closeLoop blocks to k)
  | 0, _ => by unfold closeLoop; exact Keeps.pure _
  | k + 1, hk => by
    have ih := p6_closeLoop blocks to kmax hb k (by omega)
    unfold closeLoop
    intro s u s' hs h
    obtain ⟨b, s1, h1, hA⟩ := bind_ok_inv h
    obtain ⟨hb1, e1⟩ := liftE_ok_inv h1
    subst e1
    obtain ⟨hc, hne⟩ := hb (to + k) b (by omega) (by omega) hb1
    have := p6_bpClose (a := a) b.bp hc b.node hne
    revert hA
    refine (?_ : Keeps (tl_Att a) _) s1 u s' hs
    p6

/-- `closeBlocks frm to` keeps node `a` attached when no closed block (indices `to ≤ j ≤ frm`) has node `a` -/
theorem p6_closeBlocks (frm to : Int) (s s' : St) (u : Unit)
    (hb : ∀ (j : Int) b, to ≤ j → j ≤ frm → blockAt s.pc.opened j = .ok b → Cov6 b.bp ∧ b.node ≠ a)
    (hs : tl_Att a s) (h : closeBlocks frm to s = .ok (u, s')) : tl_Att a s' := by
  unfold closeBlocks at h
  obtain ⟨pc, s1, h1, hA⟩ := bind_ok_inv h
  cases h1
  obtain ⟨_, s2, h2, hB⟩ := bind_ok_inv hA
  have k2 := p6_closeLoop (a := a) s.pc.opened to (frm - to + 1).toNat
    (fun j b h1 h2 h3 => hb j b h1 (by omega) h3) _ (Nat.le_refl _) _ _ _ hs h2
  revert hB
  refine (?_ : Keeps (tl_Att a) _) s2 u s' k2
  p6

end att

end GM.Blocks.Xs
