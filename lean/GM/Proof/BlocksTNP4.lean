/-
  GM.Proof.BlocksTNP4 — no-panic proof of the block driver WITH paragraph transformers, part 3: the line loops and the
  whole run for a parser set `A` without the setext heading parser (base layer, no list invariant): `lineTailT`,
  `lineLoopT`, `linesLoopT`, `blocksLoopT`, `runT`. The transformer calls happen in `closeBlocksT` (GM.Proof.BlocksTNP1);
  its post-condition (`ClosedT`: `ExtW`, `KeysOK`, `BlockOK` of the kept blocks) re-establishes `Stable`.
-/
import GM.Proof.BlocksTNP2

namespace GM.Blocks.T
open GM GM.Text GM.Spec GM.Proof.Reader

/-- what one pass over the opened blocks (`lineLoopT`) hands back -/
def LLPost (src : Bytes) (A : BP → Prop) (_x : LineOutcome × List LineStat) (s' : St) : Prop :=
  ∃ c', RIa src s'.r c' ∧ Stable src A s'

theorem Stable.congr_r {src : Bytes} {A : BP → Prop} {s : St} (h : Stable src A s) (r' : Reader) :
    Stable src A { s with r := r' } :=
  ⟨h.nodes, ⟨h.keys.tmp, h.keys.fence⟩,
    fun b hb => ⟨⟨(h.blocks b hb).1.lt, (h.blocks b hb).1.kind, (h.blocks b hb).1.para, (h.blocks b hb).1.setext,
      (h.blocks b hb).1.fenced⟩, (h.blocks b hb).2⟩, h.leafy, h.tmp⟩

section tp
variable {src : Bytes} {A : BP → Prop} (sp : Specs src A) {e : Panic} {pts : List PT} (hpts : PTsSpec src e pts)
  (hNS : ¬ A .setext)
include sp hpts hNS

theorem lineTailT_oke (hT : ∀ ch ∈ src, ∀ bps, triggered ch = some bps → ∀ bp ∈ bps, A bp) (hFree : ∀ bp ∈ freeParsers, A bp)
    (pre : List Block) (be : Block) (rest : List Block) (ob : List Block) (li i : Int)
    (hob : ob = pre ++ be :: rest) (hli : li = (ob.length : Int) - 1) (hi : i = (pre.length : Int))
    (thisParent : Nat) (blank : Bool) (bl' : List LineStat) (s : St) (c : RCur)
    (hop : s.pc.opened = ob) (hri : RI src s.r c) (hpad : PadOK c) (hst : Stable src A s) :
    OKE e (LLPost src A)
      ((do
        let lastNode ← liftE (blockAt ob li)
        let result ← openBlocksT pts thisParent blank
        if (result != OpenResult.paragraphContinuation) = true then do
            let __do_lift ← getPc
            closeBlocksT pts
                (if (Option.map (fun x => x.node) (slotAfter ob __do_lift.opened li.toNat) != some lastNode.node) = true then
                  li - 1
                else li)
                i
            pure (LineOutcome.next, bl')
          else pure (LineOutcome.next, bl') : M _) s) := by
  have hlen : ob.length = pre.length + rest.length + 1 := by rw [hob]; simp; omega
  have hliN : li = ((pre.length + rest.length : Nat) : Int) := by rw [hli, hlen]; omega
  have hlt : pre.length + rest.length < ob.length := by omega
  have hba : blockAt ob li = .ok ob[pre.length + rest.length] := by rw [hliN]; exact blockAt_ok ob _ hlt
  refine OKE.bind (OKE.of_okl (liftE_okl (P := fun a s' => a = ob[pre.length + rest.length] ∧ s' = s) hba ⟨rfl, rfl⟩)) (fun ln sy hy => ?_)
  obtain ⟨hln, hsy⟩ := hy
  subst sy
  have hlastmem : ln ∈ ob := by rw [hln]; exact List.getElem_mem _
  have hlast : ob.getLast? = some ln := by
    rw [hln, List.getLast?_eq_getElem?]
    have : ob.length - 1 = pre.length + rest.length := by omega
    rw [this]; exact List.getElem?_eq_getElem hlt
  have hob' := hop ▸ openBlocksT_oke sp hpts hNS hT hFree thisParent blank s c hri hpad hst
  refine OKE.bind hob' (fun res s1 h1 => ?_)
  obtain ⟨c1, new1, hria1, _, hw1, hleafy1, hcompat1, hpc1, htmp1⟩ := h1
  obtain ⟨hprec, hbec, hleafmid, hmidc⟩ := leafy_split (hob ▸ hop ▸ hst.leafy)
  by_cases hres : (res != OpenResult.paragraphContinuation) = true
  · rw [if_pos hres]
    refine OKE.bind (m := getPc) (P := fun pc sy => pc = s1.pc ∧ sy = s1) (OKE.ok ⟨rfl, rfl⟩) (fun pc sy hy => ?_)
    obtain ⟨hpc, hsy⟩ := hy
    subst pc sy
    have fin : ∀ s2 : St, (s2.pc.opened = pre ++ new1 ∧ ClosedT src (pre ++ new1) s1 s2) →
        OKE e (LLPost src A) ((pure (LineOutcome.next, bl') : M _) s2) := by
      intro s2 ⟨h2o, h2r, h2n, h2k, _, h2t, h2b⟩
      refine OKE.ok ⟨c1, by rw [h2r]; exact hria1, h2n, h2k, ?_, by rw [h2o]; exact leafy_append hprec hleafy1,
        (by rcases h2t with h | h
            · rw [h]; exact htmp1
            · exact h)⟩
      intro b hb
      rw [h2o] at hb
      refine ⟨h2b b hb, ?_⟩
      rcases List.mem_append.1 hb with h | h
      · exact (hst.blocks b (by rw [hop, hob]; exact List.mem_append_left _ h)).2
      · refine (hw1.blocks b ?_).2
        rcases hw1.shape with e | ⟨_, _, e⟩ <;> rw [e] <;> exact List.mem_append_right _ h
    rcases hw1.shape with e | ⟨hne, hnew, e⟩
    · -- nothing was popped: the stale slot still holds the old last block
      have hslot : slotAfter ob s1.pc.opened li.toNat = some ln := by
        unfold slotAfter
        rw [e, hliN, Int.toNat_natCast, List.getElem?_append_left hlt, List.getElem?_eq_getElem hlt, hln]
      rw [hslot]
      simp only [Option.map, bne_self_eq_false, Bool.false_eq_true, if_false]
      have hcb := closeBlocksT_oke sp hpts pre (be :: rest) new1 s1 (by rw [e, hob, List.append_assoc]) hria1.source hw1.nodes hw1.keys
        (fun b hb => hw1.blocks b (by rw [e, hob]; exact List.mem_append_left _ (List.mem_append_right _ hb))) hleafmid
        (fun _ _ _ => by rw [htmp1]; simp)
        (fun k hk => ⟨(hw1.blocks k (by
            rw [e, hob]; rcases List.mem_append.1 hk with h | h
            · exact List.mem_append_left _ (List.mem_append_left _ h)
            · exact List.mem_append_right _ h)).1, fun top htop => by
          rcases List.mem_append.1 hk with h | h
          · exact CompatT.of_container_left (hprec k h)
          · refine hcompat1 k h top ?_
            rw [hob]; exact List.mem_append_right _ (List.mem_of_getLast? htop)⟩)
      have harg : li = (pre.length : Int) + ((be :: rest).length : Int) - 1 := by rw [hliN]; simp; omega
      rw [harg, hi]
      exact OKE.bind hcb (fun _ s2 h2 => fin s2 h2)
    · -- the old last block was popped: the stale slot holds the first new block
      obtain ⟨x, xs, hx⟩ : ∃ x xs, new1 = x :: xs := by
        cases new1 with
        | nil => exact absurd rfl hnew
        | cons x xs => exact ⟨x, xs, rfl⟩
      have hdl : ob.dropLast.length = pre.length + rest.length := by rw [List.length_dropLast]; omega
      have hslot : slotAfter ob s1.pc.opened li.toNat = some x := by
        unfold slotAfter
        rw [e, hliN, Int.toNat_natCast, List.getElem?_append_right (by omega), hdl, Nat.sub_self, hx]
        rfl
      have hxne : (x.node == ln.node) = false := by
        have h1 := hw1.fresh x (by rw [hx]; simp)
        have h2 := hw1.oldlt ln hlastmem
        exact beq_false_of_ne (by omega)
      rw [hslot]
      have hcond : (Option.map (fun x => x.node) (some x) != some ln.node) = true := by
        simp only [Option.map, bne, Option.some_beq_some, hxne, Bool.not_false]
      rw [if_pos hcond]
      have hdrop : ob.dropLast = pre ++ (be :: rest).dropLast := by
        rw [hob]; exact List.dropLast_append_of_ne_nil (by simp)
      have hcb := closeBlocksT_oke sp hpts pre (be :: rest).dropLast new1 s1 (by rw [e, hdrop]) hria1.source hw1.nodes hw1.keys
        (fun b hb => hw1.blocks b (by rw [e, hdrop]; exact List.mem_append_left _ (List.mem_append_right _ hb)))
        (leafy_of_all hmidc) (fun _ _ _ => by rw [htmp1]; simp)
        (fun k hk => ⟨(hw1.blocks k (by
            rw [e, hdrop]; rcases List.mem_append.1 hk with h | h
            · exact List.mem_append_left _ (List.mem_append_left _ h)
            · exact List.mem_append_right _ h)).1, fun top htop =>
          CompatT.of_container (hmidc top (List.mem_of_getLast? htop))⟩)
      have harg : li - 1 = (pre.length : Int) + ((be :: rest).dropLast.length : Int) - 1 := by
        rw [hliN, List.length_dropLast]; simp
      rw [harg, hi]
      exact OKE.bind hcb (fun _ s2 h2 => fin s2 h2)
  · rw [if_neg hres]
    have hpcn : new1 = [] := hpc1 (by simpa using hres)
    subst hpcn
    have hop1 : s1.pc.opened = ob := by
      rcases hw1.shape with e | ⟨_, h, _⟩
      · rw [e, List.append_nil]
      · exact absurd rfl h
    exact OKE.ok ⟨c1, hria1, hw1.nodes, hw1.keys, hw1.blocks, by rw [hop1, ← hop]; exact hst.leafy, htmp1⟩

/-- the fall-through part of an iteration of the `for i` loop (the block at `i` did not continue, or is a paragraph) -/
theorem lineFT_oke (hT : ∀ ch ∈ src, ∀ bps, triggered ch = some bps → ∀ bp ∈ bps, A bp) (hFree : ∀ bp ∈ freeParsers, A bp)
    (parent : Nat) (pre : List Block) (be : Block) (rest : List Block) (ob : List Block) (li i : Int)
    (hob : ob = pre ++ be :: rest) (hli : li = (ob.length : Int) - 1) (hi : i = (pre.length : Int))
    (blank : Bool) (bl' : List LineStat) (s : St) (c : RCur)
    (hop : s.pc.opened = ob) (hri : RI src s.r c) (hpad : PadOK c) (hst : Stable src A s) :
    OKE e (LLPost src A)
      ((if (i != 0) = true then do
          let b ← liftE (blockAt ob (i - 1))
          let thisParent ← pure b.node
          let lastNode ← liftE (blockAt ob li)
          let result ← openBlocksT pts thisParent blank
          if (result != OpenResult.paragraphContinuation) = true then do
              let __do_lift ← getPc
              closeBlocksT pts
                  (if (Option.map (fun x => x.node) (slotAfter ob __do_lift.opened li.toNat) != some lastNode.node) = true then
                    li - 1
                  else li)
                  i
              pure (LineOutcome.next, bl')
            else pure (LineOutcome.next, bl')
        else do
          let thisParent ← pure parent
          let lastNode ← liftE (blockAt ob li)
          let result ← openBlocksT pts thisParent blank
          if (result != OpenResult.paragraphContinuation) = true then do
              let __do_lift ← getPc
              closeBlocksT pts
                  (if (Option.map (fun x => x.node) (slotAfter ob __do_lift.opened li.toNat) != some lastNode.node) = true then
                    li - 1
                  else li)
                  i
              pure (LineOutcome.next, bl')
            else pure (LineOutcome.next, bl') : M _) s) := by
  by_cases hi0 : (i != 0) = true
  · rw [if_pos hi0]
    have hpos : 1 ≤ pre.length := by
      have : i ≠ 0 := by simpa using hi0
      omega
    have hlt : pre.length - 1 < ob.length := by rw [hob]; simp; omega
    have hba : blockAt ob (i - 1) = .ok ob[pre.length - 1] := by
      have : i - 1 = ((pre.length - 1 : Nat) : Int) := by omega
      rw [this]; exact blockAt_ok ob _ hlt
    refine OKE.bind (OKE.of_okl (liftE_okl (P := fun a s' => a = ob[pre.length - 1] ∧ s' = s) hba ⟨rfl, rfl⟩)) (fun b sy hy => ?_)
    obtain ⟨_, hsy⟩ := hy
    subst sy
    simp only [pure_bind]
    exact lineTailT_oke sp hpts hNS hT hFree pre be rest ob li i hob hli hi b.node blank bl' s c hop hri hpad hst
  · rw [if_neg hi0]
    simp only [pure_bind]
    exact lineTailT_oke sp hpts hNS hT hFree pre be rest ob li i hob hli hi parent blank bl' s c hop hri hpad hst


theorem lineLoopT_oke (hT : ∀ ch ∈ src, ∀ bps, triggered ch = some bps → ∀ bp ∈ bps, A bp) (hFree : ∀ bp ∈ freeParsers, A bp)
    (parent : Nat) (ob : List Block) (li : Int) (hli : li = (ob.length : Int) - 1) :
    ∀ (rest pre : List Block) (i : Int) (bl : List LineStat) (s : St) (c : RCur), ob = pre ++ rest → i = (pre.length : Int) →
      s.pc.opened = ob → RI src s.r c → PadOK c → Stable src A s →
      OKE e (LLPost src A) (lineLoopT pts parent ob li rest i bl s) := by
  intro rest
  induction rest with
  | nil =>
    intro pre i bl s c _ _ _ hri _ hst
    unfold lineLoopT
    exact OKE.ok ⟨c, hri.toRIa, hst⟩
  | cons be rest ih =>
    intro pre i bl s c hob hi hop hri hpad hst
    unfold lineLoopT
    simp only []
    refine OKE.bind (OKE.of_okl (peekLine_okl hri)) (fun x s1 hx => ?_)
    obtain ⟨hx, r1, hs1, h1⟩ := hx
    subst hx hs1
    simp only
    have hst1 : Stable src A { s with r := r1 } := ⟨hst.nodes, ⟨hst.keys.tmp, hst.keys.fence⟩,
      fun b hb => ⟨⟨(hst.blocks b hb).1.lt, (hst.blocks b hb).1.kind, (hst.blocks b hb).1.para, (hst.blocks b hb).1.setext,
        (hst.blocks b hb).1.fenced⟩, (hst.blocks b hb).2⟩, hst.leafy, hst.tmp⟩
    cases hv : RCur.view src c with
    | none =>
      simp only []
      have hcb := closeBlocksT_oke sp hpts [] ob [] { s with r := r1 } (by simp [hop]) h1.source hst1.nodes hst1.keys
        (fun b hb => hst1.blocks b (by simpa [hop] using hb)) (hop ▸ hst.leafy)
        (fun _ _ _ => by have := hst1.tmp; rw [this]; simp) (by simp)
      have e1 : ((([] : List Block).length : Int) + (ob.length : Int) - 1) = li := by simp [hli]
      rw [e1] at hcb
      refine OKE.bind (m := closeBlocksT pts li 0) hcb (fun _ s2 h2 => ?_)
      obtain ⟨h2o, h2r, h2n, h2k, _, h2t, h2b⟩ := h2
      simp only [bind, StateT.bind, advanceLine_eq, Except.bind, pure, StateT.pure, Except.pure]
      have hri2 : RI src s2.r c := by rw [h2r]; exact h1
      refine OKE.ok ⟨_, (ri_advanceLine hri2).toRIa, h2n, ⟨h2k.tmp, h2k.fence⟩, ?_, ?_, ?_⟩
      · intro b hb; simp only [h2o, List.append_nil] at hb; cases hb
      · simp only [h2o, List.append_nil]; intro b hb; cases hb
      · show s2.pc.tmpPara = none
        rcases h2t with h | h
        · rw [h]; exact hst.tmp
        · exact h
    | some line =>
      simp only []
      have hp : c.p < src.length := view_some_lt src c hv
      refine OKE.bind (m := position) (P := fun _ sy => sy = { s with r := r1 }) (OKE.ok rfl) (fun pos sy hy => ?_)
      subst hy
      refine OKE.bind (m := getNode be.node) (P := fun n sy => n = nd { s with r := r1 } be.node ∧ sy = { s with r := r1 })
        (OKE.ok ⟨rfl, rfl⟩) (fun n sy hy => ?_)
      obtain ⟨hn, hsy⟩ := hy
      subst n sy
      have hbemem : be ∈ s.pc.opened := by rw [hop, hob]; simp
      by_cases hkind : ((nd { s with r := r1 } be.node).kind != Kind.paragraph) = true
      · rw [if_pos hkind]
        have hcs := sp.cont be.bp (hst.blocks be hbemem).2 be.node { s with r := r1 } c h1 hpad hp hst1.nodes hst1.keys
          (hst1.blocks be hbemem).1
        refine OKE.bind (OKE.of_okl hcs) (fun st s2 h2 => ?_)
        obtain ⟨c2, hria2, hpad2, _, _, hcase2⟩ := h2.ria
        have hop2 : s2.pc.opened = ob := by rw [h2.pc]; exact hop
        have hst2 : Stable src A s2 := ⟨h2.nodes, hst1.keys.ext h2.ext (.inl (by rw [h2.pc])) (.inl (by rw [h2.pc])),
          fun b hb => by
            rw [h2.pc] at hb
            have := hst1.blocks b hb
            exact ⟨this.1.ext h2.ext (fun hp' => by rw [h2.pc]; exact (this.1.setext hp').2)
              (fun hp' => by rw [h2.pc]; exact this.1.fenced hp'), this.2⟩,
          by rw [h2.pc]; exact hst1.leafy, by rw [h2.pc]; exact hst1.tmp⟩
        by_cases hcont : st.cont = true
        · rw [if_pos hcont]
          by_cases hch : (st.hasChildren && i == li) = true
          · rw [if_pos hch]
            simp only [Bool.and_eq_true] at hch
            have hri2 : RI src s2.r c2 := by
              rcases hcase2 with ⟨_, h⟩ | h
              · rw [hch.1] at h; cases h
              · exact h
            have hobk := openBlocksT_oke sp hpts hNS hT hFree be.node
              (isBlankLine (pos.fst - 1) i (bl ++ [{ lineNum := pos.fst, level := i, isBlank := isBlank line }])) s2 c2 hri2 hpad2 hst2
            refine OKE.bind hobk (fun res s3 h3 => ?_)
            obtain ⟨c3, new3, hria3, _, hw3, hleafy3, _, _, htmp3⟩ := h3
            -- `be` is the last opened block and a container: everything old is a container
            have hbec : be.bp.isContainer = true := by
              cases hc : be.bp.isContainer with
              | true => rfl
              | false => have := h2.leaf hc; rw [hch.1] at this; cases this
            have hrest : rest = [] := by
              have hii : i = li := by simpa using hch.2
              have : (ob.length : Int) = pre.length + rest.length + 1 := by rw [hob]; simp; omega
              have : rest.length = 0 := by omega
              exact List.length_eq_zero_iff.1 this
            have hallold : ∀ b ∈ ob, b.bp.isContainer = true := by
              intro b hb
              obtain ⟨hprec, _, _, _⟩ := leafy_split (hob ▸ hop ▸ hst.leafy)
              rw [hob, hrest] at hb
              rcases List.mem_append.1 hb with h | h
              · exact hprec b h
              · simp only [List.mem_singleton] at h; rw [h]; exact hbec
            refine OKE.ok ⟨c3, hria3, hw3.nodes, hw3.keys, hw3.blocks, ?_, htmp3⟩
            rw [hop2] at hw3
            rcases hw3.shape with e | ⟨_, _, e⟩
            · rw [e]; exact leafy_append hallold hleafy3
            · rw [e]; exact leafy_append (fun b hb => hallold b (List.dropLast_subset _ hb)) hleafy3
          · rw [if_neg hch]
            rw [if_pos (by rfl)]
            by_cases hhc : st.hasChildren = true
            · have hri2 : RI src s2.r c2 := by
                rcases hcase2 with ⟨_, h⟩ | h
                · rw [hhc] at h; cases h
                · exact h
              exact ih (pre ++ [be]) (i + 1) _ s2 c2 (by rw [hob]; simp) (by simp; omega) hop2 hri2 hpad2 hst2
            · -- a leaf that continues is the last opened block
              have hbec : be.bp.isContainer = false := by
                cases hc : be.bp.isContainer with
                | false => rfl
                | true => exact absurd (h2.cont hc hcont) hhc
              have hrest : rest = [] := by
                obtain ⟨_, hbe, _, _⟩ := leafy_split (hob ▸ hop ▸ hst.leafy)
                cases rest with
                | nil => rfl
                | cons r rs => have := hbe (by simp); rw [hbec] at this; cases this
              subst hrest
              unfold lineLoopT
              exact OKE.ok ⟨c2, hria2, hst2⟩
        · rw [if_neg hcont]
          rw [if_neg (by decide)]
          have hri2 : RI src s2.r c2 := by
            rcases hcase2 with ⟨h, _⟩ | h
            · exact absurd h hcont
            · exact h
          exact lineFT_oke sp hpts hNS hT hFree parent pre be rest ob li i hob hli hi _ _ s2 c2 hop2 hri2 hpad2 hst2
      · rw [if_neg hkind]
        rw [if_neg (by decide)]
        exact lineFT_oke sp hpts hNS hT hFree parent pre be rest ob li i hob hli hi _ _ { s with r := r1 } c hop h1 hpad hst1



theorem linesLoopT_oke (hT : ∀ ch ∈ src, ∀ bps, triggered ch = some bps → ∀ bp ∈ bps, A bp) (hFree : ∀ bp ∈ freeParsers, A bp)
    (parent : Nat) : ∀ (fuel : Nat) (bl : List LineStat) (s : St) (c : RCur), RI src s.r c → PadOK c → Stable src A s →
      OKE e (fun x s' => Stable src A s' ∧ (x.1 = false → s'.pc.opened = [] ∧ ∃ c', RI src s'.r c' ∧ PadOK c')) (linesLoopT pts parent fuel bl s) := by
  intro fuel
  induction fuel with
  | zero => intro _ _ _ _ _ _; exact .inl (.inr rfl)
  | succ fuel ih =>
    intro bl s c hri hpad hst
    unfold linesLoopT
    refine OKE.bind (m := getPc) (P := fun pc sy => pc = s.pc ∧ sy = s) (OKE.ok ⟨rfl, rfl⟩) (fun pc sy hy => ?_)
    obtain ⟨hpc, hsy⟩ := hy
    subst pc sy
    simp only []
    by_cases hl : (s.pc.opened.length == 0) = true
    · rw [if_pos hl]
      exact OKE.ok ⟨hst, fun _ => ⟨List.length_eq_zero_iff.1 (by simpa using hl), c, hri, hpad⟩⟩
    · rw [if_neg hl]
      have hll := lineLoopT_oke sp hpts hNS hT hFree parent s.pc.opened ((s.pc.opened.length : Int) - 1) rfl s.pc.opened [] 0 bl s c
        (by simp) (by simp) rfl hri hpad hst
      refine OKE.bind hll (fun x s1 h1 => ?_)
      obtain ⟨c1, hria1, hst1⟩ := h1
      obtain ⟨outcome, bl1⟩ := x
      cases outcome with
      | eof => exact OKE.ok ⟨hst1, fun h => by cases h⟩
      | next =>
        simp only []
        simp only [bind, StateT.bind, advanceLine_eq, Except.bind]
        exact ih bl1 _ _ (advanceLine_ria hria1) (padOK_advanceLine c1) (hst1.congr_r _)



theorem blocksLoopT_oke (hT : ∀ ch ∈ src, ∀ bps, triggered ch = some bps → ∀ bp ∈ bps, A bp) (hFree : ∀ bp ∈ freeParsers, A bp)
    (parent : Nat) : ∀ (fuel : Nat) (bl : List LineStat) (s : St) (c : RCur), RI src s.r c → PadOK c → Stable src A s →
      s.pc.opened = [] → OKE e (fun _ s' => Stable src A s') (blocksLoopT pts parent fuel bl s) := by
  intro fuel
  induction fuel with
  | zero => intro _ _ _ _ _ _ _; exact .inl (.inr rfl)
  | succ fuel ih =>
    intro bl s c hri hpad hst hemp
    unfold blocksLoopT
    have hskip : OKE e (fun (_ : Segment × Int × Bool) s1 => ∃ r1 c1, s1 = { s with r := r1 } ∧ RI src r1 c1 ∧ PadOK c1)
        (skipBlankLinesR s) := by
      unfold skipBlankLinesR
      rcases skipBlankLines_ri (src := src) (loopFuel s.r.source) 0 s.r c hri hpad with ⟨x, r', c', e, h1, h2⟩ | e
      · simp only [e, bind, Except.bind, pure, Except.pure]
        exact OKE.ok ⟨r', c', rfl, h1, h2⟩
      · simp only [e, bind, Except.bind]
        exact .inl (.inr rfl)
    refine OKE.bind hskip (fun x s1 h1 => ?_)
    obtain ⟨r1, c1, hs1, hri1, hpad1⟩ := h1
    subst hs1
    obtain ⟨seg, lines, ok⟩ := x
    have hst1 := hst.congr_r r1
    by_cases hok : (!ok) = true
    · simp only [hok, if_true]; exact OKE.ok hst1
    simp only [hok, Bool.false_eq_true, if_false]
    refine OKE.bind (m := position) (P := fun _ sy => sy = { s with r := r1 }) (OKE.ok rfl) (fun pos sy hy => ?_)
    subst hy
    refine OKE.bind (m := getPc) (P := fun pc sy => pc = s.pc ∧ sy = { s with r := r1 }) (OKE.ok ⟨rfl, rfl⟩) (fun pc sy hy => ?_)
    obtain ⟨hpc, hsy⟩ := hy
    subst pc sy
    refine OKE.bind (openBlocksT_oke sp hpts hNS hT hFree parent _ { s with r := r1 } c1 hri1 hpad1 hst1) (fun res s2 h2 => ?_)
    obtain ⟨c2, new2, hria2, _, hw2, hleafy2, _, _, htmp2⟩ := h2
    have hop2 : s2.pc.opened = new2 := by
      rcases hw2.shape with e | ⟨h, _, _⟩
      · rw [e]; simp only [hemp, List.nil_append]
      · exact absurd hemp h
    have hst2 : Stable src A s2 := ⟨hw2.nodes, hw2.keys, hw2.blocks, by rw [hop2]; exact hleafy2, htmp2⟩
    by_cases hres : (res != OpenResult.newBlocksOpened) = true
    · rw [if_pos hres]; exact OKE.ok hst2
    rw [if_neg hres]
    refine OKE.bind (m := advanceLine) (P := fun _ sy => sy = { s2 with r := s2.r.advanceLine }) (OKE.ok rfl) (fun _ sy hy => ?_)
    subst hy
    refine OKE.bind (linesLoopT_oke sp hpts hNS hT hFree parent fuel _ { s2 with r := s2.r.advanceLine } _ (advanceLine_ria hria2)
      (padOK_advanceLine c2) (hst2.congr_r _)) (fun x s3 h3 => ?_)
    obtain ⟨hst3, hret3⟩ := h3
    obtain ⟨ret, bl3⟩ := x
    by_cases hret : ret = true
    · simp only [hret, if_true]; exact OKE.ok hst3
    · simp only [hret, Bool.false_eq_true, if_false]
      obtain ⟨hemp3, c3, hri3, hpad3⟩ := hret3 (by simpa using hret)
      exact ih bl3 s3 c3 hri3 hpad3 hst3 hemp3

/-- **the block phase ends normally** (no Go panic, no contract-monitor failure) or runs out of fuel, and every line
    segment of every node lies inside the source -/
theorem runT_oke (hT : ∀ ch ∈ src, ∀ bps, triggered ch = some bps → ∀ bp ∈ bps, A bp) (hFree : ∀ bp ∈ freeParsers, A bp) :
    (∃ s, runT pts src = .ok s ∧ NodesOK src s) ∨ runT pts src = .error .loop ∨ runT pts src = .error e := by
  unfold runT parseBlocksT
  have hinit : Stable src A { (initSt src) with pc := { (initSt src).pc with opened := [] } } := by
    refine ⟨?_, ⟨?_, ?_⟩, ?_, ?_, rfl⟩
    · intro n hn
      simp only [initSt, List.mem_singleton] at hn
      subst hn
      exact ⟨by intro t ht; simp at ht, fun _ => rfl⟩
    · intro t h; simp [initSt] at h
    · intro f h; simp [initSt] at h
    · intro b hb; simp at hb
    · intro b hb; simp at hb
  have := blocksLoopT_oke sp hpts hNS hT hFree 0 (linesFuel src) [] { (initSt src) with pc := { (initSt src).pc with opened := [] } }
    RCur.init (ri_init src) (fun h => absurd rfl h) hinit rfl
  simp only [bind, StateT.bind, modPc, source, Except.bind, pure, StateT.pure, Except.pure]
  rcases this with (⟨_, s', e1, hs'⟩ | e1) | e1
  · left
    refine ⟨s', ?_, hs'.nodes⟩
    have e' : blocksLoopT pts 0 (linesFuel (initSt src).r.source) []
        { r := (initSt src).r, nodes := (initSt src).nodes, pc := { (initSt src).pc with opened := [] } } = .ok ((), s') := e1
    rw [e']; rfl
  · right; left
    have e' : blocksLoopT pts 0 (linesFuel (initSt src).r.source) []
        { r := (initSt src).r, nodes := (initSt src).nodes, pc := { (initSt src).pc with opened := [] } } = .error .loop := e1
    rw [e']; rfl
  · right; right
    have e' : blocksLoopT pts 0 (linesFuel (initSt src).r.source) []
        { r := (initSt src).r, nodes := (initSt src).nodes, pc := { (initSt src).pc with opened := [] } } = .error e := e1
    rw [e']; rfl


end tp

end GM.Blocks.T
