/-
  GM.Proof.ConvertHWFOpen — the contract of `Open` the close discipline needs, without any precondition on the state:
  when `bp.Open` answers a node, that node is FRESH (its index is at least the old store length), EXISTS in the new
  store, and has the kind the parser builds (`BP.kindOf`); and `Open` only reads the tree links (`bpOpen_open`).

  `OJ K m`: `m` answers `(none, _)` or the node a `newNode` of kind `K` inside `m` has just created;
  `RN node m`: the part of `Open` behind that `newNode`: answers `(none, _)` or `(some node, _)`.
-/
import GM.Proof.ConvertHWFPar

namespace GM.ConvertH
open GM GM.Text GM.Blocks

/-- the node kind a block parser builds -/
def BP.kindOf : BP → Blocks.Kind
  | .setext => .heading | .thematic => .thematicBreak | .list => .list | .listItem => .listItem
  | .code => .codeBlock | .atx => .heading | .fenced => .fencedCodeBlock | .blockquote => .blockquote
  | .html => .htmlBlock | .paragraph => .paragraph

abbrev OpenRes := Option Nat × PState

structure RN (node : Nat) (m : M OpenRes) : Prop where
  h : ∀ s a s', m s = .ok (a, s') → (a.1 = none ∨ a.1 = some node) ∧ LR s s'

theorem RN.bind {node : Nat} {α} {m : M α} {f : α → M OpenRes} (hm : Lk m) (hf : ∀ a, RN node (f a)) :
    RN node (m >>= f) := by
  constructor
  intro s b s'' h
  obtain ⟨a, s', h1, h2⟩ := bind_ok h
  obtain ⟨r1, r2⟩ := (hf a).h s' b s'' h2
  exact ⟨r1, (hm.h s a s' h1).trans r2⟩

theorem RN.pureSome (node : Nat) (st : PState) : RN node (Pure.pure (some node, st) : M OpenRes) :=
  ⟨fun s _ _ h => by cases h; exact ⟨Or.inr rfl, LR.refl s⟩⟩
theorem RN.pureNone (node : Nat) (st : PState) : RN node (Pure.pure (none, st) : M OpenRes) :=
  ⟨fun s _ _ h => by cases h; exact ⟨Or.inl rfl, LR.refl s⟩⟩
theorem RN.throw (node : Nat) (e : Panic) : RN node (throw e : M OpenRes) := ⟨fun _ _ _ h => by cases h⟩
theorem RN.ite {node : Nat} {c : Prop} [Decidable c] {a b : M OpenRes} (ha : RN node a) (hb : RN node b) :
    RN node (if c then a else b) := by split <;> assumption

structure OJ (K : Blocks.Kind) (m : M OpenRes) : Prop where
  h : ∀ s a s', m s = .ok (a, s') → LR s s' ∧
    ∀ id, a.1 = some id → s.nodes.length ≤ id ∧ id < s'.nodes.length ∧ (ndx s' id).kind = K

theorem OJ.bind {K : Blocks.Kind} {α} {m : M α} {f : α → M OpenRes} (hm : Lk m) (hf : ∀ a, OJ K (f a)) :
    OJ K (m >>= f) := by
  constructor
  intro s b s'' h
  obtain ⟨a, s', h1, h2⟩ := bind_ok h
  have l1 := hm.h s a s' h1
  obtain ⟨l2, r⟩ := (hf a).h s' b s'' h2
  refine ⟨l1.trans l2, fun id hid => ?_⟩
  obtain ⟨r1, r2, r3⟩ := r id hid
  exact ⟨Nat.le_trans l1.len r1, r2, r3⟩

theorem OJ.pureNone (K : Blocks.Kind) (st : PState) : OJ K (Pure.pure (none, st) : M OpenRes) :=
  ⟨fun s _ _ h => by cases h; exact ⟨LR.refl s, fun _ h => by cases h⟩⟩
theorem OJ.throw (K : Blocks.Kind) (e : Panic) : OJ K (throw e : M OpenRes) := ⟨fun _ _ _ h => by cases h⟩
theorem OJ.ite {K : Blocks.Kind} {c : Prop} [Decidable c] {a b : M OpenRes} (ha : OJ K a) (hb : OJ K b) :
    OJ K (if c then a else b) := by split <;> assumption

theorem OJ.new {K : Blocks.Kind} (n : Blocks.Node) {f : Nat → M OpenRes} (hk : n.kind = K) (hp : n.parent = none)
    (hc : n.children = []) (hf : ∀ node, RN node (f node)) : OJ K (newNode n >>= f) := by
  constructor
  intro s b s'' h
  obtain ⟨a, s', h1, h2⟩ := bind_ok h
  have l1 := (newNode_lk n hp hc).h s a s' h1
  obtain ⟨ea, es⟩ := newNode_ok h1
  obtain ⟨r1, l2⟩ := (hf a).h s' b s'' h2
  refine ⟨l1.trans l2, fun id hid => ?_⟩
  rcases r1 with r1 | r1
  · rw [r1] at hid; cases hid
  · rw [r1] at hid
    cases hid
    subst ea
    have hlt : s.nodes.length < s'.nodes.length := by rw [es]; simp
    refine ⟨Nat.le_refl _, Nat.lt_of_lt_of_le hlt l2.len, ?_⟩
    rw [l2.kind _ hlt, es, ndx_append]
    simp [hk]

macro "oj_step" : tactic =>
  `(tactic| first
    | exact OJ.pureNone _ _
    | exact OJ.throw _ _
    | exact RN.pureSome _ _
    | exact RN.pureNone _ _
    | exact RN.throw _ _
    | (refine OJ.new _ ?_ ?_ ?_ (fun _ => ?_) <;> first | rfl | skip)
    | (refine OJ.bind ?_ (fun _ => ?_))
    | (refine RN.bind ?_ (fun _ => ?_))
    | with_reducible apply OJ.ite
    | with_reducible apply RN.ite
    | lk_step)

macro "oj" : tactic => `(tactic| repeat' oj_step)

theorem paragraphOpen_oj (p : Nat) : OJ .paragraph (paragraphOpen p) := by unfold paragraphOpen; oj
theorem thematicOpen_oj (p : Nat) : OJ .thematicBreak (thematicOpen p) := by unfold thematicOpen; oj
theorem atxOpen_oj (p : Nat) : OJ .heading (atxOpen p) := by unfold atxOpen; oj
theorem setextOpen_oj (p : Nat) : OJ .heading (setextOpen p) := by
  have := lastOpenedBlock_lk
  unfold setextOpen; oj

theorem codeOpen_oj (p : Nat) : OJ .codeBlock (codeOpen p) := by
  have := codeTakeLine_lk
  unfold codeOpen; oj
theorem fencedOpen_oj (p : Nat) : OJ .fencedCodeBlock (fencedOpen p) := by unfold fencedOpen; oj
theorem blockquoteOpen_oj (p : Nat) : OJ .blockquote (blockquoteOpen p) := by
  have := blockquoteProcess_lk
  unfold blockquoteOpen; oj
theorem listOpen_oj (p : Nat) : OJ .list (listOpen p) := by
  have := lastOpenedBlock_lk
  unfold listOpen; oj
theorem listItemOpen_oj (p : Nat) : OJ .listItem (listItemOpen p) := by
  have := lastOffset_lk
  unfold listItemOpen; oj
theorem htmlOpen_oj (p : Nat) : OJ .htmlBlock (htmlOpen p) := by
  have := lastOpenedBlock_lk
  unfold htmlOpen; oj

theorem bpOpen_oj (bp : BP) (p : Nat) : OJ (BP.kindOf bp) (bpOpen bp p) := by
  cases bp <;> unfold bpOpen BP.kindOf
  · exact setextOpen_oj p
  · exact thematicOpen_oj p
  · exact listOpen_oj p
  · exact listItemOpen_oj p
  · exact codeOpen_oj p
  · exact atxOpen_oj p
  · exact fencedOpen_oj p
  · exact blockquoteOpen_oj p
  · exact htmlOpen_oj p
  · exact paragraphOpen_oj p

end GM.ConvertH
