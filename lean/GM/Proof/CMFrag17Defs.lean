/-
  GM.Proof.CMFrag17Defs — stage 17 (images inside the text lines): lines made of text atoms and image atoms
  `![t](d)`, as source bytes, as renderer nodes and as HTML. (Definitions only.)
-/
import GM.Proof.CMFrag16Defs

namespace GM.Proof.CMFrag
open GM GM.Text

/-- a piece of a line: literal text (source bytes that never consult an inline parser), or an image with the
    alternative text `t` and the destination `d` (no title) -/
inductive ImAtom where
  | txt (bs : Bytes)
  | img (t d : Bytes)
deriving Repr, Inhabited

/-- the source bytes of an atom: an image is written `![t](d)` -/
def imatomSrc : ImAtom → Bytes
  | .txt bs => bs
  | .img t d => [33, 91] ++ t ++ [93, 40] ++ d ++ [41]

def imlineSrc (as : List ImAtom) : Bytes := as.flatMap imatomSrc

def ImAtom.isTxt : ImAtom → Bool
  | .txt _ => true
  | .img _ _ => false

/-- text and image atoms alternate -/
def imalternating : List ImAtom → Bool
  | a :: b :: rest => (a.isTxt != b.isTxt) && imalternating (b :: rest)
  | _ => true

/-- an atom is well formed: text = non-empty bytes that are quiet at every position of a line (in particular no
    unescaped `!`, `[`, `]`), leaving the flag `escaped` cleared; image = non-empty letters and digits as alternative
    text, non-empty letters, digits and `/` as destination -/
def ImAtomOK : ImAtom → Prop
  | .txt bs => bs ≠ [] ∧ (∀ i, quiet bs i false = true) ∧ escAfter bs false = false
  | .img t d => (t ≠ [] ∧ ∀ c ∈ t, GM.Spec.CM.isAlnumC c = true) ∧ (d ≠ [] ∧ ∀ c ∈ d, isDestC16 c = true)

/-- a rich line: text atoms and images alternate, starting and ending with text; the first byte is a letter, the
    last byte neither white space nor a backslash -/
structure ImRichLine (as : List ImAtom) : Prop where
  alt : imalternating as = true
  first : ∃ bs rest, as = .txt bs :: rest ∧ ∀ c, bs.head? = some c → GM.Spec.CM.isLetter c = true
  last : ∃ init bs, as = init ++ [.txt bs] ∧ (∀ c, bs.getLast? = some c → isSpace c = false ∧ c ≠ 92)
  ok : ∀ a ∈ as, ImAtomOK a

/-- the nodes of one line as the renderer reads them; `soft`: the line is not the last of its paragraph -/
def imatomNodes (soft : Bool) : List ImAtom → List GM.Node
  | [] => []
  | [.txt bs] => [.mk (.text bs soft false false false) none []]
  | .txt bs :: rest => .mk (.text bs false false false false) none [] :: imatomNodes soft rest
  | .img t d :: rest =>
    .mk (.image d none) none [.mk (.text t false false false false) none []] :: imatomNodes soft rest

def imrichNodes : List (List ImAtom) → List GM.Node
  | [] => []
  | [l] => imatomNodes false l
  | l :: l' :: rest => imatomNodes true l ++ imrichNodes (l' :: rest)

/-- the HTML of one line (XHTML; a destination of letters, digits and `/` is written as it is, the alternative text
    is the text of the children) -/
def imatomHtml : ImAtom → Bytes
  | .txt bs => GM.write false bs
  | .img t d => strBytes "<img src=\"" ++ d ++ strBytes "\" alt=\"" ++ GM.write false t ++ strBytes "\" />"

def imrichLineHtml (as : List ImAtom) : Bytes := as.flatMap imatomHtml

end GM.Proof.CMFrag
