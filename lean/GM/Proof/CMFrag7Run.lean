/-
  GM.Proof.CMFrag7Run — stage 7: the two claims of stage 6 for documents whose last line has no line feed.
-/
import GM.Proof.CMFrag12Last

namespace GM.Proof.CMFrag
open GM GM.Text GM.Blocks GM.Spec

/-- a stage-6 document in a source WITHOUT final line feed: the last block's last line ends the source -/
def DocAt6E (src : Bytes) : Nat → List (Nat × Raw5) → Nat → Prop
  | _, [], _ => False
  | q, [(s, b)], trail => trail = 0 ∧ BlanksAt src q s ∧ ParaAtE src (q + s) (lines5 b)
  | q, (s, b) :: it :: rest, trail =>
    BlanksAt src q s ∧ ParaAt src (q + s) (lines5 b) ∧
      DocAt6E src (q + s + (paraBytes (lines5 b)).length) (it :: rest) trail

section run7
variable {src : Bytes}

theorem claim7_last (HA : AtxOpenE) (HH : HrOpenE) (HX : FenceCloseE) (b : Raw5) :
    ∀ s, Claim6 node5E (DocAt6E src) src [(s, b)] := by
  have hB : ∀ s, ClaimB node5E (DocAt6E src) src [(s, b)] := by
    intro s trail q k fb bl d cs pc hd hgood _ _ hf hop
    obtain ⟨ht, hbl, hE⟩ := hd
    subst ht
    have hg : Good5 b := hgood (s, b) (by simp)
    obtain ⟨f, rfl⟩ : ∃ f, fb = f + 1 := ⟨fb - 1, by omega⟩
    simp only [left6] at hf
    have key : ∃ s' bk, blocksLoopT pts 0 (f + 1) bl ⟨rdr src k q q (lineEnd src q) none (-1), d :: cs, pc⟩ = .ok ((), s') ∧
        s'.nodes = { d with children := d.children ++ [cs.length + 1] } :: (cs ++ [node5E (q + s) b bk]) ∧
        s'.pc.refs = pc.refs := by
      cases b with
      | old b' =>
        cases b' with
        | para ls =>
          exact lastB_para ls hg.1 hg.2 ⟨hbl, hE⟩ k f bl d cs pc hop (by simp [lines5, lines4] at hf; omega)
        | atx level l =>
          exact lastB_leaf HA HH (.old (.atx level l)) trivial hg ⟨hbl, hE⟩ k f bl d cs pc hop (by simp [lines5, lines4] at hf; omega)
        | hr h =>
          exact lastB_leaf HA HH (.old (.hr h)) trivial hg ⟨hbl, hE⟩ k f bl d cs pc hop (by simp [lines5, lines4] at hf; omega)
      | fence fc n info ls =>
        have hE' : ParaAtE src (q + s) (((List.replicate (n + 3) fc ++ info) :: ls) ++ [List.replicate (n + 3) fc]) := by
          simpa [lines5] using hE
        obtain ⟨hpa, _⟩ := (paraAtE_snoc _ _ (q + s)).mp hE'
        have hl0 : Ln src (q + s) (q + s + (List.replicate (n + 3) fc ++ info).length + 1)
            (firstLine (.fence fc n info ls)) := by simpa [firstLine, lines5] using hpa.1
        obtain ⟨BL, bk, eopen⟩ := open_any hbl _ hg hl0 k d cs pc hop bl f
        obtain ⟨s', h1, h2, h3⟩ := fence_tail_last HX fc n info ls hg (q + s) _ hl0 hE (k + s + 1) f f BL d cs bk pc
          (by simp [lines5] at hf; omega) (by omega)
        exact ⟨s', bk, by rw [eopen]; exact h1, h2, h3⟩
      | icode ls =>
        exact lastB_ic ls hg.1 hg.2 ⟨hbl, hE⟩ k f bl d cs pc hop (by simp [lines5, icLines] at hf; omega)
    obtain ⟨s', bk, h1, h2, h3⟩ := key
    refine ⟨s', [bk], h1, rfl, ?_, h3⟩
    rw [h2]
    simp [addKids, mkNodes5L, closedOf6]
  have hO : ∀ s, ClaimO node5E (DocAt6E src) src [(s, b)] := by
    intro s
    induction s with
    | zero =>
      intro trail q x xc pbp k fl fb bl d rest0 pc pic hprev hd hgood hseps hpic hic hfl hfb hop
      obtain ⟨ht, hbl, hE⟩ := hd
      subst ht
      have hg : Good5 b := hgood (0, b) (by simp)
      simp only [left6] at hfl hfb
      simp only [Nat.add_zero] at hE
      have hab : AbutOK5 (x.kind == .paragraph) b := hseps.1 rfl
      have key : ∃ s' bk, tailT fl fb bl ⟨rdr src k q q (lineEnd src q) none (-1), d :: (rest0 ++ [x]), pc⟩ = .ok ((), s') ∧
          s'.nodes = { d with children := d.children ++ [(rest0 ++ [xc]).length + 1] } ::
            ((rest0 ++ [xc]) ++ [node5E q b bk]) ∧ s'.pc.refs = pc.refs := by
        cases b with
        | old b' =>
          cases b' with
          | para ls =>
            exact lastO_para ls hg.1 hg.2 hprev hab (by simpa [lines5, lines4] using hE) k fl fb bl d rest0 pc hop
              (by simp [lines5, lines4] at hfl; omega)
          | atx level l =>
            exact lastO_leaf HA HH (.old (.atx level l)) trivial hg hprev hab hE k fl fb bl d rest0 pc hop (by simp [lines5, lines4] at hfl; omega)
          | hr h =>
            exact lastO_leaf HA HH (.old (.hr h)) trivial hg hprev hab hE k fl fb bl d rest0 pc hop (by simp [lines5, lines4] at hfl; omega)
        | fence fc n info ls =>
          have hE' : ParaAtE src q (((List.replicate (n + 3) fc ++ info) :: ls) ++ [List.replicate (n + 3) fc]) := by
            simpa [lines5] using hE
          obtain ⟨hpa, _⟩ := (paraAtE_snoc _ _ q).mp hE'
          have hl0 : Ln src q (q + (List.replicate (n + 3) fc ++ info).length + 1)
              (firstLine (.fence fc n info ls)) := by simpa [firstLine, lines5] using hpa.1
          obtain ⟨fl', rfl⟩ : ∃ fl', fl = fl' + 1 := ⟨fl - 1, by omega⟩
          obtain ⟨BL, bk, eab⟩ := abut_any hprev _ hg hl0 hab (fun _ => rfl) k d rest0 pc hop bl fl'
          obtain ⟨s', h1, h2, h3⟩ := fence_tail_last HX fc n info ls hg q _ hl0 hE (k + 1) fl' fb BL d (rest0 ++ [xc]) bk pc
            (by simp [lines5] at hfl; omega) (by omega)
          exact ⟨s', bk, by rw [tailT_congr eab]; exact h1, h2, h3⟩
        | icode ls =>
          have hnc : pbp ≠ .code := fun h => by
            have := hic.1 (hpic h); simp [isIcB] at this
          exact lastO_ic ls hg.1 hg.2 hprev hab hnc hE k fl fb bl d rest0 pc hop (by simp [lines5, icLines] at hfl; omega)
      obtain ⟨s', bk, h1, h2, h3⟩ := key
      refine ⟨s', [bk], h1, rfl, ?_, h3⟩
      rw [h2]
      simp [addKids, mkNodes5L, closedOf6]
    | succ s' ihs =>
      intro trail q x xc pbp k fl fb bl d rest0 pc pic hprev hd hgood hseps hpic hic hfl hfb hop
      obtain ⟨ht, hbl, hE⟩ := hd
      subst ht
      have hg : Good5 b := hgood (s' + 1, b) (by simp)
      simp only [left6] at hfl hfb
      obtain ⟨hln, hb'⟩ := hbl
      have eqs : q + 1 + s' = q + (s' + 1) := by omega
      have hd' : DocAt6E src (q + 1) [(s', b)] 0 := ⟨rfl, hb', by rw [eqs]; exact hE⟩
      have hgood' : ∀ it ∈ [(s', b)], Good5 it.2 := by
        intro it hit; simp only [List.mem_singleton] at hit; subst hit; exact hg
      by_cases hcode : pbp = .code
      · subst hcode
        obtain ⟨fl', rfl⟩ : ∃ fl', fl = fl' + 1 := ⟨fl - 1, by omega⟩
        obtain ⟨x', bl', hprev', e1⟩ := code_absorb hprev hln d rest0 k fl' bl pc hop
        have hk' := hprev'.code_kind
        obtain ⟨s2, bs, r1, r2, r3, r4⟩ :=
          ihs 0 (q + 1) x' xc .code (k + 1) fl' fb bl' d rest0 pc pic hprev' hd' hgood'
            (by rw [hk']; exact ⟨fun _ => abutOK5_false b, trivial⟩) hpic hic
            (by simp only [left6]; omega) (by simp only [left6]; omega) hop
        refine ⟨s2, bs, by rw [tailT_congr e1]; exact r1, r2, ?_, r4⟩
        rw [r3, closedOf6_shift]
        simp
      · obtain ⟨ret, bl', s1, h1, h2, h3, h4, h5⟩ :=
          prev_end hprev d rest0 k fl bl pc (Or.inr hln) (by omega) hop hcode
        rw [tailT_of_lines h1]
        rcases h5 with ⟨_, hq⟩ | ⟨hr, _, k', hk'⟩
        · exfalso; have := hln.le; omega
        · subst hr
          have es1 : s1 = ⟨rdr src k' (q + 1) (q + 1) (lineEnd src (q + 1)) none (-1), d :: (rest0 ++ [xc]), s1.pc⟩ := by
            cases s1; simp only at hk' h2 ⊢; rw [hk', h2]
          obtain ⟨s2, bs, r1, r2, r3, r4⟩ :=
            hB s' 0 (q + 1) k' fb bl' d (rest0 ++ [xc]) s1.pc hd' hgood' trivial
              ⟨fun h => Bool.noConfusion h, trivial⟩ (by simp only [left6]; omega) h3
          refine ⟨s2, bs, ?_, r2, ?_, by rw [r4, h4]⟩
          · simp only [Bool.false_eq_true, if_false]
            rw [es1]; exact r1
          · rw [r3, closedOf6_shift]
            simp
  exact fun s => ⟨hB s, hO s⟩

/-- the last block of the document is not an indented code block (stage 12: an indented code block whose last line has
    no line feed is not covered) -/
def LastNotIc : List (Nat × Raw5) → Prop
  | [] => True
  | [(_, b)] => isIcB b = false
  | _ :: it :: rest => LastNotIc (it :: rest)

theorem lastNotIc_of_none : ∀ (items : List (Nat × Raw5)), (∀ it ∈ items, isIcB it.2 = false) → LastNotIc items
  | [], _ => trivial
  | [(s, b)], h => h (s, b) (by simp)
  | _ :: it :: rest, h => lastNotIc_of_none (it :: rest) (fun x hx => h x (by simp [hx]))

theorem node5E_of_notIc (b : Raw5) (h : isIcB b = false) (p : Nat) (bk : Bool) : node5E p b bk = node5 p b bk := by
  cases b with
  | old b' => rfl
  | fence fc n info ls => rfl
  | icode ls => simp [isIcB] at h

theorem lastNotIc_getLast : ∀ (items : List (Nat × Raw5)), LastNotIc items →
    ∀ b, (items.map (·.2)).getLast? = some b → isIcB b = false
  | [], _, b, h => by simp at h
  | [(s, b0)], hl, b, h => by
    simp at h; subst h; exact hl
  | _ :: it :: rest, hl, b, h => by
    rw [List.map_cons, List.map_cons, List.getLast?_cons_cons] at h
    exact lastNotIc_getLast (it :: rest) hl b (by simpa using h)

/-- both claims for every non-empty document without final line feed -/
theorem claim7_all (HA : AtxOpenE) (HH : HrOpenE) (HX : FenceCloseE) :
    ∀ (items : List (Nat × Raw5)), items ≠ [] → Claim6 node5E (DocAt6E src) src items
  | [], h => absurd rfl h
  | [(s, b)], _ => claim7_last HA HH HX b s
  | (s, b) :: it :: rest, _ =>
    claim6_cons node5E (DocAt6E src) (it :: rest) (claim7_all HA HH HX (it :: rest) (by simp)) b
      (fun h => by simp at h) (fun _ _ _ => Iff.rfl) s
end run7

end GM.Proof.CMFrag
