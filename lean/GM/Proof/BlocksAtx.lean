/-
  GM.Proof.BlocksAtx — atxHeadingParser.Open (atx_heading.go:82-166, the parser DefaultBlockParsers builds):
  no Go panic, whatever `BlockOffset` the context holds. The delicate site is the backward loop
  `for ; line[i] == '#' && i >= start; i-- {}` (line[i] is read before `i >= start`): it stops above 0
  because `start ≥ 1`.
-/
import GM.Proof.BlocksPara

namespace GM.Blocks
open GM GM.Text GM.Spec GM.Proof.Reader

theorem countLeading_le (c : UInt8) (l : Bytes) : countLeading c l ≤ l.length :=
  length_takeWhile_le'' _ l

theorem scanWhileEq_bounds (line : Bytes) (c : UInt8) (pos : Int) (h0 : 0 ≤ pos) :
    pos ≤ scanWhileEq line c pos ∧
      (scanWhileEq line c pos ≠ pos → pos < line.length ∧ scanWhileEq line c pos ≤ line.length) := by
  unfold scanWhileEq
  have hn : ¬ pos < 0 := by omega
  rw [if_neg hn]
  have := countLeading_le c (line.drop pos.toNat)
  simp only [List.length_drop] at this
  refine ⟨by omega, fun hne => ?_⟩
  have hpos : 0 < countLeading c (line.drop pos.toNat) := by omega
  omega

theorem sliceFrom_ok (l : Bytes) (a : Int) (h0 : 0 ≤ a) (h1 : a ≤ l.length) :
    sliceFrom l a = .ok (l.drop a.toNat) := by
  unfold sliceFrom; rw [if_pos ⟨h0, h1⟩]

theorem slice_ok' (l : Bytes) (a b : Int) (h0 : 0 ≤ a) (h1 : a ≤ b) (h2 : b ≤ l.length) :
    ∃ v, slice l a b = .ok v := by
  unfold slice sliceB; rw [if_pos ⟨h0, h1, h2⟩]; exact ⟨_, rfl⟩

theorem atxBackLoop_ok (line : Bytes) (start : Int) (hs : 1 ≤ start) : ∀ k : Nat, k ≤ line.length → start ≤ k →
    ∃ r, atxBackLoop line start k = .ok r ∧ start - 1 ≤ r ∧ r ≤ (k : Int) - 1 := by
  intro k
  induction k with
  | zero => intro _ h; omega
  | succ k ih =>
    intro hk hsk
    unfold atxBackLoop
    obtain ⟨b, hb, _⟩ := idx_ok line (k : Int) (by omega) (by omega)
    rw [hb]
    simp only [bind, Except.bind, pure, Except.pure]
    by_cases hc : (b == 35 && decide ((k : Int) ≥ start)) = true
    · rw [if_pos hc]
      have hge : start ≤ (k : Int) := by
        simp only [Bool.and_eq_true, decide_eq_true_eq] at hc; exact hc.2
      obtain ⟨r, hr, h1, h2⟩ := ih (by omega) hge
      exact ⟨r, hr, h1, by omega⟩
    · rw [if_neg hc]
      exact ⟨_, rfl, by omega, by omega⟩

theorem trimRightSpaceLength_le (l : Bytes) : trimRightSpaceLength l ≤ l.length := by
  unfold trimRightSpaceLength
  have := length_takeWhile_le'' isSpace l.reverse
  simpa using this


/-- atxHeadingParser.Open: total on an `RI` reader, for any context; it moves neither cursor nor context -/
theorem atxOpen_okl {src} {s : St} {c : RCur} (h : RI src s.r c) (parent : Nat) :
    OKL (fun a s' => ∃ r', s'.r = r' ∧ RI src r' c ∧ s'.pc = s.pc ∧ a.2 = stNoChildren)
      (atxOpen parent s) := by
  unfold atxOpen
  refine OKL.bind (peekLine_okl h) (fun x s1 hx => ?_)
  obtain ⟨hx, r1, hs1, h1⟩ := hx
  subst hx hs1
  simp only
  refine OKL.bind (m := getPc) (P := fun v s' => v = s.pc ∧ s' = { s with r := r1 }) (OKL.ok ⟨rfl, rfl⟩) (fun pc s2 hv => ?_)
  obtain ⟨hv, hs2⟩ := hv
  subst hv hs2
  by_cases hc0 : s.pc.blockOffset < 0
  · rw [if_pos hc0]
    exact OKL.ok ⟨r1, rfl, h1, rfl, rfl⟩
  · rw [if_neg hc0]
    generalize hline : (RCur.view src c).getD [] = line
    have hpos0 : 0 ≤ s.pc.blockOffset := by omega
    obtain ⟨hsb1, hsb2⟩ := scanWhileEq_bounds line 35 s.pc.blockOffset hpos0
    generalize hi : scanWhileEq line 35 s.pc.blockOffset = i at hsb1 hsb2 ⊢
    have fin : ∀ (v : Option Nat × PState) (nodes : List Node), v.2 = stNoChildren →
        OKL (fun a s' => ∃ r', s'.r = r' ∧ RI src r' c ∧ s'.pc = s.pc ∧ a.2 = stNoChildren)
          (.ok (v, { r := r1, nodes := nodes, pc := s.pc })) :=
      fun v nodes hv => OKL.ok ⟨r1, rfl, h1, rfl, hv⟩
    by_cases hc1 : (i == s.pc.blockOffset || decide (i - s.pc.blockOffset > 6)) = true
    · rw [if_pos hc1]; exact fin _ _ rfl
    · rw [if_neg hc1]
      have hne : i ≠ s.pc.blockOffset := by
        intro e; apply hc1; simp [e]
      obtain ⟨hplt, hile⟩ := hsb2 hne
      by_cases hc2 : (i == (line.length : Int)) = true
      · rw [if_pos hc2]
        simp only [bind, StateT.bind, newNode, pure, StateT.pure, Except.bind, Except.pure]
        exact fin _ _ rfl
      · rw [if_neg hc2]
        have hilt : i < line.length := by
          have : i ≠ (line.length : Int) := by intro e; apply hc2; simp [e]
          omega
        have hsf := sliceFrom_ok line i (by omega) hile
        simp only [bind, StateT.bind, liftE, hsf, Except.map, Except.bind]
        generalize trimLeftSpaceLength (List.drop i.toNat line) = ln
        by_cases hc3 : (((ln : Int)) == 0) = true
        · rw [if_pos hc3]; exact fin _ _ rfl
        · rw [if_neg hc3]
          generalize hstart : (if i + (ln : Int) ≥ (line.length : Int) then (line.length : Int) - 1 else i + (ln : Int)) = start
          have hst1 : 1 ≤ start := by rw [← hstart]; split <;> omega
          have hst2 : start < line.length := by rw [← hstart]; split <;> omega
          have htr := trimRightSpaceLength_le line
          generalize hstop0 : ((line.length : Int) - (trimRightSpaceLength line : Int)) = stop0
          have hs0 : stop0 ≤ line.length := by omega
          simp only [bind, StateT.bind, newNode, pure, StateT.pure, Except.pure, Except.bind]
          by_cases hc4 : stop0 ≤ start
          · rw [if_pos hc4]
            obtain ⟨v, hv⟩ := slice_ok' line start start (by omega) (Int.le_refl _) (by omega)
            simp only [bind, StateT.bind, Except.bind, liftE, hv, Except.map, pure, StateT.pure, Except.pure]
            split
            · simp only [appendLine, modNode, pure, StateT.pure, Except.pure]; exact fin _ _ rfl
            · exact fin _ _ rfl
          · rw [if_neg hc4]
            obtain ⟨r, hr, hr1, hr2⟩ := atxBackLoop_ok line start hst1 stop0.toNat (by omega) (by omega)
            obtain ⟨cc, hcc, _⟩ := idx_ok line r (by omega) (by omega)
            simp only [bind, StateT.bind, Except.bind, liftE, hr, hcc, Except.map, pure, StateT.pure, Except.pure]
            generalize hi2 : (if (r != stop0 - 1 && !isSpace cc) = true then stop0 - 1 else r) = i2
            have hi2b : start - 1 ≤ i2 ∧ i2 ≤ stop0 - 1 := by rw [← hi2]; split <;> omega
            obtain ⟨v, hv⟩ := slice_ok' line start (i2 + 1) (by omega) (by omega) (by omega)
            simp only [hv]
            split
            · simp only [appendLine, modNode, pure, StateT.pure, Except.pure]; exact fin _ _ rfl
            · exact fin _ _ rfl

end GM.Blocks
