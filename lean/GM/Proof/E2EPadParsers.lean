/-
  GM.Proof.E2EPadParsers — the padding relation `P0` through the five default inline parsers (code span, emphasis, link /
  image incl. reference forms, autolink, raw HTML). Every segment they record is a record literal (padding 0), or
  `withStart` / `withStop` of the reader's position or of a recorded segment.
-/
import GM.Proof.E2EPadInl

namespace GM.E2E.Pad
open GM GM.Text GM.Inl GM.Proof.InlinesTotal GM.Proof.Inlines

instance : P0 St := ⟨fun st => P0.p st.rd ∧ P0.p st.kids⟩
instance : P0 LinkInfo := ⟨fun i => P0.p i.kids⟩

/-! ### code spans -/

theorem csLoop_p0 (opener : Nat) (l : Int) (pos startSegment : Segment) (hpos : pos.padding = 0)
    (hss : startSegment.padding = 0) : ∀ (fuel : Nat) {rd : BlockReader} (kids : List Node), P0.p rd → P0.p kids →
    OKP (csLoop opener l pos startSegment fuel rd kids)
  | 0, _, _, _, _ => by unfold csLoop; exact OKP.error _
  | fuel + 1, rd, kids, hr, hk => by
    unfold csLoop
    refine OKP.bind (peekLine_p0 hr) (fun a ha => ?_)
    obtain ⟨⟨line, segment⟩, rd1⟩ := a
    obtain ⟨⟨_, hseg⟩, hr1⟩ := ha
    try simp only
    split
    · refine OKP.bind (setPosition_p0 l pos (.inr hpos) hr1) (fun rd2 hr2 => ?_)
      exact OKP.pure ⟨(p0_textOf _).mpr (p0_withStop hss _), hr2⟩
    · split
      · refine OKP.bind (advance_p0 _ hr1) (fun rd2 hr2 => ?_)
        refine OKP.pure ⟨?_, hr2⟩
        show P0.p (α := List Node) _
        split
        · exact (p0_append _ _).mpr ⟨hk, (p0_cons _ _).mpr ⟨(p0_rawTextOf _).mpr (p0_withStop hseg _), p0_nil⟩⟩
        · exact hk
      · refine OKP.bind (advanceLine_p0 hr1) (fun rd2 hr2 => ?_)
        exact csLoop_p0 opener l pos startSegment hpos hss fuel _ hr2
          ((p0_append _ _).mpr ⟨hk, (p0_cons _ _).mpr ⟨(p0_rawTextOf _).mpr hseg, p0_nil⟩⟩)

theorem csTrim_p0 (src : Bytes) {kids : List Node} (hk : P0.p kids) : OKP (csTrim src kids) := by
  have hk2 : ∀ ks : List Node, P0.p ks → P0.p (match ks with
      | Node.text seg s h r :: rest => Node.text (seg.withStart (seg.start + 1)) s h r :: rest
      | k => k) := by
    intro ks hks
    split
    · rename_i seg s h r rest
      have := (p0_cons _ _).mp hks
      exact (p0_cons _ _).mpr ⟨(p0_text _ _ _ _).mpr (p0_withStart ((p0_text _ _ _ _).mp this.1) _), this.2⟩
    · exact hks
  unfold csTrim
  refine OKP.bind' (β := List Node) (fun blank => ?_)
  refine OKP.ite (OKP.pure hk) ?_
  dsimp only
  split
  · refine OKP.bind' (β := List Node) (fun first => ?_)
    split
    · refine OKP.bind' (β := List Node) (fun last => ?_)
      refine OKP.bind' (β := List Node) (fun a => ?_)
      refine OKP.bind' (β := List Node) (fun b => ?_)
      refine OKP.ite (OKP.pure hk) ?_
      split
      · rename_i seg s h r hl
        have hseg := (p0_text _ _ _ _).mp (p0_getLast (hk2 kids hk) hl)
        exact OKP.pure ((p0_append _ _).mpr ⟨p0_dropLast (hk2 kids hk),
          (p0_cons _ _).mpr ⟨(p0_text _ _ _ _).mpr (p0_withStop hseg _), p0_nil⟩⟩)
      · exact OKP.pure (hk2 kids hk)
    · exact OKP.throw_bind _ _
    · exact OKP.throw_bind _ _
  · exact OKP.throw_bind _ _
  · exact OKP.throw_bind _ _

theorem parseCodeSpan_p0 {rd : BlockReader} (hr : P0.p rd) : OKP (parseCodeSpan rd) := by
  unfold parseCodeSpan
  refine OKP.bind (peekLine_p0 hr) (fun a ha => ?_)
  obtain ⟨⟨line, startSegment⟩, rd1⟩ := a
  obtain ⟨⟨_, hss⟩, hr1⟩ := ha
  try simp only
  refine OKP.bind (advance_p0 _ hr1) (fun rd2 hr2 => ?_)
  try simp only
  refine OKP.bind (csLoop_p0 _ _ _ startSegment (position_p0 hr2) hss _ [] hr2 p0_nil) (fun x hx => ?_)
  obtain ⟨res, rd3⟩ := x
  obtain ⟨hres, hr3⟩ := hx
  try simp only
  split
  · rename_i t
    exact OKP.pure ⟨(p0_some _).mpr hres, hr3⟩
  · rename_i kids
    refine OKP.bind (csTrim_p0 _ hres) (fun kids' hk' => ?_)
    exact OKP.pure ⟨(p0_some _).mpr ((p0_codeSpan _).mpr hk'), hr3⟩

/-! ### emphasis -/

theorem parseEmphasis_p0 (env : Env) (id : Nat) {rd : BlockReader} (hr : P0.p rd) : OKP (parseEmphasis env id rd) := by
  unfold parseEmphasis
  refine OKP.bind' (fun before => ?_)
  refine OKP.bind (peekLine_p0 hr) (fun a ha => ?_)
  obtain ⟨⟨line, segment⟩, rd1⟩ := a
  obtain ⟨⟨_, hseg⟩, hr1⟩ := ha
  try simp only
  refine OKP.bind' (fun d => ?_)
  split
  · exact OKP.pure ⟨p0_none, hr1⟩
  · rename_i d'
    try simp only
    refine OKP.bind (advance_p0 _ hr1) (fun rd2 hr2 => ?_)
    exact OKP.pure ⟨(p0_some _).mpr ((p0_delim _ _).mpr (p0_withStop hseg _)), hr2⟩

/-! ### autolinks -/

theorem parseAutoLink_p0 {rd : BlockReader} (hr : P0.p rd) : OKP (parseAutoLink rd) := by
  unfold parseAutoLink
  refine OKP.bind (peekLine_p0 hr) (fun a ha => ?_)
  obtain ⟨⟨line, segment⟩, rd1⟩ := a
  obtain ⟨⟨_, hseg⟩, hr1⟩ := ha
  dsimp only
  refine OKP.ite (OKP.throw_bind _ _) ?_
  split <;>
    (repeat' (first
      | exact OKP.pure ⟨p0_none, hr1⟩
      | refine OKP.ite ?_ ?_
      | (refine OKP.bind (advance_p0 _ hr1) (fun rd2 hr2 => ?_)
         exact OKP.pure ⟨(p0_some _).mpr ((p0_autoLink _ _).mpr rfl), hr2⟩)))

/-! ### raw HTML -/

theorem rhSegments_p0 (sline : Int) (ssegment : Segment) (eline : Int) (esegment : Segment) :
    ∀ (fuel : Nat) {rd : BlockReader} (acc : List Segment), P0.p rd → P0.p acc →
    OKP (rhSegments sline ssegment eline esegment fuel rd acc)
  | 0, _, _, _, _ => by unfold rhSegments; exact OKP.error _
  | fuel + 1, rd, acc, hr, ha => by
    unfold rhSegments
    refine OKP.bind (peekLine_p0 hr) (fun a haa => ?_)
    obtain ⟨⟨line, segment⟩, rd1⟩ := a
    obtain ⟨⟨_, hseg⟩, hr1⟩ := haa
    try simp only
    split
    · exact OKP.pure ⟨ha, hr1⟩
    · try simp only
      have hacc : ∀ a b : Int, P0.p (acc ++ [({ start := a, stop := b } : Segment)]) := fun a b =>
        (p0_append _ _).mpr ⟨ha, (p0_cons _ _).mpr ⟨rfl, p0_nil⟩⟩
      split
      · refine OKP.bind (advance_p0 _ hr1) (fun rd2 hr2 => ?_)
        exact OKP.pure ⟨hacc _ _, hr2⟩
      · refine OKP.bind (advanceLine_p0 hr1) (fun rd2 hr2 => ?_)
        exact rhSegments_p0 sline ssegment eline esegment fuel _ hr2 (hacc _ _)

theorem parseTag_p0 (matcher : Bytes → Option Nat) {rd : BlockReader} (hr : P0.p rd) : OKP (parseTag matcher rd) := by
  unfold parseTag
  try simp only
  refine OKP.bind' (fun stream => ?_)
  refine OKP.bind (setPosition_p0 _ _ (.inr (position_p0 hr)) hr) (fun rd1 hr1 => ?_)
  split
  · exact OKP.pure ⟨p0_none, hr1⟩
  · refine OKP.bind (advance_p0 _ hr1) (fun rd2 hr2 => ?_)
    try simp only
    refine OKP.bind (setPosition_p0 _ _ (.inr (position_p0 hr)) hr2) (fun rd3 hr3 => ?_)
    refine OKP.bind (rhSegments_p0 _ _ _ _ _ [] hr3 p0_nil) (fun x hx => ?_)
    obtain ⟨segs, rd4⟩ := x
    exact OKP.pure ⟨(p0_some _).mpr ((p0_rawHTML _).mpr hx.1), hx.2⟩

theorem rhUntil_p0 (closer : Bytes) (savedLine : Int) (savedSegment : Segment) (hs : savedSegment.padding = 0) :
    ∀ (fuel offset : Nat) {rd : BlockReader} (acc : List Segment), P0.p rd → P0.p acc →
    OKP (rhUntil closer savedLine savedSegment fuel offset rd acc)
  | 0, _, _, _, _, _ => by unfold rhUntil; exact OKP.error _
  | fuel + 1, offset, rd, acc, hr, ha => by
    unfold rhUntil
    refine OKP.bind (peekLine_p0 hr) (fun a haa => ?_)
    obtain ⟨⟨line, segment⟩, rd1⟩ := a
    obtain ⟨⟨_, hseg⟩, hr1⟩ := haa
    try simp only
    split
    · refine OKP.bind (setPosition_p0 _ _ (.inr hs) hr1) (fun rd2 hr2 => ?_)
      exact OKP.pure ⟨p0_none, hr2⟩
    · split
      · try simp only
        refine OKP.bind (advance_p0 _ hr1) (fun rd2 hr2 => ?_)
        exact OKP.pure ⟨(p0_some _).mpr ((p0_append _ _).mpr ⟨ha, (p0_cons _ _).mpr ⟨p0_withStop hseg _, p0_nil⟩⟩), hr2⟩
      · refine OKP.bind (advanceLine_p0 hr1) (fun rd2 hr2 => ?_)
        exact rhUntil_p0 closer savedLine savedSegment hs fuel 0 _ hr2
          ((p0_append _ _).mpr ⟨ha, (p0_cons _ _).mpr ⟨hseg, p0_nil⟩⟩)

/-- the continuation behind `rhUntil` in parseComment / parseUntil -/
macro "raw_until" hr:ident : tactic =>
  `(tactic| (refine OKP.bind (rhUntil_p0 _ _ _ (position_p0 $hr) _ _ [] $hr p0_nil) (fun x hx => ?_)
             split
             · exact OKP.pure ⟨(p0_some _).mpr ((p0_rawHTML _).mpr (hx.1 _ (by assumption))), hx.2⟩
             · exact OKP.pure ⟨p0_none, hx.2⟩))

theorem parseRawHTML_p0 {rd : BlockReader} (hr : P0.p rd) : OKP (parseRawHTML rd) := by
  unfold parseRawHTML
  refine OKP.bind (peekLine_p0 hr) (fun a ha => ?_)
  obtain ⟨⟨line, segment⟩, rd1⟩ := a
  obtain ⟨⟨_, hseg⟩, hr1⟩ := ha
  dsimp only
  refine OKP.ite (parseTag_p0 _ hr1) ?_
  refine OKP.ite (parseTag_p0 _ hr1) ?_
  refine OKP.ite ?_ ?_
  · refine OKP.ite ?_ ?_
    · refine OKP.bind (advance_p0 _ hr1) (fun rd2 hr2 => ?_)
      exact OKP.pure ⟨(p0_some _).mpr ((p0_rawHTML _).mpr ((p0_cons _ _).mpr ⟨p0_withStop hseg _, p0_nil⟩)), hr2⟩
    · refine OKP.ite ?_ ?_
      · refine OKP.bind (advance_p0 _ hr1) (fun rd2 hr2 => ?_)
        exact OKP.pure ⟨(p0_some _).mpr ((p0_rawHTML _).mpr ((p0_cons _ _).mpr ⟨p0_withStop hseg _, p0_nil⟩)), hr2⟩
      · raw_until hr1
  · refine OKP.ite ?_ ?_
    · raw_until hr1
    · refine OKP.ite ?_ ?_
      · raw_until hr1
      · refine OKP.ite ?_ ?_
        · raw_until hr1
        · exact OKP.pure ⟨p0_none, hr1⟩

end GM.E2E.Pad
