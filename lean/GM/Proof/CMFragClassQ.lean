/-
  GM.Proof.CMFragClassQ — the source `spellK d` of a stage-10 document's contents (`QFrag d`) is in the class
  `GM.Blocks.C08Class` of the block-quote simulation (GM.Proof.QuoteSimTop): no tab, no carriage return, a final line
  feed, no byte that could start a list item; and it contains no `[`.
-/
import GM.Proof.QuoteSimTop
import GM.Proof.CMFrag6Main
namespace GM.Proof.CMFrag
open GM GM.Spec.CM GM.Spec.CMFrag

/-- what `qcleanByte` says about one byte -/
theorem qclean_facts : ∀ c : UInt8, qcleanByte c = true →
    c ≠ 9 ∧ c ≠ 13 ∧ c ≠ 91 ∧ (c ≠ 45 ∧ c ≠ 42 ∧ c ≠ 43 ∧ isNumeric c = false) := by
  apply forall_uint8; decide +kernel

theorem qfrag_partsQ (d : KDoc) (h : QFrag d) :
    KFrag d ∧ d.items ≠ [] ∧ ∀ c ∈ spellK d, qcleanByte c = true := by
  have := h
  simp only [QFrag, qfragB, Bool.and_eq_true, List.all_eq_true, Bool.not_eq_true', List.isEmpty_eq_false_iff] at this
  exact ⟨this.1.1, this.1.2, this.2⟩

/-! ### the source ends with a line feed -/

/-- the byte string ends with a line feed -/
def EndsNlQ (s : Bytes) : Prop := ∃ t, s = t ++ [10]

theorem EndsNlQ.getLast {s : Bytes} (h : EndsNlQ s) : s.getLast? = some 10 := by
  obtain ⟨t, rfl⟩ := h; simp

theorem EndsNlQ.prepend {s : Bytes} (h : EndsNlQ s) (a : Bytes) : EndsNlQ (a ++ s) := by
  obtain ⟨t, rfl⟩ := h; exact ⟨a ++ t, by simp⟩

theorem EndsNlQ.trailQ {s : Bytes} (h : EndsNlQ s) (n : Nat) : EndsNlQ (s ++ GM.Spec.CMFrag.blanks n) := by
  cases n with
  | zero => simpa [GM.Spec.CMFrag.blanks] using h
  | succ k =>
    refine ⟨s ++ List.replicate k 10, ?_⟩
    rw [GM.Spec.CMFrag.blanks, List.replicate_succ', List.append_assoc]

theorem endsNl_flatMapQ {α : Type} (f : α → Bytes) (xs : List α) (hne : xs ≠ []) (hf : ∀ x ∈ xs, EndsNlQ (f x)) :
    EndsNlQ (xs.flatMap f) := by
  have e : xs = xs.dropLast ++ [xs.getLast hne] := (List.dropLast_concat_getLast hne).symm
  rw [e, List.flatMap_append]
  refine EndsNlQ.prepend ?_ _
  simpa using hf _ (List.getLast_mem hne)

theorem endsNl_spellHBlockQ (b : HBlock) (hok : hblockOK b = true) : EndsNlQ (spellHBlock b) := by
  cases b with
  | base g =>
    cases g with
    | para lines =>
      simp only [hblockOK, gblockOK, Bool.and_eq_true, Bool.not_eq_true', List.isEmpty_eq_false_iff] at hok
      rw [spellHBlock, spellGBlock]
      exact endsNl_flatMapQ _ lines hok.1 (fun l _ => ⟨escSpell l, rfl⟩)
    | heading level text => exact ⟨_, rfl⟩
    | thematic c n => exact ⟨_, rfl⟩
  | fcode tilde n info lines => exact ⟨_, rfl⟩

theorem endsNl_spellKQ (d : KDoc) (hok : ∀ it ∈ d.items, hblockOK it.block = true) (hne : d.items ≠ []) :
    EndsNlQ (spellK d) := by
  rw [spellK]
  refine EndsNlQ.trailQ ?_ _
  exact endsNl_flatMapQ _ d.items hne (fun it hit => (endsNl_spellHBlockQ it.block (hok it hit)).prepend _)

/-! ### the class -/

/-- the contents of a stage-10 document are in the class of the block-quote simulation -/
theorem qclean_class (d : KDoc) (h : QFrag d) : GM.Blocks.C08Class (spellK d) := by
  obtain ⟨hk, hne, hc⟩ := qfrag_partsQ d h
  exact
    { tf := fun c hcm => (qclean_facts c (hc c hcm)).1
      cr := fun c hcm => (qclean_facts c (hc c hcm)).2.1
      nl := (endsNl_spellKQ d (kfrag_okK d hk).1 hne).getLast
      nolist := fun c hcm => (qclean_facts c (hc c hcm)).2.2.2 }

/-- no `[` in the contents: no link reference definition, no link -/
theorem qclean_no_bracket (d : KDoc) (h : QFrag d) : ∀ c ∈ spellK d, c ≠ 91 :=
  fun c hcm => (qclean_facts c ((qfrag_partsQ d h).2.2 c hcm)).2.2.1

theorem qfrag_kfrag (d : KDoc) (h : QFrag d) : KFrag d := (qfrag_partsQ d h).1

theorem qfrag_items_ne (d : KDoc) (h : QFrag d) : d.items ≠ [] := (qfrag_partsQ d h).2.1

end GM.Proof.CMFrag
