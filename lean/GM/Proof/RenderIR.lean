/-
  GM.Proof.RenderIR — helper lemmas for property C10: the renderer model factors through the
  option-independent piece list of GM.Model.RenderIR. Core Lean only.
-/
import GM.Model.RenderIR

namespace GM.Proof
open GM

/-! ### option propagation -/

/-- the html.Config every node renderer ends up with -/
def cfgOf (x h u esc : Bool) : HCfg := { hardWraps := h, ea := 0, xhtml := x, unsafe_ := u, escSpace := esc }

/-- the renderer state in which every copy holds the same values -/
def flat (x h u esc : Bool) (a : Nat) (e : Exts) : RCfg :=
  { core := cfgOf x h u esc, task := cfgOf x h u esc, strike := cfgOf x h u esc, dl := cfgOf x h u esc,
    foot := cfgOf x h u esc, table := cfgOf x h u esc, tableAlign := a, exts := e }

theorem setOpts_default (o : Opts) (hea : o.ea = none) :
    ({} : HCfg).setOpts o = cfgOf o.xhtml o.hardWraps o.unsafe_ (o.writerEsc.getD false) := by
  cases o with
  | mk h x u ea w ta =>
    cases h <;> cases x <;> cases u <;> cases w <;> simp_all [HCfg.setOpts, cfgOf]

theorem mkRCfg_copies (o : Opts) (e : Exts) :
    (mkRCfg o e).core = ({} : HCfg).setOpts o ∧ (mkRCfg o e).task = ({} : HCfg).setOpts o ∧
    (mkRCfg o e).strike = ({} : HCfg).setOpts o ∧ (mkRCfg o e).dl = ({} : HCfg).setOpts o ∧
    (mkRCfg o e).foot = ({} : HCfg).setOpts o ∧ (mkRCfg o e).table = ({} : HCfg).setOpts o ∧
    (mkRCfg o e).tableAlign = o.tableAlign.getD 0 ∧ (mkRCfg o e).exts = e ∧ (mkRCfg o e).footc = {} := by
  refine ⟨rfl, rfl, rfl, rfl, rfl, rfl, ?_, rfl, rfl⟩
  simp only [mkRCfg, RCfg.propagate]
  cases o.tableAlign <;> rfl

theorem mkRCfg_flat (o : Opts) (e : Exts) (a : Nat) (hea : o.ea = none) (hta : o.tableAlign = some a) :
    mkRCfg o e = flat o.xhtml o.hardWraps o.unsafe_ (o.writerEsc.getD false) a e := by
  simp only [mkRCfg, RCfg.propagate, flat, setOpts_default o hea, hta]

theorem refCfg_flat (e : Exts) (a : Nat) (esc : Bool) : refCfg e a esc = flat false false false esc a e := by
  rw [refCfg, mkRCfg_flat { tableAlign := some a, writerEsc := some esc } e a rfl rfl]
  rfl

@[simp] theorem flat_core (x h u esc : Bool) (a : Nat) (e : Exts) : (flat x h u esc a e).core = cfgOf x h u esc := rfl
@[simp] theorem flat_task (x h u esc : Bool) (a : Nat) (e : Exts) : (flat x h u esc a e).task = cfgOf x h u esc := rfl
@[simp] theorem flat_foot (x h u esc : Bool) (a : Nat) (e : Exts) : (flat x h u esc a e).foot = cfgOf x h u esc := rfl
@[simp] theorem flat_table (x h u esc : Bool) (a : Nat) (e : Exts) : (flat x h u esc a e).table = cfgOf x h u esc := rfl
@[simp] theorem flat_footc (x h u esc : Bool) (a : Nat) (e : Exts) : (flat x h u esc a e).footc = {} := rfl
@[simp] theorem flat_exts (x h u esc : Bool) (a : Nat) (e : Exts) : (flat x h u esc a e).exts = e := rfl
@[simp] theorem flat_tableAlign (x h u esc : Bool) (a : Nat) (e : Exts) : (flat x h u esc a e).tableAlign = a := rfl
@[simp] theorem cfgOf_xhtml (x h u esc : Bool) : (cfgOf x h u esc).xhtml = x := rfl
@[simp] theorem cfgOf_hardWraps (x h u esc : Bool) : (cfgOf x h u esc).hardWraps = h := rfl
@[simp] theorem cfgOf_unsafeFlag (x h u esc : Bool) : (cfgOf x h u esc).unsafe_ = u := rfl
@[simp] theorem cfgOf_escSpace (x h u esc : Bool) : (cfgOf x h u esc).escSpace = esc := rfl
@[simp] theorem cfgOf_ea (x h u esc : Bool) : (cfgOf x h u esc).ea = 0 := rfl

/-! ### byte literals -/

theorem lit_voidSp : strBytes " /> " = strBytes " />" ++ [32] := by decide +kernel
theorem lit_gtSp : strBytes "> " = [62, 32] := by decide +kernel
theorem lit_voidNl : strBytes " />\n" = strBytes " />" ++ [10] := by decide +kernel
theorem lit_gtNl : strBytes ">\n" = [62, 10] := by decide +kernel
theorem lit_brX : strBytes "<br />\n" = strBytes "<br" ++ (strBytes " />" ++ [10]) := by decide +kernel
theorem lit_br : strBytes "<br>\n" = strBytes "<br" ++ [62, 10] := by decide +kernel
theorem lit_hrX : strBytes "\n<hr />\n" ++ strBytes "<ol>\n" = strBytes "\n<hr" ++ (strBytes " />" ++ strBytes "\n<ol>\n") := by
  decide +kernel
theorem lit_hr : strBytes "\n<hr>\n" ++ strBytes "<ol>\n" = strBytes "\n<hr" ++ (62 :: strBytes "\n<ol>\n") := by
  decide +kernel

/-! ### one node renderer call -/

theorem tableCellHead_flat (x h u esc : Bool) (a : Nat) (e : Exts) (ha : a ≠ 0) (align : Nat)
    (attrs : Option (List Attr)) :
    tableCellHead (flat x h u esc a e) align attrs = tableCellHead (flat false false false esc a e) align attrs := by
  simp [tableCellHead, ha]

theorem enter_factor (x h u esc : Bool) (a : Nat) (e : Exts) (ha : a ≠ 0) (ph : Bool) (next : Option Node)
    (k : Kind) (attrs : Option (List Attr)) (cs : List Node) :
    enter (flat x h u esc a e) ph next k attrs cs =
      (enterIR e a esc ph next k attrs cs).flatMap (emit x h u) := by
  unfold enter enterIR
  simp only [flat_exts, refCfg_flat]
  by_cases hk : handled e k = true
  · simp only [hk, Bool.not_true, Bool.false_eq_true, if_false]
    cases k <;> simp [enter, hk, emit, hardWrap, emitBase, voidEndBytes, fnrefId, footIdPrefix,
      tableCellHead_flat x h u esc a e ha]
    case htmlBlock => rfl
    case autoLink => rfl
    case image => rfl
    case link => rfl
    case rawHTML => rfl
    case thematicBreak => cases x <;> simp [lit_voidNl, lit_gtNl]
    case taskCheckBox => cases x <;> simp [lit_voidSp, lit_gtSp]
    case footnoteList => cases x <;> simp [lit_hrX, lit_hr]
    case text v soft hard raw cjk =>
      cases raw <;> cases hard <;> cases soft <;> cases h <;> cases x <;>
        simp [emit, hardWrap, emitBase, voidEndBytes, lit_brX, lit_br]
  · simp [hk]


theorem leave_factor (x h u esc : Bool) (a : Nat) (e : Exts) (ph : Bool) (next : Option Node)
    (k : Kind) (cs : List Node) :
    leave (flat x h u esc a e) ph next k cs = (leaveIR e a esc ph next k cs).flatMap (emit x h u) := by
  unfold leave leaveIR
  simp only [flat_exts, refCfg_flat]
  by_cases hk : handled e k = true
  · simp only [hk, Bool.not_true, Bool.false_eq_true, if_false]
    cases k <;> simp [leave, hk, emit, hardWrap, emitBase]
    case htmlBlock lines closure =>
      cases closure
      · simp
      · simp [emit, hardWrap, emitBase]; rfl
  · simp [hk]

/-! ### the walk -/

mutual
theorem renderNode_factor (x h u esc : Bool) (a : Nat) (e : Exts) (ha : a ≠ 0) (ph : Bool) (next : Option Node) :
    (t : Node) → renderNode (flat x h u esc a e) ph next t = (irNode e a esc ph next t).flatMap (emit x h u)
  | .mk k attrs cs => by
    have ih := renderNodes_factor x h u esc a e ha k.isTableHeader cs
    simp only [renderNode, irNode, List.flatMap_append, enter_factor x h u esc a e ha, leave_factor, flat_exts]
    by_cases hs : (handled e k && skipsChildren k) = true
    · simp only [hs, if_true, List.flatMap_nil]
    · simp only [hs, ih]; rfl
theorem renderNodes_factor (x h u esc : Bool) (a : Nat) (e : Exts) (ha : a ≠ 0) (ph : Bool) :
    (cs : List Node) → renderNodes (flat x h u esc a e) ph cs = (irNodes e a esc ph cs).flatMap (emit x h u)
  | [] => by simp [renderNodes, irNodes]
  | c :: rest => by
    simp only [renderNodes, irNodes, List.flatMap_append, renderNode_factor x h u esc a e ha ph rest.head? c,
      renderNodes_factor x h u esc a e ha ph rest]
end

/-- the factorisation, for the configuration produced by option propagation -/
theorem render_factor (o : Opts) (e : Exts) (a : Nat) (hea : o.ea = none) (hta : o.tableAlign = some a)
    (ha : a ≠ 0) (t : Node) :
    render (mkRCfg o e) t =
      (ir e a (o.writerEsc.getD false) t).flatMap (emit o.xhtml o.hardWraps o.unsafe_) := by
  rw [mkRCfg_flat o e a hea hta]
  exact renderNode_factor _ _ _ _ a e ha false none t

/-! ### the three clauses -/

theorem flatMap_emit (x h u : Bool) (ps : List Piece) :
    ps.flatMap (emit x h u) = (ps.flatMap (hardWrap h)).flatMap (emitBase x u) := by
  rw [List.flatMap_assoc]; rfl

/-- XHTML, one piece: only the void end reads it -/
theorem emitBase_xhtml (x u : Bool) (p : Piece) (hp : p.isVoidEnd = false) : emitBase x u p = emitBase false u p := by
  cases p <;> simp_all [emitBase, Piece.isVoidEnd]

theorem emitBase_xhtml_fun (x u : Bool) :
    emitBase x u = fun p => if p.isVoidEnd then voidEndBytes x else emitBase false u p := by
  funext p
  cases p <;> simp [emitBase, Piece.isVoidEnd]

/-- HardWraps, one piece: only the soft break reads it -/
theorem emit_hardWraps (x h u : Bool) (p : Piece) (hp : p.isSoftBreak = false) : emit x h u p = emit x false u p := by
  cases p <;> simp_all [emit, hardWrap, Piece.isSoftBreak]

theorem emit_softBreak_hard (x u : Bool) :
    emit x true u .softBreak = strBytes "<br" ++ voidEndBytes x ++ emit x false u .softBreak := by
  simp [emit, hardWrap, emitBase]

theorem emit_hardWraps_fun (x u : Bool) :
    emit x true u = fun p => (if p.isSoftBreak then strBytes "<br" ++ voidEndBytes x else []) ++ emit x false u p := by
  funext p
  cases p <;> simp [emit, hardWrap, emitBase, Piece.isSoftBreak]

/-- Unsafe, one piece: only raw HTML and dangerous destinations read it -/
theorem emit_unsafeOff (x h u : Bool) (p : Piece) (hp : p.unsafeSensitive = false) : emit x h u p = emit x h false p := by
  cases p <;> simp_all [emit, hardWrap, emitBase, Piece.unsafeSensitive, urlOut]
  case softBreak => cases h <;> simp [emitBase]

theorem emit_unsafe_fun (x h u : Bool) :
    emit x h u = fun p => if p.unsafeSensitive then emit x h u p else emit x h false p := by
  funext p
  by_cases hp : p.unsafeSensitive = true
  · simp [hp]
  · simp [hp, emit_unsafeOff x h u p (by simpa using hp)]

theorem flatMap_emit_unsafe_noop (x h : Bool) (ps : List Piece) (hps : ∀ p ∈ ps, p.unsafeSensitive = false) :
    ps.flatMap (emit x h true) = ps.flatMap (emit x h false) := by
  induction ps with
  | nil => rfl
  | cons p ps ih =>
    simp only [List.flatMap_cons]
    rw [emit_unsafeOff x h true p (hps p (by simp)), ih (fun q hq => hps q (by simp [hq]))]

/-! ### trees without raw HTML and dangerous destinations have no sensitive piece -/

theorem enterIR_unsafeFree (e : Exts) (a : Nat) (esc ph : Bool) (next : Option Node) (k : Kind)
    (attrs : Option (List Attr)) (cs : List Node) (hk : k.unsafeFree = true) :
    ∀ p ∈ enterIR e a esc ph next k attrs cs, p.unsafeSensitive = false := by
  unfold enterIR
  by_cases hh : handled e k = true
  · simp only [hh, Bool.not_true, Bool.false_eq_true, if_false]
    cases k <;> simp_all [Kind.unsafeFree, Piece.unsafeSensitive]
    case text v soft hard raw cjk =>
      cases raw <;> cases hard <;> cases soft <;> simp
  · simp [hh]

theorem leaveIR_unsafeFree (e : Exts) (a : Nat) (esc ph : Bool) (next : Option Node) (k : Kind)
    (cs : List Node) (hk : k.unsafeFree = true) :
    ∀ p ∈ leaveIR e a esc ph next k cs, p.unsafeSensitive = false := by
  unfold leaveIR
  by_cases hh : handled e k = true
  · simp only [hh, Bool.not_true, Bool.false_eq_true, if_false]
    cases k <;> simp_all [Kind.unsafeFree, Piece.unsafeSensitive]
  · simp [hh]

mutual
theorem irNode_unsafeFree (e : Exts) (a : Nat) (esc ph : Bool) (next : Option Node) :
    (t : Node) → t.unsafeFree = true → ∀ p ∈ irNode e a esc ph next t, p.unsafeSensitive = false
  | .mk k attrs cs, ht => by
    simp only [Node.unsafeFree, Bool.and_eq_true] at ht
    intro p hp
    simp only [irNode, List.mem_append] at hp
    rcases hp with (hp | hp) | hp
    · exact enterIR_unsafeFree e a esc ph next k attrs cs ht.1 p hp
    · split at hp
      · simp at hp
      · exact irNodes_unsafeFree e a esc k.isTableHeader cs ht.2 p hp
    · exact leaveIR_unsafeFree e a esc ph next k cs ht.1 p hp
theorem irNodes_unsafeFree (e : Exts) (a : Nat) (esc ph : Bool) :
    (cs : List Node) → Node.unsafeFreeList cs = true → ∀ p ∈ irNodes e a esc ph cs, p.unsafeSensitive = false
  | [], _ => by simp [irNodes]
  | c :: rest, ht => by
    simp only [Node.unsafeFreeList, Bool.and_eq_true] at ht
    intro p hp
    simp only [irNodes, List.mem_append] at hp
    rcases hp with hp | hp
    · exact irNode_unsafeFree e a esc ph rest.head? c ht.1 p hp
    · exact irNodes_unsafeFree e a esc ph rest ht.2 p hp
end

/-! ### without the proviso: an XHTML-on rendering is never shorter than the XHTML-off rendering of the same pieces -/

theorem voidEndBytes_true : voidEndBytes true = [32, 47, 62] := by decide +kernel

theorem lit_void_len : (strBytes " />").length = 3 := by decide +kernel

theorem emit_len_mono (h u : Bool) (p : Piece) : (emit false h u p).length ≤ (emit true h u p).length := by
  cases p <;> cases h <;> simp [emit, hardWrap, emitBase, voidEndBytes, lit_void_len]

theorem flatMap_emit_len_mono (h u : Bool) (ps : List Piece) :
    (ps.flatMap (emit false h u)).length ≤ (ps.flatMap (emit true h u)).length := by
  induction ps with
  | nil => simp
  | cons p ps ih =>
    simp only [List.flatMap_cons, List.length_append]
    have := emit_len_mono h u p
    omega

end GM.Proof
