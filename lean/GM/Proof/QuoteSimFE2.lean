/-
  GM.Proof.QuoteSimFE2 — unary store facts for GM.Proof.QuoteSimFEDefs.
  * `Benign I`: `I` is kept by the reader / context writes, by every `modNode` that keeps `children` and `parent`, and by
    `newNode` of a node without children and parent. `Open` / `Continue` of all ten parsers keep every benign `I`
    (`bn_bpOpen`, `bn_bpContinue`). Instances: `QE q`, `RU U X`.
  * `RU U X`: `RStore`, every `id` with `U id` is `Unref`, every `x` with `X x` is in range and is no `U` id.
    Kept by the tree operations and by `Close` of all ten parsers, `closeLoop`, `closeBlocks`.
  * `OPU`: the node an `Open` returns is `Unref`.
-/
import GM.Proof.QuoteSimFEDefs
import GM.Proof.QuoteSimInvPL

namespace GM.Blocks
open GM GM.Text

/-! ### list helpers -/

theorem getD_set_node (l : List Node) (i q : Nat) (x : Node) :
    (l.set i x).getD q default = if i = q ∧ i < l.length then x else l.getD q default := by
  simp only [List.getD_eq_getElem?_getD, List.getElem?_set]
  by_cases h : i = q
  · subst h
    by_cases hl : i < l.length
    · simp [hl]
    · simp [hl]
  · simp [h]

theorem getD_append_node (l : List Node) (q : Nat) (x : Node) :
    (l ++ [x]).getD q default = if q < l.length then l.getD q default else if q = l.length then x else default := by
  simp only [List.getD_eq_getElem?_getD]
  by_cases h : q < l.length
  · rw [List.getElem?_append_left h, if_pos h]
  · rw [if_neg h]
    by_cases h2 : q = l.length
    · subst h2; simp
    · rw [if_neg h2]
      have : (l ++ [x])[q]? = none := by
        apply List.getElem?_eq_none
        simp; omega
      rw [this]; rfl

/-! ### benign invariants -/

structure Benign (I : St → Prop) : Prop where
  noR : NoR I
  pc : ∀ s (f : Ctx → Ctx), I s → I { s with pc := f s.pc }
  mn : ∀ (i : Nat) (f : Node → Node), (∀ n, (f n).children = n.children ∧ (f n).parent = n.parent) → Keeps I (modNode i f)
  nn : ∀ n : Node, n.children = [] → n.parent = none → Keeps I (newNode n)

theorem bn_modPc {I : St → Prop} (hI : Benign I) (f : Ctx → Ctx) : Keeps I (modPc f) := by
  intro s a s' hs h; cases h; exact hI.pc s f hs

theorem bn_modNode {I : St → Prop} (hI : Benign I) (i : Nat) (f : Node → Node)
    (hf : ∀ n, (f n).children = n.children ∧ (f n).parent = n.parent) : Keeps I (modNode i f) := hI.mn i f hf

theorem bn_newNode {I : St → Prop} (hI : Benign I) (n : Node) (hc : n.children = []) (hp : n.parent = none) :
    Keeps I (newNode n) := hI.nn n hc hp

theorem bn_appendLine {I : St → Prop} (hI : Benign I) (id : Nat) (seg : Segment) : Keeps I (appendLine id seg) :=
  hI.mn id _ (fun _ => ⟨rfl, rfl⟩)

/-! ### the invariant `RU` -/

/-- the ids stored in `n` are `< L` and are no `U` ids -/
def NOK (U : Nat → Prop) (L : Nat) (n : Node) : Prop :=
  (∀ c ∈ n.children, c < L ∧ ∀ id, U id → c ≠ id) ∧ (∀ p, n.parent = some p → p < L ∧ ∀ id, U id → p ≠ id)

def RUn (U X : Nat → Prop) (nodes : List Node) : Prop :=
  (∀ n ∈ nodes, NOK U nodes.length n) ∧
  (∀ id, U id → id < nodes.length ∧ (nodes.getD id default).children = []) ∧
  (∀ x, X x → x < nodes.length ∧ ∀ id, U id → x ≠ id)

def RU (U X : Nat → Prop) : St → Prop := fun s => RUn U X s.nodes

theorem nok_default (U : Nat → Prop) (L : Nat) : NOK U L (default : Node) :=
  ⟨fun c hc => (by cases hc), fun p hp => (by cases hp)⟩

theorem nok_mono {U : Nat → Prop} {L L' : Nat} {n : Node} (hl : L ≤ L') (h : NOK U L n) : NOK U L' n :=
  ⟨fun c hc => ⟨Nat.lt_of_lt_of_le (h.1 c hc).1 hl, (h.1 c hc).2⟩,
   fun p hp => ⟨Nat.lt_of_lt_of_le (h.2 p hp).1 hl, (h.2 p hp).2⟩⟩

theorem RUn.getD {U X : Nat → Prop} {nodes : List Node} (h : RUn U X nodes) (i : Nat) :
    NOK U nodes.length (nodes.getD i default) := by
  rw [List.getD_eq_getElem?_getD]
  cases hg : nodes[i]? with
  | none => exact nok_default U _
  | some n => exact h.1 n (List.mem_of_getElem? hg)

/-- `modNode i f`: `f` keeps `NOK` (it may use the `X` facts) and keeps "no children" when `i` is a `U` id -/
theorem ru_modNode {U X : Nat → Prop} (i : Nat) (f : Node → Node)
    (hf : ∀ L n, (∀ x, X x → x < L ∧ ∀ id, U id → x ≠ id) → NOK U L n →
      NOK U L (f n) ∧ (U i → n.children = [] → (f n).children = [])) : Keeps (RU U X) (modNode i f) := by
  intro s a s' hs h
  cases h
  show RUn U X (s.nodes.set i (f (s.nodes.getD i default)))
  have hg := hs.getD i
  obtain ⟨h1, h2, h3⟩ := hs
  have hfn := hf _ _ h3 hg
  refine ⟨?_, ?_, ?_⟩
  · intro n hn
    rw [List.length_set]
    rcases List.mem_or_eq_of_mem_set hn with h | h
    · exact h1 n h
    · rw [h]; exact hfn.1
  · intro id hU
    rw [List.length_set]
    refine ⟨(h2 id hU).1, ?_⟩
    rw [getD_set_node]
    split
    · next hc =>
      obtain ⟨e, _⟩ := hc
      subst e
      exact hfn.2 hU (h2 i hU).2
    · exact (h2 id hU).2
  · rw [List.length_set]; exact h3

theorem run_append {U X : Nat → Prop} {nodes : List Node} (n : Node) (hc : n.children = []) (hp : n.parent = none)
    (h : RUn U X nodes) : RUn U X (nodes ++ [n]) := by
  obtain ⟨h1, h2, h3⟩ := h
  have hl : (nodes ++ [n]).length = nodes.length + 1 := by simp
  refine ⟨?_, ?_, ?_⟩
  · intro m hm
    rw [hl]
    rcases List.mem_append.mp hm with h | h
    · exact nok_mono (Nat.le_succ _) (h1 m h)
    · simp only [List.mem_singleton] at h
      rw [h]
      exact ⟨fun c hc' => (by rw [hc] at hc'; cases hc'), fun p hp' => (by rw [hp] at hp'; cases hp')⟩
  · intro id hU
    rw [hl]
    refine ⟨Nat.lt_succ_of_lt (h2 id hU).1, ?_⟩
    rw [getD_append_node, if_pos (h2 id hU).1]
    exact (h2 id hU).2
  · intro x hx
    rw [hl]
    exact ⟨Nat.lt_succ_of_lt (h3 x hx).1, (h3 x hx).2⟩

theorem ru_benign {U X : Nat → Prop} : Benign (RU U X) where
  noR := ⟨fun _ _ hs => hs⟩
  pc := fun _ _ hs => hs
  mn := fun i f hf => ru_modNode i f (fun L n _ hn =>
    ⟨by unfold NOK; rw [(hf n).1, (hf n).2]; exact hn, fun _ h => by rw [(hf n).1]; exact h⟩)
  nn := fun n hc hp => by
    intro s a s' hs h
    cases h
    exact run_append n hc hp hs

/-- `bind` where the continuation may use more `X` facts -/
theorem ru_bind_grow {U X : Nat → Prop} {α β} {m : M α} {f : α → M β} (Y : α → Nat → Prop) (hm : Keeps (RU U X) m)
    (hY : ∀ s a s', RU U X s → m s = .ok (a, s') → ∀ x, Y a x → x < s'.nodes.length ∧ ∀ id, U id → x ≠ id)
    (hf : ∀ a, Keeps (RU U (fun x => X x ∨ Y a x)) (f a)) : Keeps (RU U X) (m >>= f) := by
  intro s b s' hs h
  obtain ⟨a, s1, e1, e2⟩ := bind_inv_u h
  have h1 := hm s a s1 hs e1
  have h2 := hf a s1 b s' ⟨h1.1, h1.2.1, fun x hx => hx.elim (h1.2.2 x) (hY s a s1 hs e1 x)⟩ e2
  exact ⟨h2.1, h2.2.1, fun x hx => h2.2.2 x (.inl hx)⟩

/-- the fresh id is in range and is no `U` id -/
theorem ru_newNode_bind {U X : Nat → Prop} {β} (n : Node) (f : Nat → M β) (hc : n.children = []) (hp : n.parent = none)
    (hf : ∀ id, Keeps (RU U (fun x => X x ∨ x = id)) (f id)) : Keeps (RU U X) (newNode n >>= f) := by
  refine ru_bind_grow (fun id x => x = id) (ru_benign.nn n hc hp) ?_ hf
  intro s a s' hs h x hx
  cases h
  subst hx
  refine ⟨by simp, fun id hU e => ?_⟩
  have := (hs.2.1 id hU).1
  omega

/-- the ids stored in a node that was read are in range and are no `U` ids -/
theorem ru_getNode_bind {U X : Nat → Prop} {β} (i : Nat) (f : Node → M β)
    (hf : ∀ n, Keeps (RU U (fun x => X x ∨ (n.parent = some x ∨ x ∈ n.children))) (f n)) :
    Keeps (RU U X) (getNode i >>= f) := by
  refine ru_bind_grow (fun n x => n.parent = some x ∨ x ∈ n.children) (getNode_keeps i) ?_ hf
  intro s a s' hs h x hx
  cases h
  have hg := hs.getD i
  rcases hx with hx | hx
  · exact hg.2 x hx
  · exact hg.1 x hx

theorem keeps_pure_bind {I : St → Prop} {α β} (a : α) (f : α → M β) (hf : Keeps I (f a)) :
    Keeps I (pure a >>= f) := by
  intro s b s' hs h
  obtain ⟨a', s1, e1, e2⟩ := bind_inv_u h
  cases e1
  exact hf s b s' hs e2

theorem keeps_throw_bind {I : St → Prop} {α β} (e : Panic) (f : α → M β) :
    Keeps I ((throw e : M α) >>= f) := by
  intro s b s' _ h
  obtain ⟨a', s1, e1, _⟩ := bind_inv_u h
  cases e1

/-! ### the walk over a `do` block -/

syntax "xside" : tactic
macro_rules
  | `(tactic| xside) => `(tactic| first
      | assumption
      | rfl
      | (apply Or.inr; xside)
      | (apply Or.inl; xside))

macro "bn_ben" : tactic => `(tactic| first | assumption | exact ru_benign)

macro "bn_step" : tactic =>
  `(tactic| first
    | with_reducible apply Keeps.pure
    | with_reducible apply Keeps.bind
    | with_reducible apply Keeps.ite
    | with_reducible apply Keeps.throw
    | with_reducible apply getNode_keeps
    | with_reducible apply getPc_keeps
    | with_reducible apply source_keeps
    | with_reducible apply position_keeps
    | with_reducible apply get_keeps
    | with_reducible apply liftE_keeps
    | with_reducible apply lastOpenedBlock_keeps
    | (with_reducible apply peekLine_keeps; exact Benign.noR (by bn_ben))
    | (with_reducible apply lineOffset_keeps; exact Benign.noR (by bn_ben))
    | (with_reducible apply advance_keeps; exact Benign.noR (by bn_ben))
    | (with_reducible apply advanceAndSetPadding_keeps; exact Benign.noR (by bn_ben))
    | (with_reducible apply advanceLine_keeps; exact Benign.noR (by bn_ben))
    | (with_reducible apply setPosition_keeps; exact Benign.noR (by bn_ben))
    | (with_reducible apply skipBlankLinesR_keeps; exact Benign.noR (by bn_ben))
    | ((with_reducible apply bn_modPc); bn_ben)
    | ((with_reducible apply bn_appendLine); bn_ben)
    | ((with_reducible apply bn_modNode) <;> (first | bn_ben | (intro n; exact ⟨rfl, rfl⟩)))
    | ((with_reducible apply bn_newNode) <;> (first | bn_ben | rfl))
    | apply_hyp
    | intro_pi
    | split
    | bn_ben)

macro "bn" : tactic => `(tactic| repeat' bn_step)

/-! ### `Open` / `Continue` of the ten parsers keep every benign invariant -/

section benign
variable {I : St → Prop} (hI : Benign I)
include hI

theorem bn_preserveLeadingTab (seg : Segment) (ind : Int) : Keeps I (preserveLeadingTab seg ind) := by
  unfold preserveLeadingTab; bn
theorem bn_paragraphOpen (p : Nat) : Keeps I (paragraphOpen p) := by unfold paragraphOpen; bn
theorem bn_paragraphContinue (n : Nat) : Keeps I (paragraphContinue n) := by unfold paragraphContinue; bn
theorem bn_thematicOpen (p : Nat) : Keeps I (thematicOpen p) := by unfold thematicOpen; bn
theorem bn_atxOpen (p : Nat) : Keeps I (atxOpen p) := by unfold atxOpen; bn
theorem bn_setextOpen (p : Nat) : Keeps I (setextOpen p) := by unfold setextOpen; bn
theorem bn_codeTakeLine (n : Nat) (pos padding : Int) : Keeps I (codeTakeLine n pos padding) := by
  have := bn_preserveLeadingTab hI
  unfold codeTakeLine; bn
theorem bn_codeOpen (p : Nat) : Keeps I (codeOpen p) := by
  have := bn_codeTakeLine hI
  unfold codeOpen; bn
theorem bn_codeContinue (n : Nat) : Keeps I (codeContinue n) := by
  have := bn_codeTakeLine hI
  unfold codeContinue; bn
theorem bn_fencedOpen (p : Nat) : Keeps I (fencedOpen p) := by unfold fencedOpen; bn
theorem bn_fencedContinue (n : Nat) : Keeps I (fencedContinue n) := by
  have := bn_preserveLeadingTab hI
  unfold fencedContinue; bn
theorem bn_blockquoteProcess : Keeps I blockquoteProcess := by unfold blockquoteProcess; bn
theorem bn_blockquoteOpen (p : Nat) : Keeps I (blockquoteOpen p) := by
  have := bn_blockquoteProcess hI
  unfold blockquoteOpen; bn
theorem bn_blockquoteContinue (n : Nat) : Keeps I (blockquoteContinue n) := by
  have := bn_blockquoteProcess hI
  unfold blockquoteContinue; bn
theorem bn_htmlOpen (p : Nat) : Keeps I (htmlOpen p) := by unfold htmlOpen; bn
theorem bn_htmlContinue (n : Nat) : Keeps I (htmlContinue n) := by unfold htmlContinue; bn
theorem bn_lastOffset (n : Nat) : Keeps I (lastOffset n) := by unfold lastOffset; bn
theorem bn_lastChildCount (n : Nat) : Keeps I (lastChildCount n) := by unfold lastChildCount; bn
theorem bn_listOpen (p : Nat) : Keeps I (listOpen p) := by unfold listOpen; bn
theorem bn_listContinue (n : Nat) : Keeps I (listContinue n) := by
  have := bn_lastOffset hI
  have := bn_lastChildCount hI
  unfold listContinue; bn
theorem bn_listItemOpen (p : Nat) : Keeps I (listItemOpen p) := by
  have := bn_lastOffset hI
  unfold listItemOpen; bn
theorem bn_listItemContinue (n : Nat) : Keeps I (listItemContinue n) := by
  have := bn_lastOffset hI
  unfold listItemContinue; bn
theorem bn_codeClose (n : Nat) : Keeps I (codeClose n) := by unfold codeClose; bn
theorem bn_fencedClose (n : Nat) : Keeps I (fencedClose n) := by unfold fencedClose; bn
theorem bn_nextSibling (c : Nat) : Keeps I (nextSibling c) := by unfold nextSibling; bn

/-- `Open` of every parser keeps every benign invariant -/
theorem bn_bpOpen (bp : BP) (p : Nat) : Keeps I (bpOpen bp p) := by
  cases bp <;> unfold bpOpen
  · exact bn_setextOpen hI p
  · exact bn_thematicOpen hI p
  · exact bn_listOpen hI p
  · exact bn_listItemOpen hI p
  · exact bn_codeOpen hI p
  · exact bn_atxOpen hI p
  · exact bn_fencedOpen hI p
  · exact bn_blockquoteOpen hI p
  · exact bn_htmlOpen hI p
  · exact bn_paragraphOpen hI p

/-- `Continue` of every parser keeps every benign invariant -/
theorem bn_bpContinue (bp : BP) (n : Nat) : Keeps I (bpContinue bp n) := by
  cases bp <;> unfold bpContinue
  · exact Keeps.pure _
  · exact Keeps.pure _
  · exact bn_listContinue hI n
  · exact bn_listItemContinue hI n
  · exact bn_codeContinue hI n
  · exact Keeps.pure _
  · exact bn_fencedContinue hI n
  · exact bn_blockquoteContinue hI n
  · exact bn_htmlContinue hI n
  · exact bn_paragraphContinue hI n

end benign

/-! ### tree operations under `RU` -/

section ru
variable {U X : Nat → Prop}

theorem ru_removeChild (p c : Nat) : Keeps (RU U X) (removeChild p c) := by
  unfold removeChild
  refine Keeps.bind (getNode_keeps _) (fun cn => Keeps.ite (fun _ => Keeps.pure _) (fun _ => ?_))
  refine Keeps.bind (ru_modNode p _ (fun L n _ hn => ⟨⟨fun x hx => hn.1 x (List.mem_of_mem_erase hx), hn.2⟩,
      fun _ h => ?_⟩))
    (fun _ => ru_modNode c _ (fun L n _ hn => ⟨⟨hn.1, fun q hq => (by cases hq)⟩, fun _ h => h⟩))
  show n.children.erase c = []
  rw [h]; rfl

theorem ru_ensureIsolated (c : Nat) : Keeps (RU U X) (ensureIsolated c) := by
  have := @ru_removeChild U X
  unfold ensureIsolated; bn

theorem ru_appendChild (p c : Nat) (hp : X p) (hc : X c) : Keeps (RU U X) (appendChild p c) := by
  unfold appendChild
  refine Keeps.bind (ru_ensureIsolated c) (fun _ => ?_)
  refine Keeps.bind (ru_modNode p _ (fun L n hX hn => ⟨⟨fun x hx => ?_, hn.2⟩, fun hU _ => ?_⟩))
    (fun _ => ru_modNode c _ (fun L n hX hn => ⟨⟨hn.1, fun q hq => ?_⟩, fun _ h => h⟩))
  · rcases List.mem_append.mp hx with h | h
    · exact hn.1 x h
    · simp only [List.mem_singleton] at h; rw [h]; exact hX c hc
  · exact absurd rfl ((hX p hp).2 p hU)
  · have e : p = q := by simpa using hq
    rw [← e]; exact hX p hp

theorem ru_insertBefore (p : Nat) (v1 : Option Nat) (ins : Nat) (hp : X p) (hi : X ins) :
    Keeps (RU U X) (insertBefore p v1 ins) := by
  unfold insertBefore
  split
  · exact ru_appendChild p ins hp hi
  · refine Keeps.bind (getNode_keeps _) (fun vn => Keeps.ite (fun _ => ru_appendChild p ins hp hi) (fun _ => ?_))
    refine Keeps.bind (ru_ensureIsolated ins) (fun _ => ?_)
    refine Keeps.bind (ru_modNode p _ (fun L n hX hn => ⟨⟨fun x hx => ?_, hn.2⟩, fun hU _ => ?_⟩))
      (fun _ => ru_modNode ins _ (fun L n hX hn => ⟨⟨hn.1, fun q hq => ?_⟩, fun _ h => h⟩))
    · rcases qs_mem_insertBeforeIn hx with h | h
      · rw [h]; exact hX ins hi
      · exact hn.1 x h
    · exact absurd rfl ((hX p hp).2 p hU)
    · have e : p = q := by simpa using hq
      rw [← e]; exact hX p hp

theorem ru_insertAfter (p : Nat) (v1 : Option Nat) (ins : Nat) (hp : X p) (hi : X ins) :
    Keeps (RU U X) (insertAfter p v1 ins) := by
  have h1 := @bn_nextSibling (RU U X)
  have h2 := fun v => ru_insertBefore (U := U) (X := X) p v ins hp hi
  have h3 := ru_appendChild (U := U) (X := X) p ins hp hi
  unfold insertAfter; bn

theorem ru_replaceChild (p v1 ins : Nat) (hp : X p) (hi : X ins) : Keeps (RU U X) (replaceChild p v1 ins) := by
  unfold replaceChild
  exact Keeps.bind (ru_insertBefore p (some v1) ins hp hi) (fun _ => ru_removeChild p v1)

end ru

/-! ### `Close` under `RU` -/

/-- the walk with the rules that add `X` facts -/
macro "ru_step" : tactic =>
  `(tactic| first
    | ((with_reducible apply ru_newNode_bind) <;> (first | rfl | intro_pi))
    | ((with_reducible apply ru_getNode_bind); intro_pi)
    | with_reducible apply keeps_pure_bind
    | with_reducible apply keeps_throw_bind
    | ((with_reducible apply ru_insertAfter) <;> xside)
    | ((with_reducible apply ru_replaceChild) <;> xside)
    | with_reducible apply ru_removeChild
    | ((with_reducible apply bn_nextSibling); exact ru_benign)
    | bn_step
    | xside)

macro "ruw" : tactic => `(tactic| repeat' ru_step)

section ruclose
variable {U : Nat → Prop}

theorem ru_paragraphClose {X : Nat → Prop} (n : Nat) : Keeps (RU U X) (paragraphClose n) := by
  unfold paragraphClose; ruw

theorem ru_setextClose {X : Nat → Prop} (n : Nat) : Keeps (RU U X) (setextClose n) := by
  unfold setextClose; ruw

theorem ru_tightenItem (child : Nat) :
    ∀ (gcs : List Nat) {X : Nat → Prop}, X child → Keeps (RU U X) (tightenItem child gcs) := by
  intro gcs
  induction gcs with
  | nil => intro X _; unfold tightenItem; exact Keeps.pure _
  | cons gc gcs ih =>
    intro X hc
    unfold tightenItem
    refine Keeps.bind (getNode_keeps _) (fun g => ?_)
    ruw

theorem ru_tightenItems {X : Nat → Prop} : ∀ cs : List Nat, (∀ c ∈ cs, X c) → Keeps (RU U X) (tightenItems cs) := by
  intro cs
  induction cs with
  | nil => intro _; unfold tightenItems; exact Keeps.pure _
  | cons c cs ih =>
    intro h
    unfold tightenItems
    exact Keeps.bind (getNode_keeps _) (fun n => Keeps.bind (ru_tightenItem c _ (h c (List.mem_cons_self ..)))
      (fun _ => ih (fun c' hc' => h c' (List.mem_cons_of_mem _ hc'))))

theorem ru_listClose {X : Nat → Prop} (n : Nat) : Keeps (RU U X) (listClose n) := by
  have ht := @ru_tightenItems U
  unfold listClose; ruw

/-- `Close` of every parser keeps `RU` -/
theorem ru_bpClose {X : Nat → Prop} (bp : BP) (n : Nat) : Keeps (RU U X) (bpClose bp n) := by
  cases bp <;> unfold bpClose
  · exact ru_setextClose n
  · exact Keeps.pure _
  · exact ru_listClose n
  · exact Keeps.pure _
  · exact bn_codeClose ru_benign n
  · exact Keeps.pure _
  · exact bn_fencedClose ru_benign n
  · exact Keeps.pure _
  · exact Keeps.pure _
  · exact ru_paragraphClose n

theorem ru_closeLoop {X : Nat → Prop} (blocks : List Block) (to : Int) :
    ∀ k, Keeps (RU U X) (closeLoop blocks to k) := by
  have := @ru_bpClose U X
  intro k
  induction k with
  | zero => unfold closeLoop; exact Keeps.pure _
  | succ k ih => unfold closeLoop; bn

theorem ru_closeBlocks {X : Nat → Prop} (frm to : Int) : Keeps (RU U X) (closeBlocks frm to) := by
  have := @ru_closeLoop U X
  unfold closeBlocks; bn

end ruclose

/-! ### `RStore`, `Unref` in terms of `RU` -/

abbrev NoId : Nat → Prop := fun _ => False

theorem ru_of_rstore {nodes : List Node} (h : RStore nodes) : RUn NoId NoId nodes :=
  ⟨fun n hn => ⟨fun c hc => ⟨(h n hn).1 c hc, fun _ hU => hU.elim⟩, fun p hp => ⟨(h n hn).2 p hp, fun _ hU => hU.elim⟩⟩,
   fun _ hU => hU.elim, fun _ hX => hX.elim⟩

theorem rstore_of_ru {U X : Nat → Prop} {nodes : List Node} (h : RUn U X nodes) : RStore nodes :=
  fun n hn => ⟨fun c hc => ((h.1 n hn).1 c hc).1, fun p hp => ((h.1 n hn).2 p hp).1⟩

theorem unref_of_ru {U X : Nat → Prop} {nodes : List Node} (h : RUn U X nodes) {id : Nat} (hU : U id) : Unref id nodes :=
  ⟨(h.2.1 id hU).1, (h.2.1 id hU).2, fun n hn =>
    ⟨fun e => ((h.1 n hn).2 id e).2 id hU rfl, fun hc => ((h.1 n hn).1 id hc).2 id hU rfl⟩⟩

theorem ru_of_unref {nodes : List Node} {id : Nat} (hr : RStore nodes) (hu : Unref id nodes) :
    RUn (fun x => x = id) NoId nodes := by
  refine ⟨fun n hn => ⟨fun c hc => ⟨(hr n hn).1 c hc, ?_⟩, fun p hp => ⟨(hr n hn).2 p hp, ?_⟩⟩, ?_, fun _ hX => hX.elim⟩
  · intro i hi e
    subst hi; subst e
    exact (hu.2.2 n hn).2 hc
  · intro i hi e
    subst hi; subst e
    exact (hu.2.2 n hn).1 hp
  · intro i hi
    subst hi
    exact ⟨hu.1, hu.2.1⟩

/-- `RStore` as a state predicate -/
def RS : St → Prop := fun s => RStore s.nodes

/-- `RStore` and `Unref id` as a state predicate -/
def RSU (id : Nat) : St → Prop := fun s => RStore s.nodes ∧ Unref id s.nodes

theorem keeps_rs_of {α} {m : M α} (h : Keeps (RU NoId NoId) m) : Keeps RS m :=
  fun s a s' hs e => rstore_of_ru (h s a s' (ru_of_rstore hs) e)

theorem keeps_rsu_of {α} {m : M α} {id : Nat} (h : Keeps (RU (fun x => x = id) NoId) m) : Keeps (RSU id) m :=
  fun s a s' hs e =>
    have h' := h s a s' (ru_of_unref hs.1 hs.2) e
    ⟨rstore_of_ru h', unref_of_ru h' rfl⟩

theorem rstore_init : RStore [{ kind := .document }] := by
  intro n hn
  simp only [List.mem_singleton] at hn
  subst hn
  exact ⟨fun c hc => (by cases hc), fun p hp => (by cases hp)⟩

/-! #### 1. `RStore` is kept by all parsers (no hypothesis on the argument ids) -/

theorem rs_bpOpen (bp : BP) (p : Nat) : Keeps RS (bpOpen bp p) := keeps_rs_of (bn_bpOpen ru_benign bp p)
theorem rs_bpContinue (bp : BP) (n : Nat) : Keeps RS (bpContinue bp n) := keeps_rs_of (bn_bpContinue ru_benign bp n)
theorem rs_bpClose (bp : BP) (n : Nat) : Keeps RS (bpClose bp n) := keeps_rs_of (ru_bpClose bp n)
theorem rs_closeLoop (blocks : List Block) (to : Int) (k : Nat) : Keeps RS (closeLoop blocks to k) :=
  keeps_rs_of (ru_closeLoop blocks to k)
theorem rs_closeBlocks (frm to : Int) : Keeps RS (closeBlocks frm to) := keeps_rs_of (ru_closeBlocks frm to)

/-- `appendChild p c` with both ids in range -/
theorem rs_appendChild (p c : Nat) {s s' : St} {a : Unit} (hr : RStore s.nodes) (hp : p < s.nodes.length)
    (hc : c < s.nodes.length) (e : appendChild p c s = .ok (a, s')) : RStore s'.nodes := by
  have h0 := ru_of_rstore hr
  have h1 : RU NoId (fun x => x = p ∨ x = c) s :=
    ⟨h0.1, h0.2.1, fun x hx => ⟨by rcases hx with h | h <;> rw [h] <;> assumption, fun _ hU => hU.elim⟩⟩
  exact rstore_of_ru (ru_appendChild p c (Or.inl rfl) (Or.inr rfl) s a s' h1 e)

theorem rstore_bpOpen (bp : BP) (p : Nat) {s s' : St} {a : Option Nat × PState} (hr : RStore s.nodes)
    (e : bpOpen bp p s = .ok (a, s')) : RStore s'.nodes := rs_bpOpen bp p s a s' hr e
theorem rstore_bpContinue (bp : BP) (n : Nat) {s s' : St} {a : PState} (hr : RStore s.nodes)
    (e : bpContinue bp n s = .ok (a, s')) : RStore s'.nodes := rs_bpContinue bp n s a s' hr e
theorem rstore_bpClose (bp : BP) (n : Nat) {s s' : St} {a : Unit} (hr : RStore s.nodes)
    (e : bpClose bp n s = .ok (a, s')) : RStore s'.nodes := rs_bpClose bp n s a s' hr e

/-! #### 3. `Unref id` (with `RStore`) is kept by `Continue`, `Close`, `closeLoop`, `closeBlocks`, by `Open`, and by every
    `modNode` that keeps `children` and `parent` -/

theorem rsu_modNode (id i : Nat) (f : Node → Node) (hf : ∀ n, (f n).children = n.children ∧ (f n).parent = n.parent) :
    Keeps (RSU id) (modNode i f) := keeps_rsu_of (ru_benign.mn i f hf)
theorem rsu_bpOpen (id : Nat) (bp : BP) (p : Nat) : Keeps (RSU id) (bpOpen bp p) := keeps_rsu_of (bn_bpOpen ru_benign bp p)
theorem rsu_bpContinue (id : Nat) (bp : BP) (n : Nat) : Keeps (RSU id) (bpContinue bp n) :=
  keeps_rsu_of (bn_bpContinue ru_benign bp n)
theorem rsu_bpClose (id : Nat) (bp : BP) (n : Nat) : Keeps (RSU id) (bpClose bp n) := keeps_rsu_of (ru_bpClose bp n)
theorem rsu_closeLoop (id : Nat) (blocks : List Block) (to : Int) (k : Nat) : Keeps (RSU id) (closeLoop blocks to k) :=
  keeps_rsu_of (ru_closeLoop blocks to k)
theorem rsu_closeBlocks (id : Nat) (frm to : Int) : Keeps (RSU id) (closeBlocks frm to) :=
  keeps_rsu_of (ru_closeBlocks frm to)

theorem unref_bpClose (bp : BP) (node id : Nat) {s s' : St} {a : Unit} (hr : RStore s.nodes) (hu : Unref id s.nodes)
    (e : bpClose bp node s = .ok (a, s')) : Unref id s'.nodes := (rsu_bpClose id bp node s a s' ⟨hr, hu⟩ e).2

/-- `Unref id` alone is kept by a `modNode` that keeps `children` and `parent` -/
theorem unref_modNode (id i : Nat) (f : Node → Node) (hf : ∀ n, (f n).children = n.children ∧ (f n).parent = n.parent) :
    Keeps (fun s => Unref id s.nodes) (modNode i f) := by
  intro s a s' hs h
  cases h
  show Unref id (s.nodes.set i (f (s.nodes.getD i default)))
  obtain ⟨h1, h2, h3⟩ := hs
  refine ⟨by rw [List.length_set]; exact h1, ?_, ?_⟩
  · rw [getD_set_node]
    split
    · next hc =>
      obtain ⟨e, _⟩ := hc
      subst e
      rw [(hf _).1]; exact h2
    · exact h2
  · intro n hn
    rcases List.mem_or_eq_of_mem_set hn with h | h
    · exact h3 n h
    · rw [h, (hf _).1, (hf _).2]
      rw [List.getD_eq_getElem?_getD]
      cases hg : s.nodes[i]? with
      | none => exact ⟨fun e => (by cases e), fun e => (by cases e)⟩
      | some m => exact h3 m (List.mem_of_getElem? hg)

/-! #### 4. `QE q` -/

theorem qe_benign (q : Nat) : Benign (QE q) where
  noR := ⟨fun _ _ hs => hs⟩
  pc := fun _ _ hs => hs
  mn := fun i f hf => by
    intro s a s' hs h
    cases h
    show ((s.nodes.set i (f (s.nodes.getD i default))).getD q default).children = []
    rw [getD_set_node]
    split
    · next hc =>
      obtain ⟨e, _⟩ := hc
      subst e
      rw [(hf _).1]; exact hs
    · exact hs
  nn := fun n hc _ => by
    intro s a s' hs h
    cases h
    show ((s.nodes ++ [n]).getD q default).children = []
    rw [getD_append_node]
    split
    · exact hs
    · split
      · exact hc
      · rfl

theorem qe_bpOpen (q : Nat) (bp : BP) (p : Nat) : Keeps (QE q) (bpOpen bp p) := bn_bpOpen (qe_benign q) bp p
theorem qe_bpContinue (q : Nat) (bp : BP) (n : Nat) : Keeps (QE q) (bpContinue bp n) := bn_bpContinue (qe_benign q) bp n

theorem qe_of_unref {id : Nat} {s : St} (h : Unref id s.nodes) : QE id s := h.2.1

/-- `modNode i f` keeps `QE q` when `f` keeps "no children" or `i ≠ q` -/
theorem qe_modNode (q i : Nat) (f : Node → Node) (hf : i = q → ∀ n, n.children = [] → (f n).children = []) :
    Keeps (QE q) (modNode i f) := by
  intro s a s' hs h
  cases h
  show ((s.nodes.set i (f (s.nodes.getD i default))).getD q default).children = []
  rw [getD_set_node]
  split
  · next hc =>
    obtain ⟨e, _⟩ := hc
    subst e
    exact hf rfl _ hs
  · exact hs

theorem qe_removeChild (q p c : Nat) : Keeps (QE q) (removeChild p c) := by
  unfold removeChild
  refine Keeps.bind (getNode_keeps _) (fun cn => Keeps.ite (fun _ => Keeps.pure _) (fun _ => ?_))
  refine Keeps.bind (qe_modNode q p _ (fun _ n h => ?_)) (fun _ => qe_modNode q c _ (fun _ n h => h))
  show n.children.erase c = []
  rw [h]; rfl

theorem qe_ensureIsolated (q c : Nat) : Keeps (QE q) (ensureIsolated c) := by
  have := qe_removeChild q
  have hb := qe_benign q
  unfold ensureIsolated; bn

/-- after `appendChild p c` with `p ≠ q`, node `q` still has no children -/
theorem qe_appendChild (q p c : Nat) (hne : p ≠ q) : Keeps (QE q) (appendChild p c) := by
  unfold appendChild
  refine Keeps.bind (qe_ensureIsolated q c) (fun _ => ?_)
  exact Keeps.bind (qe_modNode q p _ (fun e => absurd e hne)) (fun _ => qe_modNode q c _ (fun _ n h => h))

/-! #### 2. the node an `Open` returns is unreferenced -/

structure OPU (m : M (Option Nat × PState)) : Prop where
  h : ∀ s a s', RStore s.nodes → m s = .ok (a, s') → ∀ id, a.1 = some id → Unref id s'.nodes

theorem OPU.pure_none (st : PState) : OPU (pure (none, st)) :=
  ⟨fun _ _ _ _ h id hid => by cases h; cases hid⟩

theorem OPU.bind {α} {m0 : M α} {f : α → M (Option Nat × PState)} (hm : Keeps (RU NoId NoId) m0) (hf : ∀ x, OPU (f x)) :
    OPU (m0 >>= f) := by
  constructor
  intro s a s' hr h
  obtain ⟨x, s1, e1, e⟩ := bind_inv_u h
  exact (hf x).h s1 a s' (rstore_of_ru (hm s x s1 (ru_of_rstore hr) e1)) e

theorem OPU.ite {c : Prop} [Decidable c] {a b : M (Option Nat × PState)} (ha : OPU a) (hb : OPU b) :
    OPU (if c then a else b) := by split <;> assumption

theorem OPU.throw (e : Panic) : OPU (throw e) := ⟨fun _ _ _ _ h => by cases h⟩

/-- `newNode lit >>= g` where `g id` keeps `Unref id` and returns `some id` -/
theorem OPU.newNode (lit : Node) (g : Nat → M (Option Nat × PState)) (hc : lit.children = []) (hp : lit.parent = none)
    (hg : ∀ id, Keeps (RU (fun x => x = id) NoId) (g id) ∧ Ret (g id) (fun a => a.1 = some id)) :
    OPU (newNode lit >>= g) := by
  constructor
  intro s a s' hr h id hid
  obtain ⟨n, s4, e4, e⟩ := bind_inv_u h
  cases e4
  have hr' := (hg s.nodes.length).2.h _ a s' e
  rw [hr'] at hid
  cases hid
  have h4 : RUn (fun x => x = s.nodes.length) NoId (s.nodes ++ [lit]) := by
    have hra := rstore_of_ru (run_append lit hc hp (ru_of_rstore hr))
    refine ru_of_unref hra ⟨by simp, ?_, fun m hm => ?_⟩
    · rw [getD_append_node, if_neg (Nat.lt_irrefl _), if_pos rfl]; exact hc
    · rcases List.mem_append.mp hm with h | h
      · refine ⟨fun e => ?_, fun e => ?_⟩
        · exact Nat.lt_irrefl _ ((hr m h).2 _ e)
        · exact Nat.lt_irrefl _ ((hr m h).1 _ e)
      · simp only [List.mem_singleton] at h
        rw [h, hc, hp]
        exact ⟨fun e => (by cases e), fun e => (by cases e)⟩
  exact unref_of_ru ((hg s.nodes.length).1 { s with nodes := s.nodes ++ [lit] } a s' h4 e) rfl

macro "opu_step" : tactic =>
  `(tactic| first
    | with_reducible apply OPU.pure_none
    | ((with_reducible apply OPU.newNode) <;> (first | rfl | (intro id; exact ⟨by bn, by ret⟩)))
    | (with_reducible refine OPU.bind (by bn) ?_)
    | with_reducible apply OPU.ite
    | with_reducible apply OPU.throw
    | intro_pi
    | split)

macro "opu" : tactic => `(tactic| repeat' opu_step)

theorem opu_paragraphOpen (p : Nat) : OPU (paragraphOpen p) := by unfold paragraphOpen; opu
theorem opu_thematicOpen (p : Nat) : OPU (thematicOpen p) := by unfold thematicOpen; opu
theorem opu_atxOpen (p : Nat) : OPU (atxOpen p) := by unfold atxOpen; opu
theorem opu_setextOpen (p : Nat) : OPU (setextOpen p) := by unfold setextOpen; opu
theorem opu_codeOpen (p : Nat) : OPU (codeOpen p) := by
  have := @bn_codeTakeLine; unfold codeOpen; opu
theorem opu_fencedOpen (p : Nat) : OPU (fencedOpen p) := by unfold fencedOpen; opu
theorem opu_blockquoteOpen (p : Nat) : OPU (blockquoteOpen p) := by
  have := @bn_blockquoteProcess; unfold blockquoteOpen; opu
theorem opu_htmlOpen (p : Nat) : OPU (htmlOpen p) := by unfold htmlOpen; opu
theorem opu_listOpen (p : Nat) : OPU (listOpen p) := by unfold listOpen; opu
theorem opu_listItemOpen (p : Nat) : OPU (listItemOpen p) := by
  have := @bn_lastOffset; unfold listItemOpen; opu

/-- the node an `Open` returns is unreferenced and has no children -/
theorem unref_bpOpen (bp : BP) (p : Nat) {s s' : St} {a : Option Nat × PState} (hr : RStore s.nodes)
    (e : bpOpen bp p s = .ok (a, s')) (id : Nat) (hid : a.1 = some id) : Unref id s'.nodes := by
  cases bp <;> unfold bpOpen at e
  · exact (opu_setextOpen p).h s a s' hr e id hid
  · exact (opu_thematicOpen p).h s a s' hr e id hid
  · exact (opu_listOpen p).h s a s' hr e id hid
  · exact (opu_listItemOpen p).h s a s' hr e id hid
  · exact (opu_codeOpen p).h s a s' hr e id hid
  · exact (opu_atxOpen p).h s a s' hr e id hid
  · exact (opu_fencedOpen p).h s a s' hr e id hid
  · exact (opu_blockquoteOpen p).h s a s' hr e id hid
  · exact (opu_htmlOpen p).h s a s' hr e id hid
  · exact (opu_paragraphOpen p).h s a s' hr e id hid

end GM.Blocks
