/-
  GM.Proof.CMFrag6Open — stage 6: `openBlocks` on the first line of a block while the PREVIOUS block is still in the
  list of opened blocks (a heading / thematic break that closes on this line, or the paragraph this line interrupts).
-/
import GM.Proof.CMFrag5Run

namespace GM.Proof.CMFrag
open GM GM.Text GM.Blocks GM.Spec

section open6
variable {src : Bytes} {p e : Nat} {v : Bytes}

/-- from the parser loop to `openBlocks`, with one block `prev` (node `x` at index `pi`) open -/
theorem openBlocks6_of_try (hl : Ln src p e v) (c0 : UInt8) (hidx : idx v 0 = .ok c0) (h10 : (c0 == 10) = false)
    (hiw : indentWidthI v 0 = (0, 0)) (pts : List PT) (k : Int) (nodes : List Blocks.Node) (pi : Nat) (x : Blocks.Node)
    (hx : nodes.getD pi default = x) (pbp : BP) (pc : Ctx) (hop : pc.opened = [{ node := pi, bp := pbp }]) (blank : Bool)
    (pk : Option Bytes) (hpk : pk = none ∨ pk = some v) (S' : St)
    (htry : tryParsersT pts 0 blank (x.kind == .paragraph) 0 ((triggered c0).getD freeParsers) .noBlocksOpened
        (some { node := pi, bp := pbp })
        ⟨rdr src k p p e (some v) 0, nodes, { pc with blockOffset := 0, blockIndent := 0 }⟩ =
      .ok ((.done, .newBlocksOpened, some { node := pi, bp := pbp }), S')) :
    openBlocksT pts 0 blank ⟨rdr src k p p e pk (-1), nodes, pc⟩ = .ok (.newBlocksOpened, S') := by
  have hp : p < src.length := by have := hl.le; have := hl.lt; omega
  have hpeek : ∀ nodes pc', peekLine ⟨rdr src k p p e pk (-1), nodes, pc'⟩ =
      .ok ((some v, sg p e), ⟨rdr src k p p e (some v) (-1), nodes, pc'⟩) := by
    intro nodes pc'
    rcases hpk with h | h
    · subst h; exact peekLine_fresh hl.sub hp (Nat.le_of_lt hl.lt) hl.le ..
    · subst h; exact peekLine_cached hp ..
  have hlen : ¬ ((0 : Int) ≥ (v.length : Int)) := by have := hl.len; have := hl.lt; omega
  have hlen' : (0 : Int) < (v.length : Int) := by omega
  unfold openBlocksT
  simp only [bind_apply, lastOpenedBlock_run, hop, List.getLast?_singleton, pure_apply, source_run, retryFuel, getNode_run, hx]
  rw [openBlocksLoopT]
  simp only [bind_apply, hpeek, Option.getD_some, lineOffset_fresh, hiw]
  simp only [modPc_run, hlen, if_false, Option.isNone_some, Bool.false_eq_true, bind_apply, hidx, liftE_ok, h10, hlen',
    if_true, pure_apply]
  unfold retryStepT
  simp only [bind_apply, get_run, htry]
  simp [toContinuable, pure_apply]


/-- a text line behind a closing leaf block: a Paragraph is opened -/
theorem try6_line {c : UInt8} {t : Bytes} (hl : Ln src p e v) (hv : v = c :: t) (hc : GM.Spec.CM.isLetter c = true)
    (pts : List PT) (k : Int) (d : Blocks.Node) (rest' : List Blocks.Node) (pi : Nat) (x : Blocks.Node)
    (hx : ∀ d' tail, (d' :: (rest' ++ tail)).getD pi default = x) (hxp : x.parent = some 0)
    (pbp : BP) (pc' : Ctx) (hop : pc'.opened = [{ node := pi, bp := pbp }]) (blank : Bool) :
    tryParsersT pts 0 blank false 0 [.code, .paragraph] .noBlocksOpened (some { node := pi, bp := pbp })
        ⟨rdr src k p p e (some v) 0, d :: rest', pc'⟩ =
      .ok ((.done, .newBlocksOpened, some { node := pi, bp := pbp }),
        ⟨rdr src k p (e - 1) e none (-1),
          { d with children := d.children ++ [rest'.length + 1] } :: (rest' ++ [paraN [sg p e] blank]),
          { pc' with opened := [{ node := pi, bp := pbp }, { node := rest'.length + 1, bp := .paragraph }] }⟩) := by
  have hx0 := hx d []
  simp only [List.append_nil] at hx0
  rw [tryParsersT]
  simp [bind_apply, lastOpenedBlock_run, hop, bpOpen, codeOpen_line hl hv hc, BP.canAcceptIndentedLine]
  rw [tryParsersT]
  simp [bind_apply, lastOpenedBlock_run, hop, bpOpen, paragraphOpen_line hl hv hc, BP.canAcceptIndentedLine,
    pure_apply, stNoChildren, modNode_run, appendChild, ensureIsolated, getNode_run, paraN]
  have hx' : ∀ d' tail, ((d' :: (rest' ++ tail))[pi]?.getD default) = x := by
    intro d' tail; rw [← List.getD_eq_getElem?_getD]; exact hx d' tail
  simp [hx', hxp, bind_apply, getNode_run, modNode_run, map_apply, modPc_run, pure_apply, hop]

/-- an ATX heading line behind a closing leaf block or interrupting the paragraph -/
theorem try6_atx (hl : Ln src p e v) (level : Nat) (l : Bytes)
    (hv : v = List.replicate level 35 ++ 32 :: (l ++ [10])) (h1 : 1 ≤ level) (h6 : level ≤ 6)
    (hb : BlkLine l) (hlast : ∀ c, l.getLast? = some c → c ≠ 35) (cont : Bool)
    (pts : List PT) (k : Int) (d : Blocks.Node) (rest' : List Blocks.Node) (pi : Nat) (x : Blocks.Node)
    (hx : ∀ d' tail, (d' :: (rest' ++ tail)).getD pi default = x) (hxp : x.parent = some 0)
    (pbp : BP) (pc' : Ctx) (hop : pc'.opened = [{ node := pi, bp := pbp }]) (hoff : pc'.blockOffset = 0) (blank : Bool) :
    tryParsersT pts 0 blank cont 0 [.atx, .code, .paragraph] .noBlocksOpened (some { node := pi, bp := pbp })
        ⟨rdr src k p p e (some v) 0, d :: rest', pc'⟩ =
      .ok ((.done, .newBlocksOpened, some { node := pi, bp := pbp }),
        ⟨rdr src k p p e (some v) 0,
          { d with children := d.children ++ [rest'.length + 1] } ::
            (rest' ++ [headN level [sg (p + level + 1) (e - 1)] blank]),
          { pc' with opened := [{ node := pi, bp := pbp }, { node := rest'.length + 1, bp := .atx }] }⟩) := by
  have hx' : ∀ d' tail, ((d' :: (rest' ++ tail))[pi]?.getD default) = x := by
    intro d' tail; rw [← List.getD_eq_getElem?_getD]; exact hx d' tail
  rw [tryParsersT]
  simp [bind_apply, lastOpenedBlock_run, hop, bpOpen, atxOpen_atx hl level l hv h1 h6 hb hlast k (d :: rest') pc' hoff,
    BP.canAcceptIndentedLine, BP.canInterruptParagraph, pure_apply, stNoChildren, modNode_run, appendChild, ensureIsolated,
    getNode_run, headN]
  simp [hx', hxp, bind_apply, getNode_run, modNode_run, map_apply, modPc_run, pure_apply, hop]

/-- a fence line behind a closing leaf block or interrupting the paragraph -/
theorem try6_fence (hl : Ln src p e v) (fc : UInt8) (hfc : fc = 96 ∨ fc = 126)
    (n : Nat) (info : Bytes) (hinfo : ∀ c ∈ info, GM.Spec.CM.isAlnumC c = true)
    (hv : v = List.replicate (n + 3) fc ++ (info ++ [10])) (cont : Bool)
    (pts : List PT) (k : Int) (d : Blocks.Node) (rest' : List Blocks.Node) (pi : Nat) (x : Blocks.Node)
    (hx : ∀ d' tail, (d' :: (rest' ++ tail)).getD pi default = x) (hxp : x.parent = some 0)
    (pbp : BP) (pc' : Ctx) (hop : pc'.opened = [{ node := pi, bp := pbp }]) (hoff : pc'.blockOffset = 0) (blank : Bool) :
    tryParsersT pts 0 blank cont 0 [.fenced, .code, .paragraph] .noBlocksOpened (some { node := pi, bp := pbp })
        ⟨rdr src k p p e (some v) 0, d :: rest', pc'⟩ =
      .ok ((.done, .newBlocksOpened, some { node := pi, bp := pbp }),
        ⟨rdr src k p p e (some v) 0,
          { d with children := d.children ++ [rest'.length + 1] } ::
            (rest' ++ [fenceN (if info.isEmpty then none else some (sg (p + n + 3) (e - 1))) [] blank]),
          { pc' with opened := [{ node := pi, bp := pbp }, { node := rest'.length + 1, bp := .fenced }],
                     fence := some { char := fc, indent := 0, length := ((n + 3 : Nat) : Int), node := rest'.length + 1 } }⟩) := by
  have hx' : ∀ d' tail, ((d' :: (rest' ++ tail))[pi]?.getD default) = x := by
    intro d' tail; rw [← List.getD_eq_getElem?_getD]; exact hx d' tail
  rw [tryParsersT]
  simp [bind_apply, lastOpenedBlock_run, hop, bpOpen, fencedOpen_fence hl fc hfc n info hinfo hv k (d :: rest') pc' hoff,
    BP.canAcceptIndentedLine, BP.canInterruptParagraph, pure_apply, stNoChildren, modNode_run, appendChild, ensureIsolated,
    getNode_run, fenceN]
  simp [hx', hxp, bind_apply, getNode_run, modNode_run, map_apply, modPc_run, pure_apply, hop]

/-- a thematic break line behind a closing leaf block (any of the three characters) or interrupting the paragraph
    (`*` or `_`; a `-` line under a paragraph is a setext underline) -/
theorem try6_hr (hl : Ln src p e v) (ch : UInt8) (hch : hrChar ch) (n : Nat)
    (hv : v = List.replicate (n + 3) ch ++ [10]) (pts : List PT) (k : Int)
    (d : Blocks.Node) (rest' : List Blocks.Node) (pi : Nat) (x : Blocks.Node)
    (hx : ∀ d' tail, (d' :: (rest' ++ tail)).getD pi default = x) (hxp : x.parent = some 0)
    (hsetext : ch = 45 → (x.kind == .paragraph) = false)
    (pbp : BP) (pc' : Ctx) (hop : pc'.opened = [{ node := pi, bp := pbp }]) (blank : Bool) :
    tryParsersT pts 0 blank (x.kind == .paragraph) 0 ((triggered ch).getD freeParsers) .noBlocksOpened
        (some { node := pi, bp := pbp }) ⟨rdr src k p p e (some v) 0, d :: rest', pc'⟩ =
      .ok ((.done, .newBlocksOpened, some { node := pi, bp := pbp }),
        ⟨rdr src k p (e - 1) e none (-1),
          { d with children := d.children ++ [rest'.length + 1] } :: (rest' ++ [hrN blank]),
          { pc' with opened := [{ node := pi, bp := pbp }, { node := rest'.length + 1, bp := .thematic }] }⟩) := by
  have hx' : ∀ d' tail, ((d' :: (rest' ++ tail))[pi]?.getD default) = x := by
    intro d' tail; rw [← List.getD_eq_getElem?_getD]; exact hx d' tail
  have hx0 := hx' d []
  simp only [List.append_nil] at hx0
  have hto := thematicOpen_hr hl ch hch n hv k
  rcases hch with h | h | h <;> subst h
  · have ht : (triggered 42).getD freeParsers = [.thematic, .list, .listItem, .code, .paragraph] := by decide
    rw [ht, tryParsersT]
    simp [bind_apply, lastOpenedBlock_run, hop, bpOpen, hto, BP.canAcceptIndentedLine, BP.canInterruptParagraph, pure_apply,
      stNoChildren, modNode_run, appendChild, ensureIsolated, getNode_run, hrN]
    simp [hx', hxp, bind_apply, getNode_run, modNode_run, map_apply, modPc_run, pure_apply, hop]
  · have ht : (triggered 45).getD freeParsers = [.setext, .thematic, .list, .listItem, .code, .paragraph] := by decide
    have hk := hsetext rfl
    have hk' : (x.kind != .paragraph) = true := by simpa [bne] using hk
    have hkp : ¬ (x.kind = .paragraph) := by simpa using hk
    rw [ht, tryParsersT]
    simp [bind_apply, lastOpenedBlock_run, hop, bpOpen, setextOpen, BP.canAcceptIndentedLine, BP.canInterruptParagraph,
      pure_apply, getNode_run, hx0, hk, hk', hkp]
    first | rw [tryParsersT] | skip
    simp [bind_apply, lastOpenedBlock_run, hop, bpOpen, hto, BP.canAcceptIndentedLine, BP.canInterruptParagraph, pure_apply,
      stNoChildren, modNode_run, appendChild, ensureIsolated, getNode_run, hrN]
    simp [hx', hxp, bind_apply, getNode_run, modNode_run, map_apply, modPc_run, pure_apply, hop]
  · have ht : (triggered 95).getD freeParsers = [.thematic, .code, .paragraph] := by decide
    rw [ht, tryParsersT]
    simp [bind_apply, lastOpenedBlock_run, hop, bpOpen, hto, BP.canAcceptIndentedLine, BP.canInterruptParagraph, pure_apply,
      stNoChildren, modNode_run, appendChild, ensureIsolated, getNode_run, hrN]
    simp [hx', hxp, bind_apply, getNode_run, modNode_run, map_apply, modPc_run, pure_apply, hop]
end open6

end GM.Proof.CMFrag
