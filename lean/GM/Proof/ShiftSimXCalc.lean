/-
  GM.Proof.ShiftSimXCalc — calculus and reader layer of the C09 SHIFT SIMULATION.

  Two runs of the block-phase model are compared: run A on a source `b`, run B on `p ++ b` standing `|p|` bytes
  (and `dl` lines) further on. `P2 Q x y`: if BOTH results ended normally, values and final states are related
  by `Q` (nothing is claimed when one side panics or runs out of fuel: that both whole runs end normally is
  `GM.Props.Blocks.no_panic`; so the fuels of the two runs need not be related at all).

  Reader layer. B's reader is a FUNCTION of A's: `shR F r` (source `p ++ _`, positions `+ |p|`, line `+ dl`,
  same caches). Every reader call of the block phase commutes with `shR` as soon as A's position is not
  negative (`0 ≤ pos.start`, `0 ≤ pos.stop`, `0 ≤ head` — all consequences of the reader invariant `RI` of
  GM.Proof.BlocksReader); `p` must be empty or end with a line feed (`SetPosition` walks back to the line start),
  and for `preserveLeadingTabInCodeBlock`, which looks one byte back, end with a blank line.
-/
import GM.Proof.BlocksTotal
import GM.Model.Blocks.Indep

namespace GM.Blocks.Xs
open GM GM.Text GM.Spec GM.Proof.Reader GM.Blocks

/-! ### the binary partial-correctness calculus -/

def P2 {α β : Type} (Q : α → β → St → St → Prop) (x : Except Panic (α × St)) (y : Except Panic (β × St)) : Prop :=
  ∀ a sA b sB, x = .ok (a, sA) → y = .ok (b, sB) → Q a b sA sB

theorem P2.ok {α β} {Q : α → β → St → St → Prop} {a b sA sB} (h : Q a b sA sB) :
    P2 Q (.ok (a, sA)) (.ok (b, sB)) := by
  intro a' sA' b' sB' e1 e2; cases e1; cases e2; exact h

theorem P2.errL {α β} {Q : α → β → St → St → Prop} {e y} : P2 Q (.error e : Except Panic (α × St)) y (β := β) := by
  intro a' sA' b' sB' h; cases h

theorem P2.errR {α β} {Q : α → β → St → St → Prop} {e x} : P2 Q x (.error e : Except Panic (β × St)) (α := α) := by
  intro a' sA' b' sB' _ h; cases h

theorem P2.pure {α β} {Q : α → β → St → St → Prop} {a : α} {b : β} {sA sB : St} (h : Q a b sA sB) :
    P2 Q ((Pure.pure a : M α) sA) ((Pure.pure b : M β) sB) := P2.ok h

theorem P2.mono {α β} {P Q : α → β → St → St → Prop} {x y} (h : P2 P x y)
    (hpq : ∀ a b sA sB, P a b sA sB → Q a b sA sB) : P2 Q x y :=
  fun a sA b sB e1 e2 => hpq _ _ _ _ (h a sA b sB e1 e2)

theorem P2.bind {α β α' β'} {P : α → β → St → St → Prop} {Q : α' → β' → St → St → Prop}
    {mA : M α} {mB : M β} {fA : α → M α'} {fB : β → M β'} {sA sB : St}
    (hm : P2 P (mA sA) (mB sB)) (hf : ∀ a b sA' sB', P a b sA' sB' → P2 Q (fA a sA') (fB b sB')) :
    P2 Q ((mA >>= fA) sA) ((mB >>= fB) sB) := by
  show P2 Q (StateT.bind mA fA sA) (StateT.bind mB fB sB)
  unfold StateT.bind
  intro a' sA' b' sB' e1 e2
  cases hA : mA sA with
  | error e => rw [hA] at e1; cases e1
  | ok x =>
    cases hB : mB sB with
    | error e => rw [hB] at e2; cases e2
    | ok y =>
      obtain ⟨a, sA1⟩ := x
      obtain ⟨b, sB1⟩ := y
      rw [hA] at e1; rw [hB] at e2
      exact hf a b sA1 sB1 (hm a sA1 b sB1 hA hB) a' sA' b' sB' e1 e2

theorem P2.liftE {α β} {Q : α → β → St → St → Prop} {eA : Except Panic α} {eB : Except Panic β} {sA sB : St}
    (h : ∀ a b, eA = .ok a → eB = .ok b → Q a b sA sB) : P2 Q (GM.Blocks.liftE eA sA) (GM.Blocks.liftE eB sB) := by
  intro a sA' b sB' e1 e2
  cases eA with
  | error x => cases e1
  | ok a0 =>
    cases eB with
    | error x => cases e2
    | ok b0 => cases e1; cases e2; exact h _ _ rfl rfl

/-- the same pure computation on both sides -/
theorem P2.liftE_same {α} {Q : α → α → St → St → Prop} {e : Except Panic α} {sA sB : St}
    (h : ∀ a, e = .ok a → Q a a sA sB) : P2 Q (GM.Blocks.liftE e sA) (GM.Blocks.liftE e sB) :=
  P2.liftE (fun a b e1 e2 => by rw [e1] at e2; cases e2; exact h a e1)

theorem P2.throwL {α β} {Q : α → β → St → St → Prop} {e : Panic} {sA : St} {y} :
    P2 Q ((throw e : M α) sA) y (β := β) := by
  intro a sA' b sB' h; cases h

theorem P2.throwR {α β} {Q : α → β → St → St → Prop} {e : Panic} {sB : St} {x} :
    P2 Q x ((throw e : M β) sB) (α := α) := by
  intro a sA' b sB' _ h; cases h

/-- exact execution of one run -/
theorem bind_run {α β} {m : M α} {f : α → M β} {s s1 : St} {a : α} (h : m s = .ok (a, s1)) :
    (m >>= f) s = f a s1 := by
  show StateT.bind m f s = _
  unfold StateT.bind; rw [h]; rfl

/-! ### the frame of the simulation -/

/-- what run B has in front of run A: the prefix `p` of its source, the number `dl` of lines of `p`, the number
    `c` of nodes run B's store has more than run A's (A's node `j ≥ 1` is B's node `j + c`; the Documents are node
    0 of both), and the children `kids0` B's Document already has. -/
structure Frame where
  p : Bytes
  dl : Int
  c : Nat
  kids0 : List Nat
  /-- is the flag `emptyListItemWithBlankLines` related (equal in both runs)? Needed only when the list parsers are
      covered; the flag survives the closing of its list, so after a prefix it may be set although a fresh run starts
      with it unset. -/
  flag : Bool := false
  /-- the nodes B's store holds at the start (only the entries `1..c` matter: they are never touched) -/
  oldNodes : List Node := []
  /-- what run B's source has BEHIND run A's (`F.p ++ b ++ F.q`); everything commutes while run A's reader stays
      strictly inside `b` -/
  q : Bytes := []

/-- the byte shift -/
def Frame.d (F : Frame) : Int := (F.p.length : Int)

/-- the prefix is empty or ends with a BLANK line, and the Document's old children are old nodes -/
structure Frame.OK (F : Frame) : Prop where
  nl : F.p = [] ∨ F.p[F.p.length - 1]? = some 10
  nl2 : F.p.length ≤ 1 ∨ F.p[F.p.length - 2]? = some 10
  kids : ∀ x ∈ F.kids0, 1 ≤ x ∧ x ≤ F.c

/-! ### bytes of `p ++ s` -/

theorem getElem?_shift (p s : Bytes) (i : Nat) : (p ++ s)[i + p.length]? = s[i]? := by
  rw [List.getElem?_append_right (by omega)]; congr 1; omega

theorem getByte_pre (p s : Bytes) (i : Int) (hi : 0 ≤ i) : getByte (p ++ s) (i + p.length) = getByte s i := by
  unfold getByte
  rw [if_neg (by omega), if_neg (by omega)]
  have : (i + (p.length : Int)).toNat = i.toNat + p.length := by omega
  rw [this, getElem?_shift]

theorem drop_pre (p s : Bytes) (a : Nat) : (p ++ s).drop (a + p.length) = s.drop a := by
  rw [List.drop_append]
  have : p.drop (a + p.length) = [] := List.drop_eq_nil_of_le (by omega)
  rw [this]; simp

theorem sub_pre (p s : Bytes) (a b : Nat) : sub (p ++ s) (a + p.length) (b + p.length) = sub s a b := by
  unfold sub
  rw [drop_pre]; congr 1; omega

theorem sliceB_pre (p s : Bytes) (a b : Int) (ha : 0 ≤ a) :
    sliceB (p ++ s) (a + p.length) (b + p.length) = sliceB s a b := by
  unfold sliceB
  by_cases h : 0 ≤ a ∧ a ≤ b ∧ b ≤ (s.length : Int)
  · rw [if_pos h, if_pos (by simp only [List.length_append]; omega)]
    have e1 : (a + (p.length : Int)).toNat = a.toNat + p.length := by omega
    have e2 : (b + (p.length : Int)).toNat = b.toNat + p.length := by omega
    rw [e1, e2, sub_pre]
  · rw [if_neg h, if_neg (by simp only [List.length_append]; omega)]

theorem lineEnd_pre (p s : Bytes) (q : Nat) : lineEnd (p ++ s) (q + p.length) = lineEnd s q + p.length := by
  unfold lineEnd
  simp only [List.length_append]
  by_cases h : q ≤ s.length
  · rw [if_pos h, if_pos (by omega), drop_pre]; omega
  · rw [if_neg h, if_neg (by omega)]; omega

theorem lineStart_pre (p s : Bytes) (hp : p = [] ∨ p[p.length - 1]? = some 10) :
    ∀ q : Nat, lineStart (p ++ s) (q + p.length) = lineStart s q + p.length := by
  intro q
  induction q with
  | zero =>
    simp only [Nat.zero_add, lineStart]
    rcases hp with hp | hp
    · subst hp; simp [lineStart]
    · cases hl : p.length with
      | zero => simp [lineStart]
      | succ k =>
        simp only [lineStart]
        have : (p ++ s)[k]? = some 10 := by
          rw [List.getElem?_append_left (by omega)]
          rw [hl] at hp; simpa using hp
        rw [this]; simp
  | succ q ih =>
    have e : q + 1 + p.length = (q + p.length) + 1 := by omega
    rw [e]
    simp only [lineStart]
    rw [getElem?_shift, ih]
    split <;> omega

theorem colLoop_pre (p s : Bytes) (head start : Int) (hh : 0 ≤ head) :
    colLoop (p ++ s) (head + p.length) (start + p.length) = colLoop s head start := by
  unfold colLoop
  by_cases h1 : head ≥ start
  · rw [if_pos h1, if_pos (by omega)]
  · rw [if_neg h1, if_neg (by omega)]
    by_cases h2 : head < 0 ∨ start > (s.length : Int)
    · rw [if_pos h2, if_pos (by simp only [List.length_append]; omega)]
    · rw [if_neg h2, if_neg (by simp only [List.length_append]; omega)]
      have e1 : (head + (p.length : Int)).toNat = head.toNat + p.length := by omega
      have e2 : (start + (p.length : Int)).toNat = start.toNat + p.length := by omega
      rw [e1, e2, sub_pre]

/-! ### bytes of `s ++ q`: nothing changes as long as only `s` is looked at -/

theorem getByte_suf (s q : Bytes) (i : Int) (hq : q = [] ∨ i < s.length) : getByte (s ++ q) i = getByte s i := by
  rcases hq with rfl | hq
  · rw [List.append_nil]
  · unfold getByte
    by_cases h : i < 0
    · rw [if_pos h, if_pos h]
    · rw [if_neg h, if_neg h, List.getElem?_append_left (by omega)]

theorem sub_suf (s q : Bytes) (a b : Nat) (hq : q = [] ∨ b ≤ s.length) : sub (s ++ q) a b = sub s a b := by
  rcases hq with rfl | hq
  · rw [List.append_nil]
  · unfold sub
    by_cases ha : a ≤ s.length
    · rw [List.drop_append_of_le_length ha, List.take_append_of_le_length (by rw [List.length_drop]; omega)]
    · have : b - a = 0 := by omega
      rw [this]; simp

theorem sliceB_suf (s q : Bytes) (a b : Int) (hq : q = [] ∨ b ≤ s.length) : sliceB (s ++ q) a b = sliceB s a b := by
  rcases hq with rfl | hq
  · rw [List.append_nil]
  · unfold sliceB
    by_cases h : 0 ≤ a ∧ a ≤ b ∧ b ≤ (s.length : Int)
    · rw [if_pos h, if_pos (by simp only [List.length_append]; omega), sub_suf _ _ _ _ (.inr (by omega))]
    · rw [if_neg h, if_neg (by omega)]

theorem lineLen_suf (q : Bytes) : ∀ l : Bytes, l.getLast? = some 10 → lineLen (l ++ q) = lineLen l := by
  intro l
  induction l with
  | nil => intro h; cases h
  | cons c cs ih =>
    intro h
    simp only [List.cons_append, lineLen]
    by_cases hc : (c == 10) = true
    · rw [if_pos hc, if_pos hc]
    · rw [if_neg hc, if_neg hc]
      cases cs with
      | nil =>
        simp only [List.getLast?_singleton, Option.some.injEq] at h
        subst h; exact absurd rfl hc
      | cons d ds =>
        rw [ih (by rw [List.getLast?_cons_cons] at h; exact h)]

theorem lineEnd_suf (s q : Bytes) (k : Nat) (hq : q = [] ∨ (k < s.length ∧ s.getLast? = some 10)) :
    lineEnd (s ++ q) k = lineEnd s k := by
  rcases hq with rfl | ⟨hk, hl⟩
  · rw [List.append_nil]
  · unfold lineEnd
    rw [if_pos (by simp only [List.length_append]; omega), if_pos (by omega), List.drop_append_of_le_length (by omega),
      lineLen_suf]
    rw [List.getLast?_drop, if_neg (by omega)]; exact hl

theorem lineStart_suf (s q : Bytes) : ∀ k : Nat, (q = [] ∨ k ≤ s.length) → lineStart (s ++ q) k = lineStart s k := by
  intro k
  induction k with
  | zero => intro _; rfl
  | succ k ih =>
    intro hq
    rcases hq with rfl | hq
    · rw [List.append_nil]
    · simp only [lineStart]
      rw [List.getElem?_append_left (by omega), ih (.inr (by omega))]

theorem colLoop_suf (s q : Bytes) (head start : Int) (hq : q = [] ∨ start ≤ s.length) :
    colLoop (s ++ q) head start = colLoop s head start := by
  rcases hq with rfl | hq
  · rw [List.append_nil]
  · unfold colLoop
    by_cases h1 : head ≥ start
    · rw [if_pos h1, if_pos h1]
    · rw [if_neg h1, if_neg h1]
      by_cases h2 : head < 0 ∨ start > (s.length : Int)
      · rw [if_pos h2, if_pos (by omega)]
      · rw [if_neg h2, if_neg (by simp only [List.length_append]; omega), sub_suf _ _ _ _ (.inr (by omega))]

/-! ### bytes of `p ++ s ++ q` -/

theorem getByte_shift (p s q : Bytes) (i : Int) (hi : 0 ≤ i) (hq : q = [] ∨ i < s.length) :
    getByte (p ++ s ++ q) (i + p.length) = getByte s i := by
  rw [List.append_assoc, getByte_pre _ _ _ hi, getByte_suf _ _ _ hq]

theorem sub_shift (p s q : Bytes) (a b : Nat) (hq : q = [] ∨ b ≤ s.length) :
    sub (p ++ s ++ q) (a + p.length) (b + p.length) = sub s a b := by
  rw [List.append_assoc, sub_pre, sub_suf _ _ _ _ hq]

theorem sliceB_shift (p s q : Bytes) (a b : Int) (ha : 0 ≤ a) (hq : q = [] ∨ b ≤ s.length) :
    sliceB (p ++ s ++ q) (a + p.length) (b + p.length) = sliceB s a b := by
  rw [List.append_assoc, sliceB_pre _ _ _ _ ha, sliceB_suf _ _ _ _ hq]

theorem lineEnd_shift (p s q : Bytes) (k : Nat) (hq : q = [] ∨ (k < s.length ∧ s.getLast? = some 10)) :
    lineEnd (p ++ s ++ q) (k + p.length) = lineEnd s k + p.length := by
  rw [List.append_assoc, lineEnd_pre, lineEnd_suf _ _ _ hq]

theorem lineStart_shift (p s q : Bytes) (hp : p = [] ∨ p[p.length - 1]? = some 10) (k : Nat)
    (hq : q = [] ∨ k ≤ s.length) :
    lineStart (p ++ s ++ q) (k + p.length) = lineStart s k + p.length := by
  rw [List.append_assoc, lineStart_pre _ _ hp, lineStart_suf _ _ _ hq]

theorem colLoop_shift (p s q : Bytes) (head start : Int) (hh : 0 ≤ head) (hq : q = [] ∨ start ≤ s.length) :
    colLoop (p ++ s ++ q) (head + p.length) (start + p.length) = colLoop s head start := by
  rw [List.append_assoc, colLoop_pre _ _ _ _ hh, colLoop_suf _ _ _ _ hq]

/-! ### the shifted reader -/

theorem moveSeg_zero (s : Segment) : moveSeg 0 s = s := by simp [moveSeg]

/-- B's reader as a function of A's -/
def shR (F : Frame) (r : Reader) : Reader :=
  { source := F.p ++ r.source ++ F.q, line := r.line + F.dl, peekedLine := r.peekedLine, pos := moveSeg F.d r.pos,
    head := r.head + F.d, lineOffset := r.lineOffset }

theorem Frame.q_len {F : Frame} {P : Prop} (hq : F.q = [] ∨ P) : F.q.length = 0 ∨ P :=
  hq.imp (fun h => by rw [h]; rfl) id

theorem value_shift (F : Frame) (t : Segment) (src : Bytes) (h0 : 0 ≤ t.start)
    (hq : F.q = [] ∨ t.stop ≤ src.length) :
    (moveSeg F.d t).value (F.p ++ src ++ F.q) = t.value src := by
  unfold Segment.value moveSeg Frame.d
  simp only
  rw [sliceB_shift _ _ _ _ _ h0 hq]
  have e : t.padding + (t.stop + (F.p.length : Int)) - (t.start + (F.p.length : Int)) + 1 = t.padding + t.stop - t.start + 1 := by
    omega
  rw [e]
  rfl

theorem peekLine_sh (F : Frame) (r : Reader) (h0 : 0 ≤ r.pos.start)
    (hq : F.q = [] ∨ (r.pos.start < r.source.length ∧ r.pos.stop ≤ r.source.length)) :
    (shR F r).peekLine = r.peekLine.map (fun x => ((x.1.1, moveSeg F.d x.1.2), shR F x.2)) := by
  unfold Reader.peekLine Reader.sourceLength
  have hq' := Frame.q_len hq
  have hg : ((shR F r).pos.start ≥ 0 ∧ (shR F r).pos.start < ((shR F r).source.length : Int)) ↔
      (r.pos.start ≥ 0 ∧ r.pos.start < (r.source.length : Int)) := by
    simp only [shR, moveSeg, Frame.d, List.length_append]; omega
  by_cases hc : r.pos.start ≥ 0 ∧ r.pos.start < (r.source.length : Int)
  · rw [if_pos hc, if_pos (hg.mpr hc)]
    cases hp : r.peekedLine with
    | some l =>
      have : (shR F r).peekedLine = some l := hp
      rw [this]; rfl
    | none =>
      have : (shR F r).peekedLine = none := hp
      rw [this]
      simp only
      have hv : (shR F r).pos.value (shR F r).source = r.pos.value r.source :=
        value_shift F r.pos r.source h0 (hq.imp id (·.2))
      rw [hv]
      cases r.pos.value r.source with
      | error e => rfl
      | ok v => rfl
  · rw [if_neg hc, if_neg (fun h => hc (hg.mp h))]; rfl

theorem lineOffsetOp_sh (F : Frame) (r : Reader) (hh : 0 ≤ r.head) (hq : F.q = [] ∨ r.pos.start ≤ r.source.length) :
    (shR F r).lineOffsetOp = r.lineOffsetOp.map (fun x => (x.1, shR F x.2)) := by
  unfold Reader.lineOffsetOp
  have e0 : (shR F r).lineOffset = r.lineOffset := rfl
  rw [e0]
  by_cases hc : r.lineOffset < 0
  · rw [if_pos hc, if_pos hc]
    have hv : colLoop (shR F r).source (shR F r).head (shR F r).pos.start = colLoop r.source r.head r.pos.start :=
      colLoop_shift F.p r.source F.q r.head r.pos.start hh hq
    rw [hv]
    cases colLoop r.source r.head r.pos.start with
    | error e => rfl
    | ok v => rfl
  · rw [if_neg hc, if_neg hc]; rfl

theorem advanceLine_sh (F : Frame) (r : Reader) (h0 : 0 ≤ r.pos.stop)
    (hq : F.q = [] ∨ (r.pos.stop < r.source.length ∧ r.source.getLast? = some 10)) :
    (shR F r).advanceLine = shR F r.advanceLine := by
  unfold Reader.advanceLine
  have h1 : ¬ r.pos.stop < 0 := by omega
  have h2 : ¬ (shR F r).pos.stop < 0 := by simp only [shR, moveSeg, Frame.d]; omega
  simp only [if_neg h1, if_neg h2]
  have e : lineEnd (F.p ++ r.source ++ F.q) (r.pos.stop + F.d).toNat = lineEnd r.source r.pos.stop.toNat + F.p.length := by
    have : (r.pos.stop + F.d).toNat = r.pos.stop.toNat + F.p.length := by simp only [Frame.d]; omega
    rw [this, lineEnd_shift _ _ _ _ (hq.imp id (fun h => ⟨by omega, h.2⟩))]
  simp only [shR, moveSeg, Reader.mk.injEq, Segment.mk.injEq, and_true, true_and]
  rw [e]
  simp only [Frame.d]
  omega

/-- the next `n` bytes of the source at the reader's position hold no line feed -/
def NoLF (r : Reader) (n : Nat) : Prop :=
  (0 < n → r.pos.start < r.source.length) ∧ r.pos.start + (n - r.pos.padding.toNat : Nat) ≤ r.source.length ∧
    ∀ i : Nat, r.pos.start ≤ (i : Int) → (i : Int) < r.pos.start + (n - r.pos.padding.toNat : Nat) →
      r.source[i]? ≠ some 10

theorem lineLen_no_nl : ∀ (l : Bytes) (i : Nat), i + 1 < lineLen l → l[i]? ≠ some 10 := by
  intro l
  induction l with
  | nil => intro i h; simp [lineLen] at h
  | cons c cs ih =>
    intro i h
    simp only [lineLen] at h
    by_cases hc : (c == 10) = true
    · rw [if_pos hc] at h; omega
    · rw [if_neg hc] at h
      cases i with
      | zero => simp only [List.getElem?_cons_zero, ne_eq, Option.some.injEq]; intro e; subst e; exact hc rfl
      | succ i => rw [List.getElem?_cons_succ]; exact ih i (by omega)

theorem lineEnd_no_nl (src : Bytes) (p i : Nat) (h1 : p ≤ i) (h2 : i + 1 < lineEnd src p) : src[i]? ≠ some 10 := by
  unfold lineEnd at h2
  by_cases hp : p ≤ src.length
  · rw [if_pos hp] at h2
    have := lineLen_no_nl (src.drop p) (i - p) (by omega)
    rw [List.getElem?_drop] at this
    rwa [show p + (i - p) = i by omega] at this
  · rw [if_neg hp] at h2
    rw [List.getElem?_eq_none (by omega)]; simp

/-- on an `RI` reader, `Advance(n)` that stays in front of the line's last byte reads no line feed -/
theorem RI.noLF {src r c} (h : RI src r c) {n : Int}
    (hn : r.pos.start < r.pos.stop ∧ r.pos.start + n < r.pos.stop + r.pos.padding) : NoLF r n.toNat := by
  have hle := GM.Blocks.lineEnd_le src c.p
  have hr := h.inRange
  rw [h.pos] at hn
  simp only at hn
  refine ⟨?_, ?_, ?_⟩
  · rw [h.source, h.pos]; simp only; omega
  · rw [h.source, h.pos]; simp only; omega
  · intro i h1 h2
    rw [h.source]
    rw [h.pos] at h1 h2
    simp only at h1 h2
    exact lineEnd_no_nl src c.p i (by omega) (by omega)

theorem advanceLoop_sh (F : Frame) : ∀ (n : Nat) (r : Reader), 0 ≤ r.pos.start → 0 ≤ r.pos.stop →
    (F.q = [] ∨ NoLF r n) →
    (shR F r).advanceLoop n = (r.advanceLoop n).map (shR F) := by
  intro n
  induction n with
  | zero => intro r _ _ _; rfl
  | succ n ih =>
    intro r h0 h1 hq
    unfold Reader.advanceLoop Reader.sourceLength
    by_cases hc : r.pos.start < (r.source.length : Int)
    · have hg : ((shR F r).pos.start < ((shR F r).source.length : Int)) := by
        simp only [shR, moveSeg, Frame.d, List.length_append]; omega
      rw [if_pos hc, if_pos hg]
      have hp : (shR F r).pos.padding = r.pos.padding := rfl
      rw [hp]
      by_cases hpad : (r.pos.padding != 0) = true
      · rw [if_pos hpad, if_pos hpad]
        refine ih { r with pos := { r.pos with padding := r.pos.padding - 1 } } h0 h1 (hq.imp id ?_)
        intro hn
        refine ⟨fun _ => hc, by have := hn.2.1; simp only; omega, fun i i1 i2 => hn.2.2 i i1 (by simp only at i2; omega)⟩
      · rw [if_neg hpad, if_neg hpad]
        have hp0 : r.pos.padding = 0 := by simpa using hpad
        have hb : getByte (shR F r).source (shR F r).pos.start = getByte r.source r.pos.start :=
          getByte_shift F.p r.source F.q r.pos.start h0 (.inr hc)
        rw [hb]
        cases hgb : getByte r.source r.pos.start with
        | error e => rfl
        | ok c =>
          simp only [bind, Except.bind]
          by_cases hnl : (c == 10) = true
          · rcases hq with hq | hq
            · rw [if_pos hnl, if_pos hnl, advanceLine_sh F r h1 (.inl hq)]
              refine ih r.advanceLine ?_ ?_ (.inl hq)
              · unfold Reader.advanceLine; simp only [if_neg (show ¬ r.pos.stop < 0 by omega)]; exact h1
              · unfold Reader.advanceLine; simp only [if_neg (show ¬ r.pos.stop < 0 by omega)]; omega
            · exfalso
              have := hq.2.2 r.pos.start.toNat (by omega) (by rw [hp0]; omega)
              unfold getByte at hgb
              rw [if_neg (by omega)] at hgb
              cases hx : r.source[r.pos.start.toNat]? with
              | none => rw [hx] at hgb; cases hgb
              | some x =>
                rw [hx] at hgb this
                simp only [Except.ok.injEq] at hgb
                subst hgb
                simp only [beq_iff_eq] at hnl
                subst hnl
                exact this rfl
          · rw [if_neg hnl, if_neg hnl]
            have := ih { r with pos := { r.pos with start := r.pos.start + 1 } } (by simp only; omega) h1
              (hq.imp id (fun hn => ⟨by have := hn.2.1; rw [hp0] at this; simp only; omega,
                by have := hn.2.1; rw [hp0] at this; simp only; rw [hp0]; omega,
                fun i i1 i2 => hn.2.2 i (by simp only at i1; omega) (by simp only at i2; rw [hp0] at i2 ⊢; omega)⟩))
            rw [← this]
            congr 1
            simp only [shR, moveSeg, Reader.mk.injEq, Segment.mk.injEq, and_true, true_and]
            omega
    · have hq' : F.q.length = 0 ∨ NoLF r (n + 1) := Frame.q_len hq
      rcases hq' with hq' | hq'
      · rw [if_neg hc, if_neg (by simp only [shR, moveSeg, Frame.d, List.length_append]; omega)]; rfl
      · have := hq'.1 (by omega); omega

theorem advance_sh (F : Frame) (r : Reader) (n : Int) (h0 : 0 ≤ r.pos.start) (h1 : 0 ≤ r.pos.stop)
    (hq : F.q = [] ∨ NoLF r n.toNat) :
    (shR F r).advance n = (r.advance n).map (shR F) := by
  unfold Reader.advance
  have hp : (shR F r).peekedLine = r.peekedLine := rfl
  have hpad : (shR F r).pos.padding = r.pos.padding := rfl
  simp only [hp, hpad]
  cases r.peekedLine <;> simp only
  all_goals
    split
    · simp only [Except.map, pure, Except.pure, shR, moveSeg, Except.ok.injEq, Reader.mk.injEq, Segment.mk.injEq, and_true, true_and]
      omega
    · exact advanceLoop_sh F n.toNat { r with lineOffset := -1, peekedLine := none } h0 h1 hq

/-- without a line feed read, `Advance` stays on its line -/
theorem advanceLoop_stop : ∀ (n : Nat) (r r' : Reader), NoLF r n → r.advanceLoop n = .ok r' → r'.pos.stop = r.pos.stop := by
  intro n
  induction n with
  | zero => intro r r' _ h; cases h; rfl
  | succ n ih =>
    intro r r' hn h
    unfold Reader.advanceLoop Reader.sourceLength at h
    by_cases hc : r.pos.start < (r.source.length : Int)
    · rw [if_pos hc] at h
      by_cases hpad : (r.pos.padding != 0) = true
      · rw [if_pos hpad] at h
        exact ih { r with pos := { r.pos with padding := r.pos.padding - 1 } } r'
          ⟨fun _ => hc, by have := hn.2.1; simp only; omega, fun i i1 i2 => hn.2.2 i i1 (by simp only at i2; omega)⟩ h
      · rw [if_neg hpad] at h
        have hp0 : r.pos.padding = 0 := by simpa using hpad
        cases hgb : getByte r.source r.pos.start with
        | error e => rw [hgb] at h; cases h
        | ok c =>
          rw [hgb] at h
          simp only [bind, Except.bind] at h
          by_cases hnl : (c == 10) = true
          · exfalso
            have h0 : 0 ≤ r.pos.start := by
              unfold getByte at hgb
              by_cases hneg : r.pos.start < 0
              · rw [if_pos hneg] at hgb; cases hgb
              · omega
            have := hn.2.2 r.pos.start.toNat (by omega) (by rw [hp0]; omega)
            unfold getByte at hgb
            rw [if_neg (by omega)] at hgb
            cases hx : r.source[r.pos.start.toNat]? with
            | none => rw [hx] at hgb; cases hgb
            | some x =>
              rw [hx] at hgb this
              simp only [Except.ok.injEq] at hgb
              subst hgb
              simp only [beq_iff_eq] at hnl
              subst hnl
              exact this rfl
          · rw [if_neg hnl] at h
            exact ih { r with pos := { r.pos with start := r.pos.start + 1 } } r'
              ⟨by have := hn.2.1; rw [hp0] at this; simp only; omega,
                by have := hn.2.1; rw [hp0] at this; simp only; rw [hp0]; omega,
                fun i i1 i2 => hn.2.2 i (by simp only at i1; omega) (by simp only at i2; rw [hp0] at i2 ⊢; omega)⟩ h
    · rw [if_neg hc] at h; cases h; rfl

theorem advance_stop (r r' : Reader) (n : Int) (hn : NoLF r n.toNat) (h : r.advance n = .ok r') :
    r'.pos.stop = r.pos.stop := by
  unfold Reader.advance at h
  simp only at h
  split at h
  all_goals
    split at h
    · simp only [pure, Except.pure, Except.ok.injEq] at h; subst h; rfl
    · exact advanceLoop_stop n.toNat { r with lineOffset := -1, peekedLine := none } r' hn h

theorem setPadding_sh (F : Frame) (r : Reader) (v : Int) : (shR F r).setPadding v = shR F (r.setPadding v) := rfl

theorem advanceAndSetPadding_sh (F : Frame) (r : Reader) (n pd : Int) (h0 : 0 ≤ r.pos.start) (h1 : 0 ≤ r.pos.stop)
    (hq : F.q = [] ∨ NoLF r n.toNat) :
    (shR F r).advanceAndSetPadding n pd = (r.advanceAndSetPadding n pd).map (shR F) := by
  unfold Reader.advanceAndSetPadding
  rw [advance_sh F r n h0 h1 hq]
  cases r.advance n with
  | error e => rfl
  | ok r1 =>
    simp only [Except.map, bind, Except.bind]
    have : (shR F r1).pos.padding = r1.pos.padding := rfl
    rw [this]
    split <;> rfl

theorem position_sh (F : Frame) (r : Reader) : (shR F r).position = (r.position.1 + F.dl, moveSeg F.d r.position.2) := rfl

/-- `SetPosition` at a position that is not negative — or one byte in front of the source (the prefix ends with a
    blank line) -/
theorem setPosition_sh (F : Frame) (hF : F.OK) (r : Reader) (l : Int) (pos : Segment) (h0 : -1 ≤ pos.start)
    (hq : F.q = [] ∨ pos.start ≤ r.source.length) :
    (shR F r).setPosition (l + F.dl) (moveSeg F.d pos) = shR F (r.setPosition l pos) := by
  unfold Reader.setPosition Reader.sourceLength
  have hq' := Frame.q_len hq
  simp only [shR, Reader.mk.injEq, and_true, true_and]
  simp only [moveSeg, Frame.d, List.length_append, Int.natCast_add]
  by_cases hc : 0 < pos.start ∧ pos.start ≤ (r.source.length : Int)
  · rw [if_pos hc, if_pos (by omega)]
    have : (pos.start + (F.p.length : Int)).toNat = pos.start.toNat + F.p.length := by omega
    rw [this, lineStart_shift _ _ _ hF.nl _ (hq.imp id (fun _ => by omega))]; omega
  · rw [if_neg hc]
    by_cases hc2 : 0 < pos.start + (F.p.length : Int) ∧
        pos.start + (F.p.length : Int) ≤ (F.p.length : Int) + (r.source.length : Int) + (F.q.length : Int)
    · rw [if_pos hc2]
      rcases (show pos.start = 0 ∨ pos.start = -1 by omega) with h | h
      · have : (pos.start + (F.p.length : Int)).toNat = 0 + F.p.length := by omega
        rw [this, lineStart_shift _ _ _ hF.nl _ (.inr (by omega))]; simp [lineStart]; omega
      · -- one byte back: the last byte of `p` is the line feed of a blank line
        have hlen : 2 ≤ F.p.length := by omega
        have e : (pos.start + (F.p.length : Int)).toNat = (F.p.length - 2) + 1 := by omega
        rw [e]
        simp only [lineStart]
        have hb : (F.p ++ r.source ++ F.q)[F.p.length - 2]? = some 10 := by
          rw [List.append_assoc, List.getElem?_append_left (by omega)]
          rcases hF.nl2 with h2 | h2
          · omega
          · exact h2
        rw [hb]; simp; omega
    · rw [if_neg hc2]

/-! ### `SkipBlankLines` (fuels may differ) -/

theorem skipBlankLines_sh (F : Frame) (hq : F.q = []) : ∀ (fA fB : Nat) (lines : Int) (r : Reader) (c : RCur) (src : Bytes),
    RI src r c → ∀ xA rA xB rB, skipBlankLines readerOps fA lines r = .ok (xA, rA) →
      skipBlankLines readerOps fB lines (shR F r) = .ok (xB, rB) →
      xB = (moveSeg F.d xA.1, xA.2.1, xA.2.2) ∧ rB = shR F rA ∧ ∃ c', RI src rA c' := by
  intro fA
  induction fA with
  | zero => intro fB lines r c src _ xA rA xB rB e; cases e
  | succ fA ih =>
    intro fB lines r c src hri xA rA xB rB e1 e2
    cases fB with
    | zero => cases e2
    | succ fB =>
      unfold skipBlankLines at e1 e2
      obtain ⟨r1, hp, hri1⟩ := ri_peekLine hri
      have h0 : 0 ≤ r.pos.start := by rw [hri.pos]; simp
      have hpB : (shR F r).peekLine = .ok ((RCur.view src c, moveSeg F.d (RCur.seg src c)), shR F r1) := by
        rw [peekLine_sh F r h0 (.inl hq), hp]; rfl
      simp only [readerOps, hp, hpB, bind, Except.bind] at e1 e2
      cases hv : RCur.view src c with
      | none =>
        rw [hv] at e1 e2
        simp only [pure, Except.pure, Except.ok.injEq, Prod.mk.injEq] at e1 e2
        obtain ⟨e1a, e1b⟩ := e1
        obtain ⟨e2a, e2b⟩ := e2
        subst e1a e1b e2a e2b
        exact ⟨rfl, rfl, c, hri1⟩
      | some l =>
        rw [hv] at e1 e2
        simp only at e1 e2
        by_cases hb : isBlank l = true
        · rw [if_pos hb] at e1 e2
          simp only [pure, Except.pure] at e1 e2
          have h1 : 0 ≤ r1.pos.stop := by rw [hri1.pos]; simp
          rw [advanceLine_sh F r1 h1 (.inl hq)] at e2
          exact ih fB (lines + 1) r1.advanceLine _ src (ri_advanceLine hri1) xA rA xB rB e1 e2
        · rw [if_neg hb] at e1 e2
          simp only [pure, Except.pure, Except.ok.injEq, Prod.mk.injEq] at e1 e2
          obtain ⟨e1a, e1b⟩ := e1
          obtain ⟨e2a, e2b⟩ := e2
          subst e1a e1b e2a e2b
          exact ⟨rfl, rfl, c, hri1⟩

end GM.Blocks.Xs

