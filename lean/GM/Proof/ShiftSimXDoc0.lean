/-
  GM.Proof.ShiftSimXDoc0 — for every source, node 0 of the store the block-phase model builds is the Document
  the initial store has, up to its `children` (`run_doc0`).
  * `Doc0`: node 0 is `{ kind := .document, children := cs }` for some `cs`; `D := DocInv ∧ Doc0` is kept by every
    `Open` / `Continue` / `Close` that is given a node id `≠ 0` (calculus `Keeps`, tactic `d0`).
  * `K'`: `K` of GM.Proof.ShiftSimAcyc2 with `D` in place of `DocInv`; kept by the driver.
-/
import GM.Proof.ShiftSimAcyc2

namespace GM.Blocks.Sh
open GM GM.Text GM.Blocks

/-- node 0 is the initial Document up to `children` -/
def Doc0 (s : St) : Prop := ∃ cs, s.nodes.getD 0 default = { kind := .document, children := cs }

/-- `DocInv`, and node 0 is the initial Document up to `children` -/
def D (s : St) : Prop := DocInv s ∧ Doc0 s

theorem d0_noR : NoR D := ⟨fun _ _ hs => hs⟩

theorem d0_set (s : St) (id : Nat) (v : Node) (hs : Doc0 s)
    (h : id ≠ 0 ∨ ∃ cs, v = { kind := .document, children := cs }) :
    Doc0 { s with nodes := s.nodes.set id v } := by
  show ∃ cs, (s.nodes.set id v).getD 0 default = { kind := .document, children := cs }
  rw [ac_getD_set]
  split
  · rename_i h1
    rcases h with h | h
    · exact absurd h1.1 h
    · exact h
  · exact hs

theorem d0_push (s : St) (n : Node) (hs : Doc0 s) (h1 : 0 < s.nodes.length) :
    Doc0 { s with nodes := s.nodes ++ [n] } := by
  show ∃ cs, (s.nodes ++ [n]).getD 0 default = { kind := .document, children := cs }
  rw [ac_getD_push, if_pos h1]
  exact hs

/-! ### primitives -/

theorem d0_modPc (f : Ctx → Ctx) : Keeps D (modPc f) := modPc_keeps f fun _ hs => hs

/-- a write to a node other than the Document that keeps `children` -/
theorem d0_modNode_ne (id : Nat) (hid : id ≠ 0) (f : Node → Node) (h : ∀ n, (f n).children = n.children) :
    Keeps D (modNode id f) := by
  intro s a s' hs hm
  refine ⟨a2_modNode_ne id hid f h s a s' hs.1 hm, ?_⟩
  cases hm
  exact d0_set s id _ hs.2 (Or.inl hid)

/-- a write that keeps `lines` and `kind`, adds only children `≠ 0`, and keeps the shape of the Document -/
theorem d0_modNode_ch (id : Nat) (f : Node → Node)
    (h : ∀ n, (f n).lines = n.lines ∧ (f n).kind = n.kind ∧ ∀ x, x ∈ (f n).children → x ∈ n.children ∨ x ≠ 0)
    (h2 : ∀ n cs, n = { kind := .document, children := cs } → ∃ cs', f n = { kind := .document, children := cs' }) :
    Keeps D (modNode id f) := by
  intro s a s' hs hm
  refine ⟨a2_modNode_ch id f h s a s' hs.1 hm, ?_⟩
  cases hm
  by_cases hid : id = 0
  · subst hid
    obtain ⟨cs, hc⟩ := hs.2
    exact d0_set s 0 _ hs.2 (Or.inr (h2 _ cs hc))
  · exact d0_set s id _ hs.2 (Or.inl hid)

theorem d0_appendLine (id : Nat) (hid : id ≠ 0) (seg : Segment) : Keeps D (appendLine id seg) :=
  d0_modNode_ne id hid _ fun _ => rfl

theorem d0_newNode (n : Node) (hc : n.children = []) : Keeps D (newNode n) := by
  intro s a s' hs hm
  refine ⟨a2_newNode n hc s a s' hs.1 hm, ?_⟩
  cases hm
  exact d0_push s n hs.2 hs.1.1

/-- `newNode` first: the rest runs on an id `≠ 0` -/
theorem d0_bind_new {β} (n : Node) (f : Nat → M β) (hc : n.children = [])
    (hf : ∀ k, 0 < k → Keeps D (f k)) : Keeps D (newNode n >>= f) := by
  intro s b s' hs h
  have h' : f s.nodes.length { s with nodes := s.nodes ++ [n] } = .ok (b, s') := h
  exact hf s.nodes.length hs.1.1 _ b s' ⟨a2_push s n hs.1 hc, d0_push s n hs.2 hs.1.1⟩ h'

/-- a write of `children` only keeps the shape of the Document -/
macro "d0_sh" : tactic => `(tactic| (intro n cs h; exact ⟨_, by subst h; rfl⟩))

macro "d0_step" : tactic =>
  `(tactic| first
    | with_reducible apply Keeps.pure
    | with_reducible apply ac_pure_bind
    | with_reducible apply ac_throw_bind
    | ((with_reducible apply d0_bind_new) <;> first | rfl | skip)
    | with_reducible apply Keeps.bind
    | with_reducible apply Keeps.ite
    | with_reducible apply Keeps.throw
    | with_reducible apply getNode_keeps
    | with_reducible apply getPc_keeps
    | with_reducible apply source_keeps
    | with_reducible apply position_keeps
    | with_reducible apply get_keeps
    | with_reducible apply liftE_keeps
    | with_reducible apply lastOpenedBlock_keeps
    | (with_reducible apply peekLine_keeps; exact d0_noR)
    | (with_reducible apply lineOffset_keeps; exact d0_noR)
    | (with_reducible apply advance_keeps; exact d0_noR)
    | (with_reducible apply advanceAndSetPadding_keeps; exact d0_noR)
    | (with_reducible apply advanceLine_keeps; exact d0_noR)
    | (with_reducible apply setPosition_keeps; exact d0_noR)
    | (with_reducible apply skipBlankLinesR_keeps; exact d0_noR)
    | with_reducible apply d0_modPc
    | ((with_reducible apply d0_appendLine); a2_ne)
    | ((with_reducible apply d0_modNode_ne); a2_ne; (intro n; rfl))
    | ((with_reducible apply d0_modNode_ch); (intro n; exact ⟨rfl, rfl, fun x hx => Or.inl hx⟩); d0_sh)
    | apply_hyp
    | intro_pi
    | split)

/-- walk over an `M` do block that keeps `D` -/
macro "d0" : tactic => `(tactic| repeat' d0_step)

/-! ### tree operations -/

theorem d0_removeChild (p c : Nat) : Keeps D (removeChild p c) := by
  unfold removeChild
  refine Keeps.bind (getNode_keeps _) fun cn => ?_
  split
  · exact Keeps.pure _
  · refine Keeps.bind ?_ fun _ => ?_
    · exact d0_modNode_ch p _ (fun n => ⟨rfl, rfl, fun x hx => Or.inl (List.mem_of_mem_erase hx)⟩) (by d0_sh)
    · exact d0_modNode_ch c _ (fun n => ⟨rfl, rfl, fun x hx => Or.inl hx⟩) (by d0_sh)

theorem d0_ensureIsolated (c : Nat) : Keeps D (ensureIsolated c) := by
  have := d0_removeChild
  unfold ensureIsolated; d0

theorem d0_link_children (p c : Nat) (h : c ≠ 0) :
    Keeps D (modNode p fun n => { n with children := n.children ++ [c] }) :=
  d0_modNode_ch p _ (fun n => ⟨rfl, rfl, fun x hx => by
    rcases List.mem_append.1 hx with h1 | h1
    · exact Or.inl h1
    · rw [List.mem_singleton.1 h1]; exact Or.inr h⟩) (by d0_sh)

theorem d0_appendChild (p c : Nat) (h : c ≠ 0) : Keeps D (appendChild p c) := by
  have := d0_ensureIsolated
  have := d0_link_children p c h
  unfold appendChild; d0

theorem d0_insertBefore (p : Nat) (v1 : Option Nat) (ins : Nat) (h : ins ≠ 0) :
    Keeps D (insertBefore p v1 ins) := by
  have := d0_ensureIsolated
  have := d0_appendChild p ins h
  have : ∀ v, Keeps D (modNode p fun n => { n with children := insertBeforeIn v ins n.children }) := fun v =>
    d0_modNode_ch p _ (fun n => ⟨rfl, rfl, fun x hx => by
      rcases ac_mem_insertBeforeIn v ins x _ hx with h1 | h1
      · exact Or.inl h1
      · rw [h1]; exact Or.inr h⟩) (by d0_sh)
  unfold insertBefore; d0

theorem d0_nextSibling (c : Nat) : Keeps D (nextSibling c) := by
  unfold nextSibling; d0

theorem d0_insertAfter (p : Nat) (v1 : Option Nat) (ins : Nat) (h : ins ≠ 0) :
    Keeps D (insertAfter p v1 ins) := by
  have := d0_appendChild p ins h
  have := d0_nextSibling
  have := fun v1 => d0_insertBefore p v1 ins h
  unfold insertAfter; d0

theorem d0_replaceChild (p v1 ins : Nat) (h : ins ≠ 0) : Keeps D (replaceChild p v1 ins) := by
  have := d0_insertBefore p (some v1) ins h
  have := d0_removeChild
  unfold replaceChild; d0

/-! ### `Open` -/

theorem d0_preserveLeadingTab (seg : Segment) (ind : Int) : Keeps D (preserveLeadingTab seg ind) := by
  unfold preserveLeadingTab; d0

theorem d0_lastOffset (n : Nat) : Keeps D (lastOffset n) := by
  unfold lastOffset; d0

theorem d0_lastChildCount (n : Nat) : Keeps D (lastChildCount n) := by
  unfold lastChildCount; d0

theorem d0_paragraphOpen (p : Nat) : Keeps D (paragraphOpen p) := by
  unfold paragraphOpen; d0

theorem d0_thematicOpen (p : Nat) : Keeps D (thematicOpen p) := by
  unfold thematicOpen; d0

theorem d0_atxOpen (p : Nat) : Keeps D (atxOpen p) := by
  unfold atxOpen; d0

theorem d0_setextOpen (p : Nat) : Keeps D (setextOpen p) := by
  unfold setextOpen; d0

theorem d0_codeTakeLine (n : Nat) (hn : n ≠ 0) (pos padding : Int) : Keeps D (codeTakeLine n pos padding) := by
  have := d0_preserveLeadingTab
  unfold codeTakeLine; d0

theorem d0_codeOpen (p : Nat) : Keeps D (codeOpen p) := by
  have := fun n (hn : 0 < n) => d0_codeTakeLine n (Nat.pos_iff_ne_zero.1 hn)
  unfold codeOpen; d0

theorem d0_fencedOpen (p : Nat) : Keeps D (fencedOpen p) := by
  unfold fencedOpen; d0

theorem d0_blockquoteProcess : Keeps D blockquoteProcess := by
  unfold blockquoteProcess; d0

theorem d0_blockquoteOpen (p : Nat) : Keeps D (blockquoteOpen p) := by
  have := d0_blockquoteProcess
  unfold blockquoteOpen; d0

theorem d0_listOpen (p : Nat) : Keeps D (listOpen p) := by
  unfold listOpen; d0

theorem d0_listItemOpen (p : Nat) : Keeps D (listItemOpen p) := by
  have := d0_lastOffset
  unfold listItemOpen; d0

theorem d0_htmlOpen (p : Nat) : Keeps D (htmlOpen p) := by
  unfold htmlOpen; d0

/-- every `Open` keeps `DocInv` -/
theorem bpOpen_doc0 (bp : BP) (parent : Nat) : Keeps D (bpOpen bp parent) := by
  cases bp <;> unfold bpOpen
  · exact d0_setextOpen parent
  · exact d0_thematicOpen parent
  · exact d0_listOpen parent
  · exact d0_listItemOpen parent
  · exact d0_codeOpen parent
  · exact d0_atxOpen parent
  · exact d0_fencedOpen parent
  · exact d0_blockquoteOpen parent
  · exact d0_htmlOpen parent
  · exact d0_paragraphOpen parent

/-! ### `Continue` -/

section cont
variable (n : Nat) (hn : n ≠ 0)
include hn

theorem d0_paragraphContinue : Keeps D (paragraphContinue n) := by
  unfold paragraphContinue; d0

theorem d0_codeContinue : Keeps D (codeContinue n) := by
  have := d0_codeTakeLine n hn
  unfold codeContinue; d0

theorem d0_fencedContinue : Keeps D (fencedContinue n) := by
  have := d0_preserveLeadingTab
  unfold fencedContinue; d0

theorem d0_blockquoteContinue : Keeps D (blockquoteContinue n) := by
  have := d0_blockquoteProcess
  unfold blockquoteContinue; d0

theorem d0_listContinue : Keeps D (listContinue n) := by
  have := d0_lastOffset
  have := d0_lastChildCount
  unfold listContinue; d0

theorem d0_listItemContinue : Keeps D (listItemContinue n) := by
  have := d0_lastOffset
  unfold listItemContinue; d0

theorem d0_htmlContinue : Keeps D (htmlContinue n) := by
  unfold htmlContinue; d0

/-- every `Continue` on a node other than the Document keeps `DocInv` -/
theorem bpContinue_doc0 (bp : BP) : Keeps D (bpContinue bp n) := by
  cases bp <;> unfold bpContinue
  · exact Keeps.pure _
  · exact Keeps.pure _
  · exact d0_listContinue n hn
  · exact d0_listItemContinue n hn
  · exact d0_codeContinue n hn
  · exact Keeps.pure _
  · exact d0_fencedContinue n hn
  · exact d0_blockquoteContinue n hn
  · exact d0_htmlContinue n hn
  · exact d0_paragraphContinue n hn

/-! ### `Close` -/

theorem d0_paragraphClose : Keeps D (paragraphClose n) := by
  have := d0_removeChild
  unfold paragraphClose; d0

theorem d0_codeClose : Keeps D (codeClose n) := by
  unfold codeClose; d0

theorem d0_fencedClose : Keeps D (fencedClose n) := by
  unfold fencedClose; d0

end cont

theorem d0_tightenItem (child : Nat) : ∀ gcs, Keeps D (tightenItem child gcs)
  | [] => by unfold tightenItem; exact Keeps.pure _
  | gc :: gcs => by
    have ih := d0_tightenItem child gcs
    have := fun k (hk : 0 < k) => d0_replaceChild child gc k (Nat.pos_iff_ne_zero.1 hk)
    unfold tightenItem; d0

theorem d0_tightenItems : ∀ cs, Keeps D (tightenItems cs)
  | [] => by unfold tightenItems; exact Keeps.pure _
  | c :: cs => by
    have ih := d0_tightenItems cs
    have := d0_tightenItem
    unfold tightenItems; d0

theorem d0_listClose (n : Nat) (hn : n ≠ 0) : Keeps D (listClose n) := by
  have := d0_tightenItems
  unfold listClose; d0


/-- `nextSibling` first: the sibling it answers is not the Document -/
theorem d0_bind_nextSibling {β} (c : Nat) (f : Option Nat → M β)
    (hf : ∀ next, (∀ nx, next = some nx → nx ≠ 0) → Keeps D (f next)) :
    Keeps D (nextSibling c >>= f) := by
  refine Keeps.bind_of (d0_nextSibling c) fun a ⟨s, s', hs, h⟩ => hf a fun nx e => ?_
  obtain ⟨j, hj⟩ := (a2_nextSibling_val c s s' a h).2 nx e
  intro e0
  subst e0
  exact hs.1.2.2 j hj

theorem d0_setextClose (n : Nat) (hn : n ≠ 0) : Keeps D (setextClose n) := by
  have := d0_removeChild
  have := fun p v k (hk : 0 < k) => d0_insertAfter p v k (Nat.pos_iff_ne_zero.1 hk)
  unfold setextClose
  repeat' first | with_reducible apply d0_bind_nextSibling | d0_step

/-- every `Close` on a node other than the Document keeps `DocInv` -/
theorem bpClose_doc0 (bp : BP) (n : Nat) (hn : n ≠ 0) : Keeps D (bpClose bp n) := by
  cases bp <;> unfold bpClose
  · exact d0_setextClose n hn
  · exact Keeps.pure _
  · exact d0_listClose n hn
  · exact Keeps.pure _
  · exact d0_codeClose n hn
  · exact Keeps.pure _
  · exact d0_fencedClose n hn
  · exact Keeps.pure _
  · exact Keeps.pure _
  · exact d0_paragraphClose n hn


/-! ### the driver invariant -/

/-- `K` with `D` in place of `DocInv` -/
structure K' (s : St) : Prop where
  acyc : Acyc s
  doc : D s
  opened : ∀ x ∈ s.pc.opened, 0 < x.node ∧ x.node < s.nodes.length

theorem K'.toK {s : St} (h : K' s) : K s := ⟨h.acyc, h.doc.1, h.opened⟩

/-- `K'` afterwards, and the store did not shrink -/
def KS' (s s' : St) : Prop := K' s' ∧ s.nodes.length ≤ s'.nodes.length

theorem KS'.refl {s : St} (h : K' s) : KS' s s := ⟨h, Nat.le_refl _⟩

theorem KS'.trans {s s1 s2 : St} (h1 : KS' s s1) (h2 : KS' s1 s2) : KS' s s2 := ⟨h2.1, Nat.le_trans h1.2 h2.2⟩

theorem d0_KS_mk {s s' : St} (hs : K' s) (ha : Acyc s') (hd : D s') (ho : s'.pc.opened = s.pc.opened)
    (hl : s.nodes.length ≤ s'.nodes.length) : KS' s s' :=
  ⟨⟨ha, hd, fun x hx => ⟨(hs.opened x (ho ▸ hx)).1, Nat.lt_of_lt_of_le (hs.opened x (ho ▸ hx)).2 hl⟩⟩, hl⟩

theorem d0_KS_same {s s' : St} (hs : K' s) (h : Same s s') : KS' s s' := by
  obtain ⟨hn, ho⟩ := h
  obtain ⟨h1, h2, h3⟩ := hs
  refine ⟨⟨?_, ?_, ?_⟩, by rw [hn]; exact Nat.le_refl _⟩
  · unfold Acyc at *; rw [hn]; exact h1
  · unfold D DocInv DocOK Doc0 at *; rw [hn]; exact h2
  · rw [hn, ho]; exact h3

theorem d0_bpOpen_KS (bp : BP) (parent : Nat) (s s' : St) (a : Option Nat × PState) (hs : K' s)
    (h : bpOpen bp parent s = .ok (a, s')) : KS' s s' :=
  d0_KS_mk hs (bpOpen_acyc bp parent s a s' hs.acyc h) (bpOpen_doc0 bp parent s a s' hs.doc h)
    (bpOpen_opened bp parent s s' a h) (bpOpen_len bp parent s s' a h)

theorem d0_bpContinue_KS (bp : BP) (node : Nat) (hn : 0 < node) (s s' : St) (a : PState) (hs : K' s)
    (h : bpContinue bp node s = .ok (a, s')) : KS' s s' :=
  d0_KS_mk hs (bpContinue_acyc bp node s a s' hs.acyc h)
    (bpContinue_doc0 node (Nat.pos_iff_ne_zero.1 hn) bp s a s' hs.doc h)
    (bpContinue_opened bp node s s' a h) (bpContinue_len bp node s s' a h)

theorem d0_bpClose_KS (bp : BP) (node : Nat) (hn : 0 < node) (s s' : St) (a : Unit) (hs : K' s)
    (h : bpClose bp node s = .ok (a, s')) : KS' s s' :=
  d0_KS_mk hs (bpClose_acyc bp node s a s' hs.acyc h)
    (bpClose_doc0 bp node (Nat.pos_iff_ne_zero.1 hn) s a s' hs.doc h)
    (bpClose_opened bp node s s' a h) (bpClose_len bp node s s' a h)

theorem d0_closeLoop (blocks : List Block) (to : Int) (hb : ∀ x ∈ blocks, 0 < x.node) :
    ∀ (k : Nat) (s s' : St) (a : Unit), K' s → closeLoop blocks to k s = .ok (a, s') →
      KS' s s' ∧ s'.pc.opened = s.pc.opened := by
  intro k
  induction k with
  | zero =>
    intro s s' a hs h
    unfold closeLoop at h
    cases h
    exact ⟨KS'.refl hs, rfl⟩
  | succ k ih =>
    intro s s' a hs h
    unfold closeLoop at h
    obtain ⟨b, s1, h1, hA⟩ := bind_ok_inv h
    obtain ⟨hb1, e1⟩ := liftE_ok_inv h1
    subst e1
    obtain ⟨n, s2, h2, hB⟩ := bind_ok_inv hA
    obtain ⟨_, e2⟩ := a2_getNode_inv h2
    subst e2
    by_cases hp : n.parent.isSome = true
    · rw [if_pos hp] at hB
      obtain ⟨_, s3, h3, hC⟩ := bind_ok_inv hB
      have k3 := d0_bpClose_KS b.bp b.node (hb b (blockAt_mem hb1)) _ _ _ hs h3
      have o3 := bpClose_opened _ _ _ _ _ h3
      have := ih s3 s' a k3.1 hC
      exact ⟨k3.trans this.1, this.2.trans o3⟩
    · rw [if_neg hp] at hB
      exact ih _ s' a hs hB

theorem d0_closeBlocks (frm to : Int) (s s' : St) (a : Unit) (hs : K' s) (h : closeBlocks frm to s = .ok (a, s')) :
    KS' s s' := by
  unfold closeBlocks at h
  obtain ⟨pc, s1, h1, hA⟩ := bind_ok_inv h
  cases h1
  obtain ⟨_, s2, h2, hB⟩ := bind_ok_inv hA
  have hb : ∀ x ∈ s.pc.opened, 0 < x.node := fun x hx => (hs.opened x hx).1
  obtain ⟨k2, o2⟩ := d0_closeLoop s.pc.opened to hb _ _ _ _ hs h2
  have fin : ∀ (bl : List Block) (t : St), (∀ z ∈ bl, z ∈ s.pc.opened) →
      modPc (fun pc => { pc with opened := bl }) s2 = .ok (a, t) → KS' s t := by
    intro bl t hbl e
    cases e
    exact ⟨⟨k2.1.acyc, k2.1.doc, fun x hx => k2.1.opened x (o2 ▸ hbl x hx)⟩, k2.2⟩
  by_cases hf : (frm == (s.pc.opened.length : Int) - 1) = true
  · rw [if_pos hf] at hB
    obtain ⟨bl, s3, h3, hC⟩ := bind_ok_inv hB
    obtain ⟨e, e3⟩ := liftE_ok_inv h3
    subst e3
    exact fin bl s' (slice'_mem e) hC
  · rw [if_neg hf] at hB
    obtain ⟨u, s4, h4, hC⟩ := bind_ok_inv hB
    obtain ⟨e4, e⟩ := liftE_ok_inv h4
    subst e
    obtain ⟨v, s5, h5, hD⟩ := bind_ok_inv hC
    obtain ⟨e5, e⟩ := liftE_ok_inv h5
    subst e
    refine fin (u ++ v) s' (fun z hz => ?_) hD
    rcases List.mem_append.1 hz with hz | hz
    · exact slice'_mem e4 z hz
    · exact slice'_mem e5 z hz

/-- what the "a node was opened" paths establish -/
def TpPost' (s s' : St) (lastBlock : Option Block) (x : TryOutcome × OpenResult × Option Block) : Prop :=
  KS' s s' ∧ (∀ p, x.1 = .retry p → p < s'.nodes.length) ∧ x.2.2 = lastBlock

theorem d0_tpJp2 (parent node : Nat) (bp : BP) (state : PState) (lastBlock : Option Block) (s s' : St)
    (x : TryOutcome × OpenResult × Option Block) (hs : K' s) (hpn : parent < node) (hn : node < s.nodes.length)
    (h : tpJp2 parent node bp state lastBlock s = .ok (x, s')) : TpPost' s s' lastBlock x := by
  unfold tpJp2 at h
  obtain ⟨_, s1, h1, hA⟩ := bind_ok_inv h
  have hn0 : node ≠ 0 := by omega
  have a1 := ac_appendChild parent node hpn s _ s1 hs.acyc h1
  have d1 := d0_appendChild parent node hn0 s _ s1 hs.doc h1
  have o1 := appendChild_opened parent node s s1 _ h1
  have l1 : s.nodes.length ≤ s1.nodes.length :=
    ac_appendChild_len s.nodes.length parent node s _ s1 (Nat.le_refl _) h1
  obtain ⟨_, s2, h2, hB⟩ := bind_ok_inv hA
  have e2 := a2_modPc_inv h2
  subst e2
  have k2 : KS' s { s1 with pc := { s1.pc with opened := s1.pc.opened ++ [{ node := node, bp := bp }] } } := by
    refine ⟨⟨a1, d1, fun y hy => ?_⟩, l1⟩
    rcases List.mem_append.1 hy with hy | hy
    · rw [o1] at hy
      exact ⟨(hs.opened y hy).1, Nat.lt_of_lt_of_le (hs.opened y hy).2 l1⟩
    · rw [List.mem_singleton.1 hy]
      exact ⟨by show 0 < node; omega, by show node < s1.nodes.length; omega⟩
  split at hB
  · cases hB
    refine ⟨k2, ⟨fun p e => ?_, rfl⟩⟩
    have e' : TryOutcome.retry node = .retry p := e
    cases e'
    show node < s1.nodes.length
    omega
  · cases hB
    refine ⟨k2, ⟨fun p e => ?_, rfl⟩⟩
    have e' : TryOutcome.done = .retry p := e
    cases e'

theorem d0_tpJp1 (parent node : Nat) (bp : BP) (state : PState) (lastBlock : Option Block) (blankLine : Bool)
    (last : Option Nat) (s s' : St)
    (x : TryOutcome × OpenResult × Option Block) (hs : K' s) (hpn : parent < node) (hn : node < s.nodes.length)
    (h : tpJp1 parent node bp state lastBlock blankLine last s = .ok (x, s')) : TpPost' s s' lastBlock x := by
  unfold tpJp1 at h
  obtain ⟨_, s1, h1, hA⟩ := bind_ok_inv h
  have a1 := ac_modNode_acyc node (fun n => { n with blankPrev := blankLine }) (fun _ => ⟨rfl, rfl⟩) s _ s1 hs.acyc h1
  have d1 := d0_modNode_ne node (by omega) (fun n => { n with blankPrev := blankLine })
    (fun _ => rfl) s _ s1 hs.doc h1
  have o1 := modNode_opened _ _ _ _ _ h1
  have l1 : s.nodes.length ≤ s1.nodes.length :=
    ac_modNode_len s.nodes.length node _ s _ s1 (Nat.le_refl _) h1
  have k1 : KS' s s1 := d0_KS_mk hs a1 d1 o1 l1
  have hn1 : node < s1.nodes.length := Nat.lt_of_lt_of_le hn l1
  have fin : ∀ t, KS' s1 t → tpJp2 parent node bp state lastBlock t = .ok (x, s') → TpPost' s s' lastBlock x := by
    intro t kt e
    have := d0_tpJp2 parent node bp state lastBlock t s' x kt.1 hpn (Nat.lt_of_lt_of_le hn1 kt.2) e
    exact ⟨k1.trans (kt.trans this.1), this.2⟩
  cases last with
  | none => exact fin s1 (KS'.refl k1.1) hA
  | some l =>
    obtain ⟨ln, s2, h2, hB⟩ := bind_ok_inv hA
    obtain ⟨_, e2⟩ := a2_getNode_inv h2
    subst e2
    by_cases hp : ln.parent.isNone = true
    · rw [if_pos hp] at hB
      obtain ⟨pc, s3, h3, hC⟩ := bind_ok_inv hB
      obtain ⟨_, e3⟩ := a2_getPc_inv h3
      subst e3
      obtain ⟨_, s4, h4, hD⟩ := bind_ok_inv hC
      exact fin s4 (d0_closeBlocks _ _ _ _ _ k1.1 h4) hD
    · rw [if_neg hp] at hB
      exact fin _ (KS'.refl k1.1) hB

theorem d0_tpJp3 (parent node : Nat) (bp : BP) (state : PState) (lastBlock : Option Block) (blankLine : Bool)
    (last : Option Nat) (lb : Block) (blocks : List Block) (s s' : St)
    (x : TryOutcome × OpenResult × Option Block) (hs : K' s) (hpn : parent < node) (hn : node < s.nodes.length)
    (hb : ∀ z ∈ blocks, z ∈ s.pc.opened)
    (h : tpJp3 parent node bp state lastBlock blankLine last lb blocks s = .ok (x, s')) :
    TpPost' s s' lastBlock x := by
  unfold tpJp3 at h
  obtain ⟨_, s1, h1, hA⟩ := bind_ok_inv h
  have e1 := a2_modPc_inv h1
  subst e1
  have k1 : KS' s { s with pc := { s.pc with opened := blocks.dropLast } } :=
    ⟨⟨hs.acyc, hs.doc, fun y hy => hs.opened y (hb y (List.dropLast_subset _ hy))⟩, Nat.le_refl _⟩
  obtain ⟨ln, s2, h2, hB⟩ := bind_ok_inv hA
  obtain ⟨_, e2⟩ := a2_getNode_inv h2
  subst e2
  by_cases hk : (ln.kind != Kind.paragraph) = true
  · rw [if_pos hk] at hB
    obtain ⟨_, _, h3, _⟩ := bind_ok_inv hB
    cases h3
  · rw [if_neg hk] at hB
    have := d0_tpJp1 parent node bp state lastBlock blankLine last _ s' x k1.1 hpn hn hB
    exact ⟨k1.trans this.1, this.2⟩

theorem d0_tpSome (parent node : Nat) (bp : BP) (state : PState) (lastBlock : Option Block) (blankLine : Bool)
    (last : Option Nat) (s s' : St)
    (x : TryOutcome × OpenResult × Option Block) (hs : K' s) (hpn : parent < node) (hn : node < s.nodes.length)
    (hlb : ∀ l, lastBlock = some l → 0 < l.node)
    (h : tpSome parent node bp state lastBlock blankLine last s = .ok (x, s')) : TpPost' s s' lastBlock x := by
  unfold tpSome at h
  by_cases hr : state.requirePara = true
  · rw [if_pos hr] at h
    obtain ⟨pn, s1, h1, hA⟩ := bind_ok_inv h
    obtain ⟨_, e1⟩ := a2_getNode_inv h1
    subst e1
    by_cases hc : (last == pn.children.getLast?) = true
    · rw [if_pos hc] at hA
      cases lastBlock with
      | none =>
        obtain ⟨_, _, h3, _⟩ := bind_ok_inv hA
        cases h3
      | some lb =>
        obtain ⟨_, s2, h2, hB⟩ := bind_ok_inv hA
        have k2 := d0_bpClose_KS lb.bp lb.node (hlb lb rfl) _ _ _ hs h2
        obtain ⟨pc, s3, h3, hC⟩ := bind_ok_inv hB
        obtain ⟨epc, e3⟩ := a2_getPc_inv h3
        subst e3
        have hn2 : node < s3.nodes.length := Nat.lt_of_lt_of_le hn k2.2
        by_cases hz : (pc.opened.length == 0) = true
        · rw [if_pos hz] at hC
          obtain ⟨_, _, h4, _⟩ := bind_ok_inv hC
          cases h4
        · rw [if_neg hz] at hC
          have := d0_tpJp3 parent node bp state (some lb) blankLine last lb pc.opened _ s' x k2.1 hpn hn2
            (fun z hz => epc ▸ hz) hC
          exact ⟨k2.trans this.1, this.2⟩
    · rw [if_neg hc] at hA
      exact d0_tpJp1 parent node bp state lastBlock blankLine last _ s' x hs hpn hn hA
  · rw [if_neg hr] at h
    exact d0_tpJp1 parent node bp state lastBlock blankLine last _ s' x hs hpn hn h

theorem d0_tryParsers (parent : Nat) (blankLine continuable : Bool) (w : Int) :
    ∀ (bps : List BP) (result : OpenResult) (lastBlock : Option Block) (s s' : St)
      (x : TryOutcome × OpenResult × Option Block), K' s → parent < s.nodes.length →
      (∀ l, lastBlock = some l → 0 < l.node) →
      tryParsers parent blankLine continuable w bps result lastBlock s = .ok (x, s') →
      KS' s s' ∧ (∀ p, x.1 = .retry p → p < s'.nodes.length) ∧ (∀ l, x.2.2 = some l → 0 < l.node) := by
  intro bps
  induction bps with
  | nil =>
    intro result lastBlock s s' x hs hp hlb h
    unfold tryParsers at h
    cases h
    refine ⟨KS'.refl hs, ⟨fun p e => ?_, hlb⟩⟩
    have e' : TryOutcome.done = .retry p := e
    cases e'
  | cons bp bps ih =>
    intro result lastBlock s s' x hs hp hlb h
    rw [tryParsers_cons] at h
    by_cases c1 : (continuable && result == OpenResult.noBlocksOpened && !bp.canInterruptParagraph) = true
    · rw [if_pos c1] at h; exact ih result lastBlock s s' x hs hp hlb h
    rw [if_neg c1] at h
    by_cases c2 : (decide (w > 3) && !bp.canAcceptIndentedLine) = true
    · rw [if_pos c2] at h; exact ih result lastBlock s s' x hs hp hlb h
    rw [if_neg c2] at h
    obtain ⟨x0, s1, h1, hA⟩ := bind_ok_inv h
    obtain ⟨ex0, e1⟩ := a2_lastOpenedBlock_inv h1
    subst e1
    have hlb0 : ∀ l, x0 = some l → 0 < l.node := by
      intro l hl
      rw [ex0] at hl
      exact (hs.opened l (List.mem_of_getLast? hl)).1
    obtain ⟨y, s2, h2, hB⟩ := bind_ok_inv hA
    have k2 := d0_bpOpen_KS bp parent _ _ _ hs h2
    cases hy : y.1 with
    | none =>
      rw [hy] at hB
      have := ih result x0 s2 s' x k2.1 (Nat.lt_of_lt_of_le hp k2.2) hlb0 hB
      exact ⟨k2.trans this.1, this.2⟩
    | some node =>
      rw [hy] at hB
      have hy' : y = (some node, y.2) := by rw [← hy]
      rw [hy'] at h2
      obtain ⟨f1, f2, _, _⟩ := bpOpen_fresh bp parent _ _ node y.2 h2
      have := d0_tpSome parent node bp y.2 x0 blankLine _ s2 s' x k2.1 (by omega) f2 hlb0 hB
      exact ⟨k2.trans this.1, this.2.1, fun l hl => hlb0 l (this.2.2 ▸ hl)⟩


theorem d0_toContinuable (continuable : Bool) (result : OpenResult) (lastBlock : Option Block) (s s' : St)
    (x : OpenResult) (hs : K' s) (hlb : ∀ l, lastBlock = some l → 0 < l.node)
    (h : toContinuable continuable result lastBlock s = .ok (x, s')) : KS' s s' := by
  unfold toContinuable at h
  by_cases hc : (result == OpenResult.noBlocksOpened && continuable) = true
  · rw [if_pos hc] at h
    cases lastBlock with
    | none =>
      obtain ⟨_, _, h3, _⟩ := bind_ok_inv h
      cases h3
    | some lb =>
      obtain ⟨st, s1, h1, hA⟩ := bind_ok_inv h
      have k1 := d0_bpContinue_KS lb.bp lb.node (hlb lb rfl) _ _ _ hs h1
      by_cases hcont : st.cont = true
      · rw [if_pos hcont] at hA; cases hA; exact k1
      · rw [if_neg hcont] at hA; cases hA; exact k1
  · rw [if_neg hc] at h
    cases h
    exact KS'.refl hs

theorem d0_oblTry (blankLine continuable : Bool) (fuel : Nat)
    (ih : ∀ (parent : Nat) (result : OpenResult) (lastBlock : Option Block) (s s' : St) (x : OpenResult),
      K' s → parent < s.nodes.length → (∀ l, lastBlock = some l → 0 < l.node) →
      openBlocksLoop blankLine continuable fuel parent result lastBlock s = .ok (x, s') → KS' s s')
    (parent : Nat) (w : Int) (result : OpenResult) (lastBlock : Option Block) (bps : List BP) (s s' : St)
    (x : OpenResult) (hs : K' s) (hp : parent < s.nodes.length) (hlb : ∀ l, lastBlock = some l → 0 < l.node)
    (h : oblTry blankLine continuable fuel parent w result lastBlock bps s = .ok (x, s')) : KS' s s' := by
  unfold oblTry at h
  obtain ⟨s0, s1, h1, hA⟩ := bind_ok_inv h
  cases h1
  obtain ⟨y, s2, h2, hB⟩ := bind_ok_inv hA
  obtain ⟨k2, hr, hl2⟩ := d0_tryParsers parent blankLine continuable w bps result lastBlock _ _ _ hs hp hlb h2
  cases hy : y.1 with
  | done =>
    rw [hy] at hB
    exact k2.trans (d0_toContinuable continuable y.2.1 y.2.2 _ _ _ k2.1 hl2 hB)
  | retry p' =>
    rw [hy] at hB
    obtain ⟨s3, s4, h3, hC⟩ := bind_ok_inv hB
    cases h3
    split at hC
    · obtain ⟨_, _, h4, _⟩ := bind_ok_inv hC
      cases h4
    · exact k2.trans (ih p' y.2.1 y.2.2 _ _ _ k2.1 (hr p' hy) hl2 hC)

theorem d0_openBlocksLoop (blankLine continuable : Bool) :
    ∀ (fuel parent : Nat) (result : OpenResult) (lastBlock : Option Block) (s s' : St) (x : OpenResult),
      K' s → parent < s.nodes.length → (∀ l, lastBlock = some l → 0 < l.node) →
      openBlocksLoop blankLine continuable fuel parent result lastBlock s = .ok (x, s') → KS' s s' := by
  intro fuel
  induction fuel with
  | zero =>
    intro parent result lastBlock s s' x _ _ _ h
    unfold openBlocksLoop at h
    cases h
  | succ fuel ih =>
    intro parent result lastBlock s s' x hs hp hlb h
    rw [openBlocksLoop_succ] at h
    obtain ⟨lp, s1, h1, hA⟩ := bind_ok_inv h
    have m1 : Same s s1 := peekLine_keeps (a2_same_noR s) s _ s1 ⟨rfl, rfl⟩ h1
    obtain ⟨lo, s2, h2, hB⟩ := bind_ok_inv hA
    have m2 : Same s s2 := lineOffset_keeps (a2_same_noR s) s1 _ s2 m1 h2
    obtain ⟨_, s3, h3, hC⟩ := bind_ok_inv hB
    have e3 := a2_modPc_inv h3
    have m3 : Same s s3 := by
      subst e3
      refine ⟨m2.1, ?_⟩
      show (ite _ _ _ : Ctx).opened = _
      split
      · exact m2.2
      · exact m2.2
    have k3 : KS' s s3 := d0_KS_same hs m3
    have hp3 : parent < s3.nodes.length := Nat.lt_of_lt_of_le hp k3.2
    by_cases c1 : lp.1.isNone = true
    · rw [if_pos c1] at hC
      exact k3.trans (d0_toContinuable _ _ _ _ _ _ k3.1 hlb hC)
    rw [if_neg c1] at hC
    obtain ⟨c0, s4, h4, hD⟩ := bind_ok_inv hC
    obtain ⟨_, e4⟩ := liftE_ok_inv h4
    subst e4
    by_cases c2 : (c0 == 10) = true
    · rw [if_pos c2] at hD
      exact k3.trans (d0_toContinuable _ _ _ _ _ _ k3.1 hlb hD)
    rw [if_neg c2] at hD
    split at hD
    · obtain ⟨c, s5, h5, hE⟩ := bind_ok_inv hD
      obtain ⟨_, e5⟩ := liftE_ok_inv h5
      subst e5
      exact k3.trans (d0_oblTry blankLine continuable fuel ih parent _ result lastBlock _ _ _ _ k3.1 hp3 hlb hE)
    · exact k3.trans (d0_oblTry blankLine continuable fuel ih parent _ result lastBlock _ _ _ _ k3.1 hp3 hlb hD)

theorem d0_openBlocks (parent : Nat) (blank : Bool) (s s' : St) (x : OpenResult) (hs : K' s)
    (hp : parent < s.nodes.length) (h : openBlocks parent blank s = .ok (x, s')) : KS' s s' := by
  unfold openBlocks at h
  obtain ⟨x0, s1, h1, hA⟩ := bind_ok_inv h
  obtain ⟨ex0, e1⟩ := a2_lastOpenedBlock_inv h1
  subst e1
  have hlb0 : ∀ l, x0 = some l → 0 < l.node := by
    intro l hl
    rw [ex0] at hl
    exact (hs.opened l (List.mem_of_getLast? hl)).1
  have fin : ∀ c, (do
        let src ← source
        openBlocksLoop blank c (retryFuel src) parent OpenResult.noBlocksOpened x0) s1 = .ok (x, s') →
      KS' s1 s' := by
    intro c hB
    obtain ⟨src, s3, h3, hC⟩ := bind_ok_inv hB
    cases h3
    exact d0_openBlocksLoop blank c _ parent _ x0 _ _ _ hs hp hlb0 hC
  cases x0 with
  | none => exact fin false hA
  | some lb =>
    obtain ⟨n, s3, h3, hC⟩ := bind_ok_inv hA
    obtain ⟨_, e3⟩ := a2_getNode_inv h3
    subst e3
    exact fin _ hC

theorem ObsOK.mono' {obs : List Block} {s s' : St} (h : ObsOK obs s) (k : KS' s s') : ObsOK obs s' :=
  fun z hz => ⟨(h z hz).1, Nat.lt_of_lt_of_le (h z hz).2 k.2⟩

theorem d0_llOpen (openedBlocks : List Block) (lastIndex i : Int) (blank : Bool) (blankLines : List LineStat)
    (thisParent : Nat) (s s' : St) (x : LineOutcome × List LineStat) (hs : K' s) (hp : thisParent < s.nodes.length)
    (h : llOpen openedBlocks lastIndex i blank blankLines thisParent s = .ok (x, s')) : KS' s s' := by
  unfold llOpen at h
  obtain ⟨ln, s1, h1, hA⟩ := bind_ok_inv h
  obtain ⟨_, e1⟩ := liftE_ok_inv h1
  subst e1
  obtain ⟨r, s2, h2, hB⟩ := bind_ok_inv hA
  have k2 := d0_openBlocks thisParent blank _ _ _ hs hp h2
  split at hB
  · obtain ⟨pc, s3, h3, hC⟩ := bind_ok_inv hB
    obtain ⟨_, e3⟩ := a2_getPc_inv h3
    subst e3
    obtain ⟨_, s4, h4, hD⟩ := bind_ok_inv hC
    cases hD
    exact k2.trans (d0_closeBlocks _ _ _ _ _ k2.1 h4)
  · cases hB
    exact k2

theorem d0_llFall (parent : Nat) (openedBlocks : List Block) (lastIndex i lineNum : Int)
    (blankLines : List LineStat) (s s' : St) (x : LineOutcome × List LineStat) (hs : K' s)
    (hp : parent < s.nodes.length) (hob : ObsOK openedBlocks s)
    (h : llFall parent openedBlocks lastIndex i lineNum blankLines s = .ok (x, s')) : KS' s s' := by
  unfold llFall at h
  split at h
  · obtain ⟨b, s1, h1, hA⟩ := bind_ok_inv h
    obtain ⟨eb, e1⟩ := liftE_ok_inv h1
    subst e1
    exact d0_llOpen _ _ _ _ _ _ _ _ _ hs (hob b (blockAt_mem eb)).2 hA
  · exact d0_llOpen _ _ _ _ _ _ _ _ _ hs hp h

theorem d0_lineLoop (parent : Nat) (openedBlocks : List Block) (lastIndex : Int) :
    ∀ (rest : List Block) (i : Int) (bl : List LineStat) (s s' : St) (x : LineOutcome × List LineStat),
      K' s → parent < s.nodes.length → ObsOK openedBlocks s → (∀ z ∈ rest, z ∈ openedBlocks) →
      lineLoop parent openedBlocks lastIndex rest i bl s = .ok (x, s') → KS' s s' := by
  intro rest
  induction rest with
  | nil =>
    intro i bl s s' x hs _ _ _ h
    unfold lineLoop at h
    cases h
    exact KS'.refl hs
  | cons be rest ih =>
    intro i bl s s' x hs hp hob hrest h
    rw [ll_lineLoop_cons] at h
    obtain ⟨lp, s1, h1, hA⟩ := bind_ok_inv h
    have m1 : Same s s1 := peekLine_keeps (a2_same_noR s) s _ s1 ⟨rfl, rfl⟩ h1
    have k1 : KS' s s1 := d0_KS_same hs m1
    cases hl : lp.1 with
    | none =>
      rw [hl] at hA
      obtain ⟨_, s2, h2, hB⟩ := bind_ok_inv hA
      have k2 := d0_closeBlocks _ _ _ _ _ k1.1 h2
      obtain ⟨_, s3, h3, hC⟩ := bind_ok_inv hB
      have m3 : Same s2 s3 := advanceLine_keeps (a2_same_noR s2) s2 _ s3 ⟨rfl, rfl⟩ h3
      cases hC
      exact k1.trans (k2.trans (d0_KS_same k2.1 m3))
    | some line =>
      rw [hl] at hA
      obtain ⟨y, s2, h2, hB⟩ := bind_ok_inv hA
      cases h2
      have hp1 : parent < s1.nodes.length := Nat.lt_of_lt_of_le hp k1.2
      have hob1 : ObsOK openedBlocks s1 := hob.mono' k1
      have hbe := hob1 be (hrest be List.mem_cons_self)
      refine k1.trans ?_
      have fall : ∀ t, KS' s1 t → llFall parent openedBlocks lastIndex i s1.r.position.1
          (bl ++ [{ lineNum := s1.r.position.1, level := i, isBlank := isBlank line }]) t = .ok (x, s') →
          KS' s1 s' := fun t kt e =>
        kt.trans (d0_llFall _ _ _ _ _ _ _ _ _ kt.1 (Nat.lt_of_lt_of_le hp1 kt.2) (hob1.mono' kt) e)
      unfold llBody at hB
      obtain ⟨bn, s3, h3, hC⟩ := bind_ok_inv hB
      obtain ⟨_, e3⟩ := a2_getNode_inv h3
      subst e3
      split at hC
      · obtain ⟨st, s4, h4, hD⟩ := bind_ok_inv hC
        have k4 := d0_bpContinue_KS be.bp be.node hbe.1 _ _ _ k1.1 h4
        split at hD
        · split at hD
          · obtain ⟨_, s5, h5, hE⟩ := bind_ok_inv hD
            cases hE
            exact k4.trans (d0_openBlocks be.node _ _ _ _ k4.1 (Nat.lt_of_lt_of_le hbe.2 k4.2) h5)
          · exact k4.trans (ih (i + 1) _ _ _ _ k4.1 (Nat.lt_of_lt_of_le hp1 k4.2) (hob1.mono' k4)
              (fun z hz => hrest z (List.mem_cons_of_mem _ hz)) hD)
        · exact fall _ k4 hD
      · exact fall _ (KS'.refl k1.1) hC


/-! ### the line loops -/

theorem d0_linesLoop (parent : Nat) :
    ∀ (fuel : Nat) (bl : List LineStat) (s s' : St) (x : Bool × List LineStat),
      K' s → parent < s.nodes.length → linesLoop parent fuel bl s = .ok (x, s') → KS' s s' := by
  intro fuel
  induction fuel with
  | zero =>
    intro bl s s' x _ _ h
    unfold linesLoop at h
    cases h
  | succ fuel ih =>
    intro bl s s' x hs hp h
    unfold linesLoop at h
    obtain ⟨pc, s1, h1, hA⟩ := bind_ok_inv h
    obtain ⟨epc, e1⟩ := a2_getPc_inv h1
    subst e1
    dsimp only at hA
    split at hA
    · cases hA
      exact KS'.refl hs
    · obtain ⟨y, s2, h2, hB⟩ := bind_ok_inv hA
      have k2 := d0_lineLoop parent pc.opened _ pc.opened 0 bl _ _ _ hs hp (by rw [epc]; exact hs.opened)
        (fun z hz => hz) h2
      obtain ⟨o, bl'⟩ := y
      cases o with
      | eof =>
        cases hB
        exact k2
      | next =>
        obtain ⟨_, s3, h3, hC⟩ := bind_ok_inv hB
        have m3 : Same s2 s3 := advanceLine_keeps (a2_same_noR s2) s2 _ s3 ⟨rfl, rfl⟩ h3
        have k3 := d0_KS_same k2.1 m3
        have k23 := k2.trans k3
        exact k23.trans (ih bl' _ _ _ k23.1 (Nat.lt_of_lt_of_le hp k23.2) hC)

theorem d0_blocksLoop (parent : Nat) :
    ∀ (fuel : Nat) (bl : List LineStat) (s s' : St) (x : Unit),
      K' s → parent < s.nodes.length → blocksLoop parent fuel bl s = .ok (x, s') → KS' s s' := by
  intro fuel
  induction fuel with
  | zero =>
    intro bl s s' x _ _ h
    unfold blocksLoop at h
    cases h
  | succ fuel ih =>
    intro bl s s' x hs hp h
    unfold blocksLoop at h
    obtain ⟨y, s1, h1, hA⟩ := bind_ok_inv h
    have m1 : Same s s1 := skipBlankLinesR_keeps (a2_same_noR s) s _ s1 ⟨rfl, rfl⟩ h1
    have k1 := d0_KS_same hs m1
    obtain ⟨seg, lines, ok⟩ := y
    dsimp only at hA
    split at hA
    · cases hA
      exact k1
    · obtain ⟨pos, s2, h2, hB⟩ := bind_ok_inv hA
      cases h2
      obtain ⟨pc, s3, h3, hC⟩ := bind_ok_inv hB
      obtain ⟨_, e3⟩ := a2_getPc_inv h3
      subst e3
      obtain ⟨r, s4, h4, hD⟩ := bind_ok_inv hC
      have k4 := k1.trans (d0_openBlocks parent _ _ _ _ k1.1 (Nat.lt_of_lt_of_le hp k1.2) h4)
      split at hD
      · cases hD
        exact k4
      · obtain ⟨_, s5, h5, hE⟩ := bind_ok_inv hD
        have m5 : Same s4 s5 := advanceLine_keeps (a2_same_noR s4) s4 _ s5 ⟨rfl, rfl⟩ h5
        have k5 := k4.trans (d0_KS_same k4.1 m5)
        obtain ⟨z, s6, h6, hF⟩ := bind_ok_inv hE
        have k6 := k5.trans (d0_linesLoop parent fuel _ _ _ _ k5.1 (Nat.lt_of_lt_of_le hp k5.2) h6)
        obtain ⟨ret, bl'⟩ := z
        split at hF
        · cases hF
          exact k6
        · exact k6.trans (ih bl' _ _ _ k6.1 (Nat.lt_of_lt_of_le hp k6.2) hF)

theorem d0_K_init (src : Bytes) : K' (initSt src) :=
  ⟨(a2_K_init src).acyc, ⟨(a2_K_init src).doc, ⟨[], rfl⟩⟩, (a2_K_init src).opened⟩

/-- for every source, node 0 of the store the block phase builds is the initial Document up to `children` -/
theorem run_doc0 (src : Bytes) (s : St) (h : run src = .ok s) :
    s.nodes.getD 0 default = { kind := .document, children := (s.nodes.getD 0 default).children } := by
  rw [a2_run_eq_blocksLoop] at h
  cases hb : blocksLoop 0 (linesFuel src) [] (initSt src) with
  | error e => rw [hb] at h; cases h
  | ok p =>
    rw [hb] at h
    cases h
    have k := d0_blocksLoop 0 _ _ _ p.2 p.1 (d0_K_init src) Nat.zero_lt_one hb
    obtain ⟨cs, hc⟩ := k.1.doc.2
    rw [hc]

end GM.Blocks.Sh
