/-
  GM.Proof.ConvertHWFRun — whole runs: the block phase with AutoHeadingID ends in a state that satisfies the close
  discipline invariant `J` (`runH_J`), hence: every Heading node under a child edge of the final store has its attribute or is
  still on the open-block stack; and the final store is a well-formed tree.
-/
import GM.Proof.ConvertHWFDrv

namespace GM.ConvertH
open GM GM.Text GM.Blocks

theorem ndx_init (src : Bytes) (i : Nat) : ndx (initSt src) i = if i = 0 then { kind := .document } else default := by
  cases i with
  | zero => rfl
  | succ k => simp [ndx, initSt]

theorem J_init (src : Bytes) : J {} (initSt src) := by
  refine ⟨⟨fun p c hc => ?_, fun p => ?_, ?_, ?_, ?_⟩, fun p c hc => ?_, fun b hb => ?_, fun b hb => ?_⟩
  · rw [ndx_init] at hc; split at hc <;> cases hc
  · rw [ndx_init]; split <;> exact List.nodup_nil
  · rw [ndx_init]; rfl
  · simp [initSt]
  · rw [ndx_init]; rfl
  · rw [ndx_init] at hc; split at hc <;> cases hc
  · cases hb
  · cases hb

theorem runH_J (pts : List PT) (hpts : ∀ pt ∈ pts, PTStp pt) (src : Bytes) (hs : HS) (st : St)
    (e : runH true pts src = .ok (hs, st)) : J hs st := by
  unfold runH parseBlocksH at e
  cases hx : (do
      up (modPc fun pc => { pc with opened := [] })
      blocksLoopH true pts 0 (linesFuel (← up source)) [] : MH Unit) {} (initSt src) with
  | error x => rw [hx] at e; cases e
  | ok r =>
    rw [hx] at e
    obtain ⟨⟨u, h'⟩, s'⟩ := r
    simp only [Except.map] at e
    cases e
    obtain ⟨u1, h1, s1, e1, k1⟩ := mh_bind_ok hx
    obtain ⟨eh1, ex1⟩ := up_ok e1
    have es1 := modPc_ok ex1
    subst eh1
    have j1 : J {} s1 := by rw [es1]; exact J_init src
    obtain ⟨v, h2, s2, e2, k2⟩ := mh_bind_ok k1
    obtain ⟨eh2, ex2⟩ := up_ok e2
    cases ex2
    subst eh2
    exact ((blocksLoopH_hj pts hpts 0 _ []).h _ _ _ _ _ j1 k2).1


/-! ### the Heading nodes of the final tree -/

/-- a Heading id of `treeOfH nodes fuel i` is `i` itself or the target of a child edge of the store; its node is a Heading -/
theorem headingIds_treeOfH (nodes : List Blocks.Node) : ∀ (fuel i x : Nat), x ∈ headingIds (treeOfH nodes fuel i) →
    (nodes.getD x default).kind = .heading ∧ (x = i ∨ ∃ p, x ∈ (nodes.getD p default).children)
  | 0, i, x, h => by
    simp only [treeOfH, headingIds, headingIdsL, List.append_nil] at h
    split at h
    · rename_i hk
      rw [List.mem_singleton] at h; subst h
      exact ⟨by simpa using hk, Or.inl rfl⟩
    · cases h
  | fuel + 1, i, x, h => by
    simp only [treeOfH, headingIds] at h
    rcases List.mem_append.1 h with h | h
    · split at h
      · rename_i hk
        rw [List.mem_singleton] at h; subst h
        exact ⟨by simpa using hk, Or.inl rfl⟩
      · cases h
    · -- in the subtree of a child
      have key : ∀ (l : List Nat), (∀ c ∈ l, c ∈ (nodes.getD i default).children) →
          x ∈ headingIdsL (l.map (treeOfH nodes fuel)) →
          (nodes.getD x default).kind = .heading ∧ ∃ p, x ∈ (nodes.getD p default).children := by
        intro l
        induction l with
        | nil => intro _ hx; simp [headingIdsL] at hx
        | cons c rest ih =>
          intro hl hx
          simp only [List.map, headingIdsL] at hx
          rcases List.mem_append.1 hx with hx | hx
          · obtain ⟨a, b⟩ := headingIds_treeOfH nodes fuel c x hx
            refine ⟨a, ?_⟩
            rcases b with rfl | b
            · exact ⟨i, hl _ (List.mem_cons_self ..)⟩
            · exact b
          · exact ih (fun c hc => hl c (List.mem_cons_of_mem _ hc)) hx
      obtain ⟨a, b⟩ := key _ (fun _ hc => hc) h
      exact ⟨a, Or.inr b⟩

/-- **the close discipline for Headings**: when the block phase ends with an empty open-block stack, every Heading node of
    the final tree has its attribute -/
theorem headingsClosed_of_J (hs : HS) (st : St) (j : J hs st) (ho : st.pc.opened = []) :
    headingsClosedB hs (finalTree st) = true := by
  unfold headingsClosedB finalTree
  rw [List.all_eq_true]
  intro x hx
  obtain ⟨hk, he⟩ := headingIds_treeOfH st.nodes _ 0 x hx
  have hk' : (ndx st x).kind = .heading := hk
  rcases he with rfl | ⟨p, hp⟩
  · rw [j.wf.rootKind] at hk'; cases hk'
  · rcases j.j1 p x hp hk' with a | ⟨b, hb, _⟩
    · simpa [hasA] using a
    · rw [ho] at hb; cases hb

end GM.ConvertH
