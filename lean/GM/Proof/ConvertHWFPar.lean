/-
  GM.Proof.ConvertHWFPar — every `Open` / `Continue` function of the ten block parsers, and the two `Close` functions
  without tree surgery that write the store (code block, fenced code block), only read the tree links (`Lk`): they
  create at most unlinked nodes and update other fields.
-/
import GM.Proof.ConvertHWF

namespace GM.ConvertH
open GM GM.Text GM.Blocks

theorem lastOpenedBlock_lk : Lk lastOpenedBlock := by unfold lastOpenedBlock; lk
theorem preserveLeadingTab_lk (seg : Segment) (ind : Int) : Lk (preserveLeadingTab seg ind) := by
  unfold preserveLeadingTab; lk

theorem paragraphOpen_lk (p : Nat) : Lk (paragraphOpen p) := by unfold paragraphOpen; lk
theorem paragraphContinue_lk (n : Nat) : Lk (paragraphContinue n) := by unfold paragraphContinue; lk
theorem thematicOpen_lk (p : Nat) : Lk (thematicOpen p) := by unfold thematicOpen; lk
theorem atxOpen_lk (p : Nat) : Lk (atxOpen p) := by unfold atxOpen; lk

theorem setextOpen_lk (p : Nat) : Lk (setextOpen p) := by
  have := lastOpenedBlock_lk
  unfold setextOpen; lk

theorem codeTakeLine_lk (n : Nat) (pos padding : Int) : Lk (codeTakeLine n pos padding) := by
  have := preserveLeadingTab_lk
  unfold codeTakeLine; lk

theorem codeOpen_lk (p : Nat) : Lk (codeOpen p) := by
  have := codeTakeLine_lk
  unfold codeOpen; lk

theorem codeContinue_lk (n : Nat) : Lk (codeContinue n) := by
  have := codeTakeLine_lk
  unfold codeContinue; lk

theorem codeClose_lk (n : Nat) : Lk (codeClose n) := by unfold codeClose; lk

theorem fencedOpen_lk (p : Nat) : Lk (fencedOpen p) := by unfold fencedOpen; lk

theorem fencedContinue_lk (n : Nat) : Lk (fencedContinue n) := by
  have := preserveLeadingTab_lk
  unfold fencedContinue; lk

theorem fencedClose_lk (n : Nat) : Lk (fencedClose n) := by unfold fencedClose; lk

theorem blockquoteProcess_lk : Lk blockquoteProcess := by unfold blockquoteProcess; lk

theorem blockquoteOpen_lk (p : Nat) : Lk (blockquoteOpen p) := by
  have := blockquoteProcess_lk
  unfold blockquoteOpen; lk

theorem blockquoteContinue_lk (n : Nat) : Lk (blockquoteContinue n) := by
  have := blockquoteProcess_lk
  unfold blockquoteContinue; lk

theorem lastOffset_lk (n : Nat) : Lk (lastOffset n) := by unfold lastOffset; lk
theorem lastChildCount_lk (n : Nat) : Lk (lastChildCount n) := by unfold lastChildCount; lk

theorem listOpen_lk (p : Nat) : Lk (listOpen p) := by
  have := lastOpenedBlock_lk
  unfold listOpen; lk

theorem listContinue_lk (n : Nat) : Lk (listContinue n) := by
  have := lastOpenedBlock_lk
  have := lastOffset_lk
  have := lastChildCount_lk
  unfold listContinue; lk

theorem listItemOpen_lk (p : Nat) : Lk (listItemOpen p) := by
  have := lastOffset_lk
  unfold listItemOpen; lk

theorem listItemContinue_lk (n : Nat) : Lk (listItemContinue n) := by
  have := lastOffset_lk
  unfold listItemContinue; lk

theorem htmlOpen_lk (p : Nat) : Lk (htmlOpen p) := by
  have := lastOpenedBlock_lk
  unfold htmlOpen; lk

theorem htmlContinue_lk (n : Nat) : Lk (htmlContinue n) := by unfold htmlContinue; lk

theorem bpOpen_lk (bp : BP) (p : Nat) : Lk (bpOpen bp p) := by
  cases bp <;> unfold bpOpen
  · exact setextOpen_lk p
  · exact thematicOpen_lk p
  · exact listOpen_lk p
  · exact listItemOpen_lk p
  · exact codeOpen_lk p
  · exact atxOpen_lk p
  · exact fencedOpen_lk p
  · exact blockquoteOpen_lk p
  · exact htmlOpen_lk p
  · exact paragraphOpen_lk p

theorem bpContinue_lk (bp : BP) (n : Nat) : Lk (bpContinue bp n) := by
  cases bp <;> unfold bpContinue
  · exact Lk.pure _
  · exact Lk.pure _
  · exact listContinue_lk n
  · exact listItemContinue_lk n
  · exact codeContinue_lk n
  · exact Lk.pure _
  · exact fencedContinue_lk n
  · exact blockquoteContinue_lk n
  · exact htmlContinue_lk n
  · exact paragraphContinue_lk n

theorem toContinuable_lk (c : Bool) (r : OpenResult) (lb : Option Block) : Lk (toContinuable c r lb) := by
  have := bpContinue_lk
  unfold toContinuable; lk

end GM.ConvertH
