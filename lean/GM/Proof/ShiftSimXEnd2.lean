/-
  GM.Proof.ShiftSimXEnd2 — right-extension simulation, the line loops of `parseBlocks`: run A on `b` (ending with a line
  feed), run B on `b ++ "\n" ++ L ++ rest` (`L` a non-blank line). The two runs go together as long as run A has a line
  (GM.Proof.ShiftSimXLines, ShiftSimXOpen). When run A reaches the end of `b`:
    * nothing open: run A's `SkipBlankLines` ends the run; run B's skips the blank line and stands on `L`;
    * blocks open: run A closes them all (`closeBlocks(last, 0)`); run B reads the blank line, on which the first open block
      does not continue (it is not a raw block: tree criterion `endsInRawBlock`), so it closes them all with the same
      call, and arrives on `L` with nothing open.
  In both cases run B then stands at the top of the outer loop with run A's FINAL store — `TopB`.
-/
import GM.Proof.ShiftSimXEnd1
import GM.Proof.ShiftSimXOpen
import GM.Proof.ShiftSimXSkip
import GM.Proof.ShiftSimXBlank
import GM.Proof.ShiftSimXOpens
import GM.Proof.ShiftSimXTop3

namespace GM.Blocks.Xs
open GM GM.Text GM.Spec GM.Proof.Reader GM.Blocks GM.Blocks.L

/-- the frame: no prefix, suffix `"\n" ++ L ++ rest` -/
abbrev FQ (L rest : Bytes) : Frame := FX (10 :: (L ++ rest))

theorem FQ_q (L rest : Bytes) : (FQ L rest).q = 10 :: (L ++ rest) := rfl
theorem FQ_qne (L rest : Bytes) : (FQ L rest).q ≠ [] := by rw [FQ_q]; exact List.cons_ne_nil _ _
theorem FQ_ok (L rest : Bytes) : (FQ L rest).OK := ⟨.inl rfl, .inl (Nat.zero_le _), fun x hx => by cases hx⟩

/-! ### run A alone at line boundaries -/

/-- what run A's states satisfy after a pass (before the AdvanceLine) -/
structure AUr (b : Bytes) (s : St) : Prop where
  st : StableL b 0 s
  k : Sh.K s
  top : TopLast s
  gp : tl_GP s
  att : ∀ z ∈ s.pc.opened, (nd s z.node).parent.isSome = true

/-- … and at line boundaries -/
structure AU (b : Bytes) (s : St) : Prop extends AUr b s where
  pad : ∀ c, RI b s.r c → PadOK c

/-- the statistics only hold lines up to the current one -/
def SLe (st : List LineStat) (s : St) : Prop := ∀ e ∈ st, e.lineNum ≤ s.r.line

/-- one pass of the per-line loop keeps run A's invariants (discharged in GM.Proof.ShiftSimXEnd3) -/
def PassKeeps (b : Bytes) : Prop :=
  ∀ (ob : List Block) (s s' : St) (bl : List LineStat) (x : LineOutcome × List LineStat),
    AU b s → s.pc.opened = ob → ob ≠ [] → (∀ z ∈ ob, Cov6 z.bp) → HL b s → SLe bl s →
    lineLoop 0 ob ((ob.length : Int) - 1) ob 0 bl s = .ok (x, s') → AUr b s' ∧ SLe x.2 s' ∧ x.1 = .next

/-- `openBlocks` at the top of the outer loop keeps them -/
def OpenKeeps (b : Bytes) : Prop :=
  ∀ (blank : Bool) (s s' : St) (r : OpenResult),
    AU b s → s.pc.opened = [] → HL b s → openBlocks 0 blank s = .ok (r, s') → AUr b s'

theorem AUr.adv {b : Bytes} {s : St} (h : AUr b s) (h0 : 0 ≤ s.r.pos.stop) (hgr : ∀ (t : St) r', tl_GP t → tl_GP { t with r := r' }) :
    AU b { s with r := s.r.advanceLine } :=
  { st := h.st.congr_r _, k := Sh.K.congr_r h.k _, top := h.top.congr_r _, gp := hgr s _ h.gp, att := h.att,
    pad := Sh.padOK_of_zero (Sh.advanceLine_pad _ h0) }

theorem endsInRawBlock_congr_r (s : St) (r' : Reader) : endsInRawBlock { s with r := r' } = endsInRawBlock s := rfl

/-! ### what run B looks like when it has arrived on `L` -/

/-- run B stands at the top of the outer loop on the line `L`, nothing open, keys unset, with run A's store -/
structure TopB (b L rest : Bytes) (sA' sB' : St) (stB : List LineStat) : Prop where
  nodes : sB'.nodes = sA'.nodes
  opened : sB'.pc.opened = []
  keys : KeysOff sB'
  atLine : AtLine L sB'.r
  source : sB'.r.source = b ++ 10 :: (L ++ rest)
  pos : sB'.r.pos = { start := ((b.length + 1 : Nat) : Int), stop := ((b.length + 1 + L.length : Nat) : Int),
                      padding := 0, forceNewline := false }
  stats : ∀ e ∈ stB, e.lineNum ≤ sB'.r.line

/-! ### run A at the end of `b` -/

theorem advanceLine_force (r : Reader) : r.advanceLine.pos.forceNewline = r.pos.forceNewline := by
  unfold Reader.advanceLine
  simp only
  split <;> rfl

/-- what `XEnd` says, spelled out -/
theorem xend_facts {b L rest : Bytes} (hL : ∃ body, L = body ++ [10] ∧ ∀ c ∈ body, c ≠ 10) {sA sB : St}
    (h : XEnd (FQ L rest) b sA sB) :
    (∃ c, RI b sA.r c ∧ c.p = b.length) ∧ StoreRel (FQ L rest) sA.nodes sB.nodes ∧ CtxRel (FQ L rest) sA.pc sB.pc ∧
    AtLine [10] sB.r ∧ AtLine L sB.r.advanceLine ∧ sB.r.source = b ++ 10 :: (L ++ rest) ∧
    sB.r.advanceLine.pos = { start := ((b.length + 1 : Nat) : Int), stop := ((b.length + 1 + L.length : Nat) : Int),
                             padding := 0, forceNewline := false } ∧
    sB.r.line = sA.r.line ∧ sB.r.advanceLine.line = sA.r.line + 1 := by
  obtain ⟨sA0, sB0, hl, ⟨c, hc⟩, ⟨_, ha2, ha3, ha4, ha5, ha6, ha7⟩, eA, eB⟩ := h
  subst eA eB
  have hd : (FQ L rest).d = 0 := rfl
  have hdl : (FQ L rest).dl = 0 := rfl
  have hsrcB : sB0.r.source = b ++ 10 :: (L ++ rest) := by rw [ha4]; rfl
  have h0 : 0 ≤ sA0.r.pos.stop := by rw [ha3]; omega
  have hstopB : sB0.r.pos.stop = ((b.length : Nat) : Int) := by rw [ha5, hd, ha3]; omega
  have hforceA : sA0.r.pos.forceNewline = false := by
    have := congrArg Segment.forceNewline hc.pos
    simp only at this
    rw [advanceLine_force] at this
    exact this
  have hforceB : sB0.r.pos.forceNewline = false := by rw [ha6, hforceA]
  have hcp : c.p = b.length := by
    have := congrArg Segment.start hc.pos
    simp only at this
    rw [advanceLine_start _ h0, ha3] at this
    omega
  -- bytes
  have e1 : lineEnd (b ++ 10 :: (L ++ rest)) b.length = b.length + 1 := by
    have := xsk_lineEnd_at b [10] (L ++ rest) [] rfl (by intro c hc; cases hc)
    simpa using this
  have s1 : sub (b ++ 10 :: (L ++ rest)) b.length (b.length + 1) = [10] := by
    have := xsk_sub_at b [10] (L ++ rest)
    simpa using this
  obtain ⟨body, hLe, hbody⟩ := hL
  have esrc : b ++ 10 :: (L ++ rest) = (b ++ [10]) ++ (L ++ rest) := by simp
  have e2 : lineEnd (b ++ 10 :: (L ++ rest)) (b.length + 1) = b.length + 1 + L.length := by
    have := xsk_lineEnd_at (b ++ [10]) L rest body hLe hbody
    rw [← esrc] at this
    simpa using this
  have s2 : sub (b ++ 10 :: (L ++ rest)) (b.length + 1) (b.length + 1 + L.length) = L := by
    have := xsk_sub_at (b ++ [10]) L rest
    rw [← esrc] at this
    simpa using this
  have hlen : b.length < (b ++ 10 :: (L ++ rest)).length := by simp
  have hlen2 : b.length + 1 < (b ++ 10 :: (L ++ rest)).length := by
    rw [hLe]; simp; omega
  have hat1 : AtLine [10] sB0.r.advanceLine := by
    have := Sh.atLine_advanceLine (r := sB0.r) (src := b ++ 10 :: (L ++ rest)) (k := b.length) hsrcB hstopB hforceB hlen
    rw [e1, s1] at this
    exact this
  have hsB0 : 0 ≤ sB0.r.pos.stop := by rw [hstopB]; omega
  have hstop1 : sB0.r.advanceLine.pos.stop = ((b.length + 1 : Nat) : Int) := by
    rw [Sh.advanceLine_eq sB0.r hsB0]; simp only
    rw [hsrcB, hstopB, Int.toNat_natCast, e1]
  have hsrc1 : sB0.r.advanceLine.source = b ++ 10 :: (L ++ rest) := by rw [Sh.advanceLine_eq sB0.r hsB0]; exact hsrcB
  have hforce1 : sB0.r.advanceLine.pos.forceNewline = false := by rw [advanceLine_force]; exact hforceB
  have hat2 : AtLine L sB0.r.advanceLine.advanceLine := by
    have := Sh.atLine_advanceLine (r := sB0.r.advanceLine) (src := b ++ 10 :: (L ++ rest)) (k := b.length + 1) hsrc1 hstop1
      hforce1 hlen2
    rw [e2, s2] at this
    exact this
  refine ⟨⟨c, hc, hcp⟩, hl.n, hl.c, hat1, hat2, hsrc1, ?_, ?_, ?_⟩
  · rw [Sh.advanceLine_eq sB0.r.advanceLine (by rw [hstop1]; omega)]
    simp only [hstop1, hsrc1, hforce1, Int.toNat_natCast, e2]
  · show sB0.r.advanceLine.line = sA0.r.advanceLine.line
    rw [advanceLine_line_succ' _ h0, advanceLine_line_succ' _ (by rw [hstopB]; omega), ha7, hdl]; omega
  · show sB0.r.advanceLine.advanceLine.line = sA0.r.advanceLine.line + 1
    rw [advanceLine_line_succ' _ (by rw [hstop1]; omega), advanceLine_line_succ' _ h0,
      advanceLine_line_succ' _ (by rw [hstopB]; omega), ha7, hdl]; omega

/-! ### the inner `for {}` over lines: the postcondition -/

/-- what the inner loop establishes: if run A leaves it normally (`false`: nothing open), so does run B and the runs are
    at a line boundary again; if run A reached the end of its source inside (`true`), run B has arrived on `L` -/
def LinesQX (b L rest : Bytes) (sA : St) (sa : List LineStat) (x y : Bool × List LineStat) (sA' sB' : St) : Prop :=
  (x.1 = false → y.1 = false ∧ StatsRel (FQ L rest) x.2 y.2 ∧ TopRel (FQ L rest) b sA' sB' ∧ sA'.pc.opened = [] ∧
      AI Cov6 sA' ∧ 1 ≤ sA'.r.line ∧ AU b sA' ∧ SLe x.2 sA' ∧ (sa ≠ [] ∨ sA.pc.opened ≠ [] → x.2 ≠ [])) ∧
  (x.1 = true → endsInRawBlock sA' = false → y.1 = false ∧ TopB b L rest sA' sB' y.2)

/-- the inner loop when run A stands at the end of its source (proved in GM.Proof.ShiftSimXEnd2b) -/
def LinesXEndP (b L rest : Bytes) : Prop :=
  ∀ (fuelA fuelB : Nat) (sa sb : List LineStat) (sA sB : St),
    XEnd (FQ L rest) b sA sB → AI Cov6 sA → StatsRel (FQ L rest) sa sb → 1 ≤ sA.r.line → AU b sA → SLe sa sA →
    P2 (LinesQX b L rest sA sa) (linesLoop 0 fuelA sa sA) (linesLoop 0 fuelB sb sB)

end GM.Blocks.Xs
