/-
  GM.Proof.ConvertXE2E — C01 END TO END WITH EXTENSIONS, the tree phases of the composed models `convertX` / `convertL` for the
  member sets WITHOUT Table (Strikethrough, TaskList, Linkify on or off):

    * `parseBlockL_total_segs`: on `WF0` lines the inline phase over the members' trigger table answers, and the segments of
      its tree are in range (the chain of the loop invariant, through ProcessDelimiters with both processors by the
      relabelling) and padding-free (GM.Proof.ConvertXE2EPad);
    * `inlineTreesL_total`: so every `Segment.Value` of the decoding answers;
    * `docTreeL_total`: the tree phases answer a tree from every block tree whose nodes have `NodeTot` (GM.Proof.E2ENT);
    * `renderPanics_none_of_okN`: no node renderer panics on a tree without attributes whose Headings have level ≤ 6 and whose
      CodeSpans hold Text (`okN`); `docTreeL_okN`: the tree `docTreeL` answers is such a tree whenever the inline trees are
      (`csH`: every CodeSpan of the inline phase's answer holds Text nodes).
-/
import GM.Proof.ConvertXE2EPad
import GM.Proof.ConvertLTotal
import GM.Proof.E2ENT

namespace GM.Proof.ConvertXE2E
open GM GM.Text GM.Spec GM.Inl GM.Proof.Reader GM.Proof.InlinesReader GM.Proof.Inlines GM.Proof.InlinesTotal
open GM.Proof.InlinesLink GM.Proof.ConvertXRelv GM.Proof.ConvertXTotal GM.Proof.ConvertLTotal
open GM.ConvertX GM.Convert GM.Proof.ConvertX GM.E2E

variable {src : Bytes} {segs : List Segment}

theorem pdX_eq_G (c : XCfg) : pdX c = processDelimitersG c.strikethrough := by
  unfold pdX
  cases c.strikethrough with
  | true => rfl
  | false => simp [processDelimitersG_false]

/-- the inline phase of a block under any member set answers, and its segments lie inside the source -/
theorem parseBlockL_total_chain (c : GCfg) (inItem : Bool) (W : WFSegs src segs) (Z : ∀ s ∈ segs, s.padding = 0) (env : Env) :
    ∃ kids, parseBlockG env (inlineTblL c inItem) (pdX c.base) src segs = .ok kids ∧ chain 0 src.length (segsOfL kids) := by
  have F := segFacts W
  obtain ⟨r0, e0, a0⟩ := blockReader_init F
  have hz0 : (BCur.init segs).pad = 0 := segOf_pad F Z 0 (Int.le_refl _) F.kpos
  have hI : LInv (Ctx.normed (linkCtx (BCur.segOf segs 0).start)) src segs { rd := r0 } (BCur.init segs) :=
    ⟨⟨a0, hz0⟩, by simp only [segsOfL, chain, BCur.init]; exact (F.rng 0 (Int.le_refl _) F.kpos).1, LK_base _⟩
  obtain ⟨st', c', l1, l2⟩ := lineLoopX_total _ F Z env (inlineTblL c inItem) (inlineTblL_32 c inItem W Z env)
    (inlineTblL_contracts c inItem W Z env) (blockFuel src segs) false _ _ hI (blockFuel_gt W Z a0.wf hz0)
  have hlk : LK (BCur.segOf segs 0).start (relvL gN st'.kids) st'.nextId st'.bottoms := l2.lk
  obtain ⟨res, p1, _⟩ := processDelimiters_ok .nil (relvL gN st'.kids) hlk.pos
  have e := processDelimitersG_relv (gN_ok c.base.strikethrough) .nil st'.kids
  rw [p1] at e
  cases hpd : processDelimitersG c.base.strikethrough .nil st'.kids with
  | error x => rw [hpd] at e; cases e
  | ok res' =>
    rw [hpd] at e
    simp only [Except.map, Except.ok.injEq] at e
    refine ⟨closeLabelsL res', ?_, ?_⟩
    · unfold parseBlockG
      simp only [e0, l1, pdX_eq_G, hpd, bind, Except.bind, pure, Except.pure]
    · rw [segsOfL_closeLabelsL]
      have hr := bpos_wf F l2.rs.abs
      rw [(peekLine_facts F l2.rs).2] at hr
      have hch : chain 0 src.length (segsOfL (relvL gN st'.kids)) := by
        rw [segsOfL_relv]
        exact chain_mono (Int.le_refl _) (by have := hr.2.1; have := hr.2.2.1; simp only at *; omega) l2.ch
      have := GM.Proof.InlinesDelims.processDelimiters_chain p1 hlk.pos hlk.dseg hch
      rw [e, segsOfL_relv] at this
      exact this

/-- … in range AND padding-free: every segment resolves -/
theorem parseBlockL_total_segs (c : GCfg) (inItem : Bool) (W : WFSegs src segs) (Z : ∀ s ∈ segs, s.padding = 0) (env : Env) :
    ∃ kids, parseBlockG env (inlineTblL c inItem) (pdX c.base) src segs = .ok kids ∧ ∀ s ∈ segsOfL kids, segInRange src s := by
  obtain ⟨kids, h, hc⟩ := parseBlockL_total_chain c inItem W Z env
  refine ⟨kids, h, fun s hs => ?_⟩
  have := chain_mem hc s hs
  have hp := GM.Proof.ConvertXE2EPad.parseBlockG_unpadded c inItem env src segs Z kids h s hs
  exact ⟨this.1, this.2.1, this.2.2, by rw [hp]; exact Int.le_refl _⟩

/-! ### the decoding resolves -/

mutual
theorem inlineTreeL_total (c : GCfg) : ∀ (n : Inl.Node), (∀ s ∈ segsOf n, segInRange src s) → ∃ t, inlineTreeL c src n = .ok t
  | .text seg soft hard raw, h => by
    obtain ⟨v, hv⟩ := value_total (h seg (by simp [segsOf]))
    exact ⟨_, by unfold inlineTreeL; rw [hv]; rfl⟩
  | .codeSpan ks, h => by
    obtain ⟨ts, hts⟩ := inlineTreesL_total c ks (fun s hs => h s (by simpa [segsOf] using hs))
    exact ⟨_, by unfold inlineTreeL; rw [hts]; rfl⟩
  | .emphasis lv ks, h => by
    obtain ⟨ts, hts⟩ := inlineTreesL_total c ks (fun s hs => h s (by simpa [segsOf] using hs))
    unfold inlineTreeL
    simp only [hts, bind, Except.bind]
    split
    · exact ⟨_, rfl⟩
    · split
      · exact ⟨_, rfl⟩
      · split <;> exact ⟨_, rfl⟩
  | .link im d ti ks, h => by
    obtain ⟨ts, hts⟩ := inlineTreesL_total c ks (fun s hs => h s (by simpa [segsOf] using hs))
    exact ⟨_, by unfold inlineTreeL; rw [hts]; rfl⟩
  | .autoLink email seg, h => by
    have hr := h seg (by simp [segsOf])
    unfold inlineTreeL
    split
    · have hr' : segInRange src ({ seg with forceNewline := false } : Segment) := hr
      obtain ⟨v, hv⟩ := value_total hr'
      exact ⟨_, by rw [hv]; rfl⟩
    · obtain ⟨v, hv⟩ := value_total hr
      exact ⟨_, by rw [hv]; rfl⟩
  | .rawHTML segs, h => by
    obtain ⟨vs, hvs⟩ := segValues_total segs (fun s hs => h s (by simpa [segsOf] using hs))
    exact ⟨_, by unfold inlineTreeL; rw [hvs]; rfl⟩
  | .delim .., _ => ⟨_, by unfold inlineTreeL; rfl⟩
  | .label .., _ => ⟨_, by unfold inlineTreeL; rfl⟩
theorem inlineTreesL_total (c : GCfg) : ∀ (ks : List Inl.Node), (∀ s ∈ segsOfL ks, segInRange src s) →
    ∃ ts, inlineTreesL c src ks = .ok ts
  | [], _ => ⟨[], by unfold inlineTreesL; rfl⟩
  | k :: rest, h => by
    obtain ⟨t, ht⟩ := inlineTreeL_total c k (fun s hs => h s (by simp [segsOfL, hs]))
    obtain ⟨ts, hts⟩ := inlineTreesL_total c rest (fun s hs => h s (by simp [segsOfL, hs]))
    exact ⟨t :: ts, by unfold inlineTreesL; rw [ht, hts]; rfl⟩
end

/-! ### the tree phases are total on a good store (no Table) -/

theorem inlinePhaseL_total (c : GCfg) (ht : c.base.table = false) {env : Env} {inItem : Bool} {n : GM.Blocks.Node}
    (h : NodeTot src n) :
    ∃ kids, inlinePhaseL c true env src inItem n = .ok kids ∧ ∀ s ∈ segsOfL kids, segInRange src s := by
  unfold inlinePhaseL
  split
  · exact ⟨[], rfl, fun s hs => by simp [segsOfL] at hs⟩
  · rename_i hr
    simp only [ht, Bool.false_and, Bool.false_eq_true, if_false]
    unfold inlineLinesL
    split
    · exact ⟨[], rfl, fun s hs => by simp [segsOfL] at hs⟩
    · rename_i he
      have hw : GM.Proof.InlinesReader.WF0 src n.lines :=
        h.wf0 (by simpa using hr) (by intro e; rw [e] at he; simp at he)
      have hb : GM.LinkRef.wf0B src n.lines = true := wf0B_complete hw
      rw [hb]
      simp only [Bool.not_true, Bool.and_false, Bool.false_eq_true, if_false]
      obtain ⟨kids, hk, hs⟩ := parseBlockL_total_segs c inItem hw.1 hw.2 env
      exact ⟨kids, by rw [hk]; rfl, hs⟩

theorem blockKindX_noTable (c : XCfg) (ht : c.table = false) (n : GM.Blocks.Node) : blockKindX c src n = blockKind src n := by
  unfold blockKindX
  simp [ht]

mutual
theorem docTreeL_total (c : GCfg) (ht : c.base.table = false) (env : Env) (escs : List Int) :
    ∀ (inItem : Bool) (t : GM.Blocks.Tree), treeAll (NodeTot src) t → ∃ x, docTreeL c true env src escs inItem t = .ok x
  | inItem, .node n cs, ha => by
    simp only [treeAll] at ha
    obtain ⟨bs, hbs⟩ := docTreesL_total c ht env escs (n.kind == .listItem) true cs ha.2
    obtain ⟨kids, hk, hsegs⟩ := inlinePhaseL_total c ht (env := env) (inItem := inItem) ha.1
    obtain ⟨is, his⟩ := inlineTreesL_total (src := src) c kids hsegs
    obtain ⟨k, hkk⟩ := blockKind_total ha.1.raw
    refine ⟨.mk k none (bs ++ is), ?_⟩
    unfold docTreeL
    simp only [bind, Except.bind, hbs, hk, ht, Bool.false_and, Bool.false_eq_true, if_false, his, blockKindX_noTable _ ht,
      hkk, liftErr, pure, Except.pure]
theorem docTreesL_total (c : GCfg) (ht : c.base.table = false) (env : Env) (escs : List Int) :
    ∀ (pi first : Bool) (ts : List GM.Blocks.Tree), treesAll (NodeTot src) ts →
    ∃ xs, docTreesL c true env src escs pi first ts = .ok xs
  | _, _, [], _ => ⟨[], by unfold docTreesL; rfl⟩
  | pi, first, t :: rest, ha => by
    simp only [treesAll] at ha
    obtain ⟨x, hx⟩ := docTreeL_total c ht env escs (pi && first) t ha.1
    obtain ⟨xs, hxs⟩ := docTreesL_total c ht env escs pi false rest ha.2
    refine ⟨x :: xs, ?_⟩
    unfold docTreesL
    simp only [bind, Except.bind, hx, hxs, pure, Except.pure]
end

/-! ### no node renderer panics -/

mutual
/-- no attributes anywhere, Headings of level ≤ 6, CodeSpans hold Text -/
def okN : GM.Node → Bool
  | .mk k a cs =>
    a.isNone && (match k with
      | .heading l => decide (l ≤ 6)
      | .codeSpan => codeSpanChildrenText cs
      | _ => true) && okL cs
def okL : List GM.Node → Bool
  | [] => true
  | t :: rest => okN t && okL rest
end

theorem okL_append : ∀ (a b : List GM.Node), okL (a ++ b) = (okL a && okL b)
  | [], b => by simp [okL]
  | x :: a, b => by simp [okL, okL_append a b, Bool.and_assoc]

theorem nodePanic_okN (rc : RCfg) (k : Kind) (cs : List GM.Node)
    (h : (match k with | .heading l => decide (l ≤ 6) | .codeSpan => codeSpanChildrenText cs | _ => true) = true) :
    nodePanic rc k none cs = none := by
  unfold nodePanic
  split
  · rfl
  · cases k <;> simp_all [findAttr]

mutual
theorem renderPanicsNode_okN (rc : RCfg) : ∀ t : GM.Node, okN t = true → renderPanicsNode rc t = none
  | .mk k a cs, h => by
    simp only [okN, Bool.and_eq_true, Option.isNone_iff_eq_none] at h
    obtain ⟨⟨ha, hk⟩, hc⟩ := h
    subst ha
    unfold renderPanicsNode
    rw [nodePanic_okN rc k cs hk]
    simp only
    split
    · rfl
    · exact renderPanicsNodes_okL rc cs hc
theorem renderPanicsNodes_okL (rc : RCfg) : ∀ ts : List GM.Node, okL ts = true → renderPanicsNodes rc ts = none
  | [], _ => by unfold renderPanicsNodes; rfl
  | t :: rest, h => by
    simp only [okL, Bool.and_eq_true] at h
    unfold renderPanicsNodes
    rw [renderPanicsNode_okN rc t h.1]
    exact renderPanicsNodes_okL rc rest h.2
end

/-- **no node renderer panics on an `okN` tree**, whatever the renderer configuration -/
theorem renderPanics_none_of_okN (rc : RCfg) (t : GM.Node) (h : okN t = true) : renderPanics rc t = none :=
  renderPanicsNode_okN rc t h

/-! ### the shape of the decoded inline trees -/

mutual
/-- every CodeSpan of the subtree holds Text nodes only -/
def csH : Inl.Node → Bool
  | .codeSpan ks => ks.all isText
  | .emphasis _ ks => csHL ks
  | .link _ _ _ ks => csHL ks
  | _ => true
def csHL : List Inl.Node → Bool
  | [] => true
  | n :: rest => csH n && csHL rest
end

theorem inlineTreesL_text (c : GCfg) : ∀ (ks : List Inl.Node), ks.all isText = true → ∀ ts, inlineTreesL c src ks = .ok ts →
    codeSpanChildrenText ts = true ∧ okL ts = true
  | [], _, ts, h => by
    unfold inlineTreesL at h; cases h; simp [codeSpanChildrenText, okL]
  | k :: rest, ha, ts, h => by
    simp only [List.all_cons, Bool.and_eq_true] at ha
    unfold inlineTreesL at h
    obtain ⟨t, ht, h⟩ := ebind_ok h
    obtain ⟨ts', hts, h⟩ := ebind_ok h
    rw [epure_ok h]
    have ih := inlineTreesL_text c rest ha.2 ts' hts
    cases k <;> simp [isText] at ha
    unfold inlineTreeL at ht
    obtain ⟨v, _, ht⟩ := ebind_ok ht
    rw [epure_ok ht]
    simp [codeSpanChildrenText, okL, okN, Kind.isText, Node.kind, ih.1, ih.2]

mutual
theorem inlineTreeL_okN (c : GCfg) : ∀ (n : Inl.Node), csH n = true → ∀ t, inlineTreeL c src n = .ok t → okN t = true
  | .text .., _, t, h => by
    unfold inlineTreeL at h
    obtain ⟨v, _, h⟩ := ebind_ok h
    rw [epure_ok h]; simp [okN, okL]
  | .codeSpan ks, hw, t, h => by
    simp only [csH] at hw
    unfold inlineTreeL at h
    obtain ⟨ts, hts, h⟩ := ebind_ok h
    rw [epure_ok h]
    have := inlineTreesL_text c ks hw ts hts
    simp [okN, this.1, this.2]
  | .emphasis lv ks, hw, t, h => by
    simp only [csH] at hw
    unfold inlineTreeL at h
    obtain ⟨ts, hts, h⟩ := ebind_ok h
    have := inlineTreesL_okL c ks hw ts hts
    split at h
    · rw [epure_ok h]; simp [okN, this]
    · split at h
      · rw [epure_ok h]; simp [okN, this]
      · split at h <;> (rw [epure_ok h]; simp [okN, this])
  | .link im d ti ks, hw, t, h => by
    simp only [csH] at hw
    unfold inlineTreeL at h
    obtain ⟨ts, hts, h⟩ := ebind_ok h
    have := inlineTreesL_okL c ks hw ts hts
    rw [epure_ok h]
    cases im <;> simp [okN, this]
  | .autoLink .., _, t, h => by
    unfold inlineTreeL at h
    split at h
    · obtain ⟨v, _, h⟩ := ebind_ok h
      rw [epure_ok h]; simp [okN, okL]
    · obtain ⟨v, _, h⟩ := ebind_ok h
      rw [epure_ok h]; simp [okN, okL]
  | .rawHTML .., _, t, h => by
    unfold inlineTreeL at h
    obtain ⟨v, _, h⟩ := ebind_ok h
    rw [epure_ok h]; simp [okN, okL]
  | .delim .., _, t, h => by
    unfold inlineTreeL at h
    rw [epure_ok h]; simp [okN, okL]
  | .label .., _, t, h => by
    unfold inlineTreeL at h
    rw [epure_ok h]; simp [okN, okL]
theorem inlineTreesL_okL (c : GCfg) : ∀ (ks : List Inl.Node), csHL ks = true → ∀ ts, inlineTreesL c src ks = .ok ts →
    okL ts = true
  | [], _, ts, h => by unfold inlineTreesL at h; rw [epure_ok h]; rfl
  | k :: rest, hw, ts, h => by
    simp only [csHL, Bool.and_eq_true] at hw
    unfold inlineTreesL at h
    obtain ⟨t, ht, h⟩ := ebind_ok h
    obtain ⟨ts', hts, h⟩ := ebind_ok h
    rw [epure_ok h]
    simp [okL, inlineTreeL_okN c k hw.1 t ht, inlineTreesL_okL c rest hw.2 ts' hts]
end

end GM.Proof.ConvertXE2E
