/-
  GM.Proof.CMFrag21Defs — stage 21: the union fragment with ALL inline atoms in its rich lines: text, code spans,
  `*x*` / `**x**`, `_x_` / `__x__`, inline links `[t](d)`, images `![t](d)`, URI autolinks `<s:r>`, raw inline tags
  `<n>` / `</n>`; paragraph lines may end with a backslash hard break. (Definitions only.)
-/
import GM.Proof.CMFrag13Defs
import GM.Proof.CMFrag17Defs
import GM.Proof.CMFrag18Defs
import GM.Proof.CMFrag19Defs
import GM.Proof.CMFrag20Defs
import GM.Proof.CMFragQInl

namespace GM.Proof.CMFrag
open GM GM.Text

/-- a piece of a line -/
inductive FAtom where
  | txt (bs : Bytes)
  | code (bs : Bytes)
  | em (bs : Bytes)            -- `*bs*`
  | strong (bs : Bytes)        -- `**bs**`
  | uem (bs : Bytes)           -- `_bs_`
  | ustrong (bs : Bytes)       -- `__bs__`
  | link (t d : Bytes)         -- `[t](d)`
  | img (t d : Bytes)          -- `![t](d)`
  | auto (s r : Bytes)         -- `<s:r>`
  | otag (n : Bytes)           -- `<n>`
  | ctag (n : Bytes)           -- `</n>`
deriving Repr, Inhabited

def fatomSrc : FAtom → Bytes
  | .txt bs => bs
  | .code bs => [96] ++ bs ++ [96]
  | .em bs => [42] ++ bs ++ [42]
  | .strong bs => [42, 42] ++ bs ++ [42, 42]
  | .uem bs => [95] ++ bs ++ [95]
  | .ustrong bs => [95, 95] ++ bs ++ [95, 95]
  | .link t d => [91] ++ t ++ [93, 40] ++ d ++ [41]
  | .img t d => [33, 91] ++ t ++ [93, 40] ++ d ++ [41]
  | .auto s r => [60] ++ s ++ [58] ++ r ++ [62]
  | .otag n => [60] ++ n ++ [62]
  | .ctag n => [60, 47] ++ n ++ [62]

def flineSrc (as : List FAtom) : Bytes := as.flatMap fatomSrc

def FAtom.isTxt : FAtom → Bool
  | .txt _ => true
  | _ => false

/-- the atom is underscore emphasis (its neighbours matter) -/
def FAtom.isUnder : FAtom → Bool
  | .uem _ => true
  | .ustrong _ => true
  | _ => false

/-- star or underscore emphasis -/
def FAtom.isEmph : FAtom → Bool
  | .em _ => true
  | .strong _ => true
  | .uem _ => true
  | .ustrong _ => true
  | _ => false

/-- link or image -/
def FAtom.isLinkImg : FAtom → Bool
  | .link _ _ => true
  | .img _ _ => true
  | _ => false

/-- text atoms and non-text atoms alternate -/
def falternating : List FAtom → Bool
  | a :: b :: rest => (a.isTxt != b.isTxt) && falternating (b :: rest)
  | _ => true

def AlnumNE (bs : Bytes) : Prop := bs ≠ [] ∧ ∀ c ∈ bs, GM.Spec.CM.isAlnumC c = true

def FAtomOK : FAtom → Prop
  | .txt bs => bs ≠ [] ∧ (∀ i, quiet bs i false = true) ∧ escAfter bs false = false
  | .code bs => AlnumNE bs
  | .em bs => AlnumNE bs
  | .strong bs => AlnumNE bs
  | .uem bs => AlnumNE bs
  | .ustrong bs => AlnumNE bs
  | .link t d => AlnumNE t ∧ (d ≠ [] ∧ ∀ c ∈ d, isDestC16 c = true)
  | .img t d => AlnumNE t ∧ (d ≠ [] ∧ ∀ c ∈ d, isDestC16 c = true)
  | .auto s r => (2 ≤ s.length ∧ s.length ≤ 32 ∧ ∀ c ∈ s, GM.Spec.CM.isLetter c = true) ∧
      (r ≠ [] ∧ ∀ c ∈ r, isAutoC18 c = true)
  | .otag n => TagNameOK19 n
  | .ctag n => TagNameOK19 n

/-- a rich line: text atoms alternate with non-text atoms, starting and ending with text; the first byte is a letter, the
    last byte neither white space nor a backslash; the source bytes directly outside an UNDERSCORE emphasis atom are
    white space or ASCII punctuation (`unNbOK`) -/
structure FRichLine (as : List FAtom) : Prop where
  alt : falternating as = true
  first : ∃ bs rest, as = .txt bs :: rest ∧ ∀ c, bs.head? = some c → GM.Spec.CM.isLetter c = true
  last : ∃ init bs, as = init ++ [.txt bs] ∧ (∀ c, bs.getLast? = some c → isSpace c = false ∧ c ≠ 92)
  ok : ∀ a ∈ as, FAtomOK a
  nb : ∀ init a x b rest, as = init ++ [.txt a, x, .txt b] ++ rest → x.isUnder = true →
    (∀ c, a.getLast? = some c → unNbOK c = true) ∧ (∀ c, b.head? = some c → unNbOK c = true)

/-- the renderer's node of a non-text atom -/
def fatomNode : FAtom → GM.Node
  | .txt bs => .mk (.text bs false false false false) none []
  | .code bs => .mk .codeSpan none [.mk (.text bs false false true false) none []]
  | .em bs => .mk (.emphasis 1) none [.mk (.text bs false false false false) none []]
  | .strong bs => .mk (.emphasis 2) none [.mk (.text bs false false false false) none []]
  | .uem bs => .mk (.emphasis 1) none [.mk (.text bs false false false false) none []]
  | .ustrong bs => .mk (.emphasis 2) none [.mk (.text bs false false false false) none []]
  | .link t d => .mk (.link d none) none [.mk (.text t false false false false) none []]
  | .img t d => .mk (.image d none) none [.mk (.text t false false false false) none []]
  | .auto s r => .mk (.autoLink false (autoUri18 s r) (autoUri18 s r)) none []
  | .otag n => .mk (.rawHTML [fatomSrc (.otag n)]) none []
  | .ctag n => .mk (.rawHTML [fatomSrc (.ctag n)]) none []

/-- the nodes of one line; `soft` / `hard` are the flags of the line's LAST text node -/
def fatomNodes (soft hard : Bool) : List FAtom → List GM.Node
  | [] => []
  | [.txt bs] => [.mk (.text bs soft hard false false) none []]
  | a :: rest => fatomNode a :: fatomNodes soft hard rest

/-- the HTML of one atom -/
def fatomHtml : FAtom → Bytes
  | .txt bs => GM.write false bs
  | .code bs => strBytes "<code>" ++ GM.rawWrite bs ++ strBytes "</code>"
  | .em bs => strBytes "<em>" ++ GM.write false bs ++ strBytes "</em>"
  | .strong bs => strBytes "<strong>" ++ GM.write false bs ++ strBytes "</strong>"
  | .uem bs => strBytes "<em>" ++ GM.write false bs ++ strBytes "</em>"
  | .ustrong bs => strBytes "<strong>" ++ GM.write false bs ++ strBytes "</strong>"
  | .link t d => strBytes "<a href=\"" ++ d ++ strBytes "\">" ++ GM.write false t ++ strBytes "</a>"
  | .img t d => strBytes "<img src=\"" ++ d ++ strBytes "\" alt=\"" ++ GM.write false t ++ strBytes "\" />"
  | .auto s r => strBytes "<a href=\"" ++ autoUri18 s r ++ strBytes "\">" ++ autoUri18 s r ++ strBytes "</a>"
  | .otag n => fatomSrc (.otag n)
  | .ctag n => fatomSrc (.ctag n)

def frichLineHtml (as : List FAtom) : Bytes := as.flatMap fatomHtml

/-- a paragraph line: its atoms, and whether a backslash (hard line break) follows -/
structure FLine21 where
  atoms : List FAtom
  hard : Bool
deriving Repr, Inhabited

def flineSrc21 (x : FLine21) : Bytes := flineSrc x.atoms ++ (if x.hard then [92] else [])

/-- every line rich; the last line of a paragraph is not hard -/
def FLinesOK (ls : List FLine21) : Prop :=
  (∀ x ∈ ls, FRichLine x.atoms) ∧ (∀ x, ls.getLast? = some x → x.hard = false)

/-- a former restriction of the inline proof of stage 21 (no hard break; not both emphasis and link / image atoms in one
    paragraph): lifted (`f21InlG_holds` does not use it), hence `True`; kept as the one place where a restriction would go -/
def F21Restr (_ls : List FLine21) : Prop := True

/-- the children of a paragraph as the renderer reads them -/
def fNodes : List FLine21 → List GM.Node
  | [] => []
  | [x] => fatomNodes false false x.atoms
  | x :: y :: rest => fatomNodes (!x.hard) x.hard x.atoms ++ fNodes (y :: rest)

/-- the HTML between `<p>` and `</p>` -/
def fHtml : List FLine21 → Bytes
  | [] => []
  | [x] => frichLineHtml x.atoms
  | x :: y :: rest => frichLineHtml x.atoms ++ (if x.hard then strBytes "<br />\n" else [10]) ++ fHtml (y :: rest)

/-- a block of the stage-21 fragment -/
inductive FBlock21 where
  | para (ls : List FLine21)
  | atx (level : Nat) (l : List FAtom)
  | hr (h : Bytes)
  | fence (fc : UInt8) (n : Nat) (info : Bytes) (ls : List Bytes)
  | icode (ls : List Bytes)

/-- the block as byte lines (what the block phase sees) -/
def fraw : FBlock21 → Raw5
  | .para ls => .old (.para (ls.map flineSrc21))
  | .atx level l => .old (.atx level (flineSrc l))
  | .hr h => .old (.hr h)
  | .fence fc n info ls => .fence fc n info ls
  | .icode ls => .icode ls

/-- the block as the renderer reads it -/
def fNode : FBlock21 → GM.Node
  | .para ls => .mk .paragraph none (fNodes ls)
  | .atx level l => .mk (.heading level) none (fatomNodes false false l)
  | .hr h => rawNode5 (.old (.hr h))
  | .fence fc n info ls => rawNode5 (.fence fc n info ls)
  | .icode ls => rawNode5 (.icode ls)

/-- the HTML of one block -/
def fBlockHtml : FBlock21 → Bytes
  | .para ls => strBytes "<p>" ++ fHtml ls ++ strBytes "</p>\n"
  | .atx level l =>
    strBytes "<h" ++ [UInt8.ofNat (48 + level)] ++ [62] ++ frichLineHtml l ++ strBytes "</h" ++
      [UInt8.ofNat (48 + level)] ++ strBytes ">\n"
  | .hr h => rawHtml5 (.old (.hr h))
  | .fence fc n info ls => rawHtml5 (.fence fc n info ls)
  | .icode ls => rawHtml5 (.icode ls)

def fDocHtml (bs : List FBlock21) : Bytes := bs.flatMap fBlockHtml

/-- what the three phases need of a block -/
def FGood : FBlock21 → Prop
  | .para ls => ls ≠ [] ∧ FLinesOK ls ∧ F21Restr ls
  | .atx level l => 1 ≤ level ∧ level ≤ 6 ∧ FRichLine l ∧ (∀ c, (flineSrc l).getLast? = some c → c ≠ 35) ∧
      F21Restr [⟨l, false⟩]
  | .hr h => Good5' (.old (.hr h))
  | .fence fc n info ls => Good5' (.fence fc n info ls)
  | .icode ls => Good5' (.icode ls)

def FBlock21.isIc : FBlock21 → Bool
  | .icode _ => true
  | _ => false

/-- the inline facts of stage 21, position-list form (proved in CMFrag21Inl): what the inline phase and `inlineTrees`
    make of the lines of a paragraph / of a heading text, line `j` lying at byte `ps[j]` of whatever source -/
def F21InlG : Prop :=
  ∀ (env : GM.Inl.Env), env.escapedSpace = false → ∀ (ls : List FLine21), ls ≠ [] → FLinesOK ls → F21Restr ls →
    ∃ kidsAt : List Nat → List GM.Inl.Node,
      (∀ src ps, LinesAtG src ps (ls.map flineSrc21) →
        GM.Inl.parseBlock env src (paraSegsG ps (ls.map flineSrc21)) = .ok (kidsAt ps)) ∧
      (∀ src ps, LinesAtG src ps (ls.map flineSrc21) → GM.Convert.inlineTrees src (kidsAt ps) = .ok (fNodes ls))

end GM.Proof.CMFrag
