/-
  GM.Proof.QuoteSimFenced — one-line-step simulation of the fenced code block parser (parser/fcode_block.go).

  * `fencedOpen_sim : OpenSim src .fenced`, `fencedClose_sim : CloseSim src .fenced` — for all related states.
  * `fencedContinue_sim'` — `ContinueSim src .fenced` under two named hypotheses; the unrestricted statement is
    not true:
      - `FenceOK sA` (`0 ≤ fdata.indent`): with a negative remembered indent IndentPositionPadding answers a positive
        padding (`0 - width`), so the reader gets a padding and leaves `R3`;
      - `hns` (the peeked line has a byte that is no space; implied by "a line is there and it ends with `\n`",
        `fencedContinue_sim_nl`): on a last line without `\n` that consists of exactly `fdata.indent` spaces the
        Go code calls `AdvanceAndSetPadding(-1, 0)`, which moves the reader one byte BACK; and without a line
        (`p = src.length`) the same call is made with an empty peeked line.
    The closing-fence branch needs neither (it may end exactly at the end of a source without final `\n`).
  * `FenceOK` is kept by `fencedOpen` (which stores `blockOffset ≥ 0`), `fencedContinue` (does not write the
    context: `fencedContinue_pcPres`) and `fencedClose`.
-/
import GM.Proof.QuoteSimPara

namespace GM.Blocks
open GM GM.Text GM.Spec GM.Proof.Reader

theorem fencedClose_sim (src : Bytes) : CloseSim src .fenced := by
  intro k ls p node sA sB h
  show S2 _ (fencedClose node sA) (fencedClose (node + 1) sB)
  unfold fencedClose
  refine S2.bind (getPc_s2 h) (fun a b sA1 sB1 hq => ?_)
  obtain ⟨ha, hb, hc, h1, h2⟩ := hq
  subst h1 h2
  have hf := hc.fence
  cases hfa : a.fence with
  | none =>
    exact S2.throwL
  | some f =>
    rw [hfa] at hf
    rw [hf]
    simp only [Option.map, shF]
    have e : (f.node + 1 == node + 1) = (f.node == node) := by
      simp
    rw [e]
    by_cases hc' : (f.node == node) = true
    · rw [if_pos hc']
      exact modPc_s2 h _ _ (fun a b hab => { hab with fence := rfl })
    · rw [if_neg hc']
      exact S2.pure h

/-! ### helpers -/

/-- the same pure computation in both runs -/
theorem liftE_same_s2 {α} {e : Except Panic α} {sA sB : St} :
    S2 (fun a b sA' sB' => b = a ∧ e = .ok a ∧ sA' = sA ∧ sB' = sB) (liftE e sA) (liftE e sB) :=
  S2.liftE (fun a ha => ⟨a, ha, rfl, ha, rfl, rfl⟩)

theorem idx_ok_bounds {l : Bytes} {i : Int} {c : UInt8} (h : idx l i = .ok c) : 0 ≤ i ∧ i < l.length := by
  unfold idx getByte at h
  split at h
  · cases h
  · next h0 =>
    split at h
    · next b hb =>
      have := (List.getElem?_eq_some_iff.mp hb).1
      omega
    · cases h

theorem countLeading_le_fc (c : UInt8) (l : Bytes) : countLeading c l ≤ l.length := by
  unfold countLeading
  exact takeWhile_length_le _ _

theorem scanWhileEq_bounds_fc (line : Bytes) (c : UInt8) (i : Int) (h0 : 0 ≤ i) (h1 : i ≤ line.length) :
    i ≤ scanWhileEq line c i ∧ scanWhileEq line c i ≤ line.length := by
  unfold scanWhileEq
  rw [if_neg (by omega)]
  have := countLeading_le_fc c (line.drop i.toNat)
  simp only [List.length_drop] at this
  omega

theorem trimRightSpaceLength_le_fc (v : Bytes) : trimRightSpaceLength v ≤ v.length := by
  unfold trimRightSpaceLength
  have := takeWhile_length_le isSpace v.reverse
  simpa using this

theorem sliceFrom_ok_eq {l : Bytes} {a : Int} {r : Bytes} (h : sliceFrom l a = .ok r) :
    0 ≤ a ∧ a ≤ l.length ∧ r = l.drop a.toNat := by
  unfold sliceFrom at h
  split at h
  · next hc => cases h; exact ⟨hc.1, hc.2, rfl⟩
  · cases h

theorem viewA_length_fc {src : Bytes} {ls p : Nat} :
    (((viewA src ls p).getD []).length : Int) = if p < lineEnd src ls then (lineEnd src ls : Int) - p else 0 := by
  unfold viewA
  split
  · next h =>
    simp only [Option.getD_some]
    rw [length_sub src (lineEnd_le src ls)]
    omega
  · rfl

theorem nodeRel_fenced (src : Bytes) (iA iB : Option Segment) (hi : InfoRel src iA iB)
    (hne : ∀ i, iA = some i → i.start < i.stop) :
    NodeRel src false { kind := .fencedCodeBlock, info := iA } { kind := .fencedCodeBlock, info := iB } :=
  ⟨rfl, rfl, rfl, trivial, rfl, rfl, rfl, rfl, rfl, rfl, rfl, hi, .inl ⟨by show (-1 : Int) < 0; decide, rfl⟩,
    (fun _ l hl => by cases hl), hne, (fun h => absurd h (by show ¬ (0 : Int) ≤ -1; decide)), (fun _ _ => rfl)⟩

/-- the common tail of `fencedOpen`: allocate the node, remember the fence -/
theorem fencedOpen_tail {src k ls p} {sA sB : St} (h : SR src k ls p sA sB) (iA iB : Option Segment)
    (hi : InfoRel src iA iB) (hne : ∀ i, iA = some i → i.start < i.stop) (c : UInt8) (ind len : Int) :
    S2 (fun a b sA' sB' => OpenRel a b ∧ ∃ p', p ≤ p' ∧ SR src k ls p' sA' sB')
      ((do
        let node ← newNode { kind := .fencedCodeBlock, info := iA }
        modPc fun pc => { pc with fence := some { char := c, indent := ind, length := len, node := node } }
        pure (some node, stNoChildren) : M (Option Nat × PState)) sA)
      ((do
        let node ← newNode { kind := .fencedCodeBlock, info := iB }
        modPc fun pc => { pc with fence := some { char := c, indent := ind, length := len, node := node } }
        pure (some node, stNoChildren) : M (Option Nat × PState)) sB) := by
  refine S2.bind (newNode_s2 h _ _ (nodeRel_fenced src iA iB hi hne)) (fun n m sA1 sB1 hq => ?_)
  obtain ⟨_, hm, hn0, h1⟩ := hq
  subst hm
  refine S2.bind (modPc_s2 h1 _ _ (fun a b hab => ?_)) (fun _ _ sA2 sB2 h2 => ?_)
  · exact { hab with fence := by simp [shF] }
  · exact S2.pure ⟨⟨rfl, .inr ⟨n, hn0, rfl, rfl⟩⟩, p, Nat.le_refl _, h2⟩

theorem fencedOpen_sim (src : Bytes) : OpenSim src .fenced := by
  intro k ls p parent sA sB h
  show S2 _ (fencedOpen parent sA) (fencedOpen (parent + 1) sB)
  unfold fencedOpen
  refine S2.bind (peekLine_s2 h) (fun a b sA1 sB1 hq => ?_)
  obtain ⟨ha, hb, h1⟩ := hq
  subst ha hb
  simp only
  refine S2.bind (getPc_s2 h1) (fun a b sA2 sB2 hq => ?_)
  obtain ⟨ha, hb, hc, e1, e2⟩ := hq
  subst e1 e2
  rw [hc.blockOffset]
  generalize a.blockOffset = pos
  by_cases hp0 : pos < 0
  · rw [if_pos hp0, if_pos hp0]
    exact S2.pure ⟨⟨rfl, .inl ⟨rfl, rfl⟩⟩, p, Nat.le_refl _, h1⟩
  rw [if_neg hp0, if_neg hp0]
  refine S2.bind liftE_same_s2 (fun c c' sA3 sB3 hq => ?_)
  obtain ⟨hc', hidx, e1, e2⟩ := hq
  subst hc' e1 e2
  have hret : ∀ (sA sB : St), SR src k ls p sA sB →
      S2 (fun a b sA' sB' => OpenRel a b ∧ ∃ p', p ≤ p' ∧ SR src k ls p' sA' sB')
        ((pure (none, stNoChildren) : M (Option Nat × PState)) sA)
        ((pure (none, stNoChildren) : M (Option Nat × PState)) sB) :=
    fun sA sB hh => S2.pure ⟨⟨rfl, .inl ⟨rfl, rfl⟩⟩, p, Nat.le_refl _, hh⟩
  have hi := h.r.inl
  obtain ⟨hpos0, hposlt⟩ := idx_ok_bounds hidx
  have hlen := @viewA_length_fc src ls p
  have hplt : p < lineEnd src ls := by
    rcases Nat.lt_or_ge p (lineEnd src ls) with h' | h'
    · exact h'
    · exfalso; rw [if_neg (by omega)] at hlen; omega
  rw [if_pos hplt] at hlen
  generalize (viewA src ls p).getD [] = line at *
  obtain ⟨hi1, hi2⟩ := scanWhileEq_bounds_fc line c' pos hpos0 (by omega)
  generalize scanWhileEq line c' pos = i at *
  by_cases hc1 : (c' != 96 && c' != 126) = true
  · rw [if_pos hc1, if_pos hc1]; exact hret _ _ h1
  rw [if_neg hc1, if_neg hc1]
  by_cases hc2 : i - pos < 3
  · rw [if_pos hc2, if_pos hc2]; exact hret _ _ h1
  rw [if_neg hc2, if_neg hc2]
  by_cases hc3 : i < (line.length : Int) - 1
  rotate_left
  · rw [if_neg hc3, if_neg hc3]
    exact fencedOpen_tail h1 none none trivial (fun i hi => by cases hi) _ _ _
  rw [if_pos hc3, if_pos hc3]
  refine S2.bind liftE_same_s2 (fun rest0 rest sA4 sB4 hq => ?_)
  obtain ⟨hr', hrest, e1, e2⟩ := hq
  subst hr' e1 e2
  obtain ⟨_, _, hrest⟩ := sliceFrom_ok_eq hrest
  have hrl : (rest.length : Int) = line.length - i := by
    rw [hrest, List.length_drop]; omega
  have hleft := trimLeftSpaceLength_le rest
  have hright := trimRightSpaceLength_le_fc rest
  generalize trimLeftSpaceLength rest = left at *
  generalize trimRightSpaceLength rest = right at *
  by_cases hc4 : (left : Int) < (rest.length : Int) - right
  rotate_left
  · rw [if_neg hc4, if_neg hc4]
    exact fencedOpen_tail h1 none none trivial (fun i hi => by cases hi) _ _ _
  rw [if_pos hc4, if_pos hc4]
  refine S2.bind liftE_same_s2 (fun value0 value sA5 sB5 hq => ?_)
  obtain ⟨hv', _, e1, e2⟩ := hq
  subst hv' e1 e2
  by_cases hc5 : (c' == 96 && List.contains value 96) = true
  · rw [if_pos hc5, if_pos hc5]; exact hret _ _ h1
  rw [if_neg hc5, if_neg hc5]
  have hneA : ((segA src ls p).start - (segA src ls p).padding + i + (left : Int) !=
      (segA src ls p).stop - (right : Int)) = true := by
    simp only [segA, bne_iff_ne, ne_eq]; omega
  have hneB : ((shK k (segA src ls p)).start - (shK k (segA src ls p)).padding + i + (left : Int) !=
      (shK k (segA src ls p)).stop - (right : Int)) = true := by
    simp only [segA, shK, bne_iff_ne, ne_eq]; omega
  rw [if_pos hneA, if_pos hneB]
  have hge := hi.ge
  refine fencedOpen_tail h1 _ _ ?_ (fun j hj => ?_) _ _ _
  rotate_left
  · cases hj
    simp only [segA]; omega
  show SegRel src _ _
  refine ⟨k, ls, hi.line, ?_, ?_, ?_, ?_⟩
  · simp only [segA]; omega
  · simp only [segA]; omega
  · simp only [segA]; omega
  · simp only [shK, segA, Segment.mk.injEq, and_true]; omega

/-! ### `fencedContinue` -/

/-- the continuing branch of `fencedContinue` (fcode_block.go:91-106) -/
def fencedRest (node : Nat) (line : Bytes) (segment : Segment) (fdata : FenceData) (lo : Int) : M PState := do
  let (pos, padding) := indentPositionPadding line lo segment.padding fdata.indent
  let (pos, padding) :=
    if pos < 0 then
      let p := firstNonSpacePos line - segment.padding
      ((if p < 0 then 0 else p), (0 : Int))
    else (pos, padding)
  let seg : Segment := { start := segment.start + pos, stop := segment.stop, padding := padding }
  let seg ← if padding != 0 then preserveLeadingTab seg fdata.indent else pure seg
  let seg := { seg with forceNewline := true }
  appendLine node seg
  advanceAndSetPadding (segment.stop - segment.start - pos - 1) padding
  return stContinueNoChildren

/-- the position and the padding the continuing branch works with (fcode_block.go:91-98) -/
def fencedPos (line : Bytes) (lo pad indent : Int) : Int × Int :=
  let r := indentPositionPadding line lo pad indent
  if r.1 < 0 then
    let p := firstNonSpacePos line - pad
    ((if p < 0 then 0 else p), (0 : Int))
  else r

/-- fcode_block.go:99-106 -/
def fencedRest2 (node : Nat) (segment : Segment) (fdata : FenceData) (x : Int × Int) : M PState := do
  let seg : Segment := { start := segment.start + x.1, stop := segment.stop, padding := x.2 }
  let seg ← if x.2 != 0 then preserveLeadingTab seg fdata.indent else pure seg
  let seg := { seg with forceNewline := true }
  appendLine node seg
  advanceAndSetPadding (segment.stop - segment.start - x.1 - 1) x.2
  return stContinueNoChildren

theorem fencedRest_eq (node : Nat) (line : Bytes) (segment : Segment) (fdata : FenceData) (lo : Int) :
    fencedRest node line segment fdata lo =
      fencedRest2 node segment fdata (fencedPos line lo segment.padding fdata.indent) := by
  rfl

/-- `fencedContinue` with its join point named -/
theorem fencedContinue_eq_qs (node : Nat) : fencedContinue node = (do
    let (line, segment) ← peekLine
    let line := line.getD []
    let len : Int := line.length
    let fdata ← match (← getPc).fence with
      | some f => pure f
      | none => throw .assert
    let lo ← lineOffset
    let (w, pos) := indentWidthI line lo
    if w < 4 then
      let i := scanWhileEq line fdata.char pos
      let length := i - pos
      if length ≥ fdata.length then
        if isBlank (← liftE (sliceFrom line i)) then
          let last ← liftE (idx line (len - 1))
          let newline : Int := if last != 10 then 0 else 1
          advance (segment.stop - segment.start - newline + segment.padding)
          return stClose
        else fencedRest node line segment fdata lo
      else fencedRest node line segment fdata lo
    else fencedRest node line segment fdata lo) := by
  rfl

theorem firstNonSpacePosition_bounds_qs : ∀ (bs : Bytes) (i j : Nat), firstNonSpacePosition bs i = some j →
    i ≤ j ∧ j < i + bs.length := by
  intro bs
  induction bs with
  | nil => intro i j h; simp [firstNonSpacePosition] at h
  | cons b bs ih =>
    intro i j h
    unfold firstNonSpacePosition at h
    split at h
    · have := ih _ _ h
      simp only [List.length_cons]; omega
    · split at h
      · cases h
      · cases h; simp only [List.length_cons]; omega

theorem firstNonSpacePos_bounds (bs : Bytes) : -1 ≤ firstNonSpacePos bs ∧ (0 ≤ firstNonSpacePos bs → firstNonSpacePos bs < bs.length) := by
  unfold firstNonSpacePos
  split
  · next i hi =>
    have := firstNonSpacePosition_bounds_qs bs 0 i hi
    omega
  · omega

/-- on a tab-free line with a byte that is no space the loop of IndentPositionPadding stops inside the line -/
theorem ippLoop_tf_lt (cur width : Int) : ∀ (bs : Bytes) (i w : Int), (∀ c ∈ bs, c ≠ 9) → (∃ c ∈ bs, c ≠ 32) →
    (ippLoop cur width bs i 0 w).1 < i + bs.length := by
  intro bs
  induction bs with
  | nil => intro i w _ hns; obtain ⟨c, hc, _⟩ := hns; cases hc
  | cons b bs ih =>
    intro i w h hns
    have hb : (b == 9) = false := by
      have := h b (by simp); simpa using this
    unfold ippLoop
    simp only [hb, Bool.false_and, Bool.false_eq_true, if_false, Int.lt_irrefl]
    split
    · next hc =>
      simp only [Bool.and_eq_true, beq_iff_eq, decide_eq_true_eq] at hc
      have hns' : ∃ c ∈ bs, c ≠ 32 := by
        obtain ⟨c, hc1, hc2⟩ := hns
        rcases List.mem_cons.mp hc1 with e | e
        · exact absurd (e.trans hc.1) hc2
        · exact ⟨c, e, hc2⟩
      have := ih (i + 1) (w + 1) (fun c hc => h c (by simp [hc])) hns'
      simp only [List.length_cons]; omega
    · simp only [List.length_cons]; omega

/-- the position and padding `fencedContinue` continues with: inside the line, no padding -/
theorem fencedPos_tf (line : Bytes) (htf : ∀ c ∈ line, c ≠ 9) (hns : ∃ c ∈ line, c ≠ 32) (cur width : Int)
    (hw : 0 ≤ width) :
    (fencedPos line cur 0 width).2 = 0 ∧ 0 ≤ (fencedPos line cur 0 width).1 ∧
      (fencedPos line cur 0 width).1 < line.length := by
  have hlen : 0 < line.length := by
    obtain ⟨c, hc, _⟩ := hns
    exact List.length_pos_of_mem hc
  have hf := firstNonSpacePos_bounds line
  unfold fencedPos
  simp only
  split
  · simp only
    split <;> refine ⟨?_, ?_, ?_⟩ <;> first | trivial | omega
  · next hge =>
    revert hge
    unfold indentPositionPadding
    split
    · intro _; simp only; refine ⟨?_, ?_, ?_⟩ <;> first | trivial | omega
    · have h1 := ippLoop_tf_le cur width line 0 0 htf hw
      have h2 := ippLoop_tf_lt cur width line 0 0 htf hns
      simp only
      split
      · intro _; simp only; refine ⟨?_, ?_, ?_⟩ <;> first | trivial | omega
      · intro hge; simp only at hge; omega

theorem fencedPos_col (line : Bytes) (htf : ∀ c ∈ line, c ≠ 9) (cur cur' pad width : Int) :
    fencedPos line cur pad width = fencedPos line cur' pad width := by
  unfold fencedPos
  rw [indentPositionPadding_tf line htf cur cur']

theorem viewA_tf_fc {src : Bytes} (tf : ∀ c ∈ src, c ≠ 9) (ls p : Nat) : ∀ c ∈ (viewA src ls p).getD [], c ≠ 9 := by
  unfold viewA
  split
  · exact sub_tf tf _ _
  · intro c hc; cases hc

/-- the continuing branch: `hind` — the fence is not indented negatively (it is the `blockOffset` of the opening
    line); `hns` — the rest of the line has a byte that is no space (e.g. its `\n`) -/
theorem fencedRest_s2 {src k ls p} {sA sB : St} (h : SR src k ls p sA sB) (node : Nat) (f : FenceData)
    (loA loB : Int) (hind : 0 ≤ f.indent) (hns : ∃ c ∈ (viewA src ls p).getD [], c ≠ 32) :
    S2 (fun a b sA' sB' => b = a ∧ ∃ p', p ≤ p' ∧ SR src k ls p' sA' sB')
      (fencedRest node ((viewA src ls p).getD []) (segA src ls p) f loA sA)
      (fencedRest (node + 1) ((viewA src ls p).getD []) (shK k (segA src ls p)) (shF f) loB sB) := by
  have hi := h.r.inl
  have htf := viewA_tf_fc h.r.tf ls p
  have hlen := @viewA_length_fc src ls p
  have hplt : p < lineEnd src ls := by
    rcases Nat.lt_or_ge p (lineEnd src ls) with h' | h'
    · exact h'
    · exfalso
      obtain ⟨c, hc, _⟩ := hns
      simp [viewA, Nat.not_lt.mpr h'] at hc
  rw [if_pos hplt] at hlen
  rw [fencedRest_eq, fencedRest_eq]
  have e0 : (shK k (segA src ls p)).padding = 0 := rfl
  have e1 : (segA src ls p).padding = 0 := rfl
  have e2 : (shF f).indent = f.indent := rfl
  rw [e0, e1, e2, fencedPos_col _ htf loB loA]
  obtain ⟨x2, x0, x1⟩ := fencedPos_tf _ htf hns loA f.indent hind
  generalize fencedPos ((viewA src ls p).getD []) loA 0 f.indent = x at *
  obtain ⟨pos, pad⟩ := x
  simp only at x2 x0 x1
  subst x2
  unfold fencedRest2
  simp only [shK, segA]
  rw [if_neg (by decide), if_neg (by decide)]
  simp only [pure_bind]
  have hge := hi.ge
  have hseg : SegRel src { start := (p : Int) + pos, stop := (lineEnd src ls : Int), padding := 0, forceNewline := true }
      { start := (p : Int) + 2 * ((k : Int) + 1) + pos, stop := (lineEnd src ls : Int) + 2 * ((k : Int) + 1),
        padding := 0, forceNewline := true } := by
    refine ⟨k, ls, hi.line, ?_, ?_, ?_, ?_⟩
    · simp only; omega
    · simp only; omega
    · simp only; omega
    · simp only [shK, Segment.mk.injEq, and_true]; omega
  refine S2.bind (appendLine_s2 h node hseg (.inl (by simp only; omega))) (fun _ _ sA1 sB1 h1 => ?_)
  refine S2.bind (advanceAndSetPadding_s2 h1 (by omega) rfl (by omega) (Int.le_refl _) ?_) (fun _ _ sA2 sB2 h2 => ?_)
  · refine ⟨hi.line, by omega, by omega, fun e => ?_⟩
    exfalso; omega
  · exact S2.pure ⟨rfl, _, Nat.le_add_right _ _, h2⟩

/-- the last byte of the peeked line is the last byte of line `k` -/
theorem idx_last_viewA {src : Bytes} {ls p : Nat} {last : UInt8}
    (h : idx ((viewA src ls p).getD []) ((((viewA src ls p).getD []).length : Int) - 1) = .ok last) :
    p < lineEnd src ls ∧ src[lineEnd src ls - 1]? = some last := by
  obtain ⟨h0, _⟩ := idx_ok_bounds h
  have hlen := @viewA_length_fc src ls p
  have hplt : p < lineEnd src ls := by
    rcases Nat.lt_or_ge p (lineEnd src ls) with h' | h'
    · exact h'
    · exfalso; rw [if_neg (by omega)] at hlen; omega
  refine ⟨hplt, ?_⟩
  rw [if_pos hplt] at hlen
  unfold idx getByte at h
  rw [if_neg (by omega)] at h
  split at h
  · next b hb =>
    cases h
    have hv : (viewA src ls p).getD [] = sub src p (lineEnd src ls) := by simp [viewA, hplt]
    rw [hv] at hb hlen
    rw [sub_getElem?, if_pos (by omega)] at hb
    rw [← hb]
    congr 1
    omega
  · cases h

theorem S2.andL_fc {α β} {P : α → β → St → St → Prop} {R : α → St → Prop} {x : Except Panic (α × St)}
    {y : Except Panic (β × St)} (h : S2 P x y) (hr : ∀ a sA, x = .ok (a, sA) → R a sA) :
    S2 (fun a b sA sB => P a b sA sB ∧ R a sA) x y := by
  intro a sA e
  obtain ⟨b, sB, h1, h2⟩ := h a sA e
  exact ⟨b, sB, h1, h2, hr a sA e⟩

theorem S2.throwBindL {α α' β} {Q : α' → β → St → St → Prop} {e : Panic} {f : α → M α'} {sA : St}
    {y : Except Panic (β × St)} : S2 Q (((throw e : M α) >>= f) sA) y := by
  show S2 Q (Except.error e) y
  exact S2.err

theorem peekLine_pc {s s' : St} {x : Option Bytes × Segment} (h : peekLine s = .ok (x, s')) : s'.pc = s.pc := by
  unfold GM.Blocks.peekLine at h
  cases hr : s.r.peekLine with
  | error e => rw [hr] at h; cases h
  | ok v =>
    rw [hr] at h
    cases h
    rfl

theorem lineOffset_pc {s s' : St} {x : Int} (h : lineOffset s = .ok (x, s')) : s'.pc = s.pc := by
  unfold GM.Blocks.lineOffset at h
  cases hr : s.r.lineOffsetOp with
  | error e => rw [hr] at h; cases h
  | ok v =>
    rw [hr] at h
    cases h
    rfl

/-- the remembered fence is not indented negatively -/
def FenceOK (s : St) : Prop := ∀ f, s.pc.fence = some f → 0 ≤ f.indent

/-- `fencedContinue` is simulated, under two named hypotheses:
    `hind : FenceOK sA` — the remembered fence is not indented negatively (`fdata.indent` is the `blockOffset` of the opening
    line, which `fencedOpen` only stores when it is `≥ 0`; with a negative value IndentPositionPadding would ask for
    a positive padding);
    `hns` — the rest of the current line has a byte that is no space (for instance its `\n`): on a last line
    without `\n` that consists of exactly `fdata.indent` spaces the Go code calls `Advance(-1)`. -/
theorem fencedContinue_sim' (src : Bytes) : ∀ k ls p node sA sB, SR src k ls p sA sB →
    FenceOK sA →
    (∃ c ∈ (viewA src ls p).getD [], c ≠ 32) →
    S2 (fun a b sA' sB' => b = a ∧ ∃ p', p ≤ p' ∧ SR src k ls p' sA' sB')
      (bpContinue .fenced node sA) (bpContinue .fenced (node + 1) sB) := by
  intro k ls p node sA sB h hind hns
  show S2 _ (fencedContinue node sA) (fencedContinue (node + 1) sB)
  rw [fencedContinue_eq_qs, fencedContinue_eq_qs]
  refine S2.bind ((peekLine_s2 h).andL_fc (R := fun _ sA' => sA'.pc = sA.pc) (fun a sA' e => peekLine_pc e))
    (fun a b sA1 sB1 hq => ?_)
  obtain ⟨⟨ha, hb, h1⟩, hpc1⟩ := hq
  subst ha hb
  simp only
  refine S2.bind (getPc_s2 h1) (fun a b sA2 sB2 hq => ?_)
  obtain ⟨ha, hb, hc, e1, e2⟩ := hq
  subst e1 e2
  have hf := hc.fence
  cases hfa : a.fence with
  | none =>
    simp only
    exact S2.throwBindL
  | some f =>
    rw [hfa] at hf
    rw [hf]
    simp only [Option.map, pure_bind]
    have hind' : 0 ≤ f.indent := hind f (by rw [← hpc1, ← ha]; exact hfa)
    refine S2.bind (lineOffset_s2 h1) (fun loA loB sA3 sB3 hq => ?_)
    obtain ⟨_, h3⟩ := hq
    have htf := viewA_tf_fc h.r.tf ls p
    have ec : (shF f).char = f.char := rfl
    have el : (shF f).length = f.length := rfl
    rw [ec, el, indentWidthI_tf _ htf loB loA]
    have hrest := fun (sA' sB' : St) (hh : SR src k ls p sA' sB') =>
      fencedRest_s2 hh node f loA loB hind' hns
    generalize indentWidthI ((viewA src ls p).getD []) loA = wp
    generalize scanWhileEq ((viewA src ls p).getD []) f.char wp.snd = i
    by_cases hc1 : wp.fst < 4
    rotate_left
    · rw [if_neg hc1, if_neg hc1]; exact hrest _ _ h3
    rw [if_pos hc1, if_pos hc1]
    by_cases hc2 : i - wp.snd ≥ f.length
    rotate_left
    · rw [if_neg hc2, if_neg hc2]; exact hrest _ _ h3
    rw [if_pos hc2, if_pos hc2]
    refine S2.bind liftE_same_s2 (fun r0 r sA4 sB4 hq => ?_)
    obtain ⟨hr', _, e1, e2⟩ := hq
    subst hr' e1 e2
    by_cases hc3 : isBlank r = true
    rotate_left
    · rw [if_neg hc3, if_neg hc3]; exact hrest _ _ h3
    rw [if_pos hc3, if_pos hc3]
    refine S2.bind liftE_same_s2 (fun l0 last sA5 sB5 hq => ?_)
    obtain ⟨hl', hlast, e1, e2⟩ := hq
    subst hl' e1 e2
    obtain ⟨hplt, hlb⟩ := idx_last_viewA hlast
    have hi := h.r.inl
    have hge := hi.ge
    have hle := lineEnd_le src ls
    have hnl : ((if (last != 10) = true then 0 else 1 : Int) = 0 ∧ last ≠ 10) ∨
        ((if (last != 10) = true then 0 else 1 : Int) = 1 ∧ last = 10) := by
      by_cases h10 : last = 10
      · right; subst h10; exact ⟨rfl, rfl⟩
      · left; rw [if_pos (by simpa using h10)]; exact ⟨rfl, h10⟩
    generalize (if (last != 10) = true then 0 else 1 : Int) = nl at *
    refine S2.bind (advance_s2 h3 (n := (lineEnd src ls : Int) - p - nl + 0) (by simp only [shK, segA]; omega)
      (by omega) ?_) (fun _ _ sA6 sB6 h6 => ?_)
    · refine ⟨hi.line, by omega, by omega, fun e => ?_⟩
      rcases hnl with ⟨e0, hne⟩ | ⟨e1, _⟩
      · rw [hlb]
        refine ⟨?_, by simpa using hne⟩
        rcases Nat.lt_or_ge (lineEnd src ls) src.length with hlt | hge'
        · have := line_ends_nl hi.line.lt hlt
          rw [hlb] at this
          exact absurd (Option.some.inj this) hne
        · omega
      · exfalso; omega
    · exact S2.pure ⟨rfl, _, Nat.le_add_right _ _, h6⟩

/-- a line that ends with `\n` has a byte that is no space behind every position in it -/
theorem hns_of_nl {src : Bytes} {k ls p : Nat} (hi : InL src k ls p) (hline : p < src.length)
    (hnl : src[lineEnd src ls - 1]? = some 10) : ∃ c ∈ (viewA src ls p).getD [], c ≠ 32 := by
  have hplt := hi.lt_iff.mp hline
  have hle := lineEnd_le src ls
  refine ⟨10, ?_, by decide⟩
  have hv : (viewA src ls p).getD [] = sub src p (lineEnd src ls) := by simp [viewA, hplt]
  rw [hv]
  have : (sub src p (lineEnd src ls))[lineEnd src ls - 1 - p]? = some 10 := by
    rw [sub_getElem?, if_pos (by omega), ← hnl]
    congr 1
    omega
  exact List.mem_of_getElem? this

/-- `fencedContinue_sim'` with the hypotheses in the form the driver has them: a line is there (`hline`) and it
    ends with `\n` (`hnl`) -/
theorem fencedContinue_sim_nl (src : Bytes) : ∀ k ls p node sA sB, SR src k ls p sA sB →
    FenceOK sA →
    p < src.length → src[lineEnd src ls - 1]? = some 10 →
    S2 (fun a b sA' sB' => b = a ∧ ∃ p', p ≤ p' ∧ SR src k ls p' sA' sB')
      (bpContinue .fenced node sA) (bpContinue .fenced (node + 1) sB) :=
  fun k ls p node sA sB h hind hline hnl =>
    fencedContinue_sim' src k ls p node sA sB h hind (hns_of_nl h.r.inl hline hnl)

/-! ### the parse context under the fenced parser: `FenceOK` is an invariant -/

/-- `m` does not write the parse context -/
def PcPres {α} (m : M α) : Prop := ∀ s a s', m s = .ok (a, s') → s'.pc = s.pc

theorem pcPres_bind {α β} {m : M α} {f : α → M β} (hm : PcPres m) (hf : ∀ a, PcPres (f a)) : PcPres (m >>= f) := by
  intro s b s' e
  change StateT.bind m f s = _ at e
  unfold StateT.bind at e
  cases hA : m s with
  | error e1 => rw [hA] at e; cases e
  | ok x =>
    obtain ⟨a, s1⟩ := x
    rw [hA] at e
    exact (hf a s1 b s' e).trans (hm s a s1 hA)

theorem pcPres_pure {α} (a : α) : PcPres (Pure.pure a : M α) := by
  intro s b s' e; cases e; rfl

theorem pcPres_throwBind {α β} (e : Panic) (f : α → M β) : PcPres ((throw e : M α) >>= f) := by
  intro s b s' h
  change Except.error e = _ at h
  cases h

theorem pcPres_ite {α} {c : Prop} [Decidable c] {x y : M α} (hx : PcPres x) (hy : PcPres y) :
    PcPres (if c then x else y) := by
  split
  · exact hx
  · exact hy

theorem pcPres_liftE {α} (e : Except Panic α) : PcPres (liftE e) := by
  intro s a s' h
  unfold GM.Blocks.liftE at h
  cases e with
  | error x => cases h
  | ok v => cases h; rfl

theorem pcPres_peekLine : PcPres peekLine := fun _ _ _ h => peekLine_pc h
theorem pcPres_lineOffset : PcPres lineOffset := fun _ _ _ h => lineOffset_pc h
theorem pcPres_getPc : PcPres getPc := by intro s a s' h; cases h; rfl
theorem pcPres_position : PcPres position := by intro s a s' h; cases h; rfl
theorem pcPres_setPosition (l : Int) (p : Segment) : PcPres (setPosition l p) := by intro s a s' h; cases h; rfl
theorem pcPres_modNode (id : Nat) (f : Node → Node) : PcPres (modNode id f) := by intro s a s' h; cases h; rfl
theorem pcPres_newNode (n : Node) : PcPres (newNode n) := by intro s a s' h; cases h; rfl

theorem pcPres_advance (n : Int) : PcPres (advance n) := by
  intro s a s' h
  unfold GM.Blocks.advance at h
  cases hr : s.r.advance n with
  | error e => rw [hr] at h; cases h
  | ok v => rw [hr] at h; cases h; rfl

theorem pcPres_advanceAndSetPadding (n p : Int) : PcPres (advanceAndSetPadding n p) := by
  intro s a s' h
  unfold GM.Blocks.advanceAndSetPadding at h
  cases hr : s.r.advanceAndSetPadding n p with
  | error e => rw [hr] at h; cases h
  | ok v => rw [hr] at h; cases h; rfl

theorem pcPres_preserveLeadingTab (seg : Segment) (indent : Int) : PcPres (preserveLeadingTab seg indent) := by
  unfold GM.Blocks.preserveLeadingTab
  refine pcPres_bind pcPres_lineOffset (fun _ => ?_)
  refine pcPres_bind pcPres_position (fun x => ?_)
  obtain ⟨sl, ss⟩ := x
  simp only
  refine pcPres_bind (pcPres_setPosition _ _) (fun _ => ?_)
  refine pcPres_bind pcPres_lineOffset (fun _ => ?_)
  refine pcPres_bind (pcPres_setPosition _ _) (fun _ => ?_)
  exact pcPres_pure _

theorem pcPres_fencedRest2 (node : Nat) (segment : Segment) (f : FenceData) (x : Int × Int) :
    PcPres (fencedRest2 node segment f x) := by
  unfold GM.Blocks.fencedRest2
  have htail : ∀ seg : Segment, PcPres (do
      appendLine node { start := seg.start, stop := seg.stop, padding := seg.padding, forceNewline := true }
      advanceAndSetPadding (segment.stop - segment.start - x.fst - 1) x.snd
      Pure.pure stContinueNoChildren : M PState) := by
    intro seg
    refine pcPres_bind (pcPres_modNode _ _) (fun _ => ?_)
    refine pcPres_bind (pcPres_advanceAndSetPadding _ _) (fun _ => ?_)
    exact pcPres_pure _
  simp only
  split
  · exact pcPres_bind (pcPres_preserveLeadingTab _ _) (fun _ => htail _)
  · exact pcPres_bind (pcPres_pure _) (fun _ => htail _)

/-- `fencedContinue` does not write the parse context -/
theorem fencedContinue_pcPres (node : Nat) : PcPres (fencedContinue node) := by
  rw [fencedContinue_eq_qs]
  refine pcPres_bind pcPres_peekLine (fun x => ?_)
  obtain ⟨line, segment⟩ := x
  simp only
  refine pcPres_bind pcPres_getPc (fun pc => ?_)
  have hrest : ∀ f lo, PcPres (fencedRest node (line.getD []) segment f lo) := by
    intro f lo; rw [fencedRest_eq]; exact pcPres_fencedRest2 _ _ _ _
  cases pc.fence with
  | none => exact pcPres_throwBind _ _
  | some f =>
    simp only [pure_bind]
    refine pcPres_bind pcPres_lineOffset (fun lo => ?_)
    refine pcPres_ite (pcPres_ite ?_ (hrest _ _)) (hrest _ _)
    refine pcPres_bind (pcPres_liftE _) (fun r => ?_)
    refine pcPres_ite ?_ (hrest _ _)
    refine pcPres_bind (pcPres_liftE _) (fun r => ?_)
    refine pcPres_bind (pcPres_advance _) (fun _ => ?_)
    exact pcPres_pure _

/-! ### the invariant `hind` of `fencedContinue_sim'` asks for -/

/-- unary version of `S2`: a postcondition for runs that end normally -/
def H1 {α : Type} (Q : α → St → Prop) (x : Except Panic (α × St)) : Prop := ∀ a s, x = .ok (a, s) → Q a s

theorem H1_bind {α β} {P : α → St → Prop} {Q : β → St → Prop} {m : M α} {f : α → M β} {s : St}
    (hm : H1 P (m s)) (hf : ∀ a s', P a s' → H1 Q (f a s')) : H1 Q ((m >>= f) s) := by
  intro b s' e
  change StateT.bind m f s = _ at e
  unfold StateT.bind at e
  cases hA : m s with
  | error e1 => rw [hA] at e; cases e
  | ok x =>
    obtain ⟨a, s1⟩ := x
    rw [hA] at e
    exact hf a s1 (hm a s1 hA) b s' e

theorem H1_pure {α} {Q : α → St → Prop} {a : α} {s : St} (h : Q a s) : H1 Q ((Pure.pure a : M α) s) := by
  intro b s' e; cases e; exact h

theorem H1_of_pcPres {α} {m : M α} (hm : PcPres m) {s : St} (h0 : FenceOK s) :
    H1 (fun _ s' => FenceOK s') (m s) := by
  intro a s' e f hf
  rw [hm s a s' e] at hf
  exact h0 f hf

theorem fencedOpen_tail_ok {s : St} (n : Node) (c : UInt8) (ind len : Int) (hind : 0 ≤ ind) :
    H1 (fun _ s' => FenceOK s')
      ((do
        let node ← newNode n
        modPc fun pc => { pc with fence := some { char := c, indent := ind, length := len, node := node } }
        Pure.pure (some node, stNoChildren) : M (Option Nat × PState)) s) := by
  intro a s' e
  cases e
  intro f hf
  cases hf
  exact hind

/-- `fencedOpen` keeps (in fact establishes) `FenceOK` -/
theorem fencedOpen_fenceOK {parent : Nat} {s s' : St} {r : Option Nat × PState}
    (h : fencedOpen parent s = .ok (r, s')) (h0 : FenceOK s) : FenceOK s' := by
  suffices hh : H1 (fun _ s' => FenceOK s') (fencedOpen parent s) from hh r s' h
  unfold fencedOpen
  refine H1_bind (H1_of_pcPres pcPres_peekLine h0) (fun x s1 h1 => ?_)
  simp only
  refine H1_bind (H1_of_pcPres pcPres_getPc h1) (fun pc s2 h2 => ?_)
  split
  · exact H1_pure h2
  next hpos =>
  refine H1_bind (H1_of_pcPres (pcPres_liftE _) h2) (fun c s3 h3 => ?_)
  split
  · exact H1_pure h3
  split
  · exact H1_pure h3
  split
  · refine H1_bind (H1_of_pcPres (pcPres_liftE _) h3) (fun rest s4 h4 => ?_)
    split
    · refine H1_bind (H1_of_pcPres (pcPres_liftE _) h4) (fun value s5 h5 => ?_)
      split
      · exact H1_pure h5
      split
      · exact fencedOpen_tail_ok _ _ _ _ (by omega)
      · exact fencedOpen_tail_ok _ _ _ _ (by omega)
    · exact fencedOpen_tail_ok _ _ _ _ (by omega)
  · exact fencedOpen_tail_ok _ _ _ _ (by omega)

/-- `fencedClose` keeps `FenceOK` -/
theorem fencedClose_fenceOK {node : Nat} {s s' : St} {u : Unit}
    (h : fencedClose node s = .ok (u, s')) (h0 : FenceOK s) : FenceOK s' := by
  suffices hh : H1 (fun _ s' => FenceOK s') (fencedClose node s) from hh u s' h
  unfold fencedClose
  refine H1_bind (H1_of_pcPres pcPres_getPc h0) (fun pc s2 h2 => ?_)
  cases pc.fence with
  | none => intro a s3 e; cases e
  | some f =>
    simp only
    split
    · intro a s3 e
      cases e
      intro f hf
      cases hf
    · exact H1_pure h2

/-- `fencedContinue` keeps `FenceOK` -/
theorem fencedContinue_fenceOK {node : Nat} {s s' : St} {r : PState}
    (h : fencedContinue node s = .ok (r, s')) (h0 : FenceOK s) : FenceOK s' :=
  H1_of_pcPres (fencedContinue_pcPres node) h0 r s' h

end GM.Blocks
