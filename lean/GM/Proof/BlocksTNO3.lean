/-
  GM.Proof.BlocksTNO3 — GM.Proof.BlocksOrdDrv for the driver WITH paragraph transformers: the candidate loop
  `tryParsersT`, the `continuable:` exit, the `goto retry` loop `openBlocksLoopT` and `openBlocksT`, from a clean state,
  for two transformer lists that agree on guarded paragraphs (`Agree`), on a source without a setext underline
  (`NoSetextBar`: `setextOpen` declines, `requireParaT` is never entered, `.retryTransformed` is never answered).
-/
import GM.Proof.BlocksTNO2

namespace GM.Blocks.TO
open GM GM.Text GM.Spec GM.Proof.Reader
open GM.Proof.BlocksWF0 (isRaw)

theorem InvT.push {src : Bytes} {B : Int} {s : St} (hi : InvT src B s) (node : Nat) (bp : BP)
    (hk : (nd s node).kind = bp.kind) (hlt : node < s.nodes.length) (hsx : bp ≠ .setext) :
    InvT src B { s with pc := { s.pc with opened := s.pc.opened ++ [{ node := node, bp := bp }] } } :=
  ⟨hi.nrb, fun b hb => by
    rcases List.mem_append.1 hb with h | h
    · exact hi.nsx b h
    · simp only [List.mem_singleton] at h; rw [h]; exact hsx, hi.pnb, hi.tmpk, fun b hb => by
    rcases List.mem_append.1 hb with h | h
    · exact hi.kinds b h
    · simp only [List.mem_singleton] at h; rw [h]; exact ⟨hk, hlt⟩, hi.nodes⟩

section inv
variable {src : Bytes}

/-- the end of one successful attempt of the candidate loop (parser.go:1002-1013): `AppendChild`, push, answer -/
theorem tryTailBT_ord (parent node : Nat) (bp : BP) (hc : Bool) (lb' : Option Block) (s3 s' : St)
    (x : TryOutcomeT × OpenResult × Option Block)
    (hk : (nd s3 node).kind = bp.kind) (hlt : node < s3.nodes.length) (hsx : bp ≠ .setext)
    (e : (do
        appendChild parent node
        modPc fun pc => { pc with opened := pc.opened ++ [{ node := node, bp := bp }] }
        if hc = true then pure (TryOutcomeT.retry node, OpenResult.newBlocksOpened, lb')
          else pure (TryOutcomeT.done, OpenResult.newBlocksOpened, lb') : M _) s3 = .ok (x, s')) :
    (∀ B, InvT src B s3 → InvT src B s') ∧ s'.r = s3.r ∧
      x = (if hc = true then TryOutcomeT.retry node else TryOutcomeT.done, OpenResult.newBlocksOpened, lb') := by
  obtain ⟨_, s4, h4, k4⟩ := obind_ok e
  have hlk := appendChild_lk h4
  obtain ⟨_, s5, h5, k5⟩ := obind_ok k4
  have e5 := omodPc_ok h5
  subst s5
  obtain ⟨hk4, hlt4⟩ := nk_kg hlk.kg hk hlt
  have hx : x = (if hc = true then TryOutcomeT.retry node else TryOutcomeT.done, OpenResult.newBlocksOpened, lb') ∧
      s' = { s4 with pc := { s4.pc with opened := s4.pc.opened ++ [{ node := node, bp := bp }] } } := by
    split at k5
    · next h => obtain ⟨a, b⟩ := opure_ok k5; rw [if_pos h]; exact ⟨a, b⟩
    · next h => obtain ⟨a, b⟩ := opure_ok k5; rw [if_neg h]; exact ⟨a, b⟩
  obtain ⟨hx1, hx2⟩ := hx
  subst s'
  exact ⟨fun B hB => (hB.lk hlk).push node bp hk4 hlt4 hsx, hlk.r, hx1⟩

/-- `cont` was computed from the last opened block, which is a Paragraph -/
def ContOK (cont : Bool) (s : St) : Prop :=
  cont = true → ∃ lb, s.pc.opened.getLast? = some lb ∧ (nd s lb.node).kind = .paragraph

/-- **the `continuable:` exit** (parser.go:1016-1023) from a clean state -/
theorem toContinuableT_ord (L : Int) (cont : Bool) (result : OpenResult) (lbo : Option Block) (s : St) (c : RCur)
    (r' : OpenResult) (s' : St) (hc : CleanT src L s c)
    (hres : result = .noBlocksOpened → lbo = s.pc.opened.getLast? ∧ ContOK cont s)
    (h : toContinuable cont result lbo s = .ok (r', s')) : DirtyT src s' := by
  unfold toContinuable at h
  split at h
  · next hcond =>
    simp only [Bool.and_eq_true, beq_iff_eq] at hcond
    obtain ⟨hlbo, hck⟩ := hres hcond.1
    obtain ⟨lb, hlast, hkind⟩ := hck hcond.2
    rw [hlbo, hlast] at h
    dsimp only at h
    obtain ⟨st, s1, h1, k1⟩ := obind_ok h
    have hs' : s' = s1 := by
      split at k1
      · obtain ⟨_, hs⟩ := opure_ok k1; exact hs
      · obtain ⟨_, hs⟩ := opure_ok k1; exact hs
    subst s'
    have hmem := List.mem_of_getLast? hlast
    obtain ⟨hkb, hltb⟩ := hc.inv.kinds lb hmem
    have hbp : lb.bp = .paragraph := kind_paragraph (by rw [← hkb]; exact hkind)
    rw [hbp] at h1
    have h1' : paragraphContinue lb.node s = .ok (st, s1) := h1
    obtain ⟨r1, c1, hr1, hri1, hle1, hpc1, hcase⟩ := (paragraphContinue_line hc.ri lb.node).of_ok h1'
    have hstop : Stop src (lineEnd src c.p : Int) s1 := by
      have := (paragraphContinue_pres (stop_prims src (lineEnd src c.p : Int)) lb.node).h s hc.ri.stop
      rw [h1'] at this; exact this
    refine ⟨(lineEnd src c.p : Int), ?_, hstop⟩
    rcases hcase with ⟨_, hn, _⟩ | ⟨_, hp, hok, hnbs, hlt', hn⟩
    · exact ⟨fun i => by simp only [nd, hn]; exact hc.invE.nrb i, fun b hb => by rw [hpc1] at hb; exact hc.invE.nsx b hb,
        fun i => by simp only [nd, hn]; exact hc.invE.pnb i,
        fun t ht => by rw [hpc1] at ht; simp only [nd, hn]; exact hc.invE.tmpk t ht, fun b hb => by
          rw [hpc1] at hb; simp only [nd, hn]; exact hc.invE.kinds b hb, fun m hm => hc.invE.nodes m (by rw [← hn]; exact hm)⟩
    · -- the continuation line goes to a block whose lines all end at or before the line start
      have hge := lineEnd_ge src hc.ri.inRange
      have hfresh := hc.inv.nrb lb.node (by rw [hkind]; rfl)
      have hs1 : s1 = ⟨r1, s.nodes.set lb.node
          { (nd s lb.node) with lines := (nd s lb.node).lines ++ [RCur.seg src c], linesNil := false }, s.pc⟩ := by
        cases s1; simp only at hr1 hpc1 hn; subst hr1 hpc1 hn; rfl
      have hnd : ∀ i, nd s1 i = if i = lb.node then
          { (nd s lb.node) with lines := (nd s lb.node).lines ++ [RCur.seg src c], linesNil := false } else nd s i := by
        intro i
        have : nd s1 i = nd (upd s lb.node fun n => { n with lines := n.lines ++ [RCur.seg src c], linesNil := false }) i := by
          rw [hs1]; rfl
        rw [this, nd_upd]
        by_cases hi : i = lb.node
        · subst hi; simp [hltb]
        · have : ¬ (lb.node = i ∧ lb.node < s.nodes.length) := fun hh => hi hh.1.symm
          rw [if_neg this, if_neg hi]
      have hord : OrdFrom 0 ((nd s lb.node).lines ++ [RCur.seg src c]) ∧
          Below (lineEnd src c.p : Int) ((nd s lb.node).lines ++ [RCur.seg src c]) ∧
          ∀ t ∈ (nd s lb.node).lines ++ [RCur.seg src c], t.start < t.stop ∧ t.forceNewline = false :=
        ⟨OrdFrom.append_fresh (L := L) (by show L ≤ (c.p : Int); exact hc.le) hfresh.1 hfresh.2.1
            (by show (0 : Int) ≤ (c.p : Int); omega),
          hfresh.2.1.append (by have := hc.le; omega) (Int.le_refl _),
          fun t ht => by
            rcases List.mem_append.1 ht with h' | h'
            · exact hfresh.2.2 t h'
            · simp only [List.mem_singleton] at h'; rw [h']; exact ⟨hlt', rfl⟩⟩
      refine ⟨fun i hr => ?_, fun b hb => ?_, fun i hk => ?_, fun t ht => ?_, fun b hb => ?_, fun m hm => ?_⟩
      · rw [hnd] at hr ⊢
        split
        · exact hord
        · next hne => rw [if_neg hne] at hr; exact hc.invE.nrb i hr
      · rw [hpc1] at hb; exact hc.invE.nsx b hb
      · rw [hnd] at hk ⊢
        split
        · intro t ht
          rcases List.mem_append.1 ht with h' | h'
          · exact hc.inv.pnb lb.node hkind t h'
          · simp only [List.mem_singleton] at h'; rw [h']; exact hnbs
        · next hne => rw [if_neg hne] at hk; exact hc.invE.pnb i hk
      · rw [hpc1] at ht
        rw [hnd]; split
        · exact hkind
        · exact hc.inv.tmpk t ht
      · rw [hpc1] at hb
        obtain ⟨k1', k2'⟩ := hc.inv.kinds b hb
        refine ⟨?_, by rw [hs1]; simpa using k2'⟩
        rw [hnd]; split
        · next he => simp only; rw [← he]; exact k1'
        · exact k1'
      · obtain ⟨i, hil, rfl⟩ := mem_nodes_nd hm
        rw [hnd]
        split
        · refine ⟨fun u hu => ?_, fun hn0 => by cases hn0⟩
          rcases List.mem_append.1 hu with h' | h'
          · exact (nodeOK_nd hc.inv.nodes lb.node).lines u h'
          · simp only [List.mem_singleton] at h'; rw [h']; exact hok
        · exact nodeOK_nd hc.inv.nodes i
  · have h' : (pure result : M OpenResult) s = .ok (r', s') := h
    obtain ⟨_, hs⟩ := opure_ok h'
    subst s'
    exact hc.dirty

end inv

section tp
variable {src : Bytes} {pts1 pts2 : List PT} (hag : Agree src pts1 pts2) (hNB : GM.Blocks.L.B.NoSetextBar src)
include hag

/-- `closeBlocksT_eqv` for all bounds at once -/
theorem closeBlocksT_eqv_all {s : St} (frm to : Int) (hex : ∃ B, InvT src B s) (hsrc : s.r.source = src) :
    EQV (fun _ s' => (∀ B, InvT src B s → InvT src B s') ∧ s'.r = s.r ∧ (∀ b ∈ s'.pc.opened, b ∈ s.pc.opened) ∧ KG s s')
      (closeBlocksT pts1 frm to) (closeBlocksT pts2 frm to) s := by
  obtain ⟨B0, hB0⟩ := hex
  have h0 := closeBlocksT_eqv hag frm to hB0 hsrc
  refine ⟨h0.1, fun a s' e => ?_⟩
  obtain ⟨_, a2, a3, a4⟩ := h0.2 a s' e
  exact ⟨fun B hB => ((closeBlocksT_eqv hag frm to hB hsrc).2 a s' e).1, a2, a3, a4⟩

include hNB

/-- **the candidate loop** (parser.go:960-1014) from a clean state, with both transformer lists: nothing opened — still
    clean, same cursor, same store and stack; a leaf opened — `DirtyT`; a container opened — clean again, cursor further
    on. `.retryTransformed` is never answered. -/
theorem tryParsersT_eqv (L : Int) (parent : Nat) (blank cont : Bool) (w : Int) :
    ∀ (bps : List BP) (result : OpenResult) (lb : Option Block) (s : St) (c : RCur),
      CleanT src L s c → c.p < src.length → BoffOK src s c →
      EQV (fun x s' => DirtyT src s' ∧
        ((x.1 = .done ∧ x.2.1 = result ∧ CleanT src L s' c ∧ s'.nodes = s.nodes ∧ s'.pc.opened = s.pc.opened ∧
            s'.pc.blockOffset = s.pc.blockOffset ∧ (x.2.2 = lb ∨ x.2.2 = s.pc.opened.getLast?)) ∨
         (x.1 = .done ∧ x.2.1 = .newBlocksOpened) ∨
         (∃ p' c', x.1 = .retry p' ∧ x.2.1 = .newBlocksOpened ∧ CleanT src L s' c' ∧ c.p ≤ c'.p)))
        (tryParsersT pts1 parent blank cont w bps result lb) (tryParsersT pts2 parent blank cont w bps result lb) s := by
  intro bps
  induction bps with
  | nil =>
    intro result lb s c hc _ _
    unfold tryParsersT
    exact EQV.pure ⟨hc.dirty, .inl ⟨rfl, rfl, hc, rfl, rfl, rfl, .inl rfl⟩⟩
  | cons bp bps ih =>
    intro result lb s c hc hlt hoff
    unfold tryParsersT
    refine EQV.ite (fun _ => ih _ _ _ _ hc hlt hoff) (fun _ => ?_)
    refine EQV.ite (fun _ => ih _ _ _ _ hc hlt hoff) (fun _ => ?_)
    refine EQV.bind_same (fun lb' s1 h1 => ?_)
    obtain ⟨hlb', hs1⟩ := olastOpenedBlock_ok h1
    subst s1
    subst lb'
    dsimp only
    refine EQV.bind_same (fun y s2 h2 => ?_)
    have eff := open_effT bp parent hc hlt hoff h2
    obtain ⟨node, state⟩ := y
    cases node with
    | none =>
      dsimp only
      obtain ⟨hc2, hn2⟩ := eff.declined rfl
      have hoff2 : BoffOK src s2 c := by unfold BoffOK; rw [eff.boff]; exact hoff
      refine (ih _ _ s2 c hc2 hlt hoff2).mono (fun x s' ⟨d, hcases⟩ => ⟨d, ?_⟩)
      rcases hcases with ⟨a1, a2, a3, a4, a5, a6, a7⟩ | hb | hcc
      · refine .inl ⟨a1, a2, a3, a4.trans hn2, a5.trans eff.opened, a6.trans eff.boff, .inr ?_⟩
        rcases a7 with a7 | a7
        · exact a7
        · rw [a7, eff.opened]
      · exact .inr (.inl hb)
      · exact .inr (.inr hcc)
    | some node =>
      dsimp only
      have hsx : bp ≠ .setext := by
        intro hb
        subst hb
        have h2' : setextOpen parent s = .ok ((some node, state), s2) := h2
        obtain ⟨ch, hm⟩ := (GM.Blocks.L.B.setextOpen_bar src parent s c hc.ri hlt).of_ok h2' rfl
        exact hNB c ch hm
      have hrq : ¬ state.requirePara = true := fun h => hsx (eff.noreq h)
      rw [if_neg hrq, if_neg hrq]
      simp only [pure_bind, Bool.false_eq_true, if_false]
      obtain ⟨hid, hltn, hkn⟩ := eff.node node rfl
      have hmem : ∀ lb0, s.pc.opened.getLast? = some lb0 → lb0 ∈ s2.pc.opened :=
        fun lb0 hlb0 => by rw [eff.opened]; exact List.mem_of_getLast? hlb0
      refine EQV.mono (P := fun x s' => (∀ B, InvT src B s2 → InvT src B s') ∧ s'.r = s2.r ∧
        x = (if state.hasChildren = true then TryOutcomeT.retry node else TryOutcomeT.done, OpenResult.newBlocksOpened,
          s.pc.opened.getLast?)) ?_ (fun x s' ⟨t1, t2, t3⟩ => ?_)
      · generalize s.pc.opened.getLast? = lb'
        refine EQV.bind_same (fun _ s4 h4 => ?_)
        have hlk := modNode_lk h4 (fun _ => ⟨rfl, rfl, rfl⟩)
        obtain ⟨hk4, hlt4⟩ := nk_kg hlk.kg hkn hltn
        have hsrc4 : s4.r.source = src := by rw [hlk.r]; exact eff.stop.source
        have tail : ∀ s5 : St, (nd s5 node).kind = bp.kind → node < s5.nodes.length →
            EQV (fun x s' => (∀ B, InvT src B s5 → InvT src B s') ∧ s'.r = s5.r ∧
                x = (if state.hasChildren = true then TryOutcomeT.retry node else TryOutcomeT.done,
                  OpenResult.newBlocksOpened, lb'))
              (do
                appendChild parent node
                modPc fun pc => { pc with opened := pc.opened ++ [{ node := node, bp := bp }] }
                if state.hasChildren = true then pure (TryOutcomeT.retry node, OpenResult.newBlocksOpened, lb')
                  else pure (TryOutcomeT.done, OpenResult.newBlocksOpened, lb') : M _)
              (do
                appendChild parent node
                modPc fun pc => { pc with opened := pc.opened ++ [{ node := node, bp := bp }] }
                if state.hasChildren = true then pure (TryOutcomeT.retry node, OpenResult.newBlocksOpened, lb')
                  else pure (TryOutcomeT.done, OpenResult.newBlocksOpened, lb') : M _) s5 :=
          fun s5 hk5 hlt5 => EQV.refl (fun x s' e =>
            tryTailBT_ord (src := src) parent node bp state.hasChildren lb' s5 s' x hk5 hlt5 hsx e)
        cases lb' with
        | none =>
          dsimp only [Option.map]
          exact (tail s4 hk4 hlt4).mono (fun x s' ⟨r1, r2, r3⟩ => ⟨fun B hB => r1 B (hB.lk hlk), by rw [r2, hlk.r], r3⟩)
        | some lb0 =>
          dsimp only [Option.map]
          refine EQV.bind_same (fun ln s6 h6 => ?_)
          obtain ⟨_, hs6⟩ := ogetNode_ok h6
          subst s6
          refine EQV.ite (fun _ => ?_) (fun _ => ?_)
          · refine EQV.bind_same (fun pc s7 h7 => ?_)
            obtain ⟨_, hs7⟩ := ogetPc_ok h7
            subst s7
            refine EQV.bind (closeBlocksT_eqv_all hag _ _ ⟨_, eff.invE.lk hlk⟩ hsrc4) (fun rr s8 _ ⟨b1, b2, _, b4⟩ => ?_)
            obtain ⟨hk8, hlt8⟩ := nk_kg b4 hk4 hlt4
            exact (tail s8 hk8 hlt8).mono (fun x s' ⟨r1, r2, r3⟩ =>
              ⟨fun B hB => r1 B (b1 B (hB.lk hlk)), by rw [r2, b2, hlk.r], r3⟩)
          · exact (tail s4 hk4 hlt4).mono (fun x s' ⟨r1, r2, r3⟩ => ⟨fun B hB => r1 B (hB.lk hlk), by rw [r2, hlk.r], r3⟩)
      · have hd : DirtyT src s' := ⟨_, t1 _ eff.invE, eff.stop.congr t2⟩
        refine ⟨hd, ?_⟩
        by_cases hch : state.hasChildren = true
        · obtain ⟨c', hc', hle⟩ := eff.container hch
          rw [if_pos hch] at t3
          exact .inr (.inr ⟨node, c', by rw [t3], by rw [t3], hc'.congr (t1 L hc'.inv) t2, hle⟩)
        · rw [if_neg hch] at t3
          exact .inr (.inl ⟨by rw [t3], by rw [t3]⟩)

/-- the part of `openBlocksT` from the candidate loop on (`retryStepT`), `again` = `goto retry` -/
theorem retryStepT_eqv (L : Int) (blank tdone cont : Bool) (parent : Nat) (w : Int) (bps : List BP) (result : OpenResult)
    (lbo : Option Block) (again1 again2 : Bool → Bool → Nat → OpenResult → Option Block → M OpenResult) (s3 : St) (c : RCur)
    (hc3 : CleanT src L s3 c) (hlt : c.p < src.length) (hboff : BoffOK src s3 c)
    (hres3 : result = .noBlocksOpened → lbo = s3.pc.opened.getLast? ∧ ContOK cont s3)
    (hagain : ∀ (td ct : Bool) (p' : Nat) (res : OpenResult) (l : Option Block) (s5 : St) (c' : RCur), CleanT src L s5 c' →
      (res = .noBlocksOpened → l = s5.pc.opened.getLast? ∧ ContOK ct s5) →
      EQV (fun _ s' => DirtyT src s') (again1 td ct p' res l) (again2 td ct p' res l) s5) :
    EQV (fun _ s' => DirtyT src s') (retryStepT pts1 blank tdone cont parent w bps result lbo again1)
      (retryStepT pts2 blank tdone cont parent w bps result lbo again2) s3 := by
  unfold retryStepT
  refine EQV.bind_same (fun s0 s4 h4 => ?_)
  have e4 : s4 = s3 := by cases h4; rfl
  subst s4
  refine EQV.bind (tryParsersT_eqv hag hNB L parent blank cont w bps result lbo s3 c hc3 hlt hboff)
    (fun x s5 _ ⟨hd5, hcases⟩ => ?_)
  obtain ⟨o, res, l⟩ := x
  rcases hcases with ⟨a1, a2, a3, a4, a5, _, a7⟩ | ⟨b1, b2⟩ | ⟨p', c', c1, c2, c3, _⟩
  · simp only at a1 a2 a7
    subst a1
    dsimp only
    refine EQV.refl (fun r' s' k5 => toContinuableT_ord L cont res l s5 c r' s' a3 (fun hr => ?_) k5)
    rw [a2] at hr
    obtain ⟨q1, q2⟩ := hres3 hr
    refine ⟨?_, fun hct => ?_⟩
    · rcases a7 with a7 | a7
      · rw [a7, q1, a5]
      · rw [a7, a5]
    · obtain ⟨lb, h1', h2'⟩ := q2 hct
      exact ⟨lb, by rw [a5]; exact h1', by simp only [nd, a4]; exact h2'⟩
  · simp only at b1 b2
    subst b1
    subst b2
    dsimp only
    refine EQV.refl (fun r' s' k5 => ?_)
    rw [toContinuable_new cont _ s5 r' s' k5]
    exact hd5
  · simp only at c1 c2
    subst c1
    subst c2
    dsimp only
    refine EQV.bind_same (fun s6 s7 h7 => ?_)
    have e7 : s7 = s5 := by cases h7; rfl
    subst s7
    refine EQV.ite (fun _ => EQV.bind (P := fun _ _ => False) EQV.throw (fun _ _ _ h => h.elim)) (fun _ => ?_)
    exact hagain tdone cont p' _ l s5 c' c3 (fun hr => by cases hr)

theorem openBlocksLoopT_eqv (L : Int) (blank : Bool) :
    ∀ (fuel : Nat) (tdone cont : Bool) (parent : Nat) (result : OpenResult) (lbo : Option Block) (s : St) (c : RCur),
      CleanT src L s c → (result = .noBlocksOpened → lbo = s.pc.opened.getLast? ∧ ContOK cont s) →
      EQV (fun _ s' => DirtyT src s') (openBlocksLoopT pts1 blank fuel tdone cont parent result lbo)
        (openBlocksLoopT pts2 blank fuel tdone cont parent result lbo) s := by
  intro fuel
  induction fuel with
  | zero => intro tdone cont parent result lbo s c _ _; unfold openBlocksLoopT; exact EQV.throw
  | succ fuel ih =>
    intro tdone cont parent result lbo s c hc hres
    unfold openBlocksLoopT
    refine EQV.bind_same (fun y s1 h1 => ?_)
    obtain ⟨rfl, r1, hs1, hr1⟩ := peekLine_inv hc.ri h1
    subst s1
    dsimp only
    refine EQV.bind_same (fun lo s2 h2 => ?_)
    obtain ⟨r2, hs2, hr2⟩ := lineOffset_inv (s := { s with r := r1 }) hr1 h2
    subst s2
    refine EQV.bind_same (fun u s3 h3 => ?_)
    have e3 := omodPc_ok h3
    -- the state after the three steps: reader caches and BlockOffset / BlockIndent changed
    have hop3 : s3.pc.opened = s.pc.opened := by rw [e3]; dsimp only; split <;> rfl
    have htm3 : s3.pc.tmpPara = s.pc.tmpPara := by rw [e3]; dsimp only; split <;> rfl
    have hn3 : s3.nodes = s.nodes := by rw [e3]
    have hr3 : s3.r = r2 := by rw [e3]
    have hc3 : CleanT src L s3 c := by
      refine ⟨?_, by rw [hr3]; exact hr2, hc.pad, hc.le⟩
      have hi := hc.inv
      exact ⟨fun i => by simp only [nd, hn3]; exact hi.nrb i, fun b hb => by rw [hop3] at hb; exact hi.nsx b hb,
        fun i => by simp only [nd, hn3]; exact hi.pnb i,
        fun t ht => by rw [htm3] at ht; simp only [nd, hn3]; exact hi.tmpk t ht,
        fun b hb => by rw [hop3] at hb; simp only [nd, hn3]; exact hi.kinds b hb,
        fun m hm => hi.nodes m (by rw [← hn3]; exact hm)⟩
    have hres3 : result = .noBlocksOpened → lbo = s3.pc.opened.getLast? ∧ ContOK cont s3 := by
      intro hr
      obtain ⟨a, b⟩ := hres hr
      refine ⟨by rw [hop3]; exact a, fun hct => ?_⟩
      obtain ⟨lb, h1', h2'⟩ := b hct
      exact ⟨lb, by rw [hop3]; exact h1', by simp only [nd, hn3]; exact h2'⟩
    have hboff : (RCur.view src c).isSome = true → BoffOK src s3 c := by
      intro hsome
      unfold BoffOK
      rw [e3]
      dsimp only
      split
      · simp only; omega
      · simp only; omega
    have exit : EQV (fun _ s' => DirtyT src s') (toContinuable cont result lbo) (toContinuable cont result lbo) s3 :=
      EQV.refl (fun r' s' hk => toContinuableT_ord L cont result lbo s3 c r' s' hc3 hres3 hk)
    have viaTry : ∀ (bps : List BP), (RCur.view src c).isSome = true →
        EQV (fun _ s' => DirtyT src s')
          (retryStepT pts1 blank tdone cont parent (indentWidthI ((RCur.view src c).getD []) lo).fst bps result lbo
            (openBlocksLoopT pts1 blank fuel))
          (retryStepT pts2 blank tdone cont parent (indentWidthI ((RCur.view src c).getD []) lo).fst bps result lbo
            (openBlocksLoopT pts2 blank fuel)) s3 := by
      intro bps hsome
      have hlt : c.p < src.length := by
        cases hv : RCur.view src c with
        | none => rw [hv] at hsome; cases hsome
        | some l => exact view_some_lt src c hv
      exact retryStepT_eqv hag hNB L blank tdone cont parent _ bps result lbo _ _ s3 c hc3 hlt (hboff hsome) hres3
        (fun td ct p' res l s5 c' h5 hr5 => ih td ct p' res l s5 c' h5 hr5)
    refine EQV.ite (fun _ => exit) (fun hsome0 => ?_)
    have hsome : (RCur.view src c).isSome = true := by
      cases hv : RCur.view src c with
      | none => rw [hv] at hsome0; simp at hsome0
      | some l => rfl
    refine EQV.bind_same (fun ch s4 h4 => ?_)
    obtain ⟨_, e4⟩ := oliftE_ok h4
    subst s4
    refine EQV.ite (fun _ => exit) (fun _ => ?_)
    refine EQV.ite (fun _ => ?_) (fun _ => ?_)
    · refine EQV.bind_same (fun c' s5 h5 => ?_)
      obtain ⟨_, e5⟩ := oliftE_ok h5
      subst s5
      refine EQV.bind_same (fun bps s6 h6 => ?_)
      obtain ⟨_, e6⟩ := opure_ok h6
      subst s6
      exact viaTry bps hsome
    · refine EQV.bind_same (fun bps s6 h6 => ?_)
      obtain ⟨_, e6⟩ := opure_ok h6
      subst s6
      exact viaTry bps hsome

/-- **openBlocksT** (parser.go:928-1024) from a clean state, with both transformer lists: the same answer, and a normal
    end is `DirtyT` -/
theorem openBlocksT_eqv (L : Int) (parent : Nat) (blank : Bool) (s : St) (c : RCur) (hc : CleanT src L s c) :
    EQV (fun _ s' => DirtyT src s') (openBlocksT pts1 parent blank) (openBlocksT pts2 parent blank) s := by
  unfold openBlocksT
  refine EQV.bind_same (fun lb s1 h1 => ?_)
  obtain ⟨hlb, hs1⟩ := olastOpenedBlock_ok h1
  subst s1
  subst lb
  have fin : ∀ cont, ContOK cont s →
      EQV (fun _ s' => DirtyT src s')
        (do let v ← source
            openBlocksLoopT pts1 blank (retryFuel v) false cont parent OpenResult.noBlocksOpened s.pc.opened.getLast?)
        (do let v ← source
            openBlocksLoopT pts2 blank (retryFuel v) false cont parent OpenResult.noBlocksOpened s.pc.opened.getLast?)
        s := by
    intro cont hco
    refine EQV.bind_same (fun v s3 h3 => ?_)
    have e3 : s3 = s := by cases h3; rfl
    subst s3
    exact openBlocksLoopT_eqv hag hNB L blank _ false cont parent _ _ s c hc (fun _ => ⟨rfl, hco⟩)
  dsimp only
  cases hl : s.pc.opened.getLast? with
  | none =>
    dsimp only
    simp only [pure_bind]
    rw [← hl]
    exact fin false (fun h => by cases h)
  | some b =>
    dsimp only
    refine EQV.bind_same (fun n s2 h2 => ?_)
    obtain ⟨hn, e2⟩ := ogetNode_ok h2
    subst s2
    subst n
    simp only [pure_bind]
    rw [← hl]
    exact fin _ (fun hct => ⟨b, hl, by simpa using hct⟩)

end tp
end GM.Blocks.TO
