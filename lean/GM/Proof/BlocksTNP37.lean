/-
  GM.Proof.BlocksTNP37 — **GFM's table paragraph transformer satisfies the wide contract**: `transformPT_specX`
  (`PTSpecX src .pre (GM.TableX.transformPT src)`, under the named hypothesis `TableNodesOK src`), `transformPT_ptok`
  (`PTOK`: never the fuel error, keeps every reader-only invariant), and the block phase of the extended composition:
  `blockPhaseX_total_or_pre` — with the link reference transformer behind its run-time check and (optionally) the table
  transformer, the block phase returns a store with `NodesOK` and `KidsOK`, or answers `.pre`.
-/
import GM.Proof.BlocksTNP36
import GM.Proof.LinkRefTot2
import GM.Proof.LinkRefPres
import GM.Model.ConvertX

namespace GM.Blocks.L.G.X
open GM GM.Text GM.Spec GM.Proof.Reader GM.Blocks.T GM.Blocks.TR GM.TableX

/-- what the driver proof needs to know about GM.Table.transform's output (the ONLY hypothesis of `transformPT_specX`): on a
    list of valid lines on which it finds a table, the remaining paragraph segments lie inside the source, and every node the
    builder allocates for the header, the rows and their cells is `NodeOK` (line segments inside the source; `linesNil` only
    without lines) -/
def TableNodesOK (src : Bytes) : Prop :=
  ∀ (ls : List Segment), ls.all (validB src) = true → ∀ t, (GM.Table.transform src (ls.map toSeg)).table = some t →
    LinesOK src ((GM.Table.transform src (ls.map toSeg)).para.map ofSeg) ∧
    (NodeOK src (rowNode src tagHeader t.header) ∧ ∀ c ∈ t.header, NodeOK src (cellNode src c)) ∧
    ∀ r ∈ t.rows, NodeOK src (rowNode src tagRow r) ∧ ∀ c ∈ r, NodeOK src (cellNode src c)


/-- the same, in terms of GM.Table alone: on lines inside the source on which GM.Table.transform finds a table, the remaining
    paragraph segments and the cell segments lie inside the source, and no row records an escaped pipe (`esc = []`: with a
    recorded position the row node `addRow` allocates has `linesNil = true` AND lines — not `NodeOK`; see the report) -/
def TableRangeOK (src : Bytes) : Prop :=
  ∀ (ls : List GM.Table.Seg), (∀ l ∈ ls, l.start ≤ l.stop ∧ l.stop ≤ src.length) →
    ∀ t, (GM.Table.transform src ls).table = some t →
    (∀ sg ∈ (GM.Table.transform src ls).para, sg.start ≤ sg.stop ∧ sg.stop ≤ src.length) ∧
    ∀ r ∈ t.header :: t.rows, r.flatMap (·.esc) = [] ∧
      ∀ c ∈ r, ∀ sg, c.seg = some sg → sg.start ≤ sg.stop ∧ sg.stop ≤ src.length

theorem segOK_ofSeg (src : Bytes) (sg : GM.Table.Seg) (h : sg.start ≤ sg.stop ∧ sg.stop ≤ src.length) : SegOK src (ofSeg sg) := by
  unfold SegOK ofSeg
  simp only
  omega

theorem tableNodesOK_of_range (src : Bytes) (h : TableRangeOK src) : TableNodesOK src := by
  intro ls hv t ht
  have hin : ∀ l ∈ ls.map toSeg, l.start ≤ l.stop ∧ l.stop ≤ src.length := by
    intro l hl
    obtain ⟨sg, hsg, rfl⟩ := List.mem_map.1 hl
    have := List.all_eq_true.1 hv sg hsg
    unfold validB at this
    simp only [Bool.and_eq_true, decide_eq_true_eq] at this
    unfold toSeg
    simp only
    omega
  obtain ⟨hp, hr⟩ := h _ hin t ht
  have hcell : ∀ r ∈ t.header :: t.rows, ∀ c ∈ r, NodeOK src (cellNode src c) := by
    intro r hrm c hc
    have hcs := (hr r hrm).2 c hc
    unfold cellNode
    constructor
    · intro sg' hm
      cases hsg : c.seg with
      | none => rw [hsg] at hm; cases hm
      | some sg =>
        rw [hsg] at hm
        simp only [List.mem_singleton] at hm
        subst hm
        exact segOK_ofSeg src sg (hcs sg hsg)
    · intro hnil
      simp only at hnil ⊢
      cases hsg : c.seg with
      | none => rfl
      | some sg => rw [hsg] at hnil; cases hnil
  have hrow : ∀ r ∈ t.header :: t.rows, ∀ tag, NodeOK src (rowNode src tag r) := by
    intro r hrm tag
    refine nodeOK_noLines src _ ?_
    unfold rowNode
    simp only
    rw [(hr r hrm).1]; rfl
  refine ⟨fun sg' hm => ?_, ⟨hrow _ (by simp) _, hcell _ (by simp)⟩, fun r hrm => ⟨hrow r (by simp [hrm]) _, hcell r (by simp [hrm])⟩⟩
  obtain ⟨sg, hsg, rfl⟩ := List.mem_map.1 hm
  exact segOK_ofSeg src sg (hp sg hsg)

theorem transformPT_specX (src : Bytes) (hT : TableNodesOK src) : PTSpecX src .pre (transformPT src) := by
  intro node s hsrc hlt hk hp hl hn hkids hplt htree
  have hrefl : StepX src node s s false :=
    ⟨TStep.refl hn hl, L.TF.refl s, hplt, htree, fun _ _ _ h => h, fun _ => KeepF.refl node s⟩
  unfold transformPT
  simp only [bind, StateT.bind, getNode, source, pure, StateT.pure, Except.pure, Except.bind]
  rw [hsrc]
  by_cases hv : ((s.nodes.getD node default).lines.all (validB src)) = true
  · rw [if_neg (by rw [hv]; simp)]
    cases htb : (GM.Table.transform src ((s.nodes.getD node default).lines.map toSeg)).table with
    | none => exact .inl ⟨s, false, rfl, hrefl⟩
    | some t =>
      simp only []
      obtain ⟨p, hpp⟩ := Option.isSome_iff_exists.1 hp
      obtain ⟨h1, h2, h3⟩ := hT _ hv t htb
      have hpp' : (s.nodes.getD node default).parent = some p := hpp
      rw [hpp']
      obtain ⟨s', e', hst⟩ := buildTable_stepX (src := src) hlt hk hpp hl hn hkids hplt htree _ t h1
        (nodeOK_noLines src _ rfl) h2 h3
      exact .inl ⟨s', _, e', hst⟩
  · rw [if_pos (by simpa using hv)]
    exact .inr rfl

end GM.Blocks.L.G.X

namespace GM.Blocks
open GM GM.Text GM.TableX

section pres
variable {I : St → Prop} (h : RPrims I)
include h

theorem addCells_pres (src : Bytes) (row : Nat) : ∀ cells, Pres I (addCells src row cells) := by
  have := h.ronly
  have := appendChild_pres h
  intro cells
  induction cells with
  | nil => unfold addCells; pres
  | cons c rest ih => unfold addCells; pres

theorem addRow_pres (src : Bytes) (table tag : Nat) (cells : List GM.Table.Cell) : Pres I (addRow src table tag cells) := by
  have := h.ronly
  have := appendChild_pres h
  have := addCells_pres h src
  unfold addRow; pres

theorem addRows_pres (src : Bytes) (table : Nat) : ∀ rows, Pres I (addRows src table rows) := by
  have := addRow_pres h src
  intro rows
  induction rows with
  | nil => unfold addRows; pres
  | cons r rest ih => unfold addRows; pres

theorem buildTable_pres (src : Bytes) (node : Nat) (parent : Option Nat) (para : List GM.Table.Seg) (t : GM.Table.Table) :
    Pres I (buildTable src node parent para t) := by
  have := h.ronly
  have := addRow_pres h src
  have := addRows_pres h src
  have := insertBefore_pres h
  have := removeChild_pres h
  unfold buildTable; pres

theorem transformPT_pres (src : Bytes) (node : Nat) : Pres I (transformPT src node) := by
  have := buildTable_pres h src
  unfold transformPT; pres

end pres

/-- the table paragraph transformer never exhausts fuel and keeps every reader-only invariant -/
theorem transformPT_ptok (src : Bytes) : PTOK (transformPT src) := fun _ h n => transformPT_pres h src n

end GM.Blocks

namespace GM.ConvertX
open GM GM.Text GM.Blocks GM.Convert

/-- **the block phase of the extended composition (link reference definitions behind their run-time check, and GFM tables)
    returns a store** all of whose line segments lie inside the source and whose lists are well-shaped, **or answers `.pre`**
    (a run-time check / domain monitor of a transformer) — no Go panic of the driver, the block parsers or the transformers'
    tree surgery, no fuel exhaustion. With tables the hypothesis `TableNodesOK src` about GM.Table.transform's output is needed
    (see GM.Proof.BlocksTNP37). -/
theorem blockPhaseX_total_or_pre (c : XCfg) (src : Bytes) (hT : c.table = true → L.G.X.TableNodesOK src) :
    (∃ s, blockPhaseX c true src = .ok s ∧ NodesOK src s ∧ KidsOK s) ∨ blockPhaseX c true src = .error .pre := by
  unfold blockPhaseX paragraphTransformersX
  refine GM.Blocks.T.runT_totalX src .pre _ ?_ ?_
  · refine L.G.X.ptsSpecX_append (L.G.X.ptsSpecX_of_ptsSpec (GM.Proof.LinkRefTot2.paragraphTransformers_spec src)) ?_
    by_cases hc : c.table = true
    · rw [if_pos hc]
      intro pt hpt
      simp only [List.mem_singleton] at hpt
      subst hpt
      exact L.G.X.transformPT_specX src (hT hc)
    · rw [if_neg hc]
      intro pt hpt; cases hpt
  · intro pt hpt
    rcases List.mem_append.1 hpt with h | h
    · exact GM.Proof.LinkRefPres.paragraphTransformers_ok pt h
    · by_cases hc : c.table = true
      · rw [if_pos hc] at h
        simp only [List.mem_singleton] at h
        subst h
        exact transformPT_ptok src
      · rw [if_neg hc] at h; cases h

end GM.ConvertX
