/-
  GM.Proof.ShiftSimListB — the list parsers under the shift simulation, second part: `listItemOpen` without the
  hypothesis on run A's reader, and the step lemmas of GM.Proof.ShiftSimList with their side conditions derived from `K`.
-/
import GM.Proof.ShiftSimList
import GM.Proof.ShiftSimAcyc2
import GM.Proof.BlocksSpecList

namespace GM.Blocks.Sh
open GM GM.Text GM.Spec GM.Proof.Reader GM.Blocks

/-! ### `listItemOpen` keeps the reader invariant -/

/-- run A's reader satisfies the reader invariant for some cursor -/
def lb_RIs (b : Bytes) (s : St) : Prop := ∃ c, RI b s.r c

theorem lb_noNodes (b : Bytes) : NoNodes (lb_RIs b) := ⟨fun _ _ hs => hs⟩

theorem lb_peekLine_keeps (b : Bytes) : Keeps (lb_RIs b) peekLine := by
  intro s a s' ⟨c, hc⟩ h
  obtain ⟨r', h1, h2⟩ := ri_peekLine hc
  unfold GM.Blocks.peekLine at h
  rw [h1] at h
  cases h
  exact ⟨c, h2⟩

theorem lb_lineOffset_keeps (b : Bytes) : Keeps (lb_RIs b) lineOffset := by
  intro s a s' ⟨c, hc⟩ h
  obtain ⟨v, r', h1, h2, _⟩ := ri_lineOffset hc
  unfold GM.Blocks.lineOffset at h
  rw [h1] at h
  cases h
  exact ⟨c, h2⟩

theorem lb_advPad_keeps (b : Bytes) (n p : Int) (hn : 0 ≤ n) : Keeps (lb_RIs b) (advanceAndSetPadding n p) := by
  intro s a s' ⟨c, hc⟩ h
  obtain ⟨r', h1, h2⟩ := ri_advanceAndSetPadding hc hn p
  unfold GM.Blocks.advanceAndSetPadding at h
  rw [h1] at h
  cases h
  exact ⟨_, h2⟩

theorem lb_lastOffset_keeps (I : St → Prop) (node : Nat) : Keeps I (lastOffset node) := by
  intro s a s' hs h
  rw [li_sim_lastOffset_st h]; exact hs

theorem lb_indentPosition_ge (bs : Bytes) (cur width : Int) : -1 ≤ (indentPosition bs cur width).1 := by
  unfold indentPosition indentPositionPadding
  by_cases hz : (width == 0) = true
  · rw [if_pos hz]; simp
  · rw [if_neg hz]
    have hge := (ippLoop_ge cur width bs 0 0 0).1
    simp only
    split
    · simp only; omega
    · simp

theorem lb_listItemOpen_keeps (b : Bytes) (parent : Nat) : Keeps (lb_RIs b) (listItemOpen parent) := by
  unfold listItemOpen
  refine Keeps.bind (getNode_keeps _) (fun n => ?_)
  by_cases c0 : (n.kind != Kind.list) = true
  · rw [if_pos c0]; exact Keeps.pure _
  · rw [if_neg c0]
    refine Keeps.bind (lb_lastOffset_keeps _ _) (fun off => ?_)
    refine Keeps.bind (lb_peekLine_keeps b) (fun x => ?_)
    obtain ⟨l, sg⟩ := x
    simp only []
    generalize l.getD [] = line
    generalize hmt : matchesListItem line false = mt
    obtain ⟨m, typ⟩ := mt
    simp only []
    by_cases c1 : (typ == ListTyp.notList) = true
    · rw [if_pos c1]; exact Keeps.pure _
    · rw [if_neg c1]
      have ok : ListMatchOK line m typ := matchesListItem_ok line false m typ hmt (by simpa using c1)
      by_cases c2 : m.r1 - off > 3
      · rw [if_pos c2]; exact Keeps.pure _
      · rw [if_neg c2]
        refine Keeps.bind (modPc_keeps _ (fun _ hs => hs)) (fun _ => ?_)
        refine Keeps.bind (lb_lineOffset_keeps b) (fun lo => ?_)
        refine Keeps.bind (liftE_keeps _) (fun io => ?_)
        refine Keeps.bind (newNode_keeps (lb_noNodes b) _) (fun nd => ?_)
        by_cases c3 : m.r4 < 0
        · rw [if_pos c3]; exact Keeps.pure _
        · rw [if_neg c3]
          refine Keeps.bind (liftE_keeps _) (fun sl => ?_)
          by_cases c4 : isBlank sl = true
          · rw [if_pos c4]; exact Keeps.pure _
          · rw [if_neg c4]
            refine Keeps.bind (liftE_keeps _) (fun sf => ?_)
            have hpos := lb_indentPosition_ge sf (lo + m.r4) io
            have h3 : 1 ≤ m.r3 := by
              have := ok.r1_ge; have := ok.r2; have := ok.r3_gt; omega
            refine Keeps.bind (lb_advPad_keeps b _ _ (by omega)) (fun _ => ?_)
            exact Keeps.pure _

theorem listItemOpen_sim (F : Frame) (b : Bytes) : OpenSim F b .listItem := by
  intro parent sA sB h hl
  exact listItemOpen_simH F b parent sA sB h hl
    (fun a sA' e => lb_listItemOpen_keeps b parent sA a sA' h.ri e)

/-! ### the step lemmas of GM.Proof.ShiftSimList with `K` -/

theorem lb_lastNot0 {s : St} (hk : K s) (node : Nat) : li_sim_LastNot0 s node := by
  intro hl
  exact hk.doc.2.2 node (List.mem_of_getLast? hl)

theorem lb_kids_ne0 {s : St} (hk : K s) (node : Nat) : ∀ c ∈ (s.nodes.getD node default).children, c ≠ 0 := by
  intro c hc e
  subst e
  exact hk.doc.2.2 node hc

theorem listClose_simK (F : Frame) (hF : F.OK) (b : Bytes) : ∀ node rA rB sA sB, SRL F b rA rB sA sB → K sA → 0 < node →
    P2 (fun _ _ sA' sB' => SRL F b rA rB sA' sB') (bpClose .list node sA) (bpClose .list (F.ι node) sB) := by
  intro node rA rB sA sB h hk hn
  exact listClose_simN F hF b node rA rB sA sB (by omega) (lb_kids_ne0 hk node) h

theorem listContinue_simK (F : Frame) (hfl : F.flag = true) (b : Bytes) : ∀ node sA sB, SR F b sA sB → K sA →
    P2 (fun x y sA' sB' => y = x ∧ SRLim F b sA' sB' ∧ ((x.cont = true ∧ x.hasChildren = false) ∨ SR F b sA' sB'))
      (bpContinue .list node sA) (bpContinue .list (F.ι node) sB) := by
  intro node sA sB h hk
  exact listContinue_simW' F hfl b node sA sB h (lb_lastNot0 hk node)

theorem listContinue_eofK (F : Frame) (hfl : F.flag = true) (b : Bytes) : ∀ node sA sB, SR F b sA sB → K sA →
    P2 (fun x y sA' sB' => y = x ∧ SRLim F b sA' sB') (bpContinue .list node sA) (bpContinue .list (F.ι node) sB) := by
  intro node sA sB h hk
  exact listContinue_eof' F hfl b node sA sB h (lb_lastNot0 hk node)

theorem listItemContinue_simK (F : Frame) (hfl : F.flag = true) (b : Bytes) : ∀ node sA sB, SR F b sA sB →
    HasLine b sA → K sA → 0 < node → (∀ p, (sA.nodes.getD node default).parent = some p → p ≠ 0) →
    (∀ a sA', listItemContinue node sA = .ok (a, sA') → ∃ c', RI b sA'.r c') →
    P2 (fun x y sA' sB' => y = x ∧ SR F b sA' sB') (bpContinue .listItem node sA)
      (bpContinue .listItem (F.ι node) sB) := by
  intro node sA sB h hl _ hn hpar hri
  exact listItemContinue_simH F hfl b node sA sB h hl (by omega) hpar hri

end GM.Blocks.Sh
