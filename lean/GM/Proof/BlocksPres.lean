/-
  GM.Proof.BlocksPres — invariant-preservation calculus for the block-phase model (GM.Model.Blocks):
  `Pres I m` says that the monadic program `m` keeps the state invariant `I` and never answers
  `Panic.loop` (it may answer any other panic). `Pres` is closed under `bind` / `pure` / `if` / `match`,
  so a proof for a parser function is a syntactic walk over its `do` block (tactic `pres`) that ends in
  the reader primitives, which are hypotheses (`RPrims I`) here and are discharged for concrete
  invariants in GM.Proof.BlocksTerm.
-/
import GM.Model.Blocks
import Lean.Elab.Tactic

namespace GM.Blocks
open GM GM.Text

/-- `m` preserves `I` and never runs out of fuel -/
structure Pres (I : St → Prop) {α : Type} (m : M α) : Prop where
  h : ∀ s, I s → match m s with
    | .ok (_, s') => I s'
    | .error e => e ≠ Panic.loop

variable {I : St → Prop}

theorem Pres.pure {α} (a : α) : Pres I (pure a : M α) := ⟨fun _ hs => hs⟩

theorem Pres.bind {α β} {m : M α} {f : α → M β} (hm : Pres I m) (hf : ∀ a, Pres I (f a)) :
    Pres I (m >>= f) := by
  constructor
  intro s hs
  have h1 := hm.h s hs
  show match (m >>= f) s with | .ok (_, s') => I s' | .error e => e ≠ Panic.loop
  simp only [Bind.bind, StateT.bind]
  cases hms : m s with
  | error e => rw [hms] at h1; simpa [Except.bind] using h1
  | ok p =>
    rw [hms] at h1
    simp only [Except.bind]
    exact (hf p.1).h p.2 h1

theorem Pres.ite {α} {c : Prop} [Decidable c] {a b : M α} (ha : Pres I a) (hb : Pres I b) :
    Pres I (if c then a else b) := by
  split <;> assumption

theorem Pres.throw {α} (e : Panic) (h : e ≠ .loop) : Pres I (throw e : M α) := ⟨fun _ _ => h⟩

/-- the result of an `M` computation, when it is one -/
theorem Pres.ok {α} {m : M α} (hm : Pres I m) {s : St} (hs : I s) {a : α} {s' : St}
    (h : m s = .ok (a, s')) : I s' := by
  have := hm.h s hs; rw [h] at this; exact this

theorem Pres.noLoop {α} {m : M α} (hm : Pres I m) {s : St} (hs : I s) : m s ≠ .error .loop := by
  have := hm.h s hs
  intro h; rw [h] at this; exact this rfl

/-- the invariant does not look at the node store or the parse context -/
def ROnly (I : St → Prop) : Prop := ∀ s nodes pc, I s → I { s with nodes := nodes, pc := pc }

theorem getNode_pres (id : Nat) : Pres I (getNode id) := ⟨fun _ hs => hs⟩
theorem getPc_pres : Pres I getPc := ⟨fun _ hs => hs⟩
theorem source_pres : Pres I source := ⟨fun _ hs => hs⟩
theorem position_pres : Pres I position := ⟨fun _ hs => hs⟩
theorem get_pres : Pres I (get : M St) := ⟨fun _ hs => hs⟩
theorem modNode_pres (hI : ROnly I) (id : Nat) (f) : Pres I (modNode id f) := ⟨fun s hs => hI s _ _ hs⟩
theorem newNode_pres (hI : ROnly I) (n) : Pres I (newNode n) := ⟨fun s hs => hI s _ _ hs⟩
theorem modPc_pres (hI : ROnly I) (f) : Pres I (modPc f) := ⟨fun s hs => hI s _ _ hs⟩
theorem appendLine_pres (hI : ROnly I) (id seg) : Pres I (appendLine id seg) := modNode_pres hI _ _

/-- an `Except` value that is not the fuel error -/
structure NoLoop {α : Type} (e : Except Panic α) : Prop where
  h : ∀ x, e = .error x → x ≠ .loop

theorem liftE_pres {α} (e : Except Panic α) (h : NoLoop e) : Pres I (liftE e) := by
  constructor
  intro s hs
  cases e with
  | ok a => exact hs
  | error e => exact h.h e rfl

theorem NoLoop.ok {α} (a : α) : NoLoop (.ok a : Except Panic α) := ⟨fun _ h => by cases h⟩
theorem NoLoop.pure {α} (a : α) : NoLoop (Pure.pure a : Except Panic α) := ⟨fun _ h => by cases h⟩
theorem NoLoop.err {α} (e : Panic) (h : e ≠ .loop) : NoLoop (.error e : Except Panic α) :=
  ⟨fun _ h' => by cases h'; exact h⟩
theorem NoLoop.throw {α} (e : Panic) (h : e ≠ .loop) : NoLoop (throw e : Except Panic α) :=
  ⟨fun _ h' => by cases h'; exact h⟩
theorem NoLoop.bind {α β} {m : Except Panic α} {f : α → Except Panic β} (hm : NoLoop m)
    (hf : ∀ a, NoLoop (f a)) : NoLoop (m >>= f) := by
  cases m with
  | error e =>
    constructor
    intro x hx
    simp only [Bind.bind, Except.bind] at hx
    cases hx
    exact hm.h _ rfl
  | ok a => exact hf a
theorem NoLoop.ite {α} {c : Prop} [Decidable c] {a b : Except Panic α} (ha : NoLoop a) (hb : NoLoop b) :
    NoLoop (if c then a else b) := by split <;> assumption

open Lean Elab Tactic Meta in
/-- close / reduce the goal with the first local hypothesis that applies (reducible unification) -/
elab "apply_hyp" : tactic => do
  let g ← getMainGoal
  g.withContext do
    let lctx ← getLCtx
    for d in lctx do
      if d.isImplementationDetail then continue
      let s ← saveState
      try
        let gs ← withReducible (g.apply d.toExpr)
        replaceMainGoal gs
        return
      catch _ => s.restore
    throwError "no hypothesis applies"

macro "noloop_step" : tactic =>
  `(tactic| first
    | with_reducible apply NoLoop.ok
    | with_reducible apply NoLoop.pure
    | (with_reducible apply NoLoop.err; decide)
    | (with_reducible apply NoLoop.throw; decide)
    | with_reducible apply NoLoop.bind
    | with_reducible apply NoLoop.ite
    | apply_hyp
    | intro _
    | split)

/-- walk over an `Except Panic` do block -/
macro "noloop" : tactic => `(tactic| repeat' noloop_step)

theorem getByte_noLoop (l : Bytes) (i : Int) : NoLoop (getByte l i) := by unfold getByte; noloop
theorem idx_noLoop (l : Bytes) (i : Int) : NoLoop (idx l i) := getByte_noLoop l i
theorem sliceB_noLoop (l : Bytes) (a b : Int) : NoLoop (sliceB l a b) := by unfold sliceB; noloop
theorem slice_noLoop (l : Bytes) (a b : Int) : NoLoop (slice l a b) := sliceB_noLoop l a b
theorem sliceFrom_noLoop (l : Bytes) (a : Int) : NoLoop (sliceFrom l a) := by unfold sliceFrom; noloop
theorem segAt_noLoop (l : List Segment) (i : Int) : NoLoop (segAt l i) := by unfold segAt; noloop
theorem lineAt_noLoop (l : List Segment) (i : Int) : NoLoop (lineAt l i) := segAt_noLoop l i
theorem lineSet_noLoop (l : List Segment) (i : Int) (v) : NoLoop (lineSet l i v) := by unfold lineSet; noloop
theorem blockAt_noLoop (l : List Block) (i : Int) : NoLoop (blockAt l i) := by unfold blockAt; noloop
theorem closeSlice_noLoop (l : List Block) (a b : Int) : NoLoop (closeBlocks.slice' l a b) := by
  unfold closeBlocks.slice'; noloop

theorem value_noLoop (t : Segment) (buf : Bytes) : NoLoop (t.value buf) := by
  have := sliceB_noLoop buf t.start t.stop
  unfold Segment.value; noloop
theorem trimLeftSpace_noLoop (t : Segment) (buf : Bytes) : NoLoop (t.trimLeftSpace buf) := by
  have := sliceB_noLoop buf t.start t.stop
  unfold Segment.trimLeftSpace; noloop
theorem trimRightSpace_noLoop (t : Segment) (buf : Bytes) : NoLoop (t.trimRightSpace buf) := by
  have := sliceB_noLoop buf t.start t.stop
  unfold Segment.trimRightSpace; noloop
theorem trimLeftSpaceWidth_noLoop (t : Segment) (w : Int) (buf : Bytes) : NoLoop (t.trimLeftSpaceWidth w buf) := by
  have := sliceB_noLoop buf t.start t.stop
  unfold Segment.trimLeftSpaceWidth; noloop

theorem trimLeftAll_noLoop (src : Bytes) (ls : List Segment) : NoLoop (trimLeftAll src ls) := by
  induction ls with
  | nil => unfold trimLeftAll; noloop
  | cons l ls ih =>
    have := trimLeftSpace_noLoop l src
    unfold trimLeftAll; noloop

theorem atxBackLoop_noLoop (line : Bytes) (start : Int) (k : Nat) : NoLoop (atxBackLoop line start k) := by
  induction k with
  | zero => unfold atxBackLoop; noloop
  | succ k ih =>
    have := idx_noLoop line (k : Int)
    unfold atxBackLoop; noloop

theorem codeTrimLoop_noLoop (src : Bytes) (ls : List Segment) (k : Nat) : NoLoop (codeTrimLoop src ls k) := by
  induction k with
  | zero => unfold codeTrimLoop; noloop
  | succ k ih =>
    have := lineAt_noLoop ls (k : Int)
    have := fun t => value_noLoop t src
    unfold codeTrimLoop; noloop

theorem matchesSetextHeadingBar_noLoop (line : Bytes) : NoLoop (matchesSetextHeadingBar line) := by
  have := fun a b => slice_noLoop line a b
  have := fun a => idx_noLoop line a
  unfold matchesSetextHeadingBar; noloop

theorem calcListOffset_noLoop (source : Bytes) (m : M6) (lo : Int) : NoLoop (calcListOffset source m lo) := by
  have := fun a => sliceFrom_noLoop source a
  unfold calcListOffset; noloop

/-- the reader primitives keep the invariant -/
structure RPrims (I : St → Prop) : Prop where
  ronly : ROnly I
  peekLine : Pres I peekLine
  lineOffset : Pres I lineOffset
  advance : ∀ n, Pres I (advance n)
  advanceAndSetPadding : ∀ n p, Pres I (advanceAndSetPadding n p)
  preserveLeadingTab : ∀ seg ind, Pres I (preserveLeadingTab seg ind)

macro "noloop_prim" : tactic =>
  `(tactic| first
    | with_reducible apply idx_noLoop | with_reducible apply slice_noLoop | with_reducible apply sliceFrom_noLoop
    | with_reducible apply lineAt_noLoop | with_reducible apply lineSet_noLoop | with_reducible apply blockAt_noLoop
    | with_reducible apply value_noLoop | with_reducible apply trimLeftSpace_noLoop
    | with_reducible apply trimRightSpace_noLoop | with_reducible apply trimLeftSpaceWidth_noLoop
    | with_reducible apply trimLeftAll_noLoop | with_reducible apply atxBackLoop_noLoop
    | with_reducible apply codeTrimLoop_noLoop | with_reducible apply matchesSetextHeadingBar_noLoop
    | with_reducible apply calcListOffset_noLoop | with_reducible apply closeSlice_noLoop)

macro "pres_step" : tactic =>
  `(tactic| first
    | with_reducible apply Pres.pure
    | with_reducible apply Pres.bind
    | with_reducible apply Pres.ite
    | (with_reducible apply Pres.throw; decide)
    | with_reducible apply getNode_pres
    | with_reducible apply getPc_pres
    | with_reducible apply source_pres
    | with_reducible apply position_pres
    | with_reducible apply get_pres
    | (with_reducible apply modNode_pres; assumption)
    | (with_reducible apply newNode_pres; assumption)
    | (with_reducible apply modPc_pres; assumption)
    | (with_reducible apply appendLine_pres; assumption)
    | ((with_reducible apply liftE_pres) <;> noloop_prim)
    | apply_hyp
    | intro _
    | split)

/-- walk over an `M` do block -/
macro "pres" : tactic => `(tactic| repeat' pres_step)

section parsers
variable (h : RPrims I)
include h

theorem lastOpenedBlock_pres : Pres I lastOpenedBlock := by
  unfold lastOpenedBlock; pres

theorem removeChild_pres (p c : Nat) : Pres I (removeChild p c) := by
  have := h.ronly
  unfold removeChild; pres

theorem ensureIsolated_pres (c : Nat) : Pres I (ensureIsolated c) := by
  have := removeChild_pres h
  unfold ensureIsolated; pres

theorem appendChild_pres (p c : Nat) : Pres I (appendChild p c) := by
  have := h.ronly
  have := ensureIsolated_pres h
  unfold appendChild; pres

theorem insertBefore_pres (p : Nat) (v1 : Option Nat) (ins : Nat) : Pres I (insertBefore p v1 ins) := by
  have := h.ronly
  have := ensureIsolated_pres h
  have := appendChild_pres h
  unfold insertBefore; pres

theorem nextSibling_pres (c : Nat) : Pres I (nextSibling c) := by
  unfold nextSibling; pres

theorem insertAfter_pres (p : Nat) (v1 : Option Nat) (ins : Nat) : Pres I (insertAfter p v1 ins) := by
  have := appendChild_pres h
  have := nextSibling_pres h
  have := insertBefore_pres h
  unfold insertAfter; pres

theorem replaceChild_pres (p v1 ins : Nat) : Pres I (replaceChild p v1 ins) := by
  have := insertBefore_pres h
  have := removeChild_pres h
  unfold replaceChild; pres

theorem paragraphOpen_pres (p : Nat) : Pres I (paragraphOpen p) := by
  have := h.ronly; have := h.peekLine; have := h.advance
  unfold paragraphOpen; pres

theorem paragraphContinue_pres (n : Nat) : Pres I (paragraphContinue n) := by
  have := h.ronly; have := h.peekLine; have := h.advance
  unfold paragraphContinue; pres

theorem paragraphClose_pres (n : Nat) : Pres I (paragraphClose n) := by
  have := h.ronly
  have := removeChild_pres h
  unfold paragraphClose; pres

theorem thematicOpen_pres (p : Nat) : Pres I (thematicOpen p) := by
  have := h.ronly; have := h.peekLine; have := h.advance; have := h.lineOffset
  unfold thematicOpen; pres

theorem atxOpen_pres (p : Nat) : Pres I (atxOpen p) := by
  have := h.ronly; have := h.peekLine
  unfold atxOpen; pres

theorem setextOpen_pres (p : Nat) : Pres I (setextOpen p) := by
  have := h.ronly; have := h.peekLine
  have := lastOpenedBlock_pres h
  unfold setextOpen; pres

theorem setextClose_pres (n : Nat) : Pres I (setextClose n) := by
  have := h.ronly
  have := removeChild_pres h
  have := insertAfter_pres h
  have := nextSibling_pres h
  unfold setextClose; pres

theorem codeTakeLine_pres (n : Nat) (pos padding : Int) : Pres I (codeTakeLine n pos padding) := by
  have := h.ronly; have := h.peekLine; have := h.advance; have := h.advanceAndSetPadding
  have := h.preserveLeadingTab
  unfold codeTakeLine; pres

theorem codeOpen_pres (p : Nat) : Pres I (codeOpen p) := by
  have := h.ronly; have := h.peekLine; have := h.lineOffset
  have := codeTakeLine_pres h
  unfold codeOpen; pres

theorem codeContinue_pres (n : Nat) : Pres I (codeContinue n) := by
  have := h.ronly; have := h.peekLine; have := h.lineOffset
  have := codeTakeLine_pres h
  unfold codeContinue; pres

theorem codeClose_pres (n : Nat) : Pres I (codeClose n) := by
  have := h.ronly
  unfold codeClose; pres

theorem fencedOpen_pres (p : Nat) : Pres I (fencedOpen p) := by
  have := h.ronly; have := h.peekLine
  unfold fencedOpen; pres

theorem fencedContinue_pres (n : Nat) : Pres I (fencedContinue n) := by
  have := h.ronly; have := h.peekLine; have := h.lineOffset; have := h.advance
  have := h.advanceAndSetPadding; have := h.preserveLeadingTab
  unfold fencedContinue; pres

theorem fencedClose_pres (n : Nat) : Pres I (fencedClose n) := by
  have := h.ronly
  unfold fencedClose; pres

theorem blockquoteProcess_pres : Pres I blockquoteProcess := by
  have := h.peekLine; have := h.lineOffset; have := h.advance; have := h.advanceAndSetPadding
  unfold blockquoteProcess; pres

theorem blockquoteOpen_pres (p : Nat) : Pres I (blockquoteOpen p) := by
  have := h.ronly
  have := blockquoteProcess_pres h
  unfold blockquoteOpen; pres

theorem blockquoteContinue_pres (n : Nat) : Pres I (blockquoteContinue n) := by
  have := blockquoteProcess_pres h
  unfold blockquoteContinue; pres

theorem lastOffset_pres (n : Nat) : Pres I (lastOffset n) := by
  unfold lastOffset; pres

theorem lastChildCount_pres (n : Nat) : Pres I (lastChildCount n) := by
  unfold lastChildCount; pres

theorem listOpen_pres (p : Nat) : Pres I (listOpen p) := by
  have := h.ronly; have := h.peekLine
  have := lastOpenedBlock_pres h
  unfold listOpen; pres

theorem listContinue_pres (n : Nat) : Pres I (listContinue n) := by
  have := h.ronly; have := h.peekLine; have := h.lineOffset
  have := lastOpenedBlock_pres h
  have := lastOffset_pres h
  have := lastChildCount_pres h
  unfold listContinue; pres

theorem tightenItem_pres (child : Nat) (gcs : List Nat) : Pres I (tightenItem child gcs) := by
  have := h.ronly
  have := replaceChild_pres h
  induction gcs with
  | nil => unfold tightenItem; pres
  | cons gc gcs ih => unfold tightenItem; pres

theorem tightenItems_pres (cs : List Nat) : Pres I (tightenItems cs) := by
  have := tightenItem_pres h
  induction cs with
  | nil => unfold tightenItems; pres
  | cons c cs ih => unfold tightenItems; pres

theorem listClose_pres (n : Nat) : Pres I (listClose n) := by
  have := h.ronly
  have := tightenItems_pres h
  unfold listClose; pres

theorem listItemOpen_pres (p : Nat) : Pres I (listItemOpen p) := by
  have := h.ronly; have := h.peekLine; have := h.lineOffset; have := h.advanceAndSetPadding
  have := lastOffset_pres h
  unfold listItemOpen; pres

theorem listItemContinue_pres (n : Nat) : Pres I (listItemContinue n) := by
  have := h.ronly; have := h.peekLine; have := h.lineOffset; have := h.advance
  have := h.advanceAndSetPadding
  have := lastOffset_pres h
  unfold listItemContinue; pres

theorem htmlOpen_pres (p : Nat) : Pres I (htmlOpen p) := by
  have := h.ronly; have := h.peekLine; have := h.advance
  have := lastOpenedBlock_pres h
  unfold htmlOpen; pres

theorem htmlContinue_pres (n : Nat) : Pres I (htmlContinue n) := by
  have := h.ronly; have := h.peekLine; have := h.advance
  unfold htmlContinue; pres

theorem bpOpen_pres (bp : BP) (p : Nat) : Pres I (bpOpen bp p) := by
  cases bp <;> unfold bpOpen
  · exact setextOpen_pres h p
  · exact thematicOpen_pres h p
  · exact listOpen_pres h p
  · exact listItemOpen_pres h p
  · exact codeOpen_pres h p
  · exact atxOpen_pres h p
  · exact fencedOpen_pres h p
  · exact blockquoteOpen_pres h p
  · exact htmlOpen_pres h p
  · exact paragraphOpen_pres h p

theorem bpContinue_pres (bp : BP) (n : Nat) : Pres I (bpContinue bp n) := by
  cases bp <;> unfold bpContinue
  · exact Pres.pure _
  · exact Pres.pure _
  · exact listContinue_pres h n
  · exact listItemContinue_pres h n
  · exact codeContinue_pres h n
  · exact Pres.pure _
  · exact fencedContinue_pres h n
  · exact blockquoteContinue_pres h n
  · exact htmlContinue_pres h n
  · exact paragraphContinue_pres h n

theorem bpClose_pres (bp : BP) (n : Nat) : Pres I (bpClose bp n) := by
  cases bp <;> unfold bpClose
  · exact setextClose_pres h n
  · exact Pres.pure _
  · exact listClose_pres h n
  · exact Pres.pure _
  · exact codeClose_pres h n
  · exact Pres.pure _
  · exact fencedClose_pres h n
  · exact Pres.pure _
  · exact Pres.pure _
  · exact paragraphClose_pres h n

theorem closeLoop_pres (blocks : List Block) (to : Int) (k : Nat) : Pres I (closeLoop blocks to k) := by
  have := bpClose_pres h
  induction k with
  | zero => unfold closeLoop; pres
  | succ k ih => unfold closeLoop; pres

theorem closeBlocks_pres (frm to : Int) : Pres I (closeBlocks frm to) := by
  have := h.ronly
  have := closeLoop_pres h
  unfold closeBlocks; pres

theorem tryParsers_pres (parent : Nat) (blankLine continuable : Bool) (w : Int) (bps : List BP)
    (result : OpenResult) (lastBlock : Option Block) :
    Pres I (tryParsers parent blankLine continuable w bps result lastBlock) := by
  have := h.ronly
  have := bpOpen_pres h
  have := bpClose_pres h
  have := closeBlocks_pres h
  have := appendChild_pres h
  have := lastOpenedBlock_pres h
  induction bps generalizing result lastBlock with
  | nil => unfold tryParsers; pres
  | cons bp bps ih => unfold tryParsers; pres

end parsers

end GM.Blocks
