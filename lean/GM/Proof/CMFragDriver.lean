/-
  GM.Proof.CMFragDriver — the per-line loop of parseBlocks (`lineLoopT`) on the three kinds of lines that can follow
  the first line of a fragment paragraph: a further text line, a blank line, the end of the source.
-/
import GM.Proof.CMFragClose

namespace GM.Proof.CMFrag
open GM GM.Text GM.Blocks GM.Spec

section driver
variable {src : Bytes}

/-- a further text line: paragraph continuation -/
theorem lineLoop_cont {p e : Nat} {v : Bytes} {c : UInt8} {t : Bytes} (hl : Ln src p e v) (hv : v = c :: t)
    (hc : GM.Spec.CM.isLetter c = true) (k : Int) (d : Blocks.Node) (rest : List Blocks.Node) (lines : List Segment)
    (b : Bool) (pc : Ctx) (hop : pc.opened = [{ node := rest.length + 1, bp := .paragraph }]) (bl : List LineStat) :
    lineLoopT pts 0 [{ node := rest.length + 1, bp := .paragraph }] 0 [{ node := rest.length + 1, bp := .paragraph }] 0 bl
        ⟨rdr src k p p e none (-1), d :: (rest ++ [paraN lines b]), pc⟩ =
      .ok ((.next, bl ++ [{ lineNum := k, level := 0, isBlank := isBlank v }]),
        ⟨rdr src k p (e - 1) e none (-1), d :: (rest ++ [paraN (lines ++ [sg p e]) b]),
          { pc with blockOffset := 0, blockIndent := 0 }⟩) := by
  have hp : p < src.length := by have := hl.le; have := hl.lt; omega
  have e3 : (paraN lines b).kind = .paragraph := rfl
  rw [lineLoopT]
  simp only [bind_apply, peekLine_fresh hl.sub hp (Nat.le_of_lt hl.lt) hl.le, position_run, getNode_run, getD_last, e3]
  simp only [bne_self_eq_false, Bool.false_eq_true, if_false, pure_apply, Bool.not_true, bind_apply, blockAt, liftE_ok]
  simp [bind_apply, liftE_ok, openBlocks_cont hl hv hc pts k d rest lines b pc hop _ (some v) (Or.inr rfl), pure_apply, rdr_line]

/-- the end of the source with the paragraph open: it is closed -/
theorem lineLoop_eof {p : Nat} {ls : List Bytes} (hne : ls ≠ []) (h : ParaAt src p ls) (hb : ∀ l ∈ ls, BlkLine l)
    (k : Int) (e : Nat) (d : Blocks.Node) (rest : List Blocks.Node)
    (b : Bool) (pc : Ctx) (hop : pc.opened = [{ node := rest.length + 1, bp := .paragraph }]) (bl : List LineStat) :
    lineLoopT pts 0 [{ node := rest.length + 1, bp := .paragraph }] 0 [{ node := rest.length + 1, bp := .paragraph }] 0 bl
        ⟨rdr src k src.length src.length e none (-1), d :: (rest ++ [paraN (openSegs p ls) b]), pc⟩ =
      .ok ((.eof, bl),
        ⟨rdr src (k + 1) e e (lineEnd src e) none (-1), d :: (rest ++ [paraN (paraSegs p ls) b]),
          { pc with opened := [] }⟩) := by
  rw [lineLoopT]
  simp only [bind_apply, peekLine_eof (Nat.le_refl _),
    closeBlocks_open hne h hb _ (rdr_source ..) d rest b pc hop, advanceLine_run, pure_apply]

/-- a blank line with the paragraph open: it is closed -/
theorem lineLoop_blank {p : Nat} {ls : List Bytes} (hne : ls ≠ []) (h : ParaAt src p ls) (hb : ∀ l ∈ ls, BlkLine l)
    {q : Nat} (hl : Ln src q (q + 1) [10])
    (k : Int) (d : Blocks.Node) (rest : List Blocks.Node)
    (b : Bool) (pc : Ctx) (hop : pc.opened = [{ node := rest.length + 1, bp := .paragraph }]) (bl : List LineStat) :
    lineLoopT pts 0 [{ node := rest.length + 1, bp := .paragraph }] 0 [{ node := rest.length + 1, bp := .paragraph }] 0 bl
        ⟨rdr src k q q (q + 1) none (-1), d :: (rest ++ [paraN (openSegs p ls) b]), pc⟩ =
      .ok ((.next, bl ++ [{ lineNum := k, level := 0, isBlank := true }]),
        ⟨rdr src k q q (q + 1) (some [10]) 0, d :: (rest ++ [paraN (paraSegs p ls) b]),
          { pc with blockOffset := 0, blockIndent := 0, opened := [] }⟩) := by
  have hp : q < src.length := by have := hl.le; omega
  have e3 : (paraN (openSegs p ls) b).kind = .paragraph := rfl
  have hob : openBlocksT pts 0 (isBlankLine (k - 1) 0 (bl ++ [{ lineNum := k, level := 0, isBlank := true }]))
      ⟨rdr src k q q (q + 1) (some [10]) (-1), d :: (rest ++ [paraN (openSegs p ls) b]), pc⟩ =
      .ok (.noBlocksOpened, ⟨rdr src k q q (q + 1) (some [10]) 0, d :: (rest ++ [paraN (openSegs p ls) b]),
        { pc with blockOffset := 0, blockIndent := 0 }⟩) := by
    unfold openBlocksT
    simp only [bind_apply, lastOpenedBlock_run, hop, List.getLast?_singleton, pure_apply, source_run, retryFuel,
      getNode_run, getD_last, e3]
    rw [openBlocksLoopT]
    have hiw : indentWidthI [10] 0 = (0, 0) := by decide
    simp only [bind_apply, peekLine_cached hp, Option.getD_some, lineOffset_fresh, hiw]
    have hidx : idx [10] 0 = .ok 10 := rfl
    have hs10 : isSpace 10 = true := by decide
    simp [modPc_run, bind_apply, hidx, liftE_ok, toContinuable, bpContinue, paragraphContinue, peekLine_cached hp,
      pure_apply, isBlank, stClose, hs10, hop]
  rw [lineLoopT]
  simp only [bind_apply, peekLine_fresh hl.sub hp (Nat.le_succ _) hl.le, position_run, getNode_run, getD_last, e3]
  simp only [bne_self_eq_false, Bool.false_eq_true, if_false, pure_apply, Bool.not_true, bind_apply, blockAt, liftE_ok]
  have hib : isBlank [10] = true := by decide
  simp [liftE_ok, hib, rdr_line, hob, pure_apply, getPc_run, hop, slotAfter, bind_apply, map_apply]
  rw [closeBlocks_open hne h hb _ (rdr_source ..) d rest b
    { pc with blockOffset := 0, blockIndent := 0, opened := [{ node := rest.length + 1, bp := .paragraph }] } rfl]
end driver

end GM.Proof.CMFrag
