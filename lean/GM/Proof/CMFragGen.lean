/-
  GM.Proof.CMFragGen — the composition of the three phases on a stage-6 / stage-7 document, ABSTRACT in what the
  inline phase makes of every block: the block phase only looks at the bytes of the lines (`Good5`), so a later stage
  that changes the inline content of the lines (code spans, hard line breaks, …) supplies, per block, the node that
  `docTree` reads from the block's closed node (`BlockDT`), and the renderer's output on the Document of these nodes.
-/
import GM.Proof.CMFrag7Main

namespace GM.Proof.CMFrag
open GM GM.Text GM.Blocks GM.Spec

/-- `docTree` reads the closed node of block `b` — wherever it lies in whatever source, its lines ending with line
    feeds — as the node `n` -/
def BlockDT (env : GM.Inl.Env) (b : Raw5) (n : GM.Node) : Prop :=
  ∀ (src : Bytes) (p : Nat) (bk : Bool), ParaAt src p (lines5 b) → p ≤ src.length →
    GM.Convert.docTree true env src (.node (node5 p b bk) []) = .ok n

/-- the same for a block whose last line ends the source without a line feed -/
def BlockDTE (env : GM.Inl.Env) (b : Raw5) (n : GM.Node) : Prop :=
  ∀ (src : Bytes) (p : Nat) (bk : Bool), ParaAtE src p (lines5 b) →
    GM.Convert.docTree true env src (.node (node5 p b bk) []) = .ok n

/-- block by block -/
def AllBlk (P : Raw5 → GM.Node → Prop) : List (Nat × Raw5) → List GM.Node → Prop
  | it :: items, n :: ns => P it.2 n ∧ AllBlk P items ns
  | [], [] => True
  | _, _ => False

/-- every block's closed node is read by `docTree` as the given node -/
def AllDTN (src : Bytes) (env : GM.Inl.Env) : List (Nat × List Bytes) → List Raw5 → List GM.Node → Prop
  | (p, _) :: cl, b :: blks, n :: ns =>
    (∀ bk, GM.Convert.docTree true env src (.node (node5 p b bk) []) = .ok n) ∧ AllDTN src env cl blks ns
  | [], [], [] => True
  | _, _, _ => False

theorem docTrees_nodesN {src : Bytes} (env : GM.Inl.Env) :
    ∀ (cl : List (Nat × List Bytes)) (blks : List Raw5) (ns : List GM.Node) (bs : List Bool),
      AllDTN src env cl blks ns → bs.length = cl.length →
      GM.Convert.docTrees true env src ((mkNodes5 cl blks bs).map (fun n => Tree.node n [])) = .ok ns
  | [], [], [], _, _, _ => by simp [mkNodes5, GM.Convert.docTrees, pure, Except.pure]
  | [], [], _ :: _, _, h, _ => by simp [AllDTN] at h
  | [], _ :: _, _, _, h, _ => by simp [AllDTN] at h
  | _ :: _, [], _, _, h, _ => by simp [AllDTN] at h
  | _ :: _, _ :: _, [], _, h, _ => by simp [AllDTN] at h
  | _ :: _, _ :: _, _ :: _, [], _, h => by simp at h
  | (p, ls) :: cl, b :: blks, n :: ns, bk :: bs, h, hl => by
    obtain ⟨hdt, hrest⟩ := h
    have ih := docTrees_nodesN env cl blks ns bs hrest (by simpa using hl)
    simp only [mkNodes5, List.map_cons, GM.Convert.docTrees, hdt bk, ih, bind, Except.bind, pure, Except.pure]

theorem allDTN_closed {src : Bytes} (env : GM.Inl.Env) :
    ∀ (items : List (Nat × Raw5)) (ns : List GM.Node) (trail q : Nat), DocAt6 src q items trail →
      AllBlk (BlockDT env) items ns → AllDTN src env (closedOf6 q items) (items.map (·.2)) ns
  | [], [], _, _, _, _ => trivial
  | [], _ :: _, _, _, _, h => h.elim
  | _ :: _, [], _, _, _, h => h.elim
  | (s, b) :: rest, n :: ns, trail, q, h, hb => by
    obtain ⟨_, hpa, hdr⟩ := h
    have hle := docAt6_le rest trail _ hdr
    exact ⟨fun bk => hb.1 _ (q + s) bk hpa (by omega), allDTN_closed env rest ns trail _ hdr hb.2⟩

theorem allDTN_closedE {src : Bytes} (env : GM.Inl.Env) :
    ∀ (items : List (Nat × Raw5)) (ns : List GM.Node) (trail q : Nat), DocAt6E src q items trail →
      AllBlk (fun b n => BlockDT env b n ∧ BlockDTE env b n) items ns →
      AllDTN src env (closedOf6 q items) (items.map (·.2)) ns
  | [], _, _, _, h, _ => h.elim
  | _ :: _, [], _, _, _, h => h.elim
  | [(s, b)], [n], trail, q, h, hb => by
    obtain ⟨_, _, hE⟩ := h
    exact ⟨fun bk => hb.1.2 _ (q + s) bk hE, trivial⟩
  | [(s, b)], n :: n' :: ns, _, _, _, hb => hb.2.elim
  | (s, b) :: it :: rest, n :: ns, trail, q, h, hb => by
    obtain ⟨_, hpa, hdr⟩ := h
    have hle := docAt6E_le (it :: rest) trail _ hdr
    exact ⟨fun bk => hb.1.1 _ (q + s) bk hpa (by omega), allDTN_closedE env (it :: rest) ns trail _ hdr hb.2⟩

theorem allBlk_length {P : Raw5 → GM.Node → Prop} : ∀ (items : List (Nat × Raw5)) (ns : List GM.Node),
    AllBlk P items ns → ns.length = items.length
  | [], [], _ => rfl
  | [], _ :: _, h => h.elim
  | _ :: _, [], h => h.elim
  | _ :: items, _ :: ns, h => by simp [allBlk_length items ns h.2]

/-- the model of `goldmark.Convert` on the source of a stage-6 document whose blocks are good for the block phase, given
    what `docTree` reads from every block and what the renderer writes for the Document of these nodes -/
theorem convert_raw_gen6 (uc : List (Nat × (Bool × Bool))) (items : List (Nat × Raw5)) (trail : Nat)
    (hgood : ∀ it ∈ items, Good5 it.2) (hseps : SepsOK6 none items) (hic : IcOK6 false items)
    (hno : ∀ it ∈ items, ∀ l ∈ lines5 it.2, ∀ c ∈ l, c ≠ 10) (ns : List GM.Node) (html : Bytes)
    (hblk : ∀ env : GM.Inl.Env, env.escapedSpace = false → AllBlk (BlockDT env) items ns)
    (hr : GM.Convert.renderDoc cmOpts (.mk .document none ns) = .ok html) :
    GM.Convert.convertCore uc cmOpts (rawDoc6 items trail) = .ok html := by
  obtain ⟨s', bs, h1, h2, h3, h4⟩ := runT_doc6 items trail hgood hseps hic hno
  have hd := docAt6_raw items trail [] hno
  simp only [List.nil_append, List.length_nil] at hd
  have hall := allDTN_closed (src := rawDoc6 items trail) { refs := s'.pc.refs, uc := uc } items ns trail 0 hd
    (hblk _ rfl)
  have hlen : (closedOf6 0 items).length = items.length := closedOf6_length items 0
  have hml := mkNodes5_length (closedOf6 0 items) (items.map (·.2)) bs (by simp [hlen]) (by rw [hlen]; exact h2)
  have htree : treeOf s'.nodes s'.nodes.length 0 =
      .node (addKids { kind := .document } 0 items.length)
        ((mkNodes5 (closedOf6 0 items) (items.map (·.2)) bs).map fun n => Tree.node n []) := by
    rw [h3]
    have hk := treeOf_kids (mkNodes5 (closedOf6 0 items) (items.map (·.2)) bs).length
      (mkNodes5 (closedOf6 0 items) (items.map (·.2)) bs)
      [addKids { kind := .document } 0 items.length] (mkNodes5_children _ _ _)
    simp only [List.length_cons, treeOf]
    have e1 : ((addKids { kind := .document } 0 items.length ::
        mkNodes5 (closedOf6 0 items) (items.map (·.2)) bs).getD 0 default) =
        addKids { kind := .document } 0 items.length := rfl
    rw [e1]
    have e2 : (addKids { kind := .document } 0 items.length).children =
        List.range' 1 (mkNodes5 (closedOf6 0 items) (items.map (·.2)) bs).length := by
      rw [hml, hlen]; simp [addKids]
    rw [e2]
    congr 1
  have hdt := docTrees_nodesN (src := rawDoc6 items trail) { refs := s'.pc.refs, uc := uc }
    (closedOf6 0 items) (items.map (·.2)) ns bs hall (by rw [hlen]; exact h2)
  unfold GM.Convert.convertCore GM.Convert.convertWith GM.Convert.parseDoc GM.Convert.blockPhase
  have hrun : runT (GM.Convert.paragraphTransformers true) (rawDoc6 items trail) = .ok s' := h1
  simp only [hrun, GM.Convert.liftErr, bind, Except.bind, htree, GM.Convert.docTree, hdt, GM.Convert.inlinePhase,
    addKids, GM.Convert.isRawKind, GM.Convert.blockKind, pure, Except.pure]
  have hit0 : GM.Convert.inlineTrees (rawDoc6 items trail) [] = .ok [] := rfl
  simpa [hit0] using hr

/-- what `convert_raw_gen7L` asks of a block: `BlockDT`, and `BlockDTE` unless the block is an indented code block (an
    indented code block that is the LAST block of a document without final line feed is closed as `node5E`, not as
    `node5`; `LastNotIc` excludes that case) -/
def BlockDTL (env : GM.Inl.Env) (b : Raw5) (n : GM.Node) : Prop :=
  BlockDT env b n ∧ (isIcB b = false → BlockDTE env b n)

theorem allDTN_closedEL {src : Bytes} (env : GM.Inl.Env) :
    ∀ (items : List (Nat × Raw5)) (ns : List GM.Node) (trail q : Nat), DocAt6E src q items trail → LastNotIc items →
      AllBlk (BlockDTL env) items ns → AllDTN src env (closedOf6 q items) (items.map (·.2)) ns
  | [], _, _, _, h, _, _ => h.elim
  | _ :: _, [], _, _, _, _, h => h.elim
  | [(s, b)], [n], trail, q, h, hl, hb => by
    obtain ⟨_, _, hE⟩ := h
    exact ⟨fun bk => hb.1.2 hl _ (q + s) bk hE, trivial⟩
  | [(s, b)], n :: n' :: ns, _, _, _, _, hb => hb.2.elim
  | (s, b) :: it :: rest, n :: ns, trail, q, h, hl, hb => by
    obtain ⟨_, hpa, hdr⟩ := h
    have hle := docAt6E_le (it :: rest) trail _ hdr
    exact ⟨fun bk => hb.1.1 _ (q + s) bk hpa (by omega), allDTN_closedEL env (it :: rest) ns trail _ hdr hl hb.2⟩

theorem allBlk_dtl (env : GM.Inl.Env) : ∀ (items : List (Nat × Raw5)) (ns : List GM.Node),
    AllBlk (fun b n => BlockDT env b n ∧ BlockDTE env b n) items ns → AllBlk (BlockDTL env) items ns
  | [], [], _ => trivial
  | [], _ :: _, h => h.elim
  | _ :: _, [], h => h.elim
  | _ :: items, _ :: ns, h => ⟨⟨h.1.1, fun _ => h.1.2⟩, allBlk_dtl env items ns h.2⟩

/-- the same for a document without the final line feed whose last block is not an indented code block; `BlockDTE`
    is asked only of the blocks that are not indented code blocks (`BlockDTL`) -/
theorem convert_raw_gen7L (uc : List (Nat × (Bool × Bool))) (items : List (Nat × Raw5)) (hne : items ≠ [])
    (hgood : ∀ it ∈ items, Good5 it.2) (hseps : SepsOK6 none items) (hic : IcOK6 false items) (hlast : LastNotIc items)
    (hno : ∀ it ∈ items, lines5 it.2 ≠ [] ∧ (∀ l, (lines5 it.2).getLast? = some l → l ≠ []) ∧
      ∀ l ∈ lines5 it.2, ∀ c ∈ l, c ≠ 10) (ns : List GM.Node) (html : Bytes)
    (hblk : ∀ env : GM.Inl.Env, env.escapedSpace = false → AllBlk (BlockDTL env) items ns)
    (hr : GM.Convert.renderDoc cmOpts (.mk .document none ns) = .ok html) :
    GM.Convert.convertCore uc cmOpts (rawDoc6E items) = .ok html := by
  obtain ⟨s', bs, h1, h2, h3, h4⟩ := runT_doc7 atxOpenE_holds hrOpenE_holds fenceCloseE_holds items hne hgood hseps hic hno
  rw [mkNodes5L_congr node5E node5 _ _ _ (fun b hb p bk => node5E_of_notIc b (lastNotIc_getLast items hlast b hb) p bk),
    mkNodes5L_node5] at h3
  have hd := docAt6E_raw items [] hne hno
  simp only [List.nil_append, List.length_nil] at hd
  have hall := allDTN_closedEL (src := rawDoc6E items) { refs := s'.pc.refs, uc := uc } items ns 0 0 hd hlast
    (hblk _ rfl)
  have hlen : (closedOf6 0 items).length = items.length := closedOf6_length items 0
  have hml := mkNodes5_length (closedOf6 0 items) (items.map (·.2)) bs (by simp [hlen]) (by rw [hlen]; exact h2)
  have htree : treeOf s'.nodes s'.nodes.length 0 =
      .node (addKids { kind := .document } 0 items.length)
        ((mkNodes5 (closedOf6 0 items) (items.map (·.2)) bs).map fun n => Tree.node n []) := by
    rw [h3]
    have hk := treeOf_kids (mkNodes5 (closedOf6 0 items) (items.map (·.2)) bs).length
      (mkNodes5 (closedOf6 0 items) (items.map (·.2)) bs)
      [addKids { kind := .document } 0 items.length] (mkNodes5_children _ _ _)
    simp only [List.length_cons, treeOf]
    have e1 : ((addKids { kind := .document } 0 items.length ::
        mkNodes5 (closedOf6 0 items) (items.map (·.2)) bs).getD 0 default) =
        addKids { kind := .document } 0 items.length := rfl
    rw [e1]
    have e2 : (addKids { kind := .document } 0 items.length).children =
        List.range' 1 (mkNodes5 (closedOf6 0 items) (items.map (·.2)) bs).length := by
      rw [hml, hlen]; simp [addKids]
    rw [e2]
    congr 1
  have hdt := docTrees_nodesN (src := rawDoc6E items) { refs := s'.pc.refs, uc := uc }
    (closedOf6 0 items) (items.map (·.2)) ns bs hall (by rw [hlen]; exact h2)
  unfold GM.Convert.convertCore GM.Convert.convertWith GM.Convert.parseDoc GM.Convert.blockPhase
  have hrun : runT (GM.Convert.paragraphTransformers true) (rawDoc6E items) = .ok s' := h1
  simp only [hrun, GM.Convert.liftErr, bind, Except.bind, htree, GM.Convert.docTree, hdt, GM.Convert.inlinePhase,
    addKids, GM.Convert.isRawKind, GM.Convert.blockKind, pure, Except.pure]
  have hit0 : GM.Convert.inlineTrees (rawDoc6E items) [] = .ok [] := rfl
  simpa [hit0] using hr

/-- the same for a document without the final line feed (`BlockDTE` given for every block) -/
theorem convert_raw_gen7 (uc : List (Nat × (Bool × Bool))) (items : List (Nat × Raw5)) (hne : items ≠ [])
    (hgood : ∀ it ∈ items, Good5 it.2) (hseps : SepsOK6 none items) (hic : IcOK6 false items) (hlast : LastNotIc items)
    (hno : ∀ it ∈ items, lines5 it.2 ≠ [] ∧ (∀ l, (lines5 it.2).getLast? = some l → l ≠ []) ∧
      ∀ l ∈ lines5 it.2, ∀ c ∈ l, c ≠ 10) (ns : List GM.Node) (html : Bytes)
    (hblk : ∀ env : GM.Inl.Env, env.escapedSpace = false →
      AllBlk (fun b n => BlockDT env b n ∧ BlockDTE env b n) items ns)
    (hr : GM.Convert.renderDoc cmOpts (.mk .document none ns) = .ok html) :
    GM.Convert.convertCore uc cmOpts (rawDoc6E items) = .ok html :=
  convert_raw_gen7L uc items hne hgood hseps hic hlast hno ns html
    (fun env henv => allBlk_dtl env items ns (hblk env henv)) hr

/-! ### a paragraph whose inline content is given -/

/-- `docTree` on the closed node of a paragraph with lines `ls`, from what the inline phase and `inlineTrees` make of
    its line segments -/
theorem docTree_para_gen {src : Bytes} (env : GM.Inl.Env) (ls : List Bytes) (p : Nat) (bk : Bool)
    (hne : ls ≠ []) (hnel : ∀ l ∈ ls, l ≠ []) (h : LinesAtE src p ls) (kids : List GM.Inl.Node) (ns : List GM.Node)
    (hpb : GM.Inl.parseBlock env src (paraSegs p ls) = .ok kids)
    (hit : GM.Convert.inlineTrees src kids = .ok ns) :
    GM.Convert.docTree true env src (.node (node5 p (.old (.para ls)) bk) []) = .ok (.mk .paragraph none ns) := by
  have hw := wf0B_linesE ls p hne h hnel
  have hle : (paraSegs p ls).isEmpty = false := by
    cases ls with
    | nil => exact absurd rfl hne
    | cons l rest => cases rest <;> simp [paraSegs]
  have hlines : (node5 p (.old (.para ls)) bk).lines = paraSegs p ls := rfl
  have hraw : GM.Convert.isRawKind (node5 p (.old (.para ls)) bk).kind = false := rfl
  have hK : GM.Convert.blockKind src (node5 p (.old (.para ls)) bk) = .ok .paragraph := rfl
  simp only [GM.Convert.docTree, GM.Convert.docTrees, GM.Convert.inlinePhase, hraw, hlines, hle, hw,
    hpb, GM.Convert.liftErr, hK, bind, Except.bind, pure, Except.pure]
  simp [hit]

/-- a paragraph block whose inline content is given for every placement in a source -/
theorem blockDT_para (env : GM.Inl.Env) (ls : List Bytes) (hne : ls ≠ []) (hnel : ∀ l ∈ ls, l ≠ [])
    (kidsAt : Nat → List GM.Inl.Node) (ns : List GM.Node)
    (hpb : ∀ src p, LinesAtE src p ls → GM.Inl.parseBlock env src (paraSegs p ls) = .ok (kidsAt p))
    (hit : ∀ src p, LinesAtE src p ls → GM.Convert.inlineTrees src (kidsAt p) = .ok ns) :
    BlockDT env (.old (.para ls)) (.mk .paragraph none ns) ∧ BlockDTE env (.old (.para ls)) (.mk .paragraph none ns) := by
  refine ⟨?_, ?_⟩
  · intro src p bk hpa _
    have hl : LinesAtE src p ls := linesAtE_of_paraAtLfE ls p (by simpa [lines5, lines4] using hpa)
    exact docTree_para_gen env ls p bk hne hnel hl _ ns (hpb src p hl) (hit src p hl)
  · intro src p bk hpa
    have hl : LinesAtE src p ls := linesAtE_of_paraAtE ls p (by simpa [lines5, lines4] using hpa)
    exact docTree_para_gen env ls p bk hne hnel hl _ ns (hpb src p hl) (hit src p hl)

end GM.Proof.CMFrag
