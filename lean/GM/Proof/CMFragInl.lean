/-
  GM.Proof.CMFragInl — the inline phase on a paragraph of "good" lines: exact symbolic execution of
  `GM.Inl.parseBlock` (one Text node per line). Core Lean only.
-/
import GM.Proof.CMFragDefs

namespace GM.Proof.CMFrag
open GM GM.Text GM.Inl

/-! ### bytes -/

theorem sub_prefix (src : Bytes) (a n : Nat) (l : Bytes) (c : UInt8) (hl : l.length = n)
    (h : sub src a (a + n + 1) = l ++ [c]) : sub src a (a + n) = l := by
  unfold sub at *
  have h1 : a + n + 1 - a = n + 1 := by omega
  have h2 : a + n - a = n := by omega
  rw [h1] at h; rw [h2]
  have : List.take n (List.take (n + 1) (List.drop a src)) = List.take n (l ++ [c]) := by rw [h]
  rw [List.take_take] at this
  have hm : min n (n + 1) = n := by omega
  rw [hm] at this
  rw [this, ← hl]; simp

theorem sub_mid (pre l post : Bytes) : sub (pre ++ l ++ post) pre.length (pre.length + l.length) = l := by
  unfold sub
  have : pre.length + l.length - pre.length = l.length := by omega
  rw [this, List.append_assoc, List.drop_left, List.take_left]

/-- the lines `ls`, each with its line feed, sit in `src` from offset `p` on -/
def LinesAt (src : Bytes) : Nat → List Bytes → Prop
  | _, [] => True
  | p, l :: rest =>
    sub src p (p + l.length + 1) = l ++ [10] ∧ p + l.length + 1 ≤ src.length ∧ LinesAt src (p + l.length + 1) rest

theorem linesAt_para : ∀ (ls : List Bytes) (pre post : Bytes), LinesAt (pre ++ paraBytes ls ++ post) pre.length ls
  | [], _, _ => trivial
  | l :: rest, pre, post => by
    have e : pre ++ paraBytes (l :: rest) ++ post = (pre ++ (l ++ [10])) ++ paraBytes rest ++ post := by
      simp [paraBytes]
    refine ⟨?_, ?_, ?_⟩
    · have := sub_mid pre (l ++ [10]) (paraBytes rest ++ post)
      simp only [List.length_append, List.length_cons, List.length_nil] at this
      rw [show pre ++ paraBytes (l :: rest) ++ post = pre ++ (l ++ [10]) ++ (paraBytes rest ++ post) by
        simp [paraBytes]]
      rw [show pre.length + l.length + 1 = pre.length + (l.length + (0 + 1)) by omega]
      exact this
    · simp [paraBytes]; omega
    · rw [e]
      have := linesAt_para rest (pre ++ (l ++ [10])) post
      simp only [List.length_append, List.length_cons, List.length_nil] at this
      rw [show pre.length + l.length + 1 = pre.length + (l.length + (0 + 1)) by omega]
      exact this

/-! ### the byte loop -/

/-- the `escaped` flag after the bytes `l` -/
def escAfter : Bytes → Bool → Bool
  | [], e => e
  | c :: cs, e => escAfter cs (!e && c == 92)

theorem escAfter_concat : ∀ (l : Bytes) (c : UInt8) (e : Bool), escAfter (l ++ [c]) e = (!(escAfter l e) && c == 92)
  | [], _, _ => rfl
  | _ :: cs, c, e => by simp only [List.cons_append, escAfter]; exact escAfter_concat cs c _

theorem bump_eq (c : UInt8) (s : Inl.Scan) : bump c s = { s with escaped := (!s.escaped && c == 92), n := s.n + 1 } := by
  unfold bump
  cases h : s.escaped <;> cases h2 : (c == 92) <;> simp

theorem isTrigger_env (env : Env) (henv : env.escapedSpace = false) (c : UInt8) (i : Nat) (e : Bool) :
    isTrigger env c i e = isTrigger {} c i e := by
  simp [isTrigger, henv]

theorem scan_quiet (env : Env) (henv : env.escapedSpace = false) :
    ∀ (l tail : Bytes) (i : Nat) (s : Inl.Scan), quiet l i s.escaped = true → (tail = [] ∨ tail.head? = some 10) →
      scan env (l ++ tail) i s = .ok (.eol { s with n := s.n + l.length, escaped := escAfter l s.escaped })
  | [], tail, i, s, _, ht => by
    rcases ht with rfl | ht
    · simp [scan, escAfter, pure, Except.pure]
    · cases tail with
      | nil => simp at ht
      | cons c cs =>
        simp at ht; subst ht
        simp [scan, escAfter, pure, Except.pure]
  | c :: cs, tail, i, s, hq, ht => by
    simp only [quiet, Bool.and_eq_true] at hq
    obtain ⟨⟨h10, htr⟩, hq⟩ := hq
    have h10' : (c == 10) = false := by simpa using h10
    simp only [List.cons_append, scan, h10', Bool.false_eq_true, if_false]
    rw [isTrigger_env env henv]
    have htr' : (isTrigger {} c i s.escaped && !(parsersFor (parserChar c i)).isEmpty) = false := by
      revert htr; cases (isTrigger {} c i s.escaped && !(parsersFor (parserChar c i)).isEmpty) <;> simp
    rw [htr']
    simp only [Bool.false_eq_true, if_false]
    have := scan_quiet env henv cs tail (i + 1) (bump c s) (by rw [bump_eq]; exact hq) ht
    rw [this, bump_eq]
    simp only [escAfter, List.length_cons, Int.natCast_add, Int.natCast_one]
    congr 3
    omega

/-! ### classify, trimRightSpace -/

theorem trailingBackslashes_concat (l0 : Bytes) (c : UInt8) (h : c ≠ 92) : trailingBackslashes (l0 ++ [c]) = 0 := by
  simp [trailingBackslashes, h]

theorem trimRight_concat (l0 : Bytes) (c : UInt8) (h : isSpace c = false) : trimRightSpaceLength (l0 ++ [c]) = 0 := by
  simp [trimRightSpaceLength, h]

theorem classify_lf (l0 : Bytes) (c : UInt8) (hs : isSpace c = false) (hb : c ≠ 92) :
    classify (l0 ++ [c] ++ [10]) = (l0.length + 2, 2) := by
  have h13 : c ≠ 13 := by intro h; subst h; simp [isSpace] at hs
  have h32 : c ≠ 32 := by intro h; subst h; simp [isSpace] at hs
  have e1 : (l0 ++ [c] ++ [10])[(l0 ++ [c] ++ [10]).length - 1]? = some 10 := by simp
  have e2 : (l0 ++ [c] ++ [10])[(l0 ++ [c] ++ [10]).length - 2]? = some c := by
    simp
  have e3 : List.take ((l0 ++ [c] ++ [10]).length - 1) (l0 ++ [c] ++ [10]) = l0 ++ [c] := by
    apply List.take_left'
    simp
  unfold classify
  simp only [e1, e2, e3, trailingBackslashes_concat l0 c hb]
  simp [h13, h32]

theorem classify_nolf (l0 : Bytes) (c : UInt8) (h : c ≠ 10) : classify (l0 ++ [c]) = (l0.length + 1, 0) := by
  have e1 : (l0 ++ [c])[(l0 ++ [c]).length - 1]? = some c := by simp
  unfold classify
  simp only [e1]
  simp [h]

/-! ### the reader -/

/-- the block reader of the paragraph on line `j` at position `pos`, line start `head` -/
def rdAt (src : Bytes) (segs : List Segment) (L : Int) (j : Int) (pos : Segment) (head : Int) : BlockReader :=
  { source := src, segments := segs, segmentsLength := segs.length, line := j, pos := pos, head := head,
    last := L, lineOffset := -1 }

theorem sliceB_nat (src : Bytes) (p n : Nat) (h : p + n ≤ src.length) :
    sliceB src (p : Int) ((p : Int) + (n : Int)) = .ok (sub src p (p + n)) := by
  unfold sliceB
  rw [if_pos (by omega)]
  congr 2 <;> omega

theorem value_plain (src : Bytes) (a b : Int) : Segment.value { start := a, stop := b } src = sliceB src a b := by
  unfold Segment.value
  simp only [beq_self_eq_true, if_true, needsNewline, Bool.false_and, bind, Except.bind, pure, Except.pure]
  cases sliceB src a b <;> simp

example (p : Nat) (l l' : Bytes) (rest : List Bytes) : paraSegs p (l :: l' :: rest) =
  { start := (p:Int), stop := (p:Int) + (l.length:Int) + 1 } :: paraSegs (p + l.length + 1) (l' :: rest) := rfl
example (p : Nat) (l : Bytes) : paraSegs p [l] = [{ start := (p:Int), stop := (p:Int) + (l.length:Int) }] := rfl


theorem lineLoop_eol (env : Env) (fuel : Nat) (esc : Bool) (st st' : St) (line : Bytes) (seg : Segment)
    (s : Inl.Scan) (hp : st.rd.peekLine = .ok ((some line, seg), st.rd)) (hne : line.isEmpty = false)
    (hscan : scan env (line.take (classify line).1) 0 { st := st, n := 0, sp := st.rd.pos, escaped := esc } =
      .ok (.eol s))
    (heol : endOfLine (classify line).2 st.rd.line s = .ok st') (hesc : s.escaped = false) :
    lineLoop env (fuel + 1) esc st = lineLoop env fuel false st' := by
  -- `hesc` makes the statement independent of whether the model passes `s.escaped` or `false` to the next line
  rw [lineLoop]
  simp only [bind, Except.bind, hp, hne, BlockReader.position, hscan, heol]
  first | (simp; done) | (simp [hesc]; done)

theorem lineLoop_none (env : Env) (fuel : Nat) (esc : Bool) (st : St) (seg : Segment)
    (hp : st.rd.peekLine = .ok ((none, seg), st.rd)) :
    lineLoop env (fuel + 1) esc st = .ok st := by
  rw [lineLoop]
  simp only [bind, Except.bind, hp, pure, Except.pure]


theorem eolText_plain (src : Bytes) (flags p : Nat) (l l0 : Bytes) (c : UInt8) (ks : List Inl.Node)
    (hf : flags % 2 = 0) (hl : l = l0 ++ [c]) (hs : isSpace c = false)
    (hv : sliceB src (p : Int) ((p : Int) + l.length) = .ok l) :
    eolText src flags { start := p, stop := (p : Int) + l.length } ks =
      .ok ({ start := p, stop := (p : Int) + l.length }, ks) := by
  have ht : trimRightSpaceLength l = 0 := by rw [hl]; exact trimRight_concat l0 c hs
  have hlen0 : l.length ≠ 0 := by subst hl; simp
  unfold eolText
  simp only [hf, Segment.trimRightSpace, hv, ht, bind, Except.bind, pure, Except.pure]
  have : ((0 : Nat) == l.length) = false := by simp; omega
  simp only [this]
  simp [Segment.isEmpty]
  omega

theorem advanceLine_next (src : Bytes) (segs : List Segment) (L : Int) (j : Nat) (pos seg' : Segment) (hd : Int)
    (hnext : segs[j + 1]? = some seg') :
    (rdAt src segs L j pos hd).advanceLine = .ok (rdAt src segs L (j + 1) seg' seg'.start) := by
  have hj : j + 1 < segs.length := (List.getElem?_eq_some_iff.mp hnext).1
  unfold BlockReader.advanceLine BlockReader.setPosition
  simp only [rdAt, bind, Except.bind, pure, Except.pure]
  have h1 : ((j : Int) + 1 < (segs.length : Int)) := by omega
  have h2 : segAt segs ((j : Int) + 1) = .ok seg' := by
    unfold segAt
    rw [if_neg (by omega)]
    have : ((j : Int) + 1).toNat = j + 1 := by omega
    rw [this, hnext]
  simp [h1, h2]

theorem advance_fast (src : Bytes) (segs : List Segment) (L : Int) (j : Int) (a b hd n : Int) (h : n < b - a) :
    (rdAt src segs L j { start := a, stop := b } hd).advance n =
      .ok (rdAt src segs L j { start := a + n, stop := b } hd) := by
  unfold BlockReader.advance
  simp only [rdAt, beq_self_eq_true, and_true, if_pos h, pure, Except.pure]

theorem endOfLine_mid (src : Bytes) (segs : List Segment) (L : Int)
    (j p : Nat) (l l0 : Bytes) (c : UInt8) (seg' : Segment) (ks : List Inl.Node) (nid : Nat) (bs : List Bottom)
    (e : Bool) (hl : l = l0 ++ [c]) (hs : isSpace c = false)
    (hsub : sub src p (p + l.length) = l) (hlen : p + l.length ≤ src.length)
    (hnext : segs[j + 1]? = some seg') :
    endOfLine 2 j
      { st := { rd := rdAt src segs L j { start := p, stop := (p : Int) + l.length + 1 } p, kids := ks,
                nextId := nid, bottoms := bs },
        n := l.length, sp := { start := p, stop := (p : Int) + l.length + 1 }, escaped := e } =
    .ok { rd := rdAt src segs L (j + 1) seg' seg'.start,
          kids := ks ++ [.text { start := p, stop := (p : Int) + l.length } true false false], nextId := nid,
          bottoms := bs } := by
  have hlen0 : l.length ≠ 0 := by subst hl; simp
  have hv : sliceB src (p : Int) ((p : Int) + l.length) = .ok l := by
    rw [sliceB_nat src p l.length hlen, hsub]
  have hj : j + 1 < segs.length := (List.getElem?_eq_some_iff.mp hnext).1
  have hn : (((l.length : Nat) : Int) != 0) = true := by simp; intro h; simp [h] at hlen0
  unfold endOfLine
  simp only [hn, if_true, bind, Except.bind]
  rw [advance_fast _ _ _ _ _ _ _ _ (by omega)]
  simp only [BlockReader.position, rdAt, bne_self_eq_false, Bool.false_eq_true, if_false, Segment.between]
  simp only [Int.sub_self, pure, Except.pure]
  rw [eolText_plain src 2 p l l0 c ks rfl hl hs hv]
  have ha := advanceLine_next src segs L j { start := (p : Int) + l.length, stop := (p : Int) + l.length + 1 }
    seg' p hnext
  simp only [rdAt] at ha
  simp only [ha]
  rfl


theorem escAfter_good (l l0 : Bytes) (c : UInt8) (hl : l = l0 ++ [c]) (hb : c ≠ 92) (e : Bool) :
    escAfter l e = false := by
  subst hl
  rw [escAfter_concat]
  simp [hb]

theorem line_step (env : Env) (henv : env.escapedSpace = false) (src : Bytes) (segs : List Segment) (L : Int)
    (j p : Nat) (l l0 : Bytes) (c : UInt8) (seg' : Segment) (ks : List Inl.Node) (nid : Nat) (bs : List Bottom)
    (fuel : Nat) (hl : l = l0 ++ [c]) (hs : isSpace c = false) (hb : c ≠ 92) (hq : quiet l 0 false = true)
    (hsub : sub src p (p + l.length + 1) = l ++ [10]) (hlen : p + l.length + 1 ≤ src.length)
    (hL : (p : Int) < L) (hnext : segs[j + 1]? = some seg') :
    lineLoop env (fuel + 1) false
      { rd := rdAt src segs L j { start := p, stop := (p : Int) + l.length + 1 } p, kids := ks, nextId := nid,
        bottoms := bs } =
    lineLoop env fuel false
      { rd := rdAt src segs L (j + 1) seg' seg'.start,
        kids := ks ++ [.text { start := p, stop := (p : Int) + l.length } true false false], nextId := nid,
        bottoms := bs } := by
  have hv : sliceB src (p : Int) ((p : Int) + l.length + 1) = .ok (l ++ [10]) := by
    have := sliceB_nat src p (l.length + 1) (by omega)
    rw [show p + (l.length + 1) = p + l.length + 1 by omega, hsub] at this
    rw [← this]; congr 1
  have hlive : (rdAt src segs L j { start := p, stop := (p : Int) + l.length + 1 } p).live = true := by
    have : j < segs.length := by
      have := (List.getElem?_eq_some_iff.mp hnext).1; omega
    simp [BlockReader.live, rdAt, this, hL]
  have hcl : classify (l ++ [10]) = (l.length + 1, 2) := by
    rw [hl, classify_lf l0 c hs hb]; simp
  have hsub' : sub src p (p + l.length) = l := sub_prefix src p l.length l 10 rfl hsub
  have hsc := scan_quiet env henv l [10] 0
    { st := { rd := rdAt src segs L j { start := p, stop := (p : Int) + l.length + 1 } p, kids := ks, nextId := nid, bottoms := bs },
      n := 0, sp := { start := p, stop := (p : Int) + l.length + 1 }, escaped := false } hq (Or.inr rfl)
  rw [escAfter_good l l0 c hl hb] at hsc
  simp only [Int.zero_add] at hsc
  have heol := endOfLine_mid src segs L j p l l0 c seg' ks nid bs false hl hs hsub' (by omega) hnext
  refine lineLoop_eol env fuel false _ _ (l ++ [10]) { start := p, stop := (p : Int) + l.length + 1 }
    { st := { rd := rdAt src segs L j { start := p, stop := (p : Int) + l.length + 1 } p, kids := ks, nextId := nid, bottoms := bs },
      n := l.length, sp := { start := p, stop := (p : Int) + l.length + 1 }, escaped := false } ?_ ?_ ?_ ?_ rfl
  · simp only [BlockReader.peekLine, hlive, if_true, bind, Except.bind, pure, Except.pure]
    simp only [rdAt, value_plain, hv]
  · simp
  · rw [hcl]
    have : List.take (l.length + 1) (l ++ [10]) = l ++ [10] := by
      apply List.take_of_length_le; simp
    simp only [this]
    exact hsc
  · rw [hcl]
    exact heol

/-! ### the last line -/

theorem advanceLoop_last (src : Bytes) (segs : List Segment) (j b hd : Int) :
    ∀ (n : Nat) (a : Int), (rdAt src segs b j { start := a, stop := b } hd).advanceLoop n =
      .ok (rdAt src segs b j { start := a + n, stop := b } hd)
  | 0, a => by simp [BlockReader.advanceLoop, pure, Except.pure]
  | n + 1, a => by
    unfold BlockReader.advanceLoop
    have h := advanceLoop_last src segs j b hd n (a + 1)
    simp only [rdAt] at h ⊢
    simp only [bne_self_eq_false, Bool.false_eq_true, if_false, Int.lt_irrefl, and_false]
    rw [h]
    have : a + 1 + (n : Int) = a + ((n + 1 : Nat) : Int) := by omega
    rw [this]

theorem advanceLine_end (src : Bytes) (segs : List Segment) (L : Int) (j : Nat) (pos : Segment) (hd : Int)
    (hj : j + 1 = segs.length) :
    (rdAt src segs L j pos hd).advanceLine = .ok (rdAt src segs L (j + 1) pos pos.start) := by
  unfold BlockReader.advanceLine BlockReader.setPosition
  simp only [rdAt, bind, Except.bind, pure, Except.pure]
  have h1 : ¬ ((j : Int) + 1 < (segs.length : Int)) := by omega
  simp [h1]

theorem endOfLine_last (src : Bytes) (segs : List Segment)
    (j p : Nat) (l l0 : Bytes) (c : UInt8) (ks : List Inl.Node) (nid : Nat) (bs : List Bottom)
    (e : Bool) (hl : l = l0 ++ [c]) (hs : isSpace c = false)
    (hsub : sub src p (p + l.length) = l) (hlen : p + l.length ≤ src.length)
    (hj : j + 1 = segs.length) :
    endOfLine 0 j
      { st := { rd := rdAt src segs ((p : Int) + l.length) j { start := p, stop := (p : Int) + l.length } p, kids := ks, nextId := nid, bottoms := bs },
        n := l.length, sp := { start := p, stop := (p : Int) + l.length }, escaped := e } =
    .ok { rd := rdAt src segs ((p : Int) + l.length) (j + 1) { start := (p : Int) + l.length, stop := (p : Int) + l.length } ((p : Int) + l.length),
          kids := ks ++ [.text { start := p, stop := (p : Int) + l.length } false false false], nextId := nid,
          bottoms := bs } := by
  have hlen0 : l.length ≠ 0 := by subst hl; simp
  have hv : sliceB src (p : Int) ((p : Int) + l.length) = .ok l := by
    rw [sliceB_nat src p l.length hlen, hsub]
  have hn : (((l.length : Nat) : Int) != 0) = true := by simp; intro h; simp [h] at hlen0
  have hadv : (rdAt src segs ((p : Int) + l.length) j { start := p, stop := (p : Int) + l.length } p).advance l.length
      = .ok (rdAt src segs ((p : Int) + l.length) j { start := (p : Int) + l.length, stop := (p : Int) + l.length } p) := by
    unfold BlockReader.advance
    have hlt : ¬ (((l.length : Nat) : Int) < (p : Int) + l.length - p) := by omega
    simp only [rdAt, hlt, false_and, if_false, Int.toNat_natCast]
    exact advanceLoop_last src segs j _ p l.length p
  unfold endOfLine
  simp only [hn, if_true, bind, Except.bind, hadv]
  simp only [BlockReader.position, rdAt, bne_self_eq_false, Bool.false_eq_true, if_false, Segment.between]
  simp only [Int.sub_self, pure, Except.pure]
  rw [eolText_plain src 0 p l l0 c ks rfl hl hs hv]
  have ha := advanceLine_end src segs ((p : Int) + l.length) j
    { start := (p : Int) + l.length, stop := (p : Int) + l.length } p hj
  simp only [rdAt] at ha
  simp only [ha]
  rfl

theorem last_step (env : Env) (henv : env.escapedSpace = false) (src : Bytes) (segs : List Segment)
    (j p : Nat) (l l0 : Bytes) (c : UInt8) (ks : List Inl.Node) (nid : Nat) (bs : List Bottom)
    (fuel : Nat) (hl : l = l0 ++ [c]) (hs : isSpace c = false) (hb : c ≠ 92) (hq : quiet l 0 false = true)
    (hsub : sub src p (p + l.length) = l) (hlen : p + l.length ≤ src.length) (hj : j + 1 = segs.length) :
    lineLoop env (fuel + 2) false
      { rd := rdAt src segs ((p : Int) + l.length) j { start := p, stop := (p : Int) + l.length } p, kids := ks, nextId := nid, bottoms := bs } =
    .ok { rd := rdAt src segs ((p : Int) + l.length) (j + 1) { start := (p : Int) + l.length, stop := (p : Int) + l.length } ((p : Int) + l.length),
          kids := ks ++ [.text { start := p, stop := (p : Int) + l.length } false false false], nextId := nid, bottoms := bs } := by
  have hlen0 : l.length ≠ 0 := by subst hl; simp
  have hv : sliceB src (p : Int) ((p : Int) + l.length) = .ok l := by
    rw [sliceB_nat src p l.length hlen, hsub]
  have hlive : (rdAt src segs ((p : Int) + l.length) j { start := p, stop := (p : Int) + l.length } p).live = true := by
    have : j < segs.length := by omega
    simp only [BlockReader.live, rdAt]
    have h2 : (p : Int) < (p : Int) + l.length := by omega
    simp [this, h2]
  have hc10 : c ≠ 10 := by intro h; subst h; simp [isSpace] at hs
  have hcl : classify l = (l.length, 0) := by
    rw [hl, classify_nolf l0 c hc10]; simp
  have hsc := scan_quiet env henv l [] 0
    { st := { rd := rdAt src segs ((p : Int) + l.length) j { start := p, stop := (p : Int) + l.length } p, kids := ks, nextId := nid, bottoms := bs },
      n := 0, sp := { start := p, stop := (p : Int) + l.length }, escaped := false } hq (Or.inl rfl)
  rw [escAfter_good l l0 c hl hb] at hsc
  simp only [Int.zero_add, List.append_nil] at hsc
  have heol := endOfLine_last src segs j p l l0 c ks nid bs false hl hs hsub hlen hj
  rw [lineLoop_eol env (fuel + 1) false _ _ l { start := p, stop := (p : Int) + l.length }
    { st := { rd := rdAt src segs ((p : Int) + l.length) j { start := p, stop := (p : Int) + l.length } p, kids := ks, nextId := nid, bottoms := bs },
      n := l.length, sp := { start := p, stop := (p : Int) + l.length }, escaped := false } ?_ ?_ ?_ ?_ rfl]
  · apply lineLoop_none env fuel false _ { start := (p : Int) + l.length, stop := (p : Int) + l.length }
    have hnl : (rdAt src segs ((p : Int) + l.length) (j + 1) { start := (p : Int) + l.length, stop := (p : Int) + l.length } ((p : Int) + l.length)).live = false := by
      have : ¬ ((j : Int) + 1 < (segs.length : Int)) := by omega
      simp [BlockReader.live, rdAt, this]
    simp only [BlockReader.peekLine, hnl, Bool.false_eq_true, if_false, pure, Except.pure]
    rfl
  · simp only [BlockReader.peekLine, hlive, if_true, bind, Except.bind, pure, Except.pure]
    simp only [rdAt, value_plain, hv]
  · cases l with
    | nil => simp at hlen0
    | cons _ _ => rfl
  · rw [hcl]
    simp only [List.take_length]
    exact hsc
  · rw [hcl]
    exact heol

/-! ### the whole paragraph -/

/-- where the paragraph's last segment stops -/
def paraEnd : Nat → List Bytes → Nat
  | p, [] => p
  | p, [l] => p + l.length
  | p, l :: l' :: rest => paraEnd (p + l.length + 1) (l' :: rest)

theorem paraEnd_ge : ∀ (ls : List Bytes) (p : Nat), p ≤ paraEnd p ls
  | [], _ => Nat.le_refl _
  | [l], p => by simp [paraEnd]
  | l :: l' :: rest, p => by
    have := paraEnd_ge (l' :: rest) (p + l.length + 1)
    simp only [paraEnd]; omega

theorem paraSegs_length : ∀ (ls : List Bytes) (p : Nat), (paraSegs p ls).length = ls.length
  | [], _ => rfl
  | [l], p => rfl
  | l :: l' :: rest, p => by
    simp only [paraSegs, List.length_cons, paraSegs_length (l' :: rest)]

theorem good_concat {l : Bytes} (h : GoodLine l) :
    ∃ l0 c, l = l0 ++ [c] ∧ isSpace c = false ∧ c ≠ 92 := by
  rcases List.eq_nil_or_concat l with h0 | ⟨l0, c, hl⟩
  · exact absurd h0 h.ne
  · have hl : l = l0 ++ [c] := by simpa using hl
    exact ⟨l0, c, hl, h.lastNoSpace c (by simp [hl]), h.lastNoBs c (by simp [hl])⟩

theorem loop_quiet (env : Env) (henv : env.escapedSpace = false) (src : Bytes) (segs : List Segment) (L : Int)
    (nid : Nat) (bs : List Bottom) :
    ∀ (ls : List Bytes) (p : Nat) (done : List Segment) (ks : List Inl.Node) (fuel : Nat), ls ≠ [] →
      (∀ l ∈ ls, GoodLine l) → LinesAt src p ls → segs = done ++ paraSegs p ls → L = (paraEnd p ls : Nat) →
      ls.length + 1 ≤ fuel →
      ∃ rd', lineLoop env fuel false
        { rd := rdAt src segs L done.length ((paraSegs p ls).headD default) p, kids := ks, nextId := nid, bottoms := bs } =
        .ok { rd := rd', kids := ks ++ paraKids p ls, nextId := nid, bottoms := bs }
  | [], _, _, _, _, h, _, _, _, _, _ => absurd rfl h
  | [l], p, done, ks, fuel, _, hg, hla, hsegs, hL, hf => by
    obtain ⟨l0, c, hl, hs, hb⟩ := good_concat (hg l (by simp))
    obtain ⟨hsub, hlen, _⟩ := hla
    have hsub' : sub src p (p + l.length) = l := sub_prefix src p l.length l 10 rfl hsub
    obtain ⟨f, rfl⟩ : ∃ f, fuel = f + 2 := ⟨fuel - 2, by simp at hf; omega⟩
    have hL' : L = (p : Int) + l.length := by simp [hL, paraEnd]
    subst hL'
    have := last_step env henv src segs done.length p l l0 c ks nid bs f hl hs hb (hg l (by simp)).quiet hsub'
      (by omega) (by simp [hsegs, paraSegs])
    exact ⟨_, this⟩
  | l :: l' :: rest, p, done, ks, fuel, _, hg, hla, hsegs, hL, hf => by
    obtain ⟨l0, c, hl, hs, hb⟩ := good_concat (hg l (by simp))
    obtain ⟨hsub, hlen, hla'⟩ := hla
    obtain ⟨f, rfl⟩ : ∃ f, fuel = f + 1 := ⟨fuel - 1, by simp at hf; omega⟩
    have hpL : (p : Int) < L := by
      have := paraEnd_ge (l' :: rest) (p + l.length + 1)
      simp only [paraEnd] at hL
      omega
    have hsegs' : segs = (done ++ [{ start := (p : Int), stop := (p : Int) + l.length + 1 }]) ++
        paraSegs (p + l.length + 1) (l' :: rest) := by
      rw [hsegs]; simp [paraSegs]
    have hnext : segs[done.length + 1]? = some ((paraSegs (p + l.length + 1) (l' :: rest)).headD default) := by
      rw [hsegs']
      rw [List.getElem?_append_right (by simp)]
      simp only [List.length_append, List.length_cons, List.length_nil, Nat.zero_add, Nat.sub_self]
      cases rest <;> rfl
    have hstep := line_step env henv src segs L done.length p l l0 c _ ks nid bs f hl hs hb (hg l (by simp)).quiet
      hsub hlen hpL hnext
    obtain ⟨rd', ih⟩ := loop_quiet env henv src segs L nid bs (l' :: rest) (p + l.length + 1)
      (done ++ [{ start := (p : Int), stop := (p : Int) + l.length + 1 }])
      (ks ++ [.text { start := p, stop := (p : Int) + l.length } true false false]) f (by simp)
      (fun x hx => hg x (by simp at hx ⊢; right; exact hx)) hla' hsegs' (by rw [hL]; rfl) (by simp at hf ⊢; omega)
    refine ⟨rd', ?_⟩
    have e1 : (paraSegs p (l :: l' :: rest)).headD default = { start := (p : Int), stop := (p : Int) + l.length + 1 } := rfl
    rw [e1, hstep]
    have e2 : ((done ++ [({ start := (p : Int), stop := (p : Int) + l.length + 1 } : Segment)]).length : Int) = (done.length : Int) + 1 := by
      simp
    rw [e2] at ih
    have e3 : ((paraSegs (p + l.length + 1) (l' :: rest)).headD default).start = ((p + l.length + 1 : Nat) : Int) := by
      cases rest <;> rfl
    rw [e3, ih]
    simp [paraKids]

theorem new_eq (src : Bytes) (segs : List Segment) (s0 sl : Segment) (h0 : segs[0]? = some s0)
    (hl : segs[segs.length - 1]? = some sl) :
    BlockReader.new src segs = .ok (rdAt src segs sl.stop 0 s0 s0.start) := by
  have hpos : 0 < segs.length := (List.getElem?_eq_some_iff.mp h0).1
  have hlast : segAt segs ((segs.length : Int) - 1) = .ok sl := by
    unfold segAt
    rw [if_neg (by omega)]
    have : ((segs.length : Int) - 1).toNat = segs.length - 1 := by omega
    rw [this, hl]
  have hfirst : segAt segs 0 = .ok s0 := by
    unfold segAt
    simp [h0]
  have hgt : ((segs.length : Int) > 0) := by omega
  unfold BlockReader.new BlockReader.resetPosition BlockReader.advanceLine BlockReader.setPosition
  simp only [hgt, if_true, hlast, bind, Except.bind, pure, Except.pure]
  simp [hfirst, rdAt, hpos]

theorem paraSegs_last : ∀ (ls : List Bytes) (p : Nat), ls ≠ [] →
    ∃ s, (paraSegs p ls)[(paraSegs p ls).length - 1]? = some s ∧ s.stop = (paraEnd p ls : Nat)
  | [], _, h => absurd rfl h
  | [l], p, _ => ⟨_, rfl, by simp [paraEnd]⟩
  | l :: l' :: rest, p, _ => by
    obtain ⟨s, h1, h2⟩ := paraSegs_last (l' :: rest) (p + l.length + 1) (by simp)
    refine ⟨s, ?_, by rw [h2]; rfl⟩
    rw [paraSegs_length] at h1 ⊢
    simp only [paraSegs]
    simpa using h1

theorem paraSegs_head (ls : List Bytes) (p : Nat) (h : ls ≠ []) :
    (paraSegs p ls)[0]? = some ((paraSegs p ls).headD default) ∧ ((paraSegs p ls).headD default).start = p := by
  match ls, h with
  | [l], _ => exact ⟨rfl, rfl⟩
  | l :: l' :: rest, _ => exact ⟨rfl, rfl⟩

theorem new_para (src : Bytes) (ls : List Bytes) (p : Nat) (h : ls ≠ []) :
    BlockReader.new src (paraSegs p ls) =
      .ok (rdAt src (paraSegs p ls) (paraEnd p ls : Nat) 0 ((paraSegs p ls).headD default) p) := by
  obtain ⟨s, h1, h2⟩ := paraSegs_last ls p h
  obtain ⟨h3, h4⟩ := paraSegs_head ls p h
  rw [new_eq src _ _ s h3 h1, h2, h4]

/-! ### after the loop -/

def allText : List Inl.Node → Prop
  | [] => True
  | .text .. :: rest => allText rest
  | _ :: _ => False

theorem allText_append : ∀ (a b : List Inl.Node), allText a → allText b → allText (a ++ b)
  | [], _, _, hb => hb
  | .text .. :: rest, b, ha, hb => allText_append rest b ha hb

theorem splitFirstDelim_text : ∀ (ks : List Inl.Node), allText ks → splitFirstDelim ks = none
  | [], _ => rfl
  | .text .. :: rest, h => by
    simp only [splitFirstDelim, splitFirstDelim_text rest h]

theorem allText_reverse : ∀ (ks : List Inl.Node), allText ks → allText ks.reverse
  | [], _ => trivial
  | .text a b c d :: rest, h => by
    rw [List.reverse_cons]
    exact allText_append _ _ (allText_reverse rest h) trivial

theorem processDelimiters_text (ks : List Inl.Node) (h : allText ks) : processDelimiters .nil ks = .ok ks := by
  unfold processDelimiters splitLastDelim
  rw [splitFirstDelim_text _ (allText_reverse ks h)]

theorem closeLabelsL_text : ∀ (ks : List Inl.Node), allText ks → closeLabelsL ks = ks
  | [], _ => by simp [closeLabelsL]
  | .text .. :: rest, h => by
    simp only [closeLabelsL, closeLabels, closeLabelsL_text rest h]

theorem paraKids_text : ∀ (ls : List Bytes) (p : Nat), allText (paraKids p ls)
  | [], _ => trivial
  | [_], _ => trivial
  | l :: l' :: rest, p => paraKids_text (l' :: rest) (p + l.length + 1)

theorem paraBytes_length : ∀ (ls : List Bytes), ls.length ≤ (paraBytes ls).length
  | [] => Nat.le_refl _
  | l :: rest => by
    have := paraBytes_length rest
    simp only [paraBytes, List.flatMap_cons, List.length_append, List.length_cons, List.length_nil] at this ⊢
    omega

theorem parseBlock_quiet (env : GM.Inl.Env) (henv : env.escapedSpace = false) (pre post : Bytes) (ls : List Bytes)
    (hne : ls ≠ []) (hg : ∀ l ∈ ls, GoodLine l) :
    GM.Inl.parseBlock env (pre ++ paraBytes ls ++ post) (paraSegs pre.length ls) = .ok (paraKids pre.length ls) := by
  have hfuel : ls.length + 1 ≤ blockFuel (pre ++ paraBytes ls ++ post) (paraSegs pre.length ls) := by
    unfold blockFuel
    rw [paraSegs_length]
    omega
  obtain ⟨rd', h⟩ := loop_quiet env henv (pre ++ paraBytes ls ++ post) (paraSegs pre.length ls)
    (paraEnd pre.length ls : Nat) 0 [] ls pre.length [] [] _ hne hg (linesAt_para ls pre post) rfl rfl hfuel
  unfold parseBlock
  simp only [bind, Except.bind, new_para _ ls pre.length hne]
  have h' : lineLoop env (blockFuel (pre ++ paraBytes ls ++ post) (paraSegs pre.length ls)) false
      { rd := rdAt (pre ++ paraBytes ls ++ post) (paraSegs pre.length ls) (paraEnd pre.length ls : Nat) 0 ((paraSegs pre.length ls).headD default) pre.length } =
      .ok { rd := rd', kids := paraKids pre.length ls, nextId := 0, bottoms := [] } := by
    simpa using h
  rw [h']
  simp only [processDelimiters_text _ (paraKids_text ls pre.length), closeLabelsL_text _ (paraKids_text ls pre.length),
    pure, Except.pure]

example : GM.Inl.parseBlock {} ([120, 10] ++ paraBytes [[97, 98], [99]] ++ [122]) (paraSegs 2 [[97, 98], [99]]) =
    .ok [.text { start := 2, stop := 4 } true false false, .text { start := 5, stop := 6 } false false false] := by
  have hg : ∀ l ∈ [[97, 98], [99]], GoodLine l := by
    intro l hl
    simp only [List.mem_cons, List.not_mem_nil, or_false] at hl
    rcases hl with rfl | rfl
    · exact ⟨by simp, by intro c h; simp at h; subst h; decide, by decide, by intro c h; simp at h; subst h; decide,
        by intro c h; simp at h; subst h; decide⟩
    · exact ⟨by simp, by intro c h; simp at h; subst h; decide, by decide, by intro c h; simp at h; subst h; decide,
        by intro c h; simp at h; subst h; decide⟩
  exact parseBlock_quiet {} rfl [120, 10] [122] [[97, 98], [99]] (by simp) hg

end GM.Proof.CMFrag
