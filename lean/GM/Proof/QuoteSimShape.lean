/-
  GM.Proof.QuoteSimShape — the shape of the lines of a source whose last byte is `\n` (and that has no tab
  and no CR): every line ends with `\n`, a blank line is spaces followed by `\n`, and inside a line the
  reader always has a rest of the line in front of it, with a byte that is not a space (the `\n`).
-/
import GM.Proof.QuoteSimCalc

namespace GM.Blocks
open GM GM.Text

/-- every line of a source that ends with `\n` ends with `\n` -/
theorem line_nl_of_last {src : Bytes} (hnl : src.getLast? = some 10) {k ls : Nat} (h : LineAt src k ls) :
    src[lineEnd src ls - 1]? = some 10 := by
  have hle := lineEnd_le src ls
  rcases Nat.lt_or_ge (lineEnd src ls) src.length with hlt | hge
  · exact line_ends_nl h.lt hlt
  · have e : lineEnd src ls = src.length := by omega
    rw [e, ← List.getLast?_eq_getElem?]; exact hnl

/-- a space character that is no tab, no `\n`, no CR is a space -/
theorem isSpace_eq_32 {c : UInt8} (hs : isSpace c = true) (h9 : c ≠ 9) (h10 : c ≠ 10) (h13 : c ≠ 13) : c = 32 := by
  simp only [isSpace, Bool.or_eq_true, beq_iff_eq] at hs
  rcases hs with ((hs | hs) | hs) | hs
  · exact absurd hs h9
  · exact absurd hs h10
  · exact absurd hs h13
  · exact hs

/-- a blank line of such a source is spaces followed by `\n` -/
theorem blank_shape_core {src : Bytes} (htf : ∀ c ∈ src, c ≠ 9) (hcr : ∀ c ∈ src, c ≠ 13)
    {k ls : Nat} (h : LineAt src k ls) (hb : isBlank (sub src ls (lineEnd src ls)) = true)
    (hlast : src[lineEnd src ls - 1]? = some 10) :
    ∃ n, sub src ls (lineEnd src ls) = List.replicate n 32 ++ [10] := by
  have hle := lineEnd_le src ls
  have hgt := lt_lineEnd src h.lt
  refine ⟨lineEnd src ls - ls - 1, ?_⟩
  apply List.ext_getElem?
  intro i
  rw [sub_getElem?]
  rcases Nat.lt_trichotomy i (lineEnd src ls - ls - 1) with hi | hi | hi
  · rw [if_pos (by omega), List.getElem?_append_left (by simpa using hi),
      List.getElem?_replicate, if_pos hi]
    have hlt : ls + i < src.length := by omega
    rw [List.getElem?_eq_getElem hlt]
    have hmem : src[ls + i] ∈ src := List.getElem_mem hlt
    have hmemL : src[ls + i] ∈ sub src ls (lineEnd src ls) := by
      apply List.mem_of_getElem? (i := i)
      rw [sub_getElem?, if_pos (by omega), List.getElem?_eq_getElem hlt]
    have hsp : isSpace src[ls + i] = true := by
      unfold isBlank at hb
      exact (List.all_eq_true.mp hb) _ hmemL
    have h10 : src[ls + i] ≠ 10 := by
      have := line_no_nl (src := src) (ls := ls) (p := ls + i) (by omega) (by omega)
      rw [List.getElem?_eq_getElem hlt] at this
      intro e; exact this (by rw [e])
    rw [isSpace_eq_32 hsp (htf _ hmem) h10 (hcr _ hmem)]
  · rw [if_pos (by omega), List.getElem?_append_right (by simp; omega)]
    have e1 : ls + i = lineEnd src ls - 1 := by omega
    have e2 : i - (List.replicate (lineEnd src ls - ls - 1) (32 : UInt8)).length = 0 := by simp; omega
    rw [e1, e2, hlast]; rfl
  · rw [if_neg (by omega)]
    symm
    apply List.getElem?_eq_none
    simp; omega

theorem blank_shape {src : Bytes} (htf : ∀ c ∈ src, c ≠ 9) (hcr : ∀ c ∈ src, c ≠ 13) (hnl : src.getLast? = some 10)
    {k ls : Nat} (h : LineAt src k ls) (hb : isBlank (sub src ls (lineEnd src ls)) = true) :
    ∃ n, sub src ls (lineEnd src ls) = List.replicate n 32 ++ [10] :=
  blank_shape_core htf hcr h hb (line_nl_of_last hnl h)

/-- the same for a source that does not end with a space: a blank line ends with `\n` (a last line without `\n` ends
    with the last byte of the source, which would have to be a space) -/
theorem blank_shape_w {src : Bytes} (htf : ∀ c ∈ src, c ≠ 9) (hcr : ∀ c ∈ src, c ≠ 13)
    (hl : ∀ c, src.getLast? = some c → c ≠ 32)
    {k ls : Nat} (h : LineAt src k ls) (hb : isBlank (sub src ls (lineEnd src ls)) = true) :
    ∃ n, sub src ls (lineEnd src ls) = List.replicate n 32 ++ [10] := by
  refine blank_shape_core htf hcr h hb ?_
  have hle := lineEnd_le src ls
  have hgt := lt_lineEnd src h.lt
  rcases Nat.lt_or_ge (lineEnd src ls) src.length with h1 | h1
  · exact line_ends_nl h.lt h1
  · have e : lineEnd src ls = src.length := by omega
    have hlt : lineEnd src ls - 1 < src.length := by omega
    have hmemL : src[lineEnd src ls - 1] ∈ sub src ls (lineEnd src ls) := by
      apply List.mem_of_getElem? (i := lineEnd src ls - 1 - ls)
      rw [sub_getElem?, if_pos (by omega)]
      have e2 : ls + (lineEnd src ls - 1 - ls) = lineEnd src ls - 1 := by omega
      rw [e2, List.getElem?_eq_getElem hlt]
    have hsp : isSpace src[lineEnd src ls - 1] = true := by
      unfold isBlank at hb
      exact (List.all_eq_true.mp hb) _ hmemL
    have hmem : src[lineEnd src ls - 1] ∈ src := List.getElem_mem hlt
    have h32 : src[lineEnd src ls - 1] ≠ 32 := by
      apply hl
      rw [List.getLast?_eq_getElem?, ← e, List.getElem?_eq_getElem hlt]
    rw [List.getElem?_eq_getElem hlt]
    simp only [isSpace, Bool.or_eq_true, beq_iff_eq] at hsp
    rcases hsp with ((hs | hs) | hs) | hs
    · exact absurd hs (htf _ hmem)
    · rw [hs]
    · exact absurd hs (hcr _ hmem)
    · exact absurd hs h32

/-- inside a line of a source that does not end with a space, a rest of line has a byte that is not a space: the last
    byte of the line (its `\n`, or the last byte of the source) -/
theorem ns_of_last_ne {src : Bytes} (hl : ∀ c, src.getLast? = some c → c ≠ 32) :
    ∀ k ls p, InL src k ls p → p < src.length → ∃ c ∈ (viewA src ls p).getD [], c ≠ 32 := by
  intro k ls p h hps
  have hle := lineEnd_le src ls
  have hp : p < lineEnd src ls := h.lt_iff.mp hps
  have hlt : lineEnd src ls - 1 < src.length := by omega
  refine ⟨src[lineEnd src ls - 1], ?_, ?_⟩
  · unfold viewA
    rw [if_pos hp]
    show src[lineEnd src ls - 1] ∈ sub src p (lineEnd src ls)
    apply List.mem_of_getElem? (i := lineEnd src ls - 1 - p)
    rw [sub_getElem?, if_pos (by omega)]
    have e : p + (lineEnd src ls - 1 - p) = lineEnd src ls - 1 := by omega
    rw [e, List.getElem?_eq_getElem hlt]
  · rcases Nat.lt_or_ge (lineEnd src ls) src.length with h1 | h1
    · have := line_ends_nl h.line.lt h1
      rw [List.getElem?_eq_getElem hlt] at this
      have e : src[lineEnd src ls - 1] = 10 := by simpa using this
      rw [e]; decide
    · have e : lineEnd src ls = src.length := by omega
      apply hl
      rw [List.getLast?_eq_getElem?, ← e, List.getElem?_eq_getElem hlt]

theorem ns_of_last {src : Bytes} (hnl : src.getLast? = some 10) :
    ∀ k ls p, InL src k ls p → p < src.length → ∃ c ∈ (viewA src ls p).getD [], c ≠ 32 :=
  ns_of_last_ne (fun c hc => by rw [hnl] at hc; cases hc; decide)

end GM.Blocks
