/-
  GM.Proof.BlocksSpecBasic — the contracts of GM.Proof.BlocksInv (`OpenSpec`, `ContSpec`, `CloseSpec`) for the
  paragraph, thematic break, ATX heading and block quote parsers.
-/
import GM.Proof.BlocksInv
namespace GM.Blocks
open GM GM.Text GM.Spec GM.Proof.Reader

/-! ### the node store under `modNode` / `newNode` -/

theorem nd_of_set_self {s s' : St} {i : Nat} {n : Node} (hn : s'.nodes = s.nodes.set i n)
    (hi : i < s.nodes.length) : nd s' i = n := by
  simp [nd, hn, List.getD_eq_getElem?_getD, hi]

theorem nd_of_set_ne {s s' : St} {i j : Nat} {n : Node} (hn : s'.nodes = s.nodes.set i n) (hj : j ≠ i) :
    nd s' j = nd s j := by
  simp [nd, hn, List.getD_eq_getElem?_getD, Ne.symm hj]

theorem nd_of_append_lt {s s' : St} {j : Nat} {n : Node} (hn : s'.nodes = s.nodes ++ [n])
    (hj : j < s.nodes.length) : nd s' j = nd s j := by
  simp [nd, hn, List.getD_eq_getElem?_getD, List.getElem?_append_left hj]

/-- replacing node `i` by a node of the same kind that has lines when the old one had: `Ext` -/
theorem Ext.of_set {s s' : St} {i : Nat} {n : Node} (hn : s'.nodes = s.nodes.set i n)
    (hk : n.kind = (nd s i).kind) (hl : (nd s i).lines ≠ [] → n.lines ≠ []) : Ext s s' := by
  refine ⟨by rw [hn, List.length_set]; exact Nat.le_refl _, fun j hj => ?_, fun j hj _ hne => ?_⟩
  · by_cases e : j = i
    · subst e; rw [nd_of_set_self hn hj, hk]
    · rw [nd_of_set_ne hn e]
  · by_cases e : j = i
    · subst e; rw [nd_of_set_self hn hj]; exact hl hne
    · rw [nd_of_set_ne hn e]; exact hne

/-- a new node at the end of the store: `Ext` -/
theorem Ext.of_append {s s' : St} {n : Node} (hn : s'.nodes = s.nodes ++ [n]) : Ext s s' := by
  refine ⟨by rw [hn]; simp, fun j hj => by rw [nd_of_append_lt hn hj], fun j hj _ hne => ?_⟩
  rw [nd_of_append_lt hn hj]; exact hne

theorem NodesOK.of_set {src : Bytes} {s s' : St} {i : Nat} {n : Node} (h : NodesOK src s)
    (hn : s'.nodes = s.nodes.set i n) (hok : NodeOK src n) : NodesOK src s' := by
  intro m hm
  rw [hn] at hm
  rcases List.mem_or_eq_of_mem_set hm with h1 | h1
  · exact h m h1
  · rw [h1]; exact hok

theorem NodesOK.of_append {src : Bytes} {s s' : St} {n : Node} (h : NodesOK src s)
    (hn : s'.nodes = s.nodes ++ [n]) (hok : NodeOK src n) : NodesOK src s' := by
  intro m hm
  rw [hn] at hm
  rcases List.mem_append.1 hm with h1 | h1
  · exact h m h1
  · simp only [List.mem_singleton] at h1; rw [h1]; exact hok

theorem NodesOK.of_nodes_eq {src : Bytes} {s s' : St} (h : NodesOK src s) (hn : s'.nodes = s.nodes) :
    NodesOK src s' := by
  intro m hm; rw [hn] at hm; exact h m hm

theorem NodesOK.nd {src : Bytes} {s : St} (h : NodesOK src s) {i : Nat} (hi : i < s.nodes.length) :
    NodeOK src (nd s i) := by
  have : GM.Blocks.nd s i = s.nodes[i] := by simp [GM.Blocks.nd, List.getD_eq_getElem?_getD, hi]
  rw [this]; exact h _ (List.getElem_mem hi)

/-! ### the parsers whose `Continue` / `Close` do nothing -/

theorem contPost_close (src : Bytes) (bp : BP) (s : St) (c : RCur) (h : RI src s.r c) (hpad : PadOK c)
    (hn : NodesOK src s) : ContPost src bp s c stClose s where
  ria := ⟨c, h.toRIa, hpad, Nat.le_refl _, h.inRange, .inr h⟩
  pc := rfl
  ext := Ext.refl s
  nodes := hn
  leaf := fun _ => rfl
  cont := fun _ hc => by cases hc

theorem closePost_refl (src : Bytes) (bp : BP) (node : Nat) (s : St) (hn : NodesOK src s) :
    ClosePost src bp node s s where
  r := rfl
  opened := rfl
  ext := Ext.refl s
  nodes := hn
  tmp := .inl rfl
  fence := .inl rfl
  para := fun _ => rfl

theorem thematicContinue_spec (src : Bytes) : ContSpec src .thematic :=
  fun _ s c h hpad _ hn _ _ => OKL.ok (contPost_close src _ s c h hpad hn)

theorem thematicClose_spec (src : Bytes) : CloseSpec src .thematic :=
  fun node s _ hn _ _ => OKL.ok (closePost_refl src _ node s hn)

theorem atxContinue_spec (src : Bytes) : ContSpec src .atx :=
  fun _ s c h hpad _ hn _ _ => OKL.ok (contPost_close src _ s c h hpad hn)

theorem atxClose_spec (src : Bytes) : CloseSpec src .atx :=
  fun node s _ hn _ _ => OKL.ok (closePost_refl src _ node s hn)

theorem blockquoteClose_spec (src : Bytes) : CloseSpec src .blockquote :=
  fun node s _ hn _ _ => OKL.ok (closePost_refl src _ node s hn)

/-! ### paragraph.go -/

theorem paragraphClose_spec (src : Bytes) : CloseSpec src .paragraph := by
  intro node s hsrc hn _ hb
  have hlt : node < s.nodes.length := hb.lt
  have hne : (nd s node).lines ≠ [] := hb.para rfl
  have hok := hn.nd hlt
  show OKL _ (paragraphClose node s)
  refine (paragraphClose_okl node hsrc hok.lines hne).mono (fun _ s' hp => ?_)
  obtain ⟨hr, hpc, ls, hls, hlen, hnodes⟩ := hp
  have hnil : (nd s node).linesNil = false := by
    cases h : (nd s node).linesNil with
    | false => rfl
    | true => exact absurd (hok.nil h) hne
  have hls_ne : ls ≠ [] := by
    intro e; subst e
    exact hne (List.eq_nil_of_length_eq_zero hlen.symm)
  exact { r := hr, opened := by rw [hpc], ext := Ext.of_set hnodes rfl (fun _ => hls_ne),
          nodes := hn.of_set hnodes ⟨hls, fun h => by
            have h' : (nd s node).linesNil = true := h
            rw [hnil] at h'; cases h'⟩,
          tmp := .inl (by rw [hpc]), fence := .inl (by rw [hpc]),
          para := fun _ => by rw [nd_of_set_self hnodes hlt] }

/-- `paragraphContinue_okl` with the final cursor exposed -/
theorem paragraphContinue_okl' {src} {s : St} {c : RCur} (h : RI src s.r c) (node : Nat) :
    OKL (fun st s' => ∃ c', RI src s'.r c' ∧ (∃ n, c' = RCur.advN src n c) ∧ s'.pc = s.pc ∧
        ((st = stClose ∧ s'.nodes = s.nodes) ∨
         (st = stContinueNoChildren ∧ c.p < src.length ∧
            s'.nodes = s.nodes.set node
              { (nd s node) with lines := (nd s node).lines ++ [RCur.seg src c], linesNil := false })))
      (paragraphContinue node s) := by
  unfold paragraphContinue
  refine OKL.bind (peekLine_okl h) (fun x s1 hx => ?_)
  obtain ⟨hx, r1, hs1, h1⟩ := hx
  subst hx hs1
  simp only
  by_cases hb : isBlank ((RCur.view src c).getD []) = true
  · rw [if_pos hb]
    exact OKL.ok ⟨c, h1, ⟨0, rfl⟩, rfl, .inl ⟨rfl, rfl⟩⟩
  · rw [if_neg hb]
    have hp : c.p < src.length := by
      rcases Nat.lt_or_ge c.p src.length with hp | hp
      · exact hp
      · rw [view_none src c (by omega)] at hb; simp [isBlank] at hb
    have hv := view_eq src c hp
    have hl := view_len src c hp hv
    have hl2 := view_length src c hp hv
    have hlen : 0 ≤ (RCur.seg src c).len - 1 := by omega
    simp only [bind, StateT.bind, appendLine, modNode, pure, StateT.pure, Except.bind, Except.pure]
    have hadv := advance_okl (src := src)
      (s := { r := r1, nodes := s.nodes.set node
                { (s.nodes.getD node default) with
                    lines := (s.nodes.getD node default).lines ++ [RCur.seg src c], linesNil := false }, pc := s.pc })
      (c := c) h1 hlen
    rcases hadv with ⟨_, s4, e4, r4, hs4, h4⟩ | e4
    · rw [e4]
      simp only
      refine OKL.ok ⟨_, by rw [hs4]; exact h4, ⟨_, rfl⟩, by rw [hs4], .inr ⟨rfl, hp, by rw [hs4]⟩⟩
    · rw [e4]; exact .inr rfl

/-- Continue of a paragraph, also at the end of the source (no `c.p < src.length` hypothesis) -/
theorem paragraphContinue_spec' (src : Bytes) (node : Nat) (s : St) (c : RCur) (h : RI src s.r c) (hpad : PadOK c)
    (hn : NodesOK src s) (hk : KeysOK s) (hb : BlockOK s ⟨node, .paragraph⟩) :
    OKL (fun st s' => ContPost src .paragraph s c st s') (paragraphContinue node s) := by
  have _ := hk
  refine (paragraphContinue_okl' h node).mono (fun st s' hp => ?_)
  obtain ⟨c', hri, ⟨n, hc'⟩, hpc, hcase⟩ := hp
  have hria : ∃ c', RIa src s'.r c' ∧ PadOK c' ∧ c.p ≤ c'.p ∧ c'.p ≤ src.length ∧
      ((st.cont = true ∧ st.hasChildren = false) ∨ RI src s'.r c') :=
    ⟨c', hri.toRIa, by rw [hc']; exact hpad.advN h.inRange n,
      by rw [hc']; exact (advN_mono src n c h.inRange).1, hri.inRange, .inr hri⟩
  rcases hcase with ⟨hst, hnodes⟩ | ⟨hst, _, hnodes⟩
  · exact { ria := hria, pc := hpc, ext := Ext.of_nodes_eq hnodes, nodes := hn.of_nodes_eq hnodes,
            leaf := fun _ => (by rw [hst]; rfl), cont := fun hc => (by cases hc) }
  · have hok := hn.nd hb.lt
    refine { ria := hria, pc := hpc, ext := Ext.of_set hnodes rfl (fun _ => by simp),
             nodes := hn.of_set hnodes ⟨?_, fun hh => by cases hh⟩,
             leaf := fun _ => (by rw [hst]; rfl), cont := fun hc => (by cases hc) }
    intro t ht
    simp only [List.mem_append, List.mem_singleton] at ht
    rcases ht with ht | ht
    · exact hok.lines t ht
    · rw [ht]; exact seg_ok src c h.inRange

theorem paragraphContinue_spec (src : Bytes) : ContSpec src .paragraph :=
  fun node s c h hpad _ hn hk hb => paragraphContinue_spec' src node s c h hpad hn hk hb

/-! ### `Open` of a leaf parser that touches nothing of the context -/

theorem openPost_leaf {src : Bytes} {bp : BP} {parent : Nat} {s s' : St} {c c' : RCur} {a : Option Nat × PState}
    (hbp1 : bp ≠ .setext) (hbp2 : bp ≠ .fenced) (hpad : PadOK c) (hin : c.p ≤ src.length)
    (hri : RI src s'.r c') (hadv : ∃ n, c' = RCur.advN src n c) (hpc : s'.pc = s.pc) (ha : a.2 = stNoChildren)
    (hcase : (a.1 = none ∧ s'.nodes = s.nodes ∧ c' = c) ∨
      (a.1 = some s.nodes.length ∧ ∃ n, s'.nodes = s.nodes ++ [n] ∧ n.kind = bp.kind ∧ NodeOK src n ∧
        n.parent = none ∧ (bp = .paragraph → n.lines ≠ []))) :
    OpenPost src bp parent s c a s' := by
  obtain ⟨k, hk⟩ := hadv
  have hri' : ∃ c', RI src s'.r c' ∧ PadOK c' ∧ c.p ≤ c'.p ∧ (a.1 = none → c' = c) ∧
      (a.2.hasChildren = true → c.p < c'.p) := by
    refine ⟨c', hri, by rw [hk]; exact hpad.advN hin k, by rw [hk]; exact (advN_mono src k c hin).1, ?_, ?_⟩
    · intro hnone
      rcases hcase with ⟨_, _, e⟩ | ⟨e, _⟩
      · exact e
      · rw [e] at hnone; cases hnone
    · intro hh; rw [ha] at hh; cases hh
  refine { ri := hri', opened := by rw [hpc], boff := by rw [hpc], noNode := ?_, newNode := ?_,
           tmp := .inr ⟨.inl hbp1, by rw [hpc]⟩, fence := .inr ⟨.inl hbp2, by rw [hpc]⟩,
           req := fun hh => (by rw [ha] at hh; cases hh), kids := fun hh => (by rw [ha] at hh; cases hh) }
  · intro hnone
    rcases hcase with ⟨_, e, _⟩ | ⟨e, _⟩
    · exact e
    · rw [e] at hnone; cases hnone
  · intro id hid
    rcases hcase with ⟨e, _⟩ | ⟨e, n, h1, h2, h3, h4, h5⟩
    · rw [e] at hid; cases hid
    · rw [e] at hid
      cases hid
      exact ⟨rfl, n, h1, h2, h3, h4, h5, fun e => absurd e hbp1⟩

/-- `paragraphOpen_okl` with the final cursor exposed and `linesNil` of the new node -/
theorem paragraphOpen_okl' {src} {s : St} {c : RCur} (h : RI src s.r c) (parent : Nat) :
    OKL (fun a s' => ∃ c', RI src s'.r c' ∧ (∃ n, c' = RCur.advN src n c) ∧ s'.pc = s.pc ∧ a.2 = stNoChildren ∧
        ((a.1 = none ∧ s'.nodes = s.nodes ∧ c' = c) ∨
         (a.1 = some s.nodes.length ∧ ∃ nd seg, s'.nodes = s.nodes ++ [nd] ∧ nd.kind = .paragraph ∧
            nd.lines = [seg] ∧ SegOK src seg ∧ nd.parent = none ∧ nd.linesNil = false)))
      (paragraphOpen parent s) := by
  unfold paragraphOpen
  refine OKL.bind (peekLine_okl h) (fun x s1 hx => ?_)
  obtain ⟨hx, r1, hs1, h1⟩ := hx
  subst hx hs1
  simp only
  obtain ⟨t', ht, hok, hstop, hstart, hpad⟩ := trimLeftSpace_ok (seg_ok src c h.inRange)
  refine OKL.bind (m := source) (P := fun v s' => v = src ∧ s' = { s with r := r1 }) (OKL.ok ⟨h1.source, rfl⟩) (fun v s2 hv => ?_)
  obtain ⟨hv, hs2⟩ := hv
  subst hs2
  rw [hv]
  refine OKL.bind (liftE_okl (P := fun a s' => a = t' ∧ s' = { s with r := r1 }) ht ⟨rfl, rfl⟩) (fun a s3 ha => ?_)
  obtain ⟨ha, hs3⟩ := ha
  subst ha hs3
  by_cases he : a.isEmpty = true
  · rw [if_pos he]
    exact OKL.ok ⟨c, h1, ⟨0, rfl⟩, rfl, rfl, .inl ⟨rfl, rfl, rfl⟩⟩
  · rw [if_neg he]
    have hlen : 0 ≤ a.len - 1 := by
      unfold Segment.isEmpty at he
      unfold Segment.len
      simp only [hpad] at he ⊢
      have : ¬ (a.start ≥ a.stop) := by intro hh; apply he; simp [hh]
      omega
    simp only [bind, StateT.bind, newNode, appendLine, modNode, pure, StateT.pure, Except.bind, Except.pure]
    have hadv := advance_okl (src := src)
      (s := { r := r1, nodes := (s.nodes ++ [({ kind := Kind.paragraph } : Node)]).set s.nodes.length
                ({ ((s.nodes ++ [({ kind := Kind.paragraph } : Node)]).getD s.nodes.length default) with
                    lines := ((s.nodes ++ [({ kind := Kind.paragraph } : Node)]).getD s.nodes.length default).lines ++ [a],
                    linesNil := false }), pc := s.pc }) (c := c) h1 hlen
    rcases hadv with ⟨_, s4, e4, r4, hs4, h4⟩ | e4
    · rw [e4]
      simp only
      refine OKL.ok ⟨_, by rw [hs4]; exact h4, ⟨_, rfl⟩, by rw [hs4], rfl, .inr ⟨rfl, ?_⟩⟩
      rw [hs4]
      simp only [getD_length_append, set_length_append]
      exact ⟨_, a, rfl, rfl, rfl, hok, rfl, rfl⟩
    · rw [e4]; exact .inr rfl

theorem paragraphOpen_spec (src : Bytes) : OpenSpec src .paragraph := by
  intro parent s c hctx
  show OKL _ (paragraphOpen parent s)
  refine (paragraphOpen_okl' hctx.ri parent).mono (fun a s' hp => ?_)
  obtain ⟨c', hri, hadv, hpc, ha, hcase⟩ := hp
  refine openPost_leaf (by decide) (by decide) hctx.pad hctx.ri.inRange hri hadv hpc ha ?_
  rcases hcase with h1 | ⟨h1, n, seg, h2, h3, h4, h5, h6, h7⟩
  · exact .inl h1
  · refine .inr ⟨h1, n, h2, h3, ⟨?_, fun hh => by rw [h7] at hh; cases hh⟩, h6, fun _ => by rw [h4]; simp⟩
    intro t ht
    rw [h4, List.mem_singleton] at ht
    rw [ht]; exact h5

/-! ### thematic_break.go -/

/-- `thematicOpen_okl` with the final cursor exposed -/
theorem thematicOpen_okl' {src} {s : St} {c : RCur} (h : RI src s.r c) (parent : Nat) :
    OKL (fun a s' => ∃ c', RI src s'.r c' ∧ (∃ n, c' = RCur.advN src n c) ∧ s'.pc = s.pc ∧ a.2 = stNoChildren ∧
        ((a.1 = none ∧ s'.nodes = s.nodes ∧ c' = c) ∨
         (a.1 = some s.nodes.length ∧ s'.nodes = s.nodes ++ [{ kind := .thematicBreak }])))
      (thematicOpen parent s) := by
  unfold thematicOpen
  refine OKL.bind (peekLine_okl h) (fun x s1 hx => ?_)
  obtain ⟨hx, r1, hs1, h1⟩ := hx
  subst hx hs1
  simp only
  refine OKL.bind (lineOffset_okl (s := { s with r := r1 }) h1) (fun lo s2 hlo => ?_)
  obtain ⟨_, r2, hs2, h2⟩ := hlo
  subst hs2
  by_cases hb : isThematicBreak ((RCur.view src c).getD []) lo = true
  · rw [if_pos hb]
    have hp : c.p < src.length := by
      rcases Nat.lt_or_ge c.p src.length with hp | hp
      · exact hp
      · rw [view_none src c (by omega)] at hb; simp [tbLoop_nil.2] at hb
    have hv := view_eq src c hp
    have hl := view_len src c hp hv
    have hl2 := view_length src c hp hv
    have hlen : 0 ≤ (RCur.seg src c).len - 1 := by omega
    refine OKL.bind (advance_okl (s := { s with r := r2 }) h2 hlen) (fun _ s4 h4 => ?_)
    obtain ⟨r4, hs4, h4⟩ := h4
    subst hs4
    simp only [bind, StateT.bind, newNode, pure, StateT.pure, Except.bind, Except.pure]
    exact OKL.ok ⟨_, h4, ⟨_, rfl⟩, rfl, rfl, .inr ⟨rfl, rfl⟩⟩
  · rw [if_neg hb]
    exact OKL.ok ⟨c, h2, ⟨0, rfl⟩, rfl, rfl, .inl ⟨rfl, rfl, rfl⟩⟩

theorem nodeOK_noLines (src : Bytes) (n : Node) (h : n.lines = []) : NodeOK src n :=
  ⟨fun t ht => (by rw [h] at ht; cases ht), fun _ => h⟩

theorem thematicOpen_spec (src : Bytes) : OpenSpec src .thematic := by
  intro parent s c hctx
  show OKL _ (thematicOpen parent s)
  refine (thematicOpen_okl' hctx.ri parent).mono (fun a s' hp => ?_)
  obtain ⟨c', hri, hadv, hpc, ha, hcase⟩ := hp
  refine openPost_leaf (by decide) (by decide) hctx.pad hctx.ri.inRange hri hadv hpc ha ?_
  rcases hcase with h1 | ⟨h1, h2⟩
  · exact .inl h1
  · exact .inr ⟨h1, _, h2, rfl, nodeOK_noLines src _ rfl, rfl, fun hh => by cases hh⟩

/-! ### blockquote.go -/

/-- `blockquoteProcess_okl` with `PadOK` of the final cursor: after `true` the cursor is past byte 0 -/
theorem blockquoteProcess_okl' {src} {s : St} {c : RCur} (h : RI src s.r c) (hpad : PadOK c) :
    OKL (fun b s' => ∃ r' c', s' = { s with r := r' } ∧ RI src r' c' ∧ PadOK c' ∧ c.p ≤ c'.p ∧
        (b = true → c.p < c'.p) ∧ (b = false → c' = c)) (blockquoteProcess s) := by
  refine (blockquoteProcess_okl h).mono (fun b s' hp => ?_)
  obtain ⟨r', c', hs, hri, hle, ht, hf⟩ := hp
  refine ⟨r', c', hs, hri, ?_, hle, ht, hf⟩
  cases b with
  | true => intro _; have := ht rfl; omega
  | false => rw [hf rfl]; exact hpad

theorem blockquoteOpen_spec (src : Bytes) : OpenSpec src .blockquote := by
  intro parent s c hctx
  show OKL _ (blockquoteOpen parent s)
  unfold blockquoteOpen
  refine OKL.bind (blockquoteProcess_okl' hctx.ri hctx.pad) (fun b s1 hb => ?_)
  obtain ⟨r', c', hs1, hri, hpad', hle, ht, hf⟩ := hb
  subst hs1
  cases b with
  | true =>
    simp only [if_true, bind, StateT.bind, newNode, pure, StateT.pure, Except.bind, Except.pure]
    refine OKL.ok { ri := ⟨c', hri, hpad', hle, fun hh => (by cases hh), fun _ => ht rfl⟩,
                    opened := rfl, boff := rfl, noNode := fun hh => (by cases hh), newNode := ?_,
                    tmp := .inr ⟨.inl (by decide), rfl⟩, fence := .inr ⟨.inl (by decide), rfl⟩,
                    req := fun hh => (by cases hh), kids := fun _ => ⟨rfl, rfl⟩ }
    intro id hid
    cases hid
    exact ⟨rfl, _, rfl, rfl, nodeOK_noLines src _ rfl, rfl, fun hh => (by cases hh), fun hh => (by cases hh)⟩
  | false =>
    simp only [Bool.false_eq_true, if_false, pure, StateT.pure, Except.pure]
    exact OKL.ok { ri := ⟨c', hri, hpad', hle, fun _ => hf rfl, fun hh => (by cases hh)⟩,
                   opened := rfl, boff := rfl, noNode := fun _ => rfl, newNode := fun id hid => (by cases hid),
                   tmp := .inr ⟨.inl (by decide), rfl⟩, fence := .inr ⟨.inl (by decide), rfl⟩,
                   req := fun hh => (by cases hh), kids := fun hh => (by cases hh) }

theorem blockquoteContinue_spec (src : Bytes) : ContSpec src .blockquote := by
  intro node s c h hpad _ hn _ _
  show OKL _ (blockquoteContinue node s)
  unfold blockquoteContinue
  refine OKL.bind (blockquoteProcess_okl' h hpad) (fun b s1 hb => ?_)
  obtain ⟨r', c', hs1, hri, hpad', hle, ht, hf⟩ := hb
  subst hs1
  cases b with
  | true =>
    simp only [if_true, pure, StateT.pure, Except.pure]
    exact OKL.ok { ria := ⟨c', hri.toRIa, hpad', hle, hri.inRange, .inr hri⟩, pc := rfl,
                   ext := Ext.of_nodes_eq rfl, nodes := hn.of_nodes_eq rfl,
                   leaf := fun hh => (by cases hh), cont := fun _ _ => rfl }
  | false =>
    simp only [Bool.false_eq_true, if_false, pure, StateT.pure, Except.pure]
    exact OKL.ok { ria := ⟨c', hri.toRIa, hpad', hle, hri.inRange, .inr hri⟩, pc := rfl,
                   ext := Ext.of_nodes_eq rfl, nodes := hn.of_nodes_eq rfl,
                   leaf := fun hh => (by cases hh), cont := fun _ hh => by cases hh }

/-! ### atx_heading.go -/

theorem nodeOK_oneLine (src : Bytes) (n : Node) (seg : Segment) (h : n.lines = [seg]) (hs : SegOK src seg)
    (hnil : n.linesNil = false) : NodeOK src n :=
  ⟨fun t ht => (by rw [h, List.mem_singleton] at ht; rw [ht]; exact hs), fun hh => (by rw [hnil] at hh; cases hh)⟩

theorem countLeading_pos_head (c : UInt8) (l : Bytes) (h : 0 < countLeading c l) : l[0]? = some c := by
  cases l with
  | nil => simp [countLeading] at h
  | cons b bs =>
    unfold countLeading at h
    by_cases e : (b == c) = true
    · have : b = c := by simpa using e
      simp [this]
    · simp [List.takeWhile, e] at h

/-- a scan for `c` that moved started on a `c` -/
theorem scanWhileEq_head (line : Bytes) (c : UInt8) (pos : Int) (h0 : 0 ≤ pos)
    (hne : scanWhileEq line c pos ≠ pos) : line[pos.toNat]? = some c := by
  unfold scanWhileEq at hne
  have hn : ¬ pos < 0 := by omega
  rw [if_neg hn] at hne
  have hpos : 0 < countLeading c (line.drop pos.toNat) := by omega
  have := countLeading_pos_head _ _ hpos
  simpa using this

/-- atxHeadingParser.Open: total on an `RI` reader standing on a line, for any context; it moves neither cursor nor
    context; a new Heading node is the next node of the store, with no line or one line inside the source -/
theorem atxOpen_okl' {src} {s : St} {c : RCur} (h : RI src s.r c) (hp : c.p < src.length) (parent : Nat) :
    OKL (fun a s' => RI src s'.r c ∧ s'.pc = s.pc ∧ a.2 = stNoChildren ∧
        ((a.1 = none ∧ s'.nodes = s.nodes) ∨
         (a.1 = some s.nodes.length ∧ ∃ n, s'.nodes = s.nodes ++ [n] ∧ n.kind = .heading ∧ NodeOK src n ∧
            n.parent = none)))
      (atxOpen parent s) := by
  unfold atxOpen
  refine OKL.bind (peekLine_okl h) (fun x s1 hx => ?_)
  obtain ⟨hx, r1, hs1, h1⟩ := hx
  subst hx hs1
  simp only
  refine OKL.bind (m := getPc) (P := fun v s' => v = s.pc ∧ s' = { s with r := r1 }) (OKL.ok ⟨rfl, rfl⟩) (fun pc s2 hv => ?_)
  obtain ⟨hv, hs2⟩ := hv
  subst hv hs2
  have finNone : ∀ (nodes : List Node), nodes = s.nodes →
      OKL (fun a s' => RI src s'.r c ∧ s'.pc = s.pc ∧ a.2 = stNoChildren ∧
        ((a.1 = none ∧ s'.nodes = s.nodes) ∨
         (a.1 = some s.nodes.length ∧ ∃ n, s'.nodes = s.nodes ++ [n] ∧ n.kind = .heading ∧ NodeOK src n ∧
            n.parent = none)))
        (.ok ((none, stNoChildren), { r := r1, nodes := nodes, pc := s.pc })) :=
    fun nodes hn => OKL.ok ⟨h1, rfl, rfl, .inl ⟨rfl, hn⟩⟩
  have finNew : ∀ (n : Node), n.kind = .heading → n.parent = none → NodeOK src n →
      OKL (fun a s' => RI src s'.r c ∧ s'.pc = s.pc ∧ a.2 = stNoChildren ∧
        ((a.1 = none ∧ s'.nodes = s.nodes) ∨
         (a.1 = some s.nodes.length ∧ ∃ n, s'.nodes = s.nodes ++ [n] ∧ n.kind = .heading ∧ NodeOK src n ∧
            n.parent = none)))
        (.ok ((some s.nodes.length, stNoChildren), { r := r1, nodes := s.nodes ++ [n], pc := s.pc })) :=
    fun n hk hpar hok => OKL.ok ⟨h1, rfl, rfl, .inr ⟨rfl, n, rfl, hk, hok, hpar⟩⟩
  by_cases hc0 : s.pc.blockOffset < 0
  · rw [if_pos hc0]
    exact finNone _ rfl
  · rw [if_neg hc0]
    have hlinelen := view_getD_length src c hp
    have hle1 := lineEnd_le src c.p
    have hle2 := lineEnd_ge src h.inRange
    have hview := view_eq src c hp
    generalize hline : (RCur.view src c).getD [] = line at hlinelen
    have hpos0 : 0 ≤ s.pc.blockOffset := by omega
    obtain ⟨hsb1, hsb2⟩ := scanWhileEq_bounds line 35 s.pc.blockOffset hpos0
    have hhead := scanWhileEq_head line 35 s.pc.blockOffset hpos0
    generalize hi : scanWhileEq line 35 s.pc.blockOffset = i at hsb1 hsb2 hhead ⊢
    by_cases hc1 : (i == s.pc.blockOffset || decide (i - s.pc.blockOffset > 6)) = true
    · rw [if_pos hc1]; exact finNone _ rfl
    · rw [if_neg hc1]
      have hne : i ≠ s.pc.blockOffset := by
        intro e; apply hc1; simp [e]
      obtain ⟨hplt, hile⟩ := hsb2 hne
      -- the `#` is behind the padding
      have hpadpos : (c.pad : Int) ≤ s.pc.blockOffset := by
        rcases Int.lt_or_le s.pc.blockOffset c.pad with hlt | hge
        · exfalso
          have h35 := hhead hne
          rw [hview] at hline
          simp only [Option.getD_some] at hline
          subst hline
          have := spaces_getElem c.pad (sub src c.p (lineEnd src c.p)) s.pc.blockOffset.toNat (by omega)
          rw [this] at h35
          cases h35
        · exact hge
      by_cases hc2 : (i == (line.length : Int)) = true
      · rw [if_pos hc2]
        simp only [bind, StateT.bind, newNode, pure, StateT.pure, Except.bind, Except.pure]
        exact finNew _ rfl rfl (nodeOK_noLines src _ rfl)
      · rw [if_neg hc2]
        have hilt : i < line.length := by
          have : i ≠ (line.length : Int) := by intro e; apply hc2; simp [e]
          omega
        have hsf := sliceFrom_ok line i (by omega) hile
        simp only [bind, StateT.bind, liftE, hsf, Except.map, Except.bind]
        generalize trimLeftSpaceLength (List.drop i.toNat line) = ln
        by_cases hc3 : (((ln : Int)) == 0) = true
        · rw [if_pos hc3]; exact finNone _ rfl
        · rw [if_neg hc3]
          have hln : (ln : Int) ≠ 0 := by intro e; apply hc3; simp [e]
          generalize hstart : (if i + (ln : Int) ≥ (line.length : Int) then (line.length : Int) - 1 else i + (ln : Int)) = start
          have hst1 : 1 ≤ start := by rw [← hstart]; split <;> omega
          have hst2 : start < line.length := by rw [← hstart]; split <;> omega
          have hst3 : (c.pad : Int) ≤ start := by rw [← hstart]; split <;> omega
          have htr := trimRightSpaceLength_le line
          generalize hstop0 : ((line.length : Int) - (trimRightSpaceLength line : Int)) = stop0
          have hs0 : stop0 ≤ line.length := by omega
          -- the segment of the heading text
          have hseg : ∀ stop : Int, start ≤ stop → stop ≤ line.length →
              SegOK src { start := (RCur.seg src c).start + start - (RCur.seg src c).padding,
                          stop := (RCur.seg src c).start + stop - (RCur.seg src c).padding } := by
            intro stop hs1 hs2
            unfold SegOK RCur.seg
            simp only
            omega
          simp only [bind, StateT.bind, newNode, pure, Except.pure, Except.bind]
          by_cases hc4 : stop0 ≤ start
          · rw [if_pos hc4]
            obtain ⟨v, hv⟩ := slice_ok' line start start (by omega) (Int.le_refl _) (by omega)
            simp only [bind, StateT.bind, Except.bind, liftE, hv, Except.map, pure, StateT.pure, Except.pure]
            split
            · simp only [appendLine, modNode, bind, StateT.bind, Except.bind, pure, StateT.pure, Except.pure,
                getD_length_append, set_length_append]
              refine finNew _ rfl rfl ?_
              exact nodeOK_oneLine src _ _ rfl (hseg start (Int.le_refl _) (by omega)) rfl
            · exact finNew _ rfl rfl (nodeOK_noLines src _ rfl)
          · rw [if_neg hc4]
            obtain ⟨r, hr, hr1, hr2⟩ := atxBackLoop_ok line start hst1 stop0.toNat (by omega) (by omega)
            obtain ⟨cc, hcc, _⟩ := idx_ok line r (by omega) (by omega)
            simp only [bind, StateT.bind, Except.bind, liftE, hr, hcc, Except.map, pure, StateT.pure, Except.pure]
            generalize hi2 : (if (r != stop0 - 1 && !isSpace cc) = true then stop0 - 1 else r) = i2
            have hi2b : start - 1 ≤ i2 ∧ i2 ≤ stop0 - 1 := by rw [← hi2]; split <;> omega
            obtain ⟨v, hv⟩ := slice_ok' line start (i2 + 1) (by omega) (by omega) (by omega)
            simp only [hv]
            split
            · simp only [appendLine, modNode, bind, StateT.bind, Except.bind, pure, StateT.pure, Except.pure,
                getD_length_append, set_length_append]
              refine finNew _ rfl rfl ?_
              exact nodeOK_oneLine src _ _ rfl (hseg (i2 + 1) (by omega) (by omega)) rfl
            · exact finNew _ rfl rfl (nodeOK_noLines src _ rfl)

theorem atxOpen_spec (src : Bytes) : OpenSpec src .atx := by
  intro parent s c hctx
  show OKL _ (atxOpen parent s)
  refine (atxOpen_okl' hctx.ri hctx.lt parent).mono (fun a s' hp => ?_)
  obtain ⟨hri, hpc, ha, hcase⟩ := hp
  refine openPost_leaf (c' := c) (by decide) (by decide) hctx.pad hctx.ri.inRange hri ⟨0, rfl⟩ hpc ha ?_
  rcases hcase with ⟨h1, h2⟩ | ⟨h1, n, h2, h3, h4, h5⟩
  · exact .inl ⟨h1, h2, rfl⟩
  · exact .inr ⟨h1, n, h2, h3, h4, h5, fun hh => (by cases hh)⟩

end GM.Blocks
