/-
  GM.Proof.BlocksTNO13 — the close discipline through `openBlocksT` (GM.Proof.BlocksClosedWalk for the driver WITH
  transformers): `OWG`, the candidate loop `tryParsersT_clG` WITH the RequireParagraph path (the popped paragraph is
  closed, then transformed: KEEP — the setext block is pushed; GONE — `.retryTransformed`, the abandoned Heading is a
  parentless Heading, the fresh TextBlock hangs below `parent`), the `continuable:` exit, the `goto retry` loop.
-/
import GM.Proof.BlocksTNO38

namespace GM.Blocks.TX
open GM GM.Text GM.Spec GM.Proof.Reader GM.LinkRef GM.Blocks.TO GM.TableX
open GM.Proof.BlocksWF0 (isRaw)

variable {F : Prop}

/-- the node a successful `Open` appends carries no line when its kind is Blockquote / List / ListItem / ThematicBreak -/
theorem open_newNoLines {src : Bytes} {s s' : St} {c : RCur} (bp : BP) (parent : Nat) {a : Option Nat × PState}
    (hctx : LineCtx src s c) (e : bpOpen bp parent s = .ok (a, s')) {n : Node} (hn : s'.nodes = s.nodes ++ [n])
    (hk : n.kind = bp.kind) (hnl : noLinesKind n.kind = true) : n.lines = [] := by
  cases bp
  case setext => rw [hk] at hnl; cases hnl
  case thematic =>
    have e' : thematicOpen parent s = .ok (a, s') := e
    obtain ⟨_, _, _, _, _, _, _, h1 | h1⟩ := (thematicOpen_okl hctx.ri parent).of_ok e'
    · exfalso; rw [h1.2.1] at hn; simp at hn
    · rw [h1.2] at hn
      have : n = { kind := .thematicBreak } := by simpa using hn.symm
      subst this
      rfl
  case list =>
    have e' : listOpen parent s = .ok (a, s') := e
    obtain ⟨_, _, _, _, _, _, _, _, _, hnone, hsome⟩ := (listOpen_okl_ri src parent s c hctx.ri).of_ok e'
    cases ha : a.1 with
    | none => exfalso; rw [(hnone ha).1] at hn; simp at hn
    | some id =>
      obtain ⟨_, _, _, _, ⟨m, hm, _, _, hl, _⟩, _⟩ := hsome id ha
      rw [hm] at hn
      have : n = m := by simpa using hn.symm
      subst this
      exact hl
  case listItem =>
    have e' : listItemOpen parent s = .ok (a, s') := e
    by_cases hkl : (nd s parent).kind = .list
    · obtain ⟨_, _, _, _, _, _, _, _, _, _, hnone, hsome⟩ :=
        (listItemOpen_okl src parent s c hctx (listItemOpen_kids e' hkl)).of_ok e'
      cases ha : a.1 with
      | none => exfalso; rw [hnone ha] at hn; simp at hn
      | some id =>
        obtain ⟨_, _, m, hm, _, _, hl, _⟩ := hsome id ha
        rw [hm] at hn
        have : n = m := by simpa using hn.symm
        subst this
        exact hl
    · exfalso
      rw [GM.Blocks.L.listItemOpen_notList parent s hkl] at e'
      cases e'
      simp at hn
  case code => rw [hk] at hnl; cases hnl
  case atx => rw [hk] at hnl; cases hnl
  case fenced => rw [hk] at hnl; cases hnl
  case blockquote =>
    have e' : blockquoteOpen parent s = .ok (a, s') := e
    unfold blockquoteOpen at e'
    obtain ⟨b, s1, h1, k1⟩ := obind_ok e'
    obtain ⟨r1, c1, hs1, _⟩ := (blockquoteProcess_okl hctx.ri).of_ok h1
    subst s1
    split at k1
    · obtain ⟨id, s2, h2, k2⟩ := obind_ok k1
      obtain ⟨_, hs2⟩ := onewNode_ok h2
      subst s2
      obtain ⟨_, hs⟩ := opure_ok k2
      subst s'
      have : n = { kind := .blockquote } := by simpa using hn.symm
      subst this
      rfl
    · obtain ⟨_, hs⟩ := opure_ok k1
      subst s'
      exfalso; simp at hn
  case html => rw [hk] at hnl; cases hnl
  case paragraph => rw [hk] at hnl; cases hnl

theorem InvGFX.of_sameD {F : Prop} {D : List Block} {src : Bytes} {B : Int} {s s' : St} (hi : InvGFX D F src B s) (hn : s'.nodes = s.nodes)
    (ho : s'.pc.opened = s.pc.opened) (ht : s'.pc.tmpPara = s.pc.tmpPara) : InvGFX D F src B s' :=
  ⟨fun i => by simp only [nd, hn]; exact hi.nrb i, by rw [ho]; exact hi.ord,
    fun i => by simp only [nd, hn]; exact hi.pnb i,
    fun t h => by rw [ht] at h; simp only [nd, hn]; exact hi.tmpk t h,
    fun b hb => by rw [ho] at hb; simp only [nd, hn]; exact hi.kinds b hb,
    fun m hm => hi.nodes m (by rw [← hn]; exact hm),
    fun t h hm => by rw [ht] at h; rw [ho] at hm ⊢; simp only [nd, hn]; exact hi.tl t h hm,
    fun i => by simp only [nd, hn]; exact hi.raw i,
    fun i => by simp only [nd, hn]; exact hi.pnl i,
    fun b hb hd hbp => by rw [ho] at hb; simp only [nd, hn]; exact hi.pol b hb hd hbp⟩

theorem CInvG.of_same {src : Bytes} {s s' : St} {U : List Block} (h : CInvG F src s U) (hn : s'.nodes = s.nodes)
    (ho : s'.pc.opened = s.pc.opened) (ht : s'.pc.tmpPara = s.pc.tmpPara) : CInvG F src s' U := by
  have hnd : ∀ i, nd s' i = nd s i := fun i => by simp only [nd, hn]
  obtain ⟨B, D, hB⟩ := h.inv
  exact ⟨⟨B, D, hB.of_sameD hn ho ht⟩, h.tree.of_links (fun i => by rw [hnd]; exact ⟨rfl, rfl⟩),
    fun i hr => by rw [hnd] at hr ⊢; exact h.pad i hr, fun g hg => by rw [hnd]; exact h.att g hg, h.nodup,
    fun g hg => by rw [ho]; exact h.sub g hg, fun i hn => by rw [hnd] at hn ⊢; exact h.nl i hn⟩

theorem CInvG.strengthen {src : Bytes} {s : St} {U : List Block} (h : CInvG F src s U)
    (hs : ∀ t, s.pc.tmpPara = some t → (nd s t).lines ≠ [] ∧ ∀ b' ∈ s.pc.opened, b'.node ≠ t) : CInvG True src s U := by
  obtain ⟨B, D, hB⟩ := h.inv
  exact ⟨⟨B, D, hB.strengthen hs⟩, h.tree, h.pad, h.att, h.nodup, h.sub, h.nl⟩

/-- paragraphParser.Close keeps the store length; the paragraph keeps its parent or (no lines) loses it -/
theorem paragraphClose_frame {src : Bytes} {B : Int} {D : List Block} {s s' : St} {node : Nat} (hi : InvGFX D F src B s) (htr : TreeOK s)
    (hsrc : s.r.source = src) (e : paragraphClose node s = .ok ((), s')) :
    s'.nodes.length = s.nodes.length ∧
      ((nd s' node).parent = (nd s node).parent ∨ (nd s' node).parent = none) := by
  by_cases hne : (nd s node).lines = []
  · obtain ⟨p, hp, k4⟩ := paragraphClose_empty hne e
    have hlk := removeChild_lk k4
    obtain ⟨_, _, _, f2⟩ := removeChild_tree' htr k4
    refine ⟨hlk.len, ?_⟩
    rcases f2 with f2 | ⟨f2, _⟩
    · exact .inl f2
    · exact .inr f2
  · have hl : LinesOK src (nd s node).lines := (nodeOK_nd hi.nodes node).lines
    obtain ⟨hr, hpc, ls, _, _, _, _, hn⟩ := (paragraphClose_lines node hsrc hl hne).of_ok e
    have hs' : s' = { s with nodes := s.nodes.set node { (nd s node) with lines := ls } } := by
      cases s'; simp only at hr hpc hn; subst hr hpc hn; rfl
    subst hs'
    exact ⟨by simp, .inl (setLines_links s node ls node).1⟩

structure OWG (src : Bytes) (n0 tp : Nat) (s : St) : Prop where
  ci : CInvG False src s s.pc.opened
  np : NewPar n0 tp s
  len : n0 ≤ s.nodes.length
  tmp : ∀ t, s.pc.tmpPara = some t → t < n0

section walk
variable {src : Bytes}

theorem OWG.congr {n0 tp : Nat} {s s' : St} (h : OWG src n0 tp s) (hn : s'.nodes = s.nodes)
    (ho : s'.pc.opened = s.pc.opened) (ht : s'.pc.tmpPara = s.pc.tmpPara) : OWG src n0 tp s' := by
  have hnd : ∀ i, nd s' i = nd s i := fun i => by simp only [nd, hn]
  refine ⟨by rw [ho]; exact h.ci.of_same hn ho ht, fun x hx q hq => ?_, by rw [hn]; exact h.len,
    fun t htt => h.tmp t (by rw [← ht]; exact htt)⟩
  rw [hnd] at hq
  obtain ⟨a1, a2, a3⟩ := h.np x hx q hq
  exact ⟨a1, by rw [hnd]; exact a2, by rw [hn]; exact a3⟩

variable {pts : List PT} (hag : AgreeP src pts pts) (hagT : AgreeT src pts)
include hag hagT

/-- **the candidate loop** under the close discipline, RequireParagraph included -/
theorem tryParsersT_clG (L : Int) (n0 tp : Nat) (parent : Nat) (blank cont : Bool) (w : Int) (old : List Block) (s0 : St)
    (hent : Ent old s0) :
    ∀ (bps : List BP) (result : OpenResult) (lb : Option Block) (s : St) (c : RCur)
      (x : TryOutcomeT × OpenResult × Option Block) (s' : St),
      CleanG src L s c → c.p < src.length → BoffOK src s c → NP old s0 s → OWG src n0 tp s → FreshN n0 s →
      (parent = tp ∨ n0 ≤ parent) → parent < s.nodes.length → (nd s parent).kind ≠ .paragraph →
      tryParsersT pts parent blank cont w bps result lb s = .ok (x, s') →
      OWG src n0 tp s' ∧
      ((x.1 = .done ∧ x.2.1 = result ∧ s'.nodes = s.nodes ∧ s'.pc.opened = s.pc.opened) ∨
       (x.1 = .done ∧ x.2.1 = .newBlocksOpened) ∨
       (∃ p', x.1 = .retry p' ∧ FreshN n0 s' ∧ n0 ≤ p' ∧ p' < s'.nodes.length ∧ (nd s' p').kind ≠ .paragraph) ∨
       (x.1 = .retryTransformed ∧ x.2.1 = result ∧ FreshN n0 s' ∧ KG s s' ∧ s'.pc.opened = s.pc.opened.dropLast)) := by
  intro bps
  induction bps with
  | nil =>
    intro result lb s c x s' _ _ _ _ how _ _ _ _ h
    unfold tryParsersT at h
    obtain ⟨rfl, hs⟩ := opure_ok h
    subst s'
    exact ⟨how, .inl ⟨rfl, rfl, rfl, rfl⟩⟩
  | cons bp bps ih =>
    intro result lb s c x s' hc hlt hoff hnp how hfn hptp hpl hpk h
    unfold tryParsersT at h
    split at h
    · exact ih _ _ _ _ _ _ hc hlt hoff hnp how hfn hptp hpl hpk h
    · split at h
      · exact ih _ _ _ _ _ _ hc hlt hoff hnp how hfn hptp hpl hpk h
      · obtain ⟨lb', s1, h1, k1⟩ := obind_ok h
        obtain ⟨hlb', hs1⟩ := olastOpenedBlock_ok h1
        subst s1
        subst lb'
        dsimp only at k1
        obtain ⟨y, s2, h2, k2⟩ := obind_ok k1
        have hkindsS : ∀ b ∈ s.pc.opened, (nd s b.node).kind = b.bp.kind := fun b hb => (hc.inv.kinds b hb).1
        have eff := open_effG bp parent hc hlt hoff
          (fun _ lb0 hl0 hp0 => (hnp.sf hent.leafy hkindsS hl0 hp0).2) h2
        have frl := (bpOpen_frl bp parent).h s y s2 h2
        obtain ⟨node, state⟩ := y
        -- the setext key behind `Open` points to a node older than the call
        have htmpn0 : ∀ t, s2.pc.tmpPara = some t → t < n0 := by
          intro t ht
          have h1' := eff.tmplt t ht
          have h2' := eff.invE.tmpk t ht
          rcases Nat.lt_or_ge t n0 with h' | h'
          · exact h'
          · exfalso
            have : (nd s2 t).kind = (nd s t).kind := by
              cases hnode : node with
              | none => obtain ⟨_, hn2, _⟩ := eff.declined (by rw [hnode]); simp only [nd, hn2]
              | some id =>
                obtain ⟨n, hsn, _⟩ := eff.snoc id (by rw [hnode])
                rw [nd_snoc hsn, if_pos h1']
            rw [this] at h2'
            exact hfn t h' h2'
        cases node with
        | none =>
          dsimp only at k2
          obtain ⟨hc2, hn2, htm2⟩ := eff.declined rfl
          have hoff2 : BoffOK src s2 c := by unfold BoffOK; rw [eff.boff]; exact hoff
          have hnd : ∀ i, nd s2 i = nd s i := fun i => by simp only [nd, hn2]
          have how2 : OWG src n0 tp s2 := how.congr hn2 eff.opened htm2
          obtain ⟨d, hcases⟩ := ih _ _ _ _ _ _ hc2 hlt hoff2 (hnp.congr hn2 eff.opened) how2
            (fun i hi => by rw [hnd]; exact hfn i hi) hptp (by rw [hn2]; exact hpl) (by rw [hnd]; exact hpk) k2
          refine ⟨d, ?_⟩
          rcases hcases with ⟨a1, a2, a3, a4⟩ | hb | hcc | ⟨d1, d0, d2, d3, d4⟩
          · exact .inl ⟨a1, a2, a3.trans hn2, a4.trans eff.opened⟩
          · exact .inr (.inl hb)
          · exact .inr (.inr (.inl hcc))
          · exact .inr (.inr (.inr ⟨d1, d0, d2, by
              refine ⟨by rw [← hn2]; exact d3.1, fun i hi => ?_⟩
              rw [d3.2 i (by rw [hn2]; exact hi), hnd], by rw [d4, eff.opened]⟩))
        | some node =>
          dsimp only at k2
          obtain ⟨hid, hltn, hkn⟩ := eff.node node rfl
          obtain ⟨n, hsn, hnk⟩ := eff.snoc node rfl
          subst hid
          have hnd2 := fun i => nd_snoc hsn i
          have hctx : LineCtx src s c := ⟨hc.ri, hlt, hc.pad, hoff, hc.inv.nodes⟩
          have hnself : nd s2 s.nodes.length = n := by rw [hnd2, if_neg (by omega), if_pos rfl]
          have hnparN : (nd s2 s.nodes.length).parent = none := (frl.2.2 _ (Nat.le_refl _)).1
          -- the state behind `Open`
          have hpre : TailPre False src n0 tp parent s.nodes.length bp s2 := by
            refine ⟨⟨⟨_, _, eff.invE⟩, how.ci.tree.linksKept frl, fun i hr => ?_,
              fun g hg => ?_, by rw [eff.opened]; exact how.ci.nodup, fun g hg => hg, fun i hn => by
                rw [hnd2] at hn ⊢
                split
                · next hi => rw [if_pos hi] at hn; exact how.ci.nl i hn
                · next hi =>
                  rw [if_neg hi] at hn
                  split
                  · next hi2 => rw [if_pos hi2] at hn; exact open_newNoLines bp parent hctx h2 hsn hnk hn
                  · rfl⟩, hltn, hnparN,
              hkn, fun b hb => ?_, hpl, ?_, hptp, how.len, fun x hx q hq => ?_, fun hbs hr => ?_, eff.stop.source,
              fun t ht => Nat.ne_of_lt (eff.tmplt t ht)⟩
            · by_cases hi : i < s.nodes.length
              · have e0 : nd s2 i = nd s i := by rw [hnd2, if_pos hi]
                rw [e0] at hr ⊢
                rw [eff.opened]; exact how.ci.pad i hr
              · by_cases hi2 : i = s.nodes.length
                · subst hi2
                  by_cases hbs : bp = .setext
                  · exact .inr (.inr ⟨by rw [hkn, hbs]; rfl, hnparN⟩)
                  · left; rw [hnself] at hr ⊢; exact open_newClosed bp parent hctx h2 hsn hnk hbs hr
                · left; rw [hnd2, if_neg hi, if_neg hi2]; intro t ht; cases ht
            · rw [eff.opened] at hg
              have hgl := (how.ci.kinds hg).2
              rw [(frl.2.1 g.node hgl).1]; exact how.ci.att g hg
            · rw [eff.opened] at hb; exact (how.ci.kinds hb).2
            · rw [hnd2, if_pos hpl]; exact hpk
            · rw [hnd2] at hq
              by_cases hxl : x < s.nodes.length
              · rw [if_pos hxl] at hq
                obtain ⟨a1, a2, a3⟩ := how.np x hx q hq
                exact ⟨a1, by rw [hnd2, if_pos a3]; exact a2, by rw [hsn]; simp; omega⟩
              · rw [if_neg hxl] at hq
                by_cases hx2 : x = s.nodes.length
                · rw [if_pos hx2] at hq
                  rw [hnself] at hnparN; rw [hnparN] at hq; cases hq
                · rw [if_neg hx2] at hq; cases hq
            · rw [hnself] at hr ⊢
              exact open_newClosed bp parent hctx h2 hsn hnk hbs hr
          -- the last opened block is attached
          have hlpar2 : ∀ l, (s.pc.opened.getLast?).map (·.node) = some l → (nd s2 l).parent.isSome = true := by
            intro l hl
            cases hlb' : s.pc.opened.getLast? with
            | none => rw [hlb'] at hl; cases hl
            | some lb0 =>
              rw [hlb'] at hl
              simp only [Option.map_some, Option.some.injEq] at hl
              subst hl
              exact hpre.cx.att lb0 (by rw [eff.opened]; exact List.mem_of_getLast? hlb')
          have h2' : bp = .setext → setextOpen parent s = .ok ((some s.nodes.length, state), s2) :=
            fun hb => by subst hb; exact h2
          by_cases hrq : state.requirePara = true
          · have hbs := eff.noreq hrq
            subst hbs
            obtain ⟨r', hri', hcase⟩ := setextOpen_line hc.ri (h2' rfl)
            rcases hcase with ⟨hnone, _⟩ | ⟨lb, lvl, hlast, hkp, hpar, ha, hs2⟩
            · cases hnone
            obtain ⟨⟨hn0, hop0⟩, hsf⟩ := hnp.sf hent.leafy hkindsS hlast hkp
            have hnd0 : ∀ i, nd s0 i = nd s i := fun i => by simp only [nd, hn0]
            obtain ⟨hll, hplt⟩ := hent.ll lb (by rw [← hop0]; exact hlast) (by rw [hnd0]; exact hkp) parent
              (by rw [hnd0]; exact hpar)
            have hlbm : lb ∈ s.pc.opened := List.mem_of_getLast? hlast
            have hlbp : lb.bp = .paragraph := kind_paragraph (by rw [← hkindsS lb hlbm]; exact hkp)
            have hstf : state.hasChildren = false := by
              have : state = { requirePara := true } := (Prod.mk.inj ha).2
              rw [this]
            have htmp2 : s2.pc.tmpPara = some lb.node := by rw [hs2]
            have hsrc2 : s2.r.source = src := eff.stop.source
            have hlbm2 : lb ∈ s2.pc.opened := by rw [eff.opened]; exact hlbm
            obtain ⟨hkb, hltb⟩ := hpre.cx.kinds hlbm2
            have hlbn0 : lb.node < n0 := htmpn0 lb.node htmp2
            have hlbs : lb.node < s.nodes.length := (hc.inv.kinds lb hlbm).2
            have hsplit : s2.pc.opened = s2.pc.opened.dropLast ++ [lb] :=
              eq_dropLast_append_of_getLast? _ _ (by rw [eff.opened]; exact hlast)
            have hcx : CInvG False src s2 (lb :: s2.pc.opened.dropLast) := hpre.cx.perm (by
              have := List.perm_append_comm (l₁ := [lb]) (l₂ := s2.pc.opened.dropLast)
              rw [← hsplit] at this
              exact this)
            have hdlc : ∀ g ∈ s2.pc.opened.dropLast, g.bp.isContainer = true := fun g hg =>
              hent.leafy g (by rw [← hop0, ← eff.opened]; exact hg)
            have hpar2 : (nd s2 lb.node).parent = some parent := by rw [hnd2, if_pos hlbs]; exact hpar
            obtain ⟨B2, D2, hB2⟩ := hpre.cx.inv
            rw [if_pos hrq] at k2
            unfold requireParaT at k2
            rw [hlast] at k2
            obtain ⟨tr, s8, hreq, kc⟩ := obind_ok k2
            obtain ⟨pn, s3, h3, k3⟩ := obind_ok hreq
            obtain ⟨hpn, hs3⟩ := ogetNode_ok h3
            subst s3
            split at k3
            · dsimp only at k3
              obtain ⟨_, s5, h5, k5⟩ := obind_ok k3
              have e5 : paragraphClose lb.node s2 = .ok ((), s5) := by rw [hlbp] at h5; exact h5
              obtain ⟨hlen5, hpar5⟩ := paragraphClose_frame hB2 hpre.cx.tree hsrc2 e5
              obtain ⟨hc5, hs5⟩ := bpClose_clG hcx hsrc2
                (fun g hg hp => absurd hp (not_ps_of_container (hdlc g hg))) h5
              obtain ⟨pc6, s6, h6, k6⟩ := obind_ok k5
              obtain ⟨hpc6, hs6⟩ := ogetPc_ok h6
              subst s6
              subst pc6
              split at k6
              · obtain ⟨_, _, ht, _⟩ := obind_ok k6
                cases ht
              obtain ⟨_, s7, h7, k7⟩ := obind_ok k6
              have e7 := omodPc_ok h7
              subst s7
              obtain ⟨n8, sx, h8, k8⟩ := obind_ok k7
              obtain ⟨_, hsx⟩ := ogetNode_ok h8
              subst sx
              split at k8
              · obtain ⟨_, _, ht, _⟩ := obind_ok k8
                cases ht
              -- the state after the pop
              have hop5 : s5.pc.opened = s2.pc.opened := hs5.opened
              obtain ⟨B5, D5, hB5⟩ := hc5.inv
              have hc7 : CInvG False src ({ s5 with pc := { s5.pc with opened := s5.pc.opened.dropLast } } : St)
                  s2.pc.opened.dropLast :=
                ⟨⟨B5, D5, hB5.congr_pc _ rfl (List.dropLast_sublist _)⟩, hc5.tree.of_links (fun i => ⟨rfl, rfl⟩), hc5.pad,
                  hc5.att, hc5.nodup, fun g hg => by show g ∈ s5.pc.opened.dropLast; rw [hop5]; exact hg, hc5.nl⟩
              obtain ⟨hk5, hlt5⟩ := nk_kg hs5.kg (show (nd s2 lb.node).kind = .paragraph by rw [hkb, hlbp]; rfl) hltb
              have hneU : ∀ g ∈ s2.pc.opened.dropLast, g.node ≠ lb.node := fun g hg => hcx.ne hg
              have hcl5 : Closed (nd s5 lb.node) := by
                rcases hc5.pad lb.node (by rw [hk5]; rfl) with hcc | ⟨g, hg, hn, _⟩ | hab
                · exact hcc
                · exact absurd hn (hneU g hg)
                · rw [hk5] at hab; cases hab.1
              have hnt7 : ∀ t, ({ s5 with pc := { s5.pc with opened := s5.pc.opened.dropLast } } : St).pc.tmpPara = some t →
                  (False ∨ ∃ b ∈ ({ s5 with pc := { s5.pc with opened := s5.pc.opened.dropLast } } : St).pc.opened,
                    b.bp = .setext) → t ≠ lb.node := by
                intro t _ hm
                obtain ⟨b, hb, hs⟩ := hm.resolve_left id
                have hb' : b ∈ s.pc.opened := by
                  have : b ∈ s5.pc.opened := List.dropLast_subset _ hb
                  rw [hop5, eff.opened] at this; exact this
                exact absurd hs (hsf b hb')
              obtain ⟨B7, D7, hB7⟩ := hc7.inv
              have hp := (hag lb.node ({ s5 with pc := { s5.pc with opened := s5.pc.opened.dropLast } } : St)
                (by show s5.r.source = src; rw [hs5.r]; exact hsrc2) hlt5 hk5 hB7.nodes (hB7.linesOKB hk5)).2 tr s8 k8
              have hpT := hagT lb.node ({ s5 with pc := { s5.pc with opened := s5.pc.opened.dropLast } } : St)
                (by show s5.r.source = src; rw [hs5.r]; exact hsrc2) hlt5 hk5 hB7.nodes (hB7.linesOKB hk5) hc7.tree tr s8 k8
              obtain ⟨hc8, hs8, fr8, _, new8⟩ := ptpostT_cl0 hc7 hlt5 hk5 hneU hcl5 hnt7 hpT
              -- facts about `s8` relative to `s2` and `s`
              have hkg28 : KG s2 s8 := hs5.kg.trans hs8.kg
              have hkgs2 : KG s s2 := ⟨by rw [hsn]; simp, fun i hi => by rw [hnd2, if_pos hi]⟩
              have hkgs8 : KG s s8 := hkgs2.trans hkg28
              have hop8 : s8.pc.opened = s2.pc.opened.dropLast := by
                rw [hs8.opened]; show s5.pc.opened.dropLast = _; rw [hop5]
              have hr8 : s8.r = s2.r := by rw [hs8.r]; exact hs5.r
              have hlen7 : ({ s5 with pc := { s5.pc with opened := s5.pc.opened.dropLast } } : St).nodes.length =
                  s2.nodes.length := hlen5
              have hs2len : s2.nodes.length = s.nodes.length + 1 := by rw [hsn]; simp
              have hfr2 : ∀ i, n0 ≤ i → i < s2.nodes.length → (nd s2 i).kind ≠ .paragraph := by
                intro i hi hil
                rw [hnd2]
                split
                · exact hfn i hi
                · split
                  · rw [hnk]; decide
                  · decide
              have hpar28 : ∀ i, n0 ≤ i → i < s2.nodes.length → (nd s8 i).parent = (nd s2 i).parent := by
                intro i hi hil
                have hne : i ≠ lb.node := by omega
                rw [fr8 i (by rw [hlen7]; exact hil) hne]
                exact hs5.npar i hil (hfr2 i hi hil)
              have htmp8 : ∀ t, s8.pc.tmpPara = some t → t = lb.node := by
                intro t ht
                have h1' := hs5.tmp t (hs8.tmp t ht)
                rw [htmp2] at h1'
                cases h1'; rfl
              have hfresh8 : FreshN n0 s8 := by
                intro i hi
                rcases Nat.lt_or_ge i s2.nodes.length with h1' | h1'
                · rw [hkg28.2 i h1']; exact hfr2 i hi h1'
                · rcases Nat.lt_or_ge i s8.nodes.length with h2' | h2'
                  · exact (new8 i (by rw [hlen7]; exact h1') h2').1
                  · rw [nd_default_of_ge s8 h2']; decide
              have hnp8 : NewPar n0 tp s8 := by
                intro x hx q hq
                rcases Nat.lt_or_ge x s2.nodes.length with h1' | h1'
                · rw [hpar28 x hx h1'] at hq
                  obtain ⟨a1, a2, a3⟩ := hpre.np x hx q hq
                  exact ⟨a1, by rw [hkg28.2 q a3]; exact a2, Nat.lt_of_lt_of_le a3 hkg28.1⟩
                · rcases Nat.lt_or_ge x s8.nodes.length with h2' | h2'
                  · obtain ⟨_, b2⟩ := new8 x (by rw [hlen7]; exact h1') h2'
                    rcases b2 q hq with b2 | ⟨b2, b3, b4⟩
                    · have hq5 : (nd s5 lb.node).parent = some q := b2.symm
                      have hqp : q = parent := by
                        rcases hpar5 with h5' | h5'
                        · rw [h5', hpar2] at hq5; cases hq5; rfl
                        · rw [h5'] at hq5; cases hq5
                      subst hqp
                      refine ⟨hptp, ?_, Nat.lt_of_lt_of_le hpl hkgs8.1⟩
                      rw [hkgs8.2 q hpl]; exact hpk
                    · have hb2 : s2.nodes.length ≤ q := by rw [← hlen7]; exact b2
                      exact ⟨.inr (by have := how.len; omega), b4, b3⟩
                  · rw [nd_default_of_ge s8 h2'] at hq; cases hq
              have hnode8 : (nd s8 s.nodes.length).kind = BP.setext.kind ∧ s.nodes.length < s8.nodes.length :=
                nk_kg hkg28 hkn hltn
              have hc8' : CInvG False src s8 s8.pc.opened := by rw [hop8]; exact hc8
              cases tr with
              | true =>
                simp only [if_true] at kc
                obtain ⟨hx, hs'⟩ := opure_ok kc
                subst hs'
                refine ⟨⟨hc8', hnp8, Nat.le_trans how.len hkgs8.1, fun t ht => by rw [htmp8 t ht]; exact hlbn0⟩,
                  .inr (.inr (.inr ⟨by rw [hx], by rw [hx], hfresh8, hkgs8, by rw [hop8, eff.opened]⟩))⟩
              | false =>
                simp only [Bool.false_eq_true, if_false] at kc
                have hstrong : ∀ t, s8.pc.tmpPara = some t → (nd s8 t).lines ≠ [] ∧ ∀ b' ∈ s8.pc.opened, b'.node ≠ t := by
                  intro t ht
                  have := htmp8 t ht
                  subst this
                  refine ⟨ptpostX_keep hB7.nodes hlt5 hp.1 (hp.2 rfl), fun b' hb' => ?_⟩
                  rw [hop8] at hb'
                  exact hneU b' hb'
                have hp8 : TailPre True src n0 tp parent s.nodes.length .setext s8 := by
                  refine ⟨hc8'.strengthen hstrong, hnode8.2, ?_, hnode8.1, fun b hb => ?_, hpl, ?_, hptp, how.len, hnp8,
                    fun hb => absurd rfl hb, by rw [hr8]; exact hsrc2, fun t ht => by rw [htmp8 t ht]; omega⟩
                  · rw [hpar28 _ how.len hltn]; exact hnparN
                  · rw [hop8] at hb
                    exact hpre.fresh b (List.dropLast_subset _ hb)
                  · rw [hkgs8.2 parent hpl]; exact hpk
                obtain ⟨t1, t2, t3, t4, t5, t6, hx3⟩ := tailT_clG (src := src) n0 tp parent s.nodes.length .setext blank
                  state.hasChildren (some lb) s8 s' x hp8
                  (fun l hl => by
                    simp only [Option.map_some, Option.some.injEq] at hl
                    subst hl
                    exact hp.2 rfl) (fun _ => trivial) kc
                refine ⟨⟨t1, t2, by rw [t3]; exact Nat.le_trans how.len hkgs8.1,
                  fun t ht => by rw [t4] at ht; rw [htmp8 t ht]; exact hlbn0⟩, ?_⟩
                rw [hstf] at hx3
                simp only [Bool.false_eq_true, if_false] at hx3
                exact .inr (.inl ⟨by rw [hx3], by rw [hx3]⟩)
            · -- the ELSE branch of `last == parent.LastChild()` is dead
              next hne =>
              exfalso
              apply hne
              have : (s2.nodes.getD parent default) = nd s0 parent := by
                rw [hnd0]
                have hplt' : parent < s.nodes.length := by rw [hn0]; exact hplt
                exact GM.Blocks.L.nd_append_lt hsn hplt'
              rw [hpn, this, hll]
              simp
          · have hbs : bp ≠ .setext := by
              intro hb
              obtain ⟨r', _, hcase⟩ := setextOpen_line hc.ri (h2' hb)
              rcases hcase with ⟨hnone, _⟩ | ⟨lb0, lvl, _, _, _, ha, _⟩
              · cases hnone
              · have : state = { requirePara := true } := (Prod.mk.inj ha).2
                rw [this] at hrq
                exact hrq rfl
            rw [if_neg hrq] at k2
            simp only [pure_bind, Bool.false_eq_true, if_false] at k2
            obtain ⟨t1, t2, t3, t4, t5, t6, hx3⟩ := tailT_clG (src := src) n0 tp parent s.nodes.length bp blank
              state.hasChildren s.pc.opened.getLast? s2 s' x hpre hlpar2 (fun hb => absurd hb hbs) k2
            have how' : OWG src n0 tp s' :=
              ⟨t1, t2, by rw [t3]; have := how.len; omega, fun t ht => htmpn0 t (by rw [← t4]; exact ht)⟩
            refine ⟨how', ?_⟩
            by_cases hch : state.hasChildren = true
            · rw [if_pos hch] at hx3
              have hkc : bp.kind ≠ .paragraph := container_kind_ne_paragraph (eff.cont hch)
              refine .inr (.inr (.inl ⟨s.nodes.length, by rw [hx3], fun i hi => ?_, how.len, by rw [t3]; exact hltn, ?_⟩))
              · rw [t6, hnd2]
                split
                · exact hfn i hi
                · split
                  · rw [hnk]; exact hkc
                  · decide
              · rw [t6, hkn]; exact hkc
            · rw [if_neg hch] at hx3
              exact .inr (.inl ⟨by rw [hx3], by rw [hx3]⟩)

omit hag hagT in
/-- **the `continuable:` exit** under the close discipline: the continuation line goes to a block that is still open -/
theorem toContinuableG_cl (L : Int) (n0 tp : Nat) (cont : Bool) (result : OpenResult) (lbo : Option Block) (s : St)
    (c : RCur) (r' : OpenResult) (s' : St) (hc : CleanG src L s c) (how : OWG src n0 tp s)
    (hres : result = .noBlocksOpened → cont = true → lbo = s.pc.opened.getLast? ∧ ContOK cont s)
    (h : toContinuable cont result lbo s = .ok (r', s')) :
    OWG src n0 tp s' ∧ s'.pc.opened = s.pc.opened ∧
      (r' = result ∨ (result = .noBlocksOpened ∧ r' = .paragraphContinuation)) := by
  obtain ⟨E, hE, _⟩ := toContinuableG_ord L cont result lbo s c r' s' hc hres h
  unfold toContinuable at h
  split at h
  · next hcond =>
    simp only [Bool.and_eq_true, beq_iff_eq] at hcond
    obtain ⟨hlbo, hck⟩ := hres hcond.1 hcond.2
    obtain ⟨lb, hlast, hkind⟩ := hck hcond.2
    rw [hlbo, hlast] at h
    dsimp only at h
    obtain ⟨st, s1, h1, k1⟩ := obind_ok h
    have hs' : s' = s1 ∧ (r' = result ∨ (result = .noBlocksOpened ∧ r' = .paragraphContinuation)) := by
      split at k1
      · exact ⟨(opure_ok k1).2, .inr ⟨hcond.1, (opure_ok k1).1⟩⟩
      · exact ⟨(opure_ok k1).2, .inl (opure_ok k1).1⟩
    obtain ⟨hs', hrr⟩ := hs'
    subst s'
    have hmem := List.mem_of_getLast? hlast
    obtain ⟨hkb, hltb⟩ := hc.inv.kinds lb hmem
    have hbp : lb.bp = .paragraph := kind_paragraph (by rw [← hkb]; exact hkind)
    rw [hbp] at h1
    have h1' : paragraphContinue lb.node s = .ok (st, s1) := h1
    obtain ⟨r1, c1, hr1, _, _, hpc1, hcase⟩ := (paragraphContinue_line hc.ri lb.node).of_ok h1'
    refine ⟨?_, by rw [hpc1], hrr⟩
    rcases hcase with ⟨_, hn, _⟩ | ⟨_, _, _, _, _, hn⟩
    · exact how.congr hn (by rw [hpc1]) (by rw [hpc1])
    · have hnd : ∀ i, nd s1 i = if lb.node = i ∧ lb.node < s.nodes.length then
          { (nd s lb.node) with lines := (nd s lb.node).lines ++ [RCur.seg src c], linesNil := false } else nd s i := by
        intro i
        have : nd s1 i = nd ({ s with nodes := s.nodes.set lb.node ((fun n : Node =>
            { n with lines := n.lines ++ [RCur.seg src c], linesNil := false }) (s.nodes.getD lb.node default)) } : St) i := by
          simp only [nd, hn]
        rw [this]
        exact nd_mod s lb.node (fun n => { n with lines := n.lines ++ [RCur.seg src c], linesNil := false }) i
      have hlinks : ∀ i, (nd s1 i).parent = (nd s i).parent ∧ (nd s1 i).children = (nd s i).children ∧
          (nd s1 i).kind = (nd s i).kind := by
        intro i; rw [hnd]; split
        · next hc' => rw [hc'.1]; exact ⟨rfl, rfl, rfl⟩
        · exact ⟨rfl, rfl, rfl⟩
      have hlen : s1.nodes.length = s.nodes.length := by rw [hn]; simp
      refine ⟨⟨⟨E, _, hE⟩, how.ci.tree.of_links (fun i => ⟨(hlinks i).1, (hlinks i).2.1⟩), fun i hr => ?_,
        fun g hg => by rw [(hlinks g.node).1]; rw [hpc1] at hg; exact how.ci.att g hg,
        by rw [hpc1]; exact how.ci.nodup, fun g hg => hg, fun i hn => by
          rw [(hlinks i).2.2] at hn
          rw [hnd]
          split
          · next hc' => rw [← hc'.1, hkind] at hn; cases hn
          · exact how.ci.nl i hn⟩, fun x hx q hq => ?_, by rw [hlen]; exact how.len,
        fun t ht => how.tmp t (by rw [← hpc1]; exact ht)⟩
      · rw [(hlinks i).2.2] at hr
        by_cases hi : lb.node = i
        · subst hi
          exact .inr (.inl ⟨lb, by rw [hpc1]; exact hmem, rfl, .inl hbp⟩)
        · rcases how.ci.pad i hr with hcl | hop | hab
          · left; rw [Closed, hnd, if_neg (fun hh => hi hh.1)]; exact hcl
          · rw [hpc1]; exact .inr (.inl hop)
          · exact .inr (.inr ⟨by rw [(hlinks i).2.2]; exact hab.1, by rw [(hlinks i).1]; exact hab.2⟩)
      · rw [(hlinks x).1] at hq
        obtain ⟨a1, a2, a3⟩ := how.np x hx q hq
        exact ⟨a1, by rw [(hlinks q).2.2]; exact a2, by rw [hlen]; exact a3⟩
  · have h' : (pure result : M OpenResult) s = .ok (r', s') := h
    obtain ⟨hr, hs⟩ := opure_ok h'
    subst s'
    exact ⟨how, rfl, .inl hr⟩


/-- **the `goto retry` loop** under the close discipline -/
theorem openBlocksLoopT_clG (L : Int) (n0 tp : Nat) (blank : Bool) (old : List Block) (s0 : St) (hent : Ent old s0) :
    ∀ (fuel : Nat) (tdone cont : Bool) (parent : Nat) (result : OpenResult) (lbo : Option Block) (s : St) (c : RCur)
      (r' : OpenResult) (s' : St),
      CleanG src L s c → NP old s0 s → OWG src n0 tp s → FreshN n0 s →
      (parent = tp ∨ n0 ≤ parent) → parent < s.nodes.length → (nd s parent).kind ≠ .paragraph →
      (result = .noBlocksOpened → cont = true → lbo = s.pc.opened.getLast? ∧ ContOK cont s) →
      openBlocksLoopT pts blank fuel tdone cont parent result lbo s = .ok (r', s') →
      OWG src n0 tp s' ∧ (result = .newBlocksOpened → r' = .newBlocksOpened) ∧
        (r' ≠ .newBlocksOpened → s'.pc.opened.Sublist s.pc.opened) := by
  intro fuel
  induction fuel with
  | zero => intro tdone cont parent result lbo s c r' s' _ _ _ _ _ _ _ _ h; unfold openBlocksLoopT at h; cases h
  | succ fuel ih =>
    intro tdone cont parent result lbo s c r' s' hc hnp how hfn hptp hpl hpk hres h
    unfold openBlocksLoopT at h
    obtain ⟨y, s1, h1, k1⟩ := obind_ok h
    obtain ⟨rfl, r1, hs1, hr1⟩ := peekLine_inv hc.ri h1
    subst s1
    dsimp only at k1
    obtain ⟨lo, s2, h2, k2⟩ := obind_ok k1
    obtain ⟨r2, hs2, hr2⟩ := lineOffset_inv (s := { s with r := r1 }) hr1 h2
    subst s2
    obtain ⟨u, s3, h3, k3⟩ := obind_ok k2
    have e3 := omodPc_ok h3
    have hop3 : s3.pc.opened = s.pc.opened := by rw [e3]; dsimp only; split <;> rfl
    have htm3 : s3.pc.tmpPara = s.pc.tmpPara := by rw [e3]; dsimp only; split <;> rfl
    have hn3 : s3.nodes = s.nodes := by rw [e3]
    have hr3 : s3.r = r2 := by rw [e3]
    have hnd3 : ∀ i, nd s3 i = nd s i := fun i => by simp only [nd, hn3]
    have hc3 : CleanG src L s3 c := ⟨hc.inv.of_same hn3 hop3 htm3, by rw [hr3]; exact hr2, hc.pad, hc.le, hc.padl⟩
    have how3 : OWG src n0 tp s3 := how.congr hn3 hop3 htm3
    have hnp3 : NP old s0 s3 := hnp.congr hn3 hop3
    have hfn3 : FreshN n0 s3 := fun i hi => by rw [hnd3]; exact hfn i hi
    have hpl3 : parent < s3.nodes.length := by rw [hn3]; exact hpl
    have hpk3 : (nd s3 parent).kind ≠ .paragraph := by rw [hnd3]; exact hpk
    have hres3 : result = .noBlocksOpened → cont = true → lbo = s3.pc.opened.getLast? ∧ ContOK cont s3 := by
      intro hr hct0
      obtain ⟨a, b⟩ := hres hr hct0
      refine ⟨by rw [hop3]; exact a, fun hct => ?_⟩
      obtain ⟨lb, h1', h2'⟩ := b hct
      exact ⟨lb, by rw [hop3]; exact h1', by rw [hnd3]; exact h2'⟩
    have hboff : (RCur.view src c).isSome = true → BoffOK src s3 c := by
      intro hsome
      unfold BoffOK
      rw [e3]
      dsimp only
      split
      · simp only; omega
      · simp only; omega
    have exit : toContinuable cont result lbo s3 = .ok (r', s') →
        OWG src n0 tp s' ∧ (result = .newBlocksOpened → r' = .newBlocksOpened) ∧
          (r' ≠ .newBlocksOpened → s'.pc.opened.Sublist s.pc.opened) := fun hk => by
      obtain ⟨a1, a2, a3⟩ := toContinuableG_cl L n0 tp cont result lbo s3 c r' s' hc3 how3 hres3 hk
      refine ⟨a1, fun hn => ?_, fun _ => by rw [a2, hop3]; exact List.Sublist.refl _⟩
      rcases a3 with a3 | ⟨a3, _⟩
      · rw [a3]; exact hn
      · rw [hn] at a3; cases a3
    have viaTry : ∀ (bps : List BP), (RCur.view src c).isSome = true →
        retryStepT pts blank tdone cont parent (indentWidthI ((RCur.view src c).getD []) lo).fst bps result lbo
          (openBlocksLoopT pts blank fuel) s3 = .ok (r', s') →
        OWG src n0 tp s' ∧ (result = .newBlocksOpened → r' = .newBlocksOpened) ∧
          (r' ≠ .newBlocksOpened → s'.pc.opened.Sublist s.pc.opened) := by
      intro bps hsome hk
      have hlt : c.p < src.length := by
        cases hv : RCur.view src c with
        | none => rw [hv] at hsome; cases hsome
        | some l => exact view_some_lt src c hv
      unfold retryStepT at hk
      obtain ⟨sb, s4, h4, k4⟩ := obind_ok hk
      have e4 : s4 = s3 := by cases h4; rfl
      subst s4
      obtain ⟨x, s5, h5, k5⟩ := obind_ok k4
      obtain ⟨_, hord⟩ := (tryParsersT_eqg hag L parent blank cont _ old s0 hent bps result lbo s3 c hc3 hlt (hboff hsome)
        hnp3).2 x s5 h5
      obtain ⟨how5, hcl⟩ := tryParsersT_clG hag hagT L n0 tp parent blank cont _ old s0 hent bps result lbo s3 c x s5 hc3 hlt
        (hboff hsome) hnp3 how3 hfn3 hptp hpl3 hpk3 h5
      obtain ⟨o, res, l⟩ := x
      cases o with
      | done =>
        dsimp only at k5
        by_cases hnew : res = .newBlocksOpened
        · rw [hnew] at k5
          have hr5 : r' = .newBlocksOpened := by
            have k5' := k5
            unfold toContinuable at k5'
            rw [if_neg (by simp)] at k5'
            have h' : (pure OpenResult.newBlocksOpened : M OpenResult) s5 = .ok (r', s') := k5'
            exact (opure_ok h').1
          rw [toContinuable_new cont _ s5 r' s' k5]
          exact ⟨how5, fun _ => hr5, fun hne => absurd hr5 hne⟩
        · have hA : res = result ∧ CleanG src L s5 c ∧ s5.nodes = s3.nodes ∧ s5.pc.opened = s3.pc.opened ∧
              (l = lbo ∨ l = s3.pc.opened.getLast?) := by
            rcases hord with ⟨_, a2, a3, a4, a5, _, a7⟩ | ⟨_, b2⟩ | ⟨p', c', c1, _⟩ | ⟨c', d1, _⟩
            · exact ⟨a2, a3, a4, a5, a7⟩
            · exact absurd b2 hnew
            · cases c1
            · cases d1
          obtain ⟨a2, a3, a4, a5, a7⟩ := hA
          obtain ⟨b1, b2, b3⟩ := toContinuableG_cl L n0 tp cont res l s5 c r' s' a3 how5 (fun hr hct0 => by
            rw [a2] at hr
            obtain ⟨q1, q2⟩ := hres3 hr hct0
            refine ⟨?_, fun hct => ?_⟩
            · rcases a7 with a7 | a7
              · rw [a7, q1, a5]
              · rw [a7, a5]
            · obtain ⟨lb, h1', h2'⟩ := q2 hct
              exact ⟨lb, by rw [a5]; exact h1', by simp only [nd, a4]; exact h2'⟩) k5
          refine ⟨b1, fun hn => ?_, fun _ => by rw [b2, a5, hop3]; exact List.Sublist.refl _⟩
          rw [a2] at b3
          rcases b3 with b3 | ⟨b3, _⟩
          · rw [b3]; exact hn
          · rw [hn] at b3; cases b3
      | retry p' =>
        dsimp only at k5
        obtain ⟨s6, s7, h7, k7⟩ := obind_ok k5
        have e7 : s7 = s5 := by cases h7; rfl
        subst s7
        have hrec : openBlocksLoopT pts blank fuel tdone cont p' res l s5 = .ok (r', s') := by
          split at k7
          · obtain ⟨_, _, hthrow, _⟩ := obind_ok k7
            cases hthrow
          · exact k7
        have hC : ∃ c', res = .newBlocksOpened ∧ CleanG src L s5 c' ∧ NP old s0 s5 := by
          rcases hord with ⟨a1, _⟩ | ⟨b1, _⟩ | ⟨p'', c', _, c2, c3, _, c5⟩ | ⟨c', d1, _⟩
          · cases a1
          · cases b1
          · exact ⟨c', c2, c3, c5⟩
          · cases d1
        obtain ⟨c', hnew, hc5, hnp5⟩ := hC
        have hC2 : FreshN n0 s5 ∧ n0 ≤ p' ∧ p' < s5.nodes.length ∧ (nd s5 p').kind ≠ .paragraph := by
          rcases hcl with ⟨a1, _⟩ | ⟨b1, _⟩ | ⟨p'', c1, c2, c3, c4, c5⟩ | ⟨d1, _⟩
          · cases a1
          · cases b1
          · cases c1; exact ⟨c2, c3, c4, c5⟩
          · cases d1
        obtain ⟨d1, d2, d3, d4⟩ := hC2
        obtain ⟨e1, e2, _⟩ := ih tdone cont p' res l s5 c' r' s' hc5 hnp5 how5 d1 (.inr d2) d3 d4
          (fun hr => by rw [hnew] at hr; cases hr) hrec
        have hr' := e2 hnew
        exact ⟨e1, fun _ => hr', fun hne => absurd hr' hne⟩
      | retryTransformed =>
        dsimp only at k5
        obtain ⟨s6, s7, h7, k7⟩ := obind_ok k5
        have e7 : s7 = s5 := by cases h7; rfl
        subst s7
        have hrec : openBlocksLoopT pts blank fuel true false parent res l s5 = .ok (r', s') := by
          split at k7
          · obtain ⟨_, _, hthrow, _⟩ := obind_ok k7
            cases hthrow
          · exact k7
        have hC : ∃ c', CleanG src L s5 c' ∧ NP old s0 s5 := by
          rcases hord with ⟨a1, _⟩ | ⟨b1, _⟩ | ⟨p'', c', c1, _⟩ | ⟨c', _, d2, _, d4⟩
          · cases a1
          · cases b1
          · cases c1
          · exact ⟨c', d2, d4⟩
        obtain ⟨c', hc5, hnp5⟩ := hC
        have hC2 : res = result ∧ FreshN n0 s5 ∧ KG s3 s5 ∧ s5.pc.opened = s3.pc.opened.dropLast := by
          rcases hcl with ⟨a1, _⟩ | ⟨b1, _⟩ | ⟨p'', c1, _⟩ | ⟨_, d0, d2, d3, d4⟩
          · cases a1
          · cases b1
          · cases c1
          · exact ⟨d0, d2, d3, d4⟩
        obtain ⟨d0, d1, d2, d4⟩ := hC2
        obtain ⟨e1, e2, e3⟩ := ih true false parent res l s5 c' r' s' hc5 hnp5 how5 d1 hptp (Nat.lt_of_lt_of_le hpl3 d2.1)
          (by rw [d2.2 parent hpl3]; exact hpk3) (fun _ hct => by cases hct) hrec
        exact ⟨e1, fun hn => e2 (by rw [d0]; exact hn), fun hne => by
          have := e3 hne
          rw [d4, hop3] at this
          exact this.trans (List.dropLast_sublist _)⟩
    split at k3
    · exact exit k3
    · next hsome0 =>
      have hsome : (RCur.view src c).isSome = true := by
        cases hv : RCur.view src c with
        | none => rw [hv] at hsome0; simp at hsome0
        | some l => rfl
      obtain ⟨ch, s4, h4, k4⟩ := obind_ok k3
      obtain ⟨_, e4⟩ := oliftE_ok h4
      subst s4
      split at k4
      · exact exit k4
      · split at k4
        · obtain ⟨c', s5, h5, k5⟩ := obind_ok k4
          obtain ⟨_, e5⟩ := oliftE_ok h5
          subst s5
          obtain ⟨bps, s6, h6, k6⟩ := obind_ok k5
          obtain ⟨_, e6⟩ := opure_ok h6
          subst s6
          exact viaTry bps hsome k6
        · obtain ⟨bps, s6, h6, k6⟩ := obind_ok k4
          obtain ⟨_, e6⟩ := opure_ok h6
          subst s6
          exact viaTry bps hsome k6

/-- **openBlocksT under the close discipline**: from `CInvG` for the whole stack (and a clean reader) it ends with `CInvG`
    for the whole stack; every node it created hangs below `parent` or below another new node; the setext key points
    to a node that existed before -/
theorem openBlocksT_clG (L : Int) (parent : Nat) (blank : Bool) (s : St) (c : RCur) (r' : OpenResult) (s' : St)
    (hc : CleanG src L s c) (hent : Ent s.pc.opened s) (hci : CInvG False src s s.pc.opened) (hpl : parent < s.nodes.length)
    (hpk : (nd s parent).kind ≠ .paragraph) (h : openBlocksT pts parent blank s = .ok (r', s')) :
    OWG src s.nodes.length parent s' ∧ (r' ≠ .newBlocksOpened → s'.pc.opened.Sublist s.pc.opened) := by
  have how : OWG src s.nodes.length parent s :=
    ⟨hci, (fun x hx q hq => by rw [nd_default_of_ge s hx] at hq; cases hq), Nat.le_refl _,
      fun t ht => tmp_lt (hc.inv.tmpk t ht)⟩
  have hfn : FreshN s.nodes.length s := fun i hi => by rw [nd_default_of_ge s hi]; decide
  unfold openBlocksT at h
  obtain ⟨lb, s1, h1, k1⟩ := obind_ok h
  obtain ⟨hlb, hs1⟩ := olastOpenedBlock_ok h1
  subst s1
  subst lb
  have fin : ∀ cont, ContOK cont s →
      (do let v ← source
          openBlocksLoopT pts blank (retryFuel v) false cont parent OpenResult.noBlocksOpened s.pc.opened.getLast? : M OpenResult) s
      = .ok (r', s') → OWG src s.nodes.length parent s' ∧ (r' ≠ .newBlocksOpened → s'.pc.opened.Sublist s.pc.opened) := by
    intro cont hco k2
    obtain ⟨v, s3, h3, k3⟩ := obind_ok k2
    have e3 : s3 = s := by cases h3; rfl
    subst s3
    obtain ⟨a1, _, a3⟩ := openBlocksLoopT_clG hag hagT L s.nodes.length parent blank _ s hent _ false cont parent _ _ s c r' s' hc
      (.inl ⟨rfl, rfl⟩) how hfn (.inl rfl) hpl hpk (fun _ _ => ⟨rfl, hco⟩) k3
    exact ⟨a1, a3⟩
  dsimp only at k1
  cases hl : s.pc.opened.getLast? with
  | none =>
    rw [hl] at k1
    dsimp only at k1
    simp only [pure_bind] at k1
    rw [← hl] at k1
    exact fin false (fun h => by cases h) k1
  | some b =>
    rw [hl] at k1
    dsimp only at k1
    obtain ⟨n, s2, h2, k2⟩ := obind_ok k1
    obtain ⟨hn, e2⟩ := ogetNode_ok h2
    subst s2
    subst n
    simp only [pure_bind] at k2
    rw [← hl] at k2
    exact fin _ (fun hct => ⟨b, hl, by simpa using hct⟩) k2

end walk

end GM.Blocks.TX
